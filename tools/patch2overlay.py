#!/usr/bin/env python3
"""patch2overlay.py <patch.diff> <outdir>
Builds a go-build overlay (outdir/ov.json) equivalent to applying the unified
diff to /repo, without touching /repo: every file the patch touches is copied
to outdir/tree/<path>, the patch is applied there, and the overlay maps
/repo/<path> to the patched copy (deleted files map to "")."""
import json, os, re, shutil, subprocess, sys
patch, out = os.path.abspath(sys.argv[1]), os.path.abspath(sys.argv[2])
tree = os.path.join(out, "tree")
shutil.rmtree(out, ignore_errors=True)
os.makedirs(tree)
files = set()
for l in open(patch, errors="replace"):
    m = re.match(r'^(?:---|\+\+\+) (?:a/|b/)(\S+)', l)
    if m:
        files.add(m.group(1))
for f in files:
    src = os.path.join("/repo", f)
    dst = os.path.join(tree, f)
    os.makedirs(os.path.dirname(dst), exist_ok=True)
    if os.path.exists(src):
        shutil.copy2(src, dst)
r = subprocess.run(["patch", "-p1", "-s", "-d", tree, "-i", patch], capture_output=True, text=True)
if r.returncode != 0:
    print(r.stdout, r.stderr, file=sys.stderr)
    sys.exit(1)
repl = {}
for f in files:
    dst = os.path.join(tree, f)
    if not f.endswith(".go"):
        continue
    repl[os.path.join("/repo", f)] = dst if os.path.exists(dst) else ""
json.dump({"Replace": repl}, open(os.path.join(out, "ov.json"), "w"), indent=1)
print(os.path.join(out, "ov.json"))
