#!/usr/bin/env python3
"""merge_known.py Cxx [--skip class ...] [--fixed class=commit ...]
Merges /verif/harness/cxx/known.proposed.json into /verif/known_findings.json.
Classes given with --skip are dropped (e.g. because fixed); --fixed records a fixed entry."""
import json, sys
pid = sys.argv[1]
skip, fixed = set(), []
mode = None
for a in sys.argv[2:]:
    if a in ('--skip', '--fixed'):
        mode = a; continue
    if mode == '--skip': skip.add(a)
    if mode == '--fixed':
        c, commit = a.rsplit('=', 1); fixed.append((c, commit)); skip.add(c)
kf = json.load(open('/verif/known_findings.json'))
prop = json.load(open('/verif/harness/%s/known.proposed.json' % pid.lower()))
have = {(f['property'], f['class']) for f in kf['findings']}
what = {}
for f in prop['findings']:
    what[f['class']] = f.get('what', '')
    if f['class'] in skip or (f['property'], f['class']) in have:
        continue
    kf['findings'].append(f)
    print('added', f['property'], f['class'])
for c, commit in fixed:
    e = {'property': pid, 'commit': commit, 'what': (c + ': ' + what.get(c, '')).strip(': ')}
    if e not in kf['fixed']:
        kf['fixed'].append(e); print('fixed', e)
kf['findings'].sort(key=lambda f: (f['property'], f['class']))
json.dump(kf, open('/verif/known_findings.json', 'w'), indent=1, ensure_ascii=False)
