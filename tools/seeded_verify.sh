#!/bin/sh
# seeded_verify.sh <id-dir under /verif/seeded> : confirms a seeded change independently of the checks:
#   1. patch applies to a scratch worktree of /repo and the touched packages build and pass their own tests
#   2. the demonstration fails with the patch and passes without it
# usage: tools/seeded_verify.sh /verif/seeded/C07-a
set -e
D=$(readlink -f "$1"); ID=$(basename "$D")
export GOFLAGS=-mod=mod GOPROXY=off
WT=/tmp/seedwt-$ID
git -C /repo worktree remove --force $WT 2>/dev/null || true
git -C /repo worktree add -q --detach $WT HEAD
trap 'git -C /repo worktree remove --force $WT' EXIT
cd $WT
PKGS=$(grep -E '^\+\+\+ b/' $D/patch.diff | sed 's|+++ b/||' | xargs -n1 dirname | sort -u | sed 's|^|./|')
echo "== touched packages: $PKGS"
demo_run() { # copies demo files in, runs, removes
  if [ -f $D/demo_test.go ]; then
    PKG=$(jq -r .demo_pkg $D/meta.json); cp $D/demo_test.go $WT/$PKG/zz_seeded_demo_test.go
    (cd $WT && go test -count=1 -run "$(jq -r .demo_run $D/meta.json)" ./$PKG 2>&1 | tail -15); rc=$?
    rm -f $WT/$PKG/zz_seeded_demo_test.go; return $rc
  fi
}
echo "== demo WITHOUT patch (must pass)"; if demo_run | tee /dev/stderr | grep -q '^ok'; then echo PASS-without; else echo "demo does not pass on clean tree"; fi
git apply $D/patch.diff
echo "== build + package tests WITH patch (must pass)"
go build ./... && go test -count=1 $PKGS 2>&1 | tail -15
echo "== demo WITH patch (must fail)"; if demo_run | tee /dev/stderr | grep -q '^ok'; then echo "demo still passes with patch (BAD)"; else echo FAIL-with-patch-as-expected; fi
