#!/bin/bash
# seeded_verify.sh <dir under /verif/seeded> : confirms a seeded change independently of the checks, in a scratch worktree:
#   1. demo passes on the clean tree  2. patch applies, module builds, touched packages' own tests pass  3. demo fails with the patch
# writes <dir>/verify.txt (summary) and <dir>/verify.log (full output)
D=$(readlink -f "$1"); ID=$(basename "$D")
export GOFLAGS=-mod=mod GOPROXY=off
WT=/tmp/seedwt-$ID
git -C /repo worktree remove --force $WT 2>/dev/null
git -C /repo worktree add -q --detach $WT HEAD || exit 2
trap 'git -C /repo worktree remove --force $WT' EXIT
cd $WT
LOG=$D/verify.log; : > $LOG
PKG=$(jq -r .demo_pkg $D/meta.json); RUN=$(jq -r .demo_run $D/meta.json)
PKGS=$(grep -E '^\+\+\+ b/' $D/patch.diff | sed 's|+++ b/||' | xargs -n1 dirname | sort -u | sed 's|^|./|' | tr '\n' ' ')
demo() { cp $D/demo_test.go $WT/$PKG/zz_seeded_demo_test.go; go test -count=1 -run "$RUN" ./$PKG >> $LOG 2>&1; rc=$?; rm -f $WT/$PKG/zz_seeded_demo_test.go; return $rc; }
echo "== demo on clean tree" >> $LOG; if demo; then A=pass; else A=FAIL; fi
if git apply $D/patch.diff 2>>$LOG; then P=applies; else P=NOAPPLY; fi
echo "== build" >> $LOG; if go build ./... >> $LOG 2>&1; then B=builds; else B=NOBUILD; fi
echo "== own tests of $PKGS" >> $LOG; if go test -count=1 -vet=off $PKGS > $LOG.suite 2>&1; then T=tests-pass; else
  # compare with the clean tree: tests that fail there too (network-dependent, timing-bound) do not count against the change
  grep -E '^\s*--- FAIL' $LOG.suite | sed 's/ (.*//' | sort -u > $LOG.f1
  git apply -R $D/patch.diff; go test -count=1 -vet=off $PKGS > $LOG.suite0 2>&1; git apply $D/patch.diff
  grep -E '^\s*--- FAIL' $LOG.suite0 | sed 's/ (.*//' | sort -u > $LOG.f0
  if [ -s $LOG.f1 ] && [ -z "$(comm -23 $LOG.f1 $LOG.f0)" ]; then T="tests-pass(same-failures-as-clean-tree:$(tr -d ' ' < $LOG.f1 | tr '\n' ',' | sed 's/---FAIL://g'))"; else T=TESTS-FAIL; fi
  cat $LOG.suite0 >> $LOG; rm -f $LOG.f0 $LOG.f1 $LOG.suite0
fi; cat $LOG.suite >> $LOG; rm -f $LOG.suite
echo "== demo with patch" >> $LOG; if demo; then C=PASSES-BAD; else C=fails; fi
echo "$ID head=$(git -C /repo rev-parse --short HEAD) demo-clean=$A patch=$P build=$B suite($PKGS)=$T demo-patched=$C" | tee $D/verify.txt
