#!/bin/bash
# baseline_check.sh : runs the repository's own suite (guard off, no overlay) on /repo's current tree and
# compares with BASELINE.json's stable_pass list. Prints tests of that list that did not pass.
export GOFLAGS=-mod=mod GOPROXY=off
OUT=/verif/.work/baseline-$$.json
(cd /repo && go test -mod=mod -json -vet=off -count=1 -timeout 25m ./... > $OUT 2>/verif/.work/baseline-$$.err)
python3 - $OUT <<'PY'
import json,sys
res={}
for l in open(sys.argv[1],errors='replace'):
    try: e=json.loads(l)
    except Exception: continue
    if e.get('Test') and e.get('Action') in ('pass','fail','skip'):
        res[e['Package']+'::'+e['Test']]=e['Action']
base=json.load(open('/root/.vp/BASELINE.json'))['stable_pass']
bad=[t for t in base if res.get(t)!='pass']
print("stable_pass:",len(base),"passed now:",len(base)-len(bad),"not passing:",len(bad))
for t in bad[:60]: print("  ",t,res.get(t,'MISSING'))
PY
rm -f $OUT /verif/.work/baseline-$$.err
