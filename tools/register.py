#!/usr/bin/env python3
"""register.py Cxx <technique> <leveltext> <levelnote> [key=value ...]
Marks a property Ready in cmd/vcheck/table.go and sets its texts.
Optional key=value: Overlay=pkg  BatchesQuick=8 TimeoutQuick=10*m RaceQuick=true Env=GOMAXPROCS:4 ..."""
import json, re, sys
pid, tech, text, note = sys.argv[1:5]
extra = sys.argv[5:]
p = '/verif/cmd/vcheck/table.go'
s = open(p).read()
m = re.search(r'\treg\(Prop\{ID: "%s".*?\n\t\}\)\n' % pid, s, re.S)
blk = m.group(0)
def setf(blk, key, val):
    if re.search(r'\b%s:' % key, blk):
        return re.sub(r'(\b%s:\s*)("(?:[^"\\]|\\.)*"|[^,\n]+)' % key, lambda mm: mm.group(1) + val, blk, count=1)
    return blk.replace('\n\t})\n', '\n\t\t%s: %s,\n\t})\n' % (key, val))
blk = setf(blk, 'Technique', json.dumps(tech))
blk = setf(blk, 'LevelText', json.dumps(text))
blk = setf(blk, 'LevelNote', json.dumps(note))
blk = setf(blk, 'Ready', 'true')
for kv in extra:
    k, v = kv.split('=', 1)
    if k in ('Overlay',):
        v = json.dumps(v)
    if k == 'Env':
        a, b = v.split(':', 1)
        v = 'map[string]string{%s: %s}' % (json.dumps(a), json.dumps(b))
    blk = setf(blk, k, v)
s = s[:m.start()] + blk + s[m.end():]
open(p, 'w').write(s)
print(blk)
