#!/bin/sh
# seeded_check_as.sh <ID> <PROP> [tier] : runs another property's check against a seeded change (cross-check)
ID=$1; PROP=$2; TIER=${3:-quick}; D=/verif/seeded/$ID; OV=/verif/.work/seededx-$ID-$PROP
/verif/tools/patch2overlay.py $D/patch.diff $OV >/dev/null || exit 3
cd /verif; VERIF_EXTRA_OVERLAY=$OV/ov.json ./check $PROP $TIER > $D/check-as-$PROP-$TIER.txt 2>&1; rc=$?; rm -rf $OV
echo "$ID as $PROP $TIER rc=$rc $(grep -c '^VIOLATION' $D/check-as-$PROP-$TIER.txt) violation-lines; $(grep -E '^  class=' $D/check-as-$PROP-$TIER.txt | head -3 | tr '\n' ';')"
