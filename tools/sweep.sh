#!/bin/bash
# sweep.sh <tier> <seed> [props...] : runs the checks for one seed and prints one line per check; non-silent runs are flagged.
TIER=$1; SEED=$2; shift 2
PROPS="$@"; [ -z "$PROPS" ] && PROPS=$(jq -r '.checks[].property_id' /verif/MANIFEST.json)
cd /verif
for p in $PROPS; do
  out=$(VERIF_SEED=$SEED ./check $p $TIER 2>&1); rc=$?
  line=$(echo "$out" | grep -E "^$p $TIER seed=" | tail -1)
  if [ $rc -ne 0 ] || echo "$out" | grep -q '^VIOLATION'; then
    echo "ALARM rc=$rc seed=$SEED $line"; echo "$out" | grep -E "^VIOLATION|^  class=|no verdict|watchdog|BUILD" | head -8
  else
    echo "ok seed=$SEED $line"
  fi
done
