#!/bin/sh
# seeded_check.sh <ID> [tier]  : runs the property's check against the seeded change via a build overlay
# (equivalent to git-applying the patch to /repo, but /repo stays untouched). Records the outcome in seeded/<ID>/check-<tier>.txt
ID=$1; TIER=${2:-quick}; D=/verif/seeded/$ID
PROP=$(jq -r .property $D/meta.json)
OV=/verif/.work/seeded-$ID
/verif/tools/patch2overlay.py $D/patch.diff $OV >/dev/null || { echo "$ID: patch does not apply to current /repo" | tee $D/check-$TIER.txt; exit 3; }
cd /verif
VERIF_EXTRA_OVERLAY=$OV/ov.json ./check $PROP $TIER > $D/check-$TIER.txt 2>&1; rc=$?
rm -rf $OV
echo "$ID $PROP $TIER rc=$rc $(grep -c '^VIOLATION' $D/check-$TIER.txt) violation-lines; $(grep -E '^  class=' $D/check-$TIER.txt | head -3 | tr '\n' ';')"
exit $rc
