#!/bin/sh
# applyfix.sh <diff> "<commit message starting with fix:>" <pkg patterns...>
# applies a candidate fix to /repo, builds, runs the given packages' tests, commits; reverts on failure.
export GOFLAGS=-mod=mod GOPROXY=off
D=$(readlink -f "$1"); MSG="$2"; shift 2
cd /repo || exit 2
if [ -n "$(git status --porcelain --untracked-files=no)" ]; then echo "/repo dirty"; exit 2; fi
git apply "$D" || { echo "apply failed"; exit 1; }
if go build ./... && go vet "$@" >/dev/null 2>&1 || true; then :; fi
if go build ./... && go test -count=1 -vet=off "$@" 2>&1 | tail -20 | tee /tmp/applyfix.$$.log | grep -qE '^(FAIL|---.FAIL|panic)'; then
  cat /tmp/applyfix.$$.log; rm -f /tmp/applyfix.$$.log; git checkout -- .; echo "TESTS FAILED: reverted"; exit 1
fi
cat /tmp/applyfix.$$.log; rm -f /tmp/applyfix.$$.log
git commit -qam "$MSG" && git log --oneline | head -1
