#!/usr/bin/env python3
"""mutprompt.py N Cxx Cyy ... -> prints the prompt for mutation agent N (property texts only)."""
import json, sys
n = sys.argv[1]; ids = sys.argv[2:]
props = {json.loads(l)["id"]: json.loads(l) for l in open('/verif/properties.jsonl')}
out = []
out.append(f"""You are a software engineer helping to evaluate how well a (separately developed, not visible to you) verification effort for the Go library ipfs/boxo detects regressions. You have your own scratch git worktree of the library at /tmp/mw-{n} (work only there) and an output directory /tmp/mw-{n}-out (create it). Do not read or write anything else on the machine outside the Go module cache.

For EACH property below, produce 2 independent changes to the library's non-test source code that BREAK the property, such that:
 (a) the module still compiles: `go build ./...` in the worktree;
 (b) the existing tests of every package you touched, and of the packages that obviously depend on the touched code, still pass (`go test -count=1 <pkgs>`); if an existing test fails because of your change, the change is not acceptable - pick another one;
 (c) the break needs something specific to manifest - a particular interleaving, a crash or fault at a particular point, a multi-step sequence of operations, an unusual input or configuration, or two cooperating sites that each look fine alone - NOT something that ordinary use would expose at once;
 (d) it is realistic: the kind of slip a maintainer makes in a refactor or optimisation (off-by-one, dropped or narrowed lock, reordered writes, stale cache / missing invalidation, wrong variable, lost error, boundary condition), a few lines, no dead giveaways in comments.
The two changes for one property should attack different mechanisms/clauses of the property.

For each change also write a demonstration: one Go test file which FAILS with the change applied and PASSES on the unchanged tree (deterministic if at all possible; for interleaving-dependent breaks loop up to a bound and state the observed hit rate). The demo is a single file that I will copy into one package directory of the library (it may be an in-package or external _test file) and run with `go test -run <regexp>`.

Procedure per change: start from the clean worktree; edit; build; run tests (b); add the demo file, run it (must FAIL); revert only the library change (save it first: `git diff -- . ':(exclude)*_test.go' > /tmp/mw-{n}-out/cur.diff; git apply -R /tmp/mw-{n}-out/cur.diff`; NEVER use `git stash`: the stash is shared between worktrees and other workers would pop it) and run the demo again (must PASS); then write the outputs and reset the worktree (`git checkout -- . && git clean -fdq`) so that every patch is against the clean tree.

Outputs per change, in /tmp/mw-{n}-out/<PROPERTY>-<a|b>/ :
  patch.diff   `git diff` of the library change only (no test files), applicable with `git apply` to the clean tree
  demo_test.go the demonstration file (package clause must match the target package dir)
  meta.json    {{"property": "Cxx", "summary": "one line: what is changed", "breaks": "which clause of the property and how", "needs": "what has to happen for it to manifest", "demo_pkg": "package dir relative to the repo root where demo_test.go is to be copied, e.g. ipld/merkledag", "demo_run": "regexp for go test -run", "tests_run": ["go test commands you ran that passed with the change"], "notes": "..."}}

Environment: every shell call needs `export GOFLAGS=-mod=mod GOPROXY=off` (there is no network; do NOT set GOTOOLCHAIN or GOSUMDB). The machine is shared and heavily loaded: builds and tests are slow, run only what you need, with -count=1, and be patient with timeouts (use generous ones). Do not commit anything.

Final message: for each change one paragraph (property, files touched, what it does, what it needs to manifest, demo hit rate, which existing tests you ran).

Properties:
""")
for i in ids:
    p = props[i]
    out.append(f"--- {i}: {p['title']}\nStatement: {p['statement']}\nQuantifier: {p['quantifier']['text']}\nRelevant source files: {', '.join(p['anchors']['files'])}\n")
print("\n".join(out))
