#!/usr/bin/env python3
"""Regenerates the generated sections of DESIGN.md (between <!-- BEGIN:x --> / <!-- END:x --> markers):
findings (from known_findings.json) and seeded (from seeded/*/meta.json, check-*.txt, verify.txt)."""
import json, os, re, glob
kf = json.load(open('/verif/known_findings.json'))
out = []
out.append("| property | class | status | what fails |\n|---|---|---|---|")
for f in kf['fixed']:
    cls, _, what = f['what'].partition(': ')
    out.append(f"| {f['property']} | `{cls}` | fixed in /repo `{f['commit']}` | {what[:260]} |")
for f in kf['findings']:
    out.append(f"| {f['property']} | `{f['class']}` | recorded (KNOWN-FINDING) | {f.get('what','')[:260]} |")
findings = "\n".join(out)
rows = ["| id | property | change (independently written) | needs | demo fails with / passes without | caught by | classes reported |\n|---|---|---|---|---|---|---|"]
for d in sorted(glob.glob('/verif/seeded/*/')):
    i = os.path.basename(d.rstrip('/'))
    try: m = json.load(open(d+'meta.json'))
    except Exception: continue
    ver = open(d+'verify.txt').read().strip() if os.path.exists(d+'verify.txt') else 'not yet verified'
    okv = 'demo-clean=pass' in ver and 'demo-patched=fails' in ver and 'build=builds' in ver
    caught, classes = 'MISSED', ''
    for tier in ('quick', 'thorough'):
        p = d+f'check-{tier}.txt'
        if os.path.exists(p):
            t = open(p).read()
            if re.search(r'^VIOLATION', t, re.M):
                caught = f'`./check {m["property"]} {tier}`'
                cl = re.findall(r'^  class=(\S+)', t, re.M)
                classes = ', '.join(f'`{c}`' for c in cl[:3]) + (' …' if len(cl) > 3 else '')
                break
    if caught == 'MISSED':
        for f in sorted(glob.glob(d+'check-as-*-*.txt')):
            t = open(f).read()
            if re.search(r'^VIOLATION', t, re.M):
                pp, tier = os.path.basename(f)[len('check-as-'):-4].rsplit('-', 1)
                caught = f'`./check {pp} {tier}` (cross-property: the break is a {pp}-type break)'
                cl = re.findall(r'^  class=(\S+)', t, re.M)
                classes = ', '.join(f'`{c}`' for c in cl[:3]) + (' …' if len(cl) > 3 else '')
                break
    if m.get('superseded'):
        caught, classes = 'n/a: ' + m['superseded'], ''
    suite = 'suite passes' if 'tests-pass' in ver else ('suite: see verify.log' if ver != 'not yet verified' else '')
    rows.append(f"| {i} | {m['property']} | {m.get('summary','')[:200]} | {m.get('needs','')[:200]} | {'confirmed' if okv else ver[:80]}; {suite} | {caught} | {classes} |")
seeded = "\n".join(rows)
s = open('/verif/DESIGN.md').read()
for name, body in (('findings', findings), ('seeded', seeded)):
    b, e = f'<!-- BEGIN:{name} -->', f'<!-- END:{name} -->'
    if b in s:
        s = s[:s.index(b)+len(b)] + "\n" + body + "\n" + s[s.index(e):]
open('/verif/DESIGN.md', 'w').write(s)
print("ok")
