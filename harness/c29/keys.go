package main

import (
	"crypto/ecdsa"
	"crypto/elliptic"
	"encoding/base64"
	"math/big"

	ic "github.com/libp2p/go-libp2p/core/crypto"

	"verif/vlib"
)

// A fixed RSA-2048 key (generated once for this harness, never used outside
// it): RSA key generation is slow and not reproducible from a seed, and an RSA
// peer ID cannot carry its public key, so it exercises the /pk/ publication
// and the embedded-public-key record path.
const rsaKeyB64 = "" +
	"CAASpwkwggSjAgEAAoIBAQDJodk/t/qGH6JJN2WMOBPJRacdlnKHmTy95lRDtgUDEXRmrsOdFvhmfZim9vEngFhEdvFq94v52JeI" +
	"l2Y4neXAh1stR0WzOgvl8kvl9KoZ75tyYP+YTCUyTx3zCBzuUiWt0a157nmKhteHJxHnHkHyl88oztAN5XZnZAlA8L5kysgonRZm" +
	"vQszieKD8VPfaKYALdQdihHzWxSTGsg2bp7ej89XHeqwrsCCcV7AGXzl/zW2sMkEwBaynYF5Nwt4lHzahu9bWl4VlLXFkjB/iJwz" +
	"cFh7dOQZpwlM1dxk+3lQ0V+16iEkxZ9j2+ejuIozcJ2uiX6QFlVnnp+5vJ5rn1BbAgMBAAECggEARON2LS33exGdybQSjsiuAes5" +
	"QIOhV7DELwFdstCif7zb7yUwkiBB+ApbOFhQZjWUcrfMncY73b3hb/qCIz/XOmNEhIDAUI65d/PDeKqR31Cc5IQ9b1Q8tSaQzfLs" +
	"p4QLeYqU4X7XqbuOMY/orvUIhRDW51NZhBXs0UA9ZSGbeyWs6AO6Vknp6oDCwHI9zh6W5RzdzpecjSKmr2gUlZWv39IpAQ9jvQ1K" +
	"0RhaEy5n8dF0aoyLJgEXnLJmNPI3z/64BpV9fMMfNIjI0+b9vTvgzOnUevpgSw1IhcplkezZTFwrsl4xZknVv8CVlMOlAuhuJM2e" +
	"k44YAXeA2hx8M4OkMQKBgQDLA/ZRcXNarIpc7JFfahRXOak4F4b9nBJS/j0d8EitHjsMrBJzM6CUw9h9EHaFi7ZNuq3i1aF5zGuK" +
	"7buAmarEVbyc9fHzcV9cXBK5LHWvt1Ebw3NdBUTwFpzzSSAsYQdJlfrbuEpVs9VJA3BSzxkk1MtLdbhS8AjlSs2wxJXnKQKBgQD+" +
	"QXeagbIYSjwLzYinc6rA81DdJynWFC4+pfMgEuD5Z9xh89XTG9yWNKpiQeJWvKyOEu9uk1EsuxeNtdCS3C+Q1Kr+ghNGL1yPlgVO" +
	"jR/dn8Zc2SEmEHdqLj4tWYW4gknivOnMH7GbO9C7N2oeR0YGQ8PyN8EVQcBwXL1CU5Z/4wKBgAXkUYu/jSd+hm13+CgavghiBgU4" +
	"uZQ2qVl7Q27RAGr1y6TsgYSSZQCsRmYqyiXKDjpnRpCkvpD4W86mY6Cx1QDptBWiFamJCsl1ap2xKqE04se5fmmes4d8QIXXA3YG" +
	"Qt3h2mvyB0ZBd9ksnl/o3sPw4Q2JlxXhHYD6EMomimsxAoGBALLzBOkcC2sJJIXyHRIuWKoBFpLws4NXJM03I40ZfHpNXVEbuw0g" +
	"ePrHCnypflIp7RD5xsb+rI1dCNDWfHxAuMGozMjgaAxn3S+6GPYWYa0sfQJwV+JgiIuVDHICphkcqkAJUkw2qlxllx2NfQTeiSxz" +
	"mX/rOdxqMLVksFf0WOKdAoGAbnHohiXrYayT4AxTic8eow8yqtDbT0a/kTB4yiHYvePB2+3SlIPZ4CmIIdYZb3hjAgFj65KDYqSG" +
	"86bZrftaFv5vLYhqvFrJRiX+xTz+bLoeBO1MXKqgRtl2OyNyn8J1O/L58CLuMdXOodTUrZHeShTePObVrhzE4LXUBQoq7+8="

func rsaKey() ic.PrivKey {
	b, err := base64.StdEncoding.DecodeString(rsaKeyB64)
	if err != nil {
		panic(err)
	}
	sk, err := ic.UnmarshalPrivateKey(b)
	if err != nil {
		panic(err)
	}
	return sk
}

type randReader struct{ r *vlib.Rand }

func (rr randReader) Read(p []byte) (int, error) {
	copy(p, rr.r.Bytes(len(p)))
	return len(p), nil
}

func edKey(r *vlib.Rand) ic.PrivKey {
	sk, _, err := ic.GenerateEd25519Key(randReader{r})
	if err != nil {
		panic(err)
	}
	return sk
}

func secpKey(r *vlib.Rand) ic.PrivKey {
	for {
		sk, err := ic.UnmarshalSecp256k1PrivateKey(r.Bytes(32))
		if err == nil {
			return sk
		}
	}
}

func ecdsaKey(r *vlib.Rand) ic.PrivKey {
	curve := elliptic.P256()
	d := new(big.Int).SetBytes(r.Bytes(32))
	n1 := new(big.Int).Sub(curve.Params().N, big.NewInt(1))
	d.Mod(d, n1)
	d.Add(d, big.NewInt(1))
	x, y := curve.ScalarBaseMult(d.Bytes())
	sk, _, err := ic.ECDSAKeyPairFromKey(&ecdsa.PrivateKey{PublicKey: ecdsa.PublicKey{Curve: curve, X: x, Y: y}, D: d})
	if err != nil {
		panic(err)
	}
	return sk
}
