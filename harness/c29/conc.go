package main

// Stratum "conc": k (2-6) goroutines publish pairwise distinct values for ONE
// key at the same time through the real NameSystem. The harness's datastore
// and ValueStore wrappers yield / sleep at PRNG-chosen calls: a delay in the
// datastore Get of the key's record is exactly a pre-emption between "read the
// previous record" and "write the next one".
//
// Oracle (a function of the recorded logs only, so a verdict is sound for the
// schedule that happened):
//
//   - no two records written to the publisher's datastore or announced to
//     routing under the same sequence number carry different values;
//   - the sequence numbers of the records written to the datastore never
//     decrease in write order (the write happens inside the publisher's
//     critical section; the routing PutValue does not, so announcement order is
//     deliberately NOT constrained: two correct publishes may reach routing in
//     either order);
//   - when all k publishes returned nil, the stored sequence number advanced by
//     at least k (every publish changed the value), i.e. final >= start + k,
//     with start = -1 when there was no record.

import (
	"context"
	"fmt"
	"runtime"
	"sort"
	"strings"
	"sync"
	"sync/atomic"
	"time"

	"github.com/ipfs/boxo/ipns"
	"github.com/ipfs/boxo/namesys"
	"github.com/ipfs/boxo/path"
	ds "github.com/ipfs/go-datastore"
	dssync "github.com/ipfs/go-datastore/sync"
	"github.com/libp2p/go-libp2p/core/peer"
	"github.com/libp2p/go-libp2p/core/routing"

	"verif/vlib"
)

// delayPlan is a PRNG-chosen list of actions applied round-robin to the calls
// of one kind: 0 = nothing, 1 = runtime.Gosched, n>1 = sleep n microseconds.
type delayPlan struct {
	acts []int
	n    atomic.Int64
}

func newDelayPlan(r *vlib.Rand, density int) *delayPlan {
	p := &delayPlan{}
	for i := 0; i < 16; i++ {
		switch x := r.Intn(100); {
		case x < density/2:
			p.acts = append(p.acts, 1)
		case x < density:
			p.acts = append(p.acts, r.Range(20, 800))
		default:
			p.acts = append(p.acts, 0)
		}
	}
	return p
}

func (p *delayPlan) hit() {
	i := int(p.n.Add(1)-1) % len(p.acts)
	switch a := p.acts[i]; {
	case a == 1:
		runtime.Gosched()
	case a > 1:
		time.Sleep(time.Duration(a) * time.Microsecond)
	}
}

func (p *delayPlan) String() string { return fmt.Sprint(p.acts) }

type dsPut struct {
	key string
	val []byte
}

// tapDS delays Gets of IPNS records and logs Puts in the order they arrive.
type tapDS struct {
	ds.Datastore
	getPlan *delayPlan
	mu      sync.Mutex
	puts    []dsPut
}

func (t *tapDS) Get(ctx context.Context, key ds.Key) ([]byte, error) {
	v, err := t.Datastore.Get(ctx, key)
	if strings.HasPrefix(key.String(), "/ipns/") {
		t.getPlan.hit() // after the read: the reader now holds a possibly outdated record
	}
	return v, err
}

func (t *tapDS) Put(ctx context.Context, key ds.Key, val []byte) error {
	t.mu.Lock()
	t.puts = append(t.puts, dsPut{key.String(), append([]byte(nil), val...)})
	t.mu.Unlock()
	return t.Datastore.Put(ctx, key, val)
}

func (t *tapDS) takePuts() []dsPut {
	t.mu.Lock()
	defer t.mu.Unlock()
	p := t.puts
	t.puts = nil
	return p
}

// delayVS delays PutValue calls (the part of Publish outside the publisher's lock).
type delayVS struct {
	routing.ValueStore
	plan *delayPlan
}

func (d *delayVS) PutValue(ctx context.Context, key string, val []byte, o ...routing.Option) error {
	d.plan.hit()
	return d.ValueStore.PutValue(ctx, key, val, o...)
}

func concCase(k *vlib.Case) {
	r := k.R
	ctx := context.Background()
	sk := edKey(r)
	pid, err := peer.IDFromPrivateKey(sk)
	if err != nil {
		panic(err)
	}
	name := ipns.NameFromPeer(pid)
	tds := &tapDS{Datastore: dssync.MutexWrap(ds.NewMapDatastore()), getPlan: newDelayPlan(r, vlib.Pick(r, []int{0, 30, 60, 90}))}
	tap := &tapVS{inner: &mapVS{m: map[string][]byte{}}}
	dvs := &delayVS{ValueStore: tap, plan: newDelayPlan(r, vlib.Pick(r, []int{0, 30, 60}))}
	opts := []namesys.Option{namesys.WithDatastore(tds)}
	cacheCfg := "none"
	if r.Chance(1, 2) {
		opts = append(opts, namesys.WithCache(16))
		cacheCfg = "16"
	}
	ns, err := namesys.NewNameSystem(dvs, opts...)
	if err != nil {
		panic(err)
	}
	k.Logf("config key=%s cache=%s dsGetDelays=%s putValueDelays=%s", name, cacheCfg, tds.getPlan, dvs.plan)

	dsKey := namesys.IpnsDsKey(name).String()
	rtKey := string(name.RoutingKey())
	readSeq := func() (int64, string) {
		raw, err := tds.Datastore.Get(ctx, namesys.IpnsDsKey(name))
		if err != nil {
			return -1, ""
		}
		s, err := parseStored(raw)
		if err != nil {
			k.Fail("store/unparsable-record", "the stored record is a valid IPNS record", "parsable", err.Error())
			return -1, ""
		}
		return int64(s.seq), s.value
	}

	root := "/ipfs/" + mkCidStr(r)
	valueNo := 0
	rounds := r.Range(1, 3)
	overlapSeen := false
	for round := 0; round < rounds && !k.Failed(); round++ {
		if round == 0 && r.Chance(1, 2) {
			// sequential warm-up so that the round does not start from "no record"
			v := fmt.Sprintf("%s/v%d", root, valueNo)
			valueNo++
			k.Logf("Publish (sequential) %s", v)
			vp, _ := path.NewPath(v)
			if err := ns.Publish(ctx, sk, vp); err != nil {
				k.Fail("publish/unexpected-error/conc-warmup", "a publish that breaks no rule succeeds", "nil", err.Error())
				return
			}
		}
		start, startVal := readSeq()
		tds.takePuts()
		tap.takePuts()
		n := r.Range(2, 6)
		values := make([]string, n)
		for i := range values {
			values[i] = fmt.Sprintf("%s/v%d", root, valueNo)
			valueNo++
		}
		k.Logf("round %d: %d concurrent Publish of %s/v%d..v%d (stored before: seq=%d %s)", round, n, root, valueNo-n, valueNo-1, start, startVal)

		var inFlight, maxInFlight atomic.Int64
		errs := make([]error, n)
		var wg sync.WaitGroup
		gate := make(chan struct{})
		for i := 0; i < n; i++ {
			vp, err := path.NewPath(values[i])
			if err != nil {
				panic(err)
			}
			wg.Add(1)
			go func(i int, vp path.Path) {
				defer wg.Done()
				<-gate
				c := inFlight.Add(1)
				for {
					m := maxInFlight.Load()
					if c <= m || maxInFlight.CompareAndSwap(m, c) {
						break
					}
				}
				errs[i] = ns.Publish(ctx, sk, vp)
				inFlight.Add(-1)
			}(i, vp)
		}
		close(gate)
		wg.Wait()
		k.C.Count("conc_publishes", int64(n))
		k.C.Max("max_concurrent_publishes", maxInFlight.Load())
		if maxInFlight.Load() >= 2 {
			overlapSeen = true
		}

		nerr := 0
		for i, e := range errs {
			if e != nil {
				nerr++
				k.Fail("publish/unexpected-error/conc", "a publish that breaks no rule succeeds", "nil", fmt.Sprintf("Publish(%s): %v", values[i], e))
			}
		}

		// ---- logs
		type rec struct {
			where string
			seq   uint64
			value string
		}
		var all []rec
		var dsSeqs []uint64
		for _, p := range tds.takePuts() {
			if p.key != dsKey {
				continue
			}
			s, err := parseStored(p.val)
			if err != nil {
				k.Fail("store/unparsable-record", "records written to the datastore are valid", "parsable", err.Error())
				continue
			}
			all = append(all, rec{"datastore", s.seq, s.value})
			dsSeqs = append(dsSeqs, s.seq)
		}
		for _, p := range tap.takePuts() {
			if p.key != rtKey {
				continue
			}
			s, err := parseStored(p.val)
			if err != nil {
				k.Fail("publish/routing-unparsable", "records sent to routing are valid", "parsable", err.Error())
				continue
			}
			all = append(all, rec{"routing", s.seq, s.value})
		}
		k.C.Count("conc_records_observed", int64(len(all)))
		// (1) one value per sequence number
		bySeq := map[uint64]map[string]bool{}
		if start >= 0 {
			bySeq[uint64(start)] = map[string]bool{startVal: true}
		}
		for _, x := range all {
			if bySeq[x.seq] == nil {
				bySeq[x.seq] = map[string]bool{}
			}
			bySeq[x.seq][x.value] = true
		}
		var seqs []uint64
		for s := range bySeq {
			seqs = append(seqs, s)
		}
		sort.Slice(seqs, func(i, j int) bool { return seqs[i] < seqs[j] })
		for _, s := range seqs {
			if len(bySeq[s]) > 1 {
				var vs []string
				for v := range bySeq[s] {
					vs = append(vs, v)
				}
				sort.Strings(vs)
				k.Fail("seq/concurrent/same-seq-different-values", "the sequence increases whenever the value changes: one value per sequence number", "one value for sequence "+fmt.Sprint(s), fmt.Sprintf("%d values under sequence %d: %v (datastore write order %v)", len(vs), s, vs, dsSeqs))
				break
			}
		}
		// (2) datastore writes are ordered by the publisher: never decreasing
		prev := start
		for _, s := range dsSeqs {
			if int64(s) < prev {
				k.Fail("seq/concurrent/decreased", "the stored sequence number never decreases", fmt.Sprintf("non-decreasing from %d", start), fmt.Sprintf("datastore write order %v", dsSeqs))
				break
			}
			prev = int64(s)
		}
		// (3) no lost increment
		final, finalVal := readSeq()
		if nerr == 0 && final < start+int64(n) {
			k.Fail("seq/concurrent/lost-increment", "the sequence increases whenever the value changes: k publishes of k new values advance it by at least k", fmt.Sprintf(">= %d (start %d + %d publishes)", start+int64(n), start, n), fmt.Sprintf("%d (datastore write order %v)", final, dsSeqs))
		}
		// the stored value is one of those published
		if nerr == 0 {
			ok := false
			for _, v := range values {
				ok = ok || v == finalVal
			}
			if !ok {
				k.Fail("publish/concurrent/stored-other-value", "the stored record carries one of the published values", fmt.Sprint(values), finalVal)
			}
			// a resolve now returns one of the values of this round (routing
			// keeps the record that arrived last; the order of arrival is free)
			res, err := ns.Resolve(ctx, name.AsPath())
			if err != nil {
				k.Fail("resolve-after-publish/error/conc", "a published name resolves", "one of "+fmt.Sprint(values), err.Error())
			} else {
				ok := false
				for _, v := range values {
					ok = ok || v == res.Path.String()
				}
				if !ok {
					k.Fail("resolve-after-publish/wrong-value/conc", "Resolve returns a value published in the last round", fmt.Sprint(values), res.Path.String())
				}
			}
		}
	}
	if overlapSeen {
		k.Nontrivial()
	}
}
