// C29: name publishing is monotone and resolution is consistent.
//
// Strata hist-nocache / hist-cache: the real namesys.NewNameSystem is driven by
// generated histories of Publish (with/without explicit sequence, same / other
// value, TTL / EOL options, injected routing failures), Resolve (name in four
// textual forms, with remainders, Resolve and ResolveAsync) and Restart (same
// or fresh local datastore over the same routing store). The monitor reads the
// record in the publisher's datastore and taps every PutValue to the routing
// store before/after every Publish and compares with the statement's sequence
// rules; every Resolve result is compared with the value of the last
// successful Publish.
//
// Stratum chain: IPNS records and DNSLink entries pointing at each other
// (length 1..6, cycles, dangling ends, per-hop TTLs including 0, remainders at
// every hop and in the request) are placed in an in-memory ValueStore / DNS
// stub and resolved with depth limits 1..8, default and unlimited, with and
// without cache and MaxCacheTTL, twice (the second time through the cache).
// Oracle: harness's own chain walk (final path + remainders, recursion error
// iff more hops than depth, TTL = smallest non-zero hop TTL).
//
// No wall-clock value decides a verdict: EOLs are fixed dates ~70 years away,
// hop TTLs are multiples of one hour and a cache hit (which reports
// min(ttl, time left in cache)) is accepted in (expected-10min, expected];
// every case runs under a 120 s watchdog.
package main

import (
	"bytes"
	"context"
	"errors"
	"fmt"
	"net"
	"sort"
	"strings"
	"sync"
	"sync/atomic"
	"time"

	"github.com/ipfs/boxo/ipns"
	"github.com/ipfs/boxo/namesys"
	"github.com/ipfs/boxo/path"
	offroute "github.com/ipfs/boxo/routing/offline"
	cid "github.com/ipfs/go-cid"
	ds "github.com/ipfs/go-datastore"
	dssync "github.com/ipfs/go-datastore/sync"
	record "github.com/libp2p/go-libp2p-record"
	ic "github.com/libp2p/go-libp2p/core/crypto"
	"github.com/libp2p/go-libp2p/core/peer"
	"github.com/libp2p/go-libp2p/core/routing"
	mb "github.com/multiformats/go-multibase"
	mh "github.com/multiformats/go-multihash"

	"verif/vlib"
)

func main() { vlib.Run("C29", run) }

func run(c *vlib.Ctx) {
	c.Rule("hist strata: 12-45 ops {Publish 45%, Resolve 45%, Restart 10%} over 2-3 keys (ed25519 x2 + one of rsa/secp256k1/ecdsa) and 12 values (3 CIDs x 4 sub-paths), explicit sequence drawn around the current one (cur-1, cur, cur+1, cur+7, 0), TTL in {default,0,1h,2h}, EOL in {default, 2090, 2100, 2110}, 8% injected PutValue failures, routing store in {map, boxo offline router}, cache size {none | 1,2,16} x MaxCacheTTL {unset, 0, 1h}; hist-nocache never enables the cache, hist-cache always does. non-trivial = the history has a publish of a different value followed by a resolve of that key, a rejected explicit sequence, and a resolve through a non-canonical name form. chain stratum: 1-6 hops of IPNS/DNSLink nodes, 20% cycles, 10% dangling, per-hop TTL k*1h (k distinct 1..9) or 0, remainders, depth in {1..8, default, unlimited}; non-trivial = at least 2 hops with a remainder somewhere and (a zero TTL hop or a recursion error expected). conc stratum: 1-3 rounds of 2-6 goroutines publishing pairwise distinct values for one key at once through the real NameSystem, datastore Get / routing PutValue wrappers yielding or sleeping 20-800us at PRNG-chosen calls; oracle over the logged datastore writes and PutValue calls; non-trivial = at least two Publish calls were measured in flight together. distinct = FNV of config + op list")
	c.Cases("hist-nocache", c.N(350, 3500), func(k *vlib.Case) { guarded(k, func() { histCase(k, false) }) })
	c.Cases("hist-cache", c.N(350, 3500), func(k *vlib.Case) { guarded(k, func() { histCase(k, true) }) })
	c.Cases("chain", c.N(700, 8000), func(k *vlib.Case) { guarded(k, func() { chainCase(k) }) })
	c.Cases("conc", c.N(300, 4000), func(k *vlib.Case) { guarded(k, func() { concCase(k) }) })
}

func guarded(k *vlib.Case, fn func()) { vlib.Guard(k, "case", 120*time.Second, fn) }

// ---------------------------------------------------------------- routing stores

var errInjected = errors.New("verif: injected routing failure")

type mapVS struct {
	mu sync.Mutex
	m  map[string][]byte
}

func (s *mapVS) PutValue(_ context.Context, key string, val []byte, _ ...routing.Option) error {
	s.mu.Lock()
	s.m[key] = append([]byte(nil), val...)
	s.mu.Unlock()
	return nil
}

func (s *mapVS) GetValue(_ context.Context, key string, _ ...routing.Option) ([]byte, error) {
	s.mu.Lock()
	defer s.mu.Unlock()
	v, ok := s.m[key]
	if !ok {
		return nil, routing.ErrNotFound
	}
	return v, nil
}

func (s *mapVS) SearchValue(ctx context.Context, key string, _ ...routing.Option) (<-chan []byte, error) {
	out := make(chan []byte, 1)
	if v, err := s.GetValue(ctx, key); err == nil {
		out <- v
	}
	close(out)
	return out, nil
}

type putEvent struct {
	key    string
	val    []byte
	failed bool
}

// tapVS forwards to the real store, records every PutValue and can fail the
// next PutValue of an IPNS record before it reaches the store.
type tapVS struct {
	inner        routing.ValueStore
	mu           sync.Mutex
	failNextIPNS bool
	puts         []putEvent
	searches     int
}

func (t *tapVS) PutValue(ctx context.Context, key string, val []byte, o ...routing.Option) error {
	t.mu.Lock()
	fail := false
	if strings.HasPrefix(key, "/ipns/") && t.failNextIPNS {
		fail, t.failNextIPNS = true, false
	}
	t.mu.Unlock()
	var err error
	if fail {
		err = errInjected
	} else {
		err = t.inner.PutValue(ctx, key, val, o...)
	}
	t.mu.Lock()
	t.puts = append(t.puts, putEvent{key, append([]byte(nil), val...), err != nil})
	t.mu.Unlock()
	return err
}

func (t *tapVS) GetValue(ctx context.Context, key string, o ...routing.Option) ([]byte, error) {
	return t.inner.GetValue(ctx, key, o...)
}

func (t *tapVS) SearchValue(ctx context.Context, key string, o ...routing.Option) (<-chan []byte, error) {
	t.mu.Lock()
	t.searches++
	t.mu.Unlock()
	return t.inner.SearchValue(ctx, key, o...)
}

func (t *tapVS) takePuts() []putEvent {
	t.mu.Lock()
	defer t.mu.Unlock()
	p := t.puts
	t.puts = nil
	return p
}

// ---------------------------------------------------------------- shared helpers

func segsOf(s string) []string {
	var out []string
	for _, e := range strings.Split(s, "/") {
		if e != "" {
			out = append(out, e)
		}
	}
	return out
}

// modelJoin is the harness's statement of "the resolved value with the
// unresolved remainder appended": cur is the (mutable) path being resolved,
// value what its name points at.
func modelJoin(value, cur string) string {
	rem := segsOf(cur)[2:]
	slash := strings.HasSuffix(cur, "/")
	if len(rem) == 0 && !slash {
		return value
	}
	out := "/" + strings.Join(append(segsOf(value), rem...), "/")
	if slash {
		out += "/"
	}
	return out
}

type nameForm struct{ label, text string }

func formsOf(pid peer.ID) []nameForm {
	n := ipns.NameFromPeer(pid)
	c := n.Cid()
	b32, _ := c.StringOfBase(mb.Base32)
	return []nameForm{
		{"b36", n.String()},
		{"b36", n.String()},
		{"legacy-b58", pid.String()},
		{"cid-b32", b32},
	}
}

func mkCidStr(r *vlib.Rand) string {
	h, err := mh.Sum(r.Bytes(16), mh.SHA2_256, -1)
	if err != nil {
		panic(err)
	}
	switch r.Intn(3) {
	case 0:
		return cid.NewCidV0(h).String()
	case 1:
		return cid.NewCidV1(cid.Raw, h).String()
	}
	return cid.NewCidV1(cid.DagProtobuf, h).String()
}

var (
	eolFar  = map[string]time.Time{"2090": time.Date(2090, 1, 1, 0, 0, 0, 0, time.UTC), "2100": time.Date(2100, 1, 1, 0, 0, 0, 0, time.UTC), "2110": time.Date(2110, 1, 1, 0, 0, 0, 0, time.UTC)}
	eolKeys = []string{"2090", "2100", "2110"}
)

// ---------------------------------------------------------------- publish / resolve histories

type stored struct {
	raw   []byte
	seq   uint64
	value string
}

func parseStored(raw []byte) (*stored, error) {
	rec, err := ipns.UnmarshalRecord(raw)
	if err != nil {
		return nil, err
	}
	seq, err := rec.Sequence()
	if err != nil {
		return nil, err
	}
	v, err := rec.Value()
	if err != nil {
		return nil, err
	}
	return &stored{raw: raw, seq: seq, value: v.String()}, nil
}

type keyState struct {
	label     string
	sk        ic.PrivKey
	pid       peer.ID
	name      ipns.Name
	forms     []nameForm
	hasOK     bool
	lastOK    string          // value of the last successful publish
	uncertain map[string]bool // values of failed publishes since then
	attempted string          // last value passed to Publish
	// lastResolved[form text] = the base values that earlier Resolves through
	// that textual form may have returned since the last Restart (what a
	// resolver-side cache keyed by the textual form could still hold). A set,
	// because "/a" and "/a/" joined with a remainder print the same.
	lastResolved map[string]map[string]bool
	// for the non-triviality rule
	changedSinceResolve bool
}

type histWorld struct {
	k                                            *vlib.Case
	ctx                                          context.Context
	ns                                           namesys.NameSystem
	opts                                         []namesys.Option
	dstore                                       ds.Datastore
	tap                                          *tapVS
	router                                       string
	cacheOn                                      bool // cache configured and MaxCacheTTL does not disable it
	cacheCfg                                     string
	keys                                         []*keyState
	values                                       []string
	sawRepublishResolve, sawRejected, sawAltForm bool
	// desync: a mutating call diverged from the model, the history stops.
	// Query-only divergences (Resolve results) are recorded and the history
	// continues.
	desync bool
}

func (w *histWorld) failD(class, clause, expected, observed string) {
	w.desync = true
	w.k.Fail(class, clause, expected, observed)
}

func (w *histWorld) newNS(fresh bool) {
	if fresh || w.dstore == nil {
		w.dstore = dssync.MutexWrap(ds.NewMapDatastore())
	}
	opts := append([]namesys.Option{namesys.WithDatastore(w.dstore)}, w.opts...)
	ns, err := namesys.NewNameSystem(w.tap, opts...)
	if err != nil {
		panic(err)
	}
	w.ns = ns
	for _, ks := range w.keys {
		ks.lastResolved = map[string]map[string]bool{}
	}
}

func (w *histWorld) readDS(ks *keyState) *stored {
	raw, err := w.dstore.Get(w.ctx, namesys.IpnsDsKey(ks.name))
	if err != nil {
		return nil
	}
	s, err := parseStored(raw)
	if err != nil {
		w.k.Fail("store/unparsable-record", "the stored record is a valid IPNS record", "parsable", err.Error())
		return nil
	}
	return s
}

func (w *histWorld) readRouting(ks *keyState) *stored {
	raw, err := w.tap.inner.GetValue(w.ctx, string(ks.name.RoutingKey()))
	if err != nil {
		return nil
	}
	s, err := parseStored(raw)
	if err != nil {
		return nil
	}
	return s
}

func histCase(k *vlib.Case, cache bool) {
	r := k.R
	w := &histWorld{k: k, ctx: context.Background()}
	// routing store
	var inner routing.ValueStore
	if r.Chance(1, 2) {
		w.router = "map"
		inner = &mapVS{m: map[string][]byte{}}
	} else {
		w.router = "offline"
		inner = offroute.NewOfflineRouter(dssync.MutexWrap(ds.NewMapDatastore()), record.NamespacedValidator{
			"ipns": ipns.Validator{},
			"pk":   record.PublicKeyValidator{},
		})
	}
	w.tap = &tapVS{inner: inner}
	// name system options
	w.cacheCfg = "none"
	if cache {
		size := vlib.Pick(r, []int{1, 2, 16, 16})
		w.opts = append(w.opts, namesys.WithCache(size))
		w.cacheOn = true
		w.cacheCfg = fmt.Sprintf("size=%d", size)
		switch r.Intn(4) {
		case 0:
			w.opts = append(w.opts, namesys.WithMaxCacheTTL(0))
			w.cacheOn = false
			w.cacheCfg += " maxTTL=0"
		case 1:
			w.opts = append(w.opts, namesys.WithMaxCacheTTL(time.Hour))
			w.cacheCfg += " maxTTL=1h"
		}
	} else if r.Chance(1, 4) {
		w.opts = append(w.opts, namesys.WithMaxCacheTTL(time.Hour))
		w.cacheCfg = "none maxTTL=1h"
	}
	// keys
	third := r.Intn(4)
	mk := []struct {
		label string
		sk    ic.PrivKey
	}{{"ed25519-a", edKey(r)}, {"ed25519-b", edKey(r)}}
	switch third {
	case 0:
		mk = append(mk, struct {
			label string
			sk    ic.PrivKey
		}{"rsa", rsaKey()})
	case 1:
		mk = append(mk, struct {
			label string
			sk    ic.PrivKey
		}{"secp256k1", secpKey(r)})
	case 2:
		mk = append(mk, struct {
			label string
			sk    ic.PrivKey
		}{"ecdsa", ecdsaKey(r)})
	}
	for _, m := range mk {
		pid, err := peer.IDFromPrivateKey(m.sk)
		if err != nil {
			panic(err)
		}
		w.keys = append(w.keys, &keyState{label: m.label, sk: m.sk, pid: pid, name: ipns.NameFromPeer(pid), forms: formsOf(pid), uncertain: map[string]bool{}})
	}
	// values: 3 roots x 4 sub-paths
	for i := 0; i < 3; i++ {
		root := "/ipfs/" + mkCidStr(r)
		for _, sub := range []string{"", "/a", "/a/", "/b/c"} {
			w.values = append(w.values, root+sub)
		}
	}
	k.Logf("config router=%s cache=%s keys=%d", w.router, w.cacheCfg, len(w.keys))
	for i, ks := range w.keys {
		k.Logf("key K%d %s %s", i, ks.label, ks.name)
	}
	w.newNS(true)

	n := r.Range(12, 45)
	for i := 0; i < n && !w.desync; i++ {
		op := r.Intn(100)
		switch {
		case op < 45:
			w.publish(r)
		case op < 90:
			w.resolve(r)
		default:
			fresh := r.Chance(3, 10)
			k.Logf("Restart freshDatastore=%v", fresh)
			w.newNS(fresh)
		}
	}
	k.C.Count("ops", int64(n))
	if w.sawRepublishResolve && w.sawRejected && w.sawAltForm {
		k.Nontrivial()
	}
}

func diffKind(a, b string) string {
	sa, sb := segsOf(a), segsOf(b)
	switch {
	case len(sa) > 1 && len(sb) > 1 && sa[1] != sb[1]:
		return "root-differs"
	case strings.Join(sa, "/") != strings.Join(sb, "/"):
		return "subpath-differs"
	default:
		return "slash-differs"
	}
}

func (w *histWorld) publish(r *vlib.Rand) {
	k := w.k
	ki := r.Intn(len(w.keys))
	ks := w.keys[ki]
	// value: same as last attempt / same root other sub-path / any
	var value string
	switch {
	case ks.attempted != "" && r.Chance(30, 100):
		value = ks.attempted
	case ks.attempted != "" && r.Chance(35, 100):
		root := "/" + strings.Join(segsOf(ks.attempted)[:2], "/")
		var cands []string
		for _, v := range w.values {
			if strings.HasPrefix(v, root) && v != ks.attempted {
				cands = append(cands, v)
			}
		}
		value = vlib.Pick(r, cands)
	default:
		value = vlib.Pick(r, w.values)
	}
	before := w.readDS(ks)
	dsBefore := before
	rtBefore := w.readRouting(ks)
	if before == nil {
		before = rtBefore // what GetPublished(checkRouting=true) falls back to
	}
	var opts []namesys.PublishOption
	desc := ""
	var explicit *uint64
	if r.Chance(35, 100) {
		var s uint64
		if before != nil {
			cur := before.seq
			switch r.Intn(6) {
			case 0:
				s = cur
			case 1:
				if cur > 0 {
					s = cur - 1
				}
			case 2:
				s = 0
			case 3:
				s = cur + 7
			default:
				s = cur + 1
			}
		} else {
			s = vlib.Pick(r, []uint64{0, 1, 1, 5})
		}
		explicit = &s
		opts = append(opts, namesys.PublishWithSequence(s))
		desc += fmt.Sprintf(" seq=%d", s)
	}
	if r.Chance(1, 4) {
		ttl := vlib.Pick(r, []time.Duration{0, time.Hour, 2 * time.Hour})
		opts = append(opts, namesys.PublishWithTTL(ttl))
		desc += " ttl=" + ttl.String()
	}
	if r.Chance(3, 10) {
		e := vlib.Pick(r, eolKeys)
		opts = append(opts, namesys.PublishWithEOL(eolFar[e]))
		desc += " eol=" + e
	}
	inject := r.Chance(8, 100)
	if inject {
		desc += " injectPutFailure"
	}
	curDesc := "none"
	if before != nil {
		curDesc = fmt.Sprintf("seq=%d %s", before.seq, before.value)
	}
	k.Logf("Publish K%d %s%s   (current: %s)", ki, value, desc, curDesc)

	vp, err := path.NewPath(value)
	if err != nil {
		panic(err)
	}
	w.tap.takePuts()
	w.tap.mu.Lock()
	w.tap.failNextIPNS = inject
	w.tap.mu.Unlock()
	perr := w.ns.Publish(w.ctx, ks.sk, vp, opts...)
	w.tap.mu.Lock()
	injectedFired := inject && !w.tap.failNextIPNS
	w.tap.failNextIPNS = false
	w.tap.mu.Unlock()
	puts := w.tap.takePuts()
	after := w.readDS(ks)
	ks.attempted = value
	k.C.Count("publishes", 1)

	dsChanged := after != nil && (dsBefore == nil || !bytes.Equal(dsBefore.raw, after.raw))
	var ipnsPuts []putEvent
	for _, p := range puts {
		if p.key == string(ks.name.RoutingKey()) {
			ipnsPuts = append(ipnsPuts, p)
		}
	}

	// --- explicit sequence not greater than the current one must be rejected
	if explicit != nil && before != nil && *explicit <= before.seq {
		rel := "less"
		if *explicit == before.seq {
			rel = "equal"
		}
		w.sawRejected = true
		k.C.Count("explicit_rejections_expected", 1)
		if perr == nil {
			w.failD("seq/explicit-not-greater-accepted/"+rel, "an explicit sequence <= the current one is rejected", fmt.Sprintf("error (current %d, explicit %d)", before.seq, *explicit), fmt.Sprintf("Publish returned nil; stored seq now %v", seqOf(after)))
			w.afterSuccess(ks, value)
			return
		}
		if dsChanged {
			w.failD("seq/rejected-but-stored/"+rel, "a rejected publish stores nothing", "datastore record unchanged", fmt.Sprintf("stored seq %v value %v", seqOf(after), valOf(after)))
		}
		if len(ipnsPuts) > 0 {
			w.failD("seq/rejected-but-published/"+rel, "a rejected publish sends nothing to routing", "no PutValue", fmt.Sprintf("%d PutValue calls", len(ipnsPuts)))
		}
		return
	}
	if explicit != nil && before == nil && *explicit == 0 && perr != nil {
		// Explicit 0 with no current record: the statement does not say; boxo
		// rejects it. Accepted as long as nothing was stored.
		if dsChanged {
			w.failD("seq/rejected-but-stored/zero-first", "a rejected publish stores nothing", "datastore record unchanged", fmt.Sprintf("stored seq %v", seqOf(after)))
		}
		k.C.Count("explicit_zero_first_rejected", 1)
		return
	}

	// --- what was stored
	if after != nil && dsChanged {
		if before != nil && after.seq < before.seq {
			w.failD("seq/decreased", "the stored sequence number never decreases", fmt.Sprintf(">= %d", before.seq), fmt.Sprint(after.seq))
		}
		if explicit != nil && after.seq != *explicit {
			w.failD("seq/explicit-not-used", "an accepted explicit sequence is the stored sequence", fmt.Sprint(*explicit), fmt.Sprint(after.seq))
		}
		if explicit == nil && before != nil && after.value != before.value && after.seq <= before.seq {
			w.failD("seq/not-increased-on-change/"+diffKind(before.value, after.value), "the sequence increases whenever the value changes", fmt.Sprintf("> %d (value %s -> %s)", before.seq, before.value, after.value), fmt.Sprint(after.seq))
		}
		if after.value != value {
			w.failD("publish/stored-other-value", "the stored record carries the published value", value, after.value)
		}
	}
	for _, p := range ipnsPuts {
		s, err := parseStored(p.val)
		if err != nil {
			w.failD("publish/routing-unparsable", "records sent to routing are valid", "parsable", err.Error())
			continue
		}
		if rtBefore != nil && s.seq < rtBefore.seq {
			w.failD("seq/routing-decreased", "the sequence sent to routing never decreases", fmt.Sprintf(">= %d", rtBefore.seq), fmt.Sprint(s.seq))
		}
		if rtBefore != nil && s.seq == rtBefore.seq && s.value != rtBefore.value {
			w.failD("seq/routing-same-seq-other-value/"+diffKind(rtBefore.value, s.value), "a record with another value sent to routing has a higher sequence", fmt.Sprintf("> %d", rtBefore.seq), fmt.Sprintf("%d (value %s -> %s)", s.seq, rtBefore.value, s.value))
		}
	}

	if perr != nil {
		k.C.Count("publish_errors", 1)
		switch {
		case injectedFired:
			// expected
		case w.router == "offline" && after != nil && rtBefore != nil && after.seq <= rtBefore.seq:
			// the offline router keeps the better of two records with the
			// same sequence (later EOL wins); a legitimate rejection
			k.C.Count("offline_router_kept_old_record", 1)
		default:
			w.failD("publish/unexpected-error/"+w.router, "a publish that breaks no rule succeeds", "nil", perr.Error())
		}
		ks.uncertain[value] = true
		return
	}
	// --- success
	if after == nil {
		w.failD("publish/ok-but-no-record", "a successful publish stores the record locally", "record in datastore", "none")
		return
	}
	if rt := w.readRouting(ks); rt == nil {
		w.failD("publish/ok-but-not-in-routing", "a successful publish puts the record into routing", "record", "none")
	} else if !bytes.Equal(rt.raw, after.raw) {
		w.failD("publish/routing-differs", "routing holds the record that was stored locally", fmt.Sprintf("seq=%d %s", after.seq, after.value), fmt.Sprintf("seq=%d %s", rt.seq, rt.value))
	}
	w.afterSuccess(ks, value)
}

func (w *histWorld) afterSuccess(ks *keyState, value string) {
	if ks.hasOK && ks.lastOK != value {
		ks.changedSinceResolve = true
	}
	ks.hasOK, ks.lastOK = true, value
	ks.uncertain = map[string]bool{}
}

func seqOf(s *stored) any {
	if s == nil {
		return "none"
	}
	return s.seq
}

func valOf(s *stored) any {
	if s == nil {
		return "none"
	}
	return s.value
}

var remainders = []string{"", "", "", "/", "/x", "/x/", "/x/y.txt"}

func (w *histWorld) resolve(r *vlib.Rand) {
	k := w.k
	ki := r.Intn(len(w.keys))
	ks := w.keys[ki]
	f := vlib.Pick(r, ks.forms)
	rem := vlib.Pick(r, remainders)
	async := r.Chance(1, 5)
	req := "/ipns/" + f.text + rem
	k.Logf("Resolve K%d form=%s %s async=%v", ki, f.label, req, async)
	p, err := path.NewPath(req)
	if err != nil {
		panic(err)
	}
	var got string
	var rerr error
	if async {
		n := 0
		actx, cancel := context.WithCancel(w.ctx)
		defer cancel()
		for res := range w.ns.ResolveAsync(actx, p) {
			n++
			if res.Err != nil {
				rerr = res.Err
				break
			}
			got, rerr = res.Path.String(), nil
		}
		if n == 0 {
			rerr = namesys.ErrResolveFailed
		}
	} else {
		res, err := w.ns.Resolve(w.ctx, p)
		rerr = err
		if err == nil {
			got = res.Path.String()
		}
	}
	k.C.Count("resolves", 1)
	cacheTag := "nocache"
	if w.cacheOn {
		cacheTag = "cache"
	}
	// candidates
	var cands []string
	if ks.hasOK {
		cands = append(cands, ks.lastOK)
	}
	var unc []string
	for v := range ks.uncertain {
		unc = append(unc, v)
	}
	sort.Strings(unc)
	cands = append(cands, unc...)
	if len(cands) == 0 {
		if rerr == nil {
			k.Fail("resolve/phantom", "a name that was never published does not resolve", "error", got)
		}
		return
	}
	if rerr != nil {
		if ks.hasOK {
			k.Fail("resolve-after-publish/error/"+cacheTag, "a published name resolves", modelJoin(ks.lastOK, req), "error: "+rerr.Error())
		}
		return
	}
	if f.label != "b36" {
		w.sawAltForm = true
	}
	if ks.changedSinceResolve && len(ks.uncertain) == 0 {
		w.sawRepublishResolve = true
		ks.changedSinceResolve = false
	}
	matched := false
	for _, c := range cands {
		if got == modelJoin(c, req) {
			if ks.lastResolved[f.text] == nil {
				ks.lastResolved[f.text] = map[string]bool{}
			}
			ks.lastResolved[f.text][c] = true
			matched = true
		}
	}
	if matched {
		return
	}
	// wrong value: classify
	want := modelJoin(cands[0], req)
	if len(cands) > 1 {
		want += " (or a value of a failed publish since)"
	}
	if w.cacheOn {
		var olds []string
		for v := range ks.lastResolved[f.text] {
			olds = append(olds, v)
		}
		sort.Strings(olds)
		for _, stale := range olds {
			if got == modelJoin(stale, req) {
				k.Fail("resolve-after-republish/stale-cache", "Resolve right after a successful Publish returns the published value (cache enabled)", want, fmt.Sprintf("%s — the value an earlier Resolve through /ipns/%s returned before the re-publish (cache %s)", got, f.text, w.cacheCfg))
				k.C.Count("stale_cache_results", 1)
				return
			}
		}
	}
	k.Fail("resolve-after-publish/wrong-value/"+cacheTag, "Resolve right after a successful Publish returns the published value", want, got)
}

// ---------------------------------------------------------------- chains

type node struct {
	dns    bool
	fqdn   string
	sk     ic.PrivKey
	pid    peer.ID
	ttl    time.Duration
	value  string // what the node points at
	exists bool
}

func (n *node) ref(r *vlib.Rand) string {
	if n.dns {
		return "/ipns/" + n.fqdn
	}
	return "/ipns/" + vlib.Pick(r, formsOf(n.pid)).text
}

const ttlSlack = 10 * time.Minute

func chainCase(k *vlib.Case) {
	r := k.R
	ctx := context.Background()
	L := r.Range(1, 6)
	shape := "complete"
	switch x := r.Intn(10); {
	case x < 2:
		shape = "cycle"
	case x < 3:
		shape = "dangling"
	}
	cacheSize := vlib.Pick(r, []int{0, 0, 16})
	maxTTL := vlib.Pick(r, []string{"unset", "unset", "0", "150m"})
	var cap time.Duration
	opts := []namesys.Option{}
	if cacheSize > 0 {
		opts = append(opts, namesys.WithCache(cacheSize))
	}
	switch maxTTL {
	case "0":
		opts = append(opts, namesys.WithMaxCacheTTL(0))
	case "150m":
		cap = 150 * time.Minute
		opts = append(opts, namesys.WithMaxCacheTTL(cap))
	}
	k.Logf("config hops=%d shape=%s cache=%d maxCacheTTL=%s", L, shape, cacheSize, maxTTL)

	// nodes
	hours := r.Perm(9)
	nodes := make([]*node, L)
	for i := range nodes {
		n := &node{exists: true}
		if r.Chance(1, 4) {
			n.dns = true
			n.fqdn = fmt.Sprintf("hop%d.%s", i, vlib.Pick(r, []string{"example.com", "dnslink-test.example.org", "a-b.example.net"}))
		} else {
			n.sk = edKey(r)
			pid, err := peer.IDFromPrivateKey(n.sk)
			if err != nil {
				panic(err)
			}
			n.pid = pid
		}
		n.ttl = time.Duration(hours[i]+1) * time.Hour
		if r.Chance(1, 4) {
			n.ttl = 0
		}
		nodes[i] = n
	}
	final := "/ipfs/" + mkCidStr(r) + vlib.Pick(r, []string{"", "", "/docs", "/docs/", "/a/b"})
	hopRem := []string{"", "", "", "/r", "/r/", "/p/q"}
	anyRem := false
	for i, n := range nodes {
		switch {
		case i+1 < L:
			rem := vlib.Pick(r, hopRem)
			anyRem = anyRem || len(segsOf(rem)) > 0
			n.value = nodes[i+1].ref(r) + rem
		case shape == "cycle":
			n.value = nodes[r.Intn(L)].ref(r) + vlib.Pick(r, hopRem)
		case shape == "dangling":
			ghost := &node{sk: edKey(r)}
			ghost.pid, _ = peer.IDFromPrivateKey(ghost.sk)
			n.value = ghost.ref(r)
		default:
			n.value = final
		}
	}
	// stores
	vs := &mapVS{m: map[string][]byte{}}
	tap := &tapVS{inner: vs}
	dnsTab := map[string]*node{}
	for i, n := range nodes {
		kind := "ipns"
		id := ""
		if n.dns {
			kind = "dnslink"
			id = n.fqdn
			dnsTab["_dnslink."+n.fqdn+"."] = n
		} else {
			id = ipns.NameFromPeer(n.pid).String()
			vp, err := path.NewPath(n.value)
			if err != nil {
				panic(err)
			}
			rec, err := ipns.NewRecord(n.sk, vp, uint64(r.Intn(5)), eolFar["2100"], n.ttl)
			if err != nil {
				panic(err)
			}
			raw, err := ipns.MarshalRecord(rec)
			if err != nil {
				panic(err)
			}
			vs.m[string(ipns.NameFromPeer(n.pid).RoutingKey())] = raw
		}
		k.Logf("hop %d %s %s ttl=%s -> %s", i, kind, id, n.ttl, n.value)
	}
	var lookups atomic.Int64
	lookup := func(_ context.Context, name string) ([]string, time.Duration, error) {
		lookups.Add(1)
		n, ok := dnsTab[name]
		if !ok {
			return nil, 0, &net.DNSError{Err: "no such host", Name: name, IsNotFound: true}
		}
		return []string{"unrelated=txt", "dnslink=" + n.value}, n.ttl, nil
	}
	opts = append(opts, namesys.WithDNSResolverWithTTL(lookup))
	ns, err := namesys.NewNameSystem(tap, opts...)
	if err != nil {
		panic(err)
	}

	// expected TTL per hop as reported by a fresh resolution
	hopTTL := func(n *node) time.Duration {
		if cap > 0 && n.ttl > cap {
			return cap
		}
		return n.ttl
	}

	nontrivial := false
	rounds := 2
	if r.Chance(1, 3) {
		rounds = 3
	}
	for round := 0; round < rounds && !k.Failed(); round++ {
		reqRem := vlib.Pick(r, []string{"", "", "/", "/u", "/u/", "/u/v.txt"})
		req := nodes[0].ref(r) + reqRem
		depthOpt := vlib.Pick(r, []int{-1, -1, 1, 2, 3, 4, 5, 6, 7, 8, 0})
		if depthOpt == 0 && shape == "cycle" {
			depthOpt = 3 // unlimited depth on a cycle never ends by design
		}
		depth := depthOpt
		var ropts []namesys.ResolveOption
		if depthOpt >= 0 {
			ropts = append(ropts, namesys.ResolveWithDepth(uint(depthOpt)))
		} else {
			depth = namesys.DefaultDepthLimit
		}
		k.Logf("Resolve %s depth=%d (round %d)", req, depthOpt, round)

		// ---- model walk
		cur := req
		wantRec, wantFail := false, false
		var ttls []time.Duration
		idx := 0
		for hop := 1; ; hop++ {
			n := nodes[idx]
			ttls = append(ttls, hopTTL(n))
			cur = modelJoin(n.value, cur)
			if strings.HasPrefix(cur, "/ipfs/") {
				break
			}
			if depth != 0 && hop == depth {
				wantRec = true
				break
			}
			// find the next node
			next := -1
			id := segsOf(cur)[1]
			for j, m := range nodes {
				if m.dns && m.fqdn == id {
					next = j
				} else if !m.dns {
					if nm, err := ipns.NameFromString(id); err == nil && nm.Peer() == m.pid {
						next = j
					}
				}
			}
			if next < 0 {
				wantFail = true
				break
			}
			idx = next
		}
		var wantTTL time.Duration
		for _, t := range ttls {
			if t > 0 && (wantTTL == 0 || t < wantTTL) {
				wantTTL = t
			}
		}
		zeroHop := false
		for _, t := range ttls {
			zeroHop = zeroHop || t == 0
		}
		if len(ttls) >= 2 && (anyRem || len(segsOf(reqRem)) > 0) && (zeroHop || wantRec) {
			nontrivial = true
		}

		p, err := path.NewPath(req)
		if err != nil {
			panic(err)
		}
		res, rerr := ns.Resolve(ctx, p, ropts...)
		k.C.Count("chain_resolves", 1)
		cacheTag := "nocache"
		if cacheSize > 0 {
			cacheTag = "cache"
		}
		feat := fmt.Sprintf("%s/%s", shape, cacheTag)
		isRec := errors.Is(rerr, namesys.ErrResolveRecursion)
		switch {
		case wantRec:
			k.C.Count("chain_recursion_expected", 1)
			if !isRec {
				k.Fail("chain/recursion-missing/"+feat, "a chain longer than the depth limit reports ErrResolveRecursion", fmt.Sprintf("ErrResolveRecursion (needs more than %d hops)", depth), fmt.Sprintf("path=%v err=%v", pathStr(res.Path), rerr))
			}
		case wantFail:
			if rerr == nil {
				k.Fail("chain/dangling-resolved/"+feat, "a chain whose last name has no record fails", "error", pathStr(res.Path))
			} else if isRec {
				k.Fail("chain/recursion-spurious/"+feat, "ErrResolveRecursion only when the chain is longer than the depth limit", fmt.Sprintf("lookup failure after %d hops, depth %d", len(ttls), depth), rerr.Error())
			}
		default:
			k.C.Count("chain_success_expected", 1)
			if rerr != nil {
				cls := "chain/error/"
				if isRec {
					cls = "chain/recursion-spurious/"
				}
				k.Fail(cls+feat, "a chain within the depth limit resolves", cur, fmt.Sprintf("err=%v (hops %d, depth %d)", rerr, len(ttls), depth))
				break
			}
			if got := pathStr(res.Path); got != cur {
				k.Fail("chain/path/"+feat, "result is the final immutable path with all remainders appended", cur, got)
			}
			// TTL: exact on a fresh resolution, (want-10min, want] when any hop may come from the cache
			cached := cacheSize > 0 && round > 0
			lo := wantTTL
			if cached {
				lo = wantTTL - ttlSlack
			}
			if wantTTL == 0 {
				lo = 0
			}
			ok := res.TTL <= wantTTL && res.TTL >= lo
			if cached && wantTTL > 0 {
				ok = res.TTL <= wantTTL && res.TTL > lo
			}
			if !ok {
				zf := "all-nonzero"
				if zeroHop {
					zf = "zero-hop"
				}
				k.Fail("chain/ttl/"+zf+"/"+cacheTag, "TTL is the smallest non-zero TTL along the chain", fmt.Sprintf("%s (hop TTLs %v, cached=%v)", wantTTL, ttls, cached), res.TTL.String())
			}
		}
	}
	k.C.Count("dns_lookups", lookups.Load())
	if nontrivial {
		k.Nontrivial()
	}
}

func pathStr(p path.Path) string {
	if p == nil {
		return "<nil>"
	}
	return p.String()
}
