// C24: dsindex.Indexer is driven in lock-step with a map[key]set[value] model
// over generated histories whose keys/values are arbitrary byte strings
// (NUL, '/', high bytes, byte-prefix related, base64url-prefix related,
// strings that look like encoded keys, key/value splits that collide when
// joined as a path). Every return value is compared online and after every
// mutating call the whole index (Search of every pool key, HasAny, ForEach(""))
// and, at the end, the raw datastore keys are compared with the model. Sibling
// indexers with prefix-related names share the datastore.
package main

import (
	"context"
	"encoding/base64"
	"errors"
	"fmt"
	"sort"
	"strings"
	"sync"

	"github.com/ipfs/boxo/pinning/pinner/dsindex"
	ds "github.com/ipfs/go-datastore"
	dsq "github.com/ipfs/go-datastore/query"
	dssync "github.com/ipfs/go-datastore/sync"
	"github.com/multiformats/go-multibase"

	"verif/vlib"
)

func main() { vlib.Run("C24", run) }

func run(c *vlib.Ctx) {
	c.Rule("histories of 5-40 ops {Add,Delete,DeleteKey,DeleteAll,Search,HasValue,HasAny,ForEach(key|\"\"|early stop),empty key/value} on 1-3 sibling indexers (prefix-related namespace names) over one datastore; keys/values from a pool of 6-9 arbitrary byte strings incl. NUL, '/', 0xff, byte-prefix chains, 3-byte-aligned prefixes (base64url encodings are string prefixes), encoded-looking strings, path-join colliding splits; distinct = FNV of config+op list; stratum `faults`: one indexer (+ untouched sibling) over a wrapper datastore that, for single calls, yields an error entry after N results of a Query or fails the N-th Delete/Put; every call either returns an error or agrees with the model (complete enumeration, right count, everything removed), after a failed mutating call the model is re-read from the backing datastore; non-trivial (`faults`) = an enumeration hit the injected error after >= 1 delivered result AND a DeleteKey/DeleteAll over >= 2 entries hit a failing Delete that was not the last; non-trivial (`hist`) = a key-scoped query/DeleteKey ran while another present key's encoding had the queried key's encoding as a string prefix AND some delete removed >= 1 pair")
	c.Cases("hist", c.N(1700, 10000), oneHistory)
	// datastore faults: see faultHistory
	c.Cases("faults", c.N(600, 4000), faultHistory)
}

type pairSet map[string]map[string]bool

type index struct {
	name  string
	x     dsindex.Indexer
	model pairSet
}

func enc(s string) string { return "u" + base64.RawURLEncoding.EncodeToString([]byte(s)) }

func q(s string) string { return fmt.Sprintf("%q", s) }

func sortedCopy(v []string) []string {
	o := append([]string(nil), v...)
	sort.Strings(o)
	return o
}

func (ix *index) values(key string) []string {
	var o []string
	for v := range ix.model[key] {
		o = append(o, v)
	}
	sort.Strings(o)
	return o
}

func (ix *index) allPairs() []string {
	var o []string
	for k, vs := range ix.model {
		for v := range vs {
			o = append(o, q(k)+"=>"+q(v))
		}
	}
	sort.Strings(o)
	return o
}

func (ix *index) count() int {
	n := 0
	for _, vs := range ix.model {
		n += len(vs)
	}
	return n
}

// prefixNeighbour reports whether the model holds another key whose encoding
// has enc(key) as a string prefix (the situation in which a string-prefix
// query would leak).
func (ix *index) prefixNeighbour(key string) bool {
	e := enc(key)
	for k := range ix.model {
		if k != key && len(ix.model[k]) > 0 && strings.HasPrefix(enc(k), e) {
			return true
		}
	}
	return false
}

func makePool(r *vlib.Rand) []string {
	base := string(r.Bytes(3))
	pool := []string{
		base,                      // 3 bytes: encoding has no partial group
		base + string(r.Bytes(3)), // encoding extends enc(base)
		base + string(r.Bytes(1)), // byte prefix, encoding shares 4 chars then differs
		base + string(r.Bytes(6)), // longer aligned extension
		"/", "a", "a/b", "\x00", "a\x00", "\xff\xfe", " ", ".", "..", "a/", "/a", "b/c", "c",
		enc(base),        // looks like an encoded key
		enc(base)[1:],    // the bare base64 text
		base + "/" + "c", // contains a slash after a pool key
		string(r.Bytes(r.Range(1, 40))),
		strings.Repeat("k", 200),
	}
	// keep the 4 prefix-related ones, sample the rest
	out := append([]string(nil), pool[:4]...)
	rest := pool[4:]
	vlib.Shuffle(r, rest)
	out = append(out, rest[:r.Range(2, 5)]...)
	return out
}

func oneHistory(k *vlib.Case) {
	r := k.R
	ctx := context.Background()
	var store ds.Datastore = ds.NewMapDatastore()
	raw := store
	wrapped := r.Bool()
	if wrapped {
		store = dssync.MutexWrap(store)
	}
	nameSets := [][]string{
		{"/idx"}, {"/idx", "/idxa"}, {"/idx", "/id", "/idx2"},
		{"/pins/index/cidRindex", "/pins/index/cidDindex", "/pins/index/nameIndex"},
		{"/pins/index/cidRindex", "/pins/index/cidRindexX"}, {"/a/b", "/a/bb", "/a"},
	}
	names := nameSets[r.Intn(len(nameSets))]
	if names[len(names)-1] == "/a" {
		// "/a" is an ancestor namespace of "/a/b": nesting indexers is outside
		// the statement (an index would see the other one's entries as its own
		// malformed pairs), so keep only the siblings.
		names = names[:2]
	}
	var idx []*index
	for _, n := range names {
		idx = append(idx, &index{name: n, x: dsindex.New(store, ds.NewKey(n)), model: pairSet{}})
	}
	keys := makePool(r)
	vals := makePool(r)
	if r.Bool() { // values drawn from the same strings as keys
		vals = append(vals[:2:2], keys[:4]...)
	}
	// foreign keys outside every index namespace
	foreign := map[string]bool{}
	for _, fk := range []string{"/pins/pin/xyz", "/idxb/uAAAA/uAAAA", "/other", "/pins/state/dirty"} {
		if r.Bool() {
			inside := false
			for _, n := range names {
				if strings.HasPrefix(fk, n+"/") {
					inside = true
				}
			}
			if !inside {
				store.Put(ctx, ds.NewKey(fk), []byte("x"))
				foreign[fk] = true
			}
		}
	}
	k.Logf("config syncwrap=%v indexers=%v foreign=%d", wrapped, names, len(foreign))
	for i, s := range keys {
		k.Logf("key[%d]=%q enc=%s", i, s, enc(s))
	}
	for i, s := range vals {
		k.Logf("val[%d]=%q", i, s)
	}

	sawPrefix, sawRemoval := false, false
	n := r.Range(5, 40)
	desync := false // a mutating call failed: model and index may differ
	for i := 0; i < n && !desync; i++ {
		xi := r.Intn(len(idx))
		ix := idx[xi]
		ki := r.Intn(len(keys))
		vi := r.Intn(len(vals))
		key, val := keys[ki], vals[vi]
		op := r.Intn(100)
		mutated := false
		switch {
		case op < 30:
			k.Logf("x%d.Add key[%d] val[%d]", xi, ki, vi)
			if err := ix.x.Add(ctx, key, val); err != nil {
				desync = true
				k.Fail("add-error", "Add succeeds", "nil", err.Error())
				break
			}
			if ix.model[key] == nil {
				ix.model[key] = map[string]bool{}
			}
			ix.model[key][val] = true
			mutated = true
		case op < 40:
			k.Logf("x%d.Delete key[%d] val[%d]", xi, ki, vi)
			if err := ix.x.Delete(ctx, key, val); err != nil {
				desync = true
				k.Fail("delete-error", "Delete of present or absent pair succeeds", "nil", err.Error())
				break
			}
			if ix.model[key][val] {
				sawRemoval = true
				delete(ix.model[key], val)
				if len(ix.model[key]) == 0 {
					delete(ix.model, key)
				}
			}
			mutated = true
		case op < 50:
			k.Logf("x%d.DeleteKey key[%d]", xi, ki)
			sawPrefix = sawPrefix || ix.prefixNeighbour(key)
			cnt, err := ix.x.DeleteKey(ctx, key)
			if err != nil {
				desync = true
				k.Fail("deletekey-error", "DeleteKey succeeds", "nil", err.Error())
				break
			}
			if cnt != len(ix.model[key]) {
				k.Fail("deletekey-count", "DeleteKey returns the number of values of that key", fmt.Sprint(len(ix.model[key])), fmt.Sprint(cnt))
			}
			if len(ix.model[key]) > 0 {
				sawRemoval = true
			}
			delete(ix.model, key)
			mutated = true
		case op < 53:
			k.Logf("x%d.DeleteAll", xi)
			cnt, err := ix.x.DeleteAll(ctx)
			if err != nil {
				desync = true
				k.Fail("deleteall-error", "DeleteAll succeeds", "nil", err.Error())
				break
			}
			if cnt != ix.count() {
				k.Fail("deleteall-count", "DeleteAll returns the number of pairs", fmt.Sprint(ix.count()), fmt.Sprint(cnt))
			}
			if ix.count() > 0 {
				sawRemoval = true
			}
			ix.model = pairSet{}
			mutated = true
		case op < 63:
			k.Logf("x%d.Search key[%d]", xi, ki)
			sawPrefix = sawPrefix || ix.prefixNeighbour(key)
			checkSearch(k, ctx, ix, key)
		case op < 71:
			k.Logf("x%d.HasValue key[%d] val[%d]", xi, ki, vi)
			got, err := ix.x.HasValue(ctx, key, val)
			if err != nil {
				k.Fail("hasvalue-error", "HasValue succeeds", "nil", err.Error())
			} else if got != ix.model[key][val] {
				k.Fail("hasvalue-mismatch", "HasValue == pair in model", fmt.Sprint(ix.model[key][val]), fmt.Sprint(got))
			}
		case op < 79:
			k.Logf("x%d.HasAny key[%d]", xi, ki)
			sawPrefix = sawPrefix || ix.prefixNeighbour(key)
			checkHasAny(k, ctx, ix, key)
		case op < 82:
			k.Logf("x%d.HasAny \"\"", xi)
			checkHasAny(k, ctx, ix, "")
		case op < 89:
			k.Logf("x%d.ForEach key[%d]", xi, ki)
			sawPrefix = sawPrefix || ix.prefixNeighbour(key)
			checkForEach(k, ctx, ix, key)
		case op < 93:
			k.Logf("x%d.ForEach \"\"", xi)
			checkForEach(k, ctx, ix, "")
		case op < 96:
			stop := r.Intn(3)
			all := r.Bool()
			fk := key
			if all {
				fk = ""
			}
			k.Logf("x%d.ForEach key=%s stop-after=%d", xi, map[bool]string{true: `""`, false: fmt.Sprintf("key[%d]", ki)}[all], stop)
			calls := 0
			stopped := false
			bad := ""
			err := ix.x.ForEach(ctx, fk, func(gk, gv string) bool {
				if stopped {
					bad = "callback invoked after it returned false"
				}
				if !ix.model[gk][gv] || (!all && gk != key) {
					bad = fmt.Sprintf("pair %q=>%q not in model / not under the key", gk, gv)
				}
				calls++
				if calls > stop {
					stopped = true
					return false
				}
				return true
			})
			want := stop + 1
			total := len(ix.model[key])
			if all {
				total = ix.count()
			}
			if total < want {
				want = total
			}
			if err != nil {
				k.Fail("foreach-error", "ForEach succeeds", "nil", err.Error())
			} else if bad != "" {
				k.Fail("foreach-earlystop", "ForEach stops when fn returns false and yields only model pairs", "only model pairs, no call after false", bad)
			} else if calls != want {
				k.Fail("foreach-earlystop-count", "ForEach yields min(stop+1,total) pairs", fmt.Sprint(want), fmt.Sprint(calls))
			}
		default:
			which := r.Intn(6)
			k.Logf("x%d.empty-arg variant=%d", xi, which)
			var err error
			want := dsindex.ErrEmptyKey
			switch which {
			case 0:
				err = ix.x.Add(ctx, "", val)
			case 1:
				err = ix.x.Add(ctx, key, "")
				want = dsindex.ErrEmptyValue
			case 2:
				err = ix.x.Delete(ctx, "", val)
			case 3:
				_, err = ix.x.DeleteKey(ctx, "")
			case 4:
				_, err = ix.x.Search(ctx, "")
			case 5:
				_, err = ix.x.HasValue(ctx, key, "")
				want = dsindex.ErrEmptyValue
			}
			if !errors.Is(err, want) {
				k.Fail("empty-arg", "empty key/value is rejected with ErrEmptyKey/ErrEmptyValue", want.Error(), fmt.Sprint(err))
			}
			mutated = true // verify nothing changed
		}
		if mutated && !desync {
			for _, o := range idx { // every index, so cross-index leaks show
				checkForEach(k, ctx, o, "")
				checkHasAny(k, ctx, o, "")
				for _, pk := range keys {
					checkSearch(k, ctx, o, pk)
					checkHasAny(k, ctx, o, pk)
				}
			}
		}
	}
	if !desync {
		checkRaw(k, ctx, raw, idx, foreign)
	}
	if sawPrefix && sawRemoval {
		k.Nontrivial()
	}
	k.C.Count("ops", int64(n))
}

func diff(want, got []string) string {
	return fmt.Sprintf("want=%q got=%q", want, got)
}

func same(a, b []string) bool {
	if len(a) != len(b) {
		return false
	}
	for i := range a {
		if a[i] != b[i] {
			return false
		}
	}
	return true
}

func checkSearch(k *vlib.Case, ctx context.Context, ix *index, key string) {
	got, err := ix.x.Search(ctx, key)
	k.C.Count("queries", 1)
	if err != nil {
		k.Fail("search-error", "Search succeeds", "nil", err.Error())
		return
	}
	want := ix.values(key)
	g := sortedCopy(got)
	if !same(want, g) {
		cls := "search-mismatch"
		if len(g) > len(want) && ix.prefixNeighbour(key) {
			cls = "search-mismatch/prefix-neighbour-present"
		}
		k.Fail(cls, "Search(key) == model values (as a set, no duplicates)", fmt.Sprintf("%s key=%q: %q", ix.name, key, want), fmt.Sprintf("%q", g))
	}
}

func checkHasAny(k *vlib.Case, ctx context.Context, ix *index, key string) {
	got, err := ix.x.HasAny(ctx, key)
	k.C.Count("queries", 1)
	if err != nil {
		k.Fail("hasany-error", "HasAny succeeds", "nil", err.Error())
		return
	}
	want := len(ix.model[key]) > 0
	if key == "" {
		want = ix.count() > 0
	}
	if got != want {
		k.Fail("hasany-mismatch", "HasAny(key) == key has a value in the model", fmt.Sprintf("%s key=%q: %v", ix.name, key, want), fmt.Sprint(got))
	}
}

func checkForEach(k *vlib.Case, ctx context.Context, ix *index, key string) {
	var got []string
	err := ix.x.ForEach(ctx, key, func(gk, gv string) bool {
		got = append(got, q(gk)+"=>"+q(gv))
		return true
	})
	k.C.Count("queries", 1)
	if err != nil {
		k.Fail("foreach-error", "ForEach succeeds", "nil", err.Error())
		return
	}
	var want []string
	if key == "" {
		want = ix.allPairs()
	} else {
		for _, v := range ix.values(key) {
			want = append(want, q(key)+"=>"+q(v))
		}
	}
	sort.Strings(got)
	sort.Strings(want)
	if !same(want, got) {
		k.Fail("foreach-mismatch", "ForEach enumerates exactly the model pairs", fmt.Sprintf("%s key=%q: %q", ix.name, key, want), fmt.Sprintf("%q", got))
	}
}

// checkRaw counts the raw datastore entries per index namespace: exactly one
// entry per model pair (no residue, no loss) and foreign keys untouched. The
// key layout itself is not asserted (the statement does not fix an encoding).
func checkRaw(k *vlib.Case, ctx context.Context, raw ds.Datastore, idx []*index, foreign map[string]bool) {
	res, err := raw.Query(ctx, dsq.Query{KeysOnly: true})
	if err != nil {
		panic(err)
	}
	ents, _ := res.Rest()
	per := map[string]int{}
	var stray []string
	seenForeign := 0
	for _, e := range ents {
		if foreign[e.Key] {
			seenForeign++
			continue
		}
		owner := ""
		for _, ix := range idx {
			if strings.HasPrefix(e.Key, ix.name+"/") {
				owner = ix.name
			}
		}
		if owner == "" {
			stray = append(stray, e.Key)
		}
		per[owner]++
	}
	if seenForeign != len(foreign) {
		k.Fail("raw-foreign-lost", "keys outside the index namespaces are untouched", fmt.Sprint(len(foreign)), fmt.Sprint(seenForeign))
	}
	if len(stray) > 0 {
		sort.Strings(stray)
		k.Fail("raw-stray", "the index writes only under its namespace", "none", fmt.Sprintf("%q", stray))
	}
	for _, ix := range idx {
		if per[ix.name] != ix.count() {
			k.Fail("raw-count", "one datastore entry per model pair (no residue, no loss)", fmt.Sprintf("%s: %d", ix.name, ix.count()), fmt.Sprint(per[ix.name]))
		}
	}
}

// ---------------------------------------------------------------- fault stratum

var errInjected = errors.New("verif: injected datastore fault")

// faultDS injects one fault into the calls made while it is armed: an error
// entry after `after` results of every Query, or a failure of the Delete / Put
// with index `after` (counted from arming).
type faultDS struct {
	ds.Datastore
	mu     sync.Mutex
	kind   string // "", "query", "delete", "put"
	after  int
	n      int
	fired  bool
	passed int // results delivered before the injected query error / deletes attempted
}

func (f *faultDS) arm(kind string, after int) {
	f.mu.Lock()
	f.kind, f.after, f.n, f.fired, f.passed = kind, after, 0, false, 0
	f.mu.Unlock()
}

func (f *faultDS) Query(ctx context.Context, q dsq.Query) (dsq.Results, error) {
	f.mu.Lock()
	kind, after := f.kind, f.after
	f.mu.Unlock()
	res, err := f.Datastore.Query(ctx, q)
	if err != nil || kind != "query" {
		return res, err
	}
	ents, err := res.Rest()
	if err != nil {
		return nil, err
	}
	if after > len(ents) {
		after = len(ents)
	}
	i := 0
	done := false
	return dsq.ResultsFromIterator(q, dsq.Iterator{
		Next: func() (dsq.Result, bool) {
			if done {
				return dsq.Result{}, false
			}
			if i < after {
				i++
				return dsq.Result{Entry: ents[i-1]}, true
			}
			done = true
			f.mu.Lock()
			f.fired, f.passed = true, after
			f.mu.Unlock()
			return dsq.Result{Error: errInjected}, true
		},
		Close: func() error { return nil },
	}), nil
}

func (f *faultDS) Delete(ctx context.Context, k ds.Key) error {
	f.mu.Lock()
	fail := f.kind == "delete" && f.n == f.after
	if f.kind == "delete" {
		f.n++
	}
	if fail {
		f.fired = true
	}
	f.mu.Unlock()
	if fail {
		return errInjected
	}
	return f.Datastore.Delete(ctx, k)
}

func (f *faultDS) Put(ctx context.Context, k ds.Key, v []byte) error {
	f.mu.Lock()
	fail := f.kind == "put" && f.n == f.after
	if f.kind == "put" {
		f.n++
	}
	if fail {
		f.fired = true
	}
	f.mu.Unlock()
	if fail {
		return errInjected
	}
	return f.Datastore.Put(ctx, k, v)
}

// readRaw rebuilds the pair set of an index from the backing datastore
// (layout /<name>/<multibase key>/<multibase value>).
func readRaw(ctx context.Context, raw ds.Datastore, name string) pairSet {
	res, err := raw.Query(ctx, dsq.Query{KeysOnly: true})
	if err != nil {
		panic(err)
	}
	ents, _ := res.Rest()
	out := pairSet{}
	for _, e := range ents {
		if !strings.HasPrefix(e.Key, name+"/") {
			continue
		}
		parts := strings.Split(strings.TrimPrefix(e.Key, name+"/"), "/")
		if len(parts) != 2 {
			panic("unexpected index entry " + e.Key)
		}
		_, kb, e1 := multibase.Decode(parts[0])
		_, vb, e2 := multibase.Decode(parts[1])
		if e1 != nil || e2 != nil {
			panic("undecodable index entry " + e.Key)
		}
		if out[string(kb)] == nil {
			out[string(kb)] = map[string]bool{}
		}
		out[string(kb)][string(vb)] = true
	}
	return out
}

func subset(a, b pairSet) bool {
	for k, vs := range a {
		for v := range vs {
			if !b[k][v] {
				return false
			}
		}
	}
	return true
}

func faultHistory(k *vlib.Case) {
	r := k.R
	ctx := context.Background()
	raw := ds.NewMapDatastore()
	fds := &faultDS{Datastore: raw}
	ix := &index{name: "/idx", x: dsindex.New(fds, ds.NewKey("/idx")), model: pairSet{}}
	sib := &index{name: "/idxa", x: dsindex.New(raw, ds.NewKey("/idxa")), model: pairSet{}}
	base := string(r.Bytes(3))
	keys := []string{base, base + string(r.Bytes(3)), "a/b", string(r.Bytes(r.Range(1, 6)))}
	vals := []string{"v1", "v2", base, "\x00", "a/b", string(r.Bytes(r.Range(1, 6)))}
	for i, s := range keys {
		k.Logf("key[%d]=%q", i, s)
	}
	for i, s := range vals {
		k.Logf("val[%d]=%q", i, s)
	}
	add := func(x *index, key, val string) {
		if err := x.x.Add(ctx, key, val); err != nil {
			panic(err)
		}
		if x.model[key] == nil {
			x.model[key] = map[string]bool{}
		}
		x.model[key][val] = true
	}
	npre := r.Range(4, 10)
	for i := 0; i < npre; i++ {
		ki, vi := r.Intn(len(keys)), r.Intn(len(vals))
		k.Logf("setup Add key[%d] val[%d]", ki, vi)
		add(ix, keys[ki], vals[vi])
	}
	add(sib, keys[0], vals[0])
	add(sib, keys[1], vals[1])

	sawEnumFault, sawDeleteFault := false, false
	fullCheck := func() {
		fds.arm("", 0)
		checkForEach(k, ctx, ix, "")
		for _, pk := range keys {
			checkSearch(k, ctx, ix, pk)
			checkHasAny(k, ctx, ix, pk)
		}
	}
	// after a failed mutating call the index is whatever the datastore holds
	resync := func(op string, allowedSuperset pairSet) {
		got := readRaw(ctx, raw, ix.name)
		if !subset(got, allowedSuperset) {
			k.Fail("fault/failed-call-invented-pairs", "a failed "+op+" leaves a subset of what the call could legitimately have produced", fmt.Sprint(len(allowedSuperset)), fmt.Sprintf("%v", got))
		}
		ix.model = got
	}
	n := r.Range(6, 24)
	for i := 0; i < n; i++ {
		ki, vi := r.Intn(len(keys)), r.Intn(len(vals))
		key, val := keys[ki], vals[vi]
		fk, fa := "", 0
		op := r.Intn(100)
		faulty := r.Chance(3, 5)
		switch {
		case op < 14:
			if faulty {
				fk, fa = "put", 0
			}
			k.Logf("Add key[%d] val[%d] fault=%s@%d", ki, vi, fk, fa)
			fds.arm(fk, fa)
			err := ix.x.Add(ctx, key, val)
			after := pairSet{}
			for kk, vs := range ix.model {
				after[kk] = map[string]bool{}
				for v := range vs {
					after[kk][v] = true
				}
			}
			if after[key] == nil {
				after[key] = map[string]bool{}
			}
			after[key][val] = true
			if err != nil {
				if fk == "" {
					k.Fail("add-error", "Add succeeds without a fault", "nil", err.Error())
				}
				resync("Add", after)
			} else {
				ix.model = after
			}
			fullCheck()
		case op < 24:
			if faulty {
				fk, fa = "delete", 0
			}
			k.Logf("Delete key[%d] val[%d] fault=%s@%d", ki, vi, fk, fa)
			fds.arm(fk, fa)
			err := ix.x.Delete(ctx, key, val)
			if err != nil {
				if fk == "" {
					k.Fail("delete-error", "Delete succeeds without a fault", "nil", err.Error())
				}
				resync("Delete", ix.model)
			} else if ix.model[key][val] {
				delete(ix.model[key], val)
				if len(ix.model[key]) == 0 {
					delete(ix.model, key)
				}
			}
			fullCheck()
		case op < 52: // DeleteKey / DeleteAll
			all := op >= 44
			total := len(ix.model[key])
			if all {
				total = ix.count()
			}
			if faulty {
				switch r.Intn(3) {
				case 0:
					fk, fa = "query", r.Intn(3)
				default:
					fk, fa = "delete", r.Intn(3)
				}
			}
			name := fmt.Sprintf("DeleteKey key[%d]", ki)
			if all {
				name = "DeleteAll"
			}
			k.Logf("%s fault=%s@%d", name, fk, fa)
			fds.arm(fk, fa)
			var cnt int
			var err error
			if all {
				cnt, err = ix.x.DeleteAll(ctx)
			} else {
				cnt, err = ix.x.DeleteKey(ctx, key)
			}
			fds.mu.Lock()
			fired := fds.fired
			fds.mu.Unlock()
			if fired && fk == "delete" && total >= 2 && fa < total-1 {
				sawDeleteFault = true
			}
			if err != nil {
				if fk == "" {
					k.Fail("deletekey-error", name+" succeeds without a fault", "nil", err.Error())
				}
				resync(name, ix.model)
			} else {
				if cnt != total {
					k.Fail("deletekey-count", name+" that returned nil reports the number of pairs it had to remove", fmt.Sprint(total), fmt.Sprint(cnt))
				}
				if all {
					ix.model = pairSet{}
				} else {
					delete(ix.model, key)
				}
			}
			fullCheck() // nil => everything it should remove is gone
			if k.Failed() {
				ix.model = readRaw(ctx, raw, ix.name)
			}
		default: // queries
			if faulty {
				fk, fa = "query", r.Intn(3)
			}
			which := r.Intn(5)
			qn := []string{"Search", "HasAny", "HasAny-all", "ForEach", "ForEach-all"}[which]
			k.Logf("%s key[%d] fault=%s@%d", qn, ki, fk, fa)
			fds.arm(fk, fa)
			qk := key
			if which == 2 || which == 4 {
				qk = ""
			}
			var err error
			var got []string
			var want []string
			switch which {
			case 0:
				var vs []string
				vs, err = ix.x.Search(ctx, key)
				got, want = sortedCopy(vs), ix.values(key)
			case 1, 2:
				var any bool
				any, err = ix.x.HasAny(ctx, qk)
				w := len(ix.model[key]) > 0
				if qk == "" {
					w = ix.count() > 0
				}
				got, want = []string{fmt.Sprint(any)}, []string{fmt.Sprint(w)}
			default:
				err = ix.x.ForEach(ctx, qk, func(gk, gv string) bool {
					got = append(got, q(gk)+"=>"+q(gv))
					return true
				})
				if qk == "" {
					want = ix.allPairs()
				} else {
					for _, v := range ix.values(key) {
						want = append(want, q(key)+"=>"+q(v))
					}
				}
				sort.Strings(got)
				sort.Strings(want)
			}
			fds.mu.Lock()
			fired, passed := fds.fired, fds.passed
			fds.mu.Unlock()
			if fired && passed >= 1 && which >= 3 {
				sawEnumFault = true
			}
			k.C.Count("queries", 1)
			switch {
			case err != nil && fk == "":
				k.Fail("query-error", qn+" succeeds without a fault", "nil", err.Error())
			case err != nil:
				k.C.Count("query_errors_accepted_injected", 1)
			case !same(want, got):
				cls := "fault/" + qn + "-wrong-with-nil-error"
				if fk == "" {
					cls = "query-mismatch/" + qn
				}
				k.Fail(cls, qn+" either returns an error or the complete, exact model answer", fmt.Sprintf("%q", want), fmt.Sprintf("%q (nil error, injected fault fired=%v after %d results)", got, fired, passed))
			}
		}
		if fk != "" {
			fds.mu.Lock()
			if fds.fired {
				k.C.Count("faults_fired", 1)
			}
			fds.mu.Unlock()
		}
	}
	fds.arm("", 0)
	// the sibling index and nothing else was touched
	checkForEach(k, ctx, sib, "")
	if got := readRaw(ctx, raw, ix.name); !subset(got, ix.model) || !subset(ix.model, got) {
		k.Fail("raw-count", "backing datastore holds exactly the model pairs", fmt.Sprint(ix.model), fmt.Sprint(got))
	}
	if sawEnumFault && sawDeleteFault {
		k.Nontrivial()
	}
}
