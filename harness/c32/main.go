// C32: subdomain and DNSLink addressing preserve content identity.
//
// The real gateway.NewHostnameHandler is run (in-process, no sockets) with
// generated PublicGateways configurations, a stub backend that only answers
// DNSLink lookups, and a recording `next` handler. Requests:
//
//   - path2sub : /{ns}/{id}/{rest}?{query} on a gateway host. A 301 is decoded
//     (scheme, host = label.ns.gateway, label length/charset, path, query) and
//     then followed the way a user agent would (host lower-cased, at most 4
//     hops) until `next` is reached; the path seen there must name the same
//     content: same namespace and multihash (CID), same key (peer ID in any
//     form), same FQDN (DNSLink), same remainder and query.
//   - sub2path : {label}.{ns}.{gateway} hosts with canonical and non-canonical
//     labels (CIDv0, other bases, over-long, wrong codec for /ipns, inlined and
//     plain DNSLink names) followed until `next`.
//     Single hyphenated labels are unambiguous when exactly one of the two
//     readings (label as written, un-inlined dotted name) has a DNSLink record;
//     then that reading is the identity, on path2sub follow-ups and sub2path.
//   - dnshost  : DNSLink hosts (with ports, with/without record, NoDNSLink).
//   - frag     : path2sub requests that carry a URL fragment.
//   - xfh      : path2sub / sub2path requests that arrive the way a reverse
//     proxy delivers them (Host = internal name, X-Forwarded-Host = public host);
//     also DNSLink hosts delivered that way (record only for the forwarded name).
//   - inline   : InlineDNSLink/UninlineDNSLink on valid LDH names, with lengths
//     concentrated around the 63-character limit.
//
// Identity is decided by the harness with go-cid / peer.Decode directly, never
// by the code under test.
package main

import (
	"context"
	"fmt"
	"net"
	"net/http"
	"net/http/httptest"
	"net/url"
	"sort"
	"strings"
	"sync"

	"github.com/ipfs/boxo/gateway"
	"github.com/ipfs/boxo/path"
	cid "github.com/ipfs/go-cid"
	ic "github.com/libp2p/go-libp2p/core/crypto"
	"github.com/libp2p/go-libp2p/core/peer"
	mb "github.com/multiformats/go-multibase"
	mh "github.com/multiformats/go-multihash"

	"verif/vlib"
)

func main() { vlib.Run("C32", run) }

func run(c *vlib.Ctx) {
	c.Rule("every case draws a PublicGateways map (2-5 of: dweb.link, localhost, localhost:8080, gw.example.com, example.org + gw.example.org (nested), sub-domain.example.org, *.wild.example.net, 127.0.0.1:8080; UseSubdomains/InlineDNSLink/NoDNSLink random; Paths from /ipfs,/ipns,/ipld,/p2p) and a DNSLink table, then 6 requests. ids: CIDs (sha2-256/512, sha3, blake2b, identity of 0-40 bytes; codecs dag-pb, raw, dag-cbor, dag-json, libp2p-key; text in v0, base32, base32upper, base36, base58btc, base16, base64url), peer IDs (ed25519, secp256k1, rsa-like; legacy base58, CIDv1 base32/base36, CIDv1 with dag-pb codec), LDH DNS names with hyphens incl. xn-- and names shaped like subdomain-gateway hosts, single hyphenated labels ('my-site') whose DNSLink record exists only for the label as written / only for the un-inlined reading / both / neither; remainders with unicode, %, ?, #, spaces, trailing slashes; queries; X-Forwarded-Proto https. inline stratum: 16 LDH names per case, half with inlined length 58..68. non-trivial: path2sub/frag = a redirect was followed to `next` with a non-empty remainder and a query; sub2path = a non-canonical or inlined label reached `next`; dnshost = a host with a port and a record was mapped; xfh = path2sub / sub2path / dnshost requests all delivered through X-Forwarded-Host with Host = an internal name (internal.proxy:8080, 127.0.0.1:8080, backend.local, 10.0.0.7, gateway-0.svc.cluster.local:8080) that never has a record; inline = a name with a hyphen and at least two dots round-tripped and one name was refused for length. distinct = FNV of config + requests")
	c.Cases("path2sub", c.N(1300, 32000), func(k *vlib.Case) { hostCase(k, "path2sub") })
	c.Cases("sub2path", c.N(1100, 27000), func(k *vlib.Case) { hostCase(k, "sub2path") })
	c.Cases("dnshost", c.N(500, 12000), func(k *vlib.Case) { hostCase(k, "dnshost") })
	c.Cases("frag", c.N(200, 5000), func(k *vlib.Case) { hostCase(k, "frag") })
	c.Cases("xfh", c.N(300, 7500), func(k *vlib.Case) { hostCase(k, "xfh") })
	c.Cases("inline", c.N(320, 8000), inlineCase)
}

// ---------------------------------------------------------------- stub backend / next

type stubBackend struct {
	gateway.IPFSBackend // nil: any other backend call panics and is reported
	mu                  sync.Mutex
	records             map[string]bool
	lookups             []string
}

func (b *stubBackend) GetDNSLinkRecord(_ context.Context, fqdn string) (path.Path, error) {
	b.mu.Lock()
	defer b.mu.Unlock()
	b.lookups = append(b.lookups, fqdn)
	if b.records[fqdn] {
		return path.NewPath("/ipfs/bafkqaaa")
	}
	return nil, fmt.Errorf("no DNSLink record for %q", fqdn)
}

type seen struct {
	called   bool
	path     string
	rawQuery string
	fragment string
	gwHost   any
	dnsHost  any
	subHost  any
}

type world struct {
	k       *vlib.Case
	cfg     gateway.Config
	backend *stubBackend
	handler http.Handler
	last    seen
	gws     []gwInfo
	xfh     bool // requests arrive with Host=<internal name> and X-Forwarded-Host=<public host>
	// internalHost is the Host header a reverse proxy would send in the xfh stratum
	internalHost string
}

// fail records a violation; in the xfh stratum (requests arriving through a
// reverse proxy that sets X-Forwarded-Host) classes get their own prefix.
func (w *world) fail(class, clause, expected, observed string) {
	if w.xfh && strings.Contains(class, "/redirect-loop/") {
		class = "xfh/subdomain-redirect-loop"
	} else if w.xfh {
		class = "xfh/" + class
		observed += " [Host=" + w.internalHost + ", X-Forwarded-Host carries the public host]"
	}
	w.k.Fail(class, clause, expected, observed)
}

type gwInfo struct {
	cfgName string // key in PublicGateways
	host    string // a concrete Host value matching it
	spec    *gateway.PublicGateway
}

func (w *world) next(_ http.ResponseWriter, r *http.Request) {
	w.last = seen{called: true, path: r.URL.Path, rawQuery: r.URL.RawQuery, fragment: r.URL.Fragment,
		gwHost: r.Context().Value(gateway.GatewayHostnameKey), dnsHost: r.Context().Value(gateway.DNSLinkHostnameKey), subHost: r.Context().Value(gateway.SubdomainHostnameKey)}
}

type reqSpec struct {
	host     string
	path     string
	rawQuery string
	fragment string
	https    bool
}

type outcome struct {
	kind     string // next | redirect | status
	status   int
	location string
	seen     seen
}

func (w *world) do(rq reqSpec) outcome {
	u := &url.URL{Path: rq.path, RawQuery: rq.rawQuery, Fragment: rq.fragment}
	req := (&http.Request{Method: "GET", URL: u, Host: rq.host, Header: http.Header{}, Proto: "HTTP/1.1", ProtoMajor: 1, ProtoMinor: 1, RequestURI: u.RequestURI()}).WithContext(context.Background())
	if w.xfh {
		req.Host = w.internalHost
		req.Header.Set("X-Forwarded-Host", rq.host)
	}
	if rq.https {
		req.Header.Set("X-Forwarded-Proto", "https")
	}
	w.last = seen{}
	rec := httptest.NewRecorder()
	w.handler.ServeHTTP(rec, req)
	switch {
	case w.last.called:
		return outcome{kind: "next", status: rec.Code, seen: w.last}
	case rec.Code == http.StatusMovedPermanently || rec.Code == http.StatusFound || rec.Code == http.StatusPermanentRedirect || rec.Code == http.StatusTemporaryRedirect:
		return outcome{kind: "redirect", status: rec.Code, location: rec.Header().Get("Location")}
	}
	return outcome{kind: "status", status: rec.Code}
}

// follow behaves like a user agent: it re-sends the request to the Location of
// every redirect (host lower-cased, https remembered) until something other
// than a redirect happens. It returns all outcomes.
func (w *world) follow(rq reqSpec) (outs []outcome, reqs []reqSpec) {
	for hop := 0; hop < 5; hop++ {
		o := w.do(rq)
		outs, reqs = append(outs, o), append(reqs, rq)
		if o.kind != "redirect" {
			return
		}
		u, err := url.Parse(o.location)
		if err != nil || u.Host == "" {
			return
		}
		rq = reqSpec{host: strings.ToLower(u.Host), path: u.Path, rawQuery: u.RawQuery, fragment: u.Fragment, https: u.Scheme == "https"}
		if rq.path == "" {
			rq.path = "/"
		}
	}
	return
}

// ---------------------------------------------------------------- identity (harness's own)

type ident struct {
	kind  string // cid | key | dns
	ns    string
	mh    string
	codec uint64
	dns   string
}

func (i ident) String() string {
	switch i.kind {
	case "cid":
		return fmt.Sprintf("%s:cid codec=0x%x mh=%x", i.ns, i.codec, i.mh)
	case "key":
		return fmt.Sprintf("%s:key mh=%x", i.ns, i.mh)
	case "dns":
		return fmt.Sprintf("%s:dns %s", i.ns, i.dns)
	}
	return "invalid"
}

func peerNS(ns string) bool { return ns == "ipns" || ns == "p2p" }

func identOf(ns, id string) (ident, bool) {
	if id == "" {
		return ident{}, false
	}
	if peerNS(ns) {
		if pid, err := peer.Decode(id); err == nil {
			return ident{kind: "key", ns: ns, mh: string(pid)}, true
		}
		if c, err := cid.Decode(id); err == nil {
			return ident{kind: "key", ns: ns, mh: string(c.Hash())}, true
		}
		if ns == "ipns" {
			return ident{kind: "dns", ns: ns, dns: id}, true
		}
		return ident{}, false
	}
	c, err := cid.Decode(id)
	if err != nil {
		return ident{}, false
	}
	return ident{kind: "cid", ns: ns, mh: string(c.Hash()), codec: c.Type()}, true
}

// fitsLabel: can this identity be written as one DNS label the way the spec
// describes (CIDv1 base32, or base36 when that is too long; keys always base36)?
func fitsLabel(i ident) bool {
	switch i.kind {
	case "cid":
		c := cid.NewCidV1(i.codec, mh.Multihash(i.mh))
		if len(c.String()) <= 63 {
			return true
		}
		s, _ := c.StringOfBase(mb.Base36)
		return len(s) <= 63
	case "key":
		s, _ := cid.NewCidV1(cid.Libp2pKey, mh.Multihash(i.mh)).StringOfBase(mb.Base36)
		return len(s) <= 63
	}
	return true
}

func modelInline(fqdn string) string {
	return strings.ReplaceAll(strings.ReplaceAll(fqdn, "-", "--"), ".", "-")
}

// splitContentPath splits /ns/id/rest.
func splitContentPath(p string) (ns, id, rest string, ok bool) {
	parts := strings.SplitN(p, "/", 4)
	if len(parts) < 3 || parts[0] != "" {
		return "", "", "", false
	}
	ns, id = parts[1], parts[2]
	if len(parts) == 4 {
		rest = parts[3]
	}
	return ns, id, rest, true
}

// normRest: a remainder is the same if it has the same segments and the same
// trailing slash; a leading slash (root of the subdomain origin) is not a segment.
func normRest(s string) string { return strings.TrimLeft(s, "/") }

// ---------------------------------------------------------------- generators

type idSpec struct {
	kind  string // cid | peer | dns
	text  string
	form  string
	ident ident // filled for the namespace it is used in
}

var mhCodes = []uint64{mh.SHA2_256, mh.SHA2_256, mh.SHA2_256, mh.SHA2_512, mh.SHA3_256, mh.BLAKE2B_MIN + 31, mh.IDENTITY, mh.IDENTITY}
var codecs = []uint64{cid.DagProtobuf, cid.DagProtobuf, cid.Raw, cid.Raw, cid.DagCBOR, 0x0129, cid.Libp2pKey}

func genCid(r *vlib.Rand) (cid.Cid, string, string) {
	code := vlib.Pick(r, mhCodes)
	var data []byte
	if code == mh.IDENTITY {
		data = r.Bytes(r.Range(0, 40))
	} else {
		data = r.Bytes(r.Range(1, 32))
	}
	h, err := mh.Sum(data, code, -1)
	if err != nil {
		panic(err)
	}
	codec := vlib.Pick(r, codecs)
	c := cid.NewCidV1(codec, h)
	form := vlib.Pick(r, []string{"b32", "b32", "b32", "v0", "b36", "b58", "b16", "b32upper", "b64url"})
	var s string
	switch form {
	case "v0":
		if code == mh.SHA2_256 {
			c = cid.NewCidV1(cid.DagProtobuf, h)
			s = cid.NewCidV0(h).String()
		} else {
			form, s = "b32", c.String()
		}
	case "b36":
		s, _ = c.StringOfBase(mb.Base36)
	case "b58":
		s, _ = c.StringOfBase(mb.Base58BTC)
	case "b16":
		s, _ = c.StringOfBase(mb.Base16)
	case "b32upper":
		s, _ = c.StringOfBase(mb.Base32Upper)
	case "b64url":
		s, _ = c.StringOfBase(mb.Base64url)
	default:
		s = c.String()
	}
	return c, s, form
}

func genPeer(r *vlib.Rand) (peer.ID, string, string) {
	var pid peer.ID
	kind := vlib.Pick(r, []string{"ed25519", "ed25519", "rsa", "secp256k1"})
	switch kind {
	case "ed25519":
		pub, err := ic.UnmarshalEd25519PublicKey(r.Bytes(32))
		if err != nil {
			panic(err)
		}
		pid, _ = peer.IDFromPublicKey(pub)
	case "secp256k1":
		for pid == "" {
			sk, err := ic.UnmarshalSecp256k1PrivateKey(r.Bytes(32))
			if err == nil {
				pid, _ = peer.IDFromPublicKey(sk.GetPublic())
			}
		}
	default: // RSA-like: sha2-256 multihash of the (here: arbitrary) key bytes
		h, _ := mh.Sum(r.Bytes(64), mh.SHA2_256, -1)
		pid = peer.ID(h)
	}
	c := peer.ToCid(pid)
	form := vlib.Pick(r, []string{"legacy-b58", "legacy-b58", "cid-b36", "cid-b36", "cid-b32", "cid-dagpb-b32", "cid-b58"})
	var s string
	switch form {
	case "legacy-b58":
		s = pid.String()
	case "cid-b36":
		s, _ = c.StringOfBase(mb.Base36)
	case "cid-b32":
		s = c.String()
	case "cid-b58":
		s, _ = c.StringOfBase(mb.Base58BTC)
	case "cid-dagpb-b32":
		s = cid.NewCidV1(cid.DagProtobuf, c.Hash()).String()
	}
	return pid, s, kind + "/" + form
}

const alnum = "abcdefghijklmnopqrstuvwxyz0123456789"

func ldhLabel(r *vlib.Rand, n int) string {
	if n < 1 {
		n = 1
	}
	b := make([]byte, n)
	for i := range b {
		if i > 0 && i < n-1 && r.Chance(1, 4) {
			b[i] = '-'
		} else {
			b[i] = alnum[r.Intn(len(alnum))]
		}
	}
	return string(b)
}

var fixedNames = []string{"en.wikipedia-on-ipfs.org", "docs.ipfs.tech", "my.v-long.example.com", "xn--bcher-kva.example", "a-b.c-d.e--f.example.net", "x.ipfs.dweb.link", "cid.ipns.localhost", "a.b", "ipfs.io", "dnslink-test.ipns.gw.example.com", "www.xn----7sbb4ac0ad0be6cf.xn--p1ai"}

// genFQDN returns a valid LDH name with at least one dot. If target > 0 the
// inlined length is steered to that value.
func genFQDN(r *vlib.Rand, target int) string {
	if target <= 0 && r.Chance(1, 4) {
		return vlib.Pick(r, fixedNames)
	}
	if target <= 0 {
		n := r.Range(2, 5)
		var ls []string
		for i := 0; i < n; i++ {
			ls = append(ls, ldhLabel(r, r.Range(1, 12)))
		}
		return strings.Join(ls, ".")
	}
	for {
		var ls []string
		for len(modelInline(strings.Join(ls, "."))) < target-14 || len(ls) < 1 {
			ls = append(ls, ldhLabel(r, r.Range(1, 12)))
		}
		base := strings.Join(ls, ".")
		need := target - len(modelInline(base)) - 1
		if need < 1 {
			continue
		}
		// the last label is plain alnum so its inlined length is its length
		last := make([]byte, need)
		for i := range last {
			last[i] = alnum[r.Intn(26)]
		}
		name := base + "." + string(last)
		if len(modelInline(name)) == target && need <= 63 {
			return name
		}
	}
}

// genSingleLabel returns a DNSLink name that is ONE label with hyphens
// ("my-site", "intra-net-wiki") together with its un-inlined (dotted) reading.
// Neither reading decodes as a CID or peer ID.
func genSingleLabel(r *vlib.Rand) (label, dotted string) {
	for {
		n := r.Range(2, 4)
		var ws []string
		for i := 0; i < n; i++ {
			b := make([]byte, r.Range(1, 8))
			for j := range b {
				b[j] = alnum[r.Intn(len(alnum))]
			}
			ws = append(ws, string(b))
		}
		label, dotted = strings.Join(ws, "-"), strings.Join(ws, ".")
		if _, err := cid.Decode(label); err == nil {
			continue
		}
		if _, err := peer.Decode(label); err == nil {
			continue
		}
		return label, dotted
	}
}

// singleLabelRecords draws which of the two readings of a hyphenated single
// label has a DNSLink record and returns the identity that follows from it:
// "own" (only the label as written) -> the label; "dotted" (only the
// un-inlined reading) -> the dotted name; both / neither -> ambiguous by
// design (boxo prefers the dotted reading), no verdict.
func (w *world) singleLabelRecords(r *vlib.Rand, ns, label, dotted string) (mode string, want ident) {
	switch x := r.Intn(100); {
	case x < 45:
		mode, want = "own", ident{kind: "dns", ns: ns, dns: label}
		w.setRecord(label, true)
		w.setRecord(dotted, false)
	case x < 80:
		mode, want = "dotted", ident{kind: "dns", ns: ns, dns: dotted}
		w.setRecord(label, false)
		w.setRecord(dotted, true)
	case x < 90:
		mode = "both"
		w.setRecord(label, true)
		w.setRecord(dotted, true)
	default:
		mode = "neither"
		w.setRecord(label, false)
		w.setRecord(dotted, false)
	}
	return mode, want
}

var restSegs = []string{"a", "index.html", "wiki", "c d", "ü", "日本", "%", "%2F", "a%20b", "?", "#", "a?b#c", "..", ".", "...", "-", "~", "a:b", "+", "&", "=", "ipfs", "Qm", "\\", "\"", "<x>", "ipns"}
var queries = []string{"", "", "a=1", "format=car&dag-scope=all", "filename=%E2%9C%93.txt&download=true", "x=%2F%3F%23", "a=b=c&&d", "q=a+b", "empty=", "format=raw", "entity-bytes=0:100"}

func genRest(r *vlib.Rand) string {
	n := r.Intn(4)
	if n == 0 {
		return vlib.Pick(r, []string{"", "", "/"})
	}
	var b strings.Builder
	for i := 0; i < n; i++ {
		b.WriteString("/")
		b.WriteString(vlib.Pick(r, restSegs))
	}
	if r.Chance(1, 3) {
		b.WriteString("/")
	}
	return b.String()
}

// ---------------------------------------------------------------- world construction

var gwPool = []struct{ cfg, host string }{
	{"dweb.link", "dweb.link"},
	{"localhost", "localhost"},
	{"localhost:8080", "localhost:8080"},
	{"localhost", "localhost:8080"}, // port falls back to the port-less entry
	{"gw.example.com", "gw.example.com"},
	{"example.org", "example.org"},
	{"gw.example.org", "gw.example.org"},
	{"sub-domain.example.org", "sub-domain.example.org"},
	{"*.wild.example.net", "x1.wild.example.net"},
	{"*.wild.example.net", "a-b.wild.example.net:8443"},
}

func newWorld(k *vlib.Case, stratum string) *world {
	r := k.R
	w := &world{k: k, backend: &stubBackend{records: map[string]bool{}}}
	w.cfg = gateway.Config{PublicGateways: map[string]*gateway.PublicGateway{}, NoDNSLink: r.Chance(1, 5)}
	if stratum != "dnshost" {
		w.cfg.NoDNSLink = r.Chance(1, 10)
	}
	n := r.Range(2, 5)
	perm := r.Perm(len(gwPool))
	for _, pi := range perm {
		if len(w.gws) >= n {
			break
		}
		g := gwPool[pi]
		spec, dup := w.cfg.PublicGateways[g.cfg]
		if !dup {
			spec = &gateway.PublicGateway{UseSubdomains: r.Chance(4, 5), InlineDNSLink: r.Bool(), NoDNSLink: r.Chance(1, 5), DeserializedResponses: true}
			switch r.Intn(6) {
			case 0:
				spec.Paths = []string{"/ipfs"}
			case 1:
				spec.Paths = []string{"/ipfs/", "/ipns/"}
			case 2:
				spec.Paths = []string{"/ipfs", "/ipns", "/ipld", "/p2p", "/api"}
			default:
				spec.Paths = []string{"/ipfs", "/ipns"}
			}
			w.cfg.PublicGateways[g.cfg] = spec
		}
		w.gws = append(w.gws, gwInfo{cfgName: g.cfg, host: g.host, spec: spec})
	}
	if r.Chance(1, 3) {
		w.cfg.PublicGateways["127.0.0.1:8080"] = &gateway.PublicGateway{Paths: []string{"/ipfs", "/ipns"}, UseSubdomains: r.Chance(1, 4)}
	}
	// The spec that applies to a concrete Host value: exact entry, else the
	// entry without the port, else the wildcard entry (documented precedence).
	for i := range w.gws {
		h := w.gws[i].host
		if s, ok := w.cfg.PublicGateways[h]; ok {
			w.gws[i].spec, w.gws[i].cfgName = s, h
		} else if s, ok := w.cfg.PublicGateways[stripPort(h)]; ok {
			w.gws[i].spec, w.gws[i].cfgName = s, stripPort(h)
		}
	}
	var names []string
	for name := range w.cfg.PublicGateways {
		names = append(names, name)
	}
	sort.Strings(names)
	for _, name := range names {
		g := w.cfg.PublicGateways[name]
		k.Logf("gateway %q paths=%v subdomains=%v inline=%v noDNSLink=%v", name, g.Paths, g.UseSubdomains, g.InlineDNSLink, g.NoDNSLink)
	}
	k.Logf("config NoDNSLink=%v", w.cfg.NoDNSLink)
	w.handler = gateway.NewHostnameHandler(w.cfg, w.backend, http.HandlerFunc(w.next))
	return w
}

func hasPathPrefix(p string, prefixes []string) bool {
	for _, pre := range prefixes {
		pre = strings.TrimSuffix(pre, "/")
		if p == pre || strings.HasPrefix(p, pre+"/") {
			return true
		}
	}
	return false
}

func (w *world) setRecord(fqdn string, on bool) {
	w.backend.records[fqdn] = on
	w.k.Logf("dnslink %s record=%v", fqdn, on)
}

// ---------------------------------------------------------------- the cases

func hostCase(k *vlib.Case, stratum string) {
	w := newWorld(k, stratum)
	w.xfh = stratum == "xfh"
	r := k.R
	if w.xfh {
		w.internalHost = vlib.Pick(r, []string{"internal.proxy:8080", "127.0.0.1:8080", "backend.local", "10.0.0.7", "gateway-0.svc.cluster.local:8080"})
		k.Logf("reverse proxy: Host=%s, X-Forwarded-Host=<host shown per request>", w.internalHost)
	}
	nreq := 6
	if stratum == "frag" {
		nreq = 4
	}
	nontrivial := false
	for i := 0; i < nreq; i++ {
		switch stratum {
		case "path2sub":
			nontrivial = w.path2sub(r, false) || nontrivial
		case "frag":
			nontrivial = w.path2sub(r, true) || nontrivial
		case "sub2path":
			nontrivial = w.sub2path(r) || nontrivial
		case "dnshost":
			nontrivial = w.dnshost(r) || nontrivial
		case "xfh":
			switch i % 3 {
			case 0:
				nontrivial = w.path2sub(r, false) || nontrivial
			case 1:
				nontrivial = w.sub2path(r) || nontrivial
			default:
				// DNSLink host delivered through X-Forwarded-Host: only the
				// forwarded name has a record, never the internal Host
				nontrivial = w.dnshost(r) || nontrivial
			}
		}
	}
	if nontrivial {
		k.Nontrivial()
	}
	k.C.Count("requests_"+stratum, int64(nreq))
}

func (w *world) genID(r *vlib.Rand, ns string) idSpec {
	x := r.Intn(10)
	switch {
	case peerNS(ns) && x < 5:
		_, s, form := genPeer(r)
		return idSpec{kind: "peer", text: s, form: form}
	case ns == "ipns" && x == 8:
		l, d := genSingleLabel(r)
		return idSpec{kind: "dns1", text: l, form: d}
	case ns == "ipns" && x < 8:
		target := 0
		if r.Chance(1, 4) {
			target = r.Range(60, 66)
		}
		fq := genFQDN(r, target)
		return idSpec{kind: "dns", text: fq, form: "fqdn"}
	default:
		_, s, form := genCid(r)
		return idSpec{kind: "cid", text: s, form: form}
	}
}

func pickNS(r *vlib.Rand) string {
	return vlib.Pick(r, []string{"ipfs", "ipfs", "ipfs", "ipfs", "ipns", "ipns", "ipns", "ipns", "ipld", "p2p"})
}

// path2sub: path request on a gateway host.
func (w *world) path2sub(r *vlib.Rand, withFragment bool) bool {
	k := w.k
	g := vlib.Pick(r, w.gws)
	ns := pickNS(r)
	id := w.genID(r, ns)
	rest := genRest(r)
	q := vlib.Pick(r, queries)
	https := r.Chance(1, 4)
	frag := ""
	if withFragment {
		frag = vlib.Pick(r, []string{"top", "a/b", "x y", "ü"})
	}
	hasRec := false
	if id.kind == "dns" {
		hasRec = r.Chance(3, 4)
		w.setRecord(id.text, hasRec)
	}
	slMode, slDotted := "", ""
	var slWant ident
	if id.kind == "dns1" {
		slDotted = id.form
		slMode, slWant = w.singleLabelRecords(r, ns, id.text, slDotted)
	}
	p := "/" + ns + "/" + id.text + rest
	rq := reqSpec{host: g.host, path: p, rawQuery: q, fragment: frag, https: https}
	k.Logf("GET host=%s path=%q query=%q fragment=%q https=%v  [%s %s %s]", rq.host, rq.path, rq.rawQuery, rq.fragment, https, id.kind, id.form, slMode)
	want, valid := identOf(ns, id.text)
	if !valid {
		panic("generator produced an invalid id: " + ns + " " + id.text)
	}
	feat := id.kind
	outs, reqs := w.follow(rq)
	first := outs[0]
	handled := hasPathPrefix(p, g.spec.Paths)
	wantRest := normRest(strings.TrimPrefix(rest, "/"))

	if !handled {
		// Not a gateway path on this host: nothing is mapped; if anything
		// reaches `next`, it must be the DNSLink view of this very host.
		w.checkUnhandled(rq, g, first)
		return false
	}
	if !g.spec.UseSubdomains {
		if first.kind != "next" || first.seen.path != p || first.seen.rawQuery != q {
			w.fail("path-gateway/altered", "a path gateway passes the request on unchanged", fmt.Sprintf("next(path=%q query=%q)", p, q), describe(first))
		}
		return false
	}
	if id.kind == "dns1" {
		return w.path2subSingleLabel(g, ns, id.text, slDotted, slMode, slWant, https, wantRest, q, outs, reqs)
	}
	// --- subdomain gateway: a redirect is expected
	refuse := false
	if want.kind != "dns" && !fitsLabel(want) {
		refuse = true
	}
	inlineApplies := want.kind == "dns" && (g.spec.InlineDNSLink || https) && hasRec
	if inlineApplies && len(modelInline(id.text)) > 63 {
		refuse = true
	}
	if refuse {
		k.C.Count("refusals_expected", 1)
		if first.kind == "redirect" {
			host, label := "", ""
			if u, err := url.Parse(first.location); err == nil {
				host = u.Host
				label = strings.SplitN(u.Host, ".", 2)[0]
			}
			// a DNSLink name that is left un-inlined (multi-label host) is not a produced label
			if want.kind != "dns" || !strings.HasPrefix(host, id.text+".") {
				w.fail("label/too-long/"+feat, "every produced label fits the 63-character limit", "no redirect (identity does not fit a DNS label)", fmt.Sprintf("Location %s (label %d chars)", first.location, len(label)))
			}
		}
		return false
	}
	if first.kind != "redirect" {
		cls := "redirect/missing/"
		if first.kind == "status" && first.status == 400 {
			cls = "redirect/refused-though-fits/"
		}
		w.fail(cls+feat, "a path request for a valid id on a subdomain gateway is redirected to the subdomain URL", "301 to {label}."+ns+"."+g.host, describe(first))
		return false
	}
	k.C.Count("redirects", 1)
	u, err := url.Parse(first.location)
	if err != nil || u.Host == "" {
		w.fail("redirect/location-unparsable", "Location is an absolute URL", "absolute URL", fmt.Sprintf("%q err=%v", first.location, err))
		return false
	}
	wantScheme := "http"
	if https {
		wantScheme = "https"
	}
	if u.Scheme != wantScheme {
		w.fail("redirect/scheme", "scheme follows X-Forwarded-Proto", wantScheme, u.Scheme)
	}
	suffix := "." + ns + "." + g.host
	if !strings.HasSuffix(u.Host, suffix) {
		w.fail("redirect/host-suffix/"+feat, "Location host is {label}.{ns}.{gateway host}", "*"+suffix, u.Host)
		return false
	}
	label := strings.TrimSuffix(u.Host, suffix)
	switch want.kind {
	case "cid", "key":
		if len(label) > 63 || strings.Contains(label, ".") {
			w.fail("label/too-long/"+feat, "every produced label fits the 63-character limit", "one label <= 63", fmt.Sprintf("%q (%d)", label, len(label)))
		}
		got, ok := identOf(ns, label)
		if !ok || got != want {
			w.fail("identity/location/"+feat, "the redirect label names the same content", want.String(), fmt.Sprintf("%s (label %q)", got, label))
		}
	case "dns":
		if inlineApplies {
			if len(label) > 63 || strings.Contains(label, ".") {
				w.fail("label/too-long/dns", "every produced label fits the 63-character limit", "one label <= 63", fmt.Sprintf("%q (%d)", label, len(label)))
			}
			if back := gateway.UninlineDNSLink(label); back != id.text {
				w.fail("identity/location/dns-inlined", "the inlined label decodes back to the original FQDN", id.text, fmt.Sprintf("%q -> %q", label, back))
			}
		} else if label != id.text {
			w.fail("identity/location/dns", "a DNSLink name that is not inlined is kept as is", id.text, label)
		}
	}
	if normRest(u.Path) != wantRest {
		w.fail("remainder/location", "the redirect keeps the remainder", "/"+wantRest, u.Path)
	}
	if u.RawQuery != q {
		w.fail("query/location", "the redirect keeps the query", q, u.RawQuery)
	}
	if withFragment && u.Fragment != frag {
		w.fail("fragment/location-dropped", "the redirect keeps the fragment", "#"+frag, fmt.Sprintf("Location %s", first.location))
	}
	// --- re-enter
	final := outs[len(outs)-1]
	if final.kind != "next" {
		cls := "reentry/not-served/"
		if final.kind == "redirect" {
			cls = "reentry/redirect-loop/"
		}
		w.fail(cls+feat, "following the redirect reaches the content handler", "next handler", fmt.Sprintf("%s after %d hops (last request host=%s path=%q)", describe(final), len(outs), reqs[len(reqs)-1].host, reqs[len(reqs)-1].path))
		return false
	}
	if len(outs) > 2 {
		k.C.Count("second_redirects", 1)
	}
	w.checkServed("path2sub", feat, final, ns, want, wantRest, q)
	return wantRest != "" && q != ""
}

// path2subSingleLabel: /ipns/{single hyphenated label} on a subdomain gateway.
// The label may be a host name of its own ("own": only it has a record) or the
// inlined spelling of a dotted name ("dotted": only that has a record).
func (w *world) path2subSingleLabel(g gwInfo, ns, label, dotted, mode string, want ident, https bool, wantRest, q string, outs []outcome, reqs []reqSpec) bool {
	first := outs[0]
	feat := "dns-single-" + mode
	if first.kind != "redirect" {
		w.fail("redirect/missing/"+feat, "a path request for a DNSLink name on a subdomain gateway is redirected to the subdomain URL", "301 to {label}."+ns+"."+g.host, describe(first))
		return false
	}
	w.k.C.Count("redirects", 1)
	u, err := url.Parse(first.location)
	if err != nil || u.Host == "" {
		w.fail("redirect/location-unparsable", "Location is an absolute URL", "absolute URL", first.location)
		return false
	}
	suffix := "." + ns + "." + g.host
	if !strings.HasSuffix(u.Host, suffix) {
		w.fail("redirect/host-suffix/"+feat, "Location host is {label}.{ns}.{gateway host}", "*"+suffix, u.Host)
		return false
	}
	got := strings.TrimSuffix(u.Host, suffix)
	switch mode {
	case "own":
		if got != label {
			w.fail("identity/location/"+feat, "a single-label DNSLink name with its own record is kept as is", label, got)
		}
	case "dotted":
		exp := dotted
		if g.spec.InlineDNSLink || https {
			exp = label
		}
		if got != exp {
			w.fail("identity/location/"+feat, "an inlined name given on a path is un-inlined (and re-inlined only on inlining gateways)", exp, got)
		}
	}
	if normRest(u.Path) != wantRest {
		w.fail("remainder/location", "the redirect keeps the remainder", "/"+wantRest, u.Path)
	}
	if u.RawQuery != q {
		w.fail("query/location", "the redirect keeps the query", q, u.RawQuery)
	}
	if mode != "own" && mode != "dotted" {
		w.k.C.Count("ambiguous_inlined_labels_skipped", 1)
		return false
	}
	final := outs[len(outs)-1]
	if final.kind != "next" {
		cls := "reentry/not-served/"
		if final.kind == "redirect" {
			cls = "reentry/redirect-loop/"
		}
		w.fail(cls+feat, "following the redirect reaches the content handler", "next handler", fmt.Sprintf("%s after %d hops (last request host=%s)", describe(final), len(outs), reqs[len(reqs)-1].host))
		return false
	}
	w.checkServed("path2sub", feat, final, ns, want, wantRest, q)
	w.k.C.Count("single_label_names_followed", 1)
	return wantRest != "" && q != ""
}

func describe(o outcome) string {
	switch o.kind {
	case "next":
		return fmt.Sprintf("next(path=%q query=%q)", o.seen.path, o.seen.rawQuery)
	case "redirect":
		return fmt.Sprintf("%d Location=%s", o.status, o.location)
	}
	return fmt.Sprintf("status %d", o.status)
}

// checkServed compares what `next` saw with the identity that was asked for.
func (w *world) checkServed(flow, feat string, o outcome, ns string, want ident, wantRest, q string) {
	gns, gid, grest, ok := splitContentPath(o.seen.path)
	if !ok {
		w.fail("identity/"+flow+"/no-content-path/"+feat, "the handler sees a content path", "/"+ns+"/{id}/…", o.seen.path)
		return
	}
	if gns != ns {
		w.fail("identity/"+flow+"/namespace/"+feat, "same namespace", ns, gns)
		return
	}
	got, ok := identOf(gns, gid)
	if !ok || got != want {
		w.fail("identity/"+flow+"/"+feat, "the path seen by the content handler names the same content", want.String(), fmt.Sprintf("%s (path %q)", got, o.seen.path))
	}
	if normRest(grest) != wantRest {
		w.fail("remainder/"+flow, "remainder preserved", "/"+wantRest, "/"+grest)
	}
	if o.seen.rawQuery != q {
		w.fail("query/"+flow, "query preserved", q, o.seen.rawQuery)
	}
}

// checkUnhandled: the request path is not one of the gateway's Paths.
func (w *world) checkUnhandled(rq reqSpec, g gwInfo, o outcome) {
	if o.kind != "next" {
		return
	}
	host := stripPort(rq.host)
	if o.seen.path == rq.path {
		return // passed on untouched: nothing was mapped
	}
	if o.seen.path != "/ipns/"+host+rq.path || !w.backend.records[host] || g.spec.NoDNSLink {
		w.fail("dnslink-host/identity/known-gateway", "a DNSLink view names the request host and keeps the path", fmt.Sprintf("/ipns/%s%s (record=%v noDNSLink=%v)", host, rq.path, w.backend.records[host], g.spec.NoDNSLink), o.seen.path)
	}
	if o.seen.rawQuery != rq.rawQuery {
		w.fail("query/dnslink-host", "query preserved", rq.rawQuery, o.seen.rawQuery)
	}
}

func stripPort(h string) string {
	if host, _, err := net.SplitHostPort(h); err == nil {
		return host
	}
	return h
}

// sub2path: request on a subdomain host.
func (w *world) sub2path(r *vlib.Rand) bool {
	k := w.k
	g := vlib.Pick(r, w.gws)
	ns := pickNS(r)
	rest := genRest(r)
	if rest == "" {
		rest = "/"
	}
	q := vlib.Pick(r, queries)
	https := r.Chance(1, 5)

	var label, form string
	var want ident
	noncanon := false
	x := r.Intn(10)
	switch {
	case ns == "ipns" && x == 3:
		// one hyphenated label: a host name of its own or an inlined spelling
		l, d := genSingleLabel(r)
		mode, wnt := w.singleLabelRecords(r, ns, l, d)
		label, want, noncanon = l, wnt, true
		form = "dns-single-" + mode
		if mode != "own" && mode != "dotted" {
			want = ident{kind: "dns", ns: ns, dns: d}
			form = "dns-single-" + mode + "-norecord" // ambiguous: no verdict
		}
	case ns == "ipns" && x < 3:
		// DNSLink name, inlined or plain
		target := 0
		if r.Chance(1, 4) {
			target = r.Range(58, 63)
		}
		fq := genFQDN(r, target)
		rec := r.Chance(4, 5)
		w.setRecord(fq, rec)
		want = ident{kind: "dns", ns: ns, dns: fq}
		if r.Chance(3, 5) && len(modelInline(fq)) <= 63 {
			label, form, noncanon = modelInline(fq), "dns-inlined", true
			if !rec {
				// Without a record for the un-inlined name the label is
				// ambiguous by design (it could be a hostname with hyphens);
				// boxo then reports the un-inlined form. Identity is only
				// defined when the record exists, so skip the verdict.
				form = "dns-inlined-norecord"
			}
		} else {
			label, form = fq, "dns-plain"
		}
	case peerNS(ns) && x < 8:
		pid, s, f := genPeer(r)
		want = ident{kind: "key", ns: ns, mh: string(pid)}
		label, form = s, "peer/"+f
		canon, _ := peer.ToCid(pid).StringOfBase(mb.Base36)
		noncanon = s != canon
	default:
		c, s, f := genCid(r)
		if peerNS(ns) {
			want = ident{kind: "key", ns: ns, mh: string(c.Hash())}
			noncanon = true
		} else {
			want = ident{kind: "cid", ns: ns, mh: string(c.Hash()), codec: c.Type()}
			noncanon = s != c.String()
		}
		label, form = s, "cid/"+f
	}
	host := label + "." + ns + "." + g.host
	rq := reqSpec{host: host, path: rest, rawQuery: q, https: https}
	k.Logf("GET host=%s path=%q query=%q https=%v  [%s]", rq.host, rq.path, rq.rawQuery, https, form)
	outs, reqs := w.follow(rq)
	final := outs[len(outs)-1]
	feat := form
	if i := strings.Index(feat, "/"); i > 0 {
		feat = feat[:i]
	}
	handled := g.spec.UseSubdomains && hasPathPrefix("/"+ns+"/"+label, g.spec.Paths)
	if !handled {
		// the subdomain is not served by this gateway; whatever happens, no
		// other content may be served under this name
		if final.kind == "next" {
			if gns, gid, _, ok := splitContentPath(final.seen.path); ok && gns == ns {
				if got, ok := identOf(gns, gid); ok && got.kind == want.kind && got != want && !strings.HasSuffix(form, "-norecord") {
					w.fail("identity/sub2path-unhandled/"+feat, "no other content is served for this host", want.String(), got.String())
				}
			}
		}
		return false
	}
	if strings.HasSuffix(form, "-norecord") {
		k.C.Count("ambiguous_inlined_labels_skipped", 1)
		return false
	}
	if len(label) > 63 && want.kind != "dns" {
		k.C.Count("overlong_host_labels", 1)
	}
	if want.kind != "dns" && (!fitsLabel(want) || len(label) > 63) {
		// An identity that fits no DNS label can only be served under the label
		// it came with or be refused; a Host label above 63 characters is not a
		// DNS name at all, so serving it is not required. Identity still is.
		if final.kind == "next" {
			w.checkServed("sub2path", feat, final, ns, want, normRest(rest), q)
		}
		return false
	}
	if final.kind != "next" {
		cls := "sub2path/not-served/"
		if final.kind == "redirect" {
			cls = "sub2path/redirect-loop/"
		}
		w.fail(cls+feat, "a subdomain request for a valid id reaches the content handler", "next handler", fmt.Sprintf("%s after %d hops (last request host=%s)", describe(final), len(outs), reqs[len(reqs)-1].host))
		return false
	}
	// every intermediate redirect must already name the same content
	for _, o := range outs[:len(outs)-1] {
		u, err := url.Parse(o.location)
		if err != nil {
			w.fail("redirect/location-unparsable", "Location is an absolute URL", "absolute URL", o.location)
			continue
		}
		suffix := "." + ns + "." + g.host
		if !strings.HasSuffix(u.Host, suffix) {
			w.fail("redirect/host-suffix/"+feat, "Location host is {label}.{ns}.{gateway host}", "*"+suffix, u.Host)
			continue
		}
		l := strings.TrimSuffix(u.Host, suffix)
		if want.kind != "dns" {
			if len(l) > 63 {
				w.fail("label/too-long/"+feat, "every produced label fits the 63-character limit", "<= 63", fmt.Sprintf("%q (%d)", l, len(l)))
			}
			if got, ok := identOf(ns, l); !ok || got != want {
				w.fail("identity/location/"+feat, "the redirect label names the same content", want.String(), fmt.Sprintf("%s (label %q)", got, l))
			}
		}
		if normRest(u.Path) != normRest(rest) {
			w.fail("remainder/location", "the redirect keeps the remainder", rest, u.Path)
		}
		if u.RawQuery != q {
			w.fail("query/location", "the redirect keeps the query", q, u.RawQuery)
		}
		k.C.Count("redirects", 1)
	}
	w.checkServed("sub2path", feat, final, ns, want, normRest(rest), q)
	return noncanon
}

// dnshost: DNSLink host (not a subdomain of a gateway).
func (w *world) dnshost(r *vlib.Rand) bool {
	k := w.k
	var host string
	knownGw := false
	var g gwInfo
	if r.Chance(1, 4) {
		g = vlib.Pick(r, w.gws)
		host, knownGw = g.host, true
	} else {
		host = genFQDN(r, 0)
		for _, gw := range w.gws { // must not be a gateway or below one
			if host == stripPort(gw.host) || strings.HasSuffix(host, "."+stripPort(gw.host)) {
				host = "dnslink-" + ldhLabel(r, 6) + ".example.io"
			}
		}
		if r.Chance(1, 3) {
			host += vlib.Pick(r, []string{":80", ":8080", ":443"})
		}
	}
	rec := r.Chance(3, 4)
	w.setRecord(stripPort(host), rec)
	var p string
	switch r.Intn(4) {
	case 0:
		_, s, _ := genCid(r)
		p = "/ipfs/" + s + genRest(r)
	case 1:
		p = "/"
	default:
		p = genRest(r)
		if p == "" {
			p = "/"
		}
	}
	q := vlib.Pick(r, queries)
	rq := reqSpec{host: host, path: p, rawQuery: q}
	k.Logf("GET host=%s path=%q query=%q", host, p, q)
	o := w.do(rq)
	name := stripPort(host)
	mapped := "/ipns/" + name + p
	if knownGw {
		if hasPathPrefix(p, g.spec.Paths) {
			return false // a gateway path on a gateway host: covered by path2sub
		}
		w.checkUnhandled(rq, g, o)
		if rec && !g.spec.NoDNSLink && (o.kind != "next" || o.seen.path != mapped) {
			w.fail("dnslink-host/not-mapped/known-gateway", "a host with a DNSLink record is served as /ipns/{host}{path}", mapped, describe(o))
		}
		return false
	}
	switch {
	case o.kind != "next":
		w.fail("dnslink-host/not-served", "a request on an unknown host reaches the content handler", "next", describe(o))
	case rec && !w.cfg.NoDNSLink:
		if o.seen.path != mapped {
			w.fail("dnslink-host/identity", "a DNSLink host maps to /ipns/{host without port}{path}", mapped, o.seen.path)
		}
		if o.seen.dnsHost != host {
			w.fail("dnslink-host/context", "the DNSLink hostname is recorded in the request context", host, fmt.Sprint(o.seen.dnsHost))
		}
	default:
		if o.seen.path != p {
			w.fail("dnslink-host/mapped-without-record", "without a record (or with NoDNSLink) the path is untouched", p, o.seen.path)
		}
	}
	if o.kind == "next" && o.seen.rawQuery != q {
		w.fail("query/dnslink-host", "query preserved", q, o.seen.rawQuery)
	}
	return rec && !w.cfg.NoDNSLink && name != host
}

// ---------------------------------------------------------------- pure label functions

func inlineCase(k *vlib.Case) {
	r := k.R
	var sawHyphenDots, sawRefused bool
	for i := 0; i < 16; i++ {
		target := 0
		if i%2 == 0 {
			target = r.Range(58, 68)
		}
		name := genFQDN(r, target)
		if r.Chance(1, 10) {
			name += "." // rooted form
		}
		if r.Chance(1, 10) {
			name = strings.ToUpper(name[:1]) + name[1:]
		}
		k.Logf("InlineDNSLink %q", name)
		want := modelInline(name)
		got, err := gateway.InlineDNSLink(name)
		feat := "short"
		if len(want) >= 62 && len(want) <= 65 {
			feat = fmt.Sprintf("len%d", len(want))
		}
		if err != nil {
			if len(want) <= 63 {
				k.Fail("inline/refused-though-fits/"+feat, "a name whose inlined form fits 63 characters is inlined", want, err.Error())
			} else {
				sawRefused = true
			}
			continue
		}
		if len(got) > 63 {
			k.Fail("inline/too-long/"+feat, "every produced label fits the 63-character limit", "error", fmt.Sprintf("%q (%d)", got, len(got)))
		}
		if strings.Contains(got, ".") {
			k.Fail("inline/not-one-label", "the inlined form is a single label", "no dots", got)
		}
		if got != want {
			k.Fail("inline/form/"+feat, "'-' becomes '--' and '.' becomes '-'", want, got)
		}
		if back := gateway.UninlineDNSLink(got); back != name {
			k.Fail("inline/roundtrip/"+feat, "UninlineDNSLink(InlineDNSLink(x)) == x", name, fmt.Sprintf("%q -> %q", got, back))
		} else if strings.Contains(name, "-") && strings.Count(name, ".") >= 2 {
			sawHyphenDots = true
		}
		k.C.Count("names_inlined", 1)
	}
	if sawHyphenDots && sawRefused {
		k.Nontrivial()
	}
}
