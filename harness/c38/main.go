// C38: tar.Extractor is run on generated hostile archives inside a per-case
// sandbox  S/{outside/..., w/side/..., w/tgt-evil, w/tgt}.  Everything in S that
// is not at or below the target S/w/tgt is snapshotted with lstat (type, mode,
// mtime, ctime, size, bytes, link target) before and after Extract; the two
// snapshots must be identical whether Extract fails or not.
package main

import (
	"archive/tar"
	"bytes"
	"crypto/sha256"
	"fmt"
	"io/fs"
	"os"
	"path/filepath"
	"sort"
	"strings"
	"syscall"
	"time"

	"github.com/ipfs/boxo/files"
	btar "github.com/ipfs/boxo/tar"

	"verif/vlib"
)

func main() { vlib.Run("C38", run) }

var base string // per-process scratch root (under the driver's work dir)

func run(c *vlib.Ctx) {
	c.Rule("per case a fresh sandbox S/{outside/*,w/side/*,w/tgt-evil,w/tgt} (victim files/dirs/symlinks with fixed modes and mtimes; target absent / empty dir / pre-populated with files, dirs and symlinks leading outside / a file / a symlink to an outside dir or file / dangling) and an archive of 1-10 entries: root + names from a pool (3 names in the smallpool strata so that one name reappears with another type; '..', '.', empty, absolute, NUL, unicode, wrong root in the hostile stratum), types dir/file/symlink, symlink targets absolute/relative to outside victims, inside, dangling, modes 0..07777, mtimes unset/sec/ns/extreme (year 1, 1601, 1677/1678 and 2262 edges, 2300, 9999, negative; PAX records), optional truncation. Stratum dir-replaced builds the multi-step shape 'directory X extracted and kept empty -> symlink X (to an outside directory, absolute or ../) replaces it -> file/dir/symlink entries addressed below X (new names and names of existing victim files)' at depth 1-3 with unrelated entries interleaved; smallpool reaches the same shape by chance and by steering. distinct = FNV of target variant + entry list; non-trivial = Extract changed the target subtree AND the case has a hostile feature (symlink resolving outside, '..'/absolute/foreign name, a name reused with another type, or an entry path through a pre-existing symlink)")
	base = c.TempDir("c38-")
	defer os.RemoveAll(base)
	q := c.N(1500, 40000)
	c.Cases("hostile", q*4/10, func(k *vlib.Case) { oneCase(k, genHostile) })
	c.Cases("smallpool", q*3/10, func(k *vlib.Case) { oneCase(k, genSmall) })
	c.Cases("dir-replaced", q*3/10, func(k *vlib.Case) { oneCase(k, genReplaced) })
	// hand-made minimal archives: the four shapes of the (since fixed)
	// deferred-chmod defect and three "entry below a replaced directory" shapes
	c.Cases("witness", 9, func(k *vlib.Case) { oneCase(k, genWitness) })
}

// ---------------------------------------------------------------------------
// archive model

type entry struct {
	name  string
	typ   byte // tar.TypeDir, TypeReg, TypeSymlink (or something else)
	mode  int64
	mtime time.Time
	link  string
	body  []byte
}

func (e entry) String() string {
	t := map[byte]string{tar.TypeDir: "dir", tar.TypeReg: "file", tar.TypeSymlink: "symlink", tar.TypeLink: "hardlink", tar.TypeFifo: "fifo", tar.TypeChar: "chardev"}[e.typ]
	s := fmt.Sprintf("%s %q mode=%04o", t, strings.ReplaceAll(e.name, nulMark, "\x00"), e.mode)
	if e.mtime.IsZero() {
		s += " mtime=unset"
	} else {
		s += fmt.Sprintf(" mtime=%d.%09d", e.mtime.Unix(), e.mtime.Nanosecond())
	}
	if e.typ == tar.TypeSymlink || e.typ == tar.TypeLink {
		s += fmt.Sprintf(" -> %q", e.link)
	}
	if e.typ == tar.TypeReg {
		s += fmt.Sprintf(" len=%d sha=%.4x", len(e.body), sha256.Sum256(e.body))
	}
	return s
}

// nulMark is written instead of NUL (archive/tar refuses NUL) and patched to
// 0x00 in the finished archive.
const nulMark = "\x01"

// buildTar returns the archive and the byte offset at which every entry's
// header(s) start.
func buildTar(es []entry) ([]byte, []int, error) {
	var buf bytes.Buffer
	var offs []int
	w := tar.NewWriter(&buf)
	for _, e := range es {
		w.Flush()
		offs = append(offs, buf.Len())
		h := &tar.Header{Name: e.name, Typeflag: e.typ, Mode: e.mode, ModTime: e.mtime, Linkname: e.link}
		if e.typ == tar.TypeReg {
			h.Size = int64(len(e.body))
		}
		if !e.mtime.IsZero() && e.mtime.Nanosecond() != 0 {
			h.Format = tar.FormatPAX
		}
		if err := w.WriteHeader(h); err != nil {
			return nil, nil, err
		}
		if e.typ == tar.TypeReg {
			if _, err := w.Write(e.body); err != nil {
				return nil, nil, err
			}
		}
	}
	if err := w.Close(); err != nil {
		return nil, nil, err
	}
	return patchNUL(buf.Bytes()), offs, nil
}

// countReader hides Seek (so that archive/tar really reads) and counts.
type countReader struct {
	r *bytes.Reader
	n int
}

func (c *countReader) Read(p []byte) (int, error) {
	n, err := c.r.Read(p)
	c.n += n
	return n, err
}

// patchNUL replaces nulMark by NUL in every header's name/linkname/prefix
// field and in PAX/GNU long-name payloads, and repairs the header checksums.
func patchNUL(b []byte) []byte {
	if !bytes.Contains(b, []byte(nulMark)) {
		return b
	}
	for off := 0; off+512 <= len(b); {
		h := b[off : off+512]
		if bytes.Equal(h, make([]byte, 512)) {
			break
		}
		var size int64
		fmt.Sscanf(strings.TrimRight(strings.TrimSpace(string(h[124:136])), "\x00"), "%o", &size)
		for _, f := range [][2]int{{0, 100}, {157, 257}, {345, 500}} {
			for i := f[0]; i < f[1]; i++ {
				if h[i] == nulMark[0] {
					h[i] = 0
				}
			}
		}
		sum := 0
		for i, c := range h {
			if i >= 148 && i < 156 {
				c = ' '
			}
			sum += int(c)
		}
		copy(h[148:156], fmt.Sprintf("%06o\x00 ", sum))
		blocks := int((size + 511) / 512)
		switch h[156] {
		case 'x', 'g', 'L', 'K':
			d := b[off+512 : min(len(b), off+512+int(size))]
			for i := range d {
				if d[i] == nulMark[0] {
					d[i] = 0
				}
			}
		}
		off += 512 * (1 + blocks)
	}
	return b
}

// ---------------------------------------------------------------------------
// sandbox

type sandbox struct {
	root   string // S
	target string // S/w/tgt
	k      *vlib.Case
}

var fixedTimes = []time.Time{
	time.Unix(981173106, 123456789),
	time.Unix(1234567890, 0),
	time.Unix(86400*365, 5),
}

func must(err error) {
	if err != nil {
		panic(err)
	}
}

func (s *sandbox) p(rel string) string { return filepath.Join(s.root, rel) }

func (s *sandbox) file(rel, content string, mode os.FileMode, tm time.Time) {
	must(os.WriteFile(s.p(rel), []byte(content), 0o600))
	must(os.Chmod(s.p(rel), mode))
	must(os.Chtimes(s.p(rel), tm, tm))
}

func (s *sandbox) dir(rel string, mode os.FileMode) {
	must(os.MkdirAll(s.p(rel), 0o700))
	must(os.Chmod(s.p(rel), mode))
}

// outside objects that symlinks may aim at (relative to S)
var victims = []string{"outside/victim.txt", "outside/secret", "outside/vdir", "outside/vdir/inner.txt", "outside/emptydir", "w/side/peer.txt", "w/side", "w/tgt-evil", "w/tgt-evil/x", "outside/vlink", "outside"}

func newSandbox(k *vlib.Case) *sandbox {
	root := filepath.Join(base, fmt.Sprintf("%s-%d", k.Stratum, k.Index))
	must(os.RemoveAll(root))
	must(os.MkdirAll(root, 0o755))
	root, err := filepath.EvalSymlinks(root)
	must(err)
	s := &sandbox{root: root, target: filepath.Join(root, "w", "tgt"), k: k}
	s.dir("outside", 0o755)
	s.dir("outside/vdir", 0o700)
	s.dir("outside/emptydir", 0o750)
	s.dir("w", 0o755)
	s.dir("w/side", 0o711)
	s.dir("w/tgt-evil", 0o700)
	s.file("outside/victim.txt", "victim-content", 0o600, fixedTimes[0])
	s.file("outside/secret", "secret", 0o400, fixedTimes[1])
	s.file("outside/vdir/inner.txt", "inner", 0o640, fixedTimes[2])
	s.file("w/side/peer.txt", "peer", 0o644, fixedTimes[0])
	s.file("w/tgt-evil/x", "evil-sibling", 0o604, fixedTimes[1])
	s.file("topfile", "top", 0o644, fixedTimes[2])
	must(os.Symlink("victim.txt", s.p("outside/vlink")))
	// directory mtimes last (creating children changes them)
	for i, d := range []string{"outside/vdir", "outside/emptydir", "w/side", "w/tgt-evil", "outside"} {
		tm := fixedTimes[i%len(fixedTimes)]
		must(os.Chtimes(s.p(d), tm, tm))
	}
	return s
}

func (s *sandbox) cleanup() {
	if os.RemoveAll(s.root) == nil {
		return
	}
	// not root and the archive left directories without rwx: open them up
	for pass := 0; pass < 4; pass++ {
		filepath.WalkDir(s.root, func(p string, d fs.DirEntry, err error) error {
			if d != nil && d.IsDir() {
				os.Chmod(p, 0o700)
			}
			return nil
		})
	}
	os.RemoveAll(s.root)
}

// symlink target text leading from the directory `fromDir` (absolute) to the
// victim `rel` (relative to S), either absolute or relative.
func (s *sandbox) linkTo(fromDir, rel string, abs bool) string {
	if abs {
		return s.p(rel)
	}
	r, err := filepath.Rel(fromDir, s.p(rel))
	must(err)
	return r
}

// prepopulate builds the target variant and returns its description and the
// pre-existing objects (name relative to the target -> tar type flag).
func (s *sandbox) prepopulate(r *vlib.Rand, variant int, pool []string) (string, map[string]byte) {
	pre := map[string]byte{}
	switch variant {
	case 0:
		return "absent", pre
	case 1:
		s.dir("w/tgt", 0o755)
		return "empty-dir", pre
	case 2:
		s.file("w/tgt", "old file", 0o644, fixedTimes[0])
		return "regular-file", pre
	case 3:
		v := vlib.Pick(r, []string{"outside/vdir", "outside/emptydir", "w/side", "outside"})
		abs := r.Bool()
		must(os.Symlink(s.linkTo(s.p("w"), v, abs), s.target))
		return fmt.Sprintf("symlink->dir $S/%s abs=%v", v, abs), pre
	case 4:
		v := vlib.Pick(r, []string{"outside/victim.txt", "outside/secret", "w/side/peer.txt"})
		abs := r.Bool()
		must(os.Symlink(s.linkTo(s.p("w"), v, abs), s.target))
		return fmt.Sprintf("symlink->file $S/%s abs=%v", v, abs), pre
	case 5:
		must(os.Symlink("../outside/nonexistent", s.target))
		return "dangling-symlink", pre
	}
	// pre-populated directory
	s.dir("w/tgt", 0o755)
	var desc []string
	n := r.Range(1, 5)
	for i := 0; i < n; i++ {
		name := vlib.Pick(r, pool)
		if name == "" || name == "." || name == ".." || strings.ContainsAny(name, "/"+nulMark) {
			name = "d"
		}
		rel := name
		if r.Chance(1, 3) {
			sub := vlib.Pick(r, pool)
			if sub != "" && sub != "." && sub != ".." && !strings.ContainsAny(sub, "/"+nulMark) {
				if fi, err := os.Lstat(filepath.Join(s.target, name)); err == nil && fi.IsDir() {
					rel = name + "/" + sub
				}
			}
		}
		full := filepath.Join(s.target, rel)
		if _, err := os.Lstat(full); err == nil {
			continue
		}
		switch r.Intn(4) {
		case 0:
			must(os.Mkdir(full, 0o755))
			pre[rel] = tar.TypeDir
			desc = append(desc, fmt.Sprintf("dir %q", rel))
		case 1:
			must(os.WriteFile(full, []byte("pre"), 0o644))
			pre[rel] = tar.TypeReg
			desc = append(desc, fmt.Sprintf("file %q", rel))
		default:
			v := vlib.Pick(r, victims)
			if r.Chance(1, 6) {
				v = "outside/nonexistent"
			}
			abs := r.Bool()
			t := s.linkTo(filepath.Dir(full), v, abs)
			must(os.Symlink(t, full))
			pre[rel] = tar.TypeSymlink
			desc = append(desc, fmt.Sprintf("symlink %q -> $S/%s abs=%v", rel, v, abs))
		}
	}
	return "populated-dir[" + strings.Join(desc, "; ") + "]", pre
}

// ---------------------------------------------------------------------------
// snapshot

type obj struct {
	typ   string
	mode  fs.FileMode
	mtime int64 // seconds
	mns   int   // nanoseconds
	ctime int64
	size  int64
	hash  string
	link  string
	err   string
}

func (o obj) String() string {
	if o.err != "" {
		return "ERR " + o.err
	}
	s := fmt.Sprintf("%s mode=%v mtime=%d.%09d", o.typ, o.mode, o.mtime, o.mns)
	switch o.typ {
	case "file":
		s += fmt.Sprintf(" size=%d sha=%s", o.size, o.hash)
	case "symlink":
		s += fmt.Sprintf(" -> %q", o.link)
	}
	return s
}

// snapshot records every object in root except `skip` and what is below it.
// dirMetaSkip is the directory whose own mtime/ctime are not compared (the
// parent of the target: creating/replacing the target legitimately changes it).
//
// The walk must see the same thing whatever the uid: when an object's mode
// (which Extract may have changed) would stop the owner from listing a
// directory or reading a file, the mode is RECORDED first and then opened up
// (the sandbox is thrown away after the case).
func snapshot(root, skip, dirMetaSkip string) map[string]obj {
	m := map[string]obj{}
	var visit func(p, rel string)
	visit = func(p, rel string) {
		if p == skip {
			return
		}
		fi, err := os.Lstat(p)
		if err != nil {
			m[rel] = obj{err: err.Error()}
			return
		}
		o := obj{mode: fi.Mode(), mtime: fi.ModTime().Unix(), mns: fi.ModTime().Nanosecond()}
		if st, ok := fi.Sys().(*syscall.Stat_t); ok {
			o.ctime = st.Ctim.Nano()
		}
		switch {
		case fi.Mode()&fs.ModeSymlink != 0:
			o.typ = "symlink"
			o.link, _ = os.Readlink(p)
		case fi.IsDir():
			o.typ = "dir"
			if p == dirMetaSkip {
				o.mtime, o.mns, o.ctime = 0, 0, 0
			}
			if fi.Mode().Perm()&0o700 != 0o700 {
				os.Chmod(p, fi.Mode().Perm()|0o700)
			}
			ents, err := os.ReadDir(p)
			if err != nil {
				o.err = err.Error()
			}
			m[rel] = o
			for _, e := range ents {
				visit(filepath.Join(p, e.Name()), filepath.Join(rel, e.Name()))
			}
			return
		case fi.Mode().IsRegular():
			o.typ = "file"
			o.size = fi.Size()
			if fi.Mode().Perm()&0o400 == 0 {
				os.Chmod(p, fi.Mode().Perm()|0o400)
			}
			b, err := os.ReadFile(p)
			if err != nil {
				o.hash = "unreadable:" + err.Error()
			} else {
				o.hash = fmt.Sprintf("%x", sha256.Sum256(b))[:16]
			}
		default:
			o.typ = "other"
		}
		m[rel] = o
	}
	visit(root, ".")
	return m
}

type change struct {
	path   string
	kind   string // created, removed, type, mode, mtime, content, linktarget, ctime-only, unreadable
	before obj
	after  obj
}

func diff(a, b map[string]obj) []change {
	var out []change
	for p, oa := range a {
		ob, ok := b[p]
		switch {
		case !ok:
			out = append(out, change{p, "removed", oa, obj{}})
		case oa == ob:
		case ob.err != "":
			out = append(out, change{p, "unreadable", oa, ob})
		case oa.typ != ob.typ:
			out = append(out, change{p, "type", oa, ob})
		case oa.size != ob.size || oa.hash != ob.hash:
			out = append(out, change{p, "content", oa, ob})
		case oa.link != ob.link:
			out = append(out, change{p, "linktarget", oa, ob})
		case oa.mode != ob.mode:
			out = append(out, change{p, "mode", oa, ob})
		case oa.mtime != ob.mtime || oa.mns != ob.mns:
			out = append(out, change{p, "mtime", oa, ob})
		default:
			out = append(out, change{p, "ctime-only", oa, ob})
		}
	}
	for p, ob := range b {
		if _, ok := a[p]; !ok {
			out = append(out, change{p, "created", obj{}, ob})
		}
	}
	sort.Slice(out, func(i, j int) bool { return out[i].path < out[j].path })
	return out
}

// ---------------------------------------------------------------------------
// generators

type gen func(k *vlib.Case, s *sandbox) (variant string, es []entry, trunc int, pre map[string]byte)

var modePool = []int64{0, 0o777, 0o644, 0o600, 0o755, 0o700, 0o4755, 0o1777, 0o7777, 0o2750, 0o111, 0o666}

func genMode(r *vlib.Rand) int64 {
	if r.Chance(1, 4) {
		return int64(r.Intn(0o10000))
	}
	return vlib.Pick(r, modePool)
}

// extremeTimes do not fit an int64 nanosecond count (before 1678 / after
// 2262) or sit at its edges; archive/tar carries them in PAX records.
var extremeTimes = []time.Time{
	time.Date(1601, 1, 1, 0, 0, 0, 0, time.UTC),
	time.Date(1, 1, 2, 3, 4, 5, 6, time.UTC),
	time.Date(1677, 9, 21, 0, 12, 43, 0, time.UTC),
	time.Date(1677, 9, 21, 0, 12, 44, 0, time.UTC),
	time.Date(1969, 12, 31, 23, 59, 59, 999999999, time.UTC),
	time.Date(2262, 4, 11, 23, 47, 16, 0, time.UTC),
	time.Date(2262, 4, 11, 23, 47, 17, 0, time.UTC),
	time.Date(2300, 6, 1, 12, 0, 0, 500, time.UTC),
	time.Date(9999, 12, 31, 23, 59, 59, 0, time.UTC),
	time.Unix(1<<33, 0), // beyond the 11-digit octal USTAR field
	time.Unix(-1, 0),
}

func genMtime(r *vlib.Rand) time.Time {
	switch r.Intn(6) {
	case 0:
		return time.Time{}
	case 1:
		return time.Unix(int64(r.Intn(2000000000)), int64(r.Intn(1000000000)))
	case 2:
		return time.Unix(int64(r.Intn(2000000000)), 0)
	case 3:
		return vlib.Pick(r, extremeTimes)
	default:
		return vlib.Pick(r, []time.Time{time.Unix(1500000000, 0), time.Unix(1, 1), time.Unix(1700000000, 999999999)})
	}
}

func genBody(r *vlib.Rand) []byte {
	switch r.Intn(8) {
	case 0:
		return nil
	case 1:
		return r.Bytes(r.Range(4000, 9000))
	default:
		return r.Bytes(r.Range(1, 200))
	}
}

// genLink picks a symlink target for an entry whose output lives in
// directory dirAbs.
func genLink(r *vlib.Rand, s *sandbox, dirAbs string, pool []string) string {
	switch x := r.Intn(20); {
	case x < 11: // an existing object outside the target
		return s.linkTo(dirAbs, vlib.Pick(r, victims), r.Chance(1, 3))
	case x < 13:
		return vlib.Pick(r, []string{"..", "../..", "../../..", "/", ".", "../../outside"})
	case x < 15:
		return "nonexistent/x"
	case x < 16:
		return s.root
	default: // inside the target
		t := vlib.Pick(r, pool)
		if r.Bool() {
			t = "../" + t
		}
		return t
	}
}

// steerType avoids (7 times of 8) a directory entry under a name that
// currently is a file or symlink: extractDir always fails there, which would
// end most archives early.
func steerType(r *vlib.Rand, t byte, last byte, known bool) byte {
	if t == tar.TypeDir && known && last != tar.TypeDir && !r.Chance(1, 8) {
		if r.Bool() {
			return tar.TypeSymlink
		}
		return tar.TypeReg
	}
	return t
}

// dirsOf lists archive names that are (probably) directories at this point of
// the extraction: the root, pre-existing directories of the target and names
// whose most recent entry is a directory. Used only to steer generation
// towards archives that get far; the oracle does not depend on it.
func lastTypes(root string, pre map[string]byte, es []entry) map[string]byte {
	last := map[string]byte{}
	for d, t := range pre {
		last[root+"/"+d] = t
	}
	for _, e := range es {
		last[e.name] = e.typ
	}
	return last
}

func dirsOf(root string, pre map[string]byte, es []entry) []string {
	last := lastTypes(root, pre, es)
	var out []string
	for n, t := range last {
		if t == tar.TypeDir && strings.Count(n, "/") < 3 {
			out = append(out, n)
		}
	}
	sort.Strings(out)
	return out
}

// outsideDirs are the victim directories (relative to S); childNames are file
// names that exist in one of them (so that an entry below a symlink to such a
// directory would OVERWRITE a victim) plus fresh names.
var outsideDirs = []string{"outside/vdir", "outside/emptydir", "w/side", "w/tgt-evil", "outside", "outside/vdir", "w/side"}
var childNames = []string{"inner.txt", "peer.txt", "x", "victim.txt", "secret", "new", "d", "e", "f", "vdir", "emptydir"}

// replacedDirs lists names that an earlier entry of the archive created as a
// directory and whose most recent entry is a symlink (the directory was
// replaced while still empty).
func replacedDirs(es []entry) []string {
	wasDir := map[string]bool{}
	last := map[string]byte{}
	for _, e := range es {
		if e.typ == tar.TypeDir {
			wasDir[e.name] = true
		}
		last[e.name] = e.typ
	}
	var out []string
	for n, t := range last {
		if t == tar.TypeSymlink && wasDir[n] {
			out = append(out, n)
		}
	}
	sort.Strings(out)
	return out
}

func genSmall(k *vlib.Case, s *sandbox) (string, []entry, int, map[string]byte) {
	pool := []string{"d", "e", "f"}
	r := k.R
	variant, pre := s.prepopulate(r, vlib.Pick(r, []int{0, 0, 0, 1, 1, 6, 6, 6, 6, 6, 2, 3}), pool)
	es := []entry{{name: "r", typ: tar.TypeDir, mode: genMode(r), mtime: genMtime(r)}}
	n := r.Range(2, 9)
	for i := 0; i < n; i++ {
		var name string
		rep := replacedDirs(es)
		switch x := r.Intn(20); {
		case x < 5 && len(es) > 1:
			name = es[1+r.Intn(len(es)-1)].name // reuse a name, probably with another type
		case x < 9 && len(rep) > 0: // below a directory that a symlink has replaced
			name = vlib.Pick(r, rep) + "/" + vlib.Pick(r, childNames)
		case x < 18:
			name = vlib.Pick(r, dirsOf("r", pre, es)) + "/" + vlib.Pick(r, pool)
		default: // parent possibly missing / not a directory
			name = "r/" + vlib.Pick(r, pool) + "/" + vlib.Pick(r, pool)
		}
		e := entry{name: name, mode: genMode(r), mtime: genMtime(r)}
		switch x := r.Intn(10); {
		case x < 4:
			e.typ = tar.TypeDir
		case x < 7:
			e.typ = tar.TypeSymlink
		default:
			e.typ = tar.TypeReg
		}
		lt, known := lastTypes("r", pre, es)[name]
		e.typ = steerType(r, e.typ, lt, known)
		switch e.typ {
		case tar.TypeSymlink:
			out := filepath.Join(s.target, strings.TrimPrefix(name, "r/"))
			if known && lt == tar.TypeDir && r.Chance(2, 3) { // replacing a directory: aim at an outside directory
				e.link = s.linkTo(filepath.Dir(out), vlib.Pick(r, outsideDirs), r.Chance(1, 3))
			} else {
				e.link = genLink(r, s, filepath.Dir(out), pool)
			}
		case tar.TypeReg:
			e.body = genBody(r)
		}
		es = append(es, e)
	}
	trunc := -1
	if r.Chance(1, 12) {
		trunc = r.Intn(1 << 20)
	}
	return variant, es, trunc, pre
}

// genReplaced builds the multi-step shape "directory X extracted (and kept
// empty) -> symlink X replaces it -> entries addressed below X", at depth 1-3,
// with absolute and ../ link targets to outside directories, children that are
// new files, overwrites of existing victim file names, directories and
// symlinks, and unrelated entries interleaved at every step.
func genReplaced(k *vlib.Case, s *sandbox) (string, []entry, int, map[string]byte) {
	pool := []string{"d", "e", "f"}
	r := k.R
	variant, pre := s.prepopulate(r, vlib.Pick(r, []int{0, 0, 0, 1, 1, 6, 6}), pool)
	es := []entry{{name: "r", typ: tar.TypeDir, mode: genMode(r), mtime: genMtime(r)}}
	noise := func(avoid string) {
		for r.Chance(1, 3) {
			name := vlib.Pick(r, dirsOf("r", pre, es)) + "/" + vlib.Pick(r, pool)
			if name == avoid || strings.HasPrefix(name, avoid+"/") || strings.HasPrefix(avoid, name+"/") {
				continue
			}
			e := entry{name: name, mode: genMode(r), mtime: genMtime(r), typ: tar.TypeReg, body: genBody(r)}
			if lt, known := lastTypes("r", pre, es)[name]; !known || lt == tar.TypeDir {
				if r.Bool() {
					e.typ, e.body = tar.TypeDir, nil
				}
			}
			es = append(es, e)
		}
	}
	depth := r.Range(1, 3)
	x := "r"
	for d := 1; d <= depth; d++ {
		x += "/" + vlib.Pick(r, pool)
		if d < depth { // parents of X
			es = append(es, entry{name: x, typ: tar.TypeDir, mode: vlib.Pick(r, []int64{0, 0o755, 0o700, 0o777}), mtime: genMtime(r)})
		}
	}
	noise(x)
	es = append(es, entry{name: x, typ: tar.TypeDir, mode: genMode(r), mtime: genMtime(r)})
	noise(x)
	out := filepath.Join(s.target, strings.TrimPrefix(x, "r/"))
	l := entry{name: x, typ: tar.TypeSymlink, mode: genMode(r), mtime: genMtime(r)}
	if r.Chance(5, 6) {
		l.link = s.linkTo(filepath.Dir(out), vlib.Pick(r, outsideDirs), r.Chance(2, 5))
	} else {
		l.link = genLink(r, s, filepath.Dir(out), pool)
	}
	es = append(es, l)
	noise(x)
	for i, n := 0, r.Range(1, 3); i < n; i++ {
		name := x + "/" + vlib.Pick(r, childNames)
		if r.Chance(1, 5) {
			name += "/" + vlib.Pick(r, childNames)
		}
		e := entry{name: name, mode: genMode(r), mtime: genMtime(r)}
		switch y := r.Intn(10); {
		case y < 5:
			e.typ, e.body = tar.TypeReg, genBody(r)
		case y < 8:
			e.typ = tar.TypeDir
		default:
			e.typ = tar.TypeSymlink
			e.link = genLink(r, s, out, pool)
		}
		es = append(es, e)
		noise(x)
	}
	return variant, es, -1, pre
}

// genWitness: minimal shapes of defects this check has seen (regression cases).
func genWitness(k *vlib.Case, s *sandbox) (string, []entry, int, map[string]byte) {
	variant, pre := s.prepopulate(k.R, 0, nil)
	tm := time.Unix(1500000000, 0)
	d := func(n string, m int64) entry { return entry{name: n, typ: tar.TypeDir, mode: m, mtime: tm} }
	l := func(n, fromDir, victim string, abs bool) entry {
		return entry{name: n, typ: tar.TypeSymlink, mode: 0o777, mtime: tm, link: s.linkTo(filepath.Join(s.target, fromDir), victim, abs)}
	}
	var es []entry
	f := func(n string) entry {
		return entry{name: n, typ: tar.TypeReg, mode: 0o644, mtime: tm, body: []byte("payload")}
	}
	switch k.Index % 9 {
	case 7: // symlink with a far-future mtime pointing at an outside file (../)
		e := l("r/d", "", "outside/victim.txt", false)
		e.mtime = time.Date(2300, 1, 1, 0, 0, 0, 0, time.UTC)
		es = []entry{d("r", 0o755), e}
	case 8: // year-1601 mtime, absolute link to an outside directory, single-symlink archive
		e := l("r", "", "outside/vdir", true)
		e.mtime = time.Date(1601, 1, 1, 0, 0, 0, 0, time.UTC)
		es = []entry{e}
	case 4: // new file below a directory that a symlink (../) replaced
		es = []entry{d("r", 0o755), d("r/d", 0o755), l("r/d", "", "outside/emptydir", false), f("r/d/new")}
	case 5: // overwrite of an existing outside file, absolute link, depth 2
		es = []entry{d("r", 0o755), d("r/e", 0o755), d("r/e/d", 0o755), l("r/e/d", "e", "outside/vdir", true), f("r/e/d/inner.txt")}
	case 6: // new directory below the replaced directory
		es = []entry{d("r", 0o755), d("r/d", 0o755), l("r/d", "", "w/side", false), d("r/d/sub", 0o700)}
	case 0: // applied by doUpdates at the end
		es = []entry{d("r", 0o755), d("r/d", 0o777), l("r/d", "", "outside/victim.txt", false)}
	case 1: // absolute link, directory victim
		es = []entry{d("r", 0o755), d("r/d", 0o777), l("r/d", "", "outside/vdir", true)}
	case 2: // applied early by deferUpdate when a shorter directory path follows
		es = []entry{d("r", 0o755), d("r/d", 0o755), d("r/d/e", 0o777), l("r/d/e", "d", "outside/victim.txt", false), d("r/f", 0o700)}
	default: // directory name cut at a NUL by the tar reader
		es = []entry{d("r", 0o755), d("r/d"+nulMark+"x", 0o777), l("r/d", "", "outside/secret", false)}
	}
	return variant, es, -1, pre
}

var hostileComps = []string{"..", ".", "", "...", "a" + nulMark + "b", "é", " ", "a b", "..\\x", "-rf", strings.Repeat("L", 120), "tgt", "w", "lnk"}

func genHostile(k *vlib.Case, s *sandbox) (string, []entry, int, map[string]byte) {
	r := k.R
	plain := []string{"a", "b", "d", "lnk"}
	single := r.Chance(1, 6)
	tv := r.Intn(7)
	if !single {
		tv = vlib.Pick(r, []int{0, 0, 0, 1, 1, 6, 6, 6, 6, 6, 6, 2, 3, 4, 5})
	}
	variant, pre := s.prepopulate(r, tv, plain)
	root := "r"
	if r.Chance(1, 10) {
		root = vlib.Pick(r, []string{"..", ".", "", "r/x", "/abs", "a b", "tgt", "é", "r" + nulMark, "../w", "r/"})
	}
	first := entry{name: root, typ: tar.TypeDir, mode: genMode(r), mtime: genMtime(r)}
	if single { // single file / symlink archive (cp-like semantics)
		if r.Bool() {
			first.typ = tar.TypeReg
			first.body = genBody(r)
		} else {
			first.typ = tar.TypeSymlink
			first.link = genLink(r, s, filepath.Dir(s.target), plain)
		}
	}
	es := []entry{first}
	n := r.Range(1, 9)
	if single {
		n = r.Intn(2)
	}
	for i := 0; i < n; i++ {
		var name string
		parent := root
		if ds := dirsOf(root, pre, es); len(ds) > 0 {
			parent = vlib.Pick(r, ds)
		}
		switch x := r.Intn(40); {
		case x < 24: // plain leaf in a directory that should exist
			name = parent + "/" + vlib.Pick(r, plain)
		case x < 28 && len(es) > 1: // the same name again
			name = es[1+r.Intn(len(es)-1)].name
		case x < 31: // below a pre-existing or earlier symlink / file / missing directory
			name = root + "/" + vlib.Pick(r, plain) + "/" + vlib.Pick(r, plain)
			if r.Bool() {
				name += "/" + vlib.Pick(r, plain)
			}
		case x < 34: // hostile component somewhere
			cs := []string{vlib.Pick(r, plain), vlib.Pick(r, plain)}
			cs[r.Intn(2)] = vlib.Pick(r, hostileComps)
			name = parent + "/" + strings.Join(cs[:r.Range(1, 2)], "/")
		case x < 36:
			name = root + "/../../outside/" + vlib.Pick(r, []string{"victim.txt", "new", "vdir/new"})
		case x < 37:
			name = parent + "/../../../outside/" + vlib.Pick(r, []string{"victim.txt", "new"})
		case x < 38:
			name = s.p(vlib.Pick(r, []string{"outside/victim.txt", "outside/new", "w/side/peer.txt"}))
		default:
			name = vlib.Pick(r, []string{"other/x", "../outside/victim.txt", "rr/x", root + "x/y", root, root + "/", "/" + root + "/a", root + "//a", root + "/./a", root + "/a/"})
		}
		e := entry{name: name, mode: genMode(r), mtime: genMtime(r)}
		switch x := r.Intn(40); {
		case x < 15:
			e.typ = tar.TypeDir
		case x < 27:
			e.typ = tar.TypeSymlink
		case x < 39:
			e.typ = tar.TypeReg
		default:
			e.typ = vlib.Pick(r, []byte{tar.TypeLink, tar.TypeFifo, tar.TypeChar})
		}
		lt, known := lastTypes(root, pre, es)[name]
		e.typ = steerType(r, e.typ, lt, known)
		switch e.typ {
		case tar.TypeSymlink, tar.TypeLink:
			rel := strings.TrimPrefix(name, root+"/")
			out := filepath.Join(s.target, rel)
			e.link = genLink(r, s, filepath.Dir(out), plain)
		case tar.TypeReg:
			e.body = genBody(r)
		}
		es = append(es, e)
	}
	trunc := -1
	if r.Chance(1, 10) {
		trunc = r.Intn(1 << 20)
	}
	return variant, es, trunc, pre
}

// ---------------------------------------------------------------------------
// one case

func oneCase(k *vlib.Case, g gen) {
	s := newSandbox(k)
	defer s.cleanup()
	variant, es, trunc, pre := g(k, s)
	k.Logf("target $S/w/tgt: %s", variant)
	strip := func(t string) string { return strings.ReplaceAll(t, s.root, "$S") }
	for i, e := range es {
		k.Logf("E%d %s", i, strip(e.String()))
	}
	data, offs, err := buildTar(es)
	if err != nil {
		// archive/tar refused to encode this header: not an archive
		k.Logf("archive/tar writer refused: %v", strip(err.Error()))
		k.C.Count("writer_refused", 1)
		return
	}
	if trunc >= 0 {
		trunc %= len(data) + 1
		k.Logf("truncate archive to %d of %d bytes", trunc, len(data))
		data = data[:trunc]
	}
	pathForm := k.R.Intn(6)
	tpath := s.target
	switch pathForm {
	case 0:
		tpath = s.target + "/"
	case 1:
		tpath = filepath.Join(s.root, "w") + "/./tgt"
	case 2:
		tpath = filepath.Join(s.root, "w", "side") + "/../tgt"
	}
	k.Logf("Extract Path=%q", strip(tpath))

	before := snapshot(s.root, s.target, filepath.Join(s.root, "w"))
	tgtBefore := snapshot(s.target, "", "")

	var xerr error
	cr := &countReader{r: bytes.NewReader(data)}
	withProgress := k.R.Chance(1, 4)
	vlib.Guard(k, "extract", 120*time.Second, func() {
		x := &btar.Extractor{Path: tpath}
		if withProgress {
			x.Progress = func(n int64) int64 { return n }
		}
		xerr = x.Extract(cr)
	})
	reached := 0
	for _, o := range offs {
		if cr.n > o {
			reached++
		}
	}
	k.C.Count("entries_total", int64(len(es)))
	k.C.Count("entries_reached_by_extractor", int64(reached))
	if xerr != nil {
		k.C.Count("extract_errors", 1)
	} else {
		k.C.Count("extract_ok", 1)
	}

	after := snapshot(s.root, s.target, filepath.Join(s.root, "w"))
	tgtAfter := snapshot(s.target, "", "")
	k.C.Count("outside_objects_compared", int64(len(before)))

	changes := diff(before, after)
	if len(changes) > 0 {
		class := classify(s, es, changes)
		var exp, obs []string
		for _, c := range changes {
			exp = append(exp, fmt.Sprintf("$S/%s: %v", c.path, c.before))
			obs = append(obs, fmt.Sprintf("$S/%s: %s: %v", c.path, c.kind, c.after))
		}
		k.Fail(class, "outside-snapshot-unchanged", strings.Join(exp, " | "), fmt.Sprintf("Extract err=%v; ", xerr != nil)+strings.Join(obs, " | "))
	}

	// non-triviality: Extract did something to the target and the case is hostile
	feats := features(s, es, pre)
	if len(diff(tgtBefore, tgtAfter)) > 0 && len(feats) > 0 {
		k.Nontrivial()
		for _, f := range feats {
			k.C.Count("nontrivial_feature_"+f, 1)
		}
	}
}

// outPath is where an entry name lands (lexically) for root name es[0].name.
func outPath(s *sandbox, root, name string) (string, bool) {
	if !strings.HasPrefix(name, root+"/") {
		return "", false
	}
	return filepath.Join(s.target, name[len(root)+1:]), true
}

func inside(target, p string) bool {
	return p == target || strings.HasPrefix(p, target+string(filepath.Separator))
}

// features lists the hostile features the case actually contains.
func features(s *sandbox, es []entry, pre map[string]byte) []string {
	set := map[string]bool{}
	root := es[0].name
	types := map[string]map[byte]bool{}
	for i, e := range es {
		for _, c := range strings.Split(e.name, "/") {
			if c == ".." {
				set["dotdot-name"] = true
			}
		}
		if strings.HasPrefix(e.name, "/") {
			set["absolute-name"] = true
		}
		if i > 0 && !strings.HasPrefix(e.name, root+"/") {
			set["foreign-root"] = true
		}
		if types[e.name] == nil {
			types[e.name] = map[byte]bool{}
		}
		types[e.name][e.typ] = true
		if len(types[e.name]) > 1 {
			set["name-retyped"] = true
		}
		if e.typ == tar.TypeSymlink {
			dir := filepath.Dir(s.target)
			if i > 0 {
				if op, ok := outPath(s, root, e.name); ok {
					dir = filepath.Dir(op)
				}
			}
			t := e.link
			if !filepath.IsAbs(t) {
				t = filepath.Join(dir, t)
			}
			if !inside(s.target, filepath.Clean(t)) {
				set["symlink-outward"] = true
			}
		}
		if i > 0 {
			if op, ok := outPath(s, root, e.name); ok {
				for l, t := range pre {
					if t != tar.TypeSymlink {
						continue
					}
					lp := filepath.Join(s.target, l)
					if op == lp || strings.HasPrefix(op, lp+"/") {
						set["path-through-preexisting-symlink"] = true
					}
				}
			}
		}
	}
	var out []string
	for f := range set {
		out = append(out, f)
	}
	sort.Strings(out)
	return out
}

// effName is the name archive/tar hands to the extractor: a USTAR name field
// ends at the first NUL (names carried in PAX records with a NUL are rejected
// by the reader, so nothing is extracted under them).
func effName(n string) string {
	if i := strings.Index(n, nulMark); i >= 0 {
		return n[:i]
	}
	return n
}

// classify names the violation. The known deferred-chmod defect is recognised
// by its exact signature: every change is a pure mode (or, when the mode is
// the one the object already had, ctime) change of an object that
// a symlink entry (emitted under a name that an EARLIER entry of the archive
// created as a directory with a non-zero mode) resolves to, and the new mode is
// that directory entry's mode. Anything else gets a class built from the kinds
// of change observed.
func classify(s *sandbox, es []entry, changes []change) string {
	root := es[0].name
	explained := 0
	for _, c := range changes {
		if c.kind != "mode" && c.kind != "ctime-only" { // ctime-only: chmod to the mode the victim already had
			continue
		}
		abs := filepath.Join(s.root, c.path)
		ok := false
		for i, d := range es {
			if i == 0 || d.typ != tar.TypeDir {
				continue
			}
			want := files.UnixPermsToModePerms(uint32(d.mode))
			if want == 0 || want != c.after.mode&^fs.ModeType {
				continue
			}
			for _, l := range es[i+1:] {
				if l.typ != tar.TypeSymlink || effName(l.name) != effName(d.name) {
					continue
				}
				op, isUnder := outPath(s, root, effName(l.name))
				if !isUnder {
					continue
				}
				t := l.link
				if !filepath.IsAbs(t) {
					t = filepath.Join(filepath.Dir(op), t)
				}
				if r, err := filepath.EvalSymlinks(t); err == nil && r == abs {
					ok = true
				}
			}
		}
		if ok {
			explained++
		}
	}
	if explained == len(changes) {
		return "dir-then-symlink/deferred-chmod"
	}
	kinds := map[string]bool{}
	for _, c := range changes {
		kinds[c.kind] = true
	}
	var ks []string
	for kd := range kinds {
		ks = append(ks, kd)
	}
	sort.Strings(ks)
	return "outside-" + strings.Join(ks, "+")
}
