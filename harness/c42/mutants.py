#!/usr/bin/env python3
# Regenerates the sensitivity mutants used to validate this check as build overlays
# under /verif/.work/c42-mut/<name>/ov.json (nothing in /repo is touched):
#   python3 /verif/harness/c42/mutants.py
#   VERIF_EXTRA_OVERLAY=/verif/.work/c42-mut/<name>/ov.json ./check C42 quick     # must print VIOLATION
import os, json
OUT = '/verif/.work/c42-mut/'
def mut(name, rel, old, new, count=1):
    src = '/repo/' + rel
    s = open(src).read()
    assert s.count(old) >= 1, (name, 'pattern not found')
    s2 = s.replace(old, new, count)
    assert s2 != s
    d = OUT + name
    os.makedirs(d, exist_ok=True)
    dst = d + '/' + os.path.basename(rel)
    open(dst, 'w').write(s2)
    json.dump({"Replace": {src: dst}}, open(d + '/ov.json', 'w'))
F='routing/http/filters/filters.go'; S='routing/http/server/server.go'; C='routing/http/client/client.go'
mut('m1',F,'''		if containsAny(protocols, negativeFilters) {
			continue
		}
''','')
mut('m2',S,'''	filteredIter := filters.ApplyFiltersToIter(provIter, filterAddrs, filterProtocols)
	var limitedIter iter.ResultIter[types.Record] = iter.Limit(filteredIter, recordsLimit)
	providers, err := iter.ReadAllResults(limitedIter)''','''	var cappedIter iter.ResultIter[types.Record] = iter.Limit(provIter, recordsLimit)
	var limitedIter iter.ResultIter[types.Record] = filters.ApplyFiltersToIter(cappedIter, filterAddrs, filterProtocols)
	providers, err := iter.ReadAllResults(limitedIter)''')
mut('m2b',S,'''	provIter, err := s.svc.FindPeers(ctx, pid, 0)''','''	provIter, err := s.svc.FindPeers(ctx, pid, recordsLimit)''')
mut('m3',F,'''(len(provider.Addrs) == 0 && slices.Contains(filterAddrs, "unknown"))''','''slices.Contains(filterAddrs, "unknown")''')
mut('m4',F,'''			if strings.EqualFold(peerProtocol, filterProtocol) {''','''			if peerProtocol == filterProtocol {''')
mut('m5',S,'''		handlerFunc = s.findPeersNDJSON
		recordsLimit = s.streamingRecordsLimit''','''		handlerFunc = s.findPeersNDJSON
		recordsLimit = s.recordsLimit''')
mut('m6',S,'''	err = ipns.ValidateWithName(record, name)
	if err != nil {''','''	if pk, perr := record.PubKey(); perr == nil {
		err = ipns.Validate(record, pk)
	} else {
		err = ipns.ValidateWithName(record, name)
	}
	if err != nil {''')
mut('m7',C,'''	if !c.disableLocalFiltering {
		it = filters.ApplyFiltersToPeerRecordIter(it, c.addrFilter, c.protocolFilter)''','''	if !c.disableLocalFiltering && mediaType == mediaTypeNDJSON {
		it = filters.ApplyFiltersToPeerRecordIter(it, c.addrFilter, c.protocolFilter)''')
mut('m8',F,'''	provider.Addrs = filteredAddrs
	return provider''','''	return provider''')
mut('m9',S,'''	providers, err := iter.ReadAllResults(limitedIter)
	// Close eagerly so the upstream router request is canceled before we
	// spend time marshaling and writing the response.
	limitedIter.Close()''','''	providers, err := iter.ReadAllResults(limitedIter)''')
mut('m10',S,'''	rawRecord, err := io.ReadAll(io.LimitReader(r.Body, int64(ipns.MaxRecordSize)))
	if err != nil {
		writeErr(w, "PutIPNS"''','''	rawRecord, err := io.ReadAll(io.LimitReader(r.Body, 1<<10))
	if err != nil {
		writeErr(w, "PutIPNS"''')
mut('m11',F,'''(len(provider.Addrs) == 0 && slices.Contains(filterAddrs, "unknown"))''','''(provider.Addrs == nil && slices.Contains(filterAddrs, "unknown"))''')
mut('m12',F,'''	return strings.Split(strings.ToLower(param), ",")''','''	return strings.Split(param, ",")''')
