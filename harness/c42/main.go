// C42: delegated routing over HTTP. The real server.Handler runs behind a
// loopback httptest server in front of a scripted router; the real client and a
// plain net/http probe query it. Every response is compared with a list-level
// reference of the IPIP-484 filter rules (written from the spec text, see
// refFilter) followed by take(limit of the negotiated encoding).
//
// Observation points (so a divergence is attributed):
//
//	server-raw     net/http GET, body decoded by the harness (server alone)
//	client-nolocal boxo client, WithDisabledLocalFiltering(true)  (server + client decoding)
//	client-local   boxo client with local filtering, real server  (both filter passes)
//	client-dumb    boxo client with local filtering against a harness-made server
//	               that ignores the filters (client-side filtering alone)
//
// plus the scripted router's own view: the limit argument it was called with,
// how many records the server pulled from its iterator and whether it was
// closed. The IPNS stratum drives PUT/GET histories against a map model.
package main

import (
	"bufio"
	"bytes"
	"context"
	"encoding/json"
	"errors"
	"fmt"
	"io"
	"net/http"
	"net/http/httptest"
	"net/url"
	"sort"
	"strings"
	"sync"
	"sync/atomic"
	"time"

	"github.com/ipfs/boxo/ipns"
	ipns_pb "github.com/ipfs/boxo/ipns/pb"
	"github.com/ipfs/boxo/path"
	"github.com/ipfs/boxo/routing/http/client"
	"github.com/ipfs/boxo/routing/http/server"
	"github.com/ipfs/boxo/routing/http/types"
	"github.com/ipfs/boxo/routing/http/types/iter"
	"github.com/ipfs/go-cid"
	"github.com/libp2p/go-libp2p/core/crypto"
	"github.com/libp2p/go-libp2p/core/peer"
	"github.com/libp2p/go-libp2p/core/routing"
	"github.com/multiformats/go-multiaddr"
	mh "github.com/multiformats/go-multihash"
	"github.com/prometheus/client_golang/prometheus"
	"google.golang.org/protobuf/proto"

	"verif/vlib"
)

// ---------------------------------------------------------------- pools

type detReader struct{ r *vlib.Rand }

func (d detReader) Read(p []byte) (int, error) { copy(p, d.r.Bytes(len(p))); return len(p), nil }

var (
	peerPool []peer.ID
	cidPool  []cid.Cid
	keyPool  []ipnsKey
)

type ipnsKey struct {
	kind string
	sk   crypto.PrivKey
	name ipns.Name
}

func initPools() {
	rd := detReader{vlib.NewRand(0xC42)}
	for i := 0; i < 40; i++ {
		_, pk, err := crypto.GenerateEd25519Key(rd)
		must(err)
		id, err := peer.IDFromPublicKey(pk)
		must(err)
		peerPool = append(peerPool, id)
	}
	for i := 0; i < 6; i++ {
		h, err := mh.Sum([]byte{byte(i), 'c', '4', '2'}, mh.SHA2_256, -1)
		must(err)
		if i%2 == 0 {
			cidPool = append(cidPool, cid.NewCidV1(cid.Raw, h))
		} else {
			cidPool = append(cidPool, cid.NewCidV0(h))
		}
	}
	addKey := func(kind string, sk crypto.PrivKey, err error) {
		must(err)
		id, err := peer.IDFromPrivateKey(sk)
		must(err)
		keyPool = append(keyPool, ipnsKey{kind, sk, ipns.NameFromPeer(id)})
	}
	for i := 0; i < 3; i++ {
		sk, _, err := crypto.GenerateEd25519Key(rd)
		addKey("ed25519", sk, err)
	}
	for i := 0; i < 2; i++ {
		sk, _, err := crypto.GenerateKeyPair(crypto.RSA, 2048)
		addKey("rsa", sk, err)
	}
	{
		sk, _, err := crypto.GenerateKeyPair(crypto.Secp256k1, 0)
		addKey("secp256k1", sk, err)
	}
	{
		sk, _, err := crypto.GenerateKeyPair(crypto.ECDSA, 0)
		addKey("ecdsa", sk, err)
	}
	// sanity of the address templates (a harness bug, not an observation)
	r := vlib.NewRand(7)
	for t := range addrTemplates {
		a := mkAddr(r, t, true)
		m, err := multiaddr.NewMultiaddr(a.s)
		if err != nil || m.String() != a.s {
			panic(fmt.Sprintf("address template %d is not canonical: %q (%v)", t, a.s, err))
		}
	}
}

func must(err error) {
	if err != nil {
		panic(err)
	}
}

// ---------------------------------------------------------------- record specs

type addrSpec struct {
	s     string
	names []string // protocol names contained in the address, by construction
}

type recSpec struct {
	tag      string
	idx      int // peerPool index
	bitswap  bool
	addrs    []addrSpec
	addrsNil bool // Addrs field absent (nil) rather than empty
	protos   []string
	protoNil bool
	extra    map[string]string // raw JSON values

	// unknown-schema record (stratum unkschema only): served verbatim
	unknown bool
	schema  string
	raw     string // the JSON object the delegate serves (contains Schema and Tag)
}

// address templates: "%A" ip4, "%6" ip6, "%P" port, "%H" host, "%R" relay peer id
var addrTemplates = []struct {
	f     string
	names []string
}{
	{"/ip4/%A/tcp/%P", []string{"ip4", "tcp"}},
	{"/ip4/%A/tcp/%P/ws", []string{"ip4", "tcp", "ws"}},
	{"/dns4/%H/tcp/443/wss", []string{"dns4", "tcp", "wss"}},
	{"/ip4/%A/udp/%P/quic-v1", []string{"ip4", "udp", "quic-v1"}},
	{"/ip4/%A/udp/%P/quic-v1/webtransport", []string{"ip4", "udp", "quic-v1", "webtransport"}},
	{"/ip6/%6/tcp/%P", []string{"ip6", "tcp"}},
	{"/ip6/%6/udp/%P/quic-v1", []string{"ip6", "udp", "quic-v1"}},
	{"/ip4/%A/udp/%P/webrtc-direct", []string{"ip4", "udp", "webrtc-direct"}},
	{"/dns/%H/tcp/443/https", []string{"dns", "tcp", "https"}},
	{"/dns4/%H/tcp/443/tls/http", []string{"dns4", "tcp", "tls", "http"}},
	{"/ip4/%A/tcp/%P/p2p/%R/p2p-circuit", []string{"ip4", "tcp", "p2p", "p2p-circuit"}},
	{"/ip4/%A/udp/%P/quic-v1/p2p/%R/p2p-circuit", []string{"ip4", "udp", "quic-v1", "p2p", "p2p-circuit"}},
	{"/dnsaddr/%H", []string{"dnsaddr"}},
	{"/ip4/%A/tcp/%P/tls/sni/%H/ws", []string{"ip4", "tcp", "tls", "sni", "ws"}},
}

var addrVocab = []string{"ip4", "ip6", "tcp", "udp", "ws", "wss", "quic-v1", "webtransport", "webrtc-direct",
	"dns", "dns4", "dnsaddr", "https", "http", "tls", "sni", "p2p", "p2p-circuit", "quic", "fakeproto"}

var protoVocab = []string{"transport-bitswap", "transport-ipfs-gateway-http", "transport-graphsync-filecoinv1", "transport-x"}

func mkAddr(r *vlib.Rand, t int, p2pSuffix bool) addrSpec {
	tp := addrTemplates[t]
	s := tp.f
	s = strings.ReplaceAll(s, "%A", fmt.Sprintf("%d.%d.%d.%d", r.Range(1, 223), r.Intn(256), r.Intn(256), r.Range(1, 254)))
	s = strings.ReplaceAll(s, "%6", fmt.Sprintf("2001:db8::%x", r.Range(1, 0xffff)))
	s = strings.ReplaceAll(s, "%P", fmt.Sprint(r.Range(1, 65535)))
	s = strings.ReplaceAll(s, "%H", fmt.Sprintf("node%d.example.com", r.Intn(50)))
	s = strings.ReplaceAll(s, "%R", peerPool[30+r.Intn(10)].String())
	names := append([]string(nil), tp.names...)
	if p2pSuffix && !strings.Contains(s, "p2p-circuit") {
		s += "/p2p/" + peerPool[r.Intn(30)].String()
		names = append(names, "p2p")
	}
	return addrSpec{s, names}
}

func genRecords(r *vlib.Rand) []recSpec {
	n := r.Range(0, 30)
	if r.Chance(1, 8) {
		n = r.Range(0, 3)
	}
	// a case uses a small subset of templates so that filters bite often
	var tset []int
	for i, m := 0, r.Range(2, 6); i < m; i++ {
		tset = append(tset, r.Intn(len(addrTemplates)))
	}
	recs := make([]recSpec, 0, n)
	for i := 0; i < n; i++ {
		rs := recSpec{tag: fmt.Sprintf("r%d", i), idx: r.Intn(30)}
		if r.Chance(1, 6) && i > 0 {
			rs.idx = recs[r.Intn(i)].idx // same peer again, other addresses
		}
		rs.bitswap = r.Chance(1, 8)
		switch na := r.Intn(10); {
		case na < 2: // no addresses
			rs.addrsNil = r.Bool()
		default:
			for j, m := 0, r.Range(1, 6); j < m; j++ {
				t := vlib.Pick(r, tset)
				if r.Chance(1, 6) {
					t = r.Intn(len(addrTemplates))
				}
				rs.addrs = append(rs.addrs, mkAddr(r, t, r.Chance(1, 4)))
			}
		}
		if rs.bitswap {
			rs.protos = []string{vlib.Pick(r, []string{"transport-bitswap", "transport-bitswap", "Transport-Bitswap", "transport-x"})}
		} else {
			switch np := r.Intn(10); {
			case np < 3:
				rs.protoNil = r.Bool()
			default:
				for j, m := 0, r.Range(1, 3); j < m; j++ {
					p := vlib.Pick(r, protoVocab)
					if r.Chance(1, 5) {
						p = upperSome(r, p) // record side of "filtering is case-insensitive"
					}
					rs.protos = append(rs.protos, p)
				}
			}
			if r.Chance(1, 4) {
				rs.extra = map[string]string{"Source": fmt.Sprintf("%q", vlib.Pick(r, []string{"dht", "ipni", "cache"}))}
				if r.Bool() {
					rs.extra["Weight"] = fmt.Sprint(r.Intn(100))
				}
			}
		}
		recs = append(recs, rs)
	}
	return recs
}

func (rs recSpec) String() string {
	var as []string
	for _, a := range rs.addrs {
		as = append(as, a.s)
	}
	kind := "peer"
	if rs.bitswap {
		kind = "bitswap"
	}
	return fmt.Sprintf("%s %s p%d addrs=%v(nil=%v) protos=%q(nil=%v) extra=%v", rs.tag, kind, rs.idx, as, rs.addrsNil, rs.protos, rs.protoNil, rs.extra)
}

// ---------------------------------------------------------------- observed / expected records

type obsRec struct {
	ID     string
	Addrs  []string
	Protos []string
	Extra  map[string]string

	Unknown bool   // record of a schema the library does not know
	Schema  string // its schema
	Raw     string // its raw JSON, canonicalised (keys sorted), or a description of why it is not JSON
}

// canonJSON re-encodes a JSON object with sorted keys.
func canonJSON(b []byte) (string, bool) {
	var m map[string]any
	if err := json.Unmarshal(b, &m); err != nil {
		return fmt.Sprintf("<not a JSON object (%v): %q>", err, b), false
	}
	out, err := json.Marshal(m)
	if err != nil {
		return "<unmarshalable>", false
	}
	return string(out), true
}

func (o obsRec) String() string {
	if o.Unknown {
		return fmt.Sprintf("{unknown(%s) %s}", o.Schema, o.Raw)
	}
	var ek []string
	for k, v := range o.Extra {
		ek = append(ek, k+"="+v)
	}
	sort.Strings(ek)
	return fmt.Sprintf("{%s addrs=%v protos=%q extra=%v}", shortID(o.ID), o.Addrs, o.Protos, ek)
}

func shortID(s string) string {
	for i, p := range peerPool {
		if p.String() == s {
			return fmt.Sprintf("p%d", i)
		}
	}
	return s
}

func listString(l []obsRec) string {
	ss := make([]string, len(l))
	for i, o := range l {
		ss[i] = o.String()
	}
	return "[" + strings.Join(ss, ", ") + "]"
}

// ---------------------------------------------------------------- IPIP-484 reference
//
// From the spec text (specs.ipfs.tech/routing/http-routing-v1, IPIP-484):
//
// filter-protocols: comma-separated transfer protocol names. A record is kept
// iff its Protocols array contains at least one of them (logical OR), where
// "unknown" matches records whose Protocols are missing/empty. A kept record is
// returned unchanged (all its protocols). Case-insensitive. Absent parameter =
// no protocol filtering.
//
// filter-addrs: comma-separated multiaddr protocol names, "!name" negates. An
// address is kept iff it contains none of the negated protocols and, when there
// is at least one positive name, contains at least one of them. "unknown" keeps
// records that have no addresses. A record none of whose addresses survive is
// omitted; otherwise its Addrs list is replaced by the surviving addresses (in
// order). Case-insensitive. Absent parameter = addresses unchanged.
//
// The text does not say whether "unknown" itself counts as a positive name for
// records that do have addresses (no address contains a protocol called
// "unknown"): unknownPositive selects the reading; the monitor accepts either
// when they differ (see expectFor).
func refFilter(recs []recSpec, addrF, protoF []string, unknownPositive bool) (out []obsRec, srcIdx []int, trimmed bool) {
	lower := func(in []string) []string {
		o := make([]string, len(in))
		for i, s := range in {
			o[i] = strings.ToLower(s)
		}
		return o
	}
	addrF, protoF = lower(addrF), lower(protoF)
	var pos, neg []string
	hasUnknown := false
	for _, f := range addrF {
		switch {
		case f == "unknown":
			hasUnknown = true
		case strings.HasPrefix(f, "!"):
			neg = append(neg, f[1:])
		default:
			pos = append(pos, f)
		}
	}
	needPositive := len(pos) > 0 || (hasUnknown && unknownPositive)
	contains := func(names []string, n string) bool {
		for _, x := range names {
			if x == n {
				return true
			}
		}
		return false
	}
	for i, rec := range recs {
		if len(protoF) > 0 {
			pass := false
			for _, f := range protoF {
				if f == "unknown" && len(rec.protos) == 0 {
					pass = true
				}
				for _, p := range rec.protos {
					if strings.ToLower(p) == f {
						pass = true
					}
				}
			}
			if !pass {
				continue
			}
		}
		var addrs []string
		if len(addrF) == 0 {
			for _, a := range rec.addrs {
				addrs = append(addrs, a.s)
			}
		} else if len(rec.addrs) == 0 {
			if !hasUnknown {
				continue
			}
		} else {
			for _, a := range rec.addrs {
				bad := false
				for _, n := range neg {
					if contains(a.names, n) {
						bad = true
					}
				}
				if bad {
					continue
				}
				if needPositive {
					ok := false
					for _, p := range pos {
						if contains(a.names, p) {
							ok = true
						}
					}
					if !ok {
						continue
					}
				}
				addrs = append(addrs, a.s)
			}
			if len(addrs) == 0 {
				continue
			}
			if len(addrs) < len(rec.addrs) {
				trimmed = true
			}
		}
		o := obsRec{ID: peerPool[rec.idx].String(), Addrs: addrs, Protos: rec.protos}
		if len(rec.extra) > 0 {
			o.Extra = rec.extra
		}
		out = append(out, o)
		srcIdx = append(srcIdx, i)
	}
	return out, srcIdx, trimmed
}

func take(l []obsRec, limit int) []obsRec {
	if limit > 0 && len(l) > limit {
		return l[:limit]
	}
	return l
}

// ---------------------------------------------------------------- scripted router

type srcIter[T any] struct {
	mu     *sync.Mutex
	items  []T
	i      int
	next   int
	closes int
}

func (s *srcIter[T]) Next() bool {
	s.mu.Lock()
	defer s.mu.Unlock()
	s.next++
	s.i++
	return s.i <= len(s.items)
}
func (s *srcIter[T]) Val() T {
	s.mu.Lock()
	defer s.mu.Unlock()
	return s.items[s.i-1]
}
func (s *srcIter[T]) Close() error {
	s.mu.Lock()
	defer s.mu.Unlock()
	s.closes++
	return nil
}

type router struct {
	mu        sync.Mutex
	recs      []recSpec
	calls     int
	limitArgs []int
	lastNext  func() (next, closes int)

	ipnsStore   map[string][]byte // name -> marshalled record
	ipnsHostile map[string][]byte // name -> record returned by GetIPNS regardless of the store
	putCalls    int
}

func buildPeerRecord(rs recSpec) *types.PeerRecord {
	id := peerPool[rs.idx]
	pr := &types.PeerRecord{Schema: types.SchemaPeer, ID: &id}
	if !rs.addrsNil || len(rs.addrs) > 0 {
		pr.Addrs = []types.Multiaddr{}
	}
	for _, a := range rs.addrs {
		m, err := multiaddr.NewMultiaddr(a.s)
		must(err)
		pr.Addrs = append(pr.Addrs, types.Multiaddr{Multiaddr: m})
	}
	if !rs.protoNil || len(rs.protos) > 0 {
		pr.Protocols = append([]string{}, rs.protos...)
	}
	if len(rs.extra) > 0 {
		pr.Extra = map[string]json.RawMessage{}
		for k, v := range rs.extra {
			pr.Extra[k] = json.RawMessage(v)
		}
	}
	return pr
}

func buildRecord(rs recSpec) types.Record {
	if rs.unknown {
		return &types.UnknownRecord{Schema: rs.schema, Bytes: []byte(rs.raw)}
	}
	if !rs.bitswap {
		return buildPeerRecord(rs)
	}
	id := peerPool[rs.idx]
	//lint:ignore SA1019 deprecated schema is part of the workload
	br := &types.BitswapRecord{Schema: types.SchemaBitswap, Protocol: rs.protos[0], ID: &id}
	for _, a := range rs.addrs {
		m, err := multiaddr.NewMultiaddr(a.s)
		must(err)
		br.Addrs = append(br.Addrs, types.Multiaddr{Multiaddr: m})
	}
	return br
}

func peersOnly(recs []recSpec) []recSpec {
	var out []recSpec
	for _, r := range recs {
		if !r.bitswap && !r.unknown {
			out = append(out, r)
		}
	}
	return out
}

func (rt *router) FindProviders(ctx context.Context, c cid.Cid, limit int) (iter.ResultIter[types.Record], error) {
	rt.mu.Lock()
	defer rt.mu.Unlock()
	rt.calls++
	rt.limitArgs = append(rt.limitArgs, limit)
	recs := rt.recs
	if limit > 0 && len(recs) > limit { // a delegate that honours its limit argument
		recs = recs[:limit]
	}
	if len(recs) == 0 && rt.calls%2 == 0 {
		rt.lastNext = func() (int, int) { return 0, 1 }
		return nil, routing.ErrNotFound
	}
	items := make([]iter.Result[types.Record], len(recs))
	for i, rs := range recs {
		items[i] = iter.Result[types.Record]{Val: buildRecord(rs)} // fresh objects on every call
	}
	it := &srcIter[iter.Result[types.Record]]{mu: &sync.Mutex{}, items: items}
	rt.lastNext = func() (int, int) { it.mu.Lock(); defer it.mu.Unlock(); return it.next, it.closes }
	return it, nil
}

func (rt *router) FindPeers(ctx context.Context, pid peer.ID, limit int) (iter.ResultIter[*types.PeerRecord], error) {
	rt.mu.Lock()
	defer rt.mu.Unlock()
	rt.calls++
	rt.limitArgs = append(rt.limitArgs, limit)
	recs := peersOnly(rt.recs)
	if limit > 0 && len(recs) > limit {
		recs = recs[:limit]
	}
	if len(recs) == 0 && rt.calls%2 == 0 {
		rt.lastNext = func() (int, int) { return 0, 1 }
		return nil, routing.ErrNotFound
	}
	items := make([]iter.Result[*types.PeerRecord], len(recs))
	for i, rs := range recs {
		items[i] = iter.Result[*types.PeerRecord]{Val: buildPeerRecord(rs)}
	}
	it := &srcIter[iter.Result[*types.PeerRecord]]{mu: &sync.Mutex{}, items: items}
	rt.lastNext = func() (int, int) { it.mu.Lock(); defer it.mu.Unlock(); return it.next, it.closes }
	return it, nil
}

func (rt *router) GetClosestPeers(ctx context.Context, key cid.Cid) (iter.ResultIter[*types.PeerRecord], error) {
	return nil, routing.ErrNotFound
}

//lint:ignore SA1019 interface requirement
func (rt *router) ProvideBitswap(ctx context.Context, req *server.BitswapWriteProvideRequest) (time.Duration, error) {
	return 0, errors.New("not supported")
}

func (rt *router) GetIPNS(ctx context.Context, name ipns.Name) (*ipns.Record, error) {
	rt.mu.Lock()
	defer rt.mu.Unlock()
	b, ok := rt.ipnsHostile[name.String()]
	if !ok {
		b, ok = rt.ipnsStore[name.String()]
	}
	if !ok {
		return nil, routing.ErrNotFound
	}
	return ipns.UnmarshalRecord(b)
}

func (rt *router) PutIPNS(ctx context.Context, name ipns.Name, record *ipns.Record) error {
	b, err := ipns.MarshalRecord(record)
	if err != nil {
		return err
	}
	rt.mu.Lock()
	defer rt.mu.Unlock()
	rt.putCalls++
	rt.ipnsStore[name.String()] = b
	return nil
}

// ---------------------------------------------------------------- front server

type front struct {
	srv *httptest.Server
	cur atomic.Pointer[http.Handler]
}

var fr *front

func newFront() *front {
	f := &front{}
	f.srv = httptest.NewServer(http.HandlerFunc(func(w http.ResponseWriter, r *http.Request) {
		h := f.cur.Load()
		if h == nil {
			http.Error(w, "no handler", 500)
			return
		}
		(*h).ServeHTTP(w, r)
	}))
	return f
}

func (f *front) set(h http.Handler) { f.cur.Store(&h) }

// dumbHandler serves every record of the case, ignoring filters and limits,
// encoded by the harness itself.
func dumbHandler(recs []recSpec, ndjson bool, nullAddrs bool) http.Handler {
	enc := func(rs recSpec) []byte {
		if rs.unknown {
			return []byte(rs.raw)
		}
		m := map[string]any{"ID": peerPool[rs.idx].String()}
		var as []string
		for _, a := range rs.addrs {
			as = append(as, a.s)
		}
		if rs.bitswap {
			m["Schema"] = "bitswap"
			m["Protocol"] = rs.protos[0]
			if len(as) > 0 {
				m["Addrs"] = as
			}
		} else {
			m["Schema"] = "peer"
			switch {
			case len(as) > 0:
				m["Addrs"] = as
			case !rs.addrsNil:
				m["Addrs"] = []string{}
			case nullAddrs:
				m["Addrs"] = nil
			}
			switch {
			case len(rs.protos) > 0:
				m["Protocols"] = rs.protos
			case !rs.protoNil:
				m["Protocols"] = []string{}
			}
			for k, v := range rs.extra {
				m[k] = json.RawMessage(v)
			}
		}
		b, err := json.Marshal(m)
		must(err)
		return b
	}
	return http.HandlerFunc(func(w http.ResponseWriter, r *http.Request) {
		list := recs
		key := "Providers"
		if strings.HasPrefix(r.URL.Path, "/routing/v1/peers/") {
			list = peersOnly(recs)
			key = "Peers"
		}
		if ndjson {
			w.Header().Set("Content-Type", "application/x-ndjson")
			w.WriteHeader(200)
			for _, rs := range list {
				w.Write(enc(rs))
				w.Write([]byte("\n"))
				if f, ok := w.(http.Flusher); ok {
					f.Flush()
				}
			}
			return
		}
		w.Header().Set("Content-Type", "application/json")
		var buf bytes.Buffer
		buf.WriteString(`{"` + key + `":[`)
		for i, rs := range list {
			if i > 0 {
				buf.WriteByte(',')
			}
			buf.Write(enc(rs))
		}
		buf.WriteString("]}")
		w.Write(buf.Bytes())
	})
}

type acceptRT struct {
	accept string
	base   http.RoundTripper
}

func (a acceptRT) RoundTrip(r *http.Request) (*http.Response, error) {
	r2 := r.Clone(r.Context())
	r2.Header.Set("Accept", a.accept)
	return a.base.RoundTrip(r2)
}

// ---------------------------------------------------------------- filters generation

type filterExpr struct {
	addr, proto       []string
	addrSet, protoSet bool // false: option/parameter omitted altogether
	caseKind          string
}

func upperSome(r *vlib.Rand, s string) string {
	b := []byte(s)
	changed := false
	for i := range b {
		if b[i] >= 'a' && b[i] <= 'z' && r.Chance(1, 2) {
			b[i] -= 32
			changed = true
		}
	}
	if !changed {
		return strings.ToUpper(s)
	}
	return string(b)
}

func genFilter(r *vlib.Rand, recs []recSpec, caseKind string) filterExpr {
	var fe filterExpr
	fe.caseKind = caseKind
	// vocabulary biased towards names that occur in this case
	var present []string
	for _, rs := range recs {
		for _, a := range rs.addrs {
			present = append(present, a.names...)
		}
	}
	pickName := func() string {
		if len(present) > 0 && r.Chance(3, 4) {
			return vlib.Pick(r, present)
		}
		return vlib.Pick(r, addrVocab)
	}
	if r.Chance(3, 4) || strings.HasPrefix(caseKind, "addr") {
		fe.addrSet = true
		for i, m := 0, r.Range(1, 4); i < m; i++ {
			n := pickName()
			if r.Chance(2, 5) {
				n = "!" + n
			}
			fe.addr = append(fe.addr, n)
		}
		if r.Chance(3, 10) {
			fe.addr = append(fe.addr, "unknown")
		}
		if r.Chance(1, 12) {
			fe.addr = []string{"unknown"}
		}
	}
	if r.Chance(2, 3) || strings.HasPrefix(caseKind, "proto") {
		fe.protoSet = true
		for i, m := 0, r.Range(0, 3); i < m; i++ {
			fe.proto = append(fe.proto, vlib.Pick(r, protoVocab))
		}
		if r.Chance(7, 20) {
			fe.proto = append(fe.proto, "unknown")
		}
		// may stay empty: an explicitly empty filter list means "no protocol filter"
	}
	// mixed-case strata: exactly one kind of term is upper-cased
	switch caseKind {
	case "addr-pos":
		done := false
		for i, t := range fe.addr {
			if !strings.HasPrefix(t, "!") && t != "unknown" {
				fe.addr[i] = upperSome(r, t)
				done = true
			}
		}
		if !done {
			fe.addr = append(fe.addr, upperSome(r, pickName()))
		}
	case "addr-neg":
		done := false
		for i, t := range fe.addr {
			if strings.HasPrefix(t, "!") {
				fe.addr[i] = "!" + upperSome(r, t[1:])
				done = true
			}
		}
		if !done {
			fe.addr = append(fe.addr, "!"+upperSome(r, pickName()))
		}
	case "addr-unknown":
		has := false
		for i, t := range fe.addr {
			if t == "unknown" {
				fe.addr[i] = upperSome(r, t)
				has = true
			}
		}
		if !has {
			fe.addr = append(fe.addr, upperSome(r, "unknown"))
		}
	case "proto-unknown":
		has := false
		for i, t := range fe.proto {
			if t == "unknown" {
				fe.proto[i] = upperSome(r, t)
				has = true
			}
		}
		if !has {
			fe.proto = append(fe.proto, upperSome(r, "unknown"))
		}
	case "proto-name":
		done := false
		for i, t := range fe.proto {
			if t != "unknown" {
				fe.proto[i] = upperSome(r, t)
				done = true
			}
		}
		if !done {
			fe.proto = append(fe.proto, upperSome(r, vlib.Pick(r, protoVocab)))
		}
	}
	vlib.Shuffle(r, fe.addr)
	vlib.Shuffle(r, fe.proto)
	return fe
}

// ambiguous reports whether the two readings of "unknown" in filter-addrs can differ.
func (fe filterExpr) ambiguous() bool {
	hasUnknown, hasPos := false, false
	for _, t := range fe.addr {
		switch {
		case strings.EqualFold(t, "unknown"):
			hasUnknown = true
		case !strings.HasPrefix(t, "!"):
			hasPos = true
		}
	}
	return hasUnknown && !hasPos
}

// ---------------------------------------------------------------- probes

type probeResult struct {
	recs    []obsRec
	mode    string // "json" | "ndjson" as seen in Content-Type ("" for boxo client probes)
	err     string
	itemErr string
}

func fromRecord(rec types.Record) (obsRec, string) {
	switch v := rec.(type) {
	case *types.PeerRecord:
		if v == nil {
			return obsRec{}, "nil *PeerRecord"
		}
		o := obsRec{Protos: v.Protocols}
		if v.ID != nil {
			o.ID = v.ID.String()
		}
		for _, a := range v.Addrs {
			if a.Multiaddr == nil {
				o.Addrs = append(o.Addrs, "<nil>")
			} else {
				o.Addrs = append(o.Addrs, a.String())
			}
		}
		if len(v.Extra) > 0 {
			o.Extra = map[string]string{}
			for k, x := range v.Extra {
				o.Extra[k] = strings.TrimSpace(string(x))
			}
		}
		return o, ""
	//lint:ignore SA1019 deprecated schema is part of the workload
	case *types.BitswapRecord:
		o := obsRec{Protos: []string{v.Protocol}}
		if v.ID != nil {
			o.ID = v.ID.String()
		}
		for _, a := range v.Addrs {
			o.Addrs = append(o.Addrs, a.String())
		}
		return o, ""
	case *types.UnknownRecord:
		raw, _ := canonJSON(v.Bytes)
		return obsRec{Unknown: true, Schema: v.Schema, Raw: raw}, ""
	case nil:
		return obsRec{}, "nil record"
	default:
		return obsRec{}, fmt.Sprintf("record of schema %q (%T)", rec.GetSchema(), rec)
	}
}

// decodeWire decodes one JSON object of the wire format with the harness's own decoder.
func decodeWire(raw json.RawMessage) (obsRec, string) {
	var m map[string]json.RawMessage
	if err := json.Unmarshal(raw, &m); err != nil {
		return obsRec{}, "undecodable record: " + err.Error()
	}
	var o obsRec
	var schema string
	json.Unmarshal(m["Schema"], &schema)
	if schema == "bitswap" {
		return obsRec{}, "wire record has the deprecated bitswap schema (the server converts these)"
	}
	if schema != "peer" {
		c, _ := canonJSON(raw)
		return obsRec{Unknown: true, Schema: schema, Raw: c}, ""
	}
	json.Unmarshal(m["ID"], &o.ID)
	if a, ok := m["Addrs"]; ok {
		if err := json.Unmarshal(a, &o.Addrs); err != nil {
			return obsRec{}, "Addrs: " + err.Error()
		}
	}
	if p, ok := m["Protocols"]; ok {
		if err := json.Unmarshal(p, &o.Protos); err != nil {
			return obsRec{}, "Protocols: " + err.Error()
		}
	}
	for k, v := range m {
		switch k {
		case "Schema", "ID", "Addrs", "Protocols":
		default:
			if o.Extra == nil {
				o.Extra = map[string]string{}
			}
			o.Extra[k] = strings.TrimSpace(string(v))
		}
	}
	return o, ""
}

func rawProbe(endpoint, key string, fe filterExpr, accept string, escape bool) probeResult {
	u := fr.srv.URL + "/routing/v1/" + endpoint + "/" + key
	var q []string
	join := func(name string, terms []string) {
		v := strings.Join(terms, ",")
		if escape {
			v = url.QueryEscape(v)
		}
		q = append(q, name+"="+v)
	}
	if fe.addrSet && len(fe.addr) > 0 {
		join("filter-addrs", fe.addr)
	}
	if fe.protoSet && len(fe.proto) > 0 {
		join("filter-protocols", fe.proto)
	}
	if len(q) > 0 {
		u += "?" + strings.Join(q, "&")
	}
	req, err := http.NewRequest(http.MethodGet, u, nil)
	must(err)
	if accept != "" {
		req.Header.Set("Accept", accept)
	}
	resp, err := http.DefaultClient.Do(req)
	if err != nil {
		return probeResult{err: "transport: " + err.Error()}
	}
	defer resp.Body.Close()
	body, err := io.ReadAll(resp.Body)
	if err != nil {
		return probeResult{err: "read body: " + err.Error()}
	}
	if resp.StatusCode != 200 {
		return probeResult{err: fmt.Sprintf("HTTP %d: %s", resp.StatusCode, strings.TrimSpace(string(body)))}
	}
	var pr probeResult
	ct := resp.Header.Get("Content-Type")
	switch {
	case strings.HasPrefix(ct, "application/x-ndjson"):
		pr.mode = "ndjson"
		sc := bufio.NewScanner(bytes.NewReader(body))
		sc.Buffer(make([]byte, 1<<20), 1<<20)
		for sc.Scan() {
			line := bytes.TrimSpace(sc.Bytes())
			if len(line) == 0 {
				continue
			}
			o, e := decodeWire(append([]byte(nil), line...))
			if e != "" && pr.itemErr == "" {
				pr.itemErr = e
			}
			pr.recs = append(pr.recs, o)
		}
	case strings.HasPrefix(ct, "application/json"):
		pr.mode = "json"
		var top map[string][]json.RawMessage
		if err := json.Unmarshal(body, &top); err != nil {
			return probeResult{err: "undecodable JSON body: " + err.Error()}
		}
		field := "Providers"
		if endpoint == "peers" {
			field = "Peers"
		}
		for _, raw := range top[field] {
			o, e := decodeWire(raw)
			if e != "" && pr.itemErr == "" {
				pr.itemErr = e
			}
			pr.recs = append(pr.recs, o)
		}
	default:
		pr.err = "unexpected Content-Type " + ct
	}
	return pr
}

func clientProbe(endpoint string, keyIdx int, fe filterExpr, accept string, disableLocal bool) (pr probeResult) {
	opts := []client.Option{}
	if fe.protoSet {
		opts = append(opts, client.WithProtocolFilter(append([]string{}, fe.proto...)))
	}
	if fe.addrSet {
		opts = append(opts, client.WithAddrFilter(append([]string{}, fe.addr...)))
	}
	if disableLocal {
		opts = append(opts, client.WithDisabledLocalFiltering(true))
	}
	switch accept {
	case "ndjson":
		opts = append(opts, client.WithStreamResultsRequired())
	case "json":
		opts = append(opts, client.WithHTTPClient(&http.Client{Transport: acceptRT{"application/json", http.DefaultTransport}}))
	}
	cl, err := client.New(fr.srv.URL, opts...)
	if err != nil {
		return probeResult{err: "client.New: " + err.Error()}
	}
	ctx, cancel := context.WithTimeout(context.Background(), 60*time.Second) // watchdog only
	defer cancel()
	// every result is retained as delivered and only looked at after the
	// stream has been read to its end and the iterator closed
	type held struct {
		rec types.Record
		err error
	}
	var all []held
	collect := func(rec types.Record, e error) { all = append(all, held{rec, e}) }
	defer func() {
		for _, h := range all {
			if h.err != nil {
				if pr.itemErr == "" {
					pr.itemErr = "item error: " + h.err.Error()
				}
				continue
			}
			o, es := fromRecord(h.rec)
			if es != "" && pr.itemErr == "" {
				pr.itemErr = es
			}
			pr.recs = append(pr.recs, o)
		}
	}()
	if endpoint == "providers" {
		it, err := cl.FindProviders(ctx, cidPool[keyIdx%len(cidPool)])
		if err != nil {
			return probeResult{err: "FindProviders: " + err.Error()}
		}
		for it.Next() {
			v := it.Val()
			collect(v.Val, v.Err)
		}
		it.Close()
	} else {
		it, err := cl.FindPeers(ctx, peerPool[keyIdx%len(peerPool)])
		if err != nil {
			return probeResult{err: "FindPeers: " + err.Error()}
		}
		for it.Next() {
			v := it.Val()
			if v.Val == nil && v.Err == nil {
				collect(nil, nil)
				continue
			}
			collect(v.Val, v.Err)
		}
		it.Close()
	}
	return pr
}

// ---------------------------------------------------------------- comparison

func eqStrs(a, b []string) bool {
	if len(a) != len(b) {
		return false
	}
	for i := range a {
		if a[i] != b[i] {
			return false
		}
	}
	return true
}

func eqExtra(a, b map[string]string) bool {
	if len(a) != len(b) {
		return false
	}
	for k, v := range a {
		if b[k] != v {
			return false
		}
	}
	return true
}

func eqRec(a, b obsRec) bool {
	return a.ID == b.ID && eqStrs(a.Addrs, b.Addrs) && eqStrs(a.Protos, b.Protos) && eqExtra(a.Extra, b.Extra) &&
		a.Unknown == b.Unknown && a.Schema == b.Schema && a.Raw == b.Raw
}

func eqList(a, b []obsRec) bool {
	if len(a) != len(b) {
		return false
	}
	for i := range a {
		if !eqRec(a[i], b[i]) {
			return false
		}
	}
	return true
}

// diffClause names the way obs departs from exp.
func diffClause(exp, obs []obsRec, limit int) string {
	isPrefix := func(short, long []obsRec) bool {
		if len(short) > len(long) {
			return false
		}
		return eqList(short, long[:len(short)])
	}
	switch {
	case len(obs) > len(exp) && isPrefix(exp, obs):
		if limit > 0 && len(exp) == limit {
			return "limit-exceeded"
		}
		return "extra-records"
	case len(obs) < len(exp) && isPrefix(obs, exp):
		return "too-few"
	}
	if len(obs) == len(exp) {
		ids, addrs, protos, extra := true, true, true, true
		for i := range exp {
			if exp[i].ID != obs[i].ID {
				ids = false
			}
			if !eqStrs(exp[i].Addrs, obs[i].Addrs) {
				addrs = false
			}
			if !eqStrs(exp[i].Protos, obs[i].Protos) {
				protos = false
			}
			if !eqExtra(exp[i].Extra, obs[i].Extra) {
				extra = false
			}
		}
		if ids {
			switch {
			case !addrs:
				return "addrs"
			case !protos:
				return "protocols"
			case !extra:
				return "extra-fields"
			}
		}
		es, os := make([]string, len(exp)), make([]string, len(obs))
		for i := range exp {
			es[i], os[i] = exp[i].String(), obs[i].String()
		}
		sort.Strings(es)
		sort.Strings(os)
		if eqStrs(es, os) {
			return "order"
		}
	}
	// same surviving peers but other address lists?
	if len(obs) < len(exp) {
		return "kept-set-missing"
	}
	if len(obs) > len(exp) {
		return "kept-set-extra"
	}
	return "kept-set"
}

// subsumed reports whether `small` can be obtained from `big` by deleting
// records and/or deleting addresses inside records (greedy, order-preserving).
func subsumed(small, big []obsRec) bool {
	isSubseq := func(a, b []string) bool {
		j := 0
		for _, x := range b {
			if j < len(a) && a[j] == x {
				j++
			}
		}
		return j == len(a)
	}
	j := 0
	for _, b := range big {
		if j < len(small) && small[j].ID == b.ID && eqStrs(small[j].Protos, b.Protos) && eqExtra(small[j].Extra, b.Extra) && isSubseq(small[j].Addrs, b.Addrs) {
			j++
		}
	}
	return j == len(small)
}

// direction classifies a divergence in the mixed-case stratum.
func direction(obs []obsRec, exps ...[]obsRec) string {
	for _, e := range exps {
		if subsumed(obs, e) {
			return "missing"
		}
	}
	for _, e := range exps {
		if subsumed(e, obs) {
			return "extra"
		}
	}
	return "other"
}

// ---------------------------------------------------------------- the filter strata

type caseStats struct {
	dropped, trimmed, capped, json, ndjson bool
}

func filterCase(caseStratum bool) func(k *vlib.Case) {
	return func(k *vlib.Case) {
		r := k.R
		recs := genRecords(r)
		jsonLimit, ndLimit := genLimit(r, len(recs)), genLimit(r, len(recs))
		if r.Chance(1, 3) {
			ndLimit = jsonLimit
		}
		disableND := r.Chance(1, 8)
		k.Logf("server WithRecordsLimit(%d) WithStreamingRecordsLimit(%d) ndjsonDisabled=%v", jsonLimit, ndLimit, disableND)
		for _, rs := range recs {
			k.Logf("record %s", rs)
		}
		rt := &router{recs: recs, ipnsStore: map[string][]byte{}}
		opts := []server.Option{server.WithRecordsLimit(jsonLimit), server.WithStreamingRecordsLimit(ndLimit),
			server.WithPrometheusRegistry(prometheus.NewRegistry())}
		if disableND {
			opts = append(opts, server.WithStreamingResultsDisabled())
		}
		real := server.Handler(rt, opts...)

		var st caseStats
		nreq := r.Range(4, 8)
		for q := 0; q < nreq; q++ {
			endpoint := "providers"
			if r.Chance(2, 5) {
				endpoint = "peers"
			}
			list := recs
			if endpoint == "peers" {
				list = peersOnly(recs)
			}
			caseKind := ""
			if caseStratum {
				caseKind = vlib.Pick(r, []string{"addr-pos", "addr-neg", "addr-unknown", "proto-unknown", "proto-name"})
			}
			fe := genFilter(r, list, caseKind)
			point := vlib.Pick(r, []string{"server-raw", "server-raw", "server-raw", "client-nolocal", "client-nolocal", "client-local", "client-local", "client-dumb"})
			keyIdx := r.Intn(30)
			oneRequest(k, rt, real, recs, list, endpoint, fe, point, keyIdx, jsonLimit, ndLimit, disableND, &st)
		}
		if st.dropped && st.trimmed && st.capped && st.json && st.ndjson {
			k.Nontrivial()
		}
	}
}

func genLimit(r *vlib.Rand, n int) int {
	switch c := r.Intn(10); {
	case c < 2:
		return 0
	case c < 5:
		return r.Range(1, 5)
	case c < 7 && n > 1:
		return r.Range(1, n)
	default:
		return r.Range(0, 40)
	}
}

func oneRequest(k *vlib.Case, rt *router, real http.Handler, all, list []recSpec, endpoint string, fe filterExpr,
	point string, keyIdx int, jsonLimit, ndLimit int, disableND bool, st *caseStats) {
	r := k.R
	c := k.C

	// effective filters as the spec sees them
	addrF, protoF := fe.addr, fe.proto
	if !fe.addrSet {
		addrF = nil
	}
	if !fe.protoSet {
		protoF = nil
		if point != "server-raw" {
			// "DefaultProtocolFilter = unknown, transport-bitswap // IPIP-484": client default
			protoF = []string{"unknown", "transport-bitswap"}
		}
	}

	// negotiated encoding
	var accept, wantMode string
	rawAccept := ""
	switch point {
	case "server-raw":
		accept = vlib.Pick(r, []string{"json", "ndjson", "both", "both-q", "none", "wildcard"})
		switch accept {
		case "json":
			rawAccept = "application/json"
		case "ndjson":
			rawAccept = "application/x-ndjson"
		case "both":
			rawAccept = "application/x-ndjson,application/json"
		case "both-q":
			rawAccept = "application/json;q=0.9, application/x-ndjson"
		case "wildcard":
			rawAccept = "*/*"
		}
		if disableND && accept == "ndjson" {
			accept, rawAccept = "both", "application/x-ndjson,application/json"
		}
	default:
		accept = vlib.Pick(r, []string{"default", "ndjson", "json"})
		if disableND && accept == "ndjson" {
			accept = "default"
		}
	}
	switch accept {
	case "json", "none", "wildcard":
		wantMode = "json"
	default:
		wantMode = "ndjson"
		if disableND {
			wantMode = "json"
		}
	}
	limit := jsonLimit
	if wantMode == "ndjson" {
		limit = ndLimit
	}
	dumbND, dumbNull := false, false
	if point == "client-dumb" {
		dumbND, dumbNull = r.Bool(), r.Bool()
		limit = 0
		wantMode = "json"
		if dumbND {
			wantMode = "ndjson"
		}
	}
	escape := r.Bool()

	k.Logf("GET %s via %s filter-addrs=%v(set=%v) filter-protocols=%v(set=%v) accept=%s mode=%s limit=%d key=%d esc=%v dumb(nd=%v,null=%v) case=%s",
		endpoint, point, fe.addr, fe.addrSet, fe.proto, fe.protoSet, accept, wantMode, limit, keyIdx, escape, dumbND, dumbNull, fe.caseKind)

	// reference
	expA, srcA, trimA := refFilter(list, addrF, protoF, true)
	expB, srcB, trimB := refFilter(list, addrF, protoF, false)
	ambiguous := !eqList(expA, expB)

	rt.mu.Lock()
	rt.limitArgs = nil
	rt.lastNext = nil
	rt.mu.Unlock()

	var pr probeResult
	switch point {
	case "server-raw":
		fr.set(real)
		key := cidPool[keyIdx%len(cidPool)].String()
		if endpoint == "peers" {
			key = peer.ToCid(peerPool[keyIdx%len(peerPool)]).String()
			if r.Chance(1, 3) {
				key = peerPool[keyIdx%len(peerPool)].String() // legacy form is accepted by the server
			}
		}
		vlib.Guard(k, "raw-request", 120*time.Second, func() { pr = rawProbe(endpoint, key, fe, rawAccept, escape) })
	case "client-nolocal":
		fr.set(real)
		vlib.Guard(k, "client-request", 120*time.Second, func() { pr = clientProbe(endpoint, keyIdx, fe, accept, true) })
	case "client-local":
		fr.set(real)
		vlib.Guard(k, "client-request", 120*time.Second, func() { pr = clientProbe(endpoint, keyIdx, fe, accept, false) })
	case "client-dumb":
		fr.set(dumbHandler(all, dumbND, dumbNull))
		vlib.Guard(k, "client-request", 120*time.Second, func() { pr = clientProbe(endpoint, keyIdx, fe, "default", false) })
	}
	c.Count("requests", 1)
	c.Count("requests_"+point, 1)
	c.Count("requests_"+endpoint+"_"+wantMode, 1)

	suffix := ""
	if fe.caseKind != "" {
		suffix = "/case-" + fe.caseKind
	}
	where := fmt.Sprintf("%s %s %s", point, endpoint, wantMode)

	if pr.err != "" {
		k.Fail(point+"/request-error"+suffix, where+": request succeeds", "200 + records", pr.err)
		return
	}
	if pr.itemErr != "" {
		k.Fail(point+"/bad-item"+suffix, where+": every item is a decodable peer record", "peer records only", pr.itemErr)
		return
	}
	if point == "server-raw" && pr.mode != wantMode {
		k.Fail("server-raw/mode-negotiation", where+": encoding follows Accept and server options", wantMode, pr.mode)
		return
	}

	wantA, wantB := take(expA, limit), take(expB, limit)
	var want, full []obsRec
	var src []int
	trimmed := false
	switch {
	case eqList(pr.recs, wantA):
		want, full, src, trimmed = wantA, expA, srcA, trimA
		if ambiguous {
			c.Count("ambiguous_unknown_requests_reading_unknown-is-positive", 1)
		}
	case eqList(pr.recs, wantB):
		want, full, src, trimmed = wantB, expB, srcB, trimB
		c.Count("ambiguous_unknown_requests_reading_unknown-is-flag", 1)
	default:
		clause := diffClause(wantA, pr.recs, limit)
		exp := listString(wantA)
		if ambiguous {
			exp += "  OR (unknown not a positive term)  " + listString(wantB)
		}
		class := point + "/" + clause + suffix
		if fe.caseKind != "" && (point == "client-local" || point == "client-dumb") {
			// both points exercise the client's local filter pass; one class per
			// (direction of the divergence, kind of upper-cased term)
			class = "client-filter/" + direction(pr.recs, wantA, wantB) + suffix
		}
		k.Fail(class, where+": response == take(limit, IPIP-484 filter(records))", exp, listString(pr.recs))
		return
	}
	c.Count("responses_matching_reference", 1)
	c.Count("records_returned", int64(len(want)))

	// statistics for the non-triviality rule (all measured on the reference that matched)
	if len(full) < len(list) {
		st.dropped = true
		c.Count("requests_with_dropped_records", 1)
	}
	if trimmed {
		st.trimmed = true
		c.Count("requests_with_trimmed_addr_lists", 1)
	}
	if limit > 0 && len(full) > limit {
		st.capped = true
		c.Count("requests_capped_by_limit", 1)
	}
	if wantMode == "json" {
		st.json = true
	} else {
		st.ndjson = true
	}

	// the scripted router's view (real server only)
	if point == "client-dumb" {
		return
	}
	rt.mu.Lock()
	largs := append([]int(nil), rt.limitArgs...)
	ln := rt.lastNext
	rt.mu.Unlock()
	if len(largs) != 1 {
		k.Fail("server/delegate-calls", where+": one delegate call per request", "1", fmt.Sprint(len(largs)))
		return
	}
	if largs[0] != 0 {
		k.Fail("server/delegate-limit-arg", where+": delegate is called with limit 0 (DelegatedRouter doc)", "0", fmt.Sprint(largs[0]))
	}
	if ln != nil {
		next, closes := ln()
		if closes == 0 {
			k.Fail("server/delegate-iter-not-closed/"+wantMode, where+": server closes the delegate's iterator", ">=1 Close", "0")
		}
		// lazily consumed: what is needed to produce `want`, plus the final probe, plus one
		needed := len(list) + 1
		if limit > 0 && len(full) >= limit {
			needed = src[limit-1] + 1
		}
		c.Count("delegate_iterators_observed", 1)
		switch {
		case next <= needed:
			c.Count("delegate_iterators_read_exactly_as_needed", 1)
		case next == needed+1:
			c.Count("delegate_iterators_read_one_ahead", 1)
		}
		if next > needed+1 {
			k.Fail("server/delegate-over-read/"+wantMode, where+": delegate iterator consumed lazily (needed+1)", fmt.Sprintf("<= %d", needed+1), fmt.Sprint(next))
		}
	}
}

// ---------------------------------------------------------------- IPNS stratum

var (
	farFuture = time.Date(2100, 1, 1, 0, 0, 0, 0, time.UTC)
	longPast  = time.Date(2001, 1, 1, 0, 0, 0, 0, time.UTC)
)

func mkValue(r *vlib.Rand) path.Path {
	c := cidPool[r.Intn(len(cidPool))]
	s := "/ipfs/" + c.String()
	if r.Chance(1, 3) {
		s += "/" + vlib.Pick(r, []string{"a", "dir/file.txt", "x/y/z"})
	}
	if r.Chance(1, 8) {
		s = "/ipns/" + keyPool[r.Intn(len(keyPool))].name.String()
	}
	p, err := path.NewPath(s)
	must(err)
	return p
}

func tamper(b []byte, f func(pb *ipns_pb.IpnsRecord)) []byte {
	var pb ipns_pb.IpnsRecord
	must(proto.Unmarshal(b, &pb))
	f(&pb)
	out, err := proto.Marshal(&pb)
	must(err)
	return out
}

func rawPut(name ipns.Name, body []byte) (int, string) {
	req, err := http.NewRequest(http.MethodPut, fr.srv.URL+"/routing/v1/ipns/"+name.String(), bytes.NewReader(body))
	must(err)
	req.Header.Set("Content-Type", "application/vnd.ipfs.ipns-record")
	resp, err := http.DefaultClient.Do(req)
	if err != nil {
		return -1, err.Error()
	}
	defer resp.Body.Close()
	msg, _ := io.ReadAll(resp.Body)
	return resp.StatusCode, strings.TrimSpace(string(msg))
}

func ipnsCase(k *vlib.Case) {
	r := k.R
	c := k.C
	rt := &router{ipnsStore: map[string][]byte{}, ipnsHostile: map[string][]byte{}}
	real := server.Handler(rt, server.WithPrometheusRegistry(prometheus.NewRegistry()))
	fr.set(real)
	cl, err := client.New(fr.srv.URL)
	must(err)
	ctx, cancel := context.WithTimeout(context.Background(), 5*time.Minute) // watchdog only
	defer cancel()

	// 2-3 keys of this case
	perm := r.Perm(len(keyPool))
	keys := perm[:r.Range(2, 3)]
	model := map[int][]byte{}
	seq := uint64(r.Intn(5))
	sawValid, sawReject, sawGet := false, false, false

	mkValid := func(ki int, eol time.Time) []byte {
		seq += uint64(r.Range(0, 2))
		var opts []ipns.Option
		v1 := r.Bool()
		opts = append(opts, ipns.WithV1Compatibility(v1))
		if r.Chance(1, 4) {
			opts = append(opts, ipns.WithMetadata(map[string]any{"_note": "n" + fmt.Sprint(r.Intn(100))}))
		}
		if keyPool[ki].kind == "ed25519" && r.Chance(1, 4) {
			opts = append(opts, ipns.WithPublicKey(true))
		}
		rec, err := ipns.NewRecord(keyPool[ki].sk, mkValue(r), seq, eol, time.Duration(r.Range(0, 3600))*time.Second, opts...)
		must(err)
		b, err := ipns.MarshalRecord(rec)
		must(err)
		return b
	}

	n := r.Range(6, 14)
	for i := 0; i < n && !k.Failed(); i++ {
		ki := vlib.Pick(r, keys)
		key := keyPool[ki]
		kd := fmt.Sprintf("key#%d(%s)", ki, key.kind)
		switch op := r.Intn(100); {
		case op < 30: // valid PUT
			viaRaw := r.Chance(1, 3)
			b := mkValid(ki, farFuture)
			k.Logf("PUT valid %s seq=%d len=%d raw=%v", kd, seq, len(b), viaRaw)
			rt.mu.Lock()
			before := rt.putCalls
			rt.mu.Unlock()
			var errs string
			if viaRaw {
				code, msg := rawPut(key.name, b)
				if code != 200 {
					errs = fmt.Sprintf("HTTP %d %s", code, msg)
				}
			} else {
				rec, err := ipns.UnmarshalRecord(b)
				must(err)
				if err := cl.PutIPNS(ctx, key.name, rec); err != nil {
					errs = err.Error()
				}
			}
			c.Count("ipns_put_valid", 1)
			if errs != "" {
				k.Fail("ipns/put-valid-rejected/"+key.kind, "a valid signed record is accepted on PUT", "200", errs)
				break
			}
			rt.mu.Lock()
			after, stored := rt.putCalls, rt.ipnsStore[key.name.String()]
			rt.mu.Unlock()
			if after != before+1 {
				k.Fail("ipns/put-not-delegated", "accepted PUT reaches the delegate exactly once", "1 call", fmt.Sprint(after-before))
				break
			}
			if !bytes.Equal(stored, b) {
				k.Fail("ipns/put-bytes-differ/"+key.kind, "record handed to the delegate == record sent", fmt.Sprintf("%x", b), fmt.Sprintf("%x", stored))
				break
			}
			model[ki] = b
			sawValid = true
		case op < 65: // invalid PUT
			kinds := []string{"sig-flip", "data-flip", "wrong-name", "expired", "no-sigv2", "garbage", "empty", "truncated"}
			if key.kind == "rsa" || key.kind == "ecdsa" {
				kinds = append(kinds, "pubkey-swap", "pubkey-missing")
			}
			kind := vlib.Pick(r, kinds)
			target := key.name
			var b []byte
			switch kind {
			case "sig-flip":
				b = tamper(mkValid(ki, farFuture), func(pb *ipns_pb.IpnsRecord) {
					s := append([]byte(nil), pb.SignatureV2...)
					s[r.Intn(len(s))] ^= 1 << uint(r.Intn(8))
					pb.SignatureV2 = s
				})
			case "data-flip":
				b = tamper(mkValid(ki, farFuture), func(pb *ipns_pb.IpnsRecord) {
					// change one character of the value path inside the signed CBOR (length-preserving)
					d := append([]byte(nil), pb.Data...)
					j := bytes.Index(d, []byte("/ip"))
					if j < 0 {
						panic("value path not found in CBOR data")
					}
					if d[j+3] == 'f' {
						d[j+3] = 'n'
					} else {
						d[j+3] = 'f'
					}
					pb.Data = d
				})
			case "wrong-name":
				var other int
				for {
					other = r.Intn(len(keyPool))
					if other != ki {
						break
					}
				}
				b = mkValid(other, farFuture)
				kd += fmt.Sprintf(" record-of key#%d(%s)", other, keyPool[other].kind)
			case "expired":
				b = mkValid(ki, longPast)
			case "no-sigv2":
				b = tamper(mkValid(ki, farFuture), func(pb *ipns_pb.IpnsRecord) { pb.SignatureV2 = nil })
			case "garbage":
				b = r.Bytes(r.Range(1, 300))
			case "empty":
				b = nil
			case "truncated":
				v := mkValid(ki, farFuture)
				b = v[:r.Range(1, len(v)-1)]
			case "pubkey-swap":
				var other int
				for {
					other = r.Intn(len(keyPool))
					if other != ki && keyPool[other].kind == key.kind || (other != ki && r.Chance(1, 4)) {
						break
					}
				}
				pkb, err := crypto.MarshalPublicKey(keyPool[other].sk.GetPublic())
				must(err)
				b = tamper(mkValid(ki, farFuture), func(pb *ipns_pb.IpnsRecord) { pb.PubKey = pkb })
			case "pubkey-missing":
				b = tamper(mkValid(ki, farFuture), func(pb *ipns_pb.IpnsRecord) { pb.PubKey = nil })
			}
			// through the boxo client when the bytes parse structurally, else raw
			rec, perr := ipns.UnmarshalRecord(b)
			viaRaw := perr != nil || r.Chance(1, 2)
			k.Logf("PUT invalid(%s) %s len=%d raw=%v", kind, kd, len(b), viaRaw)
			rt.mu.Lock()
			before := rt.putCalls
			rt.mu.Unlock()
			accepted := ""
			if viaRaw {
				code, _ := rawPut(target, b)
				if code == 200 {
					accepted = "HTTP 200"
				}
			} else {
				if err := cl.PutIPNS(ctx, target, rec); err == nil {
					accepted = "client.PutIPNS returned nil"
				}
			}
			rt.mu.Lock()
			after := rt.putCalls
			rt.mu.Unlock()
			c.Count("ipns_put_invalid", 1)
			c.Count("ipns_put_invalid_"+kind, 1)
			if accepted != "" || after != before {
				k.Fail("ipns/put-invalid-accepted/"+kind, "an invalid record is rejected on PUT and never reaches the delegate",
					"non-200, 0 delegate calls", fmt.Sprintf("%s, %d delegate calls", accepted, after-before))
				break
			}
			sawReject = true
		case op < 90: // GET
			k.Logf("GET %s", kd)
			rec, err := cl.GetIPNS(ctx, key.name)
			c.Count("ipns_get", 1)
			want, ok := model[ki]
			switch {
			case !ok:
				if err == nil {
					k.Fail("ipns/get-phantom", "GET of a name never stored fails", "routing.ErrNotFound", "a record")
				} else if !errors.Is(err, routing.ErrNotFound) {
					k.Fail("ipns/get-absent-error", "GET of a name never stored reports not found", "routing.ErrNotFound", err.Error())
				}
			case err != nil:
				k.Fail("ipns/get-stored-fails/"+key.kind, "a stored valid record round-trips through GET", "record", err.Error())
			default:
				got, merr := ipns.MarshalRecord(rec)
				must(merr)
				if !bytes.Equal(got, want) {
					k.Fail("ipns/get-bytes-differ/"+key.kind, "GET returns the record last accepted by PUT", fmt.Sprintf("%x", want), fmt.Sprintf("%x", got))
				} else {
					sawGet = true
				}
			}
		default: // GET where the delegate answers with a record that is not valid for the name
			kind := vlib.Pick(r, []string{"wrong-name", "expired", "sig-flip"})
			var b []byte
			switch kind {
			case "wrong-name":
				var other int
				for {
					other = r.Intn(len(keyPool))
					if other != ki {
						break
					}
				}
				b = mkValid(other, farFuture)
			case "expired":
				b = mkValid(ki, longPast)
			case "sig-flip":
				b = tamper(mkValid(ki, farFuture), func(pb *ipns_pb.IpnsRecord) {
					s := append([]byte(nil), pb.SignatureV2...)
					s[0] ^= 0x40
					pb.SignatureV2 = s
				})
			}
			k.Logf("GET %s while the delegate serves an invalid(%s) record", kd, kind)
			rt.mu.Lock()
			rt.ipnsHostile[key.name.String()] = b
			rt.mu.Unlock()
			rec, err := cl.GetIPNS(ctx, key.name)
			rt.mu.Lock()
			delete(rt.ipnsHostile, key.name.String())
			rt.mu.Unlock()
			c.Count("ipns_get_hostile", 1)
			if err == nil || rec != nil {
				k.Fail("ipns/get-invalid-accepted/"+kind, "client.GetIPNS validates the record against the name (doc comment)", "error, no record", fmt.Sprintf("err=%v record=%v", err, rec != nil))
			}
		}
	}
	if sawValid && sawReject && sawGet {
		k.Nontrivial()
	}
}

// ---------------------------------------------------------------- main

func main() { vlib.Run("C42", run) }

func run(c *vlib.Ctx) {
	c.Rule("filters/case: per case 0-30 peer/bitswap records (0-6 addrs from 14 multiaddr templates, 0-3 protocols incl. mixed case, extra fields, repeated peers), server limits 0..40 for JSON and NDJSON, 4-8 GET requests {providers,peers} x {server-raw, client-nolocal, client-local, client-dumb} x Accept variants with filter-addrs (positive, !negated, unknown, unregistered names) and filter-protocols (names, unknown, client default); stratum `case` upper-cases exactly one kind of filter term; ipns: histories of 6-14 PUT(valid | 10 kinds of invalid)/GET/hostile-GET over 2-3 keys of {ed25519, rsa, secp256k1, ecdsa}; unkschema: /providers lists with ~1/3 unknown-schema records (arbitrary extra fields, long values) interleaved with peer/bitswap records, each request fetched as JSON and as NDJSON with the same limit through one of the 4 points, all results retained until the stream is read and closed; distinct = FNV of config+records+requests; non-trivial (filters) = the case has a request whose reference drops a record, one that trims an address list, one capped by the limit, and both encodings; (unkschema) = >= 2 unknown records served, an NDJSON response delivering an unknown record followed/preceded by other records, and an identical JSON/NDJSON pair; (ipns) = an accepted PUT, a rejected PUT and a byte-identical GET")
	initPools()
	fr = newFront()
	defer fr.srv.Close()
	c.Cases("filters", c.N(300, 9000), filterCase(false))
	c.Cases("case", c.N(60, 1500), filterCase(true))
	c.Cases("unkschema", c.N(120, 3000), unknownCase)
	c.Cases("ipns", c.N(80, 2000), ipnsCase)
}
