// Stratum unkschema: /providers lists in which records of a schema the library
// does not know are interleaved with peer/bitswap records. IPIP-484 says
// nothing about filtering such records, so the oracle demands only what the
// statement gives for them:
//
//	integrity  an unknown record that is delivered carries exactly the JSON
//	           object the delegate served for it (compared canonicalised,
//	           identified by its Tag field), after the whole stream was read
//	order      delivered records appear in the delegate's order
//	modes      the same request answered as JSON and as NDJSON (same limit)
//	           yields the same list
//	known      every delivered peer record is one the IPIP-484 reference keeps,
//	           with the reference's address list
//	cap        at most `limit` records
//
// Whether unknown records pass the filters or count towards the limit is not
// judged (counted in evidence against the pass-through model only).
package main

import (
	"encoding/json"
	"fmt"
	"net/http"
	"time"

	"github.com/ipfs/boxo/routing/http/server"
	"github.com/prometheus/client_golang/prometheus"

	"verif/vlib"
)

func genUnknownRaw(r *vlib.Rand, schema, tag string) string {
	m := map[string]any{"Schema": schema, "Tag": tag}
	if r.Chance(1, 2) {
		m["ID"] = peerPool[r.Intn(30)].String()
	}
	if r.Chance(1, 2) {
		var as []string
		for i, n := 0, r.Range(0, 4); i < n; i++ {
			as = append(as, mkAddr(r, r.Intn(len(addrTemplates)), false).s)
		}
		m["Addrs"] = as
	}
	if r.Chance(1, 3) {
		m["Protocols"] = []string{vlib.Pick(r, protoVocab)}
	}
	word := func(n int) string {
		b := make([]byte, n)
		for i := range b {
			b[i] = "abcdefghijklmnopqrstuvwxyz0123456789"[r.Intn(36)]
		}
		return string(b)
	}
	for i, n := 0, r.Range(0, 4); i < n; i++ {
		key := "X" + word(r.Range(1, 6))
		switch r.Intn(4) {
		case 0:
			m[key] = r.Intn(100000)
		case 1:
			m[key] = word(r.Range(0, 400)) // long values make the stream decoder's buffer slide
		case 2:
			m[key] = map[string]any{"a": r.Intn(10), "b": []int{r.Intn(5), r.Intn(5)}, "c": word(r.Range(0, 40))}
		default:
			m[key] = []any{word(3), r.Intn(9), nil, true}
		}
	}
	b, err := json.Marshal(m)
	must(err)
	return string(b)
}

func unknownCase(k *vlib.Case) {
	r := k.R
	c := k.C
	recs := genRecords(r)
	if len(recs) < 3 {
		recs = append(recs, genRecords(r)...)
	}
	if len(recs) > 30 {
		recs = recs[:30]
	}
	// unique peers (identity of a delivered known record), about a third unknown-schema
	perm := r.Perm(30)
	for i := range recs {
		recs[i].idx = perm[i]
		recs[i].tag = fmt.Sprintf("r%d", i)
		if r.Chance(1, 3) {
			schema := vlib.Pick(r, []string{"future-v2", "x-custom", "Peer", "provider", ""})
			recs[i] = recSpec{tag: recs[i].tag, idx: perm[i], unknown: true, schema: schema}
			recs[i].raw = genUnknownRaw(r, schema, recs[i].tag)
		}
	}
	limit := genLimit(r, len(recs))
	k.Logf("server WithRecordsLimit(%d) WithStreamingRecordsLimit(%d)", limit, limit)
	srcIndex := map[string]int{}
	served := map[string]string{}
	nUnknown := 0
	for i, rs := range recs {
		if rs.unknown {
			k.Logf("record %s unknown-schema %q %s", rs.tag, rs.schema, rs.raw)
			canon, ok := canonJSON([]byte(rs.raw))
			if !ok {
				panic("harness generated a non-JSON unknown record")
			}
			served[rs.tag] = canon
			srcIndex["tag:"+rs.tag] = i
			nUnknown++
		} else {
			k.Logf("record %s", rs)
			srcIndex["id:"+peerPool[rs.idx].String()] = i
		}
	}
	var known []recSpec
	for _, rs := range recs {
		if !rs.unknown {
			known = append(known, rs)
		}
	}
	rt := &router{recs: recs, ipnsStore: map[string][]byte{}}
	real := server.Handler(rt, server.WithRecordsLimit(limit), server.WithStreamingRecordsLimit(limit),
		server.WithPrometheusRegistry(prometheus.NewRegistry()))

	sawUnknownND, sawPair := false, false
	for q, nq := 0, r.Range(2, 4); q < nq; q++ {
		fe := genFilter(r, known, "")
		if r.Chance(1, 3) {
			fe = filterExpr{protoSet: true} // explicitly no filters: everything is delivered
		}
		point := vlib.Pick(r, []string{"server-raw", "client-nolocal", "client-nolocal", "client-local", "client-local", "client-dumb"})
		keyIdx := r.Intn(30)
		addrF, protoF := fe.addr, fe.proto
		if !fe.addrSet {
			addrF = nil
		}
		if !fe.protoSet {
			protoF = nil
			if point != "server-raw" {
				protoF = []string{"unknown", "transport-bitswap"}
			}
		}
		expA, _, _ := refFilter(known, addrF, protoF, true)
		expB, _, _ := refFilter(known, addrF, protoF, false)
		keptA, keptB := map[string]obsRec{}, map[string]obsRec{}
		for _, o := range expA {
			keptA[o.ID] = o
		}
		for _, o := range expB {
			keptB[o.ID] = o
		}
		effLimit := limit
		if point == "client-dumb" {
			effLimit = 0
		}

		var lists [2][]obsRec
		okBoth := true
		for mi, mode := range []string{"json", "ndjson"} {
			k.Logf("GET providers via %s as %s filter-addrs=%v(set=%v) filter-protocols=%v(set=%v) limit=%d key=%d",
				point, mode, fe.addr, fe.addrSet, fe.proto, fe.protoSet, effLimit, keyIdx)
			var pr probeResult
			switch point {
			case "server-raw":
				fr.set(real)
				accept := "application/json"
				if mode == "ndjson" {
					accept = "application/x-ndjson"
				}
				vlib.Guard(k, "raw-request", 120*time.Second, func() {
					pr = rawProbe("providers", cidPool[keyIdx%len(cidPool)].String(), fe, accept, false)
				})
			case "client-nolocal", "client-local":
				fr.set(real)
				vlib.Guard(k, "client-request", 120*time.Second, func() { pr = clientProbe("providers", keyIdx, fe, mode, point == "client-nolocal") })
			case "client-dumb":
				var h http.Handler = dumbHandler(recs, mode == "ndjson", false)
				fr.set(h)
				vlib.Guard(k, "client-request", 120*time.Second, func() { pr = clientProbe("providers", keyIdx, fe, "default", false) })
			}
			c.Count("requests", 1)
			c.Count("requests_unkschema_"+point+"_"+mode, 1)
			where := fmt.Sprintf("%s providers %s", point, mode)
			if pr.err != "" {
				k.Fail("unkschema/"+point+"/request-error", where+": request succeeds", "200 + records", pr.err)
				okBoth = false
				continue
			}
			if pr.itemErr != "" {
				k.Fail("unkschema/"+point+"/bad-item", where+": every item is a record", "records", pr.itemErr)
				okBoth = false
				continue
			}
			if point == "server-raw" && pr.mode != mode {
				k.Fail("server-raw/mode-negotiation", where+": encoding follows Accept", mode, pr.mode)
				okBoth = false
				continue
			}
			lists[mi] = pr.recs

			// integrity, order, known, cap
			last := -1
			bad := false
			unknownSeen := 0
			for pos, o := range pr.recs {
				var idx int
				var have bool
				if o.Unknown {
					unknownSeen++
					var m map[string]any
					tag := ""
					if json.Unmarshal([]byte(o.Raw), &m) == nil {
						tag, _ = m["Tag"].(string)
					}
					want, ok := served[tag]
					if !ok || want != o.Raw {
						exp := "one of the served unknown records"
						if ok {
							exp = want
						}
						k.Fail("unkschema/"+point+"/unknown-record-corrupted/"+mode, where+": a delivered unknown-schema record carries the JSON the delegate served",
							exp, fmt.Sprintf("item %d: %s", pos, o.Raw))
						bad = true
						break
					}
					idx, have = srcIndex["tag:"+tag]
				} else {
					ea, okA := keptA[o.ID]
					eb, okB := keptB[o.ID]
					if !(okA && eqRec(ea, o)) && !(okB && eqRec(eb, o)) {
						exp := "not delivered (dropped by the filters)"
						if okA {
							exp = ea.String()
						}
						k.Fail("unkschema/"+point+"/known-record/"+mode, where+": a delivered peer record is what the IPIP-484 reference keeps", exp, fmt.Sprintf("item %d: %s", pos, o))
						bad = true
						break
					}
					idx, have = srcIndex["id:"+o.ID]
				}
				if !have || idx <= last {
					k.Fail("unkschema/"+point+"/order/"+mode, where+": records are delivered in the delegate's order (no repeats)",
						fmt.Sprintf("source index > %d", last), fmt.Sprintf("item %d has source index %d (known=%v): %s", pos, idx, have, listString(pr.recs)))
					bad = true
					break
				}
				last = idx
			}
			if !bad && effLimit > 0 && len(pr.recs) > effLimit {
				k.Fail("unkschema/"+point+"/limit-exceeded/"+mode, where+": at most limit records", fmt.Sprint(effLimit), fmt.Sprint(len(pr.recs)))
				bad = true
			}
			if bad {
				okBoth = false
				continue
			}
			c.Count("unkschema_unknown_records_delivered_intact", int64(unknownSeen))
			if mode == "ndjson" && unknownSeen > 0 && len(pr.recs) > 1 {
				sawUnknownND = true
			}
			// evidence only: the pass-through model (unknown records unfiltered, counted by the limit)
			var model []obsRec
			for _, rs := range recs {
				if rs.unknown {
					model = append(model, obsRec{Unknown: true, Schema: rs.schema, Raw: served[rs.tag]})
				} else if o, ok := keptA[peerPool[rs.idx].String()]; ok {
					model = append(model, o)
				}
			}
			if eqList(take(model, effLimit), pr.recs) {
				c.Count("unkschema_responses_equal_to_pass-through_model", 1)
			} else {
				c.Count("unkschema_responses_other_admissible", 1)
			}
		}
		if okBoth {
			if !eqList(lists[0], lists[1]) {
				k.Fail("unkschema/"+point+"/modes-differ", point+" providers: JSON and NDJSON deliver the same list",
					"json: "+listString(lists[0]), "ndjson: "+listString(lists[1]))
			} else {
				sawPair = true
				c.Count("unkschema_json_ndjson_pairs_identical", 1)
			}
		}
	}
	if sawUnknownND && sawPair && nUnknown >= 2 {
		k.Nontrivial()
	}
}
