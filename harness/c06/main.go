// C06: every chunker spec form accepted by chunk.FromString is executed on
// generated inputs through several read-fragmentation patterns; a monitor
// observes every NextBytes result online (content, emptiness, size bounds,
// EOF behaviour) and compares the boundary sequences across fragmentations.
package main

import (
	"bytes"
	"errors"
	"fmt"
	"io"
	"strings"

	chunk "github.com/ipfs/boxo/chunker"

	"verif/vlib"
)

func main() { vlib.Run("C06", run) }

// ---------------------------------------------------------------- spec model

// spec is a spec string together with what the *documentation* of the form
// promises (computed here, not read from the implementation).
type spec struct {
	s        string
	form     string // default | size | rabin | rabin-avg | rabin-mam | buzhash
	min, max int    // bounds promised for all chunks but the last (size-N: min==max==N); max is also applied to the last chunk under its own class
	avgLt48  bool   // rabin-N with N/3 < 16 (known defect trigger)
}

const (
	buzMin = 128 << 10
	buzMax = 512 << 10
)

func sizeSpec(n int) spec {
	return spec{s: fmt.Sprintf("size-%d", n), form: "size", min: n, max: n}
}
func rabinAvgSpec(n int) spec {
	return spec{s: fmt.Sprintf("rabin-%d", n), form: "rabin-avg", min: n / 3, max: n + n/2, avgLt48: n/3 < 16}
}
func rabinMAMSpec(r *vlib.Rand, mn, avg, mx int) spec {
	var s string
	switch r.Intn(4) {
	case 0:
		s = fmt.Sprintf("rabin-%d-%d-%d", mn, avg, mx)
	case 1:
		s = fmt.Sprintf("rabin-min:%d-avg:%d-max:%d", mn, avg, mx)
	case 2:
		s = fmt.Sprintf("rabin-min:%d-%d-max:%d", mn, avg, mx)
	default:
		s = fmt.Sprintf("rabin-%d-avg:%d-%d", mn, avg, mx)
	}
	return spec{s: s, form: "rabin-mam", min: mn, max: mx}
}

var sizeGrid = []int{1, 2, 3, 15, 16, 17, 47, 48, 255, 256, 1000, 4096, 65535, 65536, 262144, 1 << 20, chunk.ChunkSizeLimit - 1, chunk.ChunkSizeLimit}
var rabinAvgGrid = []int{48, 49, 50, 63, 64, 65, 100, 127, 128, 1000, 1024, 4096, 65536, 262144, 1397930, 1397931}
var rabinLt48Grid = []int{0, 1, 2, 15, 16, 17, 30, 46, 47}

func genSpec(r *vlib.Rand, stratum string) spec {
	switch stratum {
	case "size":
		if r.Chance(2, 3) {
			return sizeSpec(vlib.Pick(r, sizeGrid))
		}
		switch r.Intn(3) {
		case 0:
			return sizeSpec(r.Range(1, 64))
		case 1:
			return sizeSpec(r.Range(65, 70000))
		default:
			return sizeSpec(r.Range(70001, chunk.ChunkSizeLimit))
		}
	case "default":
		d := int(chunk.DefaultBlockSize)
		return spec{s: vlib.Pick(r, []string{"", "default"}), form: "default", min: d, max: d}
	case "rabin":
		d := int(chunk.DefaultBlockSize)
		return spec{s: "rabin", form: "rabin", min: d / 3, max: d + d/2}
	case "rabin-avg":
		if r.Chance(2, 3) {
			return rabinAvgSpec(vlib.Pick(r, rabinAvgGrid))
		}
		switch r.Intn(3) {
		case 0:
			return rabinAvgSpec(r.Range(48, 400))
		case 1:
			return rabinAvgSpec(r.Range(401, 100000))
		default:
			return rabinAvgSpec(r.Range(100001, 1397931))
		}
	case "rabin-mam":
		mn := vlib.Pick(r, []int{16, 16, 17, 18, 31, 32, 33, 64, 1000, 4096})
		if r.Chance(1, 4) {
			mn = r.Range(16, 300000)
		}
		var avg, mx int
		switch r.Intn(4) {
		case 0: // tight
			avg, mx = mn+1, mn+2
		case 1:
			avg = mn + r.Range(1, 64)
			mx = avg + r.Range(1, 64)
		case 2:
			avg = mn * 2
			mx = mn * 4
		default:
			avg = mn + r.Range(1, 5000)
			mx = avg + r.Range(1, 200000)
		}
		if r.Chance(1, 12) {
			mx = chunk.ChunkSizeLimit - r.Intn(2)
		}
		if mx > chunk.ChunkSizeLimit {
			mx = chunk.ChunkSizeLimit
		}
		return rabinMAMSpec(r, mn, avg, mx)
	case "buzhash":
		return spec{s: vlib.Pick(r, []string{"buzhash", "buzhash", "buzhash-x"}), form: "buzhash", min: buzMin, max: buzMax}
	case "rabin-lt48":
		return rabinAvgSpec(vlib.Pick(r, rabinLt48Grid))
	}
	panic("unknown stratum " + stratum)
}

// ---------------------------------------------------------------- inputs

type input struct {
	kind string
	data []byte
}

func genInput(r *vlib.Rand, n int) input {
	data := make([]byte, n)
	kind := ""
	switch r.Intn(6) {
	case 0, 1:
		kind = "random"
		copy(data, r.Bytes(n))
	case 2:
		b := byte(r.Intn(256))
		if r.Chance(1, 3) {
			b = 0
		}
		kind = fmt.Sprintf("constant(%#02x)", b)
		for i := range data {
			data[i] = b
		}
	case 3:
		p := vlib.Pick(r, []int{2, 3, 7, 16, 17, 31, 32, 33, 64, 255, 256, 1000, 4096})
		pat := r.Bytes(p)
		kind = fmt.Sprintf("periodic(%d)", p)
		for i := range data {
			data[i] = pat[i%p]
		}
	case 4:
		// random with long constant runs (forces max-size cuts next to content cuts)
		kind = "random+runs"
		copy(data, r.Bytes(n))
		for runs := r.Range(1, 4); runs > 0 && n > 0; runs-- {
			a := r.Intn(n)
			l := r.Range(1, n/2+1)
			b := byte(r.Intn(3))
			for i := a; i < n && i < a+l; i++ {
				data[i] = b
			}
		}
	default:
		// low-entropy text
		kind = "text"
		words := []string{"the ", "quick ", "brown ", "fox\n", "ipfs ", "0000000000000000", "chunk "}
		i := 0
		for i < n {
			i += copy(data[i:], vlib.Pick(r, words))
		}
	}
	return input{kind, data}
}

// genLen picks an input length around the spec's bounds.
func genLen(r *vlib.Rand, sp spec, big bool) int {
	mn, mx := sp.min, sp.max
	if mx < 1 {
		mx = 1
	}
	// cap on bytes and on the number of chunks (tiny chunk sizes)
	capBytes := 3 << 20
	if raceEnabled {
		// the race detector slows the byte loops ~10x: smaller inputs (still
		// >= 3*max for buzhash/rabin/default), the *-big strata keep full size
		capBytes = 1<<20 + 1<<19 + 1<<17
	}
	if big {
		capBytes = 6<<20 + 1<<19
	}
	perChunk := mn
	if perChunk < 1 {
		perChunk = 1
	}
	if c := perChunk * 60000; c < capBytes {
		capBytes = c
	}
	if sp.avgLt48 {
		// stratum of the known defect: lengths around the promised max, far
		// above it, and above ChunkSizeLimit
		return vlib.Pick(r, []int{0, 1, mx - 1, mx, mx + 1, 2 * mx, 1000, 300000, chunk.ChunkSizeLimit, chunk.ChunkSizeLimit + 1, 3 << 20})
	}
	var n int
	switch r.Intn(12) {
	case 0:
		n = vlib.Pick(r, []int{0, 0, 1, 2})
	case 1:
		n = mn + r.Range(-1, 1)
	case 2:
		n = mx + r.Range(-1, 1)
	case 3:
		n = 2*mx + r.Range(-1, 1)
	case 4:
		n = 3*mx + r.Range(-1, 1)
	case 5:
		n = r.Range(2, 9)*mx + r.Range(-1, 1)
	case 6, 7:
		n = 3*mx + r.Intn(5*mx+1)
	case 8:
		n = r.Intn(3*mx + 1)
	default:
		n = 3*mx + r.Intn(mx+1)
	}
	if n < 0 {
		n = 0
	}
	if n > capBytes {
		n = capBytes - r.Intn(3)
	}
	return n
}

// ---------------------------------------------------------------- readers

// fragReader serves data with a chosen fragmentation pattern. After the end
// it keeps returning (0, io.EOF).
type fragReader struct {
	data      []byte
	off       int
	mode      string // plain | one | short | tiny-then-big
	maxShort  int
	eofWith   bool // return io.EOF together with the last bytes
	zeroReads bool // intersperse (0,nil) results
	lastZero  bool
	r         *vlib.Rand
	calls     int64
	endErr    error // what the end of data reports (nil = io.EOF); fault strata set a non-EOF error
}

func (f *fragReader) Read(p []byte) (int, error) {
	f.calls++
	if len(p) == 0 {
		return 0, nil
	}
	end := io.EOF
	if f.endErr != nil {
		end = f.endErr
	}
	if f.off >= len(f.data) {
		return 0, end
	}
	if f.zeroReads && !f.lastZero && f.r.Chance(1, 5) {
		f.lastZero = true
		return 0, nil
	}
	f.lastZero = false
	n := len(p)
	switch f.mode {
	case "one":
		n = 1
	case "short":
		n = f.r.Range(1, f.maxShort)
	case "tiny-then-big":
		if f.r.Bool() {
			n = f.r.Range(1, 3)
		}
	}
	if n > len(p) {
		n = len(p)
	}
	if rem := len(f.data) - f.off; n > rem {
		n = rem
	}
	copy(p, f.data[f.off:f.off+n])
	f.off += n
	if f.eofWith && f.off == len(f.data) {
		return n, end
	}
	return n, nil
}

func (f *fragReader) String() string {
	s := f.mode
	if f.mode == "short" {
		s += fmt.Sprintf("(1..%d)", f.maxShort)
	}
	if f.eofWith {
		s += "+eof-with-data"
	}
	if f.zeroReads {
		s += "+zero-reads"
	}
	return s
}

func genReaders(r *vlib.Rand, data []byte) []*fragReader {
	rs := []*fragReader{{data: data, mode: "plain"}}
	n := r.Range(2, 4)
	for i := 0; i < n; i++ {
		f := &fragReader{data: data, r: r.Fork(fmt.Sprintf("reader-%d", i))}
		switch r.Intn(5) {
		case 0:
			f.mode = "one"
			if len(data) > 1<<20 && r.Chance(2, 3) {
				f.mode = "short"
				f.maxShort = 64
			}
		case 1:
			f.mode = "short"
			f.maxShort = vlib.Pick(r, []int{2, 7, 16, 100, 4096, 65537, 200000, 600000})
		case 2:
			f.mode = "tiny-then-big"
		case 3:
			f.mode = "plain"
			f.eofWith = true
		default:
			f.mode = "short"
			f.maxShort = vlib.Pick(r, []int{3, 1000, 131072, 524288})
		}
		if f.mode != "plain" || !f.eofWith {
			f.eofWith = f.eofWith || r.Chance(1, 3)
		}
		f.zeroReads = r.Chance(1, 4)
		rs = append(rs, f)
	}
	return rs
}

// ---------------------------------------------------------------- monitor

// observe runs one splitter to the end under the step cap and checks every
// result online. It returns the chunk lengths; ok=false when the sequence
// could not be completed (the case has failed).
func observe(k *vlib.Case, sp spec, in []byte, fr *fragReader, classSuffix string) (lens []int, ok bool) {
	s, err := chunk.FromString(fr, sp.s)
	if (s == nil) == (err == nil) {
		k.Fail("parse-result"+classSuffix, "FromString returns exactly one of splitter, error", "splitter xor error", fmt.Sprintf("splitter=%v err=%v", s != nil, err))
		return nil, false
	}
	if err != nil {
		// The statement quantifies over *accepted* specs: a rejected one is
		// vacuous, not a violation. It is counted (and the case cannot become
		// non-trivial), so a parser that rejects everything shows up as
		// "observed nothing" instead of as a pass.
		k.Logf("  rejected: %v", err)
		k.C.Count("documented_form_rejected/"+sp.form, 1)
		return nil, false
	}
	k.C.Count("splitter_runs", 1)
	off := 0
	stepCap := len(in) + 2
	var kept [][]byte
	keptBytes := 0
	for step := 0; ; step++ {
		if step >= stepCap {
			k.Fail("no-progress"+classSuffix, "terminates within len+2 NextBytes calls", fmt.Sprintf("EOF within %d calls", stepCap), fmt.Sprintf("%d calls, %d/%d bytes emitted", step, off, len(in)))
			return lens, false
		}
		b, err := s.NextBytes()
		if err != nil {
			if err != io.EOF {
				k.Fail("unexpected-error"+classSuffix, "only io.EOF ends the stream of a non-failing reader", "io.EOF", err.Error())
				return lens, false
			}
			if len(b) != 0 {
				k.Fail("data-with-eof"+classSuffix, "no chunk is returned together with io.EOF", "nil chunk", fmt.Sprintf("%d bytes", len(b)))
				return lens, false
			}
			break
		}
		if len(b) == 0 {
			k.Fail("empty-chunk"+classSuffix, "no chunk is empty", "len>0", fmt.Sprintf("empty chunk at call %d, offset %d/%d (reader %s)", step, off, len(in), fr))
			return lens, false
		}
		if off+len(b) > len(in) || !bytes.Equal(b, in[off:off+len(b)]) {
			k.Fail("content"+classSuffix, "concat(chunks)==input", fmt.Sprintf("input[%d:%d]", off, off+len(b)), describeMismatch(b, in, off)+" (reader "+fr.String()+")")
			return lens, false
		}
		if keptBytes < 4<<20 && len(kept) < 5000 {
			kept = append(kept, b)
			keptBytes += len(b)
		}
		off += len(b)
		lens = append(lens, len(b))
	}
	if off != len(in) {
		k.Fail("truncated"+classSuffix, "concat(chunks)==input", fmt.Sprintf("%d bytes", len(in)), fmt.Sprintf("%d bytes in %d chunks then io.EOF (reader %s)", off, len(lens), fr))
		return lens, false
	}
	// chunks handed out earlier must still hold the input bytes (no buffer reuse)
	o := 0
	for i, b := range kept {
		if !bytes.Equal(b, in[o:o+len(b)]) {
			k.Fail("chunk-aliased"+classSuffix, "concat(chunks)==input (chunks keep their bytes after later calls)", fmt.Sprintf("chunk %d unchanged", i), describeMismatch(b, in, o))
			break
		}
		o += len(b)
	}
	// after the end nothing more is emitted
	for j := 0; j < 2; j++ {
		b, err := s.NextBytes()
		if err == nil || len(b) != 0 {
			k.Fail("emits-after-eof"+classSuffix, "concat(chunks)==input (nothing emitted after io.EOF)", "error, no chunk", fmt.Sprintf("len=%d err=%v", len(b), err))
			break
		}
	}
	return lens, true
}

func describeMismatch(b, in []byte, off int) string {
	if off+len(b) > len(in) {
		return fmt.Sprintf("chunk of %d bytes at offset %d overruns input of %d bytes", len(b), off, len(in))
	}
	for i := range b {
		if b[i] != in[off+i] {
			return fmt.Sprintf("chunk at offset %d len %d differs first at +%d: got %#02x want %#02x", off, len(b), i, b[i], in[off+i])
		}
	}
	return "equal"
}

// checkBounds evaluates the size clauses over a complete chunk-length
// sequence. featureClass prefixes the class with the trigger feature of the
// known defect so that it cannot mask anything else.
func checkBounds(k *vlib.Case, sp spec, lens []int, fr *fragReader, pre string) {
	for i, l := range lens {
		last := i == len(lens)-1
		if l > chunk.ChunkSizeLimit {
			k.Fail(pre+"size-limit", "no chunk exceeds ChunkSizeLimit", fmt.Sprintf("<= %d", chunk.ChunkSizeLimit), fmt.Sprintf("chunk %d/%d has %d bytes (reader %s)", i, len(lens), l, fr))
			return
		}
		if !last {
			if l > sp.max {
				k.Fail(pre+"max-size", "every chunk but the last <= max of the spec", fmt.Sprintf("<= %d", sp.max), fmt.Sprintf("chunk %d/%d has %d bytes (reader %s)", i, len(lens), l, fr))
				return
			}
			if l < sp.min {
				k.Fail(pre+"min-size", "every chunk but the last >= min of the spec", fmt.Sprintf(">= %d", sp.min), fmt.Sprintf("chunk %d/%d has %d bytes (reader %s)", i, len(lens), l, fr))
				return
			}
		} else if l > sp.max {
			// The statement exempts the last chunk from min/max; a last chunk
			// above max is reported under its own class (see report).
			k.Fail(pre+"last-exceeds-max", "the last chunk is a remainder: <= max of the spec", fmt.Sprintf("<= %d", sp.max), fmt.Sprintf("last chunk (%d/%d) has %d bytes (reader %s)", i, len(lens), l, fr))
			return
		}
	}
}

func fmtLens(l []int) string {
	if len(l) <= 12 {
		return fmt.Sprint(l)
	}
	return fmt.Sprintf("%v … %v (%d chunks)", l[:6], l[len(l)-4:], len(l))
}

func sameInts(a, b []int) bool {
	if len(a) != len(b) {
		return false
	}
	for i := range a {
		if a[i] != b[i] {
			return false
		}
	}
	return true
}

func firstDiff(a, b []int) string {
	n := len(a)
	if len(b) < n {
		n = len(b)
	}
	off := 0
	for i := 0; i < n; i++ {
		if a[i] != b[i] {
			return fmt.Sprintf("chunk %d at offset %d: %d vs %d bytes", i, off, a[i], b[i])
		}
		off += a[i]
	}
	return fmt.Sprintf("chunk counts %d vs %d", len(a), len(b))
}

// ---------------------------------------------------------------- cases

func oneCase(stratum string, big bool) func(k *vlib.Case) {
	return func(k *vlib.Case) {
		r := k.R
		sp := genSpec(r, stratum)
		n := genLen(r, sp, big)
		in := genInput(r, n)
		readers := genReaders(r, in.data)
		k.Logf("spec %q form=%s promised min=%d max=%d", sp.s, sp.form, sp.min, sp.max)
		k.Logf("input kind=%s len=%d", in.kind, len(in.data))
		var ref []int
		completed := 0
		for i, fr := range readers {
			k.Logf("reader[%d] %s", i, fr)
			lens, ok := observe(k, sp, in.data, fr, "")
			k.C.Count("nextbytes_results", int64(len(lens)))
			k.C.Count("reader_read_calls", fr.calls)
			if !ok {
				if lens == nil && !k.Failed() {
					break // rejected by the parser: nothing to observe
				}
				continue
			}
			completed++
			checkBounds(k, sp, lens, fr, "")
			if i == 0 {
				ref = lens
				k.Logf("  -> %d chunks %s", len(lens), fmtLens(lens))
				k.C.Max("max_chunks_in_one_input", int64(len(lens)))
				continue
			}
			if ref != nil && !sameInts(ref, lens) {
				k.Fail("fragmentation-dependent", "boundaries identical across reader fragmentations", "plain: "+fmtLens(ref), fmt.Sprintf("%s: %s; first difference %s", fr, fmtLens(lens), firstDiff(ref, lens)))
			}
		}
		if completed >= 2 && sp.max > 0 && len(in.data) >= 3*sp.max {
			k.Nontrivial()
		}
	}
}

// ---------------------------------------------------------------- reader faults

var errInjected = errors.New("injected read fault: input/output error")

// faultCase: the reader fails with a non-EOF error after k bytes of the
// intended input (k = 0, inside a chunk, on a chunk boundary, in the last
// chunk, random), alone or together with the last good bytes, under a chosen
// fragmentation. Losslessness leaves two acceptable ends of the chunk stream:
// a non-EOF error, or io.EOF after the *complete* intended input. io.EOF after
// a proper prefix is a silently truncated stream.
func faultCase(k *vlib.Case) {
	r := k.R
	stratum := vlib.Pick(r, []string{"size", "size", "size", "default", "rabin", "rabin-avg", "rabin-mam", "rabin-mam", "buzhash"})
	sp := genSpec(r, stratum)
	n := genLen(r, sp, false)
	if n > 1<<20+1<<19 {
		n = 1<<20 + 1<<19 - r.Intn(3)
	}
	if n == 0 && r.Chance(3, 4) {
		n = r.Range(1, 2*sp.max+1)
		if n > 1<<20 {
			n = 1 << 20
		}
	}
	in := genInput(r, n)
	k.Logf("spec %q form=%s promised min=%d max=%d", sp.s, sp.form, sp.min, sp.max)
	k.Logf("intended input kind=%s len=%d", in.kind, len(in.data))
	// chunk boundaries of the healthy stream
	ref, ok := observe(k, sp, in.data, &fragReader{data: in.data, mode: "plain"}, "")
	if !ok {
		return
	}
	at, where := 0, "offset-0"
	if len(ref) > 0 {
		var bounds []int
		o := 0
		for _, l := range ref {
			o += l
			bounds = append(bounds, o)
		}
		switch r.Intn(7) {
		case 0:
		case 1, 2:
			ci := r.Intn(len(ref))
			start := bounds[ci] - ref[ci]
			at, where = start+r.Intn(ref[ci]), "inside-chunk"
			if at == start && ref[ci] > 1 {
				at++
			}
		case 3:
			at, where = bounds[r.Intn(len(bounds))], "chunk-boundary"
		case 4:
			last := len(ref) - 1
			at, where = bounds[last]-ref[last]+r.Intn(ref[last]), "last-chunk"
			if at == bounds[last]-ref[last] && ref[last] > 1 {
				at++
			}
		case 5:
			at, where = len(in.data), "at-end(error instead of EOF)"
		default:
			at, where = r.Intn(len(in.data)+1), "random"
		}
	}
	fr := &fragReader{data: in.data[:at], r: r.Fork("fault-reader"), endErr: errInjected}
	switch r.Intn(4) {
	case 0:
		fr.mode = "plain"
	case 1:
		fr.mode, fr.maxShort = "short", vlib.Pick(r, []int{3, 100, 4096, 200000})
	case 2:
		fr.mode = "tiny-then-big"
	default:
		fr.mode = "one"
		if at > 300000 {
			fr.mode, fr.maxShort = "short", 64
		}
	}
	fr.eofWith = r.Chance(1, 3) // here: the *error* comes together with the last good bytes
	k.Logf("reader %s fails with a non-EOF error after %d bytes (%s)", fr, at, where)
	s, err := chunk.FromString(fr, sp.s)
	if err != nil {
		return
	}
	off, chunks := 0, 0
	for step := 0; ; step++ {
		if step > len(in.data)+2 {
			k.Fail("no-progress/fault", "terminates within len+2 NextBytes calls", "an error", fmt.Sprintf("%d calls", step))
			return
		}
		b, err := s.NextBytes()
		if err != nil {
			k.C.Count("fault_runs", 1)
			if at < len(in.data) {
				k.Nontrivial()
			}
			if err != io.EOF {
				k.C.Count("fault_runs_surfaced_error", 1)
				k.Logf("  -> %d chunks (%d bytes), then error: %v", chunks, off, err)
				return
			}
			if off == len(in.data) {
				k.C.Count("fault_runs_complete_then_eof", 1)
				return
			}
			k.Fail("read-error-swallowed/"+sp.form, "a read error is surfaced, or the complete input is delivered, before io.EOF",
				fmt.Sprintf("non-EOF error (reader failed after %d of %d bytes)", at, len(in.data)),
				fmt.Sprintf("%d chunks = %d bytes, then a clean io.EOF; fault %s, reader %s", chunks, off, where, fr))
			return
		}
		if len(b) == 0 {
			k.Fail("empty-chunk/fault", "no chunk is empty", "len>0", fmt.Sprintf("empty chunk at offset %d", off))
			return
		}
		if off+len(b) > len(in.data) || !bytes.Equal(b, in.data[off:off+len(b)]) {
			k.Fail("content/fault", "emitted chunks are a prefix of the input", fmt.Sprintf("input[%d:%d]", off, off+len(b)), describeMismatch(b, in.data, off))
			return
		}
		off += len(b)
		chunks++
	}
}

// ---------------------------------------------------------------- DefaultBlockSize

// defaultSizeCase: chunk.DefaultBlockSize is documented as modifiable ("to
// change the default for all subsequent chunker operations"). The case sets it
// for its duration (cases run sequentially in the child; restored by defer)
// and checks that the "" and "default" specs cut exactly that size, i.e. the
// same boundaries as size-<value>.
func defaultSizeCase(k *vlib.Case) {
	r := k.R
	v := vlib.Pick(r, []int{1, 16, 1000, 1024, 4096, 65536, 100000, 131072, 262143, 262145, 524288, 1 << 20})
	if r.Chance(1, 4) {
		v = r.Range(1, 1<<20)
	}
	old := chunk.DefaultBlockSize
	chunk.DefaultBlockSize = int64(v)
	defer func() { chunk.DefaultBlockSize = old }()
	name := vlib.Pick(r, []string{"", "default"})
	sp := spec{s: name, form: "default", min: v, max: v}
	n := genLen(r, sp, false)
	if r.Chance(1, 2) {
		n = 3*v + r.Intn(2*v+1)
	}
	if lim := v * 60000; n > lim {
		n = lim
	}
	if n > 3<<20+1<<19 {
		n = 3<<20 + 1<<19
	}
	in := genInput(r, n)
	k.Logf("chunk.DefaultBlockSize=%d (was %d); spec %q", v, old, name)
	k.Logf("input kind=%s len=%d", in.kind, len(in.data))
	fr := &fragReader{data: in.data, mode: "plain"}
	lens, ok := observe(k, sp, in.data, fr, "")
	if !ok {
		return
	}
	k.Logf("  -> %d chunks %s", len(lens), fmtLens(lens))
	checkBounds(k, sp, lens, fr, "default-blocksize/")
	fr2 := &fragReader{data: in.data, mode: "plain"}
	sz := sizeSpec(v)
	lens2, ok := observe(k, sz, in.data, fr2, "")
	if ok && !sameInts(lens, lens2) {
		k.Fail("default-blocksize/differs-from-size-N", "\"default\" cuts like size-<DefaultBlockSize>", sz.s+": "+fmtLens(lens2), fmt.Sprintf("%q: %s; first difference %s", name, fmtLens(lens), firstDiff(lens2, lens)))
	}
	// DefaultSplitter(r) must agree as well
	ds := chunk.DefaultSplitter(bytes.NewReader(in.data))
	var lens3 []int
	for len(lens3) <= len(in.data)+1 {
		b, err := ds.NextBytes()
		if err != nil {
			break
		}
		lens3 = append(lens3, len(b))
	}
	if !sameInts(lens, lens3) {
		k.Fail("default-blocksize/differs-from-DefaultSplitter", "FromString(\"default\") cuts like DefaultSplitter", "DefaultSplitter: "+fmtLens(lens3), fmt.Sprintf("%q: %s", name, fmtLens(lens)))
	}
	if len(in.data) >= 3*v {
		k.Nontrivial()
	}
}

// rejectCase feeds strings outside the documented forms (or with parameters
// outside the documented ranges). The statement only speaks about accepted
// specs, so the only clauses are: FromString returns (splitter, nil) or
// (nil, error) without panicking, and whatever it accepts is lossless,
// non-empty and within ChunkSizeLimit.
var rejectGrid = []string{
	"size", "size-", "size-0", "size--1", "size-abc", "size-1-2", "size-123-extra", "size-2096897", "size-9223372036854775807",
	"size-99999999999999999999", "size-1e3", "size- 5", "Size-5", "rabin-", "rabin-a", "rabin-1-2", "rabin-1-2-3-4",
	"rabin-15-23-31", "rabin-20-20-21", "rabin-19-21-21", "rabin-19-21-2096897", "rabin-1397932", "rabin-2096896",
	"rabin-max:16-avg:32-max:64", "rabin-min:16-max:32-max:64", "rabin-min:16-avg:32-avg:64", "rabin-min:-avg:32-max:64",
	"rabin-16-32-", "rabin--32-64", "foo", "foo-1", "-", "--", "default-1", "buzhashx", "rabinx-64", "sizes-5",
	"rabin-0-0-0", "rabin-16-16-16", "rabin-17-16-18", "rabin-99999999999999999999", "rabin-16-32-99999999999999999999",
}
var overflowGrid = []string{"rabin-9223372036854775807", "rabin-7000000000000000000", "rabin-6148914691236517206"}

// limitGrid: parameters one step (or far) beyond the documented maximum. On
// the unchanged tree all are rejected; if a parser change accepts one, the
// splitter is driven with a >2 MiB low-entropy input, which is what makes a
// content-defined chunker run to its max size.
var limitGrid = []string{
	"size-2096897", "size-2097152", "size-3000000", "rabin-1397932", "rabin-1397933", "rabin-1500000", "rabin-2096896",
	"rabin-2096897", "rabin-16-32-2096897", "rabin-16-2096896-2096897", "rabin-1000-2000-3000000", "rabin-min:16-avg:1048576-max:4194304",
}

func rejectCase(mode string) func(k *vlib.Case) {
	return func(k *vlib.Case) {
		r := k.R
		var s string
		overflow := mode == "overflow"
		switch {
		case mode == "limit":
			s = vlib.Pick(r, limitGrid)
		case overflow:
			s = vlib.Pick(r, overflowGrid)
		case r.Chance(3, 4):
			s = vlib.Pick(r, rejectGrid)
		default:
			// random token soup over the grammar's alphabet
			toks := []string{"size", "rabin", "buzhash", "default", "-", "-", "-", ":", "min", "avg", "max", "0", "1", "16", "48", "64", "262144", "2096896", "2096897", "x", "+", " "}
			var sb strings.Builder
			for i := r.Range(1, 7); i > 0; i-- {
				sb.WriteString(vlib.Pick(r, toks))
			}
			s = sb.String()
		}
		in := genInput(r, r.Range(0, 5000))
		if mode == "limit" {
			n := vlib.Pick(r, []int{chunk.ChunkSizeLimit + 1, 3200000, 4 << 20, 6 << 20})
			data := make([]byte, n)
			pat := r.Bytes(vlib.Pick(r, []int{1, 1, 2, 7}))
			for i := range pat {
				pat[i] |= 1 // non-zero
			}
			for i := range data {
				data[i] = pat[i%len(pat)]
			}
			in = input{fmt.Sprintf("periodic-nonzero(%d)", len(pat)), data}
		}
		k.Logf("spec %q (outside the documented forms/ranges)", s)
		k.Logf("input kind=%s len=%d", in.kind, len(in.data))
		fr := &fragReader{data: in.data, mode: "plain"}
		var sp chunk.Splitter
		var err error
		panicked := func() (p any) {
			defer func() { p = recover() }()
			sp, err = chunk.FromString(fr, s)
			return nil
		}()
		if panicked != nil {
			k.Fail("parse-panic", "FromString returns a splitter or an error", "error", fmt.Sprintf("panic: %v", panicked))
			return
		}
		if (sp == nil) == (err == nil) {
			k.Fail("parse-result", "FromString returns exactly one of splitter, error", "splitter xor error", fmt.Sprintf("splitter=%v err=%v", sp != nil, err))
			return
		}
		if err != nil {
			k.C.Count("rejected_specs", 1)
			k.Nontrivial()
			return
		}
		// accepted although not a documented form: generic clauses only
		k.C.Count("undocumented_specs_accepted", 1)
		k.Logf("  accepted")
		off := 0
		for step := 0; step < len(in.data)+2; step++ {
			b, err := sp.NextBytes()
			if err != nil {
				break
			}
			if len(b) == 0 {
				k.Fail("empty-chunk/undocumented-spec", "no chunk is empty", "len>0", "empty chunk")
				return
			}
			if len(b) > chunk.ChunkSizeLimit {
				k.Fail("size-limit/undocumented-spec", "no chunk exceeds ChunkSizeLimit", fmt.Sprint(chunk.ChunkSizeLimit), fmt.Sprint(len(b)))
			}
			if off+len(b) > len(in.data) || !bytes.Equal(b, in.data[off:off+len(b)]) {
				k.Fail("content/undocumented-spec", "concat(chunks)==input", "input bytes", describeMismatch(b, in.data, off))
				return
			}
			off += len(b)
		}
		if off != len(in.data) {
			k.Fail("truncated/undocumented-spec", "concat(chunks)==input", fmt.Sprint(len(in.data)), fmt.Sprint(off))
		}
		k.Nontrivial()
	}
}

func run(c *vlib.Ctx) {
	c.Rule("case = (spec string, input, 3-5 readers). Specs from a grammar over every documented form: ''/default, size-N, rabin, rabin-N (N>=48 in clean strata; N<48 only in stratum rabin-lt48), rabin-min-avg-max with/without labels, buzhash, with N on a boundary grid (1,15..17,47,48,ChunkSizeLimit-1/+0, rabin-1397930/1) or random; promised min/max computed by the harness from the documented form. Inputs random/constant/periodic/random+runs/text with lengths 0,1,min±1,max±1,k*max±1,3max..8max (<=3 MiB, big strata <=6.5 MiB). Readers: plain, 1-byte, random short reads, tiny-then-big, io.EOF together with the last bytes, interspersed (0,nil). distinct = FNV of spec+input descriptor+reader list+observed boundaries; non-trivial = input >= 3*max of the spec and >=2 fragmentations ran to completion (reject stratum: parser returned). Stratum fault: a spec of every splitter kind (size, default, rabin, rabin-N, rabin-min-avg-max, buzhash), the reader returns a non-EOF error after k bytes (k = 0, inside a chunk, chunk boundary, last chunk, at end, random; alone or with the last bytes; plain/short/1-byte fragmentation); acceptable = non-EOF error surfaced, or complete input then io.EOF; non-trivial = k < len(input). Stratum default-blocksize: chunk.DefaultBlockSize is set to 1..1 MiB for the duration of the case (sequential, restored) and ''/default must cut exactly that size, like size-<value> and DefaultSplitter.")
	// thorough counts are for a build without -race; the race detector makes
	// this single-goroutine byte-loop workload ~40x more expensive (sync.Pool is
	// disabled, 512 KiB buffers are re-allocated per splitter), so under -race
	// the thorough tier runs 1/8 of them (never fewer than quick).
	n := func(q, t int) int {
		if raceEnabled {
			t /= 8
			if t < q {
				t = q
			}
		}
		return c.N(q, t)
	}
	c.Cases("size", n(150, 1300), oneCase("size", false))
	c.Cases("default", n(16, 150), oneCase("default", false))
	c.Cases("rabin", n(16, 150), oneCase("rabin", false))
	c.Cases("rabin-avg", n(130, 1300), oneCase("rabin-avg", false))
	c.Cases("rabin-mam", n(150, 1500), oneCase("rabin-mam", false))
	c.Cases("buzhash", n(40, 400), oneCase("buzhash", false))
	c.Cases("size-big", n(8, 80), oneCase("size", true))
	c.Cases("rabin-avg-big", n(8, 80), oneCase("rabin-avg", true))
	c.Cases("rabin-mam-big", n(8, 80), oneCase("rabin-mam", true))
	c.Cases("rabin-lt48", n(24, 150), oneCase("rabin-lt48", false))
	c.Cases("reject", n(60, 600), rejectCase("grid"))
	c.Cases("reject-limit", n(24, 60), rejectCase("limit"))
	c.Cases("reject-overflow", n(4, 12), rejectCase("overflow"))
	c.Cases("fault", n(140, 1400), faultCase)
	c.Cases("default-blocksize", n(40, 400), defaultSizeCase)
}
