// C22: dspinner is driven in lock-step with the pin model {recursive: cid->name,
// direct: cid->name} over generated histories on random DAGs with shared
// subtrees. The pinner's DAG service is wrapped so that single operations see
// missing blocks or have their context cancelled at the n-th block fetch.
// After EVERY operation the complete query vector (IsPinned, IsPinnedWithType x
// 5 modes, CheckIfPinned, CheckIfPinnedWithType x 5 modes x +-names, DirectKeys
// and RecursiveKeys x +-detailed) is taken for every CID of the pool and
// compared with the model; after an operation that returned an error the
// vector must equal the vector taken before it.
package main

import (
	"context"
	"errors"
	"fmt"
	"sort"
	"strings"
	"sync"

	bserv "github.com/ipfs/boxo/blockservice"
	bstore "github.com/ipfs/boxo/blockstore"
	offline "github.com/ipfs/boxo/exchange/offline"
	mdag "github.com/ipfs/boxo/ipld/merkledag"
	ipfspin "github.com/ipfs/boxo/pinning/pinner"
	"github.com/ipfs/boxo/pinning/pinner/dspinner"
	cid "github.com/ipfs/go-cid"
	ds "github.com/ipfs/go-datastore"
	dsq "github.com/ipfs/go-datastore/query"
	dssync "github.com/ipfs/go-datastore/sync"
	ipld "github.com/ipfs/go-ipld-format"

	"verif/vlib"
)

func main() { vlib.Run("C22", run) }

func run(c *vlib.Ctx) {
	c.Rule("histories of 5-20 ops {Pin(recursive|direct,name), PinWithMode(6 modes), Unpin(+-recursive), Update(+-unpin), Flush, Reopen, SetAutosync} over a random DAG of 5-9 nodes with shared subtrees (+1 CID absent from the store); 30% of mutating ops run with a fault (1-2 blocks missing for the op, context cancelled before the op, at its n-th block fetch or at its n-th datastore access); full query vector for every pool CID after every op. Stratum `hist`: all blocks present between ops, exact oracle. Stratum `incomplete`: blocks are lost/restored persistently between ops and PinWithMode(recursive) (which never fetches) is frequent, so recursive roots have incomplete graphs; there a traversal query may return an error, otherwise its answer must agree with the model (weak oracle), and IsPinned/CheckIfPinned must agree when both succeed. distinct = FNV of DAG+op list; non-trivial (`hist`) = some op returned an error while pins existed AND some CID was indirectly pinned through two roots or a recursive root lay below another root AND a pin was replaced (new name or direct->recursive); non-trivial (`incomplete`) = at some step a recursive root had a lost block in its graph while another, complete root indirectly pinned a CID")
	c.Cases("hist", c.N(420, 2000), func(k *vlib.Case) { oneHistory(k, false) })
	c.Cases("incomplete", c.N(180, 1000), func(k *vlib.Case) { oneHistory(k, true) })
}

// ---------------------------------------------------------------- fault DAG

type faultDAG struct {
	ipld.DAGService
	mu          sync.Mutex
	missing     map[cid.Cid]bool
	gone        map[cid.Cid]bool // persistently lost blocks (stratum `incomplete`)
	cancelAfter int              // cancel at the Get with this index; -1 = never
	cancel      context.CancelFunc
	gets        int
	fired       bool
}

func (f *faultDAG) arm(missing map[cid.Cid]bool, cancelAfter int, cancel context.CancelFunc) {
	f.mu.Lock()
	f.missing, f.cancelAfter, f.cancel, f.gets, f.fired = missing, cancelAfter, cancel, 0, false
	f.mu.Unlock()
}

func (f *faultDAG) setGone(c cid.Cid, gone bool) {
	f.mu.Lock()
	if f.gone == nil {
		f.gone = map[cid.Cid]bool{}
	}
	if gone {
		f.gone[c] = true
	} else {
		delete(f.gone, c)
	}
	f.mu.Unlock()
}

func (f *faultDAG) disarm() (gets int, fired bool) {
	f.mu.Lock()
	defer f.mu.Unlock()
	gets, fired = f.gets, f.fired
	f.missing, f.cancelAfter, f.cancel = nil, -1, nil
	return
}

func (f *faultDAG) Get(ctx context.Context, c cid.Cid) (ipld.Node, error) {
	f.mu.Lock()
	n := f.gets
	f.gets++
	miss := f.missing[c] || f.gone[c]
	doCancel := f.cancelAfter >= 0 && n >= f.cancelAfter
	cancel := f.cancel
	if miss || doCancel {
		f.fired = true
	}
	f.mu.Unlock()
	if doCancel {
		cancel()
		return nil, context.Canceled
	}
	if miss {
		return nil, ipld.ErrNotFound{Cid: c}
	}
	return f.DAGService.Get(ctx, c)
}

func (f *faultDAG) GetMany(ctx context.Context, cids []cid.Cid) <-chan *ipld.NodeOption {
	out := make(chan *ipld.NodeOption, len(cids))
	for _, c := range cids {
		nd, err := f.Get(ctx, c)
		out <- &ipld.NodeOption{Node: nd, Err: err}
	}
	close(out)
	return out
}

// cancelDS cancels the operation's context at its n-th datastore access
// (reads and writes counted alike). Accesses are sequential under the pinner
// lock, so the cancellation point is deterministic.
type cancelDS struct {
	ds.Datastore
	mu     sync.Mutex
	n, at  int
	cancel context.CancelFunc
	fired  bool
}

func (c *cancelDS) arm(at int, cancel context.CancelFunc) {
	c.mu.Lock()
	c.n, c.at, c.cancel, c.fired = 0, at, cancel, false
	c.mu.Unlock()
}

func (c *cancelDS) tick() {
	c.mu.Lock()
	if c.at >= 0 && c.cancel != nil {
		if c.n == c.at {
			c.cancel()
			c.fired = true
		}
		c.n++
	}
	c.mu.Unlock()
}

func (c *cancelDS) Get(ctx context.Context, k ds.Key) ([]byte, error) {
	c.tick()
	return c.Datastore.Get(ctx, k)
}
func (c *cancelDS) Has(ctx context.Context, k ds.Key) (bool, error) {
	c.tick()
	return c.Datastore.Has(ctx, k)
}
func (c *cancelDS) GetSize(ctx context.Context, k ds.Key) (int, error) {
	c.tick()
	return c.Datastore.GetSize(ctx, k)
}
func (c *cancelDS) Query(ctx context.Context, q dsq.Query) (dsq.Results, error) {
	c.tick()
	return c.Datastore.Query(ctx, q)
}
func (c *cancelDS) Put(ctx context.Context, k ds.Key, v []byte) error {
	c.tick()
	return c.Datastore.Put(ctx, k, v)
}
func (c *cancelDS) Delete(ctx context.Context, k ds.Key) error {
	c.tick()
	return c.Datastore.Delete(ctx, k)
}
func (c *cancelDS) Sync(ctx context.Context, k ds.Key) error {
	c.tick()
	return c.Datastore.Sync(ctx, k)
}

// ---------------------------------------------------------------- model

type model struct {
	R, D map[int]string // pool index -> name
}

func newModel() *model { return &model{R: map[int]string{}, D: map[int]string{}} }

func (m *model) clone() *model {
	n := newModel()
	for k, v := range m.R {
		n.R[k] = v
	}
	for k, v := range m.D {
		n.D[k] = v
	}
	return n
}

func (m *model) String() string {
	f := func(x map[int]string) string {
		var ks []int
		for k := range x {
			ks = append(ks, k)
		}
		sort.Ints(ks)
		var o []string
		for _, k := range ks {
			o = append(o, fmt.Sprintf("c%d:%q", k, x[k]))
		}
		return strings.Join(o, " ")
	}
	return "R{" + f(m.R) + "} D{" + f(m.D) + "}"
}

type world struct {
	k      *vlib.Case
	store  *cancelDS
	fd     *faultDAG
	p      ipfspin.Pinner
	auto   bool
	pool   []cid.Cid       // pool[len-1] is absent from the store
	nodes  []ipld.Node     // same indexes, nil for the absent one
	index  map[cid.Cid]int // cid -> pool index
	reach  []map[int]bool  // proper descendants
	m      *model
	absent int

	knownReported bool

	links      [][]int      // child pool indexes per node
	incomplete bool         // stratum `incomplete`
	gone       map[int]bool // persistently lost blocks
}

// incompleteRoot reports whether recursive root r of any model has a lost
// block in its graph (itself included).
func (w *world) incompleteRoot(r int) bool {
	if w.gone[r] {
		return true
	}
	for d := range w.reach[r] {
		if w.gone[d] {
			return true
		}
	}
	return false
}

// mayError: with an incomplete recursive root a query that has to traverse the
// recursive roots may legitimately fail. Batch queries fail as a whole.
func (w *world) mayError(m *model, q string, ci int) bool {
	if !w.incomplete || ci < 0 {
		return false
	}
	any := false
	for r := range m.R {
		any = any || w.incompleteRoot(r)
	}
	if !any {
		return false
	}
	_, inR := m.R[ci]
	_, inD := m.D[ci]
	switch strings.TrimSuffix(q, "+names") {
	case "IsPinned", "IsPinnedWithType/any":
		return !inR && !inD
	case "IsPinnedWithType/indirect":
		return !inR
	case "CheckIfPinned", "CheckIfPinnedWithType/any", "CheckIfPinnedWithType/indirect":
		return true
	case "CheckIfPinned1/any":
		return !inR && !inD && !w.mustAnswer(m, ci)
	case "CheckIfPinned1/indirect":
		return !inR && !w.mustAnswer(m, ci)
	}
	return false
}

// mustAnswer: a query for the single CID ci cannot depend on a lost block.
// ci is present and indirectly pinned, and every recursive root with a lost
// block in its graph reaches ci, is itself present, and has all its lost
// blocks strictly below ci on every path (ci dominates them). A walk of such a
// root cannot fetch a lost block before it has matched ci, and after the match
// nothing more needs to be fetched; complete roots never fail.
func (w *world) mustAnswer(m *model, ci int) bool {
	if w.gone[ci] || len(w.viaRoots(m, ci)) == 0 {
		return false
	}
	for r := range m.R {
		if !w.incompleteRoot(r) {
			continue
		}
		if w.gone[r] || !w.reach[r][ci] {
			return false
		}
		// nodes reachable from r without passing through ci
		seen := map[int]bool{r: true}
		stack := []int{r}
		for len(stack) > 0 {
			x := stack[len(stack)-1]
			stack = stack[:len(stack)-1]
			if w.gone[x] {
				return false
			}
			for _, t := range w.links[x] {
				if t != ci && !seen[t] {
					seen[t] = true
					stack = append(stack, t)
				}
			}
		}
	}
	return true
}

// crossCheck: IsPinned and CheckIfPinned must agree on pinned-ness whenever
// both returned without error.
func (w *world) crossCheck(obs []qres) {
	single, batch := map[int]string{}, map[int]string{}
	for _, r := range obs {
		switch r.q {
		case "IsPinned":
			single[r.ci] = r.val
		case "CheckIfPinned":
			batch[r.ci] = r.val
		}
	}
	for ci, a := range single {
		b, ok := batch[ci]
		if !ok || a == vErr || b == vErr || ci < 0 {
			continue
		}
		if strings.HasPrefix(a, "true") != (b != "notpinned") {
			w.k.Fail("ispinned-vs-checkifpinned", "IsPinned and CheckIfPinned agree when both succeed", fmt.Sprintf("IsPinned(c%d)=%q", ci, a), fmt.Sprintf("CheckIfPinned(c%d)=%q", ci, b))
			return
		}
	}
}

// sameVector compares two query vectors; in the `incomplete` stratum entries
// that failed on either side are skipped (which root a traversal meets first
// depends on the datastore's iteration order).
func (w *world) sameVector(a, b []qres) bool {
	if !w.incomplete {
		return vector(a) == vector(b)
	}
	if len(a) != len(b) {
		return false
	}
	for i := range a {
		if a[i].q != b[i].q || a[i].ci != b[i].ci {
			return false
		}
		if a[i].val == vErr || b[i].val == vErr {
			continue
		}
		if a[i].val != b[i].val {
			return false
		}
	}
	return true
}

// viaRoots lists the recursive roots of m that have ci as a proper descendant.
func (w *world) viaRoots(m *model, ci int) []int {
	var o []int
	for r := range m.R {
		if w.reach[r][ci] {
			o = append(o, r)
		}
	}
	sort.Ints(o)
	return o
}

// one observed query result
type qres struct {
	q   string // query name
	ci  int    // pool index, -1 for "keys outside the pool"
	val string // normalised value ("via" stands for any root)
	via int    // pool index of the reported root, -2 none, -1 not in the pool
}

const (
	vFalse = "false"
	vErr   = "error"
)

func modeName(m ipfspin.Mode) string {
	switch m {
	case ipfspin.Recursive:
		return "recursive"
	case ipfspin.Direct:
		return "direct"
	case ipfspin.Indirect:
		return "indirect"
	case ipfspin.Internal:
		return "internal"
	case ipfspin.NotPinned:
		return "notpinned"
	case ipfspin.Any:
		return "any"
	}
	return fmt.Sprintf("mode%d", int(m))
}

// observe takes the complete query vector.
func (w *world) observe(ctx context.Context) []qres {
	var out []qres
	p := w.p
	single := func(q string, ci int, reason string, pinned bool, err error) {
		r := qres{q: q, ci: ci, via: -2}
		switch {
		case err != nil:
			r.val = vErr
		case !pinned:
			r.val = vFalse
			if reason != "" {
				r.val = "false reason=" + reason
			}
		case reason == "recursive" || reason == "direct":
			r.val = "true " + reason
		default:
			r.val = "true via"
			r.via = -1
			if rc, e := cid.Decode(reason); e == nil {
				if i, ok := w.index[rc]; ok {
					r.via = i
				}
			} else {
				r.val = "true reason=" + reason
			}
		}
		out = append(out, r)
	}
	for ci, c := range w.pool {
		reason, pinned, err := p.IsPinned(ctx, c)
		single("IsPinned", ci, reason, pinned, err)
		for _, md := range []ipfspin.Mode{ipfspin.Recursive, ipfspin.Direct, ipfspin.Indirect, ipfspin.Internal, ipfspin.Any} {
			reason, pinned, err := p.IsPinnedWithType(ctx, c, md)
			single("IsPinnedWithType/"+modeName(md), ci, reason, pinned, err)
		}
	}
	only := -1 // >= 0: the batch query asked for this single CID
	batch := func(q string, names bool, res []ipfspin.Pinned, err error) {
		if err != nil {
			for ci := range w.pool {
				if only >= 0 && ci != only {
					continue
				}
				out = append(out, qres{q: q, ci: ci, val: vErr, via: -2})
			}
			return
		}
		seen := map[int]int{}
		per := map[int]qres{}
		for _, pn := range res {
			ci, ok := w.index[pn.Key]
			if !ok {
				out = append(out, qres{q: q, ci: -1, val: "extra " + pn.Key.String(), via: -2})
				continue
			}
			seen[ci]++
			r := qres{q: q, ci: ci, via: -2}
			switch pn.Mode {
			case ipfspin.NotPinned:
				r.val = "notpinned"
			case ipfspin.Indirect:
				r.val = "indirect"
				r.via = -1
				if i, ok := w.index[pn.Via]; ok {
					r.via = i
				}
			default:
				r.val = modeName(pn.Mode)
				if names {
					r.val += fmt.Sprintf(" name=%q", pn.Name)
				}
			}
			per[ci] = r
		}
		for ci := range w.pool {
			if only >= 0 && ci != only {
				if seen[ci] > 0 {
					out = append(out, qres{q: q, ci: -1, val: "extra " + w.pool[ci].String(), via: -2})
				}
				continue
			}
			switch seen[ci] {
			case 0:
				out = append(out, qres{q: q, ci: ci, val: "no-entry", via: -2})
			case 1:
				out = append(out, per[ci])
			default:
				out = append(out, qres{q: q, ci: ci, val: fmt.Sprintf("%d entries", seen[ci]), via: -2})
			}
		}
	}
	res, err := p.CheckIfPinned(ctx, w.pool...)
	batch("CheckIfPinned", false, res, err)
	for _, md := range []ipfspin.Mode{ipfspin.Recursive, ipfspin.Direct, ipfspin.Indirect, ipfspin.Internal, ipfspin.Any} {
		for _, names := range []bool{false, true} {
			res, err := p.CheckIfPinnedWithType(ctx, md, names, w.pool...)
			q := "CheckIfPinnedWithType/" + modeName(md)
			if names {
				q += "+names"
			}
			batch(q, names, res, err)
		}
	}
	// single-CID batch queries: here the traversal may stop as soon as the CID
	// is matched
	for ci, c := range w.pool {
		only = ci
		res, err := p.CheckIfPinnedWithType(ctx, ipfspin.Any, false, c)
		batch("CheckIfPinned1/any", false, res, err)
		res, err = p.CheckIfPinnedWithType(ctx, ipfspin.Indirect, false, c)
		batch("CheckIfPinned1/indirect", false, res, err)
	}
	only = -1
	listing := func(q string, detailed bool, ch <-chan ipfspin.StreamedPin) {
		seen := map[int]int{}
		per := map[int]string{}
		failed := false
		for sp := range ch {
			if sp.Err != nil {
				failed = true
				continue
			}
			ci, ok := w.index[sp.Pin.Key]
			if !ok {
				out = append(out, qres{q: q, ci: -1, val: "extra " + sp.Pin.Key.String(), via: -2})
				continue
			}
			seen[ci]++
			per[ci] = "listed"
			if detailed {
				per[ci] = fmt.Sprintf("listed %s name=%q", modeName(sp.Pin.Mode), sp.Pin.Name)
			}
		}
		for ci := range w.pool {
			r := qres{q: q, ci: ci, via: -2}
			switch {
			case failed:
				r.val = vErr
			case seen[ci] == 0:
				r.val = "absent"
			case seen[ci] == 1:
				r.val = per[ci]
			default:
				r.val = fmt.Sprintf("listed %d times", seen[ci])
			}
			out = append(out, r)
		}
	}
	listing("DirectKeys", false, p.DirectKeys(ctx, false))
	listing("DirectKeys+detailed", true, p.DirectKeys(ctx, true))
	listing("RecursiveKeys", false, p.RecursiveKeys(ctx, false))
	listing("RecursiveKeys+detailed", true, p.RecursiveKeys(ctx, true))
	w.k.C.Count("queries", int64(len(w.pool)*8+11+4))
	return out
}

func vector(obs []qres) string {
	var b strings.Builder
	for _, r := range obs {
		fmt.Fprintf(&b, "%s c%d %s\n", r.q, r.ci, r.val)
	}
	return b.String()
}

// expected returns the acceptable normalised values of one query under model
// m, and whether a reported root must be validated.
func (w *world) expected(m *model, q string, ci int) (vals []string) {
	if ci < 0 {
		return []string{""} // nothing outside the pool may ever be reported
	}
	rname, inR := m.R[ci]
	dname, inD := m.D[ci]
	if inR {
		inD = false // recursive supersedes direct
	}
	indirect := !inR && len(w.viaRoots(m, ci)) > 0
	base, names := q, false
	if strings.HasSuffix(q, "+names") {
		base, names = strings.TrimSuffix(q, "+names"), true
	}
	nm := func(s, n string) string {
		if names {
			return fmt.Sprintf("%s name=%q", s, n)
		}
		return s
	}
	switch base {
	case "IsPinned", "IsPinnedWithType/any":
		switch {
		case inR:
			return []string{"true recursive"}
		case inD && indirect:
			return []string{"true direct", "true via"} // both apply; the statement does not rank them
		case inD:
			return []string{"true direct"}
		case indirect:
			return []string{"true via"}
		}
		return []string{vFalse}
	case "IsPinnedWithType/recursive":
		if inR {
			return []string{"true recursive"}
		}
		return []string{vFalse}
	case "IsPinnedWithType/direct":
		if inD {
			return []string{"true direct"}
		}
		return []string{vFalse}
	case "IsPinnedWithType/indirect":
		if indirect {
			return []string{"true via"}
		}
		return []string{vFalse}
	case "IsPinnedWithType/internal":
		return []string{vFalse}
	case "CheckIfPinned", "CheckIfPinnedWithType/any", "CheckIfPinned1/any":
		switch {
		case inR:
			return []string{nm("recursive", rname)}
		case inD && indirect:
			return []string{nm("direct", dname), "indirect"}
		case inD:
			return []string{nm("direct", dname)}
		case indirect:
			return []string{"indirect"}
		}
		return []string{"notpinned"}
	case "CheckIfPinnedWithType/recursive":
		if inR {
			return []string{nm("recursive", rname)}
		}
		return []string{"notpinned"}
	case "CheckIfPinnedWithType/direct":
		if inD {
			return []string{nm("direct", dname)}
		}
		return []string{"notpinned"}
	case "CheckIfPinnedWithType/indirect", "CheckIfPinned1/indirect":
		if indirect {
			return []string{"indirect"}
		}
		return []string{"notpinned"}
	case "CheckIfPinnedWithType/internal":
		return []string{"notpinned"}
	case "DirectKeys":
		if inD {
			return []string{"listed"}
		}
		return []string{"absent"}
	case "DirectKeys+detailed":
		if inD {
			return []string{fmt.Sprintf("listed direct name=%q", dname)}
		}
		return []string{"absent"}
	case "RecursiveKeys":
		if inR {
			return []string{"listed"}
		}
		return []string{"absent"}
	case "RecursiveKeys+detailed":
		if inR {
			return []string{fmt.Sprintf("listed recursive name=%q", rname)}
		}
		return []string{"absent"}
	}
	panic("unknown query " + q)
}

type mismatch struct {
	r    qres
	want []string
	why  string
}

// compare evaluates an observed vector against model m.
func (w *world) compare(obs []qres, m *model) []mismatch {
	var out []mismatch
	for _, r := range obs {
		want := w.expected(m, r.q, r.ci)
		if w.incomplete && r.q == "CheckIfPinned1/indirect" && r.ci >= 0 && w.mustAnswer(m, r.ci) {
			for rt := range m.R {
				if w.incompleteRoot(rt) {
					w.k.C.Count("single_cid_queries_that_must_answer_despite_lost_blocks", 1)
					break
				}
			}
		}
		if r.val == vErr && w.mayError(m, r.q, r.ci) {
			w.k.C.Count("query_errors_accepted_incomplete_root", 1)
			continue
		}
		ok := false
		for _, v := range want {
			if v == r.val {
				ok = true
			}
		}
		if !ok {
			out = append(out, mismatch{r: r, want: want})
			continue
		}
		if r.via != -2 {
			// the reported root must be a recursive root that has the CID as a
			// proper descendant
			if r.via < 0 {
				out = append(out, mismatch{r: r, want: want, why: "reported root is not a pool CID"})
			} else if _, isRoot := m.R[r.via]; !isRoot || !w.reach[r.via][r.ci] {
				out = append(out, mismatch{r: r, want: want, why: fmt.Sprintf("reported root c%d is not a recursive root above c%d", r.via, r.ci)})
			}
		}
	}
	return out
}

func describe(ms []mismatch) string {
	var o []string
	for i, m := range ms {
		if i == 12 {
			o = append(o, fmt.Sprintf("... %d more", len(ms)-12))
			break
		}
		s := fmt.Sprintf("%s(c%d)=%q want %q", m.r.q, m.r.ci, m.r.val, m.want)
		if m.why != "" {
			s += " [" + m.why + "]"
		}
		o = append(o, s)
	}
	return strings.Join(o, "; ")
}

// ---------------------------------------------------------------- history

type fault struct {
	kind    string // "", "missing", "precancel", "cancel-at", "cancel-at-dsop"
	missing []int
	at      int
}

func (f fault) String() string {
	switch f.kind {
	case "missing":
		return fmt.Sprintf(" fault=missing%v", f.missing)
	case "precancel":
		return " fault=ctx-cancelled-before"
	case "cancel-at":
		return fmt.Sprintf(" fault=cancel-at-fetch#%d", f.at)
	case "cancel-at-dsop":
		return fmt.Sprintf(" fault=cancel-at-datastore-access#%d", f.at)
	}
	return ""
}

var nameChoices = []string{"", "", "n1", "n2", "a/b", "x\x00y", "n1"}

func oneHistory(k *vlib.Case, incomplete bool) {
	const clean = false // the trigger-avoiding stratum is gone: the three C22 defects are fixed in /repo
	r := k.R
	bg := context.Background()
	store := &cancelDS{Datastore: dssync.MutexWrap(ds.NewMapDatastore()), at: -1}
	bs := bstore.NewBlockstore(dssync.MutexWrap(ds.NewMapDatastore()))
	real := mdag.NewDAGService(bserv.New(bs, offline.Exchange(bs)))
	fd := &faultDAG{DAGService: real, cancelAfter: -1}
	w := &world{k: k, store: store, fd: fd, index: map[cid.Cid]int{}, m: newModel(), auto: true, incomplete: incomplete, gone: map[int]bool{}}
	if incomplete {
		k.Logf("stratum incomplete: blocks may be lost between operations")
	}

	// random DAG, leaves first
	n := r.Range(5, 9)
	var links [][]int
	for i := 0; i < n; i++ {
		var nd ipld.Node
		var ls []int
		if i < 2 || r.Chance(1, 4) {
			if r.Bool() {
				nd = mdag.NewRawNode(append([]byte{byte(i)}, r.Bytes(8)...))
			} else {
				pn := mdag.NodeWithData(append([]byte{byte(i)}, r.Bytes(8)...))
				if r.Bool() {
					pn.SetCidBuilder(mdag.V1CidPrefix())
				}
				nd = pn
			}
		} else {
			pn := mdag.NodeWithData(append([]byte{byte(i)}, r.Bytes(4)...))
			if r.Bool() {
				pn.SetCidBuilder(mdag.V1CidPrefix())
			}
			nl := r.Range(1, 3)
			for j := 0; j < nl; j++ {
				t := r.Intn(i)
				// prefer recent nodes so that depth grows
				if r.Bool() && i >= 2 {
					t = i - 1 - r.Intn(2)
				}
				if err := pn.AddNodeLink(fmt.Sprintf("l%d", j), w.nodes[t]); err != nil {
					panic(err)
				}
				ls = append(ls, t)
			}
			nd = pn
		}
		if _, dup := w.index[nd.Cid()]; dup {
			panic("duplicate node")
		}
		if err := real.Add(bg, nd); err != nil {
			panic(err)
		}
		w.index[nd.Cid()] = i
		w.pool = append(w.pool, nd.Cid())
		w.nodes = append(w.nodes, nd)
		links = append(links, ls)
		k.Logf("node c%d %s links=%v", i, nd.Cid(), ls)
	}
	absent := mdag.NodeWithData([]byte("absent from the store"))
	w.absent = n
	w.pool = append(w.pool, absent.Cid())
	w.nodes = append(w.nodes, nil)
	w.index[absent.Cid()] = n
	links = append(links, nil)
	k.Logf("node c%d %s absent from the store", n, absent.Cid())
	w.links = links
	w.reach = make([]map[int]bool, n+1)
	for i := 0; i <= n; i++ {
		w.reach[i] = map[int]bool{}
		for _, t := range links[i] {
			w.reach[i][t] = true
			for d := range w.reach[t] {
				w.reach[i][d] = true
			}
		}
	}

	var err error
	w.p, err = dspinner.New(bg, store, fd)
	if err != nil {
		panic(err)
	}
	prev := w.observe(bg)
	if ms := w.compare(prev, w.m); len(ms) > 0 {
		k.Fail("query/initial", "empty pinner answers not-pinned everywhere", "all not pinned", describe(ms))
		return
	}

	sawErrWithPins, sawSharing, sawReplace, sawIncompleteBesideComplete := false, false, false, false
	noteIncomplete := func() {
		inc := false
		for rt := range w.m.R {
			inc = inc || w.incompleteRoot(rt)
		}
		if !inc {
			return
		}
		for ci := range w.pool {
			if _, inR := w.m.R[ci]; inR {
				continue
			}
			for _, rt := range w.viaRoots(w.m, ci) {
				if !w.incompleteRoot(rt) {
					sawIncompleteBesideComplete = true
				}
			}
		}
	}
	nops := r.Range(5, 20)
	for i := 0; i < nops; i++ {
		// ---- stratum `incomplete`: lose / restore a block between operations
		if incomplete && r.Chance(1, 4) {
			ci := r.Intn(n)
			if len(w.m.R) > 0 && r.Chance(2, 3) { // aim below a recursive root
				var roots, ds []int
				for rt := range w.m.R {
					roots = append(roots, rt)
				}
				sort.Ints(roots)
				rt := roots[r.Intn(len(roots))]
				for d := range w.reach[rt] {
					ds = append(ds, d)
				}
				sort.Ints(ds)
				if len(ds) > 0 {
					ci = ds[r.Intn(len(ds))]
				}
				// prefer a block at depth >= 2 (root -> mid -> lost): then `mid`
				// is still decidable through present blocks only
				var deep []int
				for _, d := range ds {
					for g := range w.reach[d] {
						deep = append(deep, g)
					}
				}
				sort.Ints(deep)
				if len(deep) > 0 && r.Chance(3, 4) {
					ci = deep[r.Intn(len(deep))]
				}
			}
			if w.gone[ci] {
				k.Logf("Restore block c%d", ci)
				delete(w.gone, ci)
				fd.setGone(w.pool[ci], false)
			} else {
				k.Logf("Lose block c%d", ci)
				w.gone[ci] = true
				fd.setGone(w.pool[ci], true)
			}
			obs := w.observe(bg)
			w.crossCheck(obs)
			if ms := w.compare(obs, w.m); len(ms) > 0 {
				k.Fail("state-mismatch/block-lost-or-restored", "with an incomplete recursive root a query fails or agrees with the pin model "+w.m.String(), "error or model answers", describe(ms))
				break
			}
			noteIncomplete()
			prev = obs
			continue
		}
		// ---- choose the operation
		var (
			desc    string
			call    func(ctx context.Context) error
			effect  func(m *model) // applied to the model when the call succeeds
			must    = "succeed"    // "succeed" | "fail" | "either"
			kind    string
			target  = -1
			f       fault
			skip    bool
			notPin  bool  // failure must be ErrNotPinned
			touches []int // CIDs whose graph the operation has to fetch
		)
		pickPresent := func() int { return r.Intn(n) }
		pickAny := func() int { return r.Intn(n + 1) }
		// bias towards CIDs that are already pinned so that re-pins, unpins and
		// updates hit existing state
		pickPinned := func() int {
			var c []int
			for x := range w.m.R {
				c = append(c, x)
			}
			for x := range w.m.D {
				c = append(c, x)
			}
			if len(c) == 0 || r.Chance(1, 3) {
				return pickAny()
			}
			sort.Ints(c)
			return c[r.Intn(len(c))]
		}
		name := nameChoices[r.Intn(len(nameChoices))]
		wantFault := r.Chance(3, 10)
		op := r.Intn(100)
		switch {
		case op < 28: // Pin recursive
			ci := pickPresent()
			if r.Chance(1, 3) {
				if x := pickPinned(); x != w.absent {
					ci = x
				}
			}
			kind, target = "Pin-recursive", ci
			touches = []int{ci}
			desc = fmt.Sprintf("Pin(c%d, recursive, %q)", ci, name)
			call = func(ctx context.Context) error { return w.p.Pin(ctx, w.nodes[ci], true, name) }
			effect = func(m *model) { m.R[ci] = name; delete(m.D, ci) }
		case op < 43: // Pin direct
			ci := pickPresent()
			if r.Chance(1, 3) {
				if x := pickPinned(); x != w.absent {
					ci = x
				}
			}
			kind, target = "Pin-direct", ci
			desc = fmt.Sprintf("Pin(c%d, direct, %q)", ci, name)
			call = func(ctx context.Context) error { return w.p.Pin(ctx, w.nodes[ci], false, name) }
			if _, inR := w.m.R[ci]; inR {
				// recursive supersedes direct: refusing and accepting-without-effect are both fine
				must = "either"
				effect = func(m *model) {}
			} else {
				effect = func(m *model) { m.D[ci] = name }
			}
		case op < 55: // PinWithMode
			md := []ipfspin.Mode{ipfspin.Recursive, ipfspin.Recursive, ipfspin.Direct, ipfspin.Direct, ipfspin.Indirect, ipfspin.Internal, ipfspin.NotPinned, ipfspin.Any, ipfspin.Mode(99)}[r.Intn(9)]
			if incomplete && r.Chance(1, 2) {
				md = ipfspin.Recursive // never fetches: the way to get a root with an incomplete graph
			}
			ci := pickPinned()
			if md == ipfspin.Recursive && ci == w.absent {
				ci = pickPresent() // a recursive root whose block does not exist makes every traversal fail
			}
			kind, target = "PinWithMode-"+modeName(md), ci
			desc = fmt.Sprintf("PinWithMode(c%d, %s, %q)", ci, modeName(md), name)
			call = func(ctx context.Context) error { return w.p.PinWithMode(ctx, w.pool[ci], md, name) }
			switch md {
			case ipfspin.Recursive:
				effect = func(m *model) { m.R[ci] = name; delete(m.D, ci) }
			case ipfspin.Direct:
				if _, inR := w.m.R[ci]; inR {
					must = "either"
					effect = func(m *model) {}
				} else {
					effect = func(m *model) { m.D[ci] = name }
				}
			default:
				must = "fail"
			}
		case op < 75: // Unpin
			ci := pickPinned()
			rec := r.Bool()
			kind, target = "Unpin", ci
			desc = fmt.Sprintf("Unpin(c%d, recursive=%v)", ci, rec)
			call = func(ctx context.Context) error { return w.p.Unpin(ctx, w.pool[ci], rec) }
			_, inR := w.m.R[ci]
			_, inD := w.m.D[ci]
			switch {
			case inR && rec:
				effect = func(m *model) { delete(m.R, ci); delete(m.D, ci) }
			case inR:
				must = "fail"
			case inD:
				effect = func(m *model) { delete(m.D, ci) }
			default:
				must, notPin = "fail", true
			}
		case op < 90: // Update
			from := pickPinned()
			if len(w.m.R) > 0 && r.Chance(3, 4) {
				var c []int
				for x := range w.m.R {
					c = append(c, x)
				}
				sort.Ints(c)
				from = c[r.Intn(len(c))]
			}
			to := pickPresent()
			if r.Chance(1, 4) {
				if x := pickPinned(); x != w.absent {
					to = x
				}
			}
			unpin := r.Bool()
			kind, target = "Update", to
			touches = []int{from, to}
			desc = fmt.Sprintf("Update(c%d -> c%d, unpin=%v)", from, to, unpin)
			call = func(ctx context.Context) error { return w.p.Update(ctx, w.pool[from], w.pool[to], unpin) }
			fname, fromR := w.m.R[from]
			_, toR := w.m.R[to]
			_, toD := w.m.D[to]
			apply := func(m *model) {
				m.R[to] = fname
				delete(m.D, to)
				if unpin {
					delete(m.R, from)
				}
			}
			switch {
			case !fromR:
				must = "fail"
			case from == to:
				must, effect = "either", func(m *model) {}
			case toR:
				must, effect = "either", apply
			default:
				effect = apply
				if toD && clean {
					skip = true // trigger of update-onto-direct/direct-pin-retained
				}
			}
		case op < 94:
			kind = "Flush"
			desc = "Flush()"
			call = func(ctx context.Context) error { return w.p.Flush(ctx) }
			effect = func(m *model) {}
		case op < 97:
			kind = "Reopen"
			desc = "Reopen (dspinner.New on the same datastore)"
			wantFault = false
			call = func(ctx context.Context) error {
				np, err := dspinner.New(ctx, w.store, w.fd)
				if err != nil {
					return err
				}
				w.p.Close()
				w.p = np
				if !w.auto {
					np.SetAutosync(false)
				}
				return nil
			}
			effect = func(m *model) {}
		default:
			kind = "SetAutosync"
			w.auto = !w.auto
			desc = fmt.Sprintf("SetAutosync(%v)", w.auto)
			wantFault = false
			auto := w.auto
			call = func(ctx context.Context) error {
				w.p.(interface{ SetAutosync(bool) bool }).SetAutosync(auto)
				return nil
			}
			effect = func(m *model) {}
		}
		if skip {
			i--
			continue
		}
		// ---- choose the fault
		if wantFault {
			switch r.Intn(6) {
			case 0:
				f.kind = "precancel"
			case 1:
				f.kind, f.at = "cancel-at", r.Intn(4)
			case 2, 3:
				f.kind, f.at = "cancel-at-dsop", r.Intn(14)
			default:
				f.kind = "missing"
				cnt := r.Range(1, 2)
				for j := 0; j < cnt; j++ {
					f.missing = append(f.missing, r.Intn(n))
				}
				if len(touches) > 0 && r.Bool() {
					// aim at the graph the operation has to walk
					t := touches[r.Intn(len(touches))]
					var ds []int
					for d := range w.reach[t] {
						ds = append(ds, d)
					}
					sort.Ints(ds)
					if len(ds) > 0 {
						f.missing[0] = ds[r.Intn(len(ds))]
					}
				}
			}
		}
		_, targetInR := w.m.R[target]
		repinR := (kind == "Pin-recursive" || kind == "PinWithMode-recursive") && targetInR
		if clean && f.kind != "" && repinR {
			f = fault{} // trigger of failed-repin/pin-lost
		}
		// persistently lost blocks in the graph the operation has to walk
		goneHit := false
		for _, t := range touches {
			goneHit = goneHit || w.incompleteRoot(t)
		}
		if goneHit && must == "succeed" {
			if kind == "Pin-recursive" {
				must = "fail" // Pin must make sure the whole graph is local
			} else {
				must = "either" // Update only fetches the difference
			}
		}
		// how the fault changes what the statement lets us demand
		if f.kind != "" && must == "succeed" {
			switch f.kind {
			case "precancel", "cancel-at", "cancel-at-dsop":
				must = "either"
			case "missing":
				hit := false
				for _, t := range touches {
					for _, mi := range f.missing {
						if mi == t || w.reach[t][mi] {
							hit = true
						}
					}
				}
				if hit && kind == "Pin-recursive" {
					must = "fail" // Pin must make sure the whole graph is local
				} else if hit {
					must = "either" // Update only fetches the difference
				}
			}
		}
		k.Logf("%s%s", desc, f)

		// ---- run it
		ctx, cancel := context.WithCancel(bg)
		miss := map[cid.Cid]bool{}
		for _, mi := range f.missing {
			miss[w.pool[mi]] = true
		}
		at := -1
		if f.kind == "cancel-at" {
			at = f.at
		}
		if f.kind == "precancel" {
			cancel()
		}
		fd.arm(miss, at, cancel)
		if f.kind == "cancel-at-dsop" {
			store.arm(f.at, cancel)
		}
		before := w.m.clone()
		opErr := call(ctx)
		_, fired := fd.disarm()
		store.mu.Lock()
		fired = fired || store.fired
		store.mu.Unlock()
		store.arm(-1, nil)
		cancel()
		k.C.Count("ops", 1)
		if opErr != nil {
			k.C.Count("ops_failed", 1)
			if len(before.R)+len(before.D) > 0 {
				sawErrWithPins = true
			}
		}
		if fired {
			k.C.Count("faults_fired", 1)
		}

		obs := w.observe(bg)
		w.crossCheck(obs)
		stop := false
		if opErr != nil {
			if must == "succeed" {
				k.Fail("unexpected-error/"+kind, "operation succeeds under the model", "nil", opErr.Error())
			}
			if notPin && f.kind == "" && !errors.Is(opErr, ipfspin.ErrNotPinned) {
				k.Fail("unpin-errclass", "Unpin of a CID without a direct/recursive pin returns ErrNotPinned", ipfspin.ErrNotPinned.Error(), opErr.Error())
			}
			// clause: a failed call changes nothing
			if !w.sameVector(prev, obs) {
				stop = true
				cls := "failed-op-changed-state/" + kind
				// classify: is the only change that the re-pinned recursive root lost its pin?
				if repinR && f.kind != "" {
					alt := before.clone()
					delete(alt.R, target)
					if len(w.compareIgnoringKnown(obs, alt)) == 0 {
						cls = "failed-repin/pin-lost"
					}
				}
				k.Fail(cls, "an operation that returns an error leaves all pin queries unchanged", "query vector as before the call", "error="+opErr.Error()+"; changed: "+vdiff(prev, obs))
			}
		} else {
			if must == "fail" {
				cls := "unexpected-success/" + kind
				if (f.kind == "missing" || goneHit) && kind == "Pin-recursive" {
					cls = "pin-succeeded/graph-incomplete"
				}
				k.Fail(cls, "operation is refused under the model", "error", "nil")
			}
			if kind == "Pin-recursive" || kind == "Pin-direct" || strings.HasPrefix(kind, "PinWithMode") {
				oldR, wasR := before.R[target]
				oldD, wasD := before.D[target]
				if (wasR && oldR != name) || (wasD && (oldD != name || strings.Contains(kind, "ecursive"))) {
					sawReplace = true
				}
			}
			if effect != nil {
				effect(w.m)
			}
		}
		// clause: every query agrees with the model
		if !stop {
			ms := w.compare(obs, w.m)
			ms = w.reportKnownQueryDivergences(ms)
			if len(ms) > 0 {
				stop = true
				cls := "state-mismatch/" + kind
				if kind == "Update" && opErr == nil {
					// classify: is the only difference that the direct pin of `to` survived?
					if dn, wasD := before.D[target]; wasD {
						alt := w.m.clone()
						alt.D[target] = dn
						if w.onlyDirectRetained(obs, alt, target) {
							cls = "update-onto-direct/direct-pin-retained"
						}
					}
				}
				k.Fail(cls, "after the call every query agrees with the pin model "+w.m.String(), "model answers", describe(ms))
			}
		}
		for ci := range w.pool {
			if _, inR := w.m.R[ci]; inR && len(w.viaRoots(w.m, ci)) > 0 {
				sawSharing = true
			}
			if len(w.viaRoots(w.m, ci)) >= 2 {
				sawSharing = true
			}
		}
		noteIncomplete()
		if stop {
			break
		}
		prev = obs
	}
	w.p.Close()
	if incomplete {
		if sawIncompleteBesideComplete {
			k.Nontrivial()
		}
	} else if sawErrWithPins && sawSharing && sawReplace {
		k.Nontrivial()
	}
}

// isKnownIndirect reports whether a mismatch is the query-only divergence
// "Indirect answered true for a CID that is itself a recursive root and lies
// below another recursive root".
func (w *world) isKnownIndirect(m mismatch, mod *model) bool {
	if m.r.q != "IsPinnedWithType/indirect" || m.r.val != "true via" || m.r.ci < 0 {
		return false
	}
	if _, inR := mod.R[m.r.ci]; !inR {
		return false
	}
	if m.r.via < 0 {
		return false
	}
	_, viaIsRoot := mod.R[m.r.via]
	return viaIsRoot && m.r.via != m.r.ci && w.reach[m.r.via][m.r.ci]
}

// reportKnownQueryDivergences records the query-only divergence under its own
// class (the history continues) and returns the remaining mismatches.
func (w *world) reportKnownQueryDivergences(ms []mismatch) []mismatch {
	var rest []mismatch
	for _, m := range ms {
		if w.isKnownIndirect(m, w.m) {
			w.k.C.Count("indirect_true_for_recursive_root", 1)
			if !w.knownReported { // once per history: it persists while the pins stay
				w.knownReported = true
				w.k.Fail("indirect-query/also-recursive-root", "indirect = reachable from a recursive root and not itself a recursive root", fmt.Sprintf("IsPinnedWithType(c%d, Indirect) = false under %s", m.r.ci, w.m), fmt.Sprintf("true via c%d", m.r.via))
			}
			continue
		}
		rest = append(rest, m)
	}
	return rest
}

func (w *world) compareIgnoringKnown(obs []qres, m *model) []mismatch {
	var rest []mismatch
	for _, x := range w.compare(obs, m) {
		if !w.isKnownIndirect(x, m) {
			rest = append(rest, x)
		}
	}
	return rest
}

// onlyDirectRetained: obs equals the model in which `to` is recursive AND its
// old direct pin still exists: the Direct-scoped queries report it, nothing
// else differs.
func (w *world) onlyDirectRetained(obs []qres, alt *model, to int) bool {
	for _, r := range obs {
		want := w.expected(alt, r.q, r.ci) // "recursive supersedes" hides D[to] here
		if r.ci == to {
			dn := alt.D[to]
			switch r.q {
			case "IsPinnedWithType/direct":
				want = []string{"true direct"}
			case "CheckIfPinnedWithType/direct":
				want = []string{"direct"}
			case "CheckIfPinnedWithType/direct+names":
				want = []string{fmt.Sprintf("direct name=%q", dn)}
			case "DirectKeys":
				want = []string{"listed"}
			case "DirectKeys+detailed":
				want = []string{fmt.Sprintf("listed direct name=%q", dn)}
			}
		}
		ok := false
		for _, v := range want {
			if v == r.val {
				ok = true
			}
		}
		if !ok && !w.isKnownIndirect(mismatch{r: r}, alt) {
			return false
		}
	}
	return true
}

func vdiff(a, b []qres) string {
	var o []string
	for i := range a {
		if i < len(b) && (a[i].val != b[i].val || a[i].q != b[i].q || a[i].ci != b[i].ci) {
			o = append(o, fmt.Sprintf("%s(c%d): %q -> %q", a[i].q, a[i].ci, a[i].val, b[i].val))
		}
	}
	if len(a) != len(b) {
		o = append(o, fmt.Sprintf("vector length %d -> %d", len(a), len(b)))
	}
	if len(o) > 14 {
		o = append(o[:14], fmt.Sprintf("... %d more", len(o)-14))
	}
	return strings.Join(o, "; ")
}
