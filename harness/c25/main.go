// C25: IPNS validation is unforgeable and self-consistent.
//
// Mutation monitor. Records are created with ipns.NewRecord for two keys of
// each of Ed25519 / secp256k1 / ECDSA / RSA-2048, encoded, and then mutated at
// the protobuf wire level (field set / cleared / replaced / bit-flipped /
// truncated / extended / duplicated / swapped with the fields of donor records
// signed by the same key, another key, or the same key with an expired EOL;
// unknown fields, wrong wire types, non-minimal varints, padding to the size
// limit; the signed CBOR data re-encoded into different bytes for the same
// document, see reencode.go). Every variant is offered to ipns.ValidateWithName, ipns.Validate and
// ipns.Validator.Validate (with and without a KeyBook). Whenever one of them
// ACCEPTS, the oracle recomputes from the raw bytes (own protobuf wire parser,
// libp2p crypto, and the inputs the harness gave to NewRecord) that the
// statement's necessary conditions hold and that all accessors report the
// signed inputs. Rejections are never an alarm (they are counted).
package main

import (
	"errors"
	"fmt"
	"math/big"
	"sort"
	"strings"

	"github.com/ipfs/boxo/ipns"
	ic "github.com/libp2p/go-libp2p/core/crypto"
	"github.com/libp2p/go-libp2p/core/peer"
	"google.golang.org/protobuf/encoding/protowire"

	"verif/harness/c25/kit"
	"verif/vlib"
)

// strictSignatureBytes selects the strict reading of "any change to the v2
// signature makes validation fail" (byte identity with a signature produced
// by the key holder) instead of "the signature verifies over the data".
const strictSignatureBytes = false

func main() { vlib.Run("C25", run) }

func run(c *vlib.Ctx) {
	c.Rule("case = one base record (key type x v1-compat x embed option x future/expired EOL x seq/ttl/value/metadata classes) plus donor records (same key other content, other key same content, same key expired, same key re-signed) and 20-45 wire-level variants (incl. data re-encoded as different CBOR bytes of the same document), each judged through ValidateWithName, Validate, Validator.Validate(+-KeyBook); distinct = FNV of base spec + variant list + observed accept/reject codes; non-trivial = within the case at least one variant was accepted by some entry point AND at least one variant was rejected by all of them (measured)")
	kit.Keys(c.Seed)
	c.Cases("v1", c.N(230, 1400), func(k *vlib.Case) { mutationCase(k, "v1") })
	c.Cases("v2", c.N(170, 1000), func(k *vlib.Case) { mutationCase(k, "v2") })
	c.Cases("legacy", c.N(90, 450), func(k *vlib.Case) { mutationCase(k, "legacy") })
	c.Cases("name", c.N(80, 400), nameCase)
	c.Cases("size", c.N(32, 100), sizeCase)
	c.Cases("malleable", c.N(40, 200), malleableCase)
	c.Cases("flipall", c.N(16, 64), flipAllCase)
	c.Cases("reencode", c.N(48, 400), reencodeCase)
}

// ---------------------------------------------------------------- world

type signedInfo struct {
	spec *kit.Spec
	sigs map[string]bool // genuine v2 signatures the library produced for this data under this key
}

type made struct {
	spec *kit.Spec
	rec  *ipns.Record
	wire []byte
	fs   []kit.Field
}

type world struct {
	k        *vlib.Case
	ks       []*kit.Key
	kb       *kit.KeyBook
	signedBy map[string]map[string]*signedInfo // key ID -> data blob -> info
	anyData  map[string]bool                   // every data blob some harness key signed in this case
	accepted int                               // variants accepted by >= 1 entry point
	rejected int                               // variants rejected by all entry points
	quiet    bool                              // exhaustive sweeps: tally outcome codes instead of logging each variant
	hist     map[string]int
}

func newWorld(k *vlib.Case) *world {
	ks := kit.Keys(k.C.Seed)
	return &world{k: k, ks: ks, kb: kit.NewKeyBook(ks), signedBy: map[string]map[string]*signedInfo{}, anyData: map[string]bool{}}
}

func (w *world) finish() {
	if w.accepted > 0 && w.rejected > 0 {
		w.k.Nontrivial()
	}
	w.k.C.Count("variants_accepted", int64(w.accepted))
	w.k.C.Count("variants_rejected", int64(w.rejected))
}

// make creates a record with the library and registers its signed data and
// signature as genuine.
func (w *world) make(s *kit.Spec) *made {
	rec, err := s.New()
	if err != nil {
		panic(fmt.Errorf("NewRecord(%s): %w", s, err))
	}
	wire, err := ipns.MarshalRecord(rec)
	if err != nil {
		panic(err)
	}
	fs, err := kit.ParseWire(wire)
	if err != nil {
		panic(fmt.Errorf("library output is not parseable protobuf: %w", err))
	}
	v := kit.Effective(fs)
	m := w.signedBy[s.Key.ID]
	if m == nil {
		m = map[string]*signedInfo{}
		w.signedBy[s.Key.ID] = m
	}
	info := m[string(v.Bytes[kit.FData])]
	if info == nil {
		info = &signedInfo{spec: s, sigs: map[string]bool{}}
		m[string(v.Bytes[kit.FData])] = info
	}
	info.sigs[string(v.Bytes[kit.FSignatureV2])] = true
	w.anyData[string(v.Bytes[kit.FData])] = true
	return &made{spec: s, rec: rec, wire: wire, fs: fs}
}

func errCode(err error) string {
	switch {
	case err == nil:
		return "ACCEPT"
	case errors.Is(err, ipns.ErrSignature):
		return "sig"
	case errors.Is(err, ipns.ErrPublicKeyMismatch):
		return "pkmismatch"
	case errors.Is(err, ipns.ErrExpiredRecord):
		return "expired"
	case errors.Is(err, ipns.ErrRecordSize):
		return "size"
	case errors.Is(err, ipns.ErrInvalidPublicKey):
		return "badpk"
	case errors.Is(err, ipns.ErrPublicKeyNotFound), errors.Is(err, peer.ErrNoPublicKey):
		return "nopk"
	case errors.Is(err, ipns.ErrInvalidValidity), errors.Is(err, ipns.ErrUnrecognizedValidity):
		return "validity"
	case errors.Is(err, ipns.ErrInvalidRecord):
		return "invalid"
	case errors.Is(err, ipns.ErrInvalidName):
		return "name"
	case strings.Contains(err.Error(), "did not match between protobuf and CBOR"):
		return "pbcbor"
	default:
		return "other"
	}
}

// judge offers one encoded variant under the name of nk to every entry point
// and applies the oracle to each acceptance. feat names the mutation (used in
// failure classes).
func (w *world) judge(wire []byte, nk *kit.Key, feat string) bool {
	k := w.k
	rk := string(nk.Name.RoutingKey())
	type res struct {
		entry string
		err   error
	}
	var rs []res
	rec, uerr := ipns.UnmarshalRecord(wire)
	if uerr == nil {
		rs = append(rs, res{"ValidateWithName", ipns.ValidateWithName(rec, nk.Name)})
		rs = append(rs, res{"Validate(pk)", ipns.Validate(rec, nk.PK)})
	} else {
		rs = append(rs, res{"UnmarshalRecord", uerr})
	}
	rs = append(rs, res{"Validator", ipns.Validator{}.Validate(rk, wire)})
	rs = append(rs, res{"Validator+KeyBook", ipns.Validator{KeyBook: w.kb}.Validate(rk, wire)})
	var codes []string
	any := false
	for _, r := range rs {
		codes = append(codes, errCode(r.err))
		if r.err == nil && r.entry != "UnmarshalRecord" {
			any = true
		}
	}
	if w.quiet {
		w.hist[strings.Join(codes, " ")]++
	} else {
		k.Logf("   -> %s", strings.Join(codes, " "))
	}
	var fails []failure
	for _, r := range rs {
		if r.err == nil && r.entry != "UnmarshalRecord" {
			fails = append(fails, w.oracle(r.entry, wire, rec, nk, feat)...)
		}
	}
	w.report(fails, wire, nk, feat)
	k.C.Count("validations", int64(len(rs)))
	if any {
		w.accepted++
	} else {
		w.rejected++
	}
	return any
}

type failure struct{ class, clause, exp, obs, entry string }

// report records one violation per failure class of a variant (the entry
// points that showed it are listed in the observation).
func (w *world) report(fails []failure, wire []byte, nk *kit.Key, feat string) {
	done := map[string]bool{}
	for _, f := range fails {
		if done[f.class] {
			continue
		}
		done[f.class] = true
		var entries []string
		for _, g := range fails {
			if g.class == f.class && (len(entries) == 0 || entries[len(entries)-1] != g.entry) {
				entries = append(entries, g.entry)
			}
		}
		w.k.Fail(f.class, f.clause, f.exp, fmt.Sprintf("%s accepted variant [%s] under name of %s: %s (wire %s)", strings.Join(entries, ", "), feat, nk.ID, f.obs, kit.Hex(wire)))
	}
}

// oracle: the record `wire` was accepted by `entry` for the name of nk.
func (w *world) oracle(entry string, wire []byte, rec *ipns.Record, nk *kit.Key, feat string) (fails []failure) {
	k := w.k
	fail := func(class, clause, exp, obs string) {
		fails = append(fails, failure{class, clause, exp, obs, entry})
	}
	v, ok := kit.EffectiveOf(wire)
	if !ok || rec == nil {
		fail("unparseable-accepted", "accept => well-formed protobuf", "rejection", "bytes are not a parseable protobuf message")
		return fails
	}
	// size
	if len(wire) > ipns.MaxRecordSize {
		fail("oversize-accepted/"+featKind(feat), "accept => size <= 10 KiB", fmt.Sprintf("<= %d", ipns.MaxRecordSize), fmt.Sprintf("encoded size %d", len(wire)))
	}
	// embedded key state
	pkState := "none"
	var embedded ic.PubKey
	if len(v.Bytes[kit.FPubKey]) > 0 {
		pk, err := ic.UnmarshalPublicKey(v.Bytes[kit.FPubKey])
		switch {
		case err != nil:
			pkState = "undecodable"
		case pk.Equals(nk.PK):
			pkState = "own"
			embedded = pk
		default:
			pkState = "foreign"
		}
	}
	data, sig := v.Bytes[kit.FData], v.Bytes[kit.FSignatureV2]
	// signature under the key of the name, recomputed with libp2p crypto
	good, verr := nk.PK.Verify(kit.SigV2Message(data), sig)
	if !w.anyData[string(data)] {
		// these bytes were never signed by anybody: whatever the signature field holds, it is not a signature over them
		fail("forged-data-accepted/"+featKind(feat), "accept => data is byte-identical to data signed by the holder of the key (any change to the signed data makes validation fail)", "rejection: no signature over these bytes exists", fmt.Sprintf("independent verify of signatureV2 over these bytes: %v (err %v); data %s", good, verr, kit.Hex(data)))
		return fails
	}
	if verr != nil || !good || len(sig) == 0 || len(data) == 0 {
		fail("sigv2-invalid-accepted/pubkey-"+pkState, "accept => signatureV2 over data verifies under the key of the name", "verifies", fmt.Sprintf("verify=%v err=%v sig=%s", good, verr, kit.Hex(sig)))
		return fails
	}
	info := w.signedBy[nk.ID][string(data)]
	if info == nil {
		fail("forged-data-accepted/other-signer", "accept => data is byte-identical to data signed by the holder of the key", "one of the signed blobs", "data "+kit.Hex(data))
		return fails
	}
	if !info.sigs[string(sig)] {
		// The signature bytes are not ones the key holder produced, yet they verify
		// (ECDSA (r,n-s) twins, bytes trailing the DER structure). The statement is
		// read as "a signature that does not verify over the data is rejected";
		// under the stricter reading "any byte change" this would be a violation.
		if strictSignatureBytes {
			fail("sigv2-altered-accepted/"+nk.Type+"/"+featKind(feat), "any change to the v2 signature makes validation fail", "rejection (signature bytes differ from every signature the key holder produced)", "sig "+kit.Hex(sig))
		} else if entry == "Validator" || entry == "ValidateWithName(fresh)" {
			k.C.Count("observed_verifying_but_altered_sigv2_accepted/"+nk.Type+"/"+featKind(feat), 1)
		}
	}
	// embedded public key must be the key of the name
	if entry != "Validate(pk)" {
		switch pkState {
		case "foreign", "undecodable":
			fail("pubkey-"+pkState+"-accepted", "accept => embedded public key is the key of the name", "key of "+nk.ID, "pubKey "+kit.Hex(v.Bytes[kit.FPubKey]))
		case "none":
			if !nk.Inline && entry != "Validator+KeyBook" {
				fail("no-key-accepted", "accept => a public key for the name is available", "rejection", "no embedded key and the name does not inline one")
			}
		case "own":
			if !kit.Equal(v.Bytes[kit.FPubKey], nk.PKBytes) {
				k.C.Count("pubkey_reencoded_same_key_accepted", 1)
			}
		}
	}
	_ = embedded
	// legacy fields that are present must equal the signed values
	s := info.spec
	gate := "checked"
	if len(v.Bytes[kit.FValue]) == 0 && len(v.Bytes[kit.FSignatureV1]) == 0 {
		gate = "empty-value-and-sigv1"
	}
	// With a non-empty value or signatureV1 the record claims v1 compatibility:
	// every legacy field must then agree with the signed data, and a field that
	// was deleted reads as its protobuf default (empty / 0), which disagrees
	// with a non-default signed value. Without value and signatureV1 (the
	// recorded finding's gate) absent fields are the normal v2-only form and
	// only fields that are present are compared.
	legacy := func(n int, bad bool, exp, obs string) {
		if !bad || (!v.Has[n] && gate != "checked") {
			return
		}
		class := "legacy-mismatch-accepted/" + gate
		if gate == "checked" {
			class += "/" + kit.FieldNames[n]
			if !v.Has[n] {
				class += "-absent"
				obs = "(field absent: protobuf default)"
			}
		}
		fail(class, "accept => every legacy protobuf field equals the signed value (absent = protobuf default when value or signatureV1 is present)", kit.FieldNames[n]+"="+exp, kit.FieldNames[n]+"="+obs)
	}
	legacy(kit.FValue, !kit.Equal(v.Bytes[kit.FValue], []byte(s.Value.String())), fmt.Sprintf("%q", s.Value.String()), fmt.Sprintf("%q", v.Bytes[kit.FValue]))
	legacy(kit.FValidityType, int32(v.Int[kit.FValidityType]) != 0, "0", fmt.Sprint(v.Int[kit.FValidityType]))
	legacy(kit.FValidity, string(v.Bytes[kit.FValidity]) != s.ValidityText(), s.ValidityText(), fmt.Sprintf("%q", v.Bytes[kit.FValidity]))
	legacy(kit.FSequence, v.Int[kit.FSequence] != s.Seq, fmt.Sprint(s.Seq), fmt.Sprint(v.Int[kit.FSequence]))
	legacy(kit.FTTL, v.Int[kit.FTTL] != uint64(s.SignedTTL()), fmt.Sprint(uint64(s.SignedTTL())), fmt.Sprint(v.Int[kit.FTTL]))
	// expiry (EOLs are >= 10 years away from any run date)
	if !s.Future() {
		fail("expired-accepted", "accept => not expired", "rejection (EOL "+s.ValidityText()+")", "accepted")
	}
	// accessors report the signed values
	pubMode := kit.PubSkip
	if entry != "Validate(pk)" {
		if pkState == "own" {
			pubMode = kit.PubOwn
		} else if pkState == "none" {
			pubMode = kit.PubNone
		}
	}
	for _, m := range kit.CheckAccessors(rec, s, pubMode) {
		fail("accessor-mismatch/"+m.Which, "accepted record reports the signed values", m.Which+"="+m.Expected, m.Which+"="+m.Observed)
	}
	return fails
}

// featKind strips the field name from "field:kind[+field:kind]".
func featKind(feat string) string {
	parts := strings.Split(feat, "+")
	for i, p := range parts {
		if j := strings.Index(p, ":"); j >= 0 {
			parts[i] = p[j+1:]
		}
	}
	return strings.Join(parts, "+")
}

// ---------------------------------------------------------------- mutations

type mutCtx struct {
	r      *vlib.Rand
	base   *made
	donors map[string]*made // "same-key", "other-key", "expired", "resigned"
	other  *kit.Key
	mode   string // v1 | v2 | legacy
}

func setField(fs []kit.Field, f kit.Field) []kit.Field {
	if i := kit.IndexOf(fs, int(f.Num)); i >= 0 {
		fs[i] = f
		return fs
	}
	return append(fs, f)
}

func bytesField(n int, b []byte) kit.Field {
	return kit.Field{Num: protowire.Number(n), Typ: protowire.BytesType, B: b}
}
func varintField(n int, v uint64) kit.Field {
	return kit.Field{Num: protowire.Number(n), Typ: protowire.VarintType, V: v}
}

// pickBytesField chooses a present, non-empty bytes field, favouring the v2 fields.
func pickBytesField(r *vlib.Rand, fs []kit.Field, exclude int) int {
	var pool []int
	w := map[int]int{kit.FSignatureV2: 5, kit.FPubKey: 4, kit.FData: 5, kit.FValue: 2, kit.FValidity: 2, kit.FSignatureV1: 1}
	for n, wt := range w {
		if n == exclude {
			continue
		}
		if i := kit.IndexOf(fs, n); i >= 0 && len(fs[i].B) > 0 {
			for j := 0; j < wt; j++ {
				pool = append(pool, n)
			}
		}
	}
	if len(pool) == 0 {
		return -1
	}
	// map iteration order is random: sort the pool to keep the draw deterministic
	for i := 1; i < len(pool); i++ {
		for j := i; j > 0 && pool[j] < pool[j-1]; j-- {
			pool[j], pool[j-1] = pool[j-1], pool[j]
		}
	}
	return pool[r.Intn(len(pool))]
}

func nonMinimalVarint(n int, v uint64, pad int) []byte {
	b := protowire.AppendTag(nil, protowire.Number(n), protowire.VarintType)
	enc := protowire.AppendVarint(nil, v)
	if len(enc)+pad > 10 {
		pad = 10 - len(enc)
	}
	if pad <= 0 {
		return append(b, enc...)
	}
	enc[len(enc)-1] |= 0x80
	for i := 0; i < pad-1; i++ {
		enc = append(enc, 0x80)
	}
	enc = append(enc, 0x00)
	return append(b, enc...)
}

// one applies one mutation to fs and returns (description, feature, new
// fields). ok=false: the drawn mutation does not apply to this record.
func (m *mutCtx) one(fs []kit.Field) (desc, feat string, out []kit.Field, ok bool) {
	r := m.r
	fs = kit.CloneFields(fs)
	name := func(n int) string { return kit.FieldNames[n] }
	kind := r.Intn(100)
	switch {
	case kind < 30: // bit flip
		n := pickBytesField(r, fs, -1)
		if n < 0 {
			return
		}
		i := kit.IndexOf(fs, n)
		u, bit := r.Intn(1<<20), r.Intn(8)
		pos := u % len(fs[i].B)
		if r.Chance(1, 4) { // edges: first / last byte
			pos = vlib.Pick(r, []int{0, len(fs[i].B) - 1})
			u = pos
		}
		fs[i].B[pos] ^= 1 << uint(bit)
		return fmt.Sprintf("flip %s byte u=%d mod len, bit %d", name(n), u, bit), name(n) + ":flip", fs, true
	case kind < 35: // random replacement, same length
		n := pickBytesField(r, fs, -1)
		if n < 0 {
			return
		}
		i := kit.IndexOf(fs, n)
		fs[i].B = r.Bytes(len(fs[i].B))
		return "replace " + name(n) + " by random bytes of the same length", name(n) + ":random", fs, true
	case kind < 42: // clear
		n := 1 + r.Intn(9)
		if r.Bool() { // favour deleting a single legacy field (reads as its default afterwards)
			n = vlib.Pick(r, []int{kit.FValue, kit.FValidityType, kit.FValidity, kit.FSequence, kit.FTTL, kit.FSignatureV1})
		}
		if kit.IndexOf(fs, n) < 0 {
			return
		}
		return "clear " + name(n), name(n) + ":clear", kit.Without(fs, n), true
	case kind < 46: // empty
		n := pickBytesField(r, fs, -1)
		if n < 0 {
			return
		}
		fs[kit.IndexOf(fs, n)].B = []byte{}
		return "set " + name(n) + " to zero length", name(n) + ":empty", fs, true
	case kind < 51: // truncate
		n := pickBytesField(r, fs, -1)
		if n < 0 {
			return
		}
		i := kit.IndexOf(fs, n)
		if r.Bool() {
			fs[i].B = fs[i].B[:len(fs[i].B)-1]
			return "truncate " + name(n) + " by its last byte", name(n) + ":trunc", fs, true
		}
		fs[i].B = fs[i].B[1:]
		return "truncate " + name(n) + " by its first byte", name(n) + ":trunc", fs, true
	case kind < 55: // extend (signatureV2 extension lives in the malleable stratum)
		n := pickBytesField(r, fs, kit.FSignatureV2)
		if n < 0 {
			return
		}
		i := kit.IndexOf(fs, n)
		x := byte(r.Intn(256))
		if r.Bool() {
			x = 0
		}
		fs[i].B = append(fs[i].B, x)
		return fmt.Sprintf("extend %s by byte %02x", name(n), x), name(n) + ":extend", fs, true
	case kind < 65: // take one field from a donor
		dn := vlib.Pick(r, []string{"same-key", "other-key", "expired", "resigned"})
		d := m.donors[dn]
		n := vlib.Pick(r, []int{kit.FData, kit.FSignatureV2, kit.FSignatureV2, kit.FPubKey, kit.FValue, kit.FValidity, kit.FSequence, kit.FTTL, kit.FSignatureV1})
		di := kit.IndexOf(d.fs, n)
		if di < 0 {
			return
		}
		if m.mode != "legacy" && n <= 6 && kit.IndexOf(fs, n) < 0 {
			return // no legacy injection outside the legacy stratum
		}
		fs = setField(fs, d.fs[di])
		return fmt.Sprintf("take %s from donor %s", name(n), dn), name(n) + ":donor-" + dn, fs, true
	case kind < 70: // data+signature (+pubKey) of a donor inside the base envelope
		dn := vlib.Pick(r, []string{"same-key", "other-key", "expired"})
		d := m.donors[dn]
		fs = setField(fs, d.fs[kit.IndexOf(d.fs, kit.FData)])
		fs = setField(fs, d.fs[kit.IndexOf(d.fs, kit.FSignatureV2)])
		withPk := r.Bool()
		if withPk {
			if di := kit.IndexOf(d.fs, kit.FPubKey); di >= 0 {
				fs = setField(fs, d.fs[di])
			} else {
				fs = kit.Without(fs, kit.FPubKey)
			}
		}
		return fmt.Sprintf("take data+signatureV2 (pubKey too: %v) from donor %s", withPk, dn), "data+signatureV2:donor-" + dn, fs, true
	case kind < 76: // later duplicate occurrence with corrupted content (last one wins)
		n := pickBytesField(r, fs, -1)
		if n < 0 {
			return
		}
		f := fs[kit.IndexOf(fs, n)]
		f.B = append([]byte{}, f.B...)
		f.B[r.Intn(len(f.B))] ^= 1 << uint(r.Intn(8))
		return "append a second, corrupted occurrence of " + name(n) + " (last wins)", name(n) + ":dup-last", append(fs, f), true
	case kind < 80: // earlier duplicate occurrence with corrupted content (benign)
		n := pickBytesField(r, fs, -1)
		if n < 0 {
			return
		}
		f := fs[kit.IndexOf(fs, n)]
		f.B = append([]byte{}, f.B...)
		f.B[r.Intn(len(f.B))] ^= 1 << uint(r.Intn(8))
		return "prepend a corrupted occurrence of " + name(n) + " (original still last)", name(n) + ":dup-first", append([]kit.Field{f}, fs...), true
	case kind < 88: // varint legacy fields
		n := vlib.Pick(r, []int{kit.FValidityType, kit.FSequence, kit.FTTL})
		i := kit.IndexOf(fs, n)
		if i < 0 {
			return
		}
		old := fs[i].V
		nv := vlib.Pick(r, []uint64{old + 1, old - 1, 0, 1, 1<<64 - 1, old ^ (1 << uint(r.Intn(64))), old + 1<<32, old / 1000000000})
		if nv == old {
			nv = old + 7
		}
		fs[i].V = nv
		return fmt.Sprintf("set %s := %d", name(n), nv), name(n) + ":varint", fs, true
	case kind < 91: // non-minimal varint, same value (benign)
		n := vlib.Pick(r, []int{kit.FValidityType, kit.FSequence, kit.FTTL})
		i := kit.IndexOf(fs, n)
		if i < 0 {
			return
		}
		fs[i].Raw = nonMinimalVarint(n, fs[i].V, r.Range(1, 3))
		return "re-encode " + name(n) + " as a non-minimal varint of the same value", name(n) + ":nonminimal", fs, true
	case kind < 94: // unknown field
		num := r.Range(10, 40)
		var f kit.Field
		switch r.Intn(3) {
		case 0:
			f = kit.Field{Num: protowire.Number(num), Typ: protowire.VarintType, V: r.Uint64()}
		case 1:
			f = kit.Field{Num: protowire.Number(num), Typ: protowire.BytesType, B: r.Bytes(r.Intn(40))}
		default:
			f = kit.Field{Num: protowire.Number(num), Typ: protowire.Fixed64Type, V: r.Uint64()}
		}
		at := r.Intn(len(fs) + 1)
		fs = append(fs[:at], append([]kit.Field{f}, fs[at:]...)...)
		return fmt.Sprintf("insert unknown field %d (wire type %d) at index %d", num, f.Typ, at), "unknown:insert", fs, true
	case kind < 97: // known field number with the wrong wire type (an unknown field by protobuf rules)
		n := 1 + r.Intn(9)
		var f kit.Field
		if kit.IsBytesField(n) {
			f = kit.Field{Num: protowire.Number(n), Typ: protowire.VarintType, V: r.Uint64() >> uint(r.Intn(64))}
		} else {
			f = kit.Field{Num: protowire.Number(n), Typ: protowire.BytesType, B: r.Bytes(r.Intn(12))}
		}
		return "append " + name(n) + " with the wrong wire type", name(n) + ":wrongtype", append(fs, f), true
	default: // reorder
		seen := map[protowire.Number]bool{}
		for _, f := range fs {
			if seen[f.Num] {
				return // order matters when a field occurs twice
			}
			seen[f.Num] = true
		}
		vlib.Shuffle(r, fs)
		return "shuffle field order", "order:shuffle", fs, true
	}
}

// pubkeyInsert handles records without an embedded key: insert own / foreign /
// garbage pubKey.
func (m *mutCtx) pubkeyInsert(fs []kit.Field) (desc, feat string, out []kit.Field) {
	fs = kit.CloneFields(fs)
	switch m.r.Intn(3) {
	case 0:
		return "set pubKey := signer's own key", "pubKey:own", setField(fs, bytesField(kit.FPubKey, m.base.spec.Key.PKBytes))
	case 1:
		return "set pubKey := key of " + m.other.ID, "pubKey:foreign", setField(fs, bytesField(kit.FPubKey, m.other.PKBytes))
	default:
		return "set pubKey := random bytes", "pubKey:random", setField(fs, bytesField(kit.FPubKey, m.r.Bytes(m.r.Range(1, 40))))
	}
}

// legacyInject adds / overwrites one legacy field with an equal or a
// different value (legacy stratum only).
func (m *mutCtx) legacyInject(fs []kit.Field) (desc, feat string, out []kit.Field) {
	r := m.r
	fs = kit.CloneFields(fs)
	s := m.base.spec
	n := vlib.Pick(r, []int{kit.FValidityType, kit.FValidity, kit.FSequence, kit.FTTL, kit.FValue})
	equal := r.Chance(1, 3)
	how := "different from"
	if equal {
		how = "equal to"
	}
	var f kit.Field
	switch n {
	case kit.FValidityType:
		v := uint64(0)
		if !equal {
			v = vlib.Pick(r, []uint64{1, 2, 1 << 31, 1<<32 - 1})
		}
		f = varintField(n, v)
	case kit.FValidity:
		b := []byte(s.ValidityText())
		if !equal {
			b = vlib.Pick(r, [][]byte{[]byte("9999-12-31T23:59:59Z"), []byte("2200-01-01T00:00:00Z"), {}, []byte("garbage")})
			if string(b) == s.ValidityText() {
				b = []byte("2201-01-01T00:00:00Z")
			}
		}
		f = bytesField(n, b)
	case kit.FSequence:
		v := s.Seq
		if !equal {
			v = vlib.Pick(r, []uint64{s.Seq + 1, s.Seq + 992, 1<<64 - 1 - s.Seq})
			if v == s.Seq {
				v++
			}
		}
		f = varintField(n, v)
	case kit.FTTL:
		v := uint64(s.SignedTTL())
		if !equal {
			v = v + 1 + uint64(r.Intn(1000))
		}
		f = varintField(n, v)
	default: // value: only the empty (present) value keeps the record v2-only by boxo's gate
		if equal {
			f = bytesField(n, []byte(s.Value.String()))
		} else {
			f = bytesField(n, []byte{})
		}
	}
	return fmt.Sprintf("inject legacy %s %s the signed value", kit.FieldNames[n], how), kit.FieldNames[n] + ":inject-" + map[bool]string{true: "equal", false: "different"}[equal], setField(fs, f)
}

// ---------------------------------------------------------------- strata

func otherKey(r *vlib.Rand, ks []*kit.Key, key *kit.Key) *kit.Key {
	for {
		o := vlib.Pick(r, ks)
		if o == key {
			continue
		}
		if r.Bool() && o.Type != key.Type {
			continue // half of the time insist on the same key type
		}
		return o
	}
}

func mutationCase(k *vlib.Case, mode string) {
	r := k.R
	w := newWorld(k)
	defer w.finish()
	key := vlib.Pick(r, w.ks)
	other := otherKey(r, w.ks, key)
	future := !r.Chance(1, 6)
	bs := kit.GenSpec(r, w.ks, key, future)
	bs.V1 = mode == "v1" || (mode == "legacy" && r.Chance(1, 3))
	k.Logf("stratum %s; base: %s", mode, bs)
	base := w.make(bs)

	d1 := *bs
	d1.Seq, d1.Value, d1.EOL = bs.Seq+1, kit.GenPath(r, w.ks), kit.GenEOL(r, true)
	if r.Bool() {
		d1.TTL = kit.GenTTL(r, false)
	}
	d2 := *bs
	d2.Key = other
	d3 := *bs
	d3.EOL = kit.GenEOL(r, false)
	d3.Seq = bs.Seq + uint64(r.Intn(2))
	d4 := *bs
	donors := map[string]*made{"same-key": w.make(&d1), "other-key": w.make(&d2), "expired": w.make(&d3), "resigned": w.make(&d4)}
	k.Logf("donor same-key: %s", &d1)
	k.Logf("donor other-key: key=%s, otherwise as base", other.ID)
	k.Logf("donor expired: eol=%s seq=%d, otherwise as base", d3.ValidityText(), d3.Seq)

	// unmodified records under their own names
	k.Logf("pristine base under %s", key.ID)
	w.judge(base.wire, key, "pristine")
	for _, dn := range []string{"same-key", "other-key", "expired"} {
		d := donors[dn]
		k.Logf("pristine donor %s under %s", dn, d.spec.Key.ID)
		w.judge(d.wire, d.spec.Key, "pristine")
	}

	m := &mutCtx{r: r, base: base, donors: donors, other: other, mode: mode}
	start := base.fs
	if mode == "legacy" && bs.V1 {
		// a v1-compatible record stripped of value and signatureV1: by boxo's rule a v2-only record that still carries legacy fields
		start = kit.Without(kit.Without(start, kit.FValue), kit.FSignatureV1)
		k.Logf("legacy stratum: value and signatureV1 stripped from the base")
	}
	n := r.Range(20, 45)
	for i := 0; i < n; i++ {
		var desc, feat string
		var fs []kit.Field
		switch {
		case mode == "legacy" && r.Chance(3, 4):
			desc, feat, fs = m.legacyInject(start)
			if r.Chance(1, 4) {
				d2, f2, fs2 := m.legacyInject(fs)
				desc, feat, fs = desc+"; "+d2, feat+"+"+f2, fs2
			}
		case r.Chance(1, 14):
			if w.judgeReencoded(r, &made{spec: base.spec, fs: start}, key, vlib.Pick(r, append([]string{"map-reverse", "map-shuffle", "map-swap-adjacent", "map-shuffle", "map-swap-adjacent"}, reencodeKinds...))) {
				continue
			}
			i--
			continue
		case r.Chance(1, 12):
			desc, feat, fs = m.pubkeyInsert(start)
		default:
			var ok bool
			for !ok {
				desc, feat, fs, ok = m.one(start)
			}
			if r.Chance(1, 6) {
				if d2, f2, fs2, ok2 := m.one(fs); ok2 {
					desc, feat, fs = desc+"; "+d2, feat+"+"+f2, fs2
				}
			}
		}
		if mode != "legacy" {
			// keep the trigger of the known legacy finding (no value, no signatureV1, legacy fields present) out of this stratum
			v := kit.Effective(fs)
			if len(v.Bytes[kit.FValue]) == 0 && len(v.Bytes[kit.FSignatureV1]) == 0 && (v.Has[kit.FValue] || v.Has[kit.FValidityType] || v.Has[kit.FValidity] || v.Has[kit.FSequence] || v.Has[kit.FTTL]) {
				i--
				continue
			}
		}
		k.Logf("variant %d: %s", i, desc)
		w.judge(kit.EncodeWire(fs), key, feat)
	}
	k.C.Count("variants", int64(n+4))
}

// flipAllCase: one bit flipped at EVERY byte position of signatureV2, pubKey,
// signatureV1, value, validity and data (one variant per position).
func flipAllCase(k *vlib.Case) {
	r := k.R
	w := newWorld(k)
	defer w.finish()
	key := w.ks[k.Index%len(w.ks)] // every key is swept
	bs := kit.GenSpec(r, w.ks, key, true)
	if bs.Embed != nil && !*bs.Embed && !key.Inline {
		bs.Embed = nil
	}
	k.Logf("stratum flipall; base: %s", bs)
	base := w.make(bs)
	k.Logf("pristine base under %s", key.ID)
	w.judge(base.wire, key, "pristine")
	nv := 1
	for _, n := range []int{kit.FSignatureV2, kit.FPubKey, kit.FData, kit.FValue, kit.FValidity, kit.FSignatureV1} {
		i := kit.IndexOf(base.fs, n)
		if i < 0 || len(base.fs[i].B) == 0 {
			continue
		}
		k.Logf("flip one bit (drawn per position) at every byte position of %s", kit.FieldNames[n])
		w.quiet, w.hist = true, map[string]int{}
		for pos := range base.fs[i].B {
			fs := kit.CloneFields(base.fs)
			fs[i].B[pos] ^= 1 << uint(r.Intn(8))
			w.judge(kit.EncodeWire(fs), key, kit.FieldNames[n]+":flip")
			nv++
		}
		w.quiet = false
		var hs []string
		for c, cnt := range w.hist {
			hs = append(hs, fmt.Sprintf("%dx[%s]", cnt, c))
		}
		sort.Strings(hs)
		k.Logf("   -> %s", strings.Join(hs, " "))
	}
	k.C.Count("variants", int64(nv))
}

// nameCase: one record offered under every generated name, with the embedded
// key absent / the signer's / the target name's.
func nameCase(k *vlib.Case) {
	r := k.R
	w := newWorld(k)
	defer w.finish()
	key := vlib.Pick(r, w.ks)
	bs := kit.GenSpec(r, w.ks, key, true)
	k.Logf("stratum name; base: %s", bs)
	base := w.make(bs)
	nv := 0
	for _, nk := range w.ks {
		// the same content genuinely signed by nk (so that "signed by nk" and "signed by key" differ only in the signer)
		ts := *bs
		ts.Key = nk
		twin := w.make(&ts)
		sigTwin := twin.fs[kit.IndexOf(twin.fs, kit.FSignatureV2)]
		variants := []struct {
			desc, feat string
			fs         []kit.Field
		}{
			{"as created", "name:as-is", kit.CloneFields(base.fs)},
			{"pubKey removed", "pubKey:clear", kit.Without(kit.CloneFields(base.fs), kit.FPubKey)},
			{"pubKey := signer " + key.ID, "pubKey:signer", setField(kit.CloneFields(base.fs), bytesField(kit.FPubKey, key.PKBytes))},
			{"pubKey := key of the name " + nk.ID, "pubKey:of-name", setField(kit.CloneFields(base.fs), bytesField(kit.FPubKey, nk.PKBytes))},
			{"signatureV2 := genuine signature of " + nk.ID + " over the same data, pubKey := signer " + key.ID, "signatureV2:of-name+pubKey:signer", setField(setField(kit.CloneFields(base.fs), sigTwin), bytesField(kit.FPubKey, key.PKBytes))},
		}
		for _, vr := range variants {
			if nk != key && !r.Chance(2, 3) {
				continue
			}
			k.Logf("record signed by %s offered under name of %s: %s", key.ID, nk.ID, vr.desc)
			w.judge(kit.EncodeWire(vr.fs), nk, vr.feat)
			nv++
		}
	}
	k.C.Count("variants", int64(nv))
}

// filler returns unknown fields (number 15) whose encoding is exactly n bytes (n >= 2).
func filler(n int) []kit.Field {
	mk := func(payload int) kit.Field {
		return kit.Field{Num: 15, Typ: protowire.BytesType, B: make([]byte, payload)}
	}
	switch {
	case n < 2:
		return nil
	case n <= 129:
		return []kit.Field{mk(n - 2)}
	case n == 130:
		return []kit.Field{mk(62), mk(64)}
	default:
		return []kit.Field{mk(n - 3)}
	}
}

// sizeCase: records of exactly chosen encoded sizes around the 10 KiB limit,
// obtained by signed padding (metadata), by unknown-field padding and by
// repeating a known field (encoded size above the limit while the decoded
// message is small).
func sizeCase(k *vlib.Case) {
	r := k.R
	w := newWorld(k)
	defer w.finish()
	key := vlib.Pick(r, w.ks)
	bs := kit.GenSpec(r, w.ks, key, true)
	if bs.Embed != nil && !*bs.Embed && !key.Inline {
		bs.Embed = nil
	}
	if bs.Meta == nil {
		bs.Meta = map[string]any{}
	}
	k.Logf("stratum size; base: %s", bs)
	max := ipns.MaxRecordSize
	targets := []int{max - 1, max, max + 1, max + 2, max + r.Range(3, 300), max - r.Range(2, 300)}
	nv := 0
	salt := r.Fork("salt") // the number of draws below depends on signature lengths; keep them off the case PRNG
	for _, T := range targets {
		// (a) signed padding
		ps := *bs
		pad := T - 600
		if bs.V1 {
			pad = T - 1400
		}
		var mdl *made
		for iter := 0; iter < 80; iter++ { // DER signature lengths vary by a byte or two between signings: retry
			pp := ps
			// fresh map: specs stay immutable once registered. The salt re-randomises deterministic (RFC 6979) signatures, whose DER length would otherwise make the search cycle.
			pp.Meta = map[string]any{"_pad": strings.Repeat("p", pad), "_salt": fmt.Sprintf("%016x", salt.Uint64())}
			for mk, mv := range bs.Meta {
				pp.Meta[mk] = mv
			}
			mdl = w.make(&pp)
			if len(mdl.wire) == T {
				break
			}
			pad += T - len(mdl.wire)
		}
		if len(mdl.wire) != T {
			panic(fmt.Sprintf("could not hit size %d (got %d)", T, len(mdl.wire)))
		}
		k.Logf("signed padding to encoded size %d (limit %+d): fresh Record straight from NewRecord", T, T-max)
		e1 := ipns.ValidateWithName(mdl.rec, key.Name)
		e2 := ipns.Validate(mdl.rec, key.PK)
		k.Logf("   -> fresh: %s %s", errCode(e1), errCode(e2))
		var fails []failure
		if e1 == nil {
			fails = append(fails, w.oracle("ValidateWithName(fresh)", mdl.wire, mdl.rec, key, "size:signed-pad")...)
		}
		if e2 == nil {
			fails = append(fails, w.oracle("Validate(pk)", mdl.wire, mdl.rec, key, "size:signed-pad")...)
		}
		w.report(fails, mdl.wire, key, "size:signed-pad")
		if e1 == nil || e2 == nil {
			w.accepted++
		} else {
			w.rejected++
		}
		k.Logf("signed padding to encoded size %d: decoded from bytes", T)
		w.judge(mdl.wire, key, "size:signed-pad")
		nv += 2
	}
	small := w.make(bs)
	for _, T := range targets {
		// (b) unknown-field padding
		need := T - len(small.wire)
		fs := kit.CloneFields(small.fs)
		// tag(1) + len varint(2) + payload
		payload := need - 3
		f := kit.Field{Num: 15, Typ: protowire.BytesType, B: make([]byte, payload)}
		fs = append(fs, f)
		wire := kit.EncodeWire(fs)
		if len(wire) != T {
			panic(fmt.Sprintf("unknown-field padding produced %d, want %d", len(wire), T))
		}
		k.Logf("unknown-field padding to encoded size %d (limit %+d)", T, T-max)
		w.judge(wire, key, "size:unknown-pad")
		nv++
		// (c) repeat the data field (identical copies) and fill the rest with an unknown field
		fs = nil
		dataF := small.fs[kit.IndexOf(small.fs, kit.FData)]
		one := len(kit.EncodeWire([]kit.Field{dataF}))
		copies := (T - len(small.wire) - 8) / one
		for i := 0; i < copies; i++ {
			fs = append(fs, dataF)
		}
		fs = append(fs, kit.CloneFields(small.fs)...)
		fs = append(fs, filler(T-len(kit.EncodeWire(fs)))...)
		wire = kit.EncodeWire(fs)
		if len(wire) != T {
			panic(fmt.Sprintf("repeated-field padding produced %d, want %d", len(wire), T))
		}
		k.Logf("%d extra identical copies of data + filler to encoded size %d (limit %+d); decoded message is small", copies, T, T-max)
		w.judge(wire, key, "size:repeat-pad")
		nv++
	}
	k.C.Count("variants", int64(nv))
}

// ---------------------------------------------------------------- signature malleability

var (
	p256N, _    = new(big.Int).SetString("ffffffff00000000ffffffffffffffffbce6faada7179e84f3b9cac2fc632551", 16)
	secpN, _    = new(big.Int).SetString("fffffffffffffffffffffffffffffffebaaedce6af48a03bbfd25e8cd0364141", 16)
	ed25519L, _ = new(big.Int).SetString("1000000000000000000000000000000014def9dea2f79cd65812631a5cf5d3ed", 16)
)

func derInt(x *big.Int) []byte {
	b := x.Bytes()
	if len(b) == 0 {
		b = []byte{0}
	}
	if b[0]&0x80 != 0 {
		b = append([]byte{0}, b...)
	}
	return append([]byte{0x02, byte(len(b))}, b...)
}

// negateS rewrites a DER ECDSA signature (r,s) as (r, n-s); ok=false if the
// input is not the simple DER form.
func negateS(sig []byte, n *big.Int) ([]byte, bool) {
	if len(sig) < 8 || sig[0] != 0x30 || int(sig[1]) != len(sig)-2 || sig[2] != 0x02 {
		return nil, false
	}
	rl := int(sig[3])
	if 4+rl+2 > len(sig) || sig[4+rl] != 0x02 {
		return nil, false
	}
	sl := int(sig[5+rl])
	if 6+rl+sl != len(sig) {
		return nil, false
	}
	rr := new(big.Int).SetBytes(sig[4 : 4+rl])
	ss := new(big.Int).SetBytes(sig[6+rl:])
	ns := new(big.Int).Sub(n, ss)
	body := append(derInt(rr), derInt(ns)...)
	return append([]byte{0x30, byte(len(body))}, body...), true
}

// malleableCase: changes to signatureV2 that keep the underlying signature
// equation intact or only add bytes around it. The statement demands that
// every change of the v2 signature is rejected.
func malleableCase(k *vlib.Case) {
	r := k.R
	w := newWorld(k)
	defer w.finish()
	key := vlib.Pick(r, w.ks)
	bs := kit.GenSpec(r, w.ks, key, true)
	if bs.Embed != nil && !*bs.Embed && !key.Inline {
		bs.Embed = nil
	}
	k.Logf("stratum malleable; base: %s", bs)
	base := w.make(bs)
	k.Logf("pristine base under %s", key.ID)
	w.judge(base.wire, key, "pristine")
	sig := base.fs[kit.IndexOf(base.fs, kit.FSignatureV2)].B
	try := func(desc, kind string, ns []byte) {
		fs := setField(kit.CloneFields(base.fs), bytesField(kit.FSignatureV2, ns))
		k.Logf("signatureV2 %s", desc)
		w.judge(kit.EncodeWire(fs), key, "signatureV2:"+kind)
	}
	nv := 1
	for i := 0; i < 4; i++ {
		x := r.Bytes(r.Range(1, 3))
		if r.Bool() {
			x = make([]byte, len(x))
		}
		try(fmt.Sprintf("extended by trailing bytes %x", x), "extend", append(append([]byte{}, sig...), x...))
		nv++
	}
	try("prefixed by a zero byte", "prefix", append([]byte{0}, sig...))
	nv++
	{
		// the embedded key re-encoded: an unknown field inside the libp2p PublicKey message; it still denotes the signer's key
		pkb := append(append([]byte{}, key.PKBytes...), 0x18, 0x01)
		fs := setField(kit.CloneFields(base.fs), bytesField(kit.FPubKey, pkb))
		k.Logf("pubKey := signer's key re-encoded with an unknown field inside the PublicKey message")
		w.judge(kit.EncodeWire(fs), key, "pubKey:reencode")
		nv++
	}
	switch key.Type {
	case "ecdsa", "secp256k1":
		n := p256N
		if key.Type == "secp256k1" {
			n = secpN
		}
		if ns, ok := negateS(sig, n); ok {
			try("(r,s) rewritten as (r, n-s)", "neg-s", ns)
			nv++
		}
		// non-minimal DER: long-form length for the outer SEQUENCE
		if sig[0] == 0x30 && int(sig[1]) == len(sig)-2 {
			try("outer DER length in long form (0x81 len)", "der-longform", append([]byte{0x30, 0x81, sig[1]}, sig[2:]...))
			nv++
		}
	case "ed25519":
		// S := S + L (non-canonical scalar)
		if len(sig) == 64 {
			sLE := append([]byte{}, sig[32:]...)
			for i, j := 0, len(sLE)-1; i < j; i, j = i+1, j-1 {
				sLE[i], sLE[j] = sLE[j], sLE[i]
			}
			s2 := new(big.Int).Add(new(big.Int).SetBytes(sLE), ed25519L)
			b := s2.Bytes()
			if len(b) <= 32 {
				out := make([]byte, 32)
				for i := range b {
					out[i] = b[len(b)-1-i]
				}
				try("S rewritten as S+L (non-canonical scalar)", "s-plus-l", append(append([]byte{}, sig[:32]...), out...))
				nv++
			}
		}
	case "rsa":
		// s := s + n does not fit the modulus size; leading zero byte handled by "prefix"
	}
	k.C.Count("variants", int64(nv))
}
