package main

// "data re-encoded, same decoded content": the signed DAG-CBOR map is taken
// apart with the harness's own CBOR item splitter and written back in forms
// that are different bytes for the same document (entry order, non-minimal
// heads, indefinite-length forms, ...). No signature over those bytes exists,
// so every such variant must be rejected.

import (
	"errors"
	"fmt"

	"github.com/ipfs/boxo/ipns"

	"verif/harness/c25/kit"
	"verif/vlib"
)

type cborItem struct {
	major   byte
	arg     uint64
	payload []byte // string payload (major 2/3), nil otherwise
	raw     []byte // the item exactly as it was encoded
}

type cborKV struct{ k, v cborItem }

func cborHeadAt(b []byte) (major byte, arg uint64, n int, err error) {
	if len(b) == 0 {
		return 0, 0, 0, errors.New("truncated")
	}
	major, info := b[0]>>5, b[0]&31
	size := 0
	switch {
	case info < 24:
		return major, uint64(info), 1, nil
	case info == 24:
		size = 1
	case info == 25:
		size = 2
	case info == 26:
		size = 4
	case info == 27:
		size = 8
	default:
		return 0, 0, 0, fmt.Errorf("unsupported additional info %d", info)
	}
	if len(b) < 1+size {
		return 0, 0, 0, errors.New("truncated")
	}
	for i := 1; i <= size; i++ {
		arg = arg<<8 | uint64(b[i])
	}
	return major, arg, 1 + size, nil
}

func cborItemAt(b []byte) (cborItem, int, error) {
	major, arg, n, err := cborHeadAt(b)
	if err != nil {
		return cborItem{}, 0, err
	}
	it := cborItem{major: major, arg: arg}
	switch major {
	case 0, 1, 7:
	case 2, 3:
		if uint64(len(b)-n) < arg {
			return cborItem{}, 0, errors.New("truncated string")
		}
		it.payload = b[n : n+int(arg)]
		n += int(arg)
	default:
		return cborItem{}, 0, fmt.Errorf("unsupported major type %d", major)
	}
	it.raw = b[:n]
	return it, n, nil
}

// splitCBORMap splits a definite-length map of scalars into its entries.
func splitCBORMap(b []byte) ([]cborKV, error) {
	major, cnt, n, err := cborHeadAt(b)
	if err != nil || major != 5 {
		return nil, fmt.Errorf("not a definite-length map (major %d, %v)", major, err)
	}
	b = b[n:]
	var kvs []cborKV
	for i := uint64(0); i < cnt; i++ {
		k, n, err := cborItemAt(b)
		if err != nil {
			return nil, err
		}
		b = b[n:]
		v, n, err := cborItemAt(b)
		if err != nil {
			return nil, err
		}
		b = b[n:]
		kvs = append(kvs, cborKV{k, v})
	}
	if len(b) != 0 {
		return nil, errors.New("trailing bytes")
	}
	return kvs, nil
}

// head writes a CBOR head; width 0 = minimal, else the number of argument
// bytes to use (1, 2, 4, 8) even if fewer would do.
func head(major byte, arg uint64, width int) []byte {
	if width == 0 {
		switch {
		case arg < 24:
			return []byte{major<<5 | byte(arg)}
		case arg <= 0xff:
			width = 1
		case arg <= 0xffff:
			width = 2
		case arg <= 0xffffffff:
			width = 4
		default:
			width = 8
		}
	}
	info := map[int]byte{1: 24, 2: 25, 4: 26, 8: 27}[width]
	out := []byte{major<<5 | info}
	for i := width - 1; i >= 0; i-- {
		out = append(out, byte(arg>>(8*uint(i))))
	}
	return out
}

// widerThanMinimal returns a head width larger than the minimal one for arg (0 if none exists).
func widerThanMinimal(r *vlib.Rand, arg uint64) int {
	var opts []int
	for _, w := range []int{1, 2, 4, 8} {
		min := 0
		switch {
		case arg < 24:
			min = 0
		case arg <= 0xff:
			min = 1
		case arg <= 0xffff:
			min = 2
		case arg <= 0xffffffff:
			min = 4
		default:
			min = 8
		}
		if w > min {
			opts = append(opts, w)
		}
	}
	if len(opts) == 0 {
		return 0
	}
	return vlib.Pick(r, opts)
}

func writeMap(kvs []cborKV, mapHead []byte, tail []byte) []byte {
	out := append([]byte{}, mapHead...)
	for _, e := range kvs {
		out = append(out, e.k.raw...)
		out = append(out, e.v.raw...)
	}
	return append(out, tail...)
}

var reencodeKinds = []string{"map-reverse", "map-shuffle", "map-swap-adjacent", "map-head-nonminimal", "map-indefinite", "key-len-nonminimal", "key-indefinite", "int-nonminimal", "bytes-len-nonminimal", "bytes-indefinite", "bytes-indefinite-2chunks", "trailing-byte", "duplicate-entry"}

// reencodeData returns different bytes for the same CBOR document; ok=false
// when the drawn kind does not apply (or would reproduce the original bytes).
func reencodeData(r *vlib.Rand, data []byte, kind string) (out []byte, desc string, ok bool) {
	kvs, err := splitCBORMap(data)
	if err != nil {
		panic(fmt.Errorf("library-produced data is not a plain CBOR map: %w", err))
	}
	n := len(kvs)
	minimalHead := head(5, uint64(n), 0)
	cp := append([]cborKV{}, kvs...)
	pickWhere := func(pred func(e cborKV) bool) int {
		var idx []int
		for i, e := range cp {
			if pred(e) {
				idx = append(idx, i)
			}
		}
		if len(idx) == 0 {
			return -1
		}
		return vlib.Pick(r, idx)
	}
	switch kind {
	case "map-reverse":
		for i, j := 0, n-1; i < j; i, j = i+1, j-1 {
			cp[i], cp[j] = cp[j], cp[i]
		}
		out, desc = writeMap(cp, minimalHead, nil), "map entries in reverse order"
	case "map-shuffle":
		vlib.Shuffle(r, cp)
		out, desc = writeMap(cp, minimalHead, nil), "map entries in a random order"
	case "map-swap-adjacent":
		i := r.Intn(n - 1)
		cp[i], cp[i+1] = cp[i+1], cp[i]
		out, desc = writeMap(cp, minimalHead, nil), fmt.Sprintf("map entries %d and %d swapped", i, i+1)
	case "map-head-nonminimal":
		w := widerThanMinimal(r, uint64(n))
		out, desc = writeMap(cp, head(5, uint64(n), w), nil), fmt.Sprintf("map head with a %d-byte count", w)
	case "map-indefinite":
		out, desc = writeMap(cp, []byte{0xbf}, []byte{0xff}), "indefinite-length map"
	case "key-len-nonminimal":
		i := r.Intn(n)
		w := widerThanMinimal(r, cp[i].k.arg)
		cp[i].k.raw = append(head(3, cp[i].k.arg, w), cp[i].k.payload...)
		out, desc = writeMap(cp, minimalHead, nil), fmt.Sprintf("key %q with a %d-byte length", cp[i].k.payload, w)
	case "key-indefinite":
		i := r.Intn(n)
		cp[i].k.raw = append(append([]byte{0x7f}, kvs[i].k.raw...), 0xff)
		out, desc = writeMap(cp, minimalHead, nil), fmt.Sprintf("key %q as an indefinite-length text string", cp[i].k.payload)
	case "int-nonminimal":
		i := pickWhere(func(e cborKV) bool { return e.v.major <= 1 && widerThanMinimal(r, e.v.arg) != 0 })
		if i < 0 {
			return nil, "", false
		}
		w := widerThanMinimal(r, cp[i].v.arg)
		cp[i].v.raw = head(cp[i].v.major, cp[i].v.arg, w)
		out, desc = writeMap(cp, minimalHead, nil), fmt.Sprintf("integer %q with a %d-byte argument", cp[i].k.payload, w)
	case "bytes-len-nonminimal":
		i := pickWhere(func(e cborKV) bool { return e.v.major == 2 || e.v.major == 3 })
		if i < 0 {
			return nil, "", false
		}
		w := widerThanMinimal(r, cp[i].v.arg)
		cp[i].v.raw = append(head(cp[i].v.major, cp[i].v.arg, w), cp[i].v.payload...)
		out, desc = writeMap(cp, minimalHead, nil), fmt.Sprintf("string %q with a %d-byte length", cp[i].k.payload, w)
	case "bytes-indefinite", "bytes-indefinite-2chunks":
		i := pickWhere(func(e cborKV) bool {
			return (e.v.major == 2 || e.v.major == 3) && (kind == "bytes-indefinite" || len(e.v.payload) >= 2)
		})
		if i < 0 {
			return nil, "", false
		}
		m, p := cp[i].v.major, cp[i].v.payload
		raw := []byte{m<<5 | 31}
		if kind == "bytes-indefinite" {
			raw = append(append(raw, head(m, uint64(len(p)), 0)...), p...)
		} else {
			cut := 1 + r.Intn(len(p)-1)
			raw = append(append(raw, head(m, uint64(cut), 0)...), p[:cut]...)
			raw = append(append(raw, head(m, uint64(len(p)-cut), 0)...), p[cut:]...)
		}
		cp[i].v.raw = append(raw, 0xff)
		out, desc = writeMap(cp, minimalHead, nil), fmt.Sprintf("string %q as an indefinite-length string (%s)", cp[i].k.payload, kind)
	case "trailing-byte":
		x := byte(r.Intn(256))
		out, desc = writeMap(cp, minimalHead, []byte{x}), fmt.Sprintf("byte %02x after the end of the map", x)
	case "duplicate-entry":
		i := r.Intn(n)
		cp = append(cp, cp[i])
		out, desc = writeMap(cp, head(5, uint64(n+1), 0), nil), fmt.Sprintf("entry %q repeated at the end", cp[i].k.payload)
	default:
		panic("unknown re-encoding " + kind)
	}
	if string(out) == string(data) {
		return nil, "", false
	}
	return out, desc, true
}

// judgeReencoded offers base with its data replaced by a re-encoding.
func (w *world) judgeReencoded(r *vlib.Rand, base *made, key *kit.Key, kind string) bool {
	di := kit.IndexOf(base.fs, kit.FData)
	nd, desc, ok := reencodeData(r, base.fs[di].B, kind)
	if !ok {
		return false
	}
	fs := kit.CloneFields(base.fs)
	fs[di].B = nd
	wire := kit.EncodeWire(fs)
	w.k.Logf("data re-encoded, same document, different bytes: %s", desc)
	if _, err := ipns.UnmarshalRecord(wire); err == nil {
		w.k.C.Count("data_reencoded_structurally_accepted/"+kind, 1) // the variant reaches the signature check
	} else {
		w.k.C.Count("data_reencoded_refused_by_decoder/"+kind, 1)
	}
	w.judge(wire, key, "data:reencode-"+kind)
	return true
}

// reencodeCase: every re-encoding kind on one record (all keys are swept).
func reencodeCase(k *vlib.Case) {
	r := k.R
	w := newWorld(k)
	defer w.finish()
	key := w.ks[k.Index%len(w.ks)]
	bs := kit.GenSpec(r, w.ks, key, true)
	if bs.Embed != nil && !*bs.Embed && !key.Inline {
		bs.Embed = nil
	}
	k.Logf("stratum reencode; base: %s", bs)
	base := w.make(bs)
	k.Logf("pristine base under %s", key.ID)
	w.judge(base.wire, key, "pristine")
	nv := 1
	for _, kind := range reencodeKinds {
		for rep := 0; rep < 2; rep++ {
			if w.judgeReencoded(r, base, key, kind) {
				nv++
			}
		}
	}
	k.C.Count("variants", int64(nv))
}
