// Package kit is shared by the IPNS harnesses C25, C26 and C27: keys generated
// once per child process, record specifications with generators, an
// independent protobuf wire view of an IPNS record and the accessor oracle.
//
// Nothing here reads the wall clock: expiry instants are absolute dates in
// 2100..9999 ("future") or 0001..2010 ("past"), i.e. at least ten years away
// from any date this code can plausibly run on.
package kit

import (
	"bytes"
	"errors"
	"fmt"
	"hash/fnv"
	"sort"
	"strings"
	"sync"
	"time"

	"github.com/ipfs/boxo/ipns"
	"github.com/ipfs/boxo/path"
	cid "github.com/ipfs/go-cid"
	ic "github.com/libp2p/go-libp2p/core/crypto"
	"github.com/libp2p/go-libp2p/core/peer"
	mh "github.com/multiformats/go-multihash"
	"google.golang.org/protobuf/encoding/protowire"

	"verif/vlib"
)

// ---------------------------------------------------------------- keys

type randReader struct{ r *vlib.Rand }

func (rr randReader) Read(p []byte) (int, error) { copy(p, rr.r.Bytes(len(p))); return len(p), nil }

// Key is one generated key pair with its IPNS name.
type Key struct {
	Type    string // ed25519 | secp256k1 | ecdsa | rsa
	ID      string // e.g. "rsa#1"
	SK      ic.PrivKey
	PK      ic.PubKey
	PKBytes []byte // libp2p protobuf encoding of the public key
	Peer    peer.ID
	Name    ipns.Name
	Inline  bool // the public key can be extracted from the name itself
}

var KeyTypes = []string{"ed25519", "secp256k1", "ecdsa", "rsa"}

var (
	keysOnce sync.Once
	keys     []*Key
)

// Keys returns perType(=2) keys of each of the four key types, generated once
// per process from a PRNG seeded by seed (secp256k1/ECDSA/RSA generation in
// the underlying libraries is not reproducible bit-for-bit; nothing in the
// case descriptions depends on key bytes).
func Keys(seed uint64) []*Key {
	keysOnce.Do(func() {
		r := vlib.NewRand(vlib.SubSeed(seed, "ipns-keys", 0))
		typs := map[string]int{"ed25519": ic.Ed25519, "secp256k1": ic.Secp256k1, "ecdsa": ic.ECDSA, "rsa": ic.RSA}
		for _, tn := range KeyTypes {
			for i := 0; i < 2; i++ {
				sk, pk, err := ic.GenerateKeyPairWithReader(typs[tn], 2048, randReader{r})
				if err != nil {
					panic(fmt.Errorf("keygen %s: %w", tn, err))
				}
				pkb, err := ic.MarshalPublicKey(pk)
				if err != nil {
					panic(err)
				}
				pid, err := peer.IDFromPublicKey(pk)
				if err != nil {
					panic(err)
				}
				_, xerr := pid.ExtractPublicKey()
				keys = append(keys, &Key{Type: tn, ID: fmt.Sprintf("%s#%d", tn, i), SK: sk, PK: pk, PKBytes: pkb,
					Peer: pid, Name: ipns.NameFromPeer(pid), Inline: xerr == nil})
			}
		}
	})
	return keys
}

// KeyBook is an honest peerstore.KeyBook over the generated keys.
type KeyBook struct{ ByPeer map[peer.ID]ic.PubKey }

func NewKeyBook(ks []*Key) *KeyBook {
	kb := &KeyBook{ByPeer: map[peer.ID]ic.PubKey{}}
	for _, k := range ks {
		kb.ByPeer[k.Peer] = k.PK
	}
	return kb
}
func (kb *KeyBook) PubKey(p peer.ID) ic.PubKey {
	if pk, ok := kb.ByPeer[p]; ok {
		return pk
	}
	return nil
}
func (kb *KeyBook) AddPubKey(peer.ID, ic.PubKey) error   { return errors.New("read-only") }
func (kb *KeyBook) PrivKey(peer.ID) ic.PrivKey           { return nil }
func (kb *KeyBook) AddPrivKey(peer.ID, ic.PrivKey) error { return errors.New("read-only") }
func (kb *KeyBook) PeersWithKeys() peer.IDSlice          { return nil }
func (kb *KeyBook) RemovePeer(peer.ID)                   {}

// ---------------------------------------------------------------- specs

// Spec is everything that goes into ipns.NewRecord.
type Spec struct {
	Key   *Key
	Value path.Path
	Seq   uint64
	EOL   time.Time
	TTL   time.Duration
	V1    bool  // WithV1Compatibility
	Embed *bool // WithPublicKey; nil = library default
	Meta  map[string]any
}

func (s *Spec) Options() []ipns.Option {
	opts := []ipns.Option{ipns.WithV1Compatibility(s.V1)}
	if s.Embed != nil {
		opts = append(opts, ipns.WithPublicKey(*s.Embed))
	}
	if s.Meta != nil {
		opts = append(opts, ipns.WithMetadata(s.Meta))
	}
	return opts
}

// Embedded tells whether the record is expected to carry the public key.
func (s *Spec) Embedded() bool {
	if s.Embed != nil {
		return *s.Embed
	}
	return !s.Key.Inline
}

// SignedTTL is the TTL that ends up in the signed data (negative TTLs are
// floored at zero, as NewRecord documents).
func (s *Spec) SignedTTL() time.Duration {
	if s.TTL < 0 {
		return 0
	}
	return s.TTL
}

// ValidityText is the independent rendering of the EOL as the spec requires
// (RFC 3339 with nanoseconds, UTC).
func (s *Spec) ValidityText() string {
	return s.EOL.UTC().Format("2006-01-02T15:04:05.999999999Z07:00")
}

func (s *Spec) Future() bool { return s.EOL.UTC().Year() >= 2090 }

func (s *Spec) New() (*ipns.Record, error) {
	return ipns.NewRecord(s.Key.SK, s.Value, s.Seq, s.EOL, s.TTL, s.Options()...)
}

func (s *Spec) String() string {
	emb := "default"
	if s.Embed != nil {
		emb = fmt.Sprint(*s.Embed)
	}
	return fmt.Sprintf("key=%s value=%q seq=%d eol=%s ttl=%d v1=%v embed=%s meta=%s", s.Key.ID, s.Value.String(), s.Seq,
		s.EOL.Format(time.RFC3339Nano), int64(s.TTL), s.V1, emb, MetaString(s.Meta))
}

// MetaString renders a metadata map deterministically.
func MetaString(m map[string]any) string {
	if m == nil {
		return "nil"
	}
	ks := make([]string, 0, len(m))
	for k := range m {
		ks = append(ks, k)
	}
	sort.Strings(ks)
	var sb strings.Builder
	sb.WriteString("{")
	for i, k := range ks {
		if i > 0 {
			sb.WriteString(", ")
		}
		v := m[k]
		switch x := v.(type) {
		case []byte:
			if len(x) > 24 {
				fmt.Fprintf(&sb, "%q:bytes[%d]%x…", k, len(x), x[:8])
			} else {
				fmt.Fprintf(&sb, "%q:bytes(%x)", k, x)
			}
		case string:
			if len(x) > 40 {
				fmt.Fprintf(&sb, "%q:string[%d]%q…", k, len(x), x[:16])
			} else {
				fmt.Fprintf(&sb, "%q:%q", k, x)
			}
		default:
			fmt.Fprintf(&sb, "%q:%T(%v)", k, v, v)
		}
	}
	sb.WriteString("}")
	return sb.String()
}

// ---------------------------------------------------------------- generators

var payloads = []string{"", "a", "hello world", "ipns", "0123456789abcdef0123456789abcdef0123456789"}

func mkCid(r *vlib.Rand) cid.Cid {
	data := []byte(vlib.Pick(r, payloads))
	if r.Chance(1, 3) {
		data = r.Bytes(r.Range(1, 40))
	}
	sum := func(code uint64) mh.Multihash {
		h, err := mh.Sum(data, code, -1)
		if err != nil {
			panic(err)
		}
		return h
	}
	switch r.Intn(6) {
	case 0:
		return cid.NewCidV0(sum(mh.SHA2_256))
	case 1:
		return cid.NewCidV1(cid.DagProtobuf, sum(mh.SHA2_256))
	case 2:
		return cid.NewCidV1(cid.Raw, sum(mh.IDENTITY))
	case 3:
		return cid.NewCidV1(cid.DagCBOR, sum(mh.SHA2_512))
	case 4:
		return cid.NewCidV1(cid.Raw, sum(mh.BLAKE2B_MIN+31))
	default:
		return cid.NewCidV1(cid.Raw, sum(mh.SHA2_256))
	}
}

var segPool = []string{"a", "b", "dir", "file.txt", "with space", "ünïcödé", "日本語", "%2F", "a.b.c", "..x", "x..", "-", "_", "?q=1", "#frag", "\\", "a:b"}

// GenPath returns a well-formed content path (/ipfs, /ipld with a CID root,
// /ipns with a key name or a DNSLink name), optionally with a remainder and a
// trailing slash.
func GenPath(r *vlib.Rand, ks []*Key) path.Path {
	if r.Chance(1, 5) {
		return path.FromCid(mkCid(r))
	}
	var sb strings.Builder
	switch r.Intn(4) {
	case 0, 1:
		sb.WriteString("/ipfs/" + mkCid(r).String())
	case 2:
		sb.WriteString("/ipld/" + mkCid(r).String())
	default:
		switch r.Intn(3) {
		case 0:
			sb.WriteString("/ipns/" + vlib.Pick(r, ks).Name.String())
		case 1:
			sb.WriteString("/ipns/" + vlib.Pick(r, ks).Peer.String())
		default:
			sb.WriteString("/ipns/" + vlib.Pick(r, []string{"example.com", "en.wikipedia-on-ipfs.org", "a.b.c.d.example.net", "xn--bcher-kva.example"}))
		}
	}
	n := r.Intn(4)
	if r.Chance(1, 12) {
		n = r.Range(5, 30)
	}
	for i := 0; i < n; i++ {
		sb.WriteString("/" + vlib.Pick(r, segPool))
	}
	if r.Chance(1, 4) {
		sb.WriteString("/")
	}
	p, err := path.NewPath(sb.String())
	if err != nil {
		panic(fmt.Errorf("generator produced an invalid path %q: %w", sb.String(), err))
	}
	return p
}

var seqEdges = []uint64{0, 1, 2, 127, 128, 1<<31 - 1, 1 << 31, 1<<32 - 1, 1 << 32, 1 << 53, 1<<63 - 1, 1 << 63, 1<<63 + 1, 1<<64 - 2, 1<<64 - 1}

func GenSeq(r *vlib.Rand) uint64 {
	switch r.Intn(3) {
	case 0:
		return vlib.Pick(r, seqEdges)
	case 1:
		return uint64(r.Intn(1000))
	default:
		return r.Uint64() >> uint(r.Intn(64))
	}
}

var zones = []*time.Location{time.UTC, time.FixedZone("", 0), time.FixedZone("east", 14*3600), time.FixedZone("west", -12*3600), time.FixedZone("odd", 5*3600+45*60), time.FixedZone("sec", -(3*3600 + 17))}

var nsPool = []int{0, 1, 10, 999, 1000, 500000000, 123456789, 100000000, 999999999, 999999000, 120000000}

// GenEOL returns an expiry instant. future: 2100-01-01 .. 9999-12-31T23:59:59.999999999Z;
// past: year 0001 .. 2010. The location is varied (the instant is what counts).
func GenEOL(r *vlib.Rand, future bool) time.Time {
	var t time.Time
	ns := vlib.Pick(r, nsPool)
	if r.Chance(1, 3) {
		ns = r.Intn(1000000000)
	}
	if future {
		switch r.Intn(8) {
		case 0:
			t = time.Date(9999, 12, 31, 23, 59, 59, 999999999, time.UTC)
		case 1:
			t = time.Date(9999, 12, 31, 23, 59, 59, ns, time.UTC)
		case 2:
			t = time.Date(2100, 1, 1, 0, 0, 0, ns, time.UTC)
		case 3:
			t = time.Date(r.Range(2100, 9999), 2, 29, 12, 0, 0, ns, time.UTC) // normalises to Mar 1 on non-leap years
		default:
			t = time.Date(r.Range(2100, 9999), time.Month(r.Range(1, 12)), r.Range(1, 28), r.Intn(24), r.Intn(60), r.Intn(60), ns, time.UTC)
		}
	} else {
		switch r.Intn(6) {
		case 0:
			t = time.Date(1, 1, 1, 0, 0, 0, ns, time.UTC)
		case 1:
			t = time.Date(1970, 1, 1, 0, 0, 0, 0, time.UTC)
		case 2:
			t = time.Date(2010, 12, 31, 23, 59, 59, ns, time.UTC)
		default:
			t = time.Date(r.Range(1000, 2010), time.Month(r.Range(1, 12)), r.Range(1, 28), r.Intn(24), r.Intn(60), r.Intn(60), ns, time.UTC)
		}
	}
	return t.In(vlib.Pick(r, zones))
}

var ttlEdges = []time.Duration{0, 1, 999, time.Microsecond, time.Millisecond, time.Second, time.Minute, time.Hour, 24 * time.Hour, 1<<63 - 1, 1 << 62, 1<<31 - 1, 1 << 31, 1 << 32}

// GenTTL returns a TTL; negative ones only when neg is set (NewRecord floors them at 0).
func GenTTL(r *vlib.Rand, neg bool) time.Duration {
	if neg && r.Chance(1, 6) {
		return vlib.Pick(r, []time.Duration{-1, -time.Second, -1 << 63, -time.Hour})
	}
	switch r.Intn(3) {
	case 0:
		return vlib.Pick(r, ttlEdges)
	case 1:
		return time.Duration(r.Intn(100000)) * time.Second
	default:
		return time.Duration(r.Uint64() >> uint(1+r.Intn(63)))
	}
}

var metaKeys = []string{"_a", "_b", "_aa", "_ab", "_ba", "_x", "_long_key_name", "a", "z", "Z", "value", "Valu", "Value2", "TTL2", "ttl", "Sequenc", "SequencE", "_Value", "ValidityTyp", "ValidityTypeX", "é", "日本", " ", "\x00", "_\xff", "k/with/slash", "~"}

// GenMeta returns a valid metadata map (possibly nil or empty) with all
// supported value types.
func GenMeta(r *vlib.Rand, maxEntries int) map[string]any {
	if r.Chance(1, 4) {
		return nil
	}
	n := r.Intn(maxEntries + 1)
	m := map[string]any{}
	for i := 0; i < n; i++ {
		key := vlib.Pick(r, metaKeys)
		if r.Chance(1, 5) {
			key = "_" + fmt.Sprintf("%x", r.Bytes(r.Range(1, 6)))
		}
		m[key] = GenMetaValue(r)
	}
	return m
}

func GenMetaValue(r *vlib.Rand) any {
	switch r.Intn(5) {
	case 0:
		return vlib.Pick(r, []string{"", "x", "hello", "ünï", "日本語", "line\nbreak", "\x00nul", "a longer string value with spaces"})
	case 1:
		if r.Chance(1, 5) {
			return []byte(nil)
		}
		return r.Bytes(r.Intn(40))
	case 2:
		return vlib.Pick(r, []int64{0, 1, -1, 23, 24, 255, 256, 65535, 65536, 1<<31 - 1, 1 << 31, 1<<32 - 1, 1 << 32, 1<<63 - 1, -1 << 63, -24, -25, -256, -257})
	case 3:
		return vlib.Pick(r, []int{0, 1, -1, 42, 1<<62 + 5, -(1 << 40), 1<<31 - 1, 1 << 31, 1<<32 + 7})
	default:
		return r.Bool()
	}
}

// GenSpec draws a complete record specification.
func GenSpec(r *vlib.Rand, ks []*Key, key *Key, future bool) *Spec {
	s := &Spec{Key: key, Value: GenPath(r, ks), Seq: GenSeq(r), EOL: GenEOL(r, future), TTL: GenTTL(r, true), V1: r.Bool(), Meta: GenMeta(r, 4)}
	switch r.Intn(4) {
	case 0:
		t := true
		s.Embed = &t
	case 1:
		f := false
		s.Embed = &f
	}
	return s
}

// ---------------------------------------------------------------- protobuf wire view

// Field is one wire-level field of an encoded IpnsRecord.
type Field struct {
	Num protowire.Number
	Typ protowire.Type
	V   uint64 // VarintType / Fixed32Type / Fixed64Type
	B   []byte // BytesType payload
	Raw []byte // when non-nil the field is emitted verbatim (non-minimal encodings)
}

// IPNS protobuf field numbers.
const (
	FValue        = 1
	FSignatureV1  = 2
	FValidityType = 3
	FValidity     = 4
	FSequence     = 5
	FTTL          = 6
	FPubKey       = 7
	FSignatureV2  = 8
	FData         = 9
)

var FieldNames = map[int]string{1: "value", 2: "signatureV1", 3: "validityType", 4: "validity", 5: "sequence", 6: "ttl", 7: "pubKey", 8: "signatureV2", 9: "data"}

// IsBytesField tells the declared wire type of a known field number.
func IsBytesField(n int) bool { return n == 1 || n == 2 || n == 4 || n == 7 || n == 8 || n == 9 }

// ParseWire splits an encoded message into its fields (no groups).
func ParseWire(b []byte) ([]Field, error) {
	var fs []Field
	for len(b) > 0 {
		num, typ, n := protowire.ConsumeTag(b)
		if n < 0 {
			return nil, protowire.ParseError(n)
		}
		b = b[n:]
		f := Field{Num: num, Typ: typ}
		switch typ {
		case protowire.VarintType:
			v, n := protowire.ConsumeVarint(b)
			if n < 0 {
				return nil, protowire.ParseError(n)
			}
			f.V = v
			b = b[n:]
		case protowire.Fixed32Type:
			v, n := protowire.ConsumeFixed32(b)
			if n < 0 {
				return nil, protowire.ParseError(n)
			}
			f.V = uint64(v)
			b = b[n:]
		case protowire.Fixed64Type:
			v, n := protowire.ConsumeFixed64(b)
			if n < 0 {
				return nil, protowire.ParseError(n)
			}
			f.V = v
			b = b[n:]
		case protowire.BytesType:
			v, n := protowire.ConsumeBytes(b)
			if n < 0 {
				return nil, protowire.ParseError(n)
			}
			f.B = append([]byte{}, v...)
			b = b[n:]
		default:
			return nil, fmt.Errorf("unsupported wire type %d", typ)
		}
		fs = append(fs, f)
	}
	return fs, nil
}

// EncodeWire is the inverse of ParseWire.
func EncodeWire(fs []Field) []byte {
	var b []byte
	for _, f := range fs {
		if f.Raw != nil {
			b = append(b, f.Raw...)
			continue
		}
		b = protowire.AppendTag(b, f.Num, f.Typ)
		switch f.Typ {
		case protowire.VarintType:
			b = protowire.AppendVarint(b, f.V)
		case protowire.Fixed32Type:
			b = protowire.AppendFixed32(b, uint32(f.V))
		case protowire.Fixed64Type:
			b = protowire.AppendFixed64(b, f.V)
		case protowire.BytesType:
			b = protowire.AppendBytes(b, f.B)
		}
	}
	return b
}

// CloneFields deep-copies a field list.
func CloneFields(fs []Field) []Field {
	out := make([]Field, len(fs))
	for i, f := range fs {
		out[i] = f
		if f.B != nil {
			out[i].B = append([]byte{}, f.B...)
		}
		if f.Raw != nil {
			out[i].Raw = append([]byte{}, f.Raw...)
		}
	}
	return out
}

// View is the effective content of an encoded record by protobuf rules: for
// every known field number the last occurrence with the declared wire type
// wins; occurrences with another wire type are unknown fields.
type View struct {
	Has   [10]bool
	Bytes [10][]byte
	Int   [10]uint64
}

func Effective(fs []Field) View {
	var v View
	for _, f := range fs {
		n := int(f.Num)
		if n < 1 || n > 9 {
			continue
		}
		if IsBytesField(n) && f.Typ == protowire.BytesType {
			v.Has[n] = true
			v.Bytes[n] = f.B
		} else if !IsBytesField(n) && f.Typ == protowire.VarintType {
			v.Has[n] = true
			v.Int[n] = f.V
		}
	}
	return v
}

// EffectiveOf parses and views; ok=false when the bytes are not a parseable message.
func EffectiveOf(wire []byte) (View, bool) {
	fs, err := ParseWire(wire)
	if err != nil {
		return View{}, false
	}
	return Effective(fs), true
}

// IndexOf returns the index of the last occurrence of field n with its
// declared wire type, or -1.
func IndexOf(fs []Field, n int) int {
	for i := len(fs) - 1; i >= 0; i-- {
		if int(fs[i].Num) == n && (IsBytesField(n) == (fs[i].Typ == protowire.BytesType)) {
			return i
		}
	}
	return -1
}

// Without returns fs without any occurrence of field n.
func Without(fs []Field, n int) []Field {
	var out []Field
	for _, f := range fs {
		if int(f.Num) != n {
			out = append(out, f)
		}
	}
	return out
}

// ---------------------------------------------------------------- accessor oracle

const (
	PubSkip = iota
	PubOwn
	PubNone
)

// Mismatch is one accessor that does not report the signed value.
type Mismatch struct{ Which, Expected, Observed string }

// CheckAccessors compares every accessor of rec with the inputs the record
// was created (signed) from. pubMode: PubSkip = do not look at PubKey(),
// PubOwn = the record carries the signer's key, PubNone = it carries none.
func CheckAccessors(rec *ipns.Record, s *Spec, pubMode int) []Mismatch {
	var ms []Mismatch
	add := func(which, exp, obs string) { ms = append(ms, Mismatch{which, exp, obs}) }

	if v, err := rec.Value(); err != nil {
		add("Value", s.Value.String(), "error: "+err.Error())
	} else if v.String() != s.Value.String() {
		add("Value", s.Value.String(), v.String())
	}
	if vt, err := rec.ValidityType(); err != nil {
		add("ValidityType", "0 (EOL)", "error: "+err.Error())
	} else if vt != ipns.ValidityEOL {
		add("ValidityType", "0 (EOL)", fmt.Sprint(int64(vt)))
	}
	if t, err := rec.Validity(); err != nil {
		add("Validity", s.EOL.UTC().Format(time.RFC3339Nano), "error: "+err.Error())
	} else if !t.Equal(s.EOL) || t.Nanosecond() != s.EOL.Nanosecond() {
		add("Validity", s.EOL.UTC().Format(time.RFC3339Nano), t.Format(time.RFC3339Nano))
	}
	if q, err := rec.Sequence(); err != nil {
		add("Sequence", fmt.Sprint(s.Seq), "error: "+err.Error())
	} else if q != s.Seq {
		add("Sequence", fmt.Sprint(s.Seq), fmt.Sprint(q))
	}
	if ttl, err := rec.TTL(); err != nil {
		add("TTL", fmt.Sprint(int64(s.SignedTTL())), "error: "+err.Error())
	} else if ttl != s.SignedTTL() {
		add("TTL", fmt.Sprint(int64(s.SignedTTL())), fmt.Sprint(int64(ttl)))
	}
	if pubMode != PubSkip {
		pk, err := rec.PubKey()
		switch {
		case pubMode == PubOwn && err != nil:
			add("PubKey", "key "+s.Key.ID, "error: "+err.Error())
		case pubMode == PubOwn && !pk.Equals(s.Key.PK):
			add("PubKey", "key "+s.Key.ID, "a different key")
		case pubMode == PubNone && !errors.Is(err, ipns.ErrPublicKeyNotFound):
			add("PubKey", "ErrPublicKeyNotFound", fmt.Sprintf("key=%v err=%v", pk != nil, err))
		}
	}
	ms = append(ms, CheckMetadata(rec, s.Meta)...)
	return ms
}

// abbrev keeps long values comparable (length + hash) but short in messages.
func abbrev(b []byte) string {
	if len(b) <= 64 {
		return fmt.Sprintf("%q", b)
	}
	h := fnv.New64a()
	h.Write(b)
	return fmt.Sprintf("%q…[len=%d fnv=%x]", b[:24], len(b), h.Sum64())
}

func metaValueString(v ipns.MetadataValue) string {
	switch v.Kind() {
	case ipns.MetadataKindString:
		x, err := v.AsString()
		return fmt.Sprintf("string(%s,%v)", abbrev([]byte(x)), err)
	case ipns.MetadataKindBytes:
		x, err := v.AsBytes()
		return fmt.Sprintf("bytes(%s,%v)", abbrev(x), err)
	case ipns.MetadataKindInt:
		x, err := v.AsInt()
		return fmt.Sprintf("int(%d,%v)", x, err)
	case ipns.MetadataKindBool:
		x, err := v.AsBool()
		return fmt.Sprintf("bool(%v,%v)", x, err)
	}
	return "invalid-kind"
}

func metaInputString(v any) string {
	switch x := v.(type) {
	case string:
		return fmt.Sprintf("string(%s,<nil>)", abbrev([]byte(x)))
	case []byte:
		return fmt.Sprintf("bytes(%s,<nil>)", abbrev(x))
	case int64:
		return fmt.Sprintf("int(%d,<nil>)", x)
	case int:
		return fmt.Sprintf("int(%d,<nil>)", x)
	case bool:
		return fmt.Sprintf("bool(%v,<nil>)", x)
	}
	return fmt.Sprintf("unsupported(%T)", v)
}

// CheckMetadata compares the metadata accessors with the input map.
func CheckMetadata(rec *ipns.Record, meta map[string]any) []Mismatch {
	var ms []Mismatch
	seen := map[string]int{}
	for k, v := range rec.MetadataEntries() {
		seen[k]++
		in, ok := meta[k]
		if !ok {
			ms = append(ms, Mismatch{"MetadataEntries", "no entry " + fmt.Sprintf("%q", k), metaValueString(v)})
			continue
		}
		if metaValueString(v) != metaInputString(in) {
			ms = append(ms, Mismatch{"MetadataEntries", fmt.Sprintf("%q=%s", k, metaInputString(in)), metaValueString(v)})
		}
	}
	for k, in := range meta {
		if seen[k] != 1 {
			ms = append(ms, Mismatch{"MetadataEntries", fmt.Sprintf("%q yielded once", k), fmt.Sprintf("yielded %d times", seen[k])})
		}
		v, err := rec.Metadata(k)
		if err != nil {
			ms = append(ms, Mismatch{"Metadata", fmt.Sprintf("%q=%s", k, metaInputString(in)), "error: " + err.Error()})
		} else if metaValueString(v) != metaInputString(in) {
			ms = append(ms, Mismatch{"Metadata", fmt.Sprintf("%q=%s", k, metaInputString(in)), metaValueString(v)})
		}
		if !rec.MetadataExists(k) {
			ms = append(ms, Mismatch{"MetadataExists", fmt.Sprintf("%q exists", k), "false"})
		}
	}
	return ms
}

// MetadataOrder returns the keys in the order MetadataEntries yields them.
func MetadataOrder(rec *ipns.Record) []string {
	var ks []string
	for k := range rec.MetadataEntries() {
		ks = append(ks, k)
	}
	return ks
}

// Hex abbreviates a byte string for messages.
func Hex(b []byte) string {
	if len(b) <= 48 {
		return fmt.Sprintf("%x", b)
	}
	return fmt.Sprintf("%x…%x(len %d)", b[:20], b[len(b)-12:], len(b))
}

// SigV2Message is the byte string a v2 signature covers.
func SigV2Message(data []byte) []byte { return append([]byte("ipns-signature:"), data...) }

// Equal reports byte equality (nil == empty).
func Equal(a, b []byte) bool { return bytes.Equal(a, b) }
