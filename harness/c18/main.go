// C18: UnixFS metadata round trip. Every 12-bit permission value x extended-bit
// class x node type x setter x order, and an mtime grid (seconds classes x
// nanosecond classes), is written through the real FSNode setters / WithStat
// constructors, serialized with GetBytes, parsed back with FSNodeFromBytes and
// compared with expectations computed independently of boxo's own conversion
// helpers. Size accessors are monitored on generated file/raw/symlink nodes.
package main

import (
	"bytes"
	"fmt"
	"math"
	"os"
	"time"

	files "github.com/ipfs/boxo/files"
	ft "github.com/ipfs/boxo/ipld/unixfs"
	pb "github.com/ipfs/boxo/ipld/unixfs/pb"

	"verif/vlib"
)

const permMask = os.ModePerm | os.ModeSetuid | os.ModeSetgid | os.ModeSticky

// wantMode is the os.FileMode permission bits that the 12-bit unix value p
// denotes (written without boxo's helpers).
func wantMode(p uint32) os.FileMode {
	m := os.FileMode(p & 0o777)
	if p&0o4000 != 0 {
		m |= os.ModeSetuid
	}
	if p&0o2000 != 0 {
		m |= os.ModeSetgid
	}
	if p&0o1000 != 0 {
		m |= os.ModeSticky
	}
	return m
}

// unixOf is the inverse of wantMode (type bits and unrelated bits ignored).
func unixOf(m os.FileMode) uint32 {
	p := uint32(m & os.ModePerm)
	if m&os.ModeSetuid != 0 {
		p |= 0o4000
	}
	if m&os.ModeSetgid != 0 {
		p |= 0o2000
	}
	if m&os.ModeSticky != 0 {
		p |= 0o1000
	}
	return p
}

type nodeKind struct {
	name string
	typ  pb.Data_DataType
	mk   func() *ft.FSNode
}

var payload = []byte("payload-bytes")

func mustNode(b []byte, err error) *ft.FSNode {
	if err != nil {
		panic(err)
	}
	n, err := ft.FSNodeFromBytes(b)
	if err != nil {
		panic(err)
	}
	return n
}

var kinds = []nodeKind{
	{"file", ft.TFile, func() *ft.FSNode {
		n := ft.NewFSNode(ft.TFile)
		n.SetData(payload)
		n.AddBlockSize(1000)
		n.AddBlockSize(24)
		return n
	}},
	{"raw", ft.TRaw, func() *ft.FSNode { return mustNode(ft.WrapData(payload), nil) }},
	{"dir", ft.TDirectory, func() *ft.FSNode { return mustNode(ft.FolderPBData(), nil) }},
	{"hamt", ft.THAMTShard, func() *ft.FSNode { return mustNode(ft.HAMTShardData([]byte{0x05}, 256, 0x22)) }},
	{"symlink", ft.TSymlink, func() *ft.FSNode { return mustNode(ft.SymlinkData("../target/path")) }},
	{"metadata", ft.TMetadata, func() *ft.FSNode { return ft.NewFSNode(ft.TMetadata) }},
}

// noise are non-permission os.FileMode bits a caller may legitimately pass
// along (e.g. the result of os.Stat); they must not leak into the stored bits.
var noise = []os.FileMode{0, os.ModeDir, os.ModeSymlink, os.ModeDir | os.ModeAppend | os.ModeNamedPipe, os.ModeIrregular | os.ModeTemporary | os.ModeDevice | os.ModeCharDevice | os.ModeSocket | os.ModeExclusive}

var secGrid = []int64{
	math.MinInt64, -(1 << 62), -62135596801, -62135596800, -62135596799, -2208988800,
	-(1 << 32), -(1 << 31) - 1, -(1 << 31), -86400, -2, -1, 0, 1, 2, 86400, 1000000000,
	(1 << 31) - 1, 1 << 31, (1 << 32) - 1, 1 << 32, 253402300799, 253402300800, 1 << 53, 1 << 62, math.MaxInt64,
}

var nsGrid = []int64{0, 1, 999, 1000, 999999, 1000000, 123456789, 500000000, 999999000, 999999999}

var zones = []*time.Location{time.UTC, time.FixedZone("p0530", 5*3600+1800), time.FixedZone("m1100", -11*3600)}

func secClass(s int64) string {
	switch {
	case s < -62135596800:
		return "before-year1"
	case s < 0:
		return "neg"
	case s == 0:
		return "epoch"
	case s >= 1<<31:
		return "pos-wide"
	default:
		return "pos"
	}
}

func nsClass(ns int64) string {
	switch {
	case ns == 0:
		return "ns0"
	case ns%1000000 == 0:
		return "ms"
	case ns%1000 == 0:
		return "us"
	default:
		return "ns"
	}
}

type stats struct {
	points, nzMode, nzTime, nzNanos, nzExt int64
}

func main() { vlib.Run("C18", run) }

func run(c *vlib.Ctx) {
	c.Rule("strata: perm = every 12-bit permission value (case index) x 6 node types x 4 extended-bit classes x 5 mtime classes x {SetMode(os.FileMode+noise type bits), SetModeFromUnixPermissions} x {mode first, mtime first} x {fresh node, node that already carried 07777 and a nanosecond mtime}; mtime = full product of 26 second classes (MinInt64..MaxInt64, year 1, epoch, 2^31, 2^32, year 9999) x 10 nanosecond classes (case index) x node types x 3 modes x 3 zones x overwrite orders; ctor = every 12-bit value through FilePBDataWithStat/FolderPBDataWithStat/HAMTShardDataWithStat/EmptyDirNodeWithStat; size = generated file (inline data + block sizes, add/remove), raw and symlink nodes; rand = PRNG (perm, ext, sec, ns). Every point: GetBytes -> FSNodeFromBytes -> compare with expectations computed without boxo's helpers. distinct = FNV of the case parameters; non-trivial = the decoded node showed a non-zero permission value together with a non-zero mtime having non-zero nanoseconds (perm/ctor/rand/mtime strata) or a non-zero size built from >= 1 block size (size stratum)")
	c.Exhaustive()
	st := &stats{}
	c.Cases("perm", 4096, func(k *vlib.Case) { permCase(k, st) })
	c.Cases("mtime", len(secGrid)*len(nsGrid), func(k *vlib.Case) { mtimeCase(k, st) })
	c.Cases("ctor", 4096, func(k *vlib.Case) { ctorCase(k, st) })
	c.Cases("util", 1, utilCase)
	c.Cases("size", c.N(3000, 30000), sizeCase)
	c.Cases("rand", c.N(20000, 200000), func(k *vlib.Case) { randCase(k, st) })
	c.Count("roundtrip_points", st.points)
	c.Count("points_nonzero_mode", st.nzMode)
	c.Count("points_nonzero_mtime", st.nzTime)
	c.Count("points_nonzero_nanos", st.nzNanos)
	c.Count("points_nonzero_ext", st.nzExt)
}

// point describes one set/serialize/parse/compare evaluation.
type point struct {
	kind     nodeKind
	perm     uint32 // 12-bit value to store
	ext      uint32 // 20 extended bits stored beforehand
	useUnix  bool   // SetModeFromUnixPermissions instead of SetMode
	noise    os.FileMode
	t        time.Time
	timeFst  bool // SetModTime before SetMode
	dirty    bool // node carried other metadata before
	skipMode bool // do not call a mode setter at all (mtime only)
	skipTime bool
}

func (p point) String() string {
	return fmt.Sprintf("kind=%s perm=%04o ext=%#x unixSetter=%v noise=%#x t=(%d,%d,%s) timeFirst=%v dirty=%v skipMode=%v skipTime=%v",
		p.kind.name, p.perm, p.ext, p.useUnix, uint32(p.noise), p.t.Unix(), p.t.Nanosecond(), p.t.Location(), p.timeFst, p.dirty, p.skipMode, p.skipTime)
}

// eval runs one point; returns whether the decoded node showed non-zero mode
// and a non-zero mtime with nanoseconds.
func eval(k *vlib.Case, st *stats, p point) bool {
	n := p.kind.mk()
	data0 := append([]byte(nil), n.Data()...)
	size0 := n.FileSize()
	if p.dirty {
		n.SetMode(wantMode(0o7777))
		n.SetModTime(time.Unix(-7, 999999999))
	}
	if p.ext != 0 || p.dirty {
		n.SetExtendedMode(p.ext)
	}
	setMode := func() {
		if p.skipMode {
			return
		}
		if p.useUnix {
			n.SetModeFromUnixPermissions(p.perm)
		} else {
			n.SetMode(wantMode(p.perm) | p.noise)
		}
	}
	setTime := func() {
		if !p.skipTime {
			n.SetModTime(p.t)
		}
	}
	if p.timeFst {
		setTime()
		setMode()
	} else {
		setMode()
		setTime()
	}
	wantPerm, wantT := p.perm, p.t
	if p.skipMode {
		wantPerm = 0
		if p.dirty {
			wantPerm = 0o7777
		}
	}
	if p.skipTime {
		wantT = time.Time{}
		if p.dirty {
			wantT = time.Unix(-7, 999999999)
		}
	}
	b, err := n.GetBytes()
	if err != nil {
		k.Fail("serialize-error/"+p.kind.name, "GetBytes succeeds", "nil", fmt.Sprintf("%v at %s", err, p))
		return false
	}
	m, err := ft.FSNodeFromBytes(b)
	if err != nil {
		k.Fail("parse-error/"+p.kind.name, "FSNodeFromBytes(GetBytes()) succeeds", "nil", fmt.Sprintf("%v at %s", err, p))
		return false
	}
	st.points++
	return compare(k, st, p.String(), m, p.kind, wantPerm, p.ext, true, wantT, data0, size0)
}

func compare(k *vlib.Case, st *stats, where string, m *ft.FSNode, kind nodeKind, perm, ext uint32, checkExt bool, t time.Time, data0 []byte, size0 uint64) bool {
	got := m.Mode()
	if got&permMask != wantMode(perm) {
		diff := unixOf(got) ^ perm
		cls := "mode/low9"
		if diff&0o7000 != 0 && diff&0o777 == 0 {
			cls = "mode/special-bits"
		} else if diff&0o7000 != 0 {
			cls = "mode/low9+special"
		}
		k.Fail(cls, "same permission bits after round trip", fmt.Sprintf("%04o (%v)", perm, wantMode(perm)), fmt.Sprintf("%04o (%v) at %s", unixOf(got), got, where))
	}
	if checkExt && m.ExtendedMode() != ext {
		k.Fail("mode/extended-bits", "extended bits survive mode updates and round trip", fmt.Sprintf("%#x", ext), fmt.Sprintf("%#x at %s", m.ExtendedMode(), where))
	}
	gt := m.ModTime()
	switch {
	case t.IsZero() && !gt.IsZero():
		k.Fail("mtime/zero-not-unset", "zero time stays unset", "zero time", fmt.Sprintf("%v (%d,%d) at %s", gt, gt.Unix(), gt.Nanosecond(), where))
	case !t.IsZero() && gt.IsZero():
		k.Fail("mtime/lost/"+secClass(t.Unix())+"-"+nsClass(int64(t.Nanosecond())), "non-zero instant is stored", fmt.Sprintf("(%d,%d)", t.Unix(), t.Nanosecond()), "zero time at "+where)
	case !t.IsZero() && (!gt.Equal(t) || gt.Unix() != t.Unix() || gt.Nanosecond() != t.Nanosecond()):
		k.Fail("mtime/instant/"+secClass(t.Unix())+"-"+nsClass(int64(t.Nanosecond())), "same instant after round trip", fmt.Sprintf("(%d,%d)", t.Unix(), t.Nanosecond()), fmt.Sprintf("(%d,%d) at %s", gt.Unix(), gt.Nanosecond(), where))
	}
	if m.Type() != kind.typ {
		k.Fail("payload/type", "metadata setters leave the node type alone", kind.typ.String(), m.Type().String()+" at "+where)
	}
	if data0 != nil && !bytes.Equal(m.Data(), data0) {
		k.Fail("payload/data", "metadata setters leave the data alone", fmt.Sprintf("%x", data0), fmt.Sprintf("%x at %s", m.Data(), where))
	}
	if m.FileSize() != size0 {
		k.Fail("payload/size", "metadata setters leave the size alone", fmt.Sprint(size0), fmt.Sprintf("%d at %s", m.FileSize(), where))
	}
	nzM, nzT := got&permMask != 0, !gt.IsZero()
	if nzM {
		st.nzMode++
	}
	if nzT {
		st.nzTime++
		if gt.Nanosecond() != 0 {
			st.nzNanos++
		}
	}
	if m.ExtendedMode() != 0 {
		st.nzExt++
	}
	return nzM && nzT && gt.Nanosecond() != 0
}

var permTimes = []time.Time{
	{},
	time.Unix(0, 0),
	time.Unix(-1, 999999999),
	time.Unix(1700000000, 123456789).In(zones[1]),
	time.Unix(1<<32, 0),
}

func permCase(k *vlib.Case, st *stats) {
	perm := uint32(k.Index)
	exts := []uint32{0, 1, 0xFFFFF, uint32(k.R.Intn(1 << 20))}
	k.Logf("perm=%04o exts=%x kinds=6 times=5 setters=2 orders=2 dirty=2", perm, exts)
	nt := false
	for _, kind := range kinds {
		for ei, e := range exts {
			for ti, t := range permTimes {
				for v := 0; v < 8; v++ {
					p := point{kind: kind, perm: perm, ext: e, useUnix: v&1 != 0, timeFst: v&2 != 0, dirty: v&4 != 0, t: t,
						noise: noise[(ei+ti+v)%len(noise)]}
					if eval(k, st, p) {
						nt = true
					}
				}
			}
		}
	}
	if nt {
		k.Nontrivial()
	}
}

func mtimeCase(k *vlib.Case, st *stats) {
	sec := secGrid[k.Index/len(nsGrid)]
	ns := nsGrid[k.Index%len(nsGrid)]
	k.Logf("sec=%d ns=%d class=%s-%s kinds=6 modes=3 zones=3 orders=2 dirty=2 +mtime-only", sec, ns, secClass(sec), nsClass(ns))
	nt := false
	for _, kind := range kinds {
		for mi, perm := range []uint32{0, 0o644, 0o7777} {
			for _, z := range zones {
				t := time.Unix(sec, ns).In(z)
				for v := 0; v < 4; v++ {
					p := point{kind: kind, perm: perm, ext: []uint32{0, 0x80001, 0xFFFFF}[mi], timeFst: v&1 != 0, dirty: v&2 != 0, t: t}
					if eval(k, st, p) {
						nt = true
					}
				}
				eval(k, st, point{kind: kind, skipMode: true, t: t})
				eval(k, st, point{kind: kind, skipMode: true, dirty: true, t: t})
			}
		}
		// overwrite with the zero time must unset; mode only keeps the old time
		eval(k, st, point{kind: kind, perm: 0o600, dirty: true, t: time.Time{}})
		eval(k, st, point{kind: kind, perm: 0o600, dirty: true, skipTime: true})
	}
	// set t, then a second time without nanoseconds, then t again: each read back exactly
	n := ft.NewFSNode(ft.TFile)
	seq := []time.Time{time.Unix(sec, ns), time.Unix(sec, 0), time.Unix(5, 7), time.Unix(sec, ns), {}, time.Unix(sec, ns)}
	for i, t := range seq {
		n.SetModTime(t)
		b, err := n.GetBytes()
		if err != nil {
			k.Fail("serialize-error/file", "GetBytes succeeds", "nil", err.Error())
			return
		}
		m := mustNode(b, nil)
		st.points++
		compare(k, st, fmt.Sprintf("overwrite-sequence step %d of (sec,ns),(sec,0),(5,7),(sec,ns),zero,(sec,ns)", i), m, kinds[0], 0, 0, true, t, nil, 0)
	}
	if nt {
		k.Nontrivial()
	}
}

func ctorCase(k *vlib.Case, st *stats) {
	perm := uint32(k.Index)
	ts := []time.Time{{}, time.Unix(0, 0), time.Unix(-62135596800, 1), time.Unix(int64(k.R.Intn(1<<40))-(1<<39), int64(k.R.Intn(1000000000)))}
	k.Logf("ctor perm=%04o times=%d,%d ctors=file,folder,hamt,emptydir", perm, ts[3].Unix(), ts[3].Nanosecond())
	nt := false
	for i, t := range ts {
		mode := wantMode(perm) | noise[i%len(noise)]
		where := func(c string) string {
			return fmt.Sprintf("%s(mode=%v perm=%04o t=(%d,%d))", c, mode, perm, t.Unix(), t.Nanosecond())
		}
		m := mustNode(ft.FilePBDataWithStat(payload, uint64(len(payload)), mode, t), nil)
		st.points++
		a := compare(k, st, where("FilePBDataWithStat"), m, kinds[0], perm, 0, true, t, payload, uint64(len(payload)))
		m = mustNode(ft.FolderPBDataWithStat(mode, t), nil)
		st.points++
		b := compare(k, st, where("FolderPBDataWithStat"), m, kinds[2], perm, 0, true, t, nil, 0)
		m = mustNode(ft.HAMTShardDataWithStat([]byte{1}, 256, 0x22, mode, t))
		st.points++
		c := compare(k, st, where("HAMTShardDataWithStat"), m, kinds[3], perm, 0, true, t, []byte{1}, 0)
		m = mustNode(ft.EmptyDirNodeWithStat(mode, t).Data(), nil)
		st.points++
		d := compare(k, st, where("EmptyDirNodeWithStat"), m, kinds[2], perm, 0, true, t, nil, 0)
		nt = nt || a || b || c || d
	}
	if nt {
		k.Nontrivial()
	}
}

// utilCase: the two conversion helpers of files/util.go are mutually inverse
// on all 12-bit values and agree with the POSIX meaning of the bits.
func utilCase(k *vlib.Case) {
	k.Logf("files.UnixPermsToModePerms / ModePermsToUnixPerms over all 4096 values x noise")
	for p := uint32(0); p < 4096; p++ {
		m := files.UnixPermsToModePerms(p)
		if m != wantMode(p) {
			k.Fail("util/unix-to-mode", "UnixPermsToModePerms yields the POSIX bits", wantMode(p).String(), fmt.Sprintf("%v for %04o", m, p))
		}
		for _, nz := range noise {
			if got := files.ModePermsToUnixPerms(wantMode(p) | nz); got != p {
				k.Fail("util/mode-to-unix", "ModePermsToUnixPerms inverts", fmt.Sprintf("%04o", p), fmt.Sprintf("%04o (noise %#x)", got, uint32(nz)))
			}
		}
	}
	k.Nontrivial()
}

func sizeCase(k *vlib.Case) {
	r := k.R
	lens := []int{0, 1, 2, 127, 128, 255, 256, 4095, 70000}
	n := vlib.Pick(r, lens)
	if r.Bool() {
		n = r.Intn(600)
	}
	data := r.Bytes(n)
	var perm uint32
	var t time.Time
	if r.Bool() {
		perm = uint32(r.Intn(4096))
		t = time.Unix(int64(r.Intn(1<<33))-(1<<32), int64(r.Intn(1000000000)))
	}
	kind := r.Intn(5)
	check := func(what string, fsn *ft.FSNode, want uint64) {
		if perm != 0 || !t.IsZero() {
			fsn.SetMode(wantMode(perm))
			fsn.SetModTime(t)
		}
		b, err := fsn.GetBytes()
		if err != nil {
			k.Fail("serialize-error/size", "GetBytes succeeds", "nil", err.Error())
			return
		}
		m := mustNode(b, nil)
		if fsn.FileSize() != want || m.FileSize() != want {
			k.Fail("size/"+what, "FileSize == content length", fmt.Sprint(want), fmt.Sprintf("before=%d after-roundtrip=%d", fsn.FileSize(), m.FileSize()))
		}
		ds, err := ft.DataSize(b)
		if err != nil || ds != want {
			k.Fail("size/datasize-"+what, "DataSize == content length", fmt.Sprint(want), fmt.Sprintf("%d err=%v", ds, err))
		}
	}
	switch kind {
	case 0: // file built incrementally: inline data + block sizes, with removals
		fsn := ft.NewFSNode(ft.TFile)
		fsn.SetData(data)
		nb := r.Intn(6)
		var bs []uint64
		for i := 0; i < nb; i++ {
			s := uint64(r.Intn(1 << 20))
			if r.Chance(1, 5) {
				s = r.Uint64() >> 24
			}
			bs = append(bs, s)
			fsn.AddBlockSize(s)
		}
		nrm := 0
		if nb > 0 && r.Bool() {
			nrm = r.Intn(nb)
			for i := 0; i < nrm; i++ {
				j := r.Intn(len(bs))
				fsn.RemoveBlockSize(j)
				bs = append(bs[:j], bs[j+1:]...)
			}
		}
		relen := -1
		if r.Chance(1, 3) { // replace inline data
			relen = r.Intn(300)
			data = r.Bytes(relen)
			fsn.SetData(data)
		}
		k.Logf("size file inline=%d blocks=%v removed=%d relen=%d perm=%04o t=(%d,%d)", len(data), bs, nrm, relen, perm, t.Unix(), t.Nanosecond())
		want := uint64(len(data))
		for _, s := range bs {
			want += s
		}
		check("file", fsn, want)
		if fsn.NumChildren() != len(bs) {
			k.Fail("size/numchildren", "NumChildren == block sizes", fmt.Sprint(len(bs)), fmt.Sprint(fsn.NumChildren()))
		}
		if want > 0 && len(bs) > 0 {
			k.Nontrivial()
		}
		if r.Chance(1, 4) {
			fsn.RemoveAllBlockSizes()
			check("file-removeall", fsn, uint64(len(data)))
		}
	case 1: // file from FilePBData with an explicit total
		total := uint64(n)
		if r.Bool() {
			total += uint64(r.Intn(1 << 30))
		}
		k.Logf("size FilePBData inline=%d total=%d perm=%04o t=(%d,%d)", n, total, perm, t.Unix(), t.Nanosecond())
		check("filepbdata", mustNode(ft.FilePBData(data, total), nil), total)
		check("filepbdata-stat", mustNode(ft.FilePBDataWithStat(data, total, wantMode(perm), t), nil), total)
		if total > 0 {
			k.Nontrivial()
		}
	case 2: // raw via WrapData
		k.Logf("size WrapData len=%d perm=%04o t=(%d,%d)", n, perm, t.Unix(), t.Nanosecond())
		check("raw", mustNode(ft.WrapData(data), nil), uint64(n))
		if n > 0 {
			k.Nontrivial()
		}
	case 3: // raw via NewFSNode+SetData (twice)
		k.Logf("size NewFSNode(raw).SetData len=%d perm=%04o t=(%d,%d)", n, perm, t.Unix(), t.Nanosecond())
		fsn := ft.NewFSNode(ft.TRaw)
		fsn.SetData(r.Bytes(r.Intn(50)))
		fsn.SetData(data)
		check("raw-setdata", fsn, uint64(n))
		if n > 0 {
			k.Nontrivial()
		}
	default: // symlink
		target := make([]byte, n%5000)
		for i := range target {
			target[i] = "abc/._-x"[r.Intn(8)]
		}
		k.Logf("size symlink len=%d perm=%04o t=(%d,%d)", len(target), perm, t.Unix(), t.Nanosecond())
		b, err := ft.SymlinkData(string(target))
		check("symlink", mustNode(b, err), uint64(len(target)))
		fsn := ft.NewFSNode(ft.TSymlink)
		fsn.SetData(target)
		check("symlink-setdata", fsn, uint64(len(target)))
		if len(target) > 0 {
			k.Nontrivial()
		}
	}
}

func randCase(k *vlib.Case, st *stats) {
	r := k.R
	var sec int64
	switch r.Intn(4) {
	case 0:
		sec = int64(r.Uint64())
	case 1:
		sec = int64(r.Intn(1<<34)) - (1 << 33)
	case 2:
		sec = -62135596800 + int64(r.Intn(5)) - 2
	default:
		sec = int64(r.Intn(4000000000))
	}
	ns := int64(r.Intn(1000000000))
	if r.Chance(1, 4) {
		ns = vlib.Pick(r, nsGrid)
	}
	p := point{
		kind: kinds[r.Intn(len(kinds))], perm: uint32(r.Intn(4096)), ext: uint32(r.Intn(1 << 20)),
		useUnix: r.Bool(), noise: vlib.Pick(r, noise), t: time.Unix(sec, ns).In(vlib.Pick(r, zones)),
		timeFst: r.Bool(), dirty: r.Bool(),
	}
	if r.Chance(1, 6) {
		p.ext = 0
	}
	k.Logf("rand %s", p)
	if eval(k, st, p) {
		k.Nontrivial()
	}
}
