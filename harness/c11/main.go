// C11: a merkledag.ProtoNode is driven through generated mutation histories
// in lock-step with a 40-line model (data, CID builder, link list in insertion
// order). After every mutation a PRNG-chosen subset of observers (Cid,
// RawData, Links, Stat, MarshalJSON, Tree, GetNodeLink, decode) is run, each
// compared with the model: the CID must be the model builder's hash of the
// bytes RawData returns now, the bytes must decode (boxo decoder and an
// independent protobuf wire reader) to the model's data and to the model's
// links stably sorted by name, and a twin node rebuilt from the same links in
// another insertion order must encode identically.
package main

import (
	"bytes"
	"encoding/json"
	"errors"
	"fmt"
	"sort"
	"strings"

	mdag "github.com/ipfs/boxo/ipld/merkledag"
	blocks "github.com/ipfs/go-block-format"
	cid "github.com/ipfs/go-cid"
	format "github.com/ipfs/go-ipld-format"
	mh "github.com/multiformats/go-multihash"
	"google.golang.org/protobuf/encoding/protowire"

	"verif/vlib"
)

func main() { vlib.Run("C11", run) }

func run(c *vlib.Ctx) {
	c.Rule("histories of 3-20 mutations {AddRawLink,AddNodeLink,RemoveNodeLink,SetLinks(0-30),SetData(nil/empty/bytes),SetCidBuilder(v0,v1 x {sha2-256,sha2-512,blake2b-256,sha3-256,sha2-256/20,identity},*Prefix,V0Builder,V1Builder,custom,nil,invalid),Copy,UpdateNodeLink,ReloadBlock} over names {\"\",a,b,aa,ab,é,A,z} (duplicates frequent), Tsize in {0,1,2^31,2^63-1,random}; after every mutation a random subset of 11 observers runs in random order (so the encode/CID cache is warm, cold or half-refreshed at the next mutation); distinct = FNV of the op+observer list; decoded stratum: the history starts from DecodeProtobuf[Block] of a hand-encoded block with 1-8 links in random (mostly non-canonical) order; non-trivial = >=2 mutations hit a warm CID cache, some observed state had equal-named links, and a twin-order comparison ran (decoded stratum: additionally the block was unsorted and a link mutation followed)")
	c.Cases("hist", c.N(3000, 40000), func(k *vlib.Case) { history(k, true, false) })
	// Same generator without SetCidBuilder(nil): avoids the trigger of the
	// known stale-CID finding so that every other clause stays fully armed.
	c.Cases("hist-nonil", c.N(1500, 20000), func(k *vlib.Case) { history(k, false, false) })
	c.Cases("wide", c.N(400, 6000), wide)
	// histories that start from a node decoded from a valid block whose links are
	// NOT in canonical order (hand-encoded): as-serialized order until the first
	// link mutation, canonical from then on
	c.Cases("decoded", c.N(1500, 20000), func(k *vlib.Case) { history(k, true, true) })
}

// ---------------------------------------------------------------- model

type mlink struct {
	name string
	size uint64
	c    cid.Cid
}

type bspec struct {
	desc    string
	version uint64
	mhType  uint64
	mhLen   int
}

func (b bspec) sum(data []byte) cid.Cid {
	l := b.mhLen
	if b.mhType == mh.IDENTITY {
		l = -1
	}
	h, err := mh.Sum(data, b.mhType, l)
	if err != nil {
		panic(fmt.Sprintf("model hash %s: %v", b.desc, err))
	}
	if b.version == 0 {
		return cid.NewCidV0(h)
	}
	return cid.NewCidV1(cid.DagProtobuf, h)
}

var v0spec = bspec{"v0", 0, mh.SHA2_256, -1}

type model struct {
	data    []byte
	links   []mlink // insertion order
	builder bspec
	// asSerialized: the node was decoded from a block and no link mutation has
	// happened yet; boxo documents that such a node keeps the (possibly
	// unsorted) serialized link order until its links are mutated or it is copied.
	asSerialized bool
}

func (m *model) clone() *model {
	return &model{data: m.data, links: append([]mlink(nil), m.links...), builder: m.builder, asSerialized: m.asSerialized}
}

// expected is the canonical link order: what every view and the encoding must
// show once the links have been mutated.
func (m *model) expected() []mlink { return m.sorted() }

// okOrder accepts the canonical order, and for a decoded node whose links
// were never mutated also the order of the block it came from. (On such a
// node a re-encode after SetData already sorts the bytes while Links() still
// shows the block's order; the statement fixes neither, so both are accepted
// for both.)
func (m *model) okOrder(got []mlink) bool {
	return eqLinks(got, m.sorted()) || (m.asSerialized && eqLinks(got, m.links))
}

// sorted = stable insertion sort by byte-wise name (own implementation on purpose).
func (m *model) sorted() []mlink {
	out := append([]mlink(nil), m.links...)
	for i := 1; i < len(out); i++ {
		for j := i; j > 0 && out[j].name < out[j-1].name; j-- {
			out[j], out[j-1] = out[j-1], out[j]
		}
	}
	return out
}

func (m *model) hasDup() bool {
	seen := map[string]bool{}
	for _, l := range m.links {
		if seen[l.name] {
			return true
		}
		seen[l.name] = true
	}
	return false
}

func fmtLinks(ls []mlink) string {
	var sb strings.Builder
	for i, l := range ls {
		if i > 0 {
			sb.WriteByte(' ')
		}
		fmt.Fprintf(&sb, "%q/%d/%s", l.name, l.size, short(l.c))
	}
	return "[" + sb.String() + "]"
}

func short(c cid.Cid) string {
	s := c.String()
	if len(s) > 10 {
		return s[len(s)-8:]
	}
	return s
}

func eqLinks(a, b []mlink) bool {
	if len(a) != len(b) {
		return false
	}
	for i := range a {
		if a[i].name != b[i].name || a[i].size != b[i].size || !a[i].c.Equals(b[i].c) {
			return false
		}
	}
	return true
}

func fromFormat(ls []*format.Link) []mlink {
	out := make([]mlink, len(ls))
	for i, l := range ls {
		out[i] = mlink{l.Name, l.Size, l.Cid}
	}
	return out
}

// parseWire reads a dag-pb block with nothing but the protobuf wire rules:
// PBNode{1:Data bytes, 2:Links repeated PBLink{1:Hash,2:Name,3:Tsize}}.
func parseWire(b []byte) (data []byte, hasData bool, links []mlink, err error) {
	for len(b) > 0 {
		num, typ, n := protowire.ConsumeTag(b)
		if n < 0 {
			return nil, false, nil, fmt.Errorf("bad tag")
		}
		b = b[n:]
		if typ != protowire.BytesType {
			return nil, false, nil, fmt.Errorf("field %d wire type %d", num, typ)
		}
		v, n := protowire.ConsumeBytes(b)
		if n < 0 {
			return nil, false, nil, fmt.Errorf("bad bytes")
		}
		b = b[n:]
		switch num {
		case 1:
			data, hasData = v, true
		case 2:
			var l mlink
			for len(v) > 0 {
				ln, lt, n := protowire.ConsumeTag(v)
				if n < 0 {
					return nil, false, nil, fmt.Errorf("bad link tag")
				}
				v = v[n:]
				switch {
				case ln == 1 && lt == protowire.BytesType:
					h, n := protowire.ConsumeBytes(v)
					if n < 0 {
						return nil, false, nil, fmt.Errorf("bad hash")
					}
					v = v[n:]
					_, c, err := cid.CidFromBytes(h)
					if err != nil {
						return nil, false, nil, err
					}
					l.c = c
				case ln == 2 && lt == protowire.BytesType:
					s, n := protowire.ConsumeBytes(v)
					if n < 0 {
						return nil, false, nil, fmt.Errorf("bad name")
					}
					v = v[n:]
					l.name = string(s)
				case ln == 3 && lt == protowire.VarintType:
					x, n := protowire.ConsumeVarint(v)
					if n < 0 {
						return nil, false, nil, fmt.Errorf("bad tsize")
					}
					v = v[n:]
					l.size = x
				default:
					return nil, false, nil, fmt.Errorf("link field %d/%d", ln, lt)
				}
			}
			links = append(links, l)
		default:
			return nil, false, nil, fmt.Errorf("unknown field %d", num)
		}
	}
	return data, hasData, links, nil
}

// ---------------------------------------------------------------- builders

type customBuilder struct{ p cid.Prefix }

func (b customBuilder) Sum(d []byte) (cid.Cid, error) { return b.p.Sum(d) }
func (b customBuilder) GetCodec() uint64               { return b.p.Codec }
func (b customBuilder) WithCodec(c uint64) cid.Builder {
	p := b.p
	p.Codec = c
	return customBuilder{p}
}

type failingBuilder struct{}

func (failingBuilder) Sum([]byte) (cid.Cid, error)  { return cid.Undef, errors.New("unusable") }
func (failingBuilder) GetCodec() uint64             { return cid.DagProtobuf }
func (failingBuilder) WithCodec(uint64) cid.Builder { return failingBuilder{} }

type builderChoice struct {
	name string
	mk   func() cid.Builder
	spec bspec
	bad  bool // SetCidBuilder must return an error and change nothing
	nilB bool
}

func v1(code uint64, l int) cid.Prefix {
	return cid.Prefix{Version: 1, Codec: cid.DagProtobuf, MhType: code, MhLength: l}
}

var builderChoices = []builderChoice{
	{name: "v0", mk: func() cid.Builder { return mdag.V0CidPrefix() }, spec: v0spec},
	{name: "v1-sha256", mk: func() cid.Builder { return mdag.V1CidPrefix() }, spec: bspec{"v1-sha256", 1, mh.SHA2_256, -1}},
	{name: "v1-sha512", mk: func() cid.Builder { return v1(mh.SHA2_512, -1) }, spec: bspec{"v1-sha512", 1, mh.SHA2_512, -1}},
	{name: "v1-blake2b256", mk: func() cid.Builder { return v1(mh.BLAKE2B_MIN+31, -1) }, spec: bspec{"v1-blake2b256", 1, mh.BLAKE2B_MIN + 31, -1}},
	{name: "v1-sha3-256", mk: func() cid.Builder { return v1(mh.SHA3_256, 32) }, spec: bspec{"v1-sha3-256", 1, mh.SHA3_256, 32}},
	{name: "v1-sha256/20", mk: func() cid.Builder { return v1(mh.SHA2_256, 20) }, spec: bspec{"v1-sha256/20", 1, mh.SHA2_256, 20}},
	{name: "v1-identity", mk: func() cid.Builder { return v1(mh.IDENTITY, -1) }, spec: bspec{"v1-identity", 1, mh.IDENTITY, -1}},
	{name: "v1-sha256-rawcodec", mk: func() cid.Builder { return cid.Prefix{Version: 1, Codec: cid.Raw, MhType: mh.SHA2_256, MhLength: -1} }, spec: bspec{"v1-sha256", 1, mh.SHA2_256, -1}},
	{name: "*v1-sha512", mk: func() cid.Builder { p := v1(mh.SHA2_512, -1); return &p }, spec: bspec{"v1-sha512", 1, mh.SHA2_512, -1}},
	{name: "V0Builder", mk: func() cid.Builder { return cid.V0Builder{} }, spec: v0spec},
	{name: "V1Builder-sha512", mk: func() cid.Builder { return cid.V1Builder{Codec: cid.Raw, MhType: mh.SHA2_512} }, spec: bspec{"v1-sha512", 1, mh.SHA2_512, -1}},
	{name: "custom-blake2b", mk: func() cid.Builder { return customBuilder{v1(mh.BLAKE2B_MIN+31, -1)} }, spec: bspec{"v1-blake2b256", 1, mh.BLAKE2B_MIN + 31, -1}},
	{name: "nil", mk: func() cid.Builder { return nil }, spec: v0spec, nilB: true},
	{name: "bad-hashcode", mk: func() cid.Builder { return v1(0x7fff1234, -1) }, bad: true},
	{name: "bad-failing", mk: func() cid.Builder { return failingBuilder{} }, bad: true},
}

// ---------------------------------------------------------------- world

var names = []string{"", "a", "a", "b", "aa", "é", "a", "b", "ab", "A", "z"}
var distinctNames = []string{"", "a", "b", "aa", "é", "ab", "A", "z", "b/", "a a", "zz", "0", "é́", "aaa", "B", "_", "~", "a.b", "a-b", "ba", "bb", "x", "y", "é2"}

type world struct {
	k        *vlib.Case
	r        *vlib.Rand
	n        *mdag.ProtoNode
	m        *model
	targets  []mlink // pool of link targets (cid,size)
	children []format.Node
	lastMut  string // kind of the last mutation (class feature)
	warm     bool   // a Cid()/RawData()-type observer ran since the last mutation
	warmMuts int
	sawDup   bool
	twins    int
	failed   map[string]bool
}

// fail records a violation once per clause family and case: a persistent
// divergence would otherwise be re-reported after every later mutation under a
// new "/after=" suffix.
func (w *world) fail(class, clause, exp, obs string) {
	fam, _, _ := strings.Cut(class, "/after=")
	if w.failed[fam] {
		return
	}
	w.failed[fam] = true
	w.k.Fail(class, clause, exp, obs)
}

func newWorld(k *vlib.Case) *world {
	r := k.R
	w := &world{k: k, r: r, failed: map[string]bool{}}
	// link targets: real child nodes (so AddNodeLink can be used) plus bare CIDs
	for i := 0; i < 5; i++ {
		var nd format.Node
		switch r.Intn(3) {
		case 0:
			nd = mdag.NodeWithData(r.Bytes(r.Range(0, 40)))
		case 1:
			p := mdag.NodeWithData(r.Bytes(r.Range(1, 20)))
			p.SetCidBuilder(mdag.V1CidPrefix())
			nd = p
		default:
			nd = mdag.NewRawNode(r.Bytes(r.Range(0, 40)))
		}
		w.children = append(w.children, nd)
	}
	forms := []func(d []byte) cid.Cid{
		func(d []byte) cid.Cid { h, _ := mh.Sum(d, mh.SHA2_256, -1); return cid.NewCidV0(h) },
		func(d []byte) cid.Cid { h, _ := mh.Sum(d, mh.SHA2_256, -1); return cid.NewCidV1(cid.Raw, h) },
		func(d []byte) cid.Cid { h, _ := mh.Sum(d, mh.SHA2_512, -1); return cid.NewCidV1(cid.DagCBOR, h) },
		func(d []byte) cid.Cid { h, _ := mh.Sum(d, mh.IDENTITY, -1); return cid.NewCidV1(cid.Raw, h) },
	}
	sizes := []uint64{0, 1, 127, 128, 1 << 31, 1<<63 - 1, 1<<63 - 1}
	for i := 0; i < 6; i++ {
		sz := sizes[r.Intn(len(sizes))]
		if r.Chance(1, 3) {
			sz = r.Uint64() >> uint(1+r.Intn(63))
		}
		w.targets = append(w.targets, mlink{"", sz, forms[r.Intn(len(forms))](r.Bytes(r.Range(0, 12)))})
	}
	return w
}

func (w *world) pickData() ([]byte, string) {
	switch w.r.Intn(6) {
	case 0:
		return nil, "nil"
	case 1:
		return []byte{}, "empty"
	case 2:
		return []byte{0}, "00"
	default:
		d := w.r.Bytes(w.r.Range(1, 200))
		return d, fmt.Sprintf("%dB:%x", len(d), d[:min(4, len(d))])
	}
}

func (w *world) mutated(kind string) {
	if w.warm {
		w.warmMuts++
	}
	w.warm = false
	w.lastMut = kind
	switch kind {
	case "AddRawLink", "AddNodeLink", "RemoveNodeLink", "SetLinks", "Copy", "UpdateNodeLink":
		w.m.asSerialized = false // documented: these sort the links
	}
}

// ---------------------------------------------------------------- observers

func eqData(a, b []byte) bool { return bytes.Equal(a, b) } // nil == empty

// expectCid checks a CID obtained through `via` against the model builder's
// hash of raw (the bytes the node returns now).
func (w *world) expectCid(via string, got cid.Cid, raw []byte) {
	want := w.m.builder.sum(raw)
	if !got.Equals(want) {
		w.fail("cid-stale/after="+w.lastMut, "Cid()==builder.Sum(RawData())",
			fmt.Sprintf("%s (builder %s over %d bytes)", want, w.m.builder.desc, len(raw)),
			fmt.Sprintf("%s via %s", got, via))
	}
}

func (w *world) checkRaw(via string, raw []byte) {
	want := w.m.expected()
	if _, err := w.n.EncodeProtobuf(false); err != nil {
		w.fail("encode-failed/after="+w.lastMut, "the node encodes", "bytes", err.Error()+" via "+via)
		return
	}
	data, _, links, err := parseWire(raw)
	if err != nil {
		w.fail("wire-unparsable", "encoding is a PBNode", "parsable", err.Error())
		return
	}
	if !eqData(data, w.m.data) {
		w.fail("wire-data/after="+w.lastMut, "encoded Data == current data", fmt.Sprintf("%x", w.m.data), fmt.Sprintf("%x via %s", data, via))
	}
	if !w.m.okOrder(links) {
		cls := "wire-links"
		if len(links) == len(want) && sameMultiset(links, want) {
			cls = "wire-link-order"
			if w.m.hasDup() && sortedByName(links) {
				cls = "wire-link-order/equal-names"
			}
		}
		w.fail(cls+"/after="+w.lastMut, "encoded links == model links stably sorted by name", fmtLinks(want), fmtLinks(links)+" via "+via)
	}
	dec, err := mdag.DecodeProtobuf(raw)
	if err != nil {
		w.fail("decode-error", "DecodeProtobuf(RawData()) succeeds", "node", err.Error())
		return
	}
	if !eqData(dec.Data(), w.m.data) {
		w.fail("decode-data/after="+w.lastMut, "decoded data == current data", fmt.Sprintf("%x", w.m.data), fmt.Sprintf("%x", dec.Data()))
	}
	if got := fromFormat(dec.Links()); !w.m.okOrder(got) {
		w.fail("decode-links/after="+w.lastMut, "decoded links == model links stably sorted by name", fmtLinks(want), fmtLinks(got))
	}
}

func sameMultiset(a, b []mlink) bool {
	key := func(l mlink) string { return fmt.Sprintf("%q|%d|%s", l.name, l.size, l.c) }
	cnt := map[string]int{}
	for _, l := range a {
		cnt[key(l)]++
	}
	for _, l := range b {
		cnt[key(l)]--
	}
	for _, v := range cnt {
		if v != 0 {
			return false
		}
	}
	return true
}

func sortedByName(a []mlink) bool {
	for i := 1; i < len(a); i++ {
		if a[i].name < a[i-1].name {
			return false
		}
	}
	return true
}

var observerNames = []string{"Cid", "RawData", "Cid+RawData", "RawData+Cid", "Links", "Stat", "Size", "MarshalJSON", "Tree", "GetNodeLink", "Multihash"}

func (w *world) observe(o string) {
	n := w.n
	switch o {
	case "Cid":
		c := n.Cid()
		// The bytes are read after the CID; reading them cannot make a correct
		// CID wrong (RawData is a pure query by the statement).
		w.expectCid("Cid()", c, n.RawData())
		w.warm = true
	case "RawData":
		w.checkRaw("RawData()", n.RawData())
		w.warm = true
	case "Cid+RawData":
		c := n.Cid()
		raw := n.RawData()
		w.expectCid("Cid();RawData()", c, raw)
		w.checkRaw("Cid();RawData()", raw)
		w.warm = true
	case "RawData+Cid":
		raw := append([]byte(nil), n.RawData()...)
		c := n.Cid()
		w.expectCid("RawData();Cid()", c, raw)
		if b, err := n.CidBuilder().Sum(raw); err != nil || !b.Equals(w.m.builder.sum(raw)) {
			w.fail("builder-mismatch/after="+w.lastMut, "CidBuilder() is the builder last set", w.m.builder.desc, fmt.Sprintf("%v %v", b, err))
		}
		w.warm = true
	case "Multihash":
		h := n.Multihash()
		raw := n.RawData()
		if want := w.m.builder.sum(raw).Hash(); !bytes.Equal(h, want) {
			w.fail("cid-stale/after="+w.lastMut, "Multihash()==hash of RawData()", want.B58String(), h.B58String()+" via Multihash()")
		}
		w.warm = true
	case "Links":
		got := fromFormat(n.Links())
		if want := w.m.expected(); !w.m.okOrder(got) {
			w.fail("links-view/after="+w.lastMut, "Links() == model links stably sorted by name", fmtLinks(want), fmtLinks(got))
		}
	case "Tree":
		got := n.Tree("", -1)
		want := w.m.expected()
		same := func(ref []mlink) bool {
			ok := len(got) == len(ref)
			for i := 0; ok && i < len(got); i++ {
				ok = got[i] == ref[i].name
			}
			return ok
		}
		ok := same(want) || (w.m.asSerialized && same(w.m.links))
		if !ok {
			w.fail("tree-view/after="+w.lastMut, "Tree() == sorted names", fmtLinks(want), fmt.Sprintf("%q", got))
		}
	case "GetNodeLink":
		name := names[w.r.Intn(len(names))]
		l, err := n.GetNodeLink(name)
		var want *mlink
		for i := range w.m.links {
			if w.m.links[i].name == name {
				want = &w.m.links[i]
				break
			}
		}
		switch {
		case want == nil && !errors.Is(err, mdag.ErrLinkNotFound):
			w.fail("getlink-phantom", "GetNodeLink(absent) == ErrLinkNotFound", "ErrLinkNotFound", fmt.Sprintf("%v %v", l, err))
		case want != nil && (err != nil || l.Name != want.name || l.Size != want.size || !l.Cid.Equals(want.c)):
			w.fail("getlink-first/after="+w.lastMut, "GetNodeLink returns the first-inserted link of that name", fmtLinks([]mlink{*want}), fmt.Sprintf("%v %v", l, err))
		}
	case "Stat":
		st, err := n.Stat()
		if err != nil {
			w.fail("stat-error", "Stat() succeeds", "stat", err.Error())
			return
		}
		raw := n.RawData()
		want := w.m.builder.sum(raw)
		if st.Hash != want.String() {
			w.fail("cid-stale/after="+w.lastMut, "Stat().Hash == builder.Sum(RawData())", want.String(), st.Hash+" via Stat()")
		}
		if st.NumLinks != len(w.m.links) || st.BlockSize != len(raw) || st.DataSize != len(w.m.data) {
			w.fail("stat-fields", "Stat() NumLinks/BlockSize/DataSize", fmt.Sprintf("%d/%d/%d", len(w.m.links), len(raw), len(w.m.data)), fmt.Sprintf("%d/%d/%d", st.NumLinks, st.BlockSize, st.DataSize))
		}
		w.warm = true
	case "Size":
		sz, err := n.Size()
		if err != nil {
			w.fail("size-error", "Size() succeeds", "size", err.Error())
			return
		}
		want := uint64(len(n.RawData()))
		for _, l := range w.m.links {
			want += l.size // wraps exactly like uint64 addition in any order
		}
		if sz != want {
			w.fail("size-sum", "Size() == len(RawData()) + sum Tsize (mod 2^64)", fmt.Sprint(want), fmt.Sprint(sz))
		}
		w.warm = true
	case "MarshalJSON":
		b, err := n.MarshalJSON()
		if err != nil {
			w.fail("json-error", "MarshalJSON succeeds", "json", err.Error())
			return
		}
		var out struct {
			Data  []byte `json:"data"`
			Links []struct {
				Name string
				Size uint64
				Cid  cid.Cid
			} `json:"links"`
		}
		if err := json.Unmarshal(b, &out); err != nil {
			w.fail("json-unparsable", "MarshalJSON output parses", "json", err.Error())
			return
		}
		var got []mlink
		for _, l := range out.Links {
			got = append(got, mlink{l.Name, l.Size, l.Cid})
		}
		if want := w.m.expected(); !w.m.okOrder(got) || !eqData(out.Data, w.m.data) {
			w.fail("json-view/after="+w.lastMut, "MarshalJSON shows current data and sorted links", fmt.Sprintf("%x %s", w.m.data, fmtLinks(want)), fmt.Sprintf("%x %s", out.Data, fmtLinks(got)))
		}
	}
}

// observeSome runs a PRNG-chosen subset (possibly empty) of the observers.
func (w *world) observeSome() {
	var cnt int
	switch w.r.Intn(8) {
	case 0:
		cnt = 0
	case 1, 2, 3:
		cnt = 1
	case 4, 5:
		cnt = 2
	case 6:
		cnt = 4
	default:
		cnt = len(observerNames)
	}
	perm := w.r.Perm(len(observerNames))
	var chosen []string
	for i := 0; i < cnt; i++ {
		chosen = append(chosen, observerNames[perm[i]])
	}
	w.k.Logf("  observe %s", strings.Join(chosen, ","))
	for _, o := range chosen {
		w.observe(o)
	}
	if w.m.hasDup() && cnt > 0 {
		w.sawDup = true
	}
	w.k.C.Count("observations", int64(cnt))
}

// twin rebuilds a node from the model's links in another insertion order
// (equal names keep their relative order, which the statement makes
// significant) and demands identical bytes and CID.
func (w *world) twin() {
	if w.m.asSerialized {
		return // as-decoded order is the block's, not the canonical one
	}
	ls := w.m.sorted()
	order := w.r.Perm(len(ls))
	// restore the relative order of equal names
	byName := map[string][]int{}
	for pos, idx := range order {
		byName[ls[idx].name] = append(byName[ls[idx].name], pos)
	}
	for _, poss := range byName {
		idxs := make([]int, len(poss))
		for i, p := range poss {
			idxs[i] = order[p]
		}
		sort.Ints(idxs)
		for i, p := range poss {
			order[p] = idxs[i]
		}
	}
	t := new(mdag.ProtoNode)
	t.SetData(w.n.Data()) // the very same slice: same nil-ness
	if err := t.SetCidBuilder(w.n.CidBuilder()); err != nil {
		panic(err)
	}
	mode := w.r.Intn(3)
	w.k.Logf("  twin order=%v mode=%d", order, mode)
	var batch []*format.Link
	for i, idx := range order {
		l := &format.Link{Name: ls[idx].name, Size: ls[idx].size, Cid: ls[idx].c}
		switch {
		case mode == 0 || (mode == 2 && i >= len(order)/2):
			if err := t.AddRawLink(l.Name, l); err != nil {
				panic(err)
			}
			if mode == 2 && w.r.Chance(1, 3) {
				t.Cid() // warm the twin's cache half-way
			}
		default:
			batch = append(batch, l)
			if mode == 1 && i == len(order)-1 || mode == 2 && i == len(order)/2-1 {
				if err := t.SetLinks(batch); err != nil {
					panic(err)
				}
			}
		}
	}
	a, b := w.n.RawData(), t.RawData()
	cls := "order-dependent"
	if w.m.hasDup() {
		cls = "order-dependent/equal-names"
	}
	if !bytes.Equal(a, b) {
		w.fail(cls, "same data + same links in another insertion order encode identically", fmt.Sprintf("%x", a), fmt.Sprintf("%x", b))
	} else if !w.n.Cid().Equals(t.Cid()) {
		// only meaningful when the node's own CID is fresh; a stale CID is
		// reported by cid-stale, not here
		if w.n.Cid().Equals(w.m.builder.sum(a)) {
			w.fail(cls+"/cid", "identical encodings have identical CIDs", w.n.Cid().String(), t.Cid().String())
		}
	}
	w.warm = true
	w.twins++
	w.k.C.Count("twin_comparisons", 1)
}

// ---------------------------------------------------------------- history

func (w *world) pickTarget() mlink { return w.targets[w.r.Intn(len(w.targets))] }

func (w *world) genLinks(n int, pool []string) ([]*format.Link, []mlink) {
	var fl []*format.Link
	var ml []mlink
	for i := 0; i < n; i++ {
		t := w.pickTarget()
		nm := pool[w.r.Intn(len(pool))]
		fl = append(fl, &format.Link{Name: nm, Size: t.size, Cid: t.c})
		ml = append(ml, mlink{nm, t.size, t.c})
	}
	return fl, ml
}

// encodeUnsorted writes a PBNode with the links in the given order.
func encodeUnsorted(links []mlink, data []byte, hasData, dataFirst bool) []byte {
	var out []byte
	putData := func() {
		if hasData {
			out = protowire.AppendTag(out, 1, protowire.BytesType)
			out = protowire.AppendBytes(out, data)
		}
	}
	if dataFirst {
		putData()
	}
	for _, l := range links {
		var lb []byte
		lb = protowire.AppendTag(lb, 1, protowire.BytesType)
		lb = protowire.AppendBytes(lb, l.c.Bytes())
		lb = protowire.AppendTag(lb, 2, protowire.BytesType)
		lb = protowire.AppendBytes(lb, []byte(l.name))
		lb = protowire.AppendTag(lb, 3, protowire.VarintType)
		lb = protowire.AppendVarint(lb, l.size)
		out = protowire.AppendTag(out, 2, protowire.BytesType)
		out = protowire.AppendBytes(out, lb)
	}
	if !dataFirst {
		putData()
	}
	return out
}

func history(k *vlib.Case, allowNil, startDecoded bool) {
	w := newWorld(k)
	r := k.R
	w.n = new(mdag.ProtoNode)
	w.m = &model{builder: v0spec}
	w.lastMut = "new"
	startUnsorted := false
	if startDecoded {
		_, ml := w.genLinks(r.Range(1, 8), names)
		var data []byte
		hasData := r.Bool()
		if hasData {
			data = r.Bytes(r.Intn(20))
		}
		raw := encodeUnsorted(ml, data, hasData, r.Chance(1, 5))
		startUnsorted = !sortedByName(ml)
		w.m.links, w.m.data, w.m.asSerialized = ml, data, true
		w.lastMut = "decode"
		if r.Bool() {
			k.Logf("DecodeProtobuf of hand-encoded block, links as serialized %s unsorted=%v", fmtLinks(ml), startUnsorted)
			nd, err := mdag.DecodeProtobuf(raw)
			if err != nil {
				panic(err)
			}
			w.n = nd
		} else {
			spec := bspec{"v1-sha256", 1, mh.SHA2_256, -1}
			k.Logf("DecodeProtobufBlock(v1) of hand-encoded block, links as serialized %s unsorted=%v", fmtLinks(ml), startUnsorted)
			blk, err := blocks.NewBlockWithCid(raw, spec.sum(raw))
			if err != nil {
				panic(err)
			}
			nd, err := mdag.DecodeProtobufBlock(blk)
			if err != nil {
				panic(err)
			}
			w.n = nd.(*mdag.ProtoNode)
			w.m.builder = spec
		}
	} else if r.Bool() {
		d, desc := w.pickData()
		k.Logf("NodeWithData %s", desc)
		w.n = mdag.NodeWithData(d)
		w.m.data = d
	} else {
		k.Logf("new(ProtoNode)")
	}
	w.observeSome()

	type shadow struct {
		n       *mdag.ProtoNode
		m       *model
		lastMut string
	}
	var old *shadow
	nmut := r.Range(3, 20)
	for i := 0; i < nmut; i++ {
		op := r.Intn(100)
		switch {
		case op < 22:
			t := w.pickTarget()
			nm := names[r.Intn(len(names))]
			k.Logf("AddRawLink %q size=%d %s", nm, t.size, short(t.c))
			if err := w.n.AddRawLink(nm, &format.Link{Name: "ignored", Size: t.size, Cid: t.c}); err != nil {
				w.fail("addrawlink-error", "AddRawLink(valid) succeeds", "nil", err.Error())
				break
			}
			w.m.links = append(w.m.links, mlink{nm, t.size, t.c})
			w.mutated("AddRawLink")
		case op < 30:
			ch := w.children[r.Intn(len(w.children))]
			nm := names[r.Intn(len(names))]
			sz, _ := ch.Size()
			k.Logf("AddNodeLink %q -> %s size=%d", nm, short(ch.Cid()), sz)
			if err := w.n.AddNodeLink(nm, ch); err != nil {
				w.fail("addnodelink-error", "AddNodeLink succeeds", "nil", err.Error())
				break
			}
			w.m.links = append(w.m.links, mlink{nm, sz, ch.Cid()})
			w.mutated("AddNodeLink")
		case op < 44:
			nm := names[r.Intn(len(names))]
			k.Logf("RemoveNodeLink %q", nm)
			err := w.n.RemoveNodeLink(nm)
			var keep []mlink
			for _, l := range w.m.links {
				if l.name != nm {
					keep = append(keep, l)
				}
			}
			found := len(keep) != len(w.m.links)
			if found != (err == nil) || (!found && !errors.Is(err, mdag.ErrLinkNotFound)) {
				w.fail("remove-result", "RemoveNodeLink reports whether the name existed", fmt.Sprintf("found=%v", found), fmt.Sprint(err))
			}
			w.m.links = keep
			if found {
				w.mutated("RemoveNodeLink")
			}
		case op < 54:
			cnt := []int{0, 1, 2, 5, 13, 14, 20, 30}[r.Intn(8)]
			pool := names
			if r.Chance(1, 3) {
				pool = distinctNames
			}
			fl, ml := w.genLinks(cnt, pool)
			k.Logf("SetLinks %s", fmtLinks(ml))
			if err := w.n.SetLinks(fl); err != nil {
				w.fail("setlinks-error", "SetLinks(valid) succeeds", "nil", err.Error())
				break
			}
			// the caller's slice stays the caller's: scribble over it
			for i := range fl {
				fl[i] = nil
			}
			w.m.links = ml
			w.mutated("SetLinks")
		case op < 68:
			d, desc := w.pickData()
			k.Logf("SetData %s", desc)
			w.n.SetData(d)
			w.m.data = d
			w.mutated("SetData")
		case op < 82:
			bc := builderChoices[r.Intn(len(builderChoices))]
			if bc.nilB && !allowNil {
				bc = builderChoices[r.Intn(8)]
			}
			k.Logf("SetCidBuilder %s", bc.name)
			err := w.n.SetCidBuilder(bc.mk())
			if bc.bad {
				if err == nil {
					w.fail("setbuilder-accepts-unusable", "unusable builder rejected", "error", "nil")
					return
				}
				break // rejected: nothing changed, lastMut stays
			}
			if err != nil {
				w.fail("setbuilder-error", "usable builder accepted", "nil", err.Error())
				break
			}
			w.m.builder = bc.spec
			if bc.nilB {
				w.mutated("SetCidBuilder(nil)")
			} else {
				w.mutated("SetCidBuilder")
			}
		case op < 88:
			k.Logf("Copy (continue on the copy)")
			cp := w.n.Copy().(*mdag.ProtoNode)
			old = &shadow{w.n, w.m.clone(), w.lastMut}
			w.n = cp
			if len(w.m.data) == 0 {
				w.m.data = nil
			}
			w.mutated("Copy")
		case op < 94:
			ch, _ := w.children[r.Intn(2)].(*mdag.ProtoNode)
			if ch == nil {
				ch = mdag.NodeWithData([]byte("x"))
			}
			nm := names[r.Intn(len(names))]
			sz, _ := ch.Size()
			k.Logf("UpdateNodeLink %q -> %s (continue on the result)", nm, short(ch.Cid()))
			nn, err := w.n.UpdateNodeLink(nm, ch)
			if err != nil {
				w.fail("updatenodelink-error", "UpdateNodeLink succeeds", "nil", err.Error())
				break
			}
			old = &shadow{w.n, w.m.clone(), w.lastMut}
			w.n = nn
			var keep []mlink
			for _, l := range w.m.links {
				if l.name != nm {
					keep = append(keep, l)
				}
			}
			w.m.links = append(keep, mlink{nm, sz, ch.Cid()})
			if len(w.m.data) == 0 {
				w.m.data = nil
			}
			w.mutated("UpdateNodeLink")
		default:
			// store-and-load: the node is turned into a block and decoded again
			raw := w.n.RawData()
			c := w.n.Cid()
			if !c.Equals(w.m.builder.sum(raw)) {
				// a stale CID would make the block dishonest; leave that to the observers
				w.observe("Cid+RawData")
				continue
			}
			k.Logf("ReloadBlock (DecodeProtobufBlock of own block)")
			blk, err := blocks.NewBlockWithCid(append([]byte(nil), raw...), c)
			if err != nil {
				panic(err)
			}
			nd, err := mdag.DecodeProtobufBlock(blk)
			if err != nil {
				w.fail("decode-error", "DecodeProtobufBlock(own block) succeeds", "node", err.Error())
				return
			}
			w.n = nd.(*mdag.ProtoNode)
			// the block's own link order (read with the harness's wire reader) is the
			// new insertion order, and the node is "as decoded" again
			_, _, wl, err := parseWire(raw)
			if err != nil || !w.m.okOrder(wl) {
				w.observe("RawData") // reports the wire-order violation
				return
			}
			w.m.links = wl
			w.m.asSerialized = true
			w.mutated("ReloadBlock")
		}
		w.observeSome()
		if old != nil && r.Chance(1, 2) {
			// the node we copied from must be unaffected by what happened to the copy
			k.Logf("  observe original after copy")
			cur, curm, lm := w.n, w.m, w.lastMut
			w.n, w.m, w.lastMut = old.n, old.m, old.lastMut
			w.observe("Cid+RawData")
			w.observe("Links")
			w.n, w.m, w.lastMut = cur, curm, lm
			old = nil
		}
		if r.Chance(1, 4) {
			w.twin()
		}
	}
	k.Logf("final full observation")
	for _, o := range observerNames {
		w.observe(o)
	}
	w.twin()
	if w.warmMuts >= 2 && w.sawDup && w.twins > 0 && (!startDecoded || (startUnsorted && !w.m.asSerialized)) {
		k.Nontrivial()
	}
	k.C.Count("mutations", int64(nmut))
	k.C.Max("max_links_observed", int64(len(w.m.links)))
}

// wide: nodes with 13..60 links (beyond the 12-element insertion-sort cut-off
// of the standard sort) and heavily repeated names, built incrementally with
// observations in between.
func wide(k *vlib.Case) {
	w := newWorld(k)
	r := k.R
	w.n = new(mdag.ProtoNode)
	w.m = &model{builder: v0spec}
	w.lastMut = "new"
	total := r.Range(13, 60)
	pool := []string{"a", "b", "", "a", "c"}
	if r.Chance(1, 4) {
		pool = distinctNames
	}
	k.Logf("wide total=%d pool=%q", total, pool)
	for len(w.m.links) < total {
		if r.Chance(1, 3) {
			cnt := r.Range(1, total-len(w.m.links))
			fl, ml := w.genLinks(cnt, pool)
			all := append(fromFormat(w.n.Links()), ml...)
			var allf []*format.Link
			for _, l := range all {
				allf = append(allf, &format.Link{Name: l.name, Size: l.size, Cid: l.c})
			}
			_ = fl
			k.Logf("SetLinks current+%s", fmtLinks(ml))
			if err := w.n.SetLinks(allf); err != nil {
				panic(err)
			}
			w.m.links = all
			w.mutated("SetLinks")
		} else {
			t := w.pickTarget()
			nm := pool[r.Intn(len(pool))]
			k.Logf("AddRawLink %q size=%d %s", nm, t.size, short(t.c))
			if err := w.n.AddRawLink(nm, &format.Link{Size: t.size, Cid: t.c}); err != nil {
				panic(err)
			}
			w.m.links = append(w.m.links, mlink{nm, t.size, t.c})
			w.mutated("AddRawLink")
		}
		if r.Chance(1, 3) {
			w.observeSome()
		}
	}
	if r.Bool() {
		nm := pool[r.Intn(len(pool))]
		k.Logf("RemoveNodeLink %q", nm)
		if w.n.RemoveNodeLink(nm) == nil {
			var keep []mlink
			for _, l := range w.m.links {
				if l.name != nm {
					keep = append(keep, l)
				}
			}
			w.m.links = keep
			w.mutated("RemoveNodeLink")
		}
	}
	k.Logf("final full observation")
	for _, o := range observerNames {
		w.observe(o)
	}
	w.twin()
	if w.m.hasDup() {
		w.sawDup = true
	}
	if w.warmMuts >= 2 && w.sawDup && len(w.m.links) > 12 {
		k.Nontrivial()
	}
	k.C.Max("max_links_observed", int64(len(w.m.links)))
}
