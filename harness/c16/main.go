// C16: for a fixed configuration the root CID of a Dynamic (auto-switching)
// or pure HAMT directory must be a function of the final entry set. For a
// generated final set S the harness reaches S by several histories (random
// order, detours over extra entries that are removed again, replacements,
// grow-then-shrink) on the real implementation and compares
//
//	(a) every root CID with an independently built canonical root (a
//	    hand-assembled dag-pb basic directory, or a pure HAMTDirectory filled
//	    in sorted order),
//	(b) after EVERY operation the UnixFS type of the root with the documented
//	    rule recomputed by the harness (size above threshold in the configured
//	    estimation mode, or more links than MaxLinks),
//	(c) after every operation the settings reported by the public getters
//	    (sharding size, estimation mode, max links, fan-out) and the fan-out,
//	    mode, mtime and CID version stored in the root.
//
// Thresholds are placed within a few bytes of the size of S.
package main

import (
	"context"
	"errors"
	"fmt"
	"math/bits"
	"os"
	"sort"
	"strconv"
	"strings"
	"time"

	dag "github.com/ipfs/boxo/ipld/merkledag"
	mdtest "github.com/ipfs/boxo/ipld/merkledag/test"
	ft "github.com/ipfs/boxo/ipld/unixfs"
	uio "github.com/ipfs/boxo/ipld/unixfs/io"
	cid "github.com/ipfs/go-cid"
	ipld "github.com/ipfs/go-ipld-format"
	mh "github.com/multiformats/go-multihash"
	"github.com/spaolacci/murmur3"

	"verif/vlib"
)

// ---------------------------------------------------------------- name pool

type cand struct {
	h    uint64
	name string
}

var cands []cand // sorted by murmur3-64 (the HAMT consumes the hash MSB first)

func hashOf(name string) uint64 { return murmur3.Sum64([]byte(name)) }

func initCands() {
	const n = 1 << 18
	cands = make([]cand, n)
	for i := 0; i < n; i++ {
		s := "g" + strconv.FormatInt(int64(i), 36)
		cands[i] = cand{hashOf(s), s}
	}
	sort.Slice(cands, func(i, j int) bool { return cands[i].h < cands[j].h })
}

// group returns g candidate names whose hashes share at least p leading bits.
func group(r *vlib.Rand, g, p int) []string {
	for try := 0; try < 64; try++ {
		i := r.Intn(len(cands) - g)
		for j := 0; j < 4096 && i+g-1 < len(cands); j, i = j+1, i+1 {
			if cands[i].h>>(64-uint(p)) == cands[i+g-1].h>>(64-uint(p)) {
				out := make([]string, g)
				for x := 0; x < g; x++ {
					out[x] = cands[i+x].name
				}
				return out
			}
		}
	}
	return nil
}

// ---------------------------------------------------------------- children

type child struct {
	nd   ipld.Node
	c    cid.Cid
	size uint64
	desc string
}

func mkChildren(r *vlib.Rand, ds ipld.DAGService) []child {
	ctx := context.Background()
	var out []child
	add := func(desc string, nd ipld.Node) {
		sz, err := nd.Size()
		if err != nil {
			panic(err)
		}
		if err := ds.Add(ctx, nd); err != nil {
			panic(err)
		}
		out = append(out, child{nd, nd.Cid(), sz, desc})
	}
	p0 := dag.NodeWithData(r.Bytes(r.Range(0, 40)))
	add("pb-v0", p0)
	p1 := dag.NodeWithData(r.Bytes(r.Range(100, 300)))
	p1.SetCidBuilder(cid.V1Builder{Codec: cid.DagProtobuf, MhType: mh.SHA2_256})
	add("pb-v1", p1)
	add("raw-sha256", dag.NewRawNode(r.Bytes(r.Range(1, 50))))
	idn, err := dag.NewRawNodeWPrefix(r.Bytes(r.Range(0, 6)), cid.V1Builder{Codec: cid.Raw, MhType: mh.IDENTITY})
	if err != nil {
		panic(err)
	}
	add("raw-identity", idn)
	s512, err := dag.NewRawNodeWPrefix(r.Bytes(r.Range(1, 30)), cid.V1Builder{Codec: cid.Raw, MhType: mh.SHA2_512})
	if err != nil {
		panic(err)
	}
	add("raw-sha512", s512)
	big := dag.NodeWithData(r.Bytes(4))
	if err := big.AddRawLink("x", &ipld.Link{Cid: p0.Cid(), Size: uint64(1) << uint(r.Range(20, 50))}); err != nil {
		panic(err)
	}
	add("pb-bigtsize", big)
	return out
}

// ---------------------------------------------------------------- config

type config struct {
	pure     bool // pure HAMTDirectory (no switching)
	width    int
	maxLinks int
	mode     uio.SizeEstimationMode
	thresh   int
	perDir   bool
	builder  cid.Builder
	fmode    os.FileMode
	mtime    time.Time
}

var modeNames = map[uio.SizeEstimationMode]string{uio.SizeEstimationLinks: "links", uio.SizeEstimationBlock: "block", uio.SizeEstimationDisabled: "disabled"}

func (cf *config) statOpts() []uio.DirectoryOption {
	var o []uio.DirectoryOption
	if cf.builder != nil {
		o = append(o, uio.WithCidBuilder(cf.builder))
	}
	if cf.fmode != 0 || !cf.mtime.IsZero() {
		o = append(o, uio.WithStat(cf.fmode, cf.mtime))
	}
	return o
}

func (cf *config) pad() int { return len(fmt.Sprintf("%X", cf.width-1)) }

type entry struct {
	name string
	ch   child
}

type set map[string]child

func (s set) sorted() []entry {
	out := make([]entry, 0, len(s))
	for n, c := range s {
		out = append(out, entry{n, c})
	}
	sort.Slice(out, func(i, j int) bool { return out[i].name < out[j].name })
	return out
}

// basicNode assembles the dag-pb node of a basic directory holding s, without
// using unixfs/io.
func (cf *config) basicNode(s set) *dag.ProtoNode {
	var nd *dag.ProtoNode
	if cf.fmode != 0 || !cf.mtime.IsZero() {
		nd = ft.EmptyDirNodeWithStat(cf.fmode, cf.mtime)
	} else {
		nd = ft.EmptyDirNode()
	}
	nd.SetCidBuilder(cf.builder)
	for _, e := range s.sorted() {
		if err := nd.AddRawLink(e.name, &ipld.Link{Cid: e.ch.c, Size: e.ch.size}); err != nil {
			panic(err)
		}
	}
	return nd
}

func linksSize(s set) int {
	n := 0
	for name, c := range s {
		n += len(name) + len(c.c.Bytes())
	}
	return n
}

// sizeOf returns the directory size in the unit of the estimation mode.
func (cf *config) sizeOf(s set) int {
	switch cf.mode {
	case uio.SizeEstimationLinks:
		return linksSize(s)
	case uio.SizeEstimationBlock:
		return len(cf.basicNode(s).RawData())
	}
	return 0
}

// rule is the documented sharding rule.
func (cf *config) rule(s set) bool {
	if cf.pure {
		return true
	}
	if cf.maxLinks > 0 && len(s) > cf.maxLinks {
		return true
	}
	if cf.mode == uio.SizeEstimationDisabled {
		return false
	}
	return cf.sizeOf(s) > cf.thresh
}

// canonical builds the expected root independently of DynamicDirectory.
func (cf *config) canonical(ds ipld.DAGService, s set) (cid.Cid, bool) {
	if !cf.rule(s) {
		return cf.basicNode(s).Cid(), false
	}
	opts := append(cf.statOpts(), uio.WithMaxHAMTFanout(cf.width))
	h, err := uio.NewHAMTDirectory(ds, 0, opts...)
	if err != nil {
		panic(err)
	}
	for _, e := range s.sorted() {
		if err := h.AddChild(context.Background(), e.name, e.ch.nd); err != nil {
			panic(err)
		}
	}
	nd, err := h.GetNode()
	if err != nil {
		panic(err)
	}
	return nd.Cid(), true
}

// ---------------------------------------------------------------- histories

type op struct {
	remove bool
	name   string
	ch     child
}

func (o op) String() string {
	if o.remove {
		return "RemoveChild " + strconv.Quote(short(o.name))
	}
	return fmt.Sprintf("AddChild %s <- %s(cid %dB, tsize %d)", strconv.Quote(short(o.name)), o.ch.desc, len(o.ch.c.Bytes()), o.ch.size)
}

func short(n string) string {
	if len(n) > 24 {
		return fmt.Sprintf("%s…(%dB)", n[:6], len(n))
	}
	return n
}

type gen struct {
	r      *vlib.Rand
	cf     *config
	final  set
	extras []entry // names not in final
	alts   []child // children for temporary values
}

// history produces an operation list ending in g.final.
//
//	perm    adds of the final entries in random order
//	free    unconstrained detours: extras added and removed, replacements
//	grow    detours only while the rule says "basic" before and after; once the
//	        set is above the threshold only new names are added
//	bounce  like grow, plus excursions above the threshold that consist of one
//	        add of a new name immediately followed by the removal of that name
//	shrink  everything (final+extras, temporary values) is added first, then
//	        the surplus is removed / replaced
func (g *gen) history(kind string) []op {
	if kind == "grow" || kind == "bounce" {
		for try := 0; try < 30; try++ {
			if ops := g.history1(kind); g.valid(ops, kind) {
				return ops
			}
		}
		return g.history1("perm")
	}
	return g.history1(kind)
}

// valid re-simulates a constrained history: no removal and no replacement may
// happen while the documented rule says "sharded", except (bounce) the
// removal of the name whose addition has just crossed the threshold.
func (g *gen) valid(ops []op, kind string) bool {
	cur := set{}
	prevBefore := false
	for i, o := range ops {
		before := g.cf.rule(cur)
		_, existed := cur[o.name]
		if before && (o.remove || existed) {
			excursion := kind == "bounce" && o.remove && i > 0 && !ops[i-1].remove && ops[i-1].name == o.name && !prevBefore
			if !excursion {
				return false
			}
		}
		prevBefore = before
		if o.remove {
			delete(cur, o.name)
		} else {
			cur[o.name] = o.ch
		}
	}
	return true
}

func (g *gen) history1(kind string) []op {
	r, cf := g.r, g.cf
	cur := set{}
	var ops []op
	do := func(o op) {
		ops = append(ops, o)
		if o.remove {
			delete(cur, o.name)
		} else {
			cur[o.name] = o.ch
		}
	}
	with := func(o op) set {
		n := set{}
		for k, v := range cur {
			n[k] = v
		}
		if o.remove {
			delete(n, o.name)
		} else {
			n[o.name] = o.ch
		}
		return n
	}
	fin := g.final.sorted()
	vlib.Shuffle(r, fin)

	switch kind {
	case "perm":
		for _, e := range fin {
			do(op{false, e.name, e.ch})
		}
		return ops
	case "shrink":
		var all []op
		for _, e := range fin {
			if r.Chance(1, 3) {
				all = append(all, op{false, e.name, vlib.Pick(r, g.alts)})
			} else {
				all = append(all, op{false, e.name, e.ch})
			}
		}
		for _, e := range g.extras {
			all = append(all, op{false, e.name, e.ch})
		}
		vlib.Shuffle(r, all)
		for _, o := range all {
			do(o)
		}
		var fix []op
		for _, e := range g.extras {
			fix = append(fix, op{true, e.name, child{}})
		}
		for _, e := range fin {
			if cur[e.name].c != e.ch.c {
				fix = append(fix, op{false, e.name, e.ch})
			}
		}
		vlib.Shuffle(r, fix)
		for _, o := range fix {
			do(o)
		}
		return ops
	}

	// free / grow / bounce: random walk with a budget, then a fix-up phase
	constrained := kind != "free"
	pending := append([]entry(nil), fin...) // final entries not yet holding their final value
	budget := r.Range(2, 14)
	for steps := 0; steps < 200; steps++ {
		// candidates
		var cs []op
		if len(pending) > 0 {
			e := pending[0]
			cs = append(cs, op{false, e.name, e.ch}, op{false, e.name, e.ch})
			if budget > 0 {
				cs = append(cs, op{false, e.name, vlib.Pick(r, g.alts)}) // temporary value, replaced later
			}
		}
		if budget > 0 {
			for _, e := range g.extras {
				if _, in := cur[e.name]; in {
					cs = append(cs, op{true, e.name, child{}}, op{false, e.name, vlib.Pick(r, g.alts)})
				} else {
					cs = append(cs, op{false, e.name, e.ch})
				}
			}
		}
		if len(cs) == 0 {
			break
		}
		o := vlib.Pick(r, cs)
		_, existed := cur[o.name]
		if constrained {
			before, after := cf.rule(cur), cf.rule(with(o))
			shrinks := o.remove || existed
			if before && shrinks {
				continue // never shrink (or replace) while the directory should be sharded
			}
			if !before && after {
				// crossing the threshold upwards
				clean := true
				for _, e := range g.extras {
					if _, in := cur[e.name]; in {
						clean = false
					}
				}
				for _, e := range fin {
					if c, in := cur[e.name]; in && c.c != e.ch.c {
						clean = false
					}
				}
				_, isFinal := g.final[o.name]
				if kind == "bounce" && !existed && !isFinal && budget > 0 {
					// excursion: one new extra name above the threshold, removed at once
					do(o)
					do(op{true, o.name, child{}})
					budget--
					continue
				}
				if !clean || existed || !isFinal || o.ch.c != g.final[o.name].c {
					continue // only a final entry may cross for good, and only from a clean set
				}
			}
		}
		do(o)
		if _, isFinal := g.final[o.name]; !isFinal || o.remove || o.ch.c != g.final[o.name].c {
			budget--
		}
		// refresh pending
		pending = pending[:0]
		for _, e := range fin {
			if c, in := cur[e.name]; !in || c.c != e.ch.c {
				pending = append(pending, e)
			}
		}
		vlib.Shuffle(r, pending)
		if len(pending) == 0 && budget <= 0 {
			break
		}
	}
	// fix-up: remove surplus, set final values (for the constrained kinds the
	// walk above leaves surplus only while the set is below the threshold)
	var fix []op
	for _, e := range g.extras {
		if _, in := cur[e.name]; in {
			fix = append(fix, op{true, e.name, child{}})
		}
	}
	for _, e := range fin {
		if c, in := cur[e.name]; in && c.c != e.ch.c {
			fix = append(fix, op{false, e.name, e.ch})
		}
	}
	vlib.Shuffle(r, fix)
	for _, o := range fix {
		do(o)
	}
	rest := []entry{}
	for _, e := range fin {
		if _, in := cur[e.name]; !in {
			rest = append(rest, e)
		}
	}
	vlib.Shuffle(r, rest)
	for _, e := range rest {
		do(op{false, e.name, e.ch})
	}
	return ops
}

// ---------------------------------------------------------------- run

func main() { initCands(); vlib.Run("C16", run) }

func run(c *vlib.Ctx) {
	c.Rule("case = configuration (width 8..1024, estimation mode, threshold within +-4 units of the final set's size or at +-1 entry, MaxLinks in {0,|S|-1,|S|,|S|+1}, global or per-directory threshold, CID v0/v1, mode/mtime) + final set S of 0..10 entries (names with murmur3 prefix collisions, 1..300 B; 6 child forms with CID 6..68 B) reached by 4-5 histories; each history is checked after every op (root type vs rule, settings) and at its end (root CID vs independent canonical root); strata: hamt-pure (no switching, free detours), dyn-count (estimation disabled, free detours), dyn-grow (size modes, never shrinks while sharded), dyn-bounce (excursions = add+remove of one name), dyn-shrink (size modes, free detours: known findings are classified here); dyn-fault (all modes, clean history kinds, DAGService.Add fails during PRNG-chosen AddChild calls, 2/3 of the calls that cross the threshold/MaxLinks: after the failed call entries, root type vs rule, root CID vs canonical root of the unchanged set and settings are checked, then the op is re-issued); distinct = FNV of config+all op lists; non-trivial = >=3 histories of the case reached S with different op lists, at least one containing a removal, and at least one history changed representation (basic<->HAMT) on the way (for hamt-pure: a removal next to a name sharing its first-level bucket)")
	c.Cases("hamt-pure", c.N(160, 2400), func(k *vlib.Case) { oneCase(k, "hamt-pure") })
	c.Cases("dyn-count", c.N(160, 2400), func(k *vlib.Case) { oneCase(k, "dyn-count") })
	c.Cases("dyn-grow", c.N(160, 2400), func(k *vlib.Case) { oneCase(k, "dyn-grow") })
	c.Cases("dyn-bounce", c.N(160, 2400), func(k *vlib.Case) { oneCase(k, "dyn-bounce") })
	c.Cases("dyn-shrink", c.N(160, 2400), func(k *vlib.Case) { oneCase(k, "dyn-shrink") })
	// dyn-fault: clean history kinds in all three estimation modes over a DAG
	// service whose Add/AddMany fail during PRNG-chosen AddChild calls
	// (preferably the call that crosses the threshold / MaxLinks limit). A
	// failed call must leave the entry set, the representation demanded by the
	// rule and the canonical root CID of the unchanged set; the op is then
	// re-issued without the fault so that the history still ends in S.
	c.Cases("dyn-fault", c.N(200, 3000), func(k *vlib.Case) { oneCase(k, "dyn-fault") })
}

func oneCase(k *vlib.Case, stratum string) {
	r := k.R
	ds := mdtest.Mock()
	cf := &config{pure: stratum == "hamt-pure"}
	cf.width = vlib.Pick(r, []int{8, 8, 8, 16, 64, 256, 256, 1024})
	switch stratum {
	case "dyn-count":
		cf.mode = uio.SizeEstimationDisabled
	case "dyn-fault":
		cf.mode = uio.SizeEstimationMode(r.Intn(3))
	default:
		cf.mode = uio.SizeEstimationMode(r.Intn(2))
	}
	if r.Chance(1, 3) {
		cf.builder = cid.V1Builder{Codec: cid.DagProtobuf, MhType: mh.SHA2_256}
	}
	if r.Chance(1, 3) {
		cf.fmode = os.FileMode(r.Range(1, 0o777))
	}
	if r.Chance(1, 3) {
		cf.mtime = time.Unix(int64(r.Intn(2000000000))-100000, int64(r.Intn(2))*int64(r.Intn(1000000000)))
	}
	cf.perDir = r.Bool()

	// names
	lg := bits.TrailingZeros(uint(cf.width))
	var pool []string
	depth := r.Range(1, 3)
	if lg*depth > 20 {
		depth = 20 / lg
	}
	pool = append(pool, group(r, r.Range(2, 4), lg*depth)...)
	pool = append(pool, group(r, 2, min(lg*(depth+1), 22))...)
	pool = append(pool, string(rune('a'+r.Intn(26))), strings.Repeat(string(rune('A'+r.Intn(26))), r.Range(100, 300)))
	for len(pool) < 16 {
		pool = append(pool, "n"+strconv.Itoa(r.Intn(100000)))
	}
	seen := map[string]bool{}
	uniq := pool[:0]
	for _, n := range pool {
		if !seen[n] {
			seen[n] = true
			uniq = append(uniq, n)
		}
	}
	pool = uniq
	vlib.Shuffle(r, pool)
	children := mkChildren(r, ds)

	nFinal := r.Range(0, 10)
	if nFinal > len(pool)-3 {
		nFinal = len(pool) - 3
	}
	g := &gen{r: r, cf: cf, final: set{}, alts: children}
	for _, n := range pool[:nFinal] {
		g.final[n] = vlib.Pick(r, children)
	}
	for _, n := range pool[nFinal:min(len(pool), nFinal+r.Range(1, 5))] {
		g.extras = append(g.extras, entry{n, vlib.Pick(r, children)})
	}

	// threshold / maxLinks near the final set
	if !cf.pure {
		switch r.Intn(4) {
		case 0:
		case 1:
			cf.maxLinks = max(1, nFinal-1)
		case 2:
			cf.maxLinks = max(1, nFinal)
		case 3:
			cf.maxLinks = nFinal + 1
		}
		if cf.mode == uio.SizeEstimationDisabled && cf.maxLinks == 0 {
			cf.maxLinks = max(1, nFinal+r.Range(-1, 1))
		}
		cf.thresh = 1 << 18
		if cf.mode != uio.SizeEstimationDisabled {
			sz := cf.sizeOf(g.final)
			switch r.Intn(6) {
			case 0, 1, 2:
				cf.thresh = sz + r.Range(-4, 4)
			case 3:
				cf.thresh = sz + r.Range(5, 80)
			case 4:
				cf.thresh = sz - r.Range(5, 80)
			case 5:
				cf.thresh = sz + r.Range(-300, 300)
			}
			// a threshold below the size of the empty directory is degenerate
			// (the rule would ask for a sharded empty directory, but the
			// switch is only evaluated when an entry is added)
			if lo := cf.sizeOf(set{}) + 1; cf.thresh < lo {
				cf.thresh = lo
			}
		}
	}
	k.Logf("config stratum=%s width=%d mode=%s threshold=%d perDir=%v maxLinks=%d cidv1=%v fmode=%o mtime=%d.%09d | final set: %d entries, size(links)=%d size(block)=%d rule=%v",
		stratum, cf.width, modeNames[cf.mode], cf.thresh, cf.perDir, cf.maxLinks, cf.builder != nil, cf.fmode, mtimeSec(cf.mtime), cf.mtime.Nanosecond(),
		len(g.final), linksSize(g.final), len(cf.basicNode(g.final).RawData()), cf.rule(g.final))

	oldT := uio.HAMTShardingSize
	defer func() { uio.HAMTShardingSize = oldT }()
	if !cf.pure && !cf.perDir {
		uio.HAMTShardingSize = cf.thresh
	}

	wantCid, wantHamt := cf.canonical(ds, g.final)

	var kinds []string
	switch stratum {
	case "hamt-pure", "dyn-count", "dyn-shrink":
		kinds = []string{"perm", "free", "free", "shrink"}
	case "dyn-grow":
		kinds = []string{"perm", "grow", "grow", "grow"}
	case "dyn-bounce":
		kinds = []string{"perm", "bounce", "bounce", "grow"}
	case "dyn-fault":
		kinds = []string{"perm", "grow", "bounce", "grow"}
	}
	// plus the sorted fresh build through the same implementation
	distinctLists := map[string]bool{}
	sawRemoval, sawSwitch, collidedRemoval := false, false, false
	completed := 0
	for hi, kind := range append([]string{"sorted"}, kinds...) {
		var ops []op
		if kind == "sorted" {
			for _, e := range g.final.sorted() {
				ops = append(ops, op{false, e.name, e.ch})
			}
		} else {
			ops = g.history(kind)
		}
		h := &hist{k: k, cf: cf, ds: ds, stratum: stratum, label: fmt.Sprintf("h%d/%s", hi, kind)}
		k.Logf("history %s (%d ops)", h.label, len(ops))
		ok := h.runOps(ops, lg)
		k.C.Count("histories", 1)
		k.C.Count("ops", int64(len(ops)))
		if h.blinded {
			k.C.Count("histories_stopped_at_known_finding", 1)
			continue
		}
		if !ok {
			continue
		}
		completed++
		var sb strings.Builder
		for _, o := range ops {
			sb.WriteString(o.String())
			sb.WriteByte('\n')
			if o.remove {
				sawRemoval = true
			}
		}
		distinctLists[sb.String()] = true
		sawSwitch = sawSwitch || h.switches > 0
		collidedRemoval = collidedRemoval || h.collidedRemoval
		// (a) final root
		got, gotHamt, err := h.root()
		if err != nil {
			k.Fail("getnode-error", "GetNode succeeds", "nil", err.Error())
			continue
		}
		if !got.Equals(wantCid) {
			feat := "same-type"
			if gotHamt != wantHamt {
				feat = "type-differs"
			}
			k.Fail("root-cid/"+feat+"/"+stratumClass(stratum, kind), "root CID == canonical root of the final set",
				fmt.Sprintf("%s (hamt=%v)", wantCid, wantHamt), fmt.Sprintf("%s (hamt=%v) after %s", got, gotHamt, h.label))
		}
	}
	if completed >= 3 && len(distinctLists) >= 3 && sawRemoval && (sawSwitch || (cf.pure && collidedRemoval)) {
		k.Nontrivial()
	}
}

func stratumClass(stratum, kind string) string {
	if stratum == "dyn-shrink" && (kind == "free" || kind == "shrink") {
		return "free-history"
	}
	return "clean-history"
}

func mtimeSec(t time.Time) int64 {
	if t.IsZero() {
		return 0
	}
	return t.Unix()
}

// faultDS fails Add/AddMany while armed (a write fault of the block store).
type faultDS struct {
	ipld.DAGService
	armed bool
	fired int
}

var errInjected = errors.New("verif: injected DAGService.Add failure")

func (f *faultDS) Add(ctx context.Context, nd ipld.Node) error {
	if f.armed {
		f.fired++
		return errInjected
	}
	return f.DAGService.Add(ctx, nd)
}

func (f *faultDS) AddMany(ctx context.Context, nds []ipld.Node) error {
	if f.armed {
		f.fired++
		return errInjected
	}
	return f.DAGService.AddMany(ctx, nds)
}

// hist runs one history on a fresh directory.
type hist struct {
	k       *vlib.Case
	cf      *config
	ds      ipld.DAGService
	stratum string
	label   string
	dir     uio.Directory
	cur     set

	switches        int
	collidedRemoval bool
	blinded         bool // stopped at a known finding (model of the rule and implementation disagree from here on)

	// replica of HAMTDirectory.sizeChange, maintained from the observed
	// representation changes; used only to LABEL deviations from the rule
	sc int
}

func (h *hist) root() (cid.Cid, bool, error) {
	nd, err := h.dir.GetNode()
	if err != nil {
		return cid.Undef, false, err
	}
	pn, ok := nd.(*dag.ProtoNode)
	if !ok {
		return cid.Undef, false, fmt.Errorf("root is %T", nd)
	}
	fsn, err := ft.FSNodeFromBytes(pn.Data())
	if err != nil {
		return cid.Undef, false, err
	}
	return nd.Cid(), fsn.Type() == ft.THAMTShard, nil
}

// lsz is the size boxo attributes to one link in the current estimation mode
// (nameLen given explicitly because boxo sometimes measures a padded or an
// empty name, see the class descriptions).
func (h *hist) lsz(nameLen int, c child) int {
	if h.cf.mode == uio.SizeEstimationBlock {
		nd := new(dag.ProtoNode)
		if err := nd.AddRawLink(strings.Repeat("x", nameLen), &ipld.Link{Cid: c.c, Size: c.size}); err != nil {
			panic(err)
		}
		return len(nd.RawData())
	}
	return nameLen + len(c.c.Bytes())
}

func (h *hist) runOps(ops []op, lg int) bool {
	k, cf := h.k, h.cf
	ctx := context.Background()
	var err error
	plainDS := h.ds
	var fds *faultDS
	if h.stratum == "dyn-fault" {
		fds = &faultDS{DAGService: h.ds}
		h.ds = fds
		defer func() { h.ds = plainDS }()
	}
	if cf.pure {
		h.dir, err = uio.NewHAMTDirectory(h.ds, 0, append(cf.statOpts(), uio.WithMaxHAMTFanout(cf.width))...)
	} else {
		opts := append(cf.statOpts(), uio.WithMaxHAMTFanout(cf.width), uio.WithSizeEstimationMode(cf.mode))
		if cf.maxLinks > 0 {
			opts = append(opts, uio.WithMaxLinks(cf.maxLinks))
		}
		h.dir, err = uio.NewDirectory(h.ds, opts...)
		if err == nil && cf.perDir {
			h.dir.SetHAMTShardingSize(cf.thresh)
		}
	}
	if err != nil {
		k.Fail("construct-error", "constructor succeeds", "nil", err.Error())
		return false
	}
	h.cur = set{}
	isHamt := cf.pure
	pad := cf.pad()
	retry := false // the previous attempt of ops[i] failed by an injected fault
	for i := 0; i < len(ops); i++ {
		o := ops[i]
		inject := false
		if fds != nil && !o.remove && !retry {
			after := set{}
			for n, c := range h.cur {
				after[n] = c
			}
			after[o.name] = o.ch
			if !cf.rule(h.cur) && cf.rule(after) {
				inject = k.R.Chance(2, 3) // the call that crosses the threshold / MaxLinks
			} else {
				inject = k.R.Chance(1, 8)
			}
		}
		retry = false
		if inject {
			k.Logf("  %s#%d %s  [DAGService.Add fails during this call]", h.label, i, o)
		} else {
			k.Logf("  %s#%d %s", h.label, i, o)
		}
		old, existed := h.cur[o.name]
		if o.remove && !existed {
			panic("generator produced a removal of a missing name")
		}
		// what boxo's HAMT->basic decision will compute for this op (labels only)
		gateOpen, belowByBoxo := false, false
		if isHamt && !cf.pure && cf.mode != uio.SizeEstimationDisabled {
			opc := 0
			if existed {
				opc -= h.lsz(pad+len(o.name), old)
			}
			if !o.remove {
				opc += h.lsz(0, o.ch)
			}
			gateOpen = h.sc+opc < 0
			total := 0
			if cf.mode == uio.SizeEstimationBlock {
				total = len(cf.basicNode(set{}).RawData())
			}
			for n, c := range h.cur {
				total += h.lsz(len(n), c)
			}
			belowByBoxo = total+opc <= cf.thresh
		}

		completedOp := false
		if inject {
			fds.armed, fds.fired = true, 0
		}
		guardOK := vlib.Guard(k, "op", 60*time.Second, func() {
			if o.remove {
				err = h.dir.RemoveChild(ctx, o.name)
			} else {
				err = h.dir.AddChild(ctx, o.name, o.ch.nd)
			}
			completedOp = true
		})
		if fds != nil {
			fds.armed = false
		}
		if !guardOK || !completedOp {
			return false
		}
		if inject && err != nil && fds.fired > 0 {
			// the write fault made the call fail: nothing may have changed
			k.C.Count("faulted_ops", 1)
			if !h.checkAfterFailedOp(i, o, isHamt, plainDS) {
				return false
			}
			retry = true
			i-- // re-issue the same operation without the fault
			continue
		}
		if err != nil {
			k.Fail("op-error/"+map[bool]string{true: "remove", false: "add"}[o.remove], "operation succeeds", "nil", err.Error())
			return false
		}
		if o.remove {
			for n := range h.cur {
				if n != o.name && bits.LeadingZeros64(hashOf(n)^hashOf(o.name)) >= lg {
					h.collidedRemoval = true
				}
			}
			delete(h.cur, o.name)
		} else {
			h.cur[o.name] = o.ch
		}

		// (b) representation vs rule
		_, nowHamt, err := h.root()
		if err != nil {
			k.Fail("getnode-error", "GetNode succeeds", "nil", err.Error())
			return false
		}
		want := cf.rule(h.cur)
		k.C.Count("rule_checks", 1)
		if nowHamt != isHamt {
			h.switches++
			k.C.Count("representation_switches/"+transition(isHamt, nowHamt), 1)
		}
		// replica of sizeChange
		if !cf.pure {
			switch {
			case !isHamt && nowHamt: // conversion: counter starts at 0, then the triggering entry
				h.sc = 0
				fallthrough
			case isHamt && nowHamt:
				if existed {
					h.sc -= pad + len(o.name) + len(old.c.Bytes())
				}
				if !o.remove {
					h.sc += len(o.name) + len(o.ch.c.Bytes())
				}
			}
		}
		if nowHamt != want {
			size, cnt := cf.sizeOf(h.cur), len(h.cur)
			obs := fmt.Sprintf("after %s#%d %s: root hamt=%v (was hamt=%v); size=%d threshold=%d entries=%d maxLinks=%d; boxo's recorded sizeChange(replica)=%d gateOpen=%v belowThresholdAsBoxoComputesIt=%v",
				h.label, i, o, nowHamt, isHamt, size, cf.thresh, cnt, cf.maxLinks, h.sc, gateOpen, belowByBoxo)
			exp := fmt.Sprintf("hamt=%v", want)
			opk := map[bool]string{true: "removechild", false: "addchild"}[o.remove]
			linksOK := cf.maxLinks == 0 || cnt <= cf.maxLinks
			switch {
			case h.stratum != "dyn-shrink" || cf.mode == uio.SizeEstimationDisabled:
				k.Fail("type-rule/"+h.stratum+"/"+transition(isHamt, nowHamt), "root is HAMT iff the documented rule says so", exp, obs)
				return false
			case isHamt && nowHamt && !gateOpen:
				// documented rule says basic, boxo did not even evaluate the size
				k.Fail("stays-hamt/sizechange-gate", "root is HAMT iff the documented rule says so", exp, obs)
			case isHamt && !nowHamt && gateOpen && belowByBoxo && linksOK && size > cf.thresh && o.remove:
				k.Fail("downgrade-above-threshold/removechild-padded-name", "root is HAMT iff the documented rule says so", exp, obs)
			case isHamt && !nowHamt && gateOpen && belowByBoxo && linksOK && size > cf.thresh && !o.remove:
				k.Fail("downgrade-above-threshold/addchild-unnamed-link", "root is HAMT iff the documented rule says so", exp, obs)
			default:
				k.Fail("type-rule/unexplained/"+opk+"/"+transition(isHamt, nowHamt), "root is HAMT iff the documented rule says so", exp, obs)
				return false
			}
			h.blinded = true
			return false
		}
		// (c) settings survive
		if !cf.pure {
			wantT := 0
			if cf.perDir {
				wantT = cf.thresh
			}
			tr := transition(isHamt, nowHamt)
			opk := map[bool]string{true: "removechild", false: "addchild"}[o.remove]
			if got := h.dir.GetHAMTShardingSize(); got != wantT {
				k.Fail("threshold-lost/"+opk+"-"+tr, "per-directory sharding size stays in force", fmt.Sprint(wantT), fmt.Sprintf("%d after %s#%d %s", got, h.label, i, o))
				h.blinded = true
				return false
			}
			if got := h.dir.GetMaxLinks(); got != cf.maxLinks {
				k.Fail("maxlinks-lost/"+opk+"-"+tr, "MaxLinks stays in force", fmt.Sprint(cf.maxLinks), fmt.Sprintf("%d after %s#%d %s", got, h.label, i, o))
				return false
			}
			if got := h.dir.GetMaxHAMTFanout(); got != cf.width {
				k.Fail("fanout-lost/"+opk+"-"+tr, "fan-out stays in force", fmt.Sprint(cf.width), fmt.Sprintf("%d after %s#%d %s", got, h.label, i, o))
				return false
			}
			if got := h.dir.GetSizeEstimationMode(); got != cf.mode {
				k.Fail("estimation-mode-lost/"+opk+"-"+tr, "estimation mode stays in force", modeNames[cf.mode], fmt.Sprintf("%s after %s#%d %s", modeNames[got], h.label, i, o))
				return false
			}
		}
		if nowHamt != isHamt || i == len(ops)-1 {
			if !h.checkRootFields(i, o) {
				return false
			}
		}
		isHamt = nowHamt
	}
	return true
}

// checkAfterFailedOp: an AddChild that returned an error (injected write
// fault) must have left the directory exactly as it was: same entries, the
// representation the rule demands for them, the canonical root of that set
// and the configured settings.
func (h *hist) checkAfterFailedOp(i int, o op, wasHamt bool, plainDS ipld.DAGService) bool {
	k, cf := h.k, h.cf
	where := fmt.Sprintf("after failed %s#%d %s", h.label, i, o)
	ok := true
	// entries
	links, err := h.dir.Links(context.Background())
	if err != nil {
		k.Fail("fault/links-error", "Links succeeds after a failed AddChild", "nil", err.Error())
		return false
	}
	got := map[string]cid.Cid{}
	for _, l := range links {
		got[l.Name] = l.Cid
	}
	same := len(got) == len(h.cur)
	for n, c := range h.cur {
		if g, in := got[n]; !in || !g.Equals(c.c) {
			same = false
		}
	}
	if !same {
		k.Fail("fault/entries-changed/failed-addchild", "a failed AddChild leaves the entry set unchanged", fmt.Sprintf("%d entries as before", len(h.cur)), fmt.Sprintf("%d entries %s", len(got), where))
		return false // the model cannot follow
	}
	// representation and root CID of the unchanged set
	gotCid, nowHamt, err := h.root()
	if err != nil {
		k.Fail("getnode-error", "GetNode succeeds", "nil", err.Error())
		return false
	}
	k.C.Count("rule_checks", 1)
	want := cf.rule(h.cur)
	if nowHamt != want {
		k.Fail("fault/type-rule/failed-addchild/"+transition(wasHamt, nowHamt), "root is HAMT iff the documented rule says so (entry set unchanged by the failed call)",
			fmt.Sprintf("hamt=%v", want), fmt.Sprintf("hamt=%v %s; size=%d threshold=%d entries=%d maxLinks=%d", nowHamt, where, cf.sizeOf(h.cur), cf.thresh, len(h.cur), cf.maxLinks))
		ok = false
	}
	wantCid, wantHamt := cf.canonical(plainDS, h.cur)
	if !gotCid.Equals(wantCid) {
		feat := "same-type"
		if nowHamt != wantHamt {
			feat = "type-differs"
		}
		k.Fail("fault/root-cid/"+feat+"/failed-addchild", "root CID == canonical root of the (unchanged) entry set",
			fmt.Sprintf("%s (hamt=%v)", wantCid, wantHamt), fmt.Sprintf("%s (hamt=%v) %s", gotCid, nowHamt, where))
		ok = false
	}
	// settings
	wantT := 0
	if cf.perDir {
		wantT = cf.thresh
	}
	if g := h.dir.GetHAMTShardingSize(); g != wantT {
		k.Fail("fault/threshold-lost/failed-addchild", "per-directory sharding size stays in force", fmt.Sprint(wantT), fmt.Sprintf("%d %s", g, where))
		ok = false
	}
	if g := h.dir.GetMaxLinks(); g != cf.maxLinks {
		k.Fail("fault/maxlinks-lost/failed-addchild", "MaxLinks stays in force", fmt.Sprint(cf.maxLinks), fmt.Sprintf("%d %s", g, where))
		ok = false
	}
	return ok
}

func transition(was, now bool) string {
	n := map[bool]string{true: "hamt", false: "basic"}
	if was == now {
		return "stays-" + n[now]
	}
	return n[was] + "-to-" + n[now]
}

// checkRootFields: fan-out, mode, mtime and CID version stored in the root are
// the configured ones (checked after each representation change and at the end).
func (h *hist) checkRootFields(i int, o op) bool {
	k, cf := h.k, h.cf
	nd, err := h.dir.GetNode()
	if err != nil {
		return true
	}
	fsn, err := ft.FSNodeFromBytes(nd.(*dag.ProtoNode).Data())
	if err != nil {
		k.Fail("root-undecodable", "root carries UnixFS data", "decodable", err.Error())
		return false
	}
	where := fmt.Sprintf("after %s#%d %s", h.label, i, o)
	ok := true
	if fsn.Type() == ft.THAMTShard && int(fsn.Fanout()) != cf.width {
		k.Fail("root-fanout", "HAMT root uses the configured fan-out", fmt.Sprint(cf.width), fmt.Sprintf("%d %s", fsn.Fanout(), where))
		ok = false
	}
	wantMode := os.FileMode(0)
	if cf.fmode != 0 {
		wantMode = cf.fmode | os.ModeDir
	}
	if fsn.Mode() != wantMode {
		k.Fail("root-mode", "root keeps the configured mode", wantMode.String(), fmt.Sprintf("%s %s", fsn.Mode(), where))
		ok = false
	}
	if !fsn.ModTime().Equal(cf.mtime) {
		k.Fail("root-mtime", "root keeps the configured mtime", cf.mtime.String(), fmt.Sprintf("%s %s", fsn.ModTime(), where))
		ok = false
	}
	wantV := uint64(0)
	if cf.builder != nil {
		wantV = 1
	}
	if nd.Cid().Version() != wantV {
		k.Fail("root-cid-version", "root keeps the configured CID builder", fmt.Sprint(wantV), fmt.Sprintf("%d %s", nd.Cid().Version(), where))
		ok = false
	}
	return ok
}
