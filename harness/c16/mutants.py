#!/usr/bin/env python3
# Regenerates the sensitivity mutants (and the candidate fix) for C16 as build overlays under /verif/.work/mut-c16/<name>/ov.json
import json, os
H='/repo/ipld/unixfs/hamt/hamt.go'; D='/repo/ipld/unixfs/io/directory.go'
OUT='/verif/.work/mut-c16'
def mk(name, path, old, new):
    s=open(path).read()
    if name=='fix' and s.count(old)==0: print('fix already in /repo, skipped'); return
    assert s.count(old)==1, (name, s.count(old))
    d=f'{OUT}/{name}'; os.makedirs(d, exist_ok=True)
    f=f'{d}/'+os.path.basename(path); open(f,'w').write(s.replace(old,new))
    json.dump({"Replace":{path:f}}, open(f'{d}/ov.json','w'))
# fix: fix-addchild-downgrade-threshold.diff
mk('fix',D,'''			if err != nil {
				return err
			}
			err = basicDir.AddChild(ctx, name, nd)''','''			if err != nil {
				return err
			}
			// Propagate per-directory HAMT sharding size (not a DirectoryOption)
			basicDir.SetHAMTShardingSize(hamtDir.GetHAMTShardingSize())
			err = basicDir.AddChild(ctx, name, nd)''')
# d1/d1b: threshold compare >= (links mode / block mode)
mk('d1',D,'switchShardingSize := d.estimatedSize+operationSizeChange > d.getEffectiveShardingSize()','switchShardingSize := d.estimatedSize+operationSizeChange >= d.getEffectiveShardingSize()')
mk('d1b',D,'switchShardingSize := estimatedNewSize > d.getEffectiveShardingSize()','switchShardingSize := estimatedNewSize >= d.getEffectiveShardingSize()')
# d2: fan-out not propagated on basic->HAMT conversion
mk('d2',D,'''	hamtDir, err = basicDir.switchToSharding(ctx,
		WithMaxHAMTFanout(hamtFanout),
''','''	_ = hamtFanout
	hamtDir, err = basicDir.switchToSharding(ctx,
''')
# m3: sizeBelowThreshold ignores the size change of the operation
mk('m3',D,'if partialSize+sizeChange > shardingSize {','if partialSize > shardingSize {')
# m3eq: sizeBelowThreshold compares with >= : NOT detectable (see report: masked by the padded-name under-estimate)
mk('m3eq',D,'if partialSize+sizeChange > shardingSize {','if partialSize+sizeChange >= shardingSize {')
# m4: RemoveChild downgrade keeps the temporarily raised MaxLinks
mk('m4',D,'''	if maxLinks > 0 {
		basicDir.maxLinks--
	}
	d.Directory = basicDir''','''	d.Directory = basicDir''')
# m5: no shard collapse after a removal (map semantics intact, tree not canonical)
mk('m5',H,'''					if schild.isValueNode() {
						ds.childer.set(schild, i)
					}
					return oldValue, nil''','''					return oldValue, nil''')
# m6: RemoveChild downgrade drops mode/mtime
mk('m6',D,'''		WithCidBuilder(hamtDir.GetCidBuilder()),
		WithStat(hamtDir.mode, hamtDir.mtime),
		WithSizeEstimationMode(hamtDir.GetSizeEstimationMode()),
	)
	if err != nil {
		return err
	}
	// Propagate per-directory HAMT sharding size (not a DirectoryOption)
	basicDir.SetHAMTShardingSize''','''		WithCidBuilder(hamtDir.GetCidBuilder()),
		WithSizeEstimationMode(hamtDir.GetSizeEstimationMode()),
	)
	if err != nil {
		return err
	}
	// Propagate per-directory HAMT sharding size (not a DirectoryOption)
	basicDir.SetHAMTShardingSize''')
# m7: MaxLinks compare >=
mk('m7',D,'(d.totalLinks+1) > d.maxLinks\n}','(d.totalLinks+1) >= d.maxLinks\n}')
# m8: replacing an entry of a HAMT directory increments totalLinks
mk('m8',D,'''	d.addToSizeChange(name, nd.Cid())
	if oldChild == nil {
		d.totalLinks++
	}''','''	d.addToSizeChange(name, nd.Cid())
	d.totalLinks++''')
# m9 = seeded C16-c: basic->HAMT installs the HAMT before the triggering add is applied (visible only when that add fails: dyn-fault stratum)
mk('m9',D,'''	err = hamtDir.AddChild(ctx, name, nd)
	if err != nil {
		return err
	}
	d.Directory = hamtDir
	return nil''','''	d.Directory = hamtDir
	return hamtDir.AddChild(ctx, name, nd)''')
print('written to', OUT)
