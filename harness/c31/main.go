// C31: trustless responses of the real gateway handler over generated UnixFS
// trees are verified the way a trustless client would, plus a sufficiency
// check against the harness's own knowledge of the tree. format=raw: the body
// must hash to the CID the path names. format=car: the body is decoded with
// go-car/v2 (library hash check off; the harness re-hashes every block), the
// root must be the CID the path names, the blocks are loaded into an empty
// offline blockstore and (a) the real resolver must resolve the same path
// there, (b) every block the harness computes as necessary for the path
// traversal and the requested dag-scope / entity-bytes must be present,
// (c) no CID may occur twice unless dups=y.
package main

import (
	"bytes"
	"errors"
	"context"
	"fmt"
	"io"
	"net/http"
	"net/http/httptest"
	"net/url"
	"sort"
	"strconv"
	"strings"
	"time"

	bstore "github.com/ipfs/boxo/blockstore"
	bsfetcher "github.com/ipfs/boxo/fetcher/impl/blockservice"
	"github.com/ipfs/boxo/gateway"
	"github.com/ipfs/boxo/ipld/merkledag"
	ft "github.com/ipfs/boxo/ipld/unixfs"
	"github.com/ipfs/boxo/path"
	"github.com/ipfs/boxo/path/resolver"
	blocks "github.com/ipfs/go-block-format"
	cid "github.com/ipfs/go-cid"
	ds "github.com/ipfs/go-datastore"
	dssync "github.com/ipfs/go-datastore/sync"
	"github.com/ipfs/go-unixfsnode"
	car "github.com/ipld/go-car/v2"
	dagpb "github.com/ipld/go-codec-dagpb"
	"github.com/prometheus/client_golang/prometheus"

	"verif/harness/c30/ufsgen"
	"verif/vlib"
)

var errInjected = errors.New("injected read fault (verif)")

func main() { vlib.Run("C31", run) }

func run(c *vlib.Ctx) {
	c.Rule("case = one random UnixFS tree (depth <= 3, basic and HAMT directories of fan-out 8..256, files 0..40kB with chunk 1..1024 / fan-out 2..174 / balanced|trickle / raw|pb leaves, symlinks, repeated subtrees and periodic files so blocks repeat) served by NewBlocksBackend+NewHandler (DeserializedResponses on or off) + 10..16 requests: format=raw (query or Accept; GET and HEAD; root, entry paths when deserialized responses are on, and inner blocks by CID) and format=car x dag-scope {absent,block,entity,all} x entity-bytes from {0,pos,-neg,>=size} : to {*,pos,-neg,>size} x dups {absent,y,n via car-dups or Accept} x order/version params, on the root, on entry paths of depth 1..3 and on file CIDs directly. Stratum hamt forces a wide HAMT root (multi-level shards), stratum files asks ranges on multi-level file DAGs. Plus 3 CAR requests per case for NON-existing paths (<dir>/<absent>[/more]), one of them with reads of a block on the path failing from the 1st..3rd read on: a 200 must carry a proof of absence (path blocks present; offline resolution from the CAR alone ends in ErrNoLink at the missing segment), non-200 is accepted. distinct = FNV of tree summary + requests + observed results; non-trivial = the case verified a CAR whose path crosses a HAMT with >= 2 shard levels or an entity-bytes CAR that is a strict subset of the file's blocks, and a DAG with repeated blocks was served both without and (if drawn) with dups")
	c.Cases("mixed", c.N(72, 700), func(k *vlib.Case) {
		oneCase(k, ufsgen.TreeOpts{MaxDepth: 3, MaxEntries: 10, SubEntries: 8, MaxFileSize: 6000, Symlinks: true, Repeats: true}, 0)
	})
	c.Cases("hamt", c.N(24, 250), func(k *vlib.Case) {
		oneCase(k, ufsgen.TreeOpts{MaxDepth: 2, MaxEntries: 300, SubEntries: 20, MaxFileSize: 300, Symlinks: true, Repeats: true, RootHAMT: 1}, 1)
	})
	c.Cases("files", c.N(48, 500), func(k *vlib.Case) {
		oneCase(k, ufsgen.TreeOpts{MaxDepth: 1, MaxEntries: 6, SubEntries: 4, MaxFileSize: 40000, Repeats: true}, 2)
	})
}

type world struct {
	k     *vlib.Case
	env   *ufsgen.Env
	root  *ufsgen.Entry
	h     http.Handler
	deser bool

	sawHamtCar, sawSubsetCar, sawRepeatNoDups bool
	hung                                      bool
}

type target struct {
	segs []string
	e    *ufsgen.Entry
}

func oneCase(k *vlib.Case, o ufsgen.TreeOpts, flavour int) {
	r := k.R
	env := ufsgen.NewEnvCtx() // reads under a done context fail; reads can be made to fail by injection
	root, err := ufsgen.GenTree(r, env, o)
	if err != nil {
		panic(err)
	}
	be, err := gateway.NewBlocksBackend(env.BSrv)
	if err != nil {
		panic(err)
	}
	w := &world{k: k, env: env, root: root, deser: r.Bool()}
	w.h = gateway.NewHandler(gateway.Config{DeserializedResponses: w.deser, MetricsRegistry: prometheus.NewRegistry()}, be)

	var all, filesT, dirsT []target
	root.Walk(nil, func(segs []string, e *ufsgen.Entry) {
		t := target{segs, e}
		all = append(all, t)
		if e.Kind == ufsgen.KFile {
			filesT = append(filesT, t)
		}
		if e.IsDir() {
			dirsT = append(dirsT, t)
		}
	})
	st, err := env.Stat(root.Cid)
	if err != nil {
		panic(err)
	}
	k.Logf("tree root=%s %s n=%d entries=%d dirs=%d files=%d blocks=%d refs=%d hamt-levels=%d deserialized=%v",
		root.Cid, root.Kind, len(root.Children), len(all), len(dirsT), len(filesT), len(st.Blocks), st.Refs, st.HamtLvls, w.deser)

	nreq := r.Range(10, 16)
	for i := 0; i < nreq && !w.hung; i++ {
		var t target
		switch {
		case flavour == 2 && len(filesT) > 0 && r.Chance(3, 4):
			t = filesT[r.Intn(len(filesT))]
		case len(dirsT) > 1 && r.Chance(1, 5):
			t = dirsT[r.Intn(len(dirsT))]
		case r.Chance(1, 8):
			t = all[0]
		default:
			t = all[r.Intn(len(all))]
		}
		if r.Chance(1, 4) {
			w.rawRequest(t)
		} else {
			w.carRequest(t, flavour)
		}
	}
	// non-existing paths: the CAR must prove the absence
	for i := 0; i < 3 && !w.hung && len(dirsT) > 0; i++ {
		w.absentRequest(dirsT[r.Intn(len(dirsT))], i == 2 || r.Chance(1, 3))
	}
	// an inner block (file leaf / internal node / HAMT shard) by its own CID
	var inner []cid.Cid
	for c := range st.Blocks {
		inner = append(inner, c)
	}
	sort.Slice(inner, func(i, j int) bool { return inner[i].KeyString() < inner[j].KeyString() })
	for i := 0; i < 2 && len(inner) > 0 && !w.hung; i++ {
		w.rawByCid(inner[r.Intn(len(inner))])
	}
	if (w.sawHamtCar || w.sawSubsetCar) && w.sawRepeatNoDups {
		k.Nontrivial()
	}
	k.C.Count("requests", int64(nreq+2))
}

func escPath(rootCid cid.Cid, segs []string) string {
	u := "/ipfs/" + rootCid.String()
	for _, s := range segs {
		u += "/" + url.PathEscape(s)
	}
	return u
}

func (w *world) serve(method, target string, hdr map[string]string) *httptest.ResponseRecorder {
	req := httptest.NewRequest(method, target, nil)
	for k, v := range hdr {
		req.Header.Set(k, v)
	}
	rec := httptest.NewRecorder()
	if !vlib.Guard(w.k, "serve", 10*time.Minute, func() { w.h.ServeHTTP(rec, req) }) {
		// watchdog fired (class hang/serve recorded, batch aborted); the handler
		// goroutine still owns rec, hand out an empty one
		w.hung = true
		r2 := httptest.NewRecorder()
		r2.Code = 0
		return r2
	}
	return rec
}

// ---------------------------------------------------------------- raw

func hashesTo(c cid.Cid, data []byte) bool {
	got, err := c.Prefix().Sum(data)
	return err == nil && got.Equals(c)
}

func (w *world) rawRequest(t target) {
	k := w.k
	if len(t.segs) > 0 && !w.deser {
		// a trustless-only gateway refuses raw requests with a sub-path; ask by CID instead
		w.rawByCid(t.e.Cid)
		return
	}
	u := escPath(w.root.Cid, t.segs)
	hdr := map[string]string{}
	if k.R.Bool() {
		u += "?format=raw"
	} else {
		hdr["Accept"] = "application/vnd.ipld.raw"
	}
	w.rawCheck(u, hdr, t.e.Cid, fmt.Sprintf("path %q (%s)", t.segs, t.e.Kind))
}

func (w *world) rawByCid(c cid.Cid) {
	w.rawCheck("/ipfs/"+c.String()+"?format=raw", nil, c, "by CID")
}

func (w *world) rawCheck(u string, hdr map[string]string, want cid.Cid, what string) {
	k := w.k
	k.Logf("GET+HEAD raw %s %v [%s]", u, hdr, what)
	rec := w.serve("GET", u, hdr)
	if w.hung {
		return
	}
	body := rec.Body.Bytes()
	k.Logf("  -> %d %dB Content-Type=%q", rec.Code, len(body), rec.Header().Get("Content-Type"))
	k.C.Count("raw_requests", 1)
	switch {
	case rec.Code != 200:
		k.Fail("raw-status", "raw block request succeeds", "200", fmt.Sprintf("%s -> %d %.120q", u, rec.Code, body))
		return
	case !hashesTo(want, body):
		orig, _ := w.env.BS.Get(context.Background(), want)
		ol := -1
		if orig != nil {
			ol = len(orig.RawData())
		}
		k.Fail("raw-hash", "body hashes to the requested CID", want.String(), fmt.Sprintf("%s: %dB body does not hash to it (stored block has %dB)", u, len(body), ol))
		return
	}
	if cl := rec.Header().Get("Content-Length"); cl != strconv.Itoa(len(body)) {
		k.Fail("raw-content-length", "Content-Length == block size", strconv.Itoa(len(body)), cl)
	}
	if ct := rec.Header().Get("Content-Type"); ct != "application/vnd.ipld.raw" {
		k.Fail("raw-content-type", "Content-Type application/vnd.ipld.raw", "application/vnd.ipld.raw", ct)
	}
	k.C.Count("raw_blocks_verified", 1)
	hd := w.serve("HEAD", u, hdr)
	if w.hung {
		return
	}
	if hd.Code != 200 || hd.Header().Get("Content-Length") != strconv.Itoa(len(body)) || hd.Body.Len() != 0 {
		k.Fail("raw-head", "HEAD describes the same block", fmt.Sprintf("200 Content-Length=%d empty body", len(body)),
			fmt.Sprintf("%d Content-Length=%s body=%dB", hd.Code, hd.Header().Get("Content-Length"), hd.Body.Len()))
	}
}

// ---------------------------------------------------------------- car

type carParams struct {
	scope    string // "", block, entity, all
	hasRange bool
	from     int64
	toStar   bool
	to       int64
	dups     string // "", y, n
	dupsVia  int    // 0 car-dups query, 1 Accept parameter
	order    string
	version  string
	accept   bool // format via Accept header instead of ?format=car
}

func (p carParams) String() string {
	s := "scope=" + p.scope
	if p.hasRange {
		if p.toStar {
			s += fmt.Sprintf(" entity-bytes=%d:*", p.from)
		} else {
			s += fmt.Sprintf(" entity-bytes=%d:%d", p.from, p.to)
		}
	}
	return s + fmt.Sprintf(" dups=%q(via %d) order=%q version=%q accept=%v", p.dups, p.dupsVia, p.order, p.version, p.accept)
}

func genBytePos(r *vlib.Rand, n int64, neg bool) int64 {
	var v int64
	switch r.Intn(8) {
	case 0:
		v = 0
	case 1:
		v = 1
	case 2:
		v = n - 1
	case 3:
		v = n
	case 4:
		v = n + int64(r.Intn(100)) + 1
	case 5:
		v = n / 2
	default:
		if n > 0 {
			v = int64(r.Uint64() % uint64(n))
		}
	}
	if v < 0 {
		v = 0
	}
	if neg {
		if v == 0 {
			v = 1
		}
		return -v
	}
	return v
}

func genCarParams(r *vlib.Rand, n int64, flavour int) carParams {
	p := carParams{}
	p.scope = vlib.Pick(r, []string{"", "block", "entity", "entity", "entity", "all"})
	if flavour == 2 && r.Chance(2, 3) {
		p.scope = "entity"
	}
	if r.Chance(1, 2) || (flavour == 2 && p.scope == "entity") {
		for {
			p.hasRange = true
			p.from = genBytePos(r, n, r.Chance(1, 4))
			p.toStar = r.Chance(1, 4)
			p.to = genBytePos(r, n, r.Chance(1, 4))
			// the two syntactic restrictions of NewDagByteRange (else 400)
			if !p.toStar && ((p.from >= 0 && p.to >= 0 && p.from > p.to) || (p.from < 0 && p.to < 0 && p.from > p.to)) {
				continue
			}
			break
		}
	}
	p.dups = vlib.Pick(r, []string{"", "", "y", "y", "n"})
	p.dupsVia = r.Intn(2)
	p.order = vlib.Pick(r, []string{"", "", "dfs", "unk"})
	p.version = vlib.Pick(r, []string{"", "", "1"})
	p.accept = r.Chance(1, 3)
	return p
}

// interval is the byte interval [a,b] of a file of size n selected by the
// parameters (IPIP-402: negative values count from the end, to is inclusive,
// values past the end are clamped); ok=false: no byte selected.
func (p carParams) interval(n int64) (a, b int64, ok bool) {
	if !p.hasRange {
		return 0, n - 1, n > 0
	}
	a = p.from
	if a < 0 {
		a = n + a
		if a < 0 {
			a = 0
		}
	}
	switch {
	case p.toStar:
		b = n - 1
	case p.to < 0:
		b = n + p.to
	default:
		b = p.to
	}
	if b > n-1 {
		b = n - 1
	}
	return a, b, a <= b && a < n
}

type nodeSpan struct {
	c    cid.Cid
	s, e int64 // content bytes [s,e) below this node
}

// fileSpans walks a UnixFS file DAG in the full store: content of a node =
// its own Data followed by the content of its links, in order.
func (w *world) fileSpans(root cid.Cid) ([]nodeSpan, int64) {
	var out []nodeSpan
	var rec func(c cid.Cid, off int64) int64
	rec = func(c cid.Cid, off int64) int64 {
		blk, err := w.env.BS.Get(context.Background(), c)
		if err != nil {
			panic(err)
		}
		if c.Prefix().Codec == cid.Raw {
			n := int64(len(blk.RawData()))
			out = append(out, nodeSpan{c, off, off + n})
			return n
		}
		nd, err := merkledag.DecodeProtobuf(blk.RawData())
		if err != nil {
			panic(err)
		}
		fsn, err := ft.FSNodeFromBytes(nd.Data())
		if err != nil {
			panic(err)
		}
		total := int64(len(fsn.Data()))
		for _, l := range nd.Links() {
			total += rec(l.Cid, off+total)
		}
		out = append(out, nodeSpan{c, off, off + total})
		return total
	}
	n := rec(root, 0)
	return out, n
}

// hamtChain returns the shard blocks from the HAMT root down to the shard
// that holds the entry `name` (found by search, no hash function involved).
func (w *world) hamtChain(dir cid.Cid, name string) []cid.Cid {
	var rec func(c cid.Cid) []cid.Cid
	rec = func(c cid.Cid) []cid.Cid {
		nd, err := w.env.DS.Get(context.Background(), c)
		if err != nil {
			panic(err)
		}
		pn := nd.(*merkledag.ProtoNode)
		fsn, err := ft.FSNodeFromBytes(pn.Data())
		if err != nil {
			panic(err)
		}
		pl := len(fmt.Sprintf("%X", fsn.Fanout()-1))
		for _, l := range pn.Links() {
			if len(l.Name) > pl && l.Name[pl:] == name {
				return []cid.Cid{c}
			}
		}
		for _, l := range pn.Links() {
			if len(l.Name) == pl {
				if ch := rec(l.Cid); ch != nil {
					return append([]cid.Cid{c}, ch...)
				}
			}
		}
		return nil
	}
	return rec(dir)
}

// hamtShards returns every shard block of a HAMT directory.
func (w *world) hamtShards(dir cid.Cid) []cid.Cid {
	var out []cid.Cid
	var rec func(c cid.Cid)
	rec = func(c cid.Cid) {
		out = append(out, c)
		nd, err := w.env.DS.Get(context.Background(), c)
		if err != nil {
			panic(err)
		}
		pn := nd.(*merkledag.ProtoNode)
		fsn, _ := ft.FSNodeFromBytes(pn.Data())
		pl := len(fmt.Sprintf("%X", fsn.Fanout()-1))
		for _, l := range pn.Links() {
			if len(l.Name) == pl {
				rec(l.Cid)
			}
		}
	}
	rec(dir)
	return out
}

type need struct {
	c   cid.Cid
	why string
}

func (w *world) carRequest(t target, flavour int) {
	k, r := w.k, w.k.R
	e := t.e
	segs := t.segs
	base := w.root
	// sometimes address a file by its own CID (no path)
	if e.Kind == ufsgen.KFile && r.Chance(1, 4) {
		base, segs = e, nil
	}
	var fsize int64
	var spans []nodeSpan
	if e.Kind == ufsgen.KFile {
		spans, fsize = w.fileSpans(e.Cid)
		if fsize != int64(len(e.Data)) {
			k.Fail("setup/file-size", "model walk sees the file's bytes", fmt.Sprint(len(e.Data)), fmt.Sprint(fsize))
			return
		}
	}
	p := genCarParams(r, fsize, flavour)

	q := url.Values{}
	hdr := map[string]string{}
	acc := "application/vnd.ipld.car"
	if p.version != "" {
		if p.accept && r.Bool() {
			acc += "; version=" + p.version
		} else {
			q.Set("car-version", p.version)
		}
	}
	if p.order != "" {
		if p.accept && r.Bool() {
			acc += "; order=" + p.order
		} else {
			q.Set("car-order", p.order)
		}
	}
	if p.dups != "" {
		if p.accept && p.dupsVia == 1 {
			acc += "; dups=" + p.dups
		} else {
			q.Set("car-dups", p.dups)
		}
	}
	if p.accept {
		hdr["Accept"] = acc
	} else {
		q.Set("format", "car")
	}
	if p.scope != "" {
		q.Set("dag-scope", p.scope)
	}
	if p.hasRange {
		to := "*"
		if !p.toStar {
			to = strconv.FormatInt(p.to, 10)
		}
		q.Set("entity-bytes", fmt.Sprintf("%d:%s", p.from, to))
	}
	u := escPath(base.Cid, segs)
	if enc := q.Encode(); enc != "" {
		u += "?" + enc
	}
	k.Logf("GET car %s %v [%s %q size=%d; %s]", u, hdr, e.Kind, segs, fsize, p)

	// ---- what must be in the CAR (computed from the model and the full store)
	var needs []need
	hamtLevelsOnPath := 0
	cur := base
	for _, s := range segs {
		switch cur.Kind {
		case ufsgen.KDir:
			needs = append(needs, need{cur.Cid, "path: directory block holding " + strconv.Quote(s)})
		case ufsgen.KHAMT:
			ch := w.hamtChain(cur.Cid, s)
			if ch == nil {
				k.Fail("setup/hamt-chain", "model finds the entry in the HAMT", s, "not found")
				return
			}
			if len(ch) > hamtLevelsOnPath {
				hamtLevelsOnPath = len(ch)
			}
			for _, c := range ch {
				needs = append(needs, need{c, "path: HAMT shard on the way to " + strconv.Quote(s)})
			}
		}
		cur = cur.Child(s)
	}
	needs = append(needs, need{e.Cid, "terminal block"})
	scope := p.scope
	if scope == "" {
		scope = "all"
	}
	fileBlocks := 0
	switch scope {
	case "all":
		st, err := w.env.Stat(e.Cid)
		if err != nil {
			panic(err)
		}
		for c := range st.Blocks {
			needs = append(needs, need{c, "dag-scope=all: block of the terminal DAG"})
		}
	case "entity":
		switch e.Kind {
		case ufsgen.KHAMT:
			for _, c := range w.hamtShards(e.Cid) {
				needs = append(needs, need{c, "dag-scope=entity: shard of the terminal HAMT directory"})
			}
		case ufsgen.KFile:
			a, b, ok := p.interval(fsize)
			seen := map[cid.Cid]bool{}
			for _, sp := range spans {
				seen[sp.c] = true
				if ok && sp.s <= b && sp.e > a {
					needs = append(needs, need{sp.c, fmt.Sprintf("dag-scope=entity: file node covering bytes [%d,%d) of requested [%d,%d]", sp.s, sp.e, a, b)})
				}
			}
			fileBlocks = len(seen)
		}
	}

	rec := w.serve("GET", u, hdr)
	if w.hung {
		return
	}
	body := rec.Body.Bytes()
	streamErr := rec.Header().Get("X-Stream-Error")
	k.C.Count("car_requests", 1)
	feat := scope + "/" + e.Kind.String()
	if p.hasRange && scope == "entity" && e.Kind == ufsgen.KFile {
		feat += "/bytes"
	}
	if rec.Code != 200 {
		k.Logf("  -> %d %.100q", rec.Code, body)
		k.Fail("car-status/"+feat, "CAR request for an existing path succeeds", "200", fmt.Sprintf("%s -> %d %.160q", u, rec.Code, body))
		return
	}
	if ct := rec.Header().Get("Content-Type"); !strings.HasPrefix(ct, "application/vnd.ipld.car") {
		k.Fail("car-content-type", "Content-Type application/vnd.ipld.car", "application/vnd.ipld.car…", ct)
	}
	br, err := car.NewBlockReader(bytes.NewReader(body), car.WithTrustedCAR(true))
	if err != nil {
		k.Logf("  -> 200 undecodable CAR: %v", err)
		k.Fail("car-parse/"+feat, "body is a CAR", "decodable CARv1", fmt.Sprintf("%v (stream error %q)", err, streamErr))
		return
	}
	if br.Version != 1 {
		k.Fail("car-version", "CARv1", "1", fmt.Sprint(br.Version))
	}
	got := map[cid.Cid]int{}
	var order []cid.Cid
	off := bstore.NewBlockstore(dssync.MutexWrap(ds.NewMapDatastore()))
	badHash := 0
	for {
		blk, err := br.Next()
		if err == io.EOF {
			break
		}
		if err != nil {
			k.Fail("car-parse/"+feat, "every CAR section decodes", "blocks until EOF", fmt.Sprintf("after %d blocks: %v (stream error %q)", len(order), err, streamErr))
			return
		}
		if !hashesTo(blk.Cid(), blk.RawData()) {
			badHash++
			k.Fail("car-block-hash", "every block's bytes hash to its CID", blk.Cid().String(), fmt.Sprintf("%dB that do not", len(blk.RawData())))
			continue
		}
		got[blk.Cid()]++
		order = append(order, blk.Cid())
		if err := off.Put(context.Background(), mustBlock(blk.RawData(), blk.Cid())); err != nil {
			panic(err)
		}
	}
	dupes := len(order) - len(got)
	k.Logf("  -> 200 roots=%v sections=%d distinct=%d repeated=%d needed=%d stream-error=%q", br.Roots, len(order), len(got), dupes, len(needs), streamErr)
	k.C.Count("car_blocks_rehashed", int64(len(order)))

	// root
	if len(br.Roots) != 1 || !br.Roots[0].Equals(e.Cid) {
		k.Fail("car-root/"+feat, "CAR root == CID the path names", e.Cid.String(), fmt.Sprint(br.Roots))
	}
	// duplicates
	if p.dups != "y" && dupes > 0 {
		var which []string
		for c, n := range got {
			if n > 1 {
				which = append(which, fmt.Sprintf("%s x%d", c, n))
			}
		}
		sort.Strings(which)
		k.Fail("car-dup-blocks/"+feat, "no block twice unless dups=y", "0 repeated sections", fmt.Sprintf("%d repeated: %.300s", dupes, strings.Join(which, ", ")))
	}
	if p.dups == "y" {
		k.C.Count("dups_y_responses", 1)
		k.C.Count("dups_y_repeated_sections", int64(dupes))
	}
	// sufficiency by the model
	// Blocks are identified by multihash here: go-car (like boxo's blockstore)
	// stores one section per multihash, so a block needed under a CIDv1 may be
	// present under the CIDv0 with the same hash (same bytes, equally
	// verifiable); that is not a missing block.
	gotMh := map[string]bool{}
	for c := range got {
		gotMh[string(c.Hash())] = true
	}
	missing := 0
	for _, nd := range needs {
		if got[nd.c] == 0 && gotMh[string(nd.c.Hash())] {
			k.C.Count("needed_block_present_under_alias_cid", 1)
			continue
		}
		if got[nd.c] == 0 {
			missing++
			if missing <= 3 {
				k.Fail("car-missing-block/"+feat, "CAR contains every block needed for the path and the scope", nd.c.String()+" ("+nd.why+")",
					fmt.Sprintf("absent; CAR has %d distinct blocks, stream error %q; request %s", len(got), streamErr, u))
			}
		}
	}
	if streamErr != "" {
		k.C.Count("stream_errors", 1)
	}
	// sufficiency by replay: the real resolver over only the CAR's blocks
	if len(segs) > 0 && badHash == 0 {
		oenv := ufsgen.NewEnvOver(off)
		cfg := bsfetcher.NewFetcherConfig(oenv.BSrv)
		cfg.PrototypeChooser = dagpb.AddSupportToChooser(bsfetcher.DefaultPrototypeChooser)
		res := resolver.NewBasicResolver(cfg.WithReifier(unixfsnode.Reify))
		pp, err := path.Join(path.FromCid(base.Cid), segs...)
		if err == nil {
			if ip, err := path.NewImmutablePath(pp); err == nil && len(ip.Segments()) == len(segs)+2 {
				c, rem, err := res.ResolveToLastNode(context.Background(), ip)
				if err != nil || !c.Equals(e.Cid) || len(rem) != 0 {
					k.Fail("car-replay-resolve/"+feat, "path resolves offline from the CAR's blocks alone", e.Cid.String(), fmt.Sprintf("%v %q err=%v", c, rem, err))
				} else {
					k.C.Count("offline_path_replays_ok", 1)
				}
			}
		}
	}
	if missing == 0 && badHash == 0 {
		k.C.Count("car_responses_sufficient", 1)
		if hamtLevelsOnPath >= 2 {
			w.sawHamtCar = true
		}
		if fileBlocks > 0 && len(got) < fileBlocks {
			w.sawSubsetCar = true
			k.C.Count("range_cars_strict_subset", 1)
		}
		if p.dups != "y" && scope != "block" {
			if st, err := w.env.Stat(e.Cid); err == nil && st.Refs > len(st.Blocks) {
				w.sawRepeatNoDups = true
				k.C.Count("dedup_checked_on_repeating_dag", 1)
			}
		}
	}
}

func mustBlock(data []byte, c cid.Cid) blocks.Block {
	b, err := blocks.NewBlockWithCid(data, c)
	if err != nil {
		panic(err)
	}
	return b
}

// absentRequest asks for a CAR of <dir>/<name that does not exist>[/more].
// A 200 answer is the "proof of absence" CAR: all its blocks must hash, and
// resolving the same path offline from only these blocks must fail with
// ErrNoLink naming the missing segment (not with a missing block); the
// directory / shard blocks of the existing segments must be present. With
// withFault, reads of one block on the path fail from the n-th read on: a
// non-200 answer is fine then, a 200 must still be a sufficient proof.
func (w *world) absentRequest(t target, withFault bool) {
	k, r := w.k, w.k.R
	name := "absent-" + ufsgen.RandName(r)
	if t.e.Child(name) != nil {
		return
	}
	segs := append(append([]string(nil), t.segs...), name)
	if r.Chance(1, 3) {
		segs = append(segs, ufsgen.RandName(r))
	}
	q := url.Values{}
	q.Set("format", "car")
	if sc := vlib.Pick(r, []string{"", "block", "entity", "all"}); sc != "" {
		q.Set("dag-scope", sc)
	}
	u := escPath(w.root.Cid, segs) + "?" + q.Encode()

	// blocks of the existing part of the path
	var needs []need
	cur := w.root
	for _, sg := range t.segs {
		switch cur.Kind {
		case ufsgen.KDir:
			needs = append(needs, need{cur.Cid, "path: directory block holding " + strconv.Quote(sg)})
		case ufsgen.KHAMT:
			for i, c := range w.hamtChain(cur.Cid, sg) {
				if i == 0 {
					needs = append(needs, need{c, "path: root shard of the HAMT holding " + strconv.Quote(sg)})
				} else {
					needs = append(needs, need{c, "path: inner HAMT shard on the way to " + strconv.Quote(sg)})
				}
			}
		}
		cur = cur.Child(sg)
	}
	needs = append(needs, need{t.e.Cid, "parent directory of the missing name"})

	feat := "absent/" + t.e.Kind.String()
	if withFault {
		victim := needs[r.Intn(len(needs))]
		n := r.Range(1, 3)
		k.Logf("fault: reads of %s (%s) fail from read #%d on", victim.c, victim.why, n)
		w.env.SetFaultN(victim.c, errInjected, n-1, -1)
		defer w.env.ClearFaults()
		feat += "/read-fault"
		if strings.Contains(victim.why, "inner HAMT shard") {
			// listed finding: a failing read of an inner shard of an intermediate
			// HAMT is swallowed by the selector traversal and reported as "no link"
			feat = "absent/inner-shard-read-fault"
		}
	}
	k.Logf("GET car (missing path) %s [first missing segment %q in %s dir %q]", u, name, t.e.Kind, t.segs)
	rec := w.serve("GET", u, nil)
	if w.hung {
		return
	}
	fired := 0
	if withFault {
		fired = w.env.FaultsFired()
		w.env.ClearFaults()
	}
	body := rec.Body.Bytes()
	k.C.Count("absent_path_requests", 1)
	k.C.Count(fmt.Sprintf("absent_status_%d", rec.Code), 1)
	if rec.Code != 200 {
		k.Logf("  -> %d %.80q (injected failures %d)", rec.Code, body, fired)
		if !withFault || fired == 0 {
			k.C.Count("absent_non200_without_fault", 1)
		}
		return
	}
	br, err := car.NewBlockReader(bytes.NewReader(body), car.WithTrustedCAR(true))
	if err != nil {
		k.Fail("car-parse/"+feat, "body is a CAR", "decodable CARv1", err.Error())
		return
	}
	off := bstore.NewBlockstore(dssync.MutexWrap(ds.NewMapDatastore()))
	gotMh := map[string]bool{}
	nblk := 0
	for {
		blk, err := br.Next()
		if err == io.EOF {
			break
		}
		if err != nil {
			k.Fail("car-parse/"+feat, "every CAR section decodes", "blocks until EOF", err.Error())
			return
		}
		if !hashesTo(blk.Cid(), blk.RawData()) {
			k.Fail("car-block-hash", "every block's bytes hash to its CID", blk.Cid().String(), "bytes that do not")
			continue
		}
		nblk++
		gotMh[string(blk.Cid().Hash())] = true
		if err := off.Put(context.Background(), mustBlock(blk.RawData(), blk.Cid())); err != nil {
			panic(err)
		}
	}
	k.Logf("  -> 200 roots=%v blocks=%d stream-error=%q (injected failures %d)", br.Roots, nblk, rec.Header().Get("X-Stream-Error"), fired)
	missing := 0
	for _, nd := range needs {
		if !gotMh[string(nd.c.Hash())] {
			missing++
			if missing <= 2 {
				k.Fail("car-absence-missing-block/"+feat, "a 200 CAR for a missing path holds every block needed to verify the absence", nd.c.String()+" ("+nd.why+")",
					fmt.Sprintf("absent; CAR has %d blocks; request %s", nblk, u))
			}
		}
	}
	// replay: the absence must be derivable from the CAR alone
	oenv := ufsgen.NewEnvOver(off)
	cfg := bsfetcher.NewFetcherConfig(oenv.BSrv)
	cfg.PrototypeChooser = dagpb.AddSupportToChooser(bsfetcher.DefaultPrototypeChooser)
	res := resolver.NewBasicResolver(cfg.WithReifier(unixfsnode.Reify))
	pp, err := path.Join(path.FromCid(w.root.Cid), segs...)
	if err != nil {
		return
	}
	ip, err := path.NewImmutablePath(pp)
	if err != nil || len(ip.Segments()) != len(segs)+2 {
		return
	}
	_, _, rerr := res.ResolveToLastNode(context.Background(), ip)
	var nl *resolver.ErrNoLink
	switch {
	case rerr == nil:
		k.Fail("car-absence-replay/"+feat, "missing path does not resolve offline", "ErrNoLink naming "+name, "resolved")
	case !errors.As(rerr, &nl):
		k.Fail("car-absence-replay/"+feat, "absence verifiable from the CAR alone (offline resolution ends in ErrNoLink at the missing segment)", "ErrNoLink naming "+name,
			fmt.Sprintf("%v (%T); CAR has %d blocks; request %s", rerr, rerr, nblk, u))
	case nl.Name != name:
		k.Fail("car-absence-replay/"+feat, "offline resolution names the missing segment", name, nl.Name)
	default:
		if missing == 0 {
			k.C.Count("absence_proofs_verified", 1)
		}
	}
}
