// C20: MFS under concurrency.
//
// 2-4 goroutines drive one real MFS root through its public API (Lookup, Open,
// Truncate/Write/Flush/Close, reads, File.Size, ListNames, Root.Flush + root
// GetNode, FlushPath, File.Flush, Mv of private token files, Mkdir, Directory
// Mode/ModTime, and - in dedicated strata - File.SetMode/SetModTime,
// File.Mode/ModTime, Directory.Flush, Directory.SetMode/SetModTime, in-place
// overwrites and a DAG service whose Add fails) over 1-2 shared files in two
// directories. The DAG service handed to MFS yields/sleeps at PRNG-chosen calls
// (MFS calls it between and inside its critical sections). Every client call
// and return is stamped with one logical clock and judged offline:
//
//	(1) deadlock: declared only from two goroutine dumps 2 s apart in which every
//	    unfinished worker is parked in a sync.(RW)Mutex with an identical stack
//	    and no progress counter moved (never from elapsed time); the stacks name
//	    the class;
//	(2) per shared path a register history: write = Open(W)..ack by fd.Flush or
//	    Close of a unique payload; reads = Open(R)+ReadAll, File.Size, the root
//	    node returned by GetNode read back from the DAG service, the node returned
//	    by FlushPath(file), and the root most recently handed to the publish
//	    function when FlushPath(file) returns. porcupine (via vhist) checks
//	    linearizability; a non-linearizable history is a violation only if it
//	    breaks the statement's own clause (lostWrite below): some read returns a
//	    value that was never written, or one that is older than a write
//	    acknowledged before the read began;
//	(3) after the run FlushPath("/"), re-read of the flushed root from the DAG
//	    service and through a freshly opened MFS root: appended as the last read
//	    of every register;
//	(4) private token files: write, Mv to the other shared directory, read back,
//	    source gone (sequential expectation, shared directories);
//	(5) listings contain the permanent names once; operations on a healthy
//	    in-memory store do not fail.
//
// The race detector is on in both tiers; the driver turns attributed reports
// into violations.
package main

import (
	"context"
	"errors"
	"fmt"
	"io"
	"os"
	"path/filepath"
	"runtime"
	"sort"
	"strings"
	"sync"
	"sync/atomic"
	"time"

	"github.com/anishathalye/porcupine"
	bserv "github.com/ipfs/boxo/blockservice"
	bstore "github.com/ipfs/boxo/blockstore"
	chunker "github.com/ipfs/boxo/chunker"
	offline "github.com/ipfs/boxo/exchange/offline"
	dag "github.com/ipfs/boxo/ipld/merkledag"
	ft "github.com/ipfs/boxo/ipld/unixfs"
	uio "github.com/ipfs/boxo/ipld/unixfs/io"
	"github.com/ipfs/boxo/mfs"
	cid "github.com/ipfs/go-cid"
	ds "github.com/ipfs/go-datastore"
	dssync "github.com/ipfs/go-datastore/sync"
	ipld "github.com/ipfs/go-ipld-format"
	mh "github.com/multiformats/go-multihash"

	"verif/vhist"
	"verif/vlib"
)

const (
	whatFlushPathFile = "FlushPath(file) node, DAG read"
	whatPublishedRoot = "root published when FlushPath(file) returned, DAG read-back"
)

var errInjected = errors.New("injected DAG fault")

func main() { vlib.Run("C20", run) }

func run(c *vlib.Ctx) {
	c.Rule("one case = one concurrent run of 2-4 workers x 20-80 ops (thorough: up to 200) on 1-2 shared files in /a,/b of one MFS root " +
		"(config: chunker default|size-16, CIDv0|v1, fixed|variable payload length, yield injection rate in the DAG service); " +
		"strata: rw (every write truncates first), modeq (3-4 workers on one file: half of the ops poll the read accessors File.Mode/ModTime/Size, Directory.List/ListNames/Mode/ModTime, 12% File.SetMode/SetModTime, the rest the rw mix), setattr (rw + File.SetMode/SetModTime), " +
		"overwrite (rw with fixed-length in-place overwrites, i.e. DagModifier.modifyDag), faults (rw without Mv/Mkdir, DAGService.Add failing for 1-4 of 64 calls: a failed write may or may not have happened, or have only truncated), " +
		"dirflush (rw + Directory.Flush/FlushPath(dir): known cache-orphaning defect), dirattr (rw + Directory.SetMode/SetModTime by one worker: known stale-snapshot defect); " +
		"distinct = FNV of the observed per-key history shape (op kinds with call/return order); " +
		"non-trivial = measured: max concurrency >= 2, some write overlapped another op on the same key, and a read returned a value written by a different worker during the run")
	c.Cases("rw", c.N(32, 300), func(k *vlib.Case) { oneRun(k, "rw") })
	c.Cases("modeq", c.N(16, 80), func(k *vlib.Case) { oneRun(k, "modeq") })
	c.Cases("setattr", c.N(12, 100), func(k *vlib.Case) { oneRun(k, "setattr") })
	c.Cases("overwrite", c.N(12, 80), func(k *vlib.Case) { oneRun(k, "overwrite") })
	c.Cases("faults", c.N(12, 100), func(k *vlib.Case) { oneRun(k, "faults") })
	// the two strata with known (unfixed) defects
	c.Cases("dirflush", c.N(12, 80), func(k *vlib.Case) { oneRun(k, "dirflush") })
	c.Cases("dirattr", c.N(12, 80), func(k *vlib.Case) { oneRun(k, "dirattr") })
}

// ---------------------------------------------------------------- history

type in struct {
	Key    string
	Kind   byte // 'w' write, 'r' read of the content, 's' size
	Val    string
	Client int
	What   string // client-level operation name, for the witness
}

type out struct {
	Val string
	N   int64
}

type recorder struct {
	clock atomic.Int64
	mu    sync.Mutex
	ops   []porcupine.Operation
}

func (r *recorder) now() int64 { return r.clock.Add(1) }

func (r *recorder) call(i in) int {
	t := r.now()
	r.mu.Lock()
	id := len(r.ops)
	r.ops = append(r.ops, porcupine.Operation{ClientId: i.Client, Input: i, Call: t, Return: -1})
	r.mu.Unlock()
	return id
}

func (r *recorder) retAt(id int, t int64, o out) {
	r.mu.Lock()
	r.ops[id].Output = o
	r.ops[id].Return = t
	r.mu.Unlock()
}

func (r *recorder) ret(id int, o out) { r.retAt(id, r.now(), o) }

// ---------------------------------------------------------------- world

type opKind int

const (
	opWrite opKind = iota
	opRead
	opSize
	opSnap
	opFlushPathFile
	opFileFlush
	opList
	opDirStat
	opTokMv
	opMkdir
	opSetMode
	opSetMtime
	opMode
	opModTime
	opDirFlush
	opDirSetMode
	opDirSetMtime
	opDirList
)

var kindName = map[opKind]string{opWrite: "W", opRead: "R", opSize: "Size", opSnap: "Snap", opFlushPathFile: "FlushPath", opFileFlush: "FileFlush",
	opList: "List", opDirStat: "DirStat", opTokMv: "TokMv", opMkdir: "Mkdir", opSetMode: "SetMode", opSetMtime: "SetModTime", opMode: "Mode",
	opModTime: "ModTime", opDirFlush: "DirFlush", opDirSetMode: "DirSetMode", opDirSetMtime: "DirSetModTime", opDirList: "DirList"}

type op struct {
	kind    opKind
	path    string
	val     string
	sync    bool
	trunc   bool
	fdflush bool
	rw      bool
	n       int
	wi      int // issuing worker
}

func (o op) String() string {
	s := kindName[o.kind]
	switch o.kind {
	case opWrite:
		fl := ""
		if o.sync {
			fl += "s"
		}
		if o.trunc {
			fl += "t"
		}
		if o.fdflush {
			fl += "f"
		}
		if o.rw {
			fl += "rw"
		}
		return fmt.Sprintf("W(%s,%q,%s)", o.path, short(o.val), fl)
	case opSnap:
		return s
	case opTokMv, opMkdir:
		return fmt.Sprintf("%s#%d", s, o.n)
	}
	return s + "(" + o.path + ")"
}

func short(v string) string {
	if i := strings.IndexByte(v, '|'); i >= 0 {
		return fmt.Sprintf("%s|+%d", v[:i], len(v)-i-1)
	}
	return v
}

type world struct {
	k       *vlib.Case
	stratum string
	ctx     context.Context
	root    *mfs.Root
	raw     ipld.DAGService // no injected yields (setup, read-back)
	rec     *recorder
	files   []string
	initVal map[string]string
	dirs    []string

	yieldSeed uint64
	yieldRate uint64 // of 16 calls, how many yield/sleep
	yieldN    atomic.Uint64

	progress []atomic.Int64
	tokDir   []int // per worker: index into dirs where its token currently lives
	tokSeq   []int

	pubs    atomic.Int64
	lastPub atomic.Value // cid.Cid most recently passed to the publish function

	faultRate uint64 // faults stratum: of 64 DAGService.Add calls, how many fail
	faultsOn  atomic.Bool
	tolerated atomic.Int64
	orphans   atomic.Int64 // dirflush: operations whose inode object was no longer the one Lookup returns when they finished

	auxMu     sync.Mutex
	aux       []*auxOp // intervals of Directory.SetMode/SetModTime (dirattr stratum) or Directory.Flush (dirflush stratum)
	tokStart  []int64  // per worker: interval of its current/last token step
	tokEnd    []int64
	tokSteps  [][][2]int64 // per worker: intervals of all its finished token steps
	tokBroken []bool       // per worker: a token anomaly was reported, its location is no longer known
	oplog     [][]opSpan   // per worker: interval of every executed operation (read after the workers finished)

	done     bool // all workers returned: per-worker logs may be read
	failMu   sync.Mutex
	deferred []pending
}

type yieldDS struct {
	ipld.DAGService
	w *world
}

func mix(x uint64) uint64 {
	x += 0x9e3779b97f4a7c15
	x = (x ^ (x >> 30)) * 0xbf58476d1ce4e5b9
	x = (x ^ (x >> 27)) * 0x94d049bb133111eb
	return x ^ (x >> 31)
}

// yield is the injected scheduling point: the DAG service is called by MFS
// between and inside its critical sections (flushUp before nodeLock,
// localUpdate under Directory.lock, setNodeData between the read of fi.node and
// nodeLock.Lock).
func (w *world) yield() {
	if w.yieldRate == 0 {
		return
	}
	h := mix(w.yieldSeed ^ w.yieldN.Add(1))
	if h%16 >= w.yieldRate {
		return
	}
	if (h>>8)%6 == 0 {
		time.Sleep(time.Duration((h>>16)%100) * time.Microsecond)
	} else {
		runtime.Gosched()
	}
}

func (y *yieldDS) Add(ctx context.Context, nd ipld.Node) error {
	if w := y.w; w.faultRate > 0 && w.faultsOn.Load() && mix(w.yieldSeed^0x5eed^w.yieldN.Add(1))%64 < w.faultRate {
		return errInjected
	}
	y.w.yield()
	err := y.DAGService.Add(ctx, nd)
	y.w.yield()
	return err
}

func (y *yieldDS) Get(ctx context.Context, c cid.Cid) (ipld.Node, error) {
	y.w.yield()
	return y.DAGService.Get(ctx, c)
}

type auxOp struct{ call, ret int64 }

type opSpan struct {
	o         op
	call, ret int64
}

// propagates: the operation hands a root CID to the republisher, either at the
// end of a chain child -> Directory.updateChildEntry -> ... ->
// Root.updateChildEntry, or directly (Root.Flush = GetNode, then Update).
func (o op) propagates() bool {
	switch o.kind {
	case opWrite:
		return o.sync || o.fdflush
	case opTokMv, opMkdir:
		return o.n%2 == 0 // token written through a Sync descriptor / Mkdir with Flush
	case opSnap, opFlushPathFile, opFileFlush, opSetMode, opSetMtime, opDirSetMode, opDirSetMtime, opDirFlush:
		return true
	}
	return false
}

// otherPropagation returns an operation that hands a root to the republisher
// independently of the file's descriptor lock and overlaps [from,to]
// (directory setattrs first).
func (w *world) otherPropagation(key string, from, to int64) (opSpan, bool) {
	var found opSpan
	ok := false
	for _, l := range w.oplog {
		for _, s := range l {
			// descriptor operations on the same file are serialised by its
			// descriptor lock including their propagation; File.SetMode/
			// SetModTime propagate after releasing nodeLock and are not
			sameFileSerialised := s.o.path == key && s.o.kind != opSetMode && s.o.kind != opSetMtime
			if s.o.propagates() && !sameFileSerialised && s.call < to && from < s.ret {
				if !ok || s.o.kind == opDirSetMode || s.o.kind == opDirSetMtime {
					found, ok = s, true
				}
			}
		}
	}
	return found, ok
}

func (w *world) auxBegin() *auxOp {
	a := &auxOp{call: w.rec.now(), ret: 1 << 62}
	w.auxMu.Lock()
	w.aux = append(w.aux, a)
	w.auxMu.Unlock()
	return a
}

func (w *world) auxEnd(a *auxOp) {
	t := w.rec.now()
	w.auxMu.Lock()
	a.ret = t
	w.auxMu.Unlock()
}

func (w *world) auxOverlaps(from, to int64) bool {
	w.auxMu.Lock()
	defer w.auxMu.Unlock()
	for _, a := range w.aux {
		if a.call < to && from < a.ret {
			return true
		}
	}
	return false
}

// sameInode re-resolves path and reports whether it still names the inode
// object n (measurement only: Directory.Flush drops the parent's cache, after
// which the old object is orphaned).
func (w *world) noteOrphan(path string, n mfs.FSNode) {
	if w.stratum != "dirflush" {
		return
	}
	if cur, err := mfs.Lookup(w.root, path); err == nil && cur != n {
		w.orphans.Add(1)
	}
}

func (w *world) fail(class, clause, expected, observed string) {
	w.k.Fail(class, clause, expected, observed)
}

func otherDir(i int) int { return 1 - i }

func oneRun(k *vlib.Case, stratum string) {
	r := k.R
	c := k.C
	ctx, cancel := context.WithCancel(context.Background())
	defer cancel()

	bs := bstore.NewBlockstore(dssync.MutexWrap(ds.NewMapDatastore()))
	raw := dag.NewDAGService(bserv.New(bs, offline.Exchange(bs)))
	w := &world{k: k, stratum: stratum, ctx: ctx, raw: raw, rec: &recorder{}, initVal: map[string]string{}, dirs: []string{"/a", "/b"}}
	w.yieldSeed = r.Uint64()
	w.yieldRate = uint64(vlib.Pick(r, []int{0, 1, 2, 5}))

	smallChunks := r.Chance(1, 3)
	v1 := r.Chance(1, 4)
	fixedLen := r.Chance(1, 3)
	inPlace := stratum == "overwrite" // writes without Truncate(0): DagModifier.modifyDag path
	if inPlace {
		fixedLen = true
	}
	var opts []mfs.Option
	if smallChunks {
		opts = append(opts, mfs.WithChunker(chunker.SizeSplitterGen(16)))
	}
	if v1 {
		opts = append(opts, mfs.WithCidBuilder(cid.V1Builder{Codec: cid.DagProtobuf, MhType: mh.SHA2_256}))
	}
	nworkers := r.Range(2, 4)
	nfiles := r.Range(1, 2)
	sameDir := r.Bool()
	nops := r.Range(20, c.N(80, 200))
	if stratum == "faults" {
		w.faultRate = uint64(vlib.Pick(r, []int{1, 2, 4}))
	}
	if stratum == "modeq" {
		// File.Mode/ModTime against flushUp/Open on one file: maximise the lock
		// traffic on nodeLock (there is no collaborator call to yield in)
		nworkers, nfiles, nops, w.yieldRate = r.Range(3, 4), 1, r.Range(80, c.N(160, 300)), 0
	}
	k.Logf("config stratum=%s workers=%d files=%d sameDir=%v ops/worker=%d chunker=%s cid=v%d fixedLen=%v inPlaceWrites=%v yieldRate=%d/16 GOMAXPROCS=%d",
		stratum, nworkers, nfiles, sameDir, nops, map[bool]string{false: "default", true: "size-16"}[smallChunks], map[bool]int{false: 0, true: 1}[v1], fixedLen, inPlace, w.yieldRate, runtime.GOMAXPROCS(0))

	root, err := mfs.NewEmptyRoot(ctx, &yieldDS{raw, w}, func(_ context.Context, c cid.Cid) error { w.pubs.Add(1); w.lastPub.Store(c); return nil }, nil, opts...)
	if err != nil {
		panic(err)
	}
	w.root = root

	// ---- setup (sequential)
	must := func(err error) {
		if err != nil {
			panic(fmt.Sprintf("setup: %v", err))
		}
	}
	for _, d := range w.dirs {
		must(mfs.Mkdir(root, d, mfs.MkdirOpts{Flush: true}))
	}
	for i := 0; i < nfiles; i++ {
		d := w.dirs[0]
		if !sameDir && i == 1 {
			d = w.dirs[1]
		}
		w.files = append(w.files, fmt.Sprintf("%s/f%d", d, i))
	}
	valLen := r.Range(24, 70)
	mkVal := func(tag string, rr *vlib.Rand) string {
		n := valLen
		if !fixedLen {
			n = rr.Range(len(tag)+1, 90)
		}
		if n < len(tag)+1 {
			n = len(tag) + 1
		}
		return tag + "|" + strings.Repeat("x", n-len(tag)-1)
	}
	emptyFile := func() ipld.Node { return dag.NodeWithData(ft.FilePBData(nil, 0)) }
	seqWrite := func(path, val string) {
		n, err := mfs.Lookup(root, path)
		must(err)
		fd, err := n.(*mfs.File).Open(ctx, mfs.Flags{Write: true, Sync: true})
		must(err)
		_, err = fd.Write([]byte(val))
		must(err)
		must(fd.Close())
	}
	for _, p := range w.files {
		must(mfs.PutNode(root, p, emptyFile()))
		v := mkVal("init"+filepath.Base(p), r)
		w.initVal[p] = v
		seqWrite(p, v)
	}
	w.tokDir = make([]int, nworkers)
	w.tokSeq = make([]int, nworkers)
	w.tokStart = make([]int64, nworkers)
	w.tokEnd = make([]int64, nworkers)
	w.tokSteps = make([][][2]int64, nworkers)
	w.tokBroken = make([]bool, nworkers)
	w.oplog = make([][]opSpan, nworkers)
	for i := 0; i < nworkers; i++ {
		must(mfs.PutNode(root, fmt.Sprintf("/a/t%d", i), emptyFile()))
	}
	_, err = mfs.FlushPath(ctx, root, "/")
	must(err)

	// ---- plan (pure function of the case PRNG)
	plans := make([][]op, nworkers)
	for wi := 0; wi < nworkers; wi++ {
		rr := r.Fork(fmt.Sprintf("w%d", wi))
		seq := 0
		for j := 0; j < nops; j++ {
			p := vlib.Pick(rr, w.files)
			x := rr.Intn(100)
			var o op
			special := 13
			if stratum == "modeq" {
				special = 50 // query often
			}
			switch {
			case x < special:
				switch stratum {
				case "setattr":
					o = op{kind: vlib.Pick(rr, []opKind{opSetMode, opSetMtime}), path: p, n: rr.Intn(0o777)}
				case "modeq":
					// every read accessor that takes nodeLock / Directory.lock
					switch k := vlib.Pick(rr, []opKind{opMode, opModTime, opSize, opSize, opDirList, opList, opDirStat}); k {
					case opDirList, opList, opDirStat:
						o = op{kind: k, path: filepath.Dir(p)}
					default:
						o = op{kind: k, path: p}
					}
				case "dirflush":
					o = op{kind: opDirFlush, path: vlib.Pick(rr, []string{"/", filepath.Dir(p)})}
				case "dirattr":
					// Only worker 0 sets directory attributes: two concurrent
					// Directory.SetMode/SetModTime calls race on d.unixfsDir in
					// dozens of (inner function) pairs, all one defect; a single
					// caller still exposes its lost-update half through the token
					// moves of the other workers.
					if wi == 0 {
						o = op{kind: vlib.Pick(rr, []opKind{opDirSetMode, opDirSetMtime}), path: filepath.Dir(p), n: rr.Intn(0o777)}
					} else {
						o = op{kind: opTokMv, n: j}
					}
				default:
					o = op{kind: opRead, path: p}
				}
			case stratum == "modeq" && x < special+12:
				// ... against every writer of nodeLock: setattr here, flushUp below
				o = op{kind: vlib.Pick(rr, []opKind{opSetMode, opSetMtime}), path: p, n: rr.Intn(0o777)}
			default:
				y := rr.Intn(87)
				switch {
				case y < 30:
					seq++
					o = op{kind: opWrite, path: p, val: mkVal(fmt.Sprintf("w%d.%d", wi, seq), rr), sync: rr.Bool(), trunc: !inPlace || rr.Chance(1, 3), fdflush: rr.Chance(1, 3), rw: rr.Chance(1, 5)}
				case y < 50:
					o = op{kind: opRead, path: p}
				case y < 55:
					o = op{kind: opSize, path: p}
				case y < 65:
					o = op{kind: opSnap}
				case y < 70:
					o = op{kind: opFlushPathFile, path: p}
				case y < 73:
					o = op{kind: opFileFlush, path: p}
				case y < 77:
					o = op{kind: opList, path: filepath.Dir(p)}
				case y < 80:
					o = op{kind: opDirStat, path: filepath.Dir(p)}
				case stratum == "faults":
					// a failed Mv/Mkdir may be half done; keep this stratum's oracle exact
					o = op{kind: opRead, path: p}
				case y < 85:
					o = op{kind: opTokMv, n: j}
				default:
					o = op{kind: opMkdir, path: filepath.Dir(p), n: j}
				}
			}
			o.wi = wi
			plans[wi] = append(plans[wi], o)
		}
		var sb strings.Builder
		for _, o := range plans[wi] {
			sb.WriteString(o.String())
			sb.WriteByte(' ')
		}
		k.Logf("plan w%d: %s", wi, sb.String())
	}

	w.faultsOn.Store(true)
	// ---- run under the deadlock monitor
	w.progress = make([]atomic.Int64, nworkers)
	var wg sync.WaitGroup
	start := make(chan struct{})
	for wi := 0; wi < nworkers; wi++ {
		wg.Add(1)
		go func(wi int) {
			defer wg.Done()
			<-start
			w.worker(wi, plans[wi])
		}(wi)
	}
	var completed atomic.Bool
	t0 := time.Now()
	vlib.Guard(k, "c20-run-"+stratum, 6*time.Minute, func() {
		close(start)
		completed.Store(w.waitWorkers(&wg))
	})
	w.faultsOn.Store(false)
	c.Count("ms_run", time.Since(t0).Milliseconds())
	c.Count("tolerated_injected_errors", w.tolerated.Load())
	if !completed.Load() {
		// corroborated deadlock (already recorded) or Guard fired: the stuck
		// goroutines are leaked, nothing below may touch the MFS again.
		c.Abort()
		w.summarise(false)
		return
	}

	// ---- final flush and read-back
	finalIDs := map[string]int{}
	for _, p := range w.files {
		finalIDs[p] = w.rec.call(in{Key: p, Kind: 'r', Client: nworkers, What: "final FlushPath(/)+DAG read-back"})
	}
	nd, err := mfs.FlushPath(ctx, root, "/")
	if err != nil {
		w.fail("op-error/final-flushpath", "final flush succeeds", "nil", err.Error())
	} else {
		var reopened *mfs.Root
		if pn, ok := nd.(*dag.ProtoNode); ok {
			reopened, _ = mfs.NewRoot(ctx, raw, pn, nil, nil, opts...)
		}
		for _, p := range w.files {
			v, err := w.readAt(nd, p)
			if err != nil {
				w.fail("final-readback-error", "flushed root readable", "content of "+p, err.Error())
				continue
			}
			w.rec.ret(finalIDs[p], out{Val: v})
			if reopened != nil {
				v2, err := readThroughMFS(ctx, reopened, p)
				if err != nil || v2 != v {
					w.fail("reopen-mismatch", "reopened MFS shows the flushed root", short(v), fmt.Sprintf("%q err=%v", short(v2), err))
				}
			}
		}
		// tokens: each is where its owner left it, with its owner's last value
		for wi := 0; wi < nworkers; wi++ {
			w.checkToken(wi, func(p string) (string, error) { return w.readAt(nd, p) }, "final")
		}
	}
	root.Close()
	c.Count("publishes", w.pubs.Load())
	c.Count("orphaned_inode_ops", w.orphans.Load())
	t1 := time.Now()
	w.summarise(true)
	c.Count("ms_check", time.Since(t1).Milliseconds())
}

func readThroughMFS(ctx context.Context, rt *mfs.Root, p string) (string, error) {
	n, err := mfs.Lookup(rt, p)
	if err != nil {
		return "", err
	}
	f, ok := n.(*mfs.File)
	if !ok {
		return "", errors.New("not a file")
	}
	fd, err := f.Open(ctx, mfs.Flags{Read: true})
	if err != nil {
		return "", err
	}
	defer fd.Close()
	b, err := io.ReadAll(fd)
	return string(b), err
}

// readAt resolves path below a root node using only the DAG service.
func (w *world) readAt(rootNd ipld.Node, path string) (string, error) {
	cur := rootNd
	for _, p := range strings.Split(strings.Trim(path, "/"), "/") {
		d, err := uio.NewDirectoryFromNode(w.raw, cur)
		if err != nil {
			return "", err
		}
		cur, err = d.Find(w.ctx, p)
		if err != nil {
			return "", fmt.Errorf("find %s in flushed dag: %w", p, err)
		}
	}
	return w.readNode(cur)
}

func (w *world) readNode(nd ipld.Node) (string, error) {
	dr, err := uio.NewDagReader(w.ctx, nd, w.raw)
	if err != nil {
		return "", err
	}
	b, err := io.ReadAll(dr)
	return string(b), err
}

// ---------------------------------------------------------------- workers

func (w *world) opErr(step string, o op, err error) {
	if w.stratum == "faults" && strings.Contains(err.Error(), errInjected.Error()) {
		// the scripted fault surfaced as this call's error: allowed. What the
		// failed call may have changed is modelled by the caller.
		w.tolerated.Add(1)
		return
	}
	cl := "op-error/" + kindName[o.kind] + "-" + step
	if errors.Is(err, os.ErrNotExist) {
		cl += "-notexist"
	}
	// under the measured trigger of a known defect the class is the family's
	// (closed set of names); which call failed stays in the witness
	w.failLater(pending{base: cl, family: "op-error", tok: o.kind == opTokMv, wi: o.wi,
		clause: "operation on a healthy in-memory store succeeds", exp: "nil error", obs: fmt.Sprintf("%s: %v", o, err)})
}

// pending is an anomaly outside the register histories (tokens, mkdir,
// unexpected errors). It is classified when the run is over, with the same
// end-of-run trigger measurements as the register histories: under the
// measured trigger of a known defect its class is <family>/<trigger> (a closed
// set of names; which call failed stays in the witness), otherwise base[/when].
type pending struct {
	base, family, when string
	tok                bool
	wi                 int
	clause, exp, obs   string
}

func (w *world) failLater(p pending) {
	w.failMu.Lock()
	w.deferred = append(w.deferred, p)
	w.failMu.Unlock()
}

func (w *world) flushPending() {
	w.failMu.Lock()
	ps := w.deferred
	w.deferred = nil
	w.failMu.Unlock()
	for _, p := range ps {
		trig := w.knownTrigger(0, 0)
		if p.tok {
			trig = w.tokTrigger(p.wi)
		}
		class := p.base
		switch {
		case trig != "":
			class = p.family + trig
		case p.when != "":
			class += "/" + p.when
		}
		w.fail(class, p.clause, p.exp, p.obs)
	}
}

func (w *world) file(o op, step string) *mfs.File {
	n, err := mfs.Lookup(w.root, o.path)
	if err != nil {
		w.opErr(step+"lookup", o, err)
		return nil
	}
	f, ok := n.(*mfs.File)
	if !ok {
		w.fail("lookup-type", "shared path stays a file", "*mfs.File", fmt.Sprintf("%T at %s", n, o.path))
		return nil
	}
	return f
}

func (w *world) dir(path string, o op) *mfs.Directory {
	n, err := mfs.Lookup(w.root, path)
	if err != nil {
		w.opErr("lookup", o, err)
		return nil
	}
	d, ok := n.(*mfs.Directory)
	if !ok {
		w.fail("lookup-type", "shared dir stays a directory", "*mfs.Directory", fmt.Sprintf("%T at %s", n, path))
		return nil
	}
	return d
}

func (w *world) worker(wi int, plan []op) {
	for _, o := range plan {
		w.progress[wi].Add(1)
		sp := opSpan{o: o, call: w.rec.now()}
		w.exec(wi, o)
		sp.ret = w.rec.now()
		w.oplog[wi] = append(w.oplog[wi], sp)
	}
	w.progress[wi].Add(1)
}

func (w *world) exec(wi int, o op) {
	ctx := w.ctx
	switch o.kind {
	case opWrite:
		id := w.rec.call(in{Key: o.path, Kind: 'w', Val: o.val, Client: wi, What: o.String()})
		f := w.file(o, "")
		if f == nil {
			return
		}
		fd, err := f.Open(ctx, mfs.Flags{Write: true, Read: o.rw, Sync: o.sync})
		if err != nil {
			w.opErr("open", o, err)
			return
		}
		acked := false
		// faults stratum: a write that failed half way may have happened, not
		// happened, or have only truncated the file. The first two are an
		// operation that never returns; the third is recorded as such, too.
		halfDone := func() {
			if w.stratum == "faults" {
				w.rec.call(in{Key: o.path, Kind: 'w', Val: "", Client: wi, What: "truncate half of failed " + o.String()})
			}
		}
		if o.trunc {
			if err := fd.Truncate(0); err != nil {
				w.opErr("truncate", o, err)
				halfDone()
				fd.Close()
				return
			}
		}
		if n, err := fd.Write([]byte(o.val)); err != nil || n != len(o.val) {
			w.opErr("write", o, fmt.Errorf("n=%d err=%v", n, err))
			halfDone()
			fd.Close()
			return
		}
		if o.fdflush {
			if err := fd.Flush(); err != nil {
				w.opErr("flush", o, err)
				halfDone()
				fd.Close()
				return
			}
			// acknowledged by Flush: visible from here on
			w.rec.ret(id, out{})
			acked = true
		}
		if err := fd.Close(); err != nil {
			w.opErr("close", o, err)
			return
		}
		if !acked {
			w.rec.ret(id, out{})
		}
		w.noteOrphan(o.path, f)
	case opRead:
		id := w.rec.call(in{Key: o.path, Kind: 'r', Client: wi, What: "Open(R)+ReadAll"})
		f := w.file(o, "")
		if f == nil {
			return
		}
		fd, err := f.Open(ctx, mfs.Flags{Read: true})
		if err != nil {
			w.opErr("open", o, err)
			return
		}
		b, err := io.ReadAll(fd)
		cerr := fd.Close()
		defer w.noteOrphan(o.path, f)
		if err != nil {
			w.opErr("read", o, err)
			return
		}
		if cerr != nil {
			w.opErr("close", o, cerr)
			return
		}
		w.rec.ret(id, out{Val: string(b)})
	case opSize:
		id := w.rec.call(in{Key: o.path, Kind: 's', Client: wi, What: "File.Size"})
		f := w.file(o, "")
		if f == nil {
			return
		}
		n, err := f.Size()
		if err != nil {
			w.opErr("size", o, err)
			return
		}
		w.rec.ret(id, out{N: n})
	case opSnap:
		ids := make([]int, len(w.files))
		for i, p := range w.files {
			ids[i] = w.rec.call(in{Key: p, Kind: 'r', Client: wi, What: "Root.Flush+root GetNode, DAG read-back"})
		}
		if err := w.root.Flush(); err != nil {
			w.opErr("rootflush", o, err)
			return
		}
		nd, err := w.root.GetDirectory().GetNode()
		t := w.rec.now()
		if err != nil {
			w.opErr("getnode", o, err)
			return
		}
		for i, p := range w.files {
			v, err := w.readAt(nd, p)
			if err != nil {
				w.fail("snapshot-readback-error", "root node returned by GetNode is a readable tree containing the shared files", "content of "+p, err.Error())
				continue
			}
			w.rec.retAt(ids[i], t, out{Val: v})
		}
	case opFlushPathFile:
		id := w.rec.call(in{Key: o.path, Kind: 'r', Client: wi, What: whatFlushPathFile})
		idp := w.rec.call(in{Key: o.path, Kind: 'r', Client: wi, What: whatPublishedRoot})
		nd, err := mfs.FlushPath(ctx, w.root, o.path)
		pub, _ := w.lastPub.Load().(cid.Cid)
		t := w.rec.now()
		if err != nil {
			w.opErr("flushpath", o, err)
			return
		}
		// FlushPath = flush the file up to the root, then wait for the
		// republisher: the root it has published by now must contain the file
		// as flushed (or newer).
		if pub.Defined() {
			if rn, err := w.raw.Get(ctx, pub); err != nil {
				w.fail("published-root-readback-error", "published root is in the DAG service", pub.String(), err.Error())
			} else if v, err := w.readAt(rn, o.path); err != nil {
				w.fail("published-root-readback-error", "published root is a readable tree containing the shared files", "content of "+o.path, err.Error())
			} else {
				w.rec.retAt(idp, t, out{Val: v})
			}
		}
		v, err := w.readNode(nd)
		if err != nil {
			w.fail("flushpath-readback-error", "node returned by FlushPath is readable", "content", err.Error())
			return
		}
		w.rec.retAt(id, t, out{Val: v})
	case opFileFlush:
		f := w.file(o, "")
		if f == nil {
			return
		}
		if err := f.Flush(); err != nil {
			w.opErr("flush", o, err)
		}
	case opList:
		d := w.dir(o.path, o)
		if d == nil {
			return
		}
		names, err := d.ListNames(ctx)
		if err != nil {
			w.opErr("listnames", o, err)
			return
		}
		seen := map[string]int{}
		for _, n := range names {
			seen[n]++
		}
		for n, c := range seen {
			if c > 1 {
				w.fail("list-duplicate", "a listing has no duplicate names", "each name once", fmt.Sprintf("%s x%d in %s", n, c, o.path))
			}
		}
		for _, p := range w.files {
			if filepath.Dir(p) == o.path && seen[filepath.Base(p)] == 0 {
				w.fail("list-missing", "permanent file is listed", filepath.Base(p), fmt.Sprintf("%v", names))
			}
		}
	case opDirList:
		// Directory.List = ForEachEntry: under the directory lock it calls
		// GetNode and Size of every child; the sizes are reads of the registers
		var ids []int
		var keys []string
		for _, p := range w.files {
			if filepath.Dir(p) == o.path {
				keys = append(keys, p)
				ids = append(ids, w.rec.call(in{Key: p, Kind: 's', Client: wi, What: "Directory.List entry size"}))
			}
		}
		d := w.dir(o.path, o)
		if d == nil {
			return
		}
		ls, err := d.List(ctx)
		if err != nil {
			w.opErr("list", o, err)
			return
		}
		t := w.rec.now()
		for i, p := range keys {
			n := 0
			for _, e := range ls {
				if e.Name == filepath.Base(p) {
					n++
					w.rec.retAt(ids[i], t, out{N: e.Size})
				}
			}
			if n != 1 {
				w.fail("list-missing", "permanent file is listed exactly once", filepath.Base(p), fmt.Sprintf("%d entries of that name in %s", n, o.path))
			}
		}
	case opDirStat:
		d := w.dir(o.path, o)
		if d == nil {
			return
		}
		if _, err := d.Mode(); err != nil {
			w.opErr("mode", o, err)
		}
		if _, err := d.ModTime(); err != nil {
			w.opErr("modtime", o, err)
		}
	case opTokMv:
		w.tokenStep(wi, o)
	case opMkdir:
		p := fmt.Sprintf("%s/d%d-%d", o.path, wi, o.n)
		if err := mfs.Mkdir(w.root, p, mfs.MkdirOpts{Flush: o.n%2 == 0}); err != nil {
			w.opErr("mkdir", o, err)
			return
		}
		if _, err := mfs.Lookup(w.root, p); err != nil {
			w.failLater(pending{base: "mkdir-lost", family: "mkdir-lost", wi: wi, clause: "a directory created by Mkdir can be looked up", exp: p, obs: err.Error()})
		}
	case opSetMode, opSetMtime:
		// changes metadata only: the content register must not notice
		var err error
		if f := w.file(o, ""); f != nil { // what mfs.Chmod / mfs.Touch do
			if o.kind == opSetMode {
				err = f.SetMode(os.FileMode(o.n))
			} else {
				err = f.SetModTime(time.Unix(1_000_000_000+int64(o.n), 0))
			}
		}
		if err != nil {
			w.opErr("set", o, err)
		}
	case opMode, opModTime:
		f := w.file(o, "")
		if f == nil {
			return
		}
		var err error
		if o.kind == opMode {
			_, err = f.Mode()
		} else {
			_, err = f.ModTime()
		}
		if err != nil {
			w.opErr("get", o, err)
		}
	case opDirFlush:
		a := w.auxBegin()
		defer w.auxEnd(a)
		if _, err := mfs.FlushPath(ctx, w.root, o.path); err != nil {
			w.opErr("flushpath", o, err)
		}
	case opDirSetMode, opDirSetMtime:
		a := w.auxBegin()
		defer w.auxEnd(a)
		var err error
		if d := w.dir(o.path, o); d != nil { // what mfs.Chmod / mfs.Touch do
			if o.kind == opDirSetMode {
				err = d.SetMode(os.FileMode(o.n))
			} else {
				err = d.SetModTime(time.Unix(1_000_000_000+int64(o.n), 0))
			}
		}
		if err != nil {
			w.opErr("set", o, err)
		}
	}
}

func (w *world) tokPath(wi, dir int) string { return fmt.Sprintf("%s/t%d", w.dirs[dir], wi) }

func (w *world) tokVal(wi int) string {
	if w.tokSeq[wi] == 0 {
		return ""
	}
	return fmt.Sprintf("tok%d.%d", wi, w.tokSeq[wi])
}

// tokenStep: the worker's private file is written, moved to the other shared
// directory and read back. Only its owner touches it, so the expectation is
// sequential; the directories it moves between are shared.
func (w *world) tokenStep(wi int, o op) {
	if w.tokBroken[wi] {
		return
	}
	ctx := w.ctx
	src := w.tokPath(wi, w.tokDir[wi])
	n, err := mfs.Lookup(w.root, src)
	if err != nil {
		w.tokBroken[wi] = true
		w.failLater(pending{base: "token-lost", family: "token-lost", when: "before-write", tok: true, wi: wi, clause: "private file stays where its owner moved it", exp: src, obs: err.Error()})
		return
	}
	w.tokStart[wi], w.tokEnd[wi] = w.rec.now(), 1<<62
	defer func() {
		w.tokEnd[wi] = w.rec.now()
		w.tokSteps[wi] = append(w.tokSteps[wi], [2]int64{w.tokStart[wi], w.tokEnd[wi]})
	}()
	f, ok := n.(*mfs.File)
	if !ok {
		w.fail("lookup-type", "token stays a file", "*mfs.File", fmt.Sprintf("%T", n))
		return
	}
	fd, err := f.Open(ctx, mfs.Flags{Write: true, Sync: o.n%2 == 0})
	if err != nil {
		w.opErr("open", o, err)
		return
	}
	w.tokSeq[wi]++
	val := w.tokVal(wi)
	if err := fd.Truncate(0); err != nil {
		w.opErr("truncate", o, err)
	}
	if _, err := fd.Write([]byte(val)); err != nil {
		w.opErr("write", o, err)
	}
	if err := fd.Close(); err != nil {
		w.opErr("close", o, err)
		return
	}
	w.noteOrphan(src, f)
	dst := w.tokPath(wi, otherDir(w.tokDir[wi]))
	if err := mfs.Mv(w.root, src, dst); err != nil {
		w.tokBroken[wi] = true
		w.opErr("mv", o, err)
		return
	}
	w.tokDir[wi] = otherDir(w.tokDir[wi])
	w.checkToken(wi, func(p string) (string, error) { return readThroughMFS(ctx, w.root, p) }, "after-mv")
}

// knownTrigger returns the class suffix naming the measured trigger of a known
// defect, or "" when none was observed (the anomaly is then a plain violation).
func (w *world) knownTrigger(from, to int64) string {
	switch {
	case w.stratum == "dirflush" && w.orphaningObserved():
		return "/dirflush-orphaned-inode"
	case w.stratum == "dirattr" && w.auxOverlaps(from, to):
		return "/dir-setattr-overlap"
	}
	return ""
}

// orphaningObserved is the measured trigger of the cache-orphaning defect: an
// operation finished on an inode object that Lookup no longer returns, or
// (history based, covers every kind of operation) some operation other than
// the Directory.Flush itself was in flight while a Directory.Flush ran.
// Without such an overlap no inode reference can have been orphaned.
func (w *world) orphaningObserved() bool {
	if w.orphans.Load() > 0 {
		return true
	}
	if !w.done {
		return false
	}
	for _, l := range w.oplog {
		for _, s := range l {
			if s.o.kind != opDirFlush && w.auxOverlaps(s.call, s.ret) {
				return true
			}
		}
	}
	return false
}

// tokTrigger: a Directory.SetMode/SetModTime that overlaps one Mv leaves the
// directory's UnixFS listing and its entry cache inconsistent; the damage can
// surface at any later step of the same token, so every step so far counts.
func (w *world) tokTrigger(wi int) string {
	if t := w.knownTrigger(w.tokStart[wi], w.tokEnd[wi]); t != "" {
		return t
	}
	for _, iv := range w.tokSteps[wi] {
		if t := w.knownTrigger(iv[0], iv[1]); t != "" {
			return t
		}
	}
	return ""
}

func (w *world) checkToken(wi int, read func(string) (string, error), when string) {
	if w.tokBroken[wi] {
		return
	}
	at := w.tokPath(wi, w.tokDir[wi])
	old := w.tokPath(wi, otherDir(w.tokDir[wi]))
	v, err := read(at)
	if err != nil {
		w.tokBroken[wi] = true
		w.failLater(pending{base: "token-lost", family: "token-lost", when: when, tok: true, wi: wi, clause: "moved private file is found at its destination", exp: at, obs: err.Error()})
	} else if v != w.tokVal(wi) {
		w.failLater(pending{base: "token-content", family: "token-content", when: when, tok: true, wi: wi, clause: "moved private file carries its last acknowledged write", exp: w.tokVal(wi), obs: v})
	}
	if _, err := read(old); err == nil {
		w.tokBroken[wi] = true
		w.failLater(pending{base: "token-duplicate", family: "token-duplicate", when: when, tok: true, wi: wi, clause: "moved private file is gone from its source", exp: old + " absent", obs: "still readable"})
	}
}

// ---------------------------------------------------------------- deadlock monitor

func (w *world) progressSum() int64 {
	var s int64
	for i := range w.progress {
		s += w.progress[i].Load()
	}
	return s
}

type gor struct {
	id     string
	state  string
	funcs  []string
	worker bool
}

func parseDump(d string) map[string]gor {
	out := map[string]gor{}
	for _, blk := range strings.Split(d, "\n\n") {
		lines := strings.Split(strings.TrimSpace(blk), "\n")
		if len(lines) == 0 || !strings.HasPrefix(lines[0], "goroutine ") {
			continue
		}
		var g gor
		hdr := strings.TrimPrefix(lines[0], "goroutine ")
		sp := strings.IndexByte(hdr, ' ')
		if sp < 0 {
			continue
		}
		g.id = hdr[:sp]
		st := strings.Trim(hdr[sp+1:], "[]:")
		if i := strings.IndexByte(st, ','); i >= 0 {
			st = st[:i] // drop ", N minutes"
		}
		g.state = st
		for _, l := range lines[1:] {
			if strings.HasPrefix(l, "\t") || strings.HasPrefix(l, "created by ") {
				continue
			}
			fn := l
			if i := strings.LastIndex(fn, "("); i > 0 {
				fn = fn[:i]
			}
			fn = strings.TrimPrefix(fn, "github.com/ipfs/boxo/")
			g.funcs = append(g.funcs, fn)
			if strings.Contains(fn, "(*world).worker") {
				g.worker = true
			}
		}
		out[g.id] = g
	}
	return out
}

func lockParked(g gor) bool {
	switch g.state {
	case "sync.Mutex.Lock", "sync.RWMutex.RLock", "sync.RWMutex.Lock", "semacquire":
	default:
		return false
	}
	for _, f := range g.funcs {
		if f == "sync.(*RWMutex).RLock" || f == "sync.(*RWMutex).Lock" || f == "sync.(*Mutex).Lock" {
			return true
		}
	}
	return false
}

func allStacks() string {
	buf := make([]byte, 4<<20)
	return string(buf[:runtime.Stack(buf, true)])
}

// waitWorkers waits for the workers. If no worker makes progress for a while it
// takes two goroutine dumps 2 s apart; a deadlock is declared only if in both
// dumps every unfinished worker is parked in a sync mutex with the same stack
// and no progress counter moved in between. Anything else keeps waiting (the
// outer vlib.Guard is the last resort).
func (w *world) waitWorkers(wg *sync.WaitGroup) bool {
	done := make(chan struct{})
	go func() { wg.Wait(); close(done) }()
	last := w.progressSum()
	idle := 0
	for {
		select {
		case <-done:
			return true
		case <-time.After(500 * time.Millisecond):
		}
		if s := w.progressSum(); s != last {
			last, idle = s, 0
			continue
		}
		idle++
		if idle < 6 {
			continue
		}
		idle = 0
		d1 := allStacks()
		p1 := w.progressSum()
		select {
		case <-done:
			return true
		case <-time.After(2 * time.Second):
		}
		d2 := allStacks()
		p2 := w.progressSum()
		if p1 != p2 || p1 != last {
			last = p2
			continue
		}
		g1, g2 := parseDump(d1), parseDump(d2)
		var ids []string
		ok := true
		for id, g := range g1 {
			if !g.worker {
				continue
			}
			ids = append(ids, id)
			h, present := g2[id]
			if !present || !lockParked(g) || !lockParked(h) || strings.Join(g.funcs, "<") != strings.Join(h.funcs, "<") {
				ok = false
			}
		}
		for _, g := range g2 {
			if g.worker {
				if _, present := g1[g.id]; !present {
					ok = false
				}
			}
		}
		if !ok || len(ids) == 0 {
			w.k.C.Count("stall_not_corroborated", 1)
			continue
		}
		sort.Strings(ids)
		classes := map[string]bool{}
		var desc []string
		for _, id := range ids {
			g := g1[id]
			chain := boxoChain(g.funcs)
			desc = append(desc, fmt.Sprintf("goroutine %s [%s in both dumps, stack unchanged]: %s", id, g.state, chain))
		}
		if len(classes) == 0 {
			var sig []string
			for _, id := range ids {
				sig = append(sig, firstBoxo(g1[id].funcs))
			}
			sort.Strings(sig)
			classes["deadlock/"+strings.Join(uniq(sig), "+")] = true
		}
		for _, l := range desc {
			w.k.Logf("DEADLOCK %s", l)
		}
		if w.k.C.Work != "" {
			os.WriteFile(filepath.Join(w.k.C.Work, fmt.Sprintf("deadlock-dumps-%d.txt", w.k.C.Batch)), []byte(d1+"\n-----\n"+d2), 0o644)
		}
		for cl := range classes {
			w.fail(cl, "no deadlock", "all workers finish",
				fmt.Sprintf("%d unfinished workers, all parked in sync mutexes with identical stacks in two goroutine dumps 2s apart, progress counters unchanged (%d):\n%s", len(ids), p1, strings.Join(desc, "\n")))
		}
		w.k.C.Count("deadlocks_corroborated", 1)
		return false
	}
}

func boxoChain(funcs []string) string {
	var out []string
	for _, f := range funcs {
		if strings.HasPrefix(f, "sync.(") || strings.HasPrefix(f, "mfs.") || strings.HasPrefix(f, "ipld/") || strings.HasPrefix(f, "main.(*world).exec") {
			out = append(out, f)
		}
	}
	return strings.Join(out, " < ")
}

func firstBoxo(funcs []string) string {
	for _, f := range funcs {
		if strings.HasPrefix(f, "mfs.") {
			return strings.TrimPrefix(f, "mfs.")
		}
	}
	return "outside-mfs"
}

func uniq(s []string) []string {
	var out []string
	for i, x := range s {
		if i == 0 || x != s[i-1] {
			out = append(out, x)
		}
	}
	return out
}

// ---------------------------------------------------------------- offline checking

// the register: setting attributes does not touch the content.
func strictModel(init string) porcupine.Model {
	return porcupine.Model{
		Init: func() any { return init },
		Step: func(state, input, output any) (bool, any) {
			s := state.(string)
			i := input.(in)
			switch i.Kind {
			case 'w':
				return true, i.Val
			case 'r':
				o, ok := output.(out)
				return !ok || o.Val == s, s // open (unreturned) read: unconstrained
			case 's':
				o, ok := output.(out)
				return !ok || o.N == int64(len(s)), s
			}
			return true, s
		},
		Equal:             func(a, b any) bool { return a.(string) == b.(string) },
		DescribeOperation: describeOp,
	}
}

func describeOp(input, output any) string {
	i := input.(in)
	o, _ := output.(out)
	switch i.Kind {
	case 'w':
		return fmt.Sprintf("c%d write %q", i.Client, short(i.Val))
	case 'r':
		return fmt.Sprintf("c%d read[%s] -> %q", i.Client, i.What, short(o.Val))
	case 's':
		return fmt.Sprintf("c%d size -> %d", i.Client, o.N)
	}
	return fmt.Sprintf("c%d %s/%c", i.Client, i.What, i.Kind)
}

func (w *world) summarise(completed bool) {
	k := w.k
	c := k.C
	w.done = completed
	w.flushPending()
	w.rec.mu.Lock()
	all := append([]porcupine.Operation(nil), w.rec.ops...)
	end := w.rec.clock.Load() + 1
	w.rec.mu.Unlock()
	for i := range all {
		if all[i].Return < 0 { // never returned (error path / deadlock): may take effect at any later time
			all[i].Return = end
			all[i].Output = nil
		}
	}
	c.Count("events", int64(2*len(all)))
	var returned []porcupine.Operation
	for _, o := range all {
		if o.Output != nil {
			returned = append(returned, o)
		}
	}
	c.Max("max_concurrency", int64(vhist.MaxConcurrency(returned)))

	byKey := map[string][]porcupine.Operation{}
	for _, o := range all {
		key := o.Input.(in).Key
		byKey[key] = append(byKey[key], o)
	}
	keys := make([]string, 0, len(byKey))
	for key := range byKey {
		keys = append(keys, key)
	}
	sort.Strings(keys)

	// shape + non-triviality (measured)
	var shape strings.Builder
	overlapWrite, crossRead := false, false
	for _, key := range keys {
		ops := byKey[key]
		type ev struct {
			t int64
			s string
		}
		var evs []ev
		writer := map[string]int{}
		for _, o := range ops {
			i := o.Input.(in)
			evs = append(evs, ev{o.Call, string(i.Kind) + "+"}, ev{o.Return, string(i.Kind) + "-"})
			if i.Kind == 'w' {
				writer[i.Val] = i.Client
			}
		}
		sort.Slice(evs, func(a, b int) bool { return evs[a].t < evs[b].t })
		shape.WriteString(key + ":")
		for _, e := range evs {
			shape.WriteString(e.s)
		}
		shape.WriteByte('\n')
		for _, o := range ops {
			i := o.Input.(in)
			if i.Kind == 'r' {
				if ov, ok := o.Output.(out); ok {
					if wc, ok := writer[ov.Val]; ok && wc != i.Client {
						crossRead = true
					}
				}
			}
			if i.Kind != 'w' {
				continue
			}
			for _, p := range ops {
				if p.Call != o.Call && p.Call < o.Return && o.Call < p.Return {
					overlapWrite = true
				}
			}
		}
	}
	k.SetShape(w.stratum + "\n" + shape.String())
	if completed && vhist.MaxConcurrency(returned) >= 2 && overlapWrite && crossRead {
		k.Nontrivial()
	}

	for _, key := range keys {
		ops := byKey[key]
		c.Count("porcupine_partitions", 1)
		init := w.initVal[key]
		switch vhist.Check(strictModel(init), ops, 30*time.Second) {
		case vhist.Ok:
			continue
		case vhist.Unknown:
			c.Inconclusive(1)
			continue
		}
		// Not linearizable. The statement itself only promises that no
		// acknowledged write is lost (every read returns a value at least as new
		// as every write acknowledged before the read began, and only values that
		// were written): decide that clause separately, so that a mere new/old
		// inversion between reads that overlap an unacknowledged write is not
		// called a violation.
		akind, anomaly, from, to := lostWrite(init, ops)
		if anomaly == "" {
			c.Count("nonlinearizable_but_no_lost_write", 1)
			c.Count("nonlinearizable_but_no_lost_write_"+w.stratum, 1)
			c.Note("nonlinearizable_example", fmt.Sprintf("%s %s: %s", k.ID, key, strings.Join(tailLines(historyLines(ops, 0, 1<<62), 12), " ; ")))
			continue
		}
		// [from,to] = from the invocation of the write that was lost to the
		// return of the read that missed it. A known defect downgrades the
		// finding only through its measured trigger:
		class := "lost-write/" + w.stratum
		note := ""
		switch {
		case w.stratum == "dirflush" && w.orphaningObserved():
			class = "lost-write/dirflush-orphaned-inode"
			note = fmt.Sprintf(" (%d operations of this run finished on an inode object that Lookup no longer returns: Directory.Flush dropped the cache entry under them)", w.orphans.Load())
		case akind == "stale:"+whatPublishedRoot:
			// the file's own node is current; the root handed to the publish
			// function is not
			class = "lost-write/published-root-stale/" + w.stratum
			note = " (the file's own node is current; the root handed to the publish function is not)"
			if sp, ok := w.otherPropagation(key, from, to); completed && ok {
				// Chains Directory.localUpdate -> parent.localUpdate -> Root ->
				// Republisher.Update (and Root.Flush: GetNode, then Update) lock one
				// level at a time: the older snapshot can reach the parent or the
				// republisher last. Directory.SetMode/SetModTime do the same with
				// the stale snapshot they started from.
				class = "lost-write/published-root-stale/concurrent-propagation"
				if sp.o.kind == opDirSetMode || sp.o.kind == opDirSetMtime {
					class = "lost-write/published-root-stale/dir-setattr-overlap"
				}
				note += fmt.Sprintf("; overlapping operation that hands a root to the republisher: w%d %s [%d,%d]", sp.o.wi, sp.o, sp.call, sp.ret)
			}
		}
		for _, l := range historyLines(ops, from-80, to+20) {
			k.Logf("HIST %s %s", key, l)
		}
		w.fail(class, "an acknowledged write is visible to every later read and in the flushed root (per-path register)",
			"every read of "+key+" returns a written value at least as new as each write acknowledged before the read began", anomaly+note)
	}
}

func tailLines(l []string, n int) []string {
	if len(l) > n {
		return l[len(l)-n:]
	}
	return l
}

// historyLines renders the operations invoked in [from,to] (at most the last
// 300 of them), ordered by invocation.
func historyLines(ops []porcupine.Operation, from, to int64) []string {
	s := append([]porcupine.Operation(nil), ops...)
	sort.Slice(s, func(a, b int) bool { return s[a].Call < s[b].Call })
	var out []string
	for _, o := range s {
		if o.Return >= from && o.Call <= to {
			out = append(out, fmt.Sprintf("[%d,%d] %s", o.Call, o.Return, describeOp(o.Input, o.Output)))
		}
	}
	return tailLines(out, 300)
}

// lostWrite decides the statement's clause on one register history: it returns
// "" iff every returned read (content or size) is explained by a value v that
// (i) is the initial value or was written, (ii) whose write was invoked before
// the read returned, and (iii) is not stale: no write was acknowledged entirely
// after v's write (was acknowledged) and entirely before the read began.
// Otherwise it describes the first offending read.
func lostWrite(init string, ops []porcupine.Operation) (kind, msg string, from, to int64) {
	type wr struct {
		val       string
		call, ret int64 // ret = maxInt64 when never acknowledged
		client    int
	}
	const inf = int64(1) << 62
	writes := []wr{{val: init, call: -2, ret: -1, client: -1}}
	for _, o := range ops {
		if i := o.Input.(in); i.Kind == 'w' {
			w := wr{val: i.Val, call: o.Call, ret: o.Return, client: i.Client}
			if o.Output == nil {
				w.ret = inf
			}
			writes = append(writes, w)
		}
	}
	sorted := append([]porcupine.Operation(nil), ops...)
	sort.Slice(sorted, func(a, b int) bool { return sorted[a].Call < sorted[b].Call })
	for _, r := range sorted {
		i := r.Input.(in)
		ov, ok := r.Output.(out)
		if !ok || (i.Kind != 'r' && i.Kind != 's') {
			continue
		}
		// newest invocation among the writes acknowledged before the read began
		var last *wr
		for j := range writes {
			if w := &writes[j]; w.ret < r.Call && (last == nil || w.call > last.call) {
				last = w
			}
		}
		admissible := func(w wr) bool {
			return w.call < r.Return && (w.ret == inf || w.ret > last.call || w.call == last.call)
		}
		if i.Kind == 's' {
			okSize := false
			for _, w := range writes {
				if admissible(w) && int64(len(w.val)) == ov.N {
					okSize = true
				}
			}
			if !okSize {
				return "size", fmt.Sprintf("File.Size [%d,%d] by c%d returned %d, the length of no value that may be current (last write acknowledged before it: %q by c%d [%d,%d], length %d)",
					r.Call, r.Return, i.Client, ov.N, short(last.val), last.client, last.call, last.ret, len(last.val)), last.call, r.Return
			}
			continue
		}
		var src *wr
		for j := range writes {
			if writes[j].val == ov.Val && (src == nil || !admissible(*src)) {
				src = &writes[j]
			}
		}
		switch {
		case src == nil:
			return "phantom:" + i.What, fmt.Sprintf("%s [%d,%d] by c%d returned %q (%d bytes), which no write of the history carries", i.What, r.Call, r.Return, i.Client, short(ov.Val), len(ov.Val)), last.call, r.Return
		case src.call >= r.Return:
			return "future:" + i.What, fmt.Sprintf("%s [%d,%d] by c%d returned %q before its write [%d,%d] was invoked", i.What, r.Call, r.Return, i.Client, short(ov.Val), src.call, src.ret), last.call, r.Return
		case !admissible(*src):
			return "stale:" + i.What, fmt.Sprintf("lost write: %s [%d,%d] by c%d returned %q (written by c%d [%d,%d]) although write %q by c%d [%d,%d] was invoked after that write had been acknowledged and was itself acknowledged before the read began",
				i.What, r.Call, r.Return, i.Client, short(ov.Val), src.client, src.call, src.ret, short(last.val), last.client, last.call, last.ret), last.call, r.Return
		}
	}
	return "", "", 0, 0
}
