// C04: allowlist. (1) verifcid.ValidateCid is compared, for every registered
// multihash code plus unknown codes, every digest length 0..256 and a family of
// default/custom/overriding/nested allowlists, with an independent
// allowed/min/max table written from the statement. (2) A real block service
// (real blockstore behind a recording wrapper, recording honest exchange with
// and without sessions) is driven through histories of AddBlock, AddBlocks,
// GetBlock, GetBlocks (direct, Session, ContextWithSession) whose batches mix
// valid and rejected CIDs at every position; after every call the monitor
// inspects what was stored, what was requested from / announced to the
// exchange and what was returned.
package main

import (
	"bytes"
	"context"
	"fmt"
	"sort"
	"strings"
	"sync"
	"time"

	"github.com/ipfs/boxo/blockservice"
	bstore "github.com/ipfs/boxo/blockstore"
	"github.com/ipfs/boxo/exchange"
	"github.com/ipfs/boxo/verifcid"
	blocks "github.com/ipfs/go-block-format"
	cid "github.com/ipfs/go-cid"
	ds "github.com/ipfs/go-datastore"
	dssync "github.com/ipfs/go-datastore/sync"
	ipld "github.com/ipfs/go-ipld-format"
	mh "github.com/multiformats/go-multihash"

	"verif/vlib"
)

const maxLen = 256

// ---------------------------------------------------------------- independent table

// spec is the harness's statement-level description of an allowlist.
type spec struct {
	name    string
	allowed func(code uint64) bool
	min     func(code uint64) int
	max     func(code uint64) int
}

// Default allowlist as documented: sha2-256/512, sha3 and keccak families,
// shake-256, dbl-sha2-256, blake3, sha1 (git), identity, blake2b-160..512 and
// blake2s-160..256. Written by NAME (independent of the switch in allowlist.go).
var defaultNames = func() map[uint64]bool {
	m := map[uint64]bool{}
	add := func(n string) {
		c, ok := mh.Names[n]
		if !ok {
			panic("unknown multihash name " + n)
		}
		m[c] = true
	}
	for _, n := range []string{"sha2-256", "sha2-512", "shake-256", "dbl-sha2-256", "blake3", "identity", "sha1",
		"sha3-224", "sha3-256", "sha3-384", "sha3-512", "keccak-224", "keccak-256", "keccak-384", "keccak-512"} {
		add(n)
	}
	for bits := 160; bits <= 512; bits += 8 {
		add(fmt.Sprintf("blake2b-%d", bits))
	}
	for bits := 160; bits <= 256; bits += 8 {
		add(fmt.Sprintf("blake2s-%d", bits))
	}
	return m
}()

func defMin(code uint64) int {
	if code == mh.IDENTITY {
		return 0 // identity is exempt from the minimum
	}
	return 20
}
func defMax(code uint64) int { return 128 } // identity capped at 128 as well

var defaultSpec = spec{"default", func(c uint64) bool { return defaultNames[c] }, defMin, defMax}

// verdict of the table: "" = valid, otherwise the reason for rejection.
func (s spec) reason(code uint64, length int) string {
	suffix := ""
	if code == mh.IDENTITY {
		suffix = "/identity"
	}
	switch {
	case !s.allowed(code):
		return "not-allowed" + suffix
	case length < s.min(code):
		return "below-min" + suffix
	case length > s.max(code):
		return "above-max" + suffix
	}
	return ""
}

func (s spec) reasonCid(c cid.Cid) string {
	d, err := mh.Decode(c.Hash())
	if err != nil {
		panic(err)
	}
	return s.reason(d.Code, d.Length)
}

func overrideSpec(name string, base *spec, set map[uint64]bool) spec {
	s := spec{name: name}
	s.allowed = func(c uint64) bool {
		if v, ok := set[c]; ok {
			return v
		}
		if base != nil {
			return base.allowed(c)
		}
		return false
	}
	if base != nil {
		s.min, s.max = base.min, base.max
	} else {
		s.min, s.max = defMin, defMax
	}
	return s
}

// customAL is a user-defined Allowlist with its own size limits.
type customAL struct {
	codes    map[uint64][2]int // code -> {min,max}
	fallback [2]int
}

func (a customAL) IsAllowed(code uint64) bool { _, ok := a.codes[code]; return ok }
func (a customAL) MinDigestSize(code uint64) int {
	if v, ok := a.codes[code]; ok {
		return v[0]
	}
	return a.fallback[0]
}
func (a customAL) MaxDigestSize(code uint64) int {
	if v, ok := a.codes[code]; ok {
		return v[1]
	}
	return a.fallback[1]
}
func (a customAL) spec(name string) spec {
	return spec{name, a.IsAllowed, a.MinDigestSize, a.MaxDigestSize}
}

type alConfig struct {
	al        verifcid.Allowlist
	spec      spec
	desc      string
	isDefault bool
}

func fmtSet(m map[uint64]bool) string {
	var ks []uint64
	for k := range m {
		ks = append(ks, k)
	}
	sort.Slice(ks, func(i, j int) bool { return ks[i] < ks[j] })
	var sb strings.Builder
	for _, k := range ks {
		fmt.Fprintf(&sb, "%s=%v ", codeName(k), m[k])
	}
	return strings.TrimSpace(sb.String())
}

func codeName(c uint64) string {
	if n, ok := mh.Codes[c]; ok {
		return n
	}
	return fmt.Sprintf("0x%x", c)
}

var sha224 = mh.Names["sha2-224"]

const nFixedConfigs = 8

// fixedConfig builds one of the fixed allowlist constructions; unknown is a
// code outside the registry that some sets mention.
func fixedConfig(i int, unknown uint64) alConfig {
	m1 := map[uint64]bool{mh.MD5: true, mh.MURMUR3X64_64: true, mh.SHA2_256: false, mh.BLAKE2B_MIN: true, unknown: true, mh.IDENTITY: true}
	m2 := map[uint64]bool{mh.SHA2_256: false, mh.MD5: true, unknown: true, mh.IDENTITY: false, mh.SHA3_256: true, mh.BLAKE2S_MIN + 18: true}
	m3 := map[uint64]bool{mh.SHA2_256: true, mh.MD5: false, mh.SHA2_512: false, sha224: true}
	cu := customAL{codes: map[uint64][2]int{mh.SHA2_256: {4, 64}, mh.IDENTITY: {1, 32}, mh.MD5: {16, 16}, mh.SHA2_512: {0, 256}, unknown: {33, 200}, mh.BLAKE3: {20, 20}}, fallback: [2]int{10, 200}}
	cuS := cu.spec("custom")
	d := defaultSpec
	switch i {
	case 0:
		return alConfig{verifcid.DefaultAllowlist, defaultSpec, "DefaultAllowlist", true}
	case 1:
		return alConfig{al: verifcid.NewAllowlist(m1), spec: overrideSpec("custom-set", nil, m1), desc: "NewAllowlist{" + fmtSet(m1) + "}"}
	case 2:
		return alConfig{al: verifcid.NewOverridingAllowlist(verifcid.DefaultAllowlist, m2), spec: overrideSpec("override-default", &d, m2), desc: "NewOverridingAllowlist(Default,{" + fmtSet(m2) + "})"}
	case 3:
		inner := overrideSpec("inner", &d, m2)
		return alConfig{al: verifcid.NewOverridingAllowlist(verifcid.NewOverridingAllowlist(verifcid.DefaultAllowlist, m2), m3), spec: overrideSpec("nested-override", &inner, m3), desc: "NewOverridingAllowlist(NewOverridingAllowlist(Default,{" + fmtSet(m2) + "}),{" + fmtSet(m3) + "})"}
	case 4:
		return alConfig{al: verifcid.NewOverridingAllowlist(nil, m1), spec: overrideSpec("override-nil", nil, m1), desc: "NewOverridingAllowlist(nil,{" + fmtSet(m1) + "})"}
	case 5:
		return alConfig{al: cu, spec: cuS, desc: "user-defined Allowlist with own limits " + fmt.Sprint(cu.codes) + " fallback " + fmt.Sprint(cu.fallback)}
	case 6:
		return alConfig{al: verifcid.NewOverridingAllowlist(cu, m3), spec: overrideSpec("override-custom-limits", &cuS, m3), desc: "NewOverridingAllowlist(user-defined limits,{" + fmtSet(m3) + "})"}
	default:
		inner := overrideSpec("inner", nil, m1)
		return alConfig{al: verifcid.NewOverridingAllowlist(verifcid.NewAllowlist(m1), m3), spec: overrideSpec("override-custom-set", &inner, m3), desc: "NewOverridingAllowlist(NewAllowlist{" + fmtSet(m1) + "},{" + fmtSet(m3) + "})"}
	}
}

// randomConfig draws an allowlist construction (depth 0..3) from the PRNG.
func randomConfig(r *vlib.Rand, unknown uint64) alConfig {
	interesting := []uint64{mh.SHA2_256, mh.SHA2_512, mh.SHA1, mh.MD5, mh.IDENTITY, mh.SHA3_256, mh.BLAKE3, mh.BLAKE2B_MIN + 31, mh.BLAKE2B_MIN + 18, mh.BLAKE2S_MIN + 19, mh.MURMUR3X64_64, mh.KECCAK_256, mh.DBL_SHA2_256, unknown}
	var cfg alConfig
	switch r.Intn(3) {
	case 0:
		cfg = alConfig{al: verifcid.DefaultAllowlist, spec: defaultSpec, desc: "Default"}
	case 1:
		cu := customAL{codes: map[uint64][2]int{}, fallback: [2]int{r.Intn(30), 100 + r.Intn(157)}}
		for j := r.Range(1, 6); j > 0; j-- {
			lo := r.Intn(40)
			cu.codes[interesting[r.Intn(len(interesting))]] = [2]int{lo, lo + r.Intn(120)}
		}
		cfg = alConfig{al: cu, spec: cu.spec("custom"), desc: "user-defined" + fmt.Sprint(cu.codes) + fmt.Sprint(cu.fallback)}
	default:
		cfg = alConfig{desc: "nil"}
	}
	for depth := r.Range(0, 3); depth > 0 || cfg.al == nil; depth-- {
		set := map[uint64]bool{}
		for j := r.Range(1, 6); j > 0; j-- {
			set[interesting[r.Intn(len(interesting))]] = r.Bool()
		}
		if cfg.al == nil {
			if r.Bool() {
				cfg = alConfig{al: verifcid.NewAllowlist(set), spec: overrideSpec("set", nil, set), desc: "NewAllowlist{" + fmtSet(set) + "}"}
			} else {
				cfg = alConfig{al: verifcid.NewOverridingAllowlist(nil, set), spec: overrideSpec("set", nil, set), desc: "NewOverridingAllowlist(nil,{" + fmtSet(set) + "})"}
			}
			continue
		}
		base := cfg.spec
		cfg = alConfig{al: verifcid.NewOverridingAllowlist(cfg.al, set), spec: overrideSpec("override", &base, set), desc: "NewOverridingAllowlist(" + cfg.desc + ",{" + fmtSet(set) + "})"}
	}
	return cfg
}

// ---------------------------------------------------------------- CIDs

func mkCid(code uint64, digest []byte, v0 bool) cid.Cid {
	h, _ := mh.Encode(digest, code)
	if v0 && code == mh.SHA2_256 && len(digest) == 32 {
		return cid.NewCidV0(h)
	}
	return cid.NewCidV1(cid.Raw, h)
}

var registered = func() []uint64 {
	var cs []uint64
	for c := range mh.Codes {
		cs = append(cs, c)
	}
	sort.Slice(cs, func(i, j int) bool { return cs[i] < cs[j] })
	return cs
}()

const nUnknown = 64

// unknownCodes: deterministic per seed, outside the registry; the first few sit
// next to registered ranges.
func unknownCodes(seed uint64) []uint64 {
	r := vlib.NewRand(vlib.SubSeed(seed, "unknown-codes", 0))
	seen := map[uint64]bool{}
	var out []uint64
	try := func(c uint64) {
		if _, ok := mh.Codes[c]; !ok && !seen[c] && len(out) < nUnknown {
			seen[c] = true
			out = append(out, c)
		}
	}
	for _, c := range []uint64{mh.BLAKE2B_MIN - 1, mh.BLAKE2S_MAX + 1, 0x01, 0x10, 0x15, 0x1f, 0x7f, 0x80, 0x3fff, 0x4000, 1<<32 - 1, 1 << 32, 1<<62 + 5, 1<<63 - 1} {
		try(c)
	}
	for len(out) < nUnknown {
		switch r.Intn(4) {
		case 0:
			try(uint64(r.Intn(0x200)))
		case 1:
			try(uint64(0xb200 + r.Intn(0x100)))
		case 2:
			try(uint64(r.Intn(1 << 21)))
		default:
			try(r.Uint64() >> 1)
		}
	}
	return out
}

func main() { vlib.Run("C04", run) }

func run(c *vlib.Ctx) {
	c.Rule("grid: a case = (one of 8 fixed allowlist constructions or a PRNG-drawn construction, one multihash code from the registry or one of 64 unknown codes) with ValidateCid evaluated for every digest length 0..256 against the table; batches: a case = block service config (allowlist construction x WriteThrough x exchange none/plain/session-capable) + history of 6-24 calls {AddBlock, AddBlocks, GetBlock, GetBlocks} x {direct, Session, ContextWithSession, NewSession on embedded ctx} over 8 valid and 8 rejected CIDs placed locally / only in the exchange / both / nowhere, batches of 1..12 with rejected CIDs at chosen positions; distinct = FNV of config+history; non-trivial (grid) = both verdicts observed for the code or the code is decided by allow-set membership; non-trivial (batches) = a batch mixing valid and rejected CIDs was issued and a valid member was served")
	codes := append(append([]uint64{}, registered...), unknownCodes(c.Seed)...)
	c.Note("codes", fmt.Sprintf("%d registered + %d unknown", len(registered), nUnknown))
	c.Cases("validate-grid", nFixedConfigs*len(codes), func(k *vlib.Case) {
		cfg := fixedConfig(k.Index/len(codes), codes[len(registered)])
		gridCase(k, cfg, codes[k.Index%len(codes)])
	})
	c.Cases("validate-random-allowlists", c.N(600, 20000), func(k *vlib.Case) {
		cfg := randomConfig(k.R, codes[len(registered)])
		code := codes[k.R.Intn(len(codes))]
		if k.R.Bool() {
			code = []uint64{mh.SHA2_256, mh.SHA2_512, mh.MD5, mh.IDENTITY, mh.SHA3_256, mh.BLAKE3, mh.BLAKE2B_MIN + 18, mh.MURMUR3X64_64, codes[len(registered)]}[k.R.Intn(9)]
		}
		gridCase(k, cfg, code)
	})
	c.Cases("batches", c.N(2000, 40000), func(k *vlib.Case) { batchCase(k, codes[len(registered)]) })
	c.Exhaustive() // validate-grid is the complete product in both tiers
}

func gridCase(k *vlib.Case, cfg alConfig, code uint64) {
	k.Logf("allowlist %s", cfg.desc)
	k.Logf("code %s (0x%x), digest lengths 0..%d", codeName(code), code, maxLen)
	digest := k.R.Bytes(maxLen)
	var acc, rej int64
	for n := 0; n <= maxLen; n++ {
		want := cfg.spec.reason(code, n)
		for _, v0 := range []bool{false, true} {
			if v0 && !(code == mh.SHA2_256 && n == 32) {
				continue
			}
			c := mkCid(code, digest[:n], v0)
			err := verifcid.ValidateCid(cfg.al, c)
			switch {
			case err == nil && want != "":
				k.Fail("validate-accepts/"+want, "ValidateCid==nil only if allowed and min<=len<=max",
					fmt.Sprintf("rejected (%s: allowed=%v min=%d max=%d)", want, cfg.spec.allowed(code), cfg.spec.min(code), cfg.spec.max(code)),
					fmt.Sprintf("accepted %s len=%d", codeName(code), n))
			case err != nil && want == "":
				pos := "interior"
				switch n {
				case cfg.spec.min(code):
					pos = "at-min"
				case cfg.spec.max(code):
					pos = "at-max"
				}
				if code == mh.IDENTITY {
					pos += "/identity"
				}
				k.Fail("validate-rejects-valid/"+pos, "ValidateCid==nil if allowed and min<=len<=max",
					fmt.Sprintf("accepted (allowed, min=%d max=%d)", cfg.spec.min(code), cfg.spec.max(code)),
					fmt.Sprintf("%s len=%d: %v", codeName(code), n, err))
			case err == nil:
				acc++
			default:
				rej++
			}
		}
	}
	k.Logf("agreed: accepted=%d rejected=%d", acc, rej)
	k.C.Count("validate_points", acc+rej)
	k.C.Count("validate_accepted", acc)
	k.C.Count("validate_rejected", rej)
	if !k.Failed() && acc+rej > 0 {
		// both verdicts seen for this code, or the code is one the allow set decides
		if acc > 0 && rej > 0 || !cfg.spec.allowed(code) {
			k.Nontrivial()
		}
	}
}

// ---------------------------------------------------------------- block service

type event struct {
	kind string // store | fetch | announce
	via  string
	c    cid.Cid
}

type recorder struct {
	mu  sync.Mutex
	evs []event
}

func (r *recorder) add(kind, via string, c cid.Cid) {
	r.mu.Lock()
	r.evs = append(r.evs, event{kind, via, c})
	r.mu.Unlock()
}

func (r *recorder) drain() []event {
	r.mu.Lock()
	defer r.mu.Unlock()
	e := r.evs
	r.evs = nil
	return e
}

// recBS records every block written through the block service.
type recBS struct {
	bstore.Blockstore
	rec *recorder
}

func (b *recBS) Put(ctx context.Context, blk blocks.Block) error {
	b.rec.add("store", "Put", blk.Cid())
	return b.Blockstore.Put(ctx, blk)
}

func (b *recBS) PutMany(ctx context.Context, blks []blocks.Block) error {
	for _, blk := range blks {
		b.rec.add("store", "PutMany", blk.Cid())
	}
	return b.Blockstore.PutMany(ctx, blks)
}

// honest recording exchange
type fetcher struct {
	rec  *recorder
	via  string
	data map[string]blocks.Block // by CID key
}

func (f *fetcher) GetBlock(ctx context.Context, c cid.Cid) (blocks.Block, error) {
	f.rec.add("fetch", f.via+".GetBlock", c)
	if b, ok := f.data[c.KeyString()]; ok {
		return b, nil
	}
	return nil, ipld.ErrNotFound{Cid: c}
}

func (f *fetcher) GetBlocks(ctx context.Context, ks []cid.Cid) (<-chan blocks.Block, error) {
	out := make(chan blocks.Block, len(ks))
	seen := map[string]bool{}
	for _, c := range ks {
		f.rec.add("fetch", f.via+".GetBlocks", c)
		if b, ok := f.data[c.KeyString()]; ok && !seen[c.KeyString()] {
			seen[c.KeyString()] = true
			out <- b
		}
	}
	close(out)
	return out, nil
}

type plainEx struct{ fetcher }

func (e *plainEx) NotifyNewBlocks(ctx context.Context, blks ...blocks.Block) error {
	for _, b := range blks {
		e.rec.add("announce", "NotifyNewBlocks", b.Cid())
	}
	return nil
}
func (e *plainEx) Close() error { return nil }

type sessEx struct {
	plainEx
	sessions int
}

func (e *sessEx) NewSession(ctx context.Context) exchange.Fetcher {
	e.sessions++
	return &fetcher{rec: e.rec, via: fmt.Sprintf("session%d", e.sessions), data: e.data}
}

type item struct {
	c      cid.Cid
	data   []byte
	reason string // "" = valid
	where  string // local | remote | both | nowhere
}

func (it *item) String() string {
	d, _ := mh.Decode(it.c.Hash())
	v := "valid"
	if it.reason != "" {
		v = "REJECTED(" + it.reason + ")"
	}
	return fmt.Sprintf("%s/%d[%s,%s]", codeName(d.Code), d.Length, v, it.where)
}

func batchCase(k *vlib.Case, unknown uint64) {
	r := k.R
	ctx := context.Background()
	var cfg alConfig
	if r.Chance(1, 3) {
		cfg = fixedConfig(0, unknown)
	} else if r.Bool() {
		cfg = fixedConfig(r.Intn(nFixedConfigs), unknown)
	} else {
		cfg = randomConfig(r, unknown)
	}
	wt := r.Bool()
	exKind := []string{"none", "plain", "session"}[r.Intn(3)]
	if r.Chance(1, 2) {
		exKind = "session"
	}
	k.Logf("allowlist %s", cfg.desc)
	k.Logf("WriteThrough=%v exchange=%s", wt, exKind)

	// item pools
	codes := []uint64{mh.SHA2_256, mh.SHA2_512, mh.SHA1, mh.MD5, mh.IDENTITY, mh.SHA3_256, mh.BLAKE3, mh.BLAKE2B_MIN + 31, mh.BLAKE2B_MIN + 18, mh.BLAKE2B_MIN + 19,
		mh.BLAKE2S_MIN + 31, mh.MURMUR3X64_64, mh.KECCAK_256, mh.DBL_SHA2_256, sha224, unknown}
	lens := []int{0, 1, 4, 16, 19, 20, 21, 32, 33, 64, 127, 128, 129, 200, 256}
	var valid, invalid []*item
	seen := map[string]bool{}
	for tries := 0; tries < 4000 && (len(valid) < 8 || len(invalid) < 8); tries++ {
		code := codes[r.Intn(len(codes))]
		n := lens[r.Intn(len(lens))]
		if r.Chance(1, 3) { // aim at the limits of this allowlist
			n = []int{cfg.spec.min(code) - 1, cfg.spec.min(code), cfg.spec.max(code), cfg.spec.max(code) + 1}[r.Intn(4)]
			if n < 0 || n > maxLen {
				continue
			}
		}
		c := mkCid(code, r.Bytes(n), r.Bool())
		if seen[c.KeyString()] {
			continue
		}
		it := &item{c: c, data: r.Bytes(r.Range(0, 40)), reason: cfg.spec.reason(code, n)}
		if it.reason == "" && len(valid) < 8 {
			valid = append(valid, it)
		} else if it.reason != "" && len(invalid) < 8 {
			invalid = append(invalid, it)
		} else {
			continue
		}
		seen[c.KeyString()] = true
	}
	if len(valid) == 0 || len(invalid) == 0 {
		k.Logf("allowlist admits no usable pool (valid=%d invalid=%d)", len(valid), len(invalid))
		return
	}

	rec := &recorder{}
	inner := bstore.NewBlockstore(dssync.MutexWrap(ds.NewMapDatastore()))
	remote := map[string]blocks.Block{}
	for _, it := range append(append([]*item{}, valid...), invalid...) {
		it.where = []string{"local", "remote", "both", "nowhere"}[r.Intn(4)]
		if exKind == "none" && r.Bool() {
			it.where = "local"
		}
		blk, err := blocks.NewBlockWithCid(it.data, it.c)
		if err != nil {
			panic(err)
		}
		if it.where == "local" || it.where == "both" {
			if err := inner.Put(ctx, blk); err != nil { // pre-seeded behind the service's back
				panic(err)
			}
		}
		if it.where == "remote" || it.where == "both" {
			remote[it.c.KeyString()] = blk
		}
		k.Logf("item %s %s", it, it.c)
	}
	var ex exchange.Interface
	switch exKind {
	case "plain":
		ex = &plainEx{fetcher{rec: rec, via: "exchange", data: remote}}
	case "session":
		ex = &sessEx{plainEx: plainEx{fetcher{rec: rec, via: "exchange", data: remote}}}
	}
	var opts []blockservice.Option
	if !cfg.isDefault || r.Bool() {
		opts = append(opts, blockservice.WithAllowlist(cfg.al))
	}
	if wt {
		opts = append(opts, blockservice.WriteThrough(true))
	}
	svc := blockservice.New(&recBS{Blockstore: inner, rec: rec}, ex, opts...)

	byKey := map[string]*item{}
	for _, it := range valid {
		byKey[it.c.KeyString()] = it
	}
	for _, it := range invalid {
		byKey[it.c.KeyString()] = it
	}
	reasonOf := func(c cid.Cid) string {
		if it, ok := byKey[c.KeyString()]; ok {
			return it.reason
		}
		return cfg.spec.reasonCid(c)
	}
	// available: can an honest service obtain the block right now?
	available := func(it *item) bool {
		if has, _ := inner.Has(ctx, it.c); has {
			return true
		}
		_, ok := remote[it.c.KeyString()]
		return ok && ex != nil
	}

	// getters
	type getter struct {
		name string
		g    blockservice.BlockGetter
		ctx  context.Context
	}
	direct := getter{"direct", svc, ctx}
	ses := getter{"Session", blockservice.NewSession(ctx, svc), ctx}
	ectx := blockservice.ContextWithSession(ctx, svc)
	embedded := getter{"ContextWithSession", svc, ectx}
	grabbed := getter{"NewSession(embedded ctx)", blockservice.NewSession(ectx, svc), ctx}
	getters := []getter{direct, ses, embedded, grabbed}

	mixedServed := false
	checkEvents := func(op string) {
		for _, e := range rec.drain() {
			if why := reasonOf(e.c); why != "" {
				verb := map[string]string{"store": "stores", "fetch": "fetches", "announce": "announces"}[e.kind]
				k.Fail(fmt.Sprintf("bs-%s-rejected/%s/%s", verb, op, why), "the block service never "+verb+" a block whose CID the validator rejects",
					"no "+e.kind+" of "+e.c.String(), fmt.Sprintf("%s via %s of %s (%s)", e.kind, e.via, e.c, why))
			}
			k.C.Count("events_"+e.kind, 1)
		}
	}

	pickBatch := func() ([]*item, bool) {
		L := r.Range(1, 12)
		batch := make([]*item, L)
		for i := range batch {
			batch[i] = valid[r.Intn(len(valid))]
		}
		nInv := 0
		switch p := r.Intn(100); {
		case p < 45: // exactly one rejected CID, at a drawn position
			batch[r.Intn(L)] = invalid[r.Intn(len(invalid))]
			nInv = 1
		case p < 60: // two rejected CIDs
			for j := 0; j < 2; j++ {
				batch[r.Intn(L)] = invalid[r.Intn(len(invalid))]
			}
			nInv = 2
		case p < 80: // random mask
			for i := range batch {
				if r.Bool() {
					batch[i] = invalid[r.Intn(len(invalid))]
					nInv++
				}
			}
		case p < 88: // all rejected
			for i := range batch {
				batch[i] = invalid[r.Intn(len(invalid))]
			}
			nInv = L
		}
		nv := 0
		for _, it := range batch {
			if it.reason == "" {
				nv++
			}
		}
		return batch, nv > 0 && nv < L
	}
	descBatch := func(b []*item) string {
		var s []string
		for _, it := range b {
			s = append(s, it.String())
		}
		return strings.Join(s, " ")
	}

	nops := r.Range(6, 24)
	for op := 0; op < nops; op++ {
		switch p := r.Intn(100); {
		case p < 15: // AddBlock
			it := vlib.Pick(r, [][]*item{valid, invalid}[r.Intn(2)])
			k.Logf("AddBlock %s", it)
			blk, _ := blocks.NewBlockWithCid(it.data, it.c)
			hadBefore, _ := inner.Has(ctx, it.c)
			err := svc.AddBlock(ctx, blk)
			checkEvents("AddBlock")
			has, _ := inner.Has(ctx, it.c)
			if it.reason == "" && (err != nil || !has) {
				k.Fail("bs-valid-not-served/AddBlock", "a valid block is accepted and stored", "nil, stored", fmt.Sprintf("err=%v stored=%v", err, has))
			}
			if it.reason != "" && has && !hadBefore {
				k.Fail("bs-stores-rejected/AddBlock/"+it.reason, "the block service never stores a block whose CID the validator rejects", "not stored", "present in the blockstore after AddBlock")
			}
		case p < 35: // AddBlocks
			batch, mixed := pickBatch()
			k.Logf("AddBlocks [%s]", descBatch(batch))
			var blks []blocks.Block
			before := map[string]bool{}
			allValid := true
			for _, it := range batch {
				blk, _ := blocks.NewBlockWithCid(it.data, it.c)
				blks = append(blks, blk)
				before[it.c.KeyString()], _ = inner.Has(ctx, it.c)
				allValid = allValid && it.reason == ""
			}
			err := svc.AddBlocks(ctx, blks)
			checkEvents("AddBlocks")
			for _, it := range batch {
				has, _ := inner.Has(ctx, it.c)
				if it.reason != "" && has && !before[it.c.KeyString()] {
					k.Fail("bs-stores-rejected/AddBlocks/"+it.reason, "the block service never stores a block whose CID the validator rejects", "not stored", it.String()+" present after AddBlocks")
				}
				if allValid && (err != nil || !has) {
					k.Fail("bs-valid-not-served/AddBlocks", "an all-valid batch is accepted and stored", "nil, stored", fmt.Sprintf("err=%v %s stored=%v", err, it, has))
				}
			}
			_ = mixed
		case p < 60: // GetBlock
			g := getters[r.Intn(len(getters))]
			it := vlib.Pick(r, [][]*item{valid, invalid}[r.Intn(2)])
			avail := available(it)
			k.Logf("GetBlock via %s: %s", g.name, it)
			var blk blocks.Block
			var err error
			if !vlib.Guard(k, "GetBlock", 60*time.Second, func() { blk, err = g.g.GetBlock(g.ctx, it.c) }) {
				return
			}
			checkEvents("GetBlock")
			switch {
			case err == nil && blk == nil:
				k.Fail("bs-nil-block/GetBlock", "GetBlock returns a block or an error", "block or error", "nil, nil")
			case err == nil && it.reason != "":
				k.Fail("bs-returns-rejected/GetBlock/"+it.reason, "the block service never returns a block whose CID the validator rejects", "error", "block "+blk.Cid().String())
			case err == nil && reasonOf(blk.Cid()) != "":
				k.Fail("bs-returns-rejected/GetBlock/"+reasonOf(blk.Cid()), "the block service never returns a block whose CID the validator rejects", "valid block", "block "+blk.Cid().String())
			case err != nil && it.reason == "" && avail:
				k.Fail("bs-valid-not-served/GetBlock", "a valid, obtainable block is returned", "block", "error: "+err.Error())
			case err == nil && !bytes.Equal(blk.RawData(), it.data):
				k.Fail("bs-valid-not-served/GetBlock-bytes", "a valid, obtainable block is returned", fmt.Sprintf("%x", it.data), fmt.Sprintf("%x", blk.RawData()))
			}
		default: // GetBlocks
			g := getters[r.Intn(len(getters))]
			batch, mixed := pickBatch()
			var ks []cid.Cid
			avail := map[string]bool{}
			for _, it := range batch {
				ks = append(ks, it.c)
				if it.reason == "" && available(it) {
					avail[it.c.KeyString()] = true
				}
			}
			k.Logf("GetBlocks via %s: [%s]", g.name, descBatch(batch))
			got := map[string]int{}
			var bad []cid.Cid
			if !vlib.Guard(k, "GetBlocks", 60*time.Second, func() {
				for blk := range g.g.GetBlocks(g.ctx, ks) {
					got[blk.Cid().KeyString()]++
					if reasonOf(blk.Cid()) != "" {
						bad = append(bad, blk.Cid())
					}
				}
			}) {
				return
			}
			checkEvents("GetBlocks")
			for _, c := range bad {
				k.Fail("bs-returns-rejected/GetBlocks/"+reasonOf(c), "the block service never returns a block whose CID the validator rejects", "not emitted", "emitted "+c.String())
			}
			servedValid := 0
			for key := range avail {
				if got[key] == 0 {
					k.Fail("bs-valid-not-served/GetBlocks", "valid, obtainable members of a mixed batch are still served", byKey[key].String(), "not emitted")
				} else {
					servedValid++
				}
			}
			if mixed && servedValid > 0 {
				mixedServed = true
			}
			if mixed {
				k.C.Count("mixed_getblocks_batches", 1)
			}
		}
		if k.Failed() {
			break
		}
	}
	// final contents: everything in the blockstore is valid or was pre-seeded by the harness
	ch, err := inner.AllKeysChan(ctx)
	if err != nil {
		panic(err)
	}
	for c := range ch {
		why := cfg.spec.reasonCid(c)
		if why == "" {
			continue
		}
		pre := false
		for _, it := range invalid {
			if bytes.Equal(it.c.Hash(), c.Hash()) && (it.where == "local" || it.where == "both") {
				pre = true
			}
		}
		if !pre {
			k.Fail("bs-stores-rejected/final-contents/"+why, "blockstore contents contain no rejected CID the harness did not plant", "absent", c.String())
		}
	}
	if mixedServed && !k.Failed() {
		k.Nontrivial()
	}
	k.C.Count("ops", int64(nops))
}
