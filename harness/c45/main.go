// C45: the real autoconf client performs 0..3 cache updates against a local
// origin (cache files re-stamped to older seconds), then one more update in a
// grand-child process traced with strace. The traced file-operation sequence
// (whatever the implementation does: truncate in place, temp + rename, ...) is
// replayed prefix by prefix, every write cut at every byte, into a fresh
// directory; a new client's GetCached() on that directory is the observation.
package main

import (
	"bytes"
	"context"
	"encoding/json"
	"fmt"
	"net/http"
	"net/http/httptest"
	"os"
	"os/exec"
	"path/filepath"
	"reflect"
	"regexp"
	"sort"
	"strconv"
	"strings"
	"sync"
	"time"

	"github.com/ipfs/boxo/autoconf"

	"verif/vlib"
)

const sentinelVersion = -4545 // AutoConfVersion of the fallback handed to every client

func sentinel() *autoconf.Config {
	return &autoconf.Config{AutoConfVersion: sentinelVersion, AutoConfSchema: 1}
}

func main() {
	if a := os.Getenv("VERIF_C45_CHILD"); a != "" {
		childMain(a)
		return
	}
	vlib.Run("C45", run)
}

// ------------------------------------------------------------------ child

type childArgs struct {
	CacheDir  string `json:"cache_dir"`
	URL       string `json:"url"`
	CacheSize int    `json:"cache_size"`
	// SameSecFile: scheduling aid for the same-second scenario ("" = none): the
	// newest earlier version file; the child re-stamps it to the next wall-clock
	// second and starts the update when that second begins. These preparatory
	// operations precede the begin marker and are not part of the replayed update.
	SameSecFile string `json:"same_sec_file"`
}

// beginMarker: the child opens this (non-existent) path immediately before the
// update; the trace parser starts the update's operation sequence there.
const beginMarker = "/VERIF_C45_BEGIN_UPDATE"

// childMain is the traced grand-child: one cache update through the public API.
func childMain(arg string) {
	var a childArgs
	if err := json.Unmarshal([]byte(arg), &a); err != nil {
		fmt.Println("ERR args", err)
		os.Exit(3)
	}
	cl, err := newClient(a.CacheDir, a.URL, a.CacheSize)
	if err != nil {
		fmt.Println("ERR client", err)
		os.Exit(3)
	}
	ctx, cancel := context.WithTimeout(context.Background(), 60*time.Second)
	defer cancel()
	if a.SameSecFile != "" {
		t := time.Now().Unix() + 1
		if err := os.Rename(a.SameSecFile, filepath.Join(filepath.Dir(a.SameSecFile), fmt.Sprintf("autoconf-%d.json", t))); err != nil {
			fmt.Println("ERR restamp", err)
			os.Exit(3)
		}
		for time.Now().Unix() < t {
			time.Sleep(time.Millisecond)
		}
	}
	if f, err := os.Open(beginMarker); err == nil {
		f.Close()
	}
	resp, err := cl.GetLatest(ctx)
	if err != nil {
		fmt.Println("ERR getlatest", err)
		os.Exit(4)
	}
	fmt.Printf("OK %d fromcache=%v\n", resp.Config.AutoConfVersion, resp.FromCache())
}

func newClient(cacheDir, url string, cacheSize int) (*autoconf.Client, error) {
	return autoconf.NewClient(
		autoconf.WithCacheDir(cacheDir),
		autoconf.WithURL(url),
		autoconf.WithCacheSize(cacheSize),
		autoconf.WithRefreshInterval(time.Hour),
		autoconf.WithTimeout(30*time.Second),
		autoconf.WithFallback(sentinel),
	)
}

// ------------------------------------------------------------------ origin

type served struct {
	body    []byte
	etag    string
	lastMod string
}

type origin struct {
	mu   sync.Mutex
	cur  served
	hits []string // "200" / "304"
	srv  *httptest.Server
}

func newOrigin() *origin {
	o := &origin{}
	o.srv = httptest.NewServer(http.HandlerFunc(func(w http.ResponseWriter, r *http.Request) {
		o.mu.Lock()
		s := o.cur
		o.mu.Unlock()
		if s.etag != "" {
			w.Header().Set("ETag", s.etag)
		}
		if s.lastMod != "" {
			w.Header().Set("Last-Modified", s.lastMod)
		}
		notMod := (s.etag != "" && r.Header.Get("If-None-Match") == s.etag) ||
			(s.etag == "" && s.lastMod != "" && r.Header.Get("If-Modified-Since") == s.lastMod)
		o.mu.Lock()
		if notMod {
			o.hits = append(o.hits, "304")
		} else {
			o.hits = append(o.hits, "200")
		}
		o.mu.Unlock()
		if notMod {
			w.WriteHeader(http.StatusNotModified)
			return
		}
		w.Header().Set("Content-Type", "application/json")
		w.Write(s.body)
	}))
	return o
}

func (o *origin) set(s served) { o.mu.Lock(); o.cur = s; o.mu.Unlock() }
func (o *origin) lastHit() string {
	o.mu.Lock()
	defer o.mu.Unlock()
	if len(o.hits) == 0 {
		return ""
	}
	return o.hits[len(o.hits)-1]
}

// ------------------------------------------------------------------ payloads

var bootstrapPool = []string{
	"/dnsaddr/bootstrap.libp2p.io/p2p/QmNnooDu7bfjPFoTZYxMNLWUQJyrVwtbZg5gBMjTezGAJN",
	"/ip4/104.131.131.82/tcp/4001/p2p/QmaCpDMGvV2BGHeYERUEnRQAwe3N8SzbUtfsmvsqQLuvuJ",
	"/ip4/127.0.0.1/tcp/4001",
	"/ip6/::1/udp/4001/quic-v1",
	"/dns4/example.org/tcp/443/wss",
}

func genPayload(r *vlib.Rand, version int64) ([]byte, *autoconf.Config) {
	cfg := autoconf.Config{AutoConfVersion: version, AutoConfSchema: 1}
	if r.Bool() {
		cfg.AutoConfTTL = []int{1, 60, 86400, 604800}[r.Intn(4)]
	}
	nsys := r.Intn(4)
	if nsys > 0 {
		cfg.SystemRegistry = map[string]autoconf.SystemConfig{}
	}
	for i := 0; i < nsys; i++ {
		sc := autoconf.SystemConfig{URL: fmt.Sprintf("https://docs.example/%d", r.Intn(1000)), Description: strings.Repeat("d", r.Intn(120))}
		if r.Bool() {
			nc := &autoconf.NativeConfig{}
			for j := r.Intn(5); j > 0; j-- {
				nc.Bootstrap = append(nc.Bootstrap, bootstrapPool[r.Intn(len(bootstrapPool))])
			}
			sc.NativeConfig = nc
		}
		if r.Bool() {
			sc.DelegatedConfig = &autoconf.DelegatedConfig{Read: []string{"/routing/v1/providers", "/routing/v1/peers"}[:r.Intn(3)], Write: []string{"/routing/v1/ipns"}[:r.Intn(2)]}
		}
		cfg.SystemRegistry[[]string{"AminoDHT", "IPNI", "Custom", "Sysé"}[i]] = sc
	}
	if r.Bool() {
		cfg.DNSResolvers = map[string][]string{"eth.": []string{"https://dns.eth.limo/dns-query", "https://dns.eth.link/dns-query"}[:1+r.Intn(2)]}
	}
	if r.Bool() {
		cfg.DelegatedEndpoints = map[string]autoconf.EndpointConfig{}
		for j := r.Intn(3); j >= 0; j-- {
			cfg.DelegatedEndpoints[fmt.Sprintf("https://delegated-%d.example", j)] = autoconf.EndpointConfig{
				Systems: []string{"IPNI", "AminoDHT"}[:r.Intn(3)], Read: []string{"/routing/v1/providers"}, Write: []string{"/routing/v1/ipns"}[:r.Intn(2)]}
		}
	}
	var body []byte
	var err error
	if r.Bool() {
		body, err = json.MarshalIndent(&cfg, "", "  ")
	} else {
		body, err = json.Marshal(&cfg)
	}
	if err != nil {
		panic(err)
	}
	switch r.Intn(4) {
	case 0:
		body = append(body, '\n')
	case 1:
		body = append(body, " \n\n"...)
	}
	// what a client parses from exactly these bytes
	var parsed autoconf.Config
	if err := json.Unmarshal(body, &parsed); err != nil {
		panic(err)
	}
	return body, &parsed
}

// ------------------------------------------------------------------ directory model

// fsModel is the state of the cache base directory: regular files by path
// relative to the base, and directories.
type fsModel struct {
	files map[string][]byte
	dirs  map[string]bool
}

func newModel() *fsModel { return &fsModel{files: map[string][]byte{}, dirs: map[string]bool{}} }

func (m *fsModel) clone() *fsModel {
	n := newModel()
	for k, v := range m.files {
		n.files[k] = v // contents are treated as immutable (copy on write)
	}
	for k := range m.dirs {
		n.dirs[k] = true
	}
	return n
}

func readTree(base string) *fsModel {
	m := newModel()
	filepath.Walk(base, func(p string, info os.FileInfo, err error) error {
		if err != nil {
			return nil
		}
		rel, _ := filepath.Rel(base, p)
		if rel == "." {
			return nil
		}
		if info.IsDir() {
			m.dirs[rel] = true
			return nil
		}
		b, err := os.ReadFile(p)
		if err != nil {
			panic(err)
		}
		m.files[rel] = b
		return nil
	})
	return m
}

func (m *fsModel) materialize(base string) {
	if err := os.MkdirAll(base, 0o755); err != nil {
		panic(err)
	}
	for d := range m.dirs {
		if err := os.MkdirAll(filepath.Join(base, d), 0o755); err != nil {
			panic(err)
		}
	}
	for f, b := range m.files {
		if err := os.WriteFile(filepath.Join(base, f), b, 0o600); err != nil {
			panic(err)
		}
	}
}

func (m *fsModel) equal(o *fsModel) (bool, string) {
	for f, b := range m.files {
		ob, ok := o.files[f]
		if !ok {
			return false, "replay has extra file " + f
		}
		if !bytes.Equal(b, ob) {
			return false, fmt.Sprintf("file %s differs (replay %d bytes, real %d bytes)", f, len(b), len(ob))
		}
	}
	for f := range o.files {
		if _, ok := m.files[f]; !ok {
			return false, "replay lacks file " + f
		}
	}
	for d := range o.dirs {
		if d != "." && !m.dirs[d] {
			return false, "replay lacks dir " + d
		}
	}
	return true, ""
}

// ------------------------------------------------------------------ strace parsing

// fileOp is one traced operation on the cache base directory.
type fileOp struct {
	kind   string // mkdir open write pwrite close rename unlink ftruncate truncate fsync
	path   string // relative to base
	path2  string // rename target
	fd     int
	flags  string
	data   []byte
	off    int64
	length int64
	raw    string // syscall name
}

var (
	lineRe     = regexp.MustCompile(`^(\d+)\s+(.*)$`)
	resumedRe  = regexp.MustCompile(`^<\.\.\. (\w+) resumed>\s?(.*)$`)
	callRe     = regexp.MustCompile(`^(\w+)\((.*)\)\s+= (-?\d+|\?)(.*)$`)
	traceCalls = "open,openat,creat,write,pwrite64,writev,pwritev,pwritev2,close,rename,renameat,renameat2,unlink,unlinkat,rmdir,mkdir,mkdirat,link,linkat,symlink,symlinkat,ftruncate,truncate,fsync,fdatasync,fallocate,copy_file_range,sendfile,dup,dup2,dup3"
)

func unescape(s string) ([]byte, bool) {
	// s is the inside of a strace string literal printed with -xx
	out := make([]byte, 0, len(s)/4)
	for i := 0; i < len(s); {
		if s[i] != '\\' {
			out = append(out, s[i])
			i++
			continue
		}
		if i+3 < len(s) && s[i+1] == 'x' {
			v, err := strconv.ParseUint(s[i+2:i+4], 16, 8)
			if err != nil {
				return nil, false
			}
			out = append(out, byte(v))
			i += 4
			continue
		}
		return nil, false
	}
	return out, true
}

// splitArgs splits a syscall argument list at top-level commas.
func splitArgs(s string) []string {
	var out []string
	depth, inStr, start := 0, false, 0
	for i := 0; i < len(s); i++ {
		ch := s[i]
		switch {
		case inStr:
			if ch == '\\' {
				i++
			} else if ch == '"' {
				inStr = false
			}
		case ch == '"':
			inStr = true
		case ch == '{' || ch == '[' || ch == '(':
			depth++
		case ch == '}' || ch == ']' || ch == ')':
			depth--
		case ch == ',' && depth == 0:
			out = append(out, strings.TrimSpace(s[start:i]))
			start = i + 1
		}
	}
	if strings.TrimSpace(s[start:]) != "" || len(out) > 0 {
		out = append(out, strings.TrimSpace(s[start:]))
	}
	return out
}

// strArg decodes a quoted string argument; ok=false when truncated or not a string.
func strArg(a string) ([]byte, bool) {
	if len(a) < 2 || a[0] != '"' || a[len(a)-1] != '"' {
		return nil, false
	}
	return unescape(a[1 : len(a)-1])
}

type traceResult struct {
	begin        int // index in ops of the first operation after the begin marker (-1: marker not seen)
	ops          []fileOp
	unreplayable []string // operations on the cache dir the replayer does not model
	lines        int
	fsyncs       int
}

// parseTrace turns the strace output into the sequence of operations that touch
// `base`, in order of completion.
func parseTrace(text, base, cwd string) traceResult {
	var tr traceResult
	tr.begin = -1
	var markerHex strings.Builder
	for i := 0; i < len(beginMarker); i++ {
		fmt.Fprintf(&markerHex, "\\x%02x", beginMarker[i])
	}
	pending := map[string]string{} // pid -> unfinished prefix
	fdPath := map[int]string{}     // every successfully opened fd -> absolute path
	under := func(abs string) (string, bool) {
		rel, err := filepath.Rel(base, abs)
		if err != nil || rel == ".." || strings.HasPrefix(rel, "../") {
			return "", false
		}
		return rel, true
	}
	resolve := func(dirfd, p string) (string, bool) {
		if filepath.IsAbs(p) {
			return filepath.Clean(p), true
		}
		if dirfd == "AT_FDCWD" || dirfd == "" {
			return filepath.Join(cwd, p), true
		}
		n, err := strconv.Atoi(dirfd)
		if err != nil {
			return "", false
		}
		d, ok := fdPath[n]
		if !ok {
			return "", false
		}
		return filepath.Join(d, p), true
	}
	for _, line := range strings.Split(text, "\n") {
		m := lineRe.FindStringSubmatch(line)
		if m == nil {
			continue
		}
		tr.lines++
		pid, rest := m[1], m[2]
		if strings.HasSuffix(rest, "<unfinished ...>") {
			pending[pid] = strings.TrimSuffix(rest, "<unfinished ...>")
			continue
		}
		if rm := resumedRe.FindStringSubmatch(rest); rm != nil {
			rest = pending[pid] + rm[2]
			delete(pending, pid)
		}
		cm := callRe.FindStringSubmatch(rest)
		if cm == nil {
			continue // signals, exit notices
		}
		name, argstr, retS := cm[1], cm[2], cm[3]
		if (name == "openat" || name == "open") && strings.Contains(argstr, markerHex.String()) {
			tr.begin = len(tr.ops)
			continue
		}
		ret, err := strconv.ParseInt(retS, 10, 64)
		if err != nil || ret < 0 {
			continue // failed / restarted call: no effect on the directory
		}
		args := splitArgs(argstr)
		pathAt := func(dirIdx, pIdx int) (abs string, rel string, in bool, ok bool) {
			if pIdx >= len(args) {
				return "", "", false, false
			}
			pb, sok := strArg(args[pIdx])
			if !sok {
				return "", "", false, false
			}
			dirfd := "AT_FDCWD"
			if dirIdx >= 0 {
				dirfd = args[dirIdx]
			}
			abs, ok = resolve(dirfd, string(pb))
			if !ok {
				return "", "", false, false
			}
			rel, in = under(abs)
			return abs, rel, in, true
		}
		bad := func(why string) { tr.unreplayable = append(tr.unreplayable, name+": "+why) }
		switch name {
		case "open", "openat", "creat":
			di, pi, fi := -1, 0, 1
			if name == "openat" {
				di, pi, fi = 0, 1, 2
			}
			abs, rel, in, ok := pathAt(di, pi)
			if !ok {
				bad("unresolvable path")
				continue
			}
			fdPath[int(ret)] = abs
			if !in {
				continue
			}
			flags := "O_WRONLY|O_CREAT|O_TRUNC"
			if name != "creat" && fi < len(args) {
				flags = args[fi]
			}
			tr.ops = append(tr.ops, fileOp{kind: "open", path: rel, fd: int(ret), flags: flags, raw: name})
		case "close":
			n, _ := strconv.Atoi(args[0])
			if abs, ok := fdPath[n]; ok {
				if rel, in := under(abs); in {
					tr.ops = append(tr.ops, fileOp{kind: "close", path: rel, fd: n, raw: name})
				}
				delete(fdPath, n)
			}
		case "write", "pwrite64":
			n, _ := strconv.Atoi(args[0])
			abs, ok := fdPath[n]
			if !ok {
				continue // socket, pipe, stdout
			}
			rel, in := under(abs)
			if !in {
				continue
			}
			data, sok := strArg(args[1])
			if !sok || int64(len(data)) < ret {
				bad("write data truncated in trace")
				continue
			}
			op := fileOp{kind: "write", path: rel, fd: n, data: data[:ret], raw: name}
			if name == "pwrite64" {
				op.kind = "pwrite"
				op.off, _ = strconv.ParseInt(args[3], 10, 64)
			}
			tr.ops = append(tr.ops, op)
		case "rename", "renameat", "renameat2":
			var rel1, rel2 string
			var in1, in2, ok1, ok2 bool
			if name == "rename" {
				_, rel1, in1, ok1 = pathAt(-1, 0)
				_, rel2, in2, ok2 = pathAt(-1, 1)
			} else {
				_, rel1, in1, ok1 = pathAt(0, 1)
				_, rel2, in2, ok2 = pathAt(2, 3)
			}
			if !ok1 || !ok2 {
				bad("unresolvable path")
				continue
			}
			if !in1 && !in2 {
				continue
			}
			if in1 != in2 {
				bad("rename across the cache directory boundary")
				continue
			}
			if name == "renameat2" && len(args) > 4 && args[4] != "0" && args[4] != "RENAME_NOREPLACE" {
				bad("renameat2 flags " + args[4])
				continue
			}
			tr.ops = append(tr.ops, fileOp{kind: "rename", path: rel1, path2: rel2, raw: name})
		case "unlink", "unlinkat", "rmdir":
			di, pi := -1, 0
			if name == "unlinkat" {
				di, pi = 0, 1
			}
			_, rel, in, ok := pathAt(di, pi)
			if !ok {
				bad("unresolvable path")
				continue
			}
			if in {
				tr.ops = append(tr.ops, fileOp{kind: "unlink", path: rel, raw: name})
			}
		case "mkdir", "mkdirat":
			di, pi := -1, 0
			if name == "mkdirat" {
				di, pi = 0, 1
			}
			_, rel, in, ok := pathAt(di, pi)
			if !ok {
				bad("unresolvable path")
				continue
			}
			if in {
				tr.ops = append(tr.ops, fileOp{kind: "mkdir", path: rel, raw: name})
			}
		case "ftruncate":
			n, _ := strconv.Atoi(args[0])
			if abs, ok := fdPath[n]; ok {
				if rel, in := under(abs); in {
					l, _ := strconv.ParseInt(args[1], 10, 64)
					tr.ops = append(tr.ops, fileOp{kind: "ftruncate", path: rel, fd: n, length: l, raw: name})
				}
			}
		case "truncate":
			_, rel, in, ok := pathAt(-1, 0)
			if !ok {
				bad("unresolvable path")
				continue
			}
			if in {
				l, _ := strconv.ParseInt(args[1], 10, 64)
				tr.ops = append(tr.ops, fileOp{kind: "truncate", path: rel, length: l, raw: name})
			}
		case "fsync", "fdatasync":
			n, _ := strconv.Atoi(args[0])
			if abs, ok := fdPath[n]; ok {
				if rel, in := under(abs); in {
					tr.fsyncs++
					tr.ops = append(tr.ops, fileOp{kind: "fsync", path: rel, fd: n, raw: name})
				}
			}
		case "dup", "dup2", "dup3":
			n, _ := strconv.Atoi(args[0])
			if abs, ok := fdPath[n]; ok {
				if _, in := under(abs); in {
					bad("dup of a cache file descriptor")
				}
				fdPath[int(ret)] = abs
			}
		case "writev", "pwritev", "pwritev2", "fallocate", "copy_file_range", "sendfile":
			// first or second argument is the destination fd
			idx := 0
			if name == "sendfile" {
				idx = 0
			} else if name == "copy_file_range" {
				idx = 2
			}
			n, _ := strconv.Atoi(args[idx])
			if abs, ok := fdPath[n]; ok {
				if _, in := under(abs); in {
					bad("not modelled")
				}
			}
		case "link", "linkat", "symlink", "symlinkat":
			// any string argument under base makes the trace unreplayable
			for _, a := range args {
				if pb, ok := strArg(a); ok && filepath.IsAbs(string(pb)) {
					if _, in := under(filepath.Clean(string(pb))); in {
						bad("not modelled")
						break
					}
				}
			}
		}
	}
	return tr
}

// replayer applies fileOps to a model.
type replayer struct {
	m      *fsModel
	fdOff  map[int]int64
	fdPath map[int]string
	fdApp  map[int]bool
}

func newReplayer(m *fsModel) *replayer {
	return &replayer{m: m, fdOff: map[int]int64{}, fdPath: map[int]string{}, fdApp: map[int]bool{}}
}

func writeAt(old []byte, off int64, data []byte) []byte {
	n := int64(len(old))
	end := off + int64(len(data))
	if end < n {
		end = n
	}
	nb := make([]byte, end)
	copy(nb, old)
	copy(nb[off:], data)
	return nb
}

// apply applies op; for write ops only the first cut bytes (cut<0: all).
func (r *replayer) apply(op fileOp, cut int) {
	switch op.kind {
	case "mkdir":
		r.m.dirs[op.path] = true
	case "open":
		if r.m.dirs[op.path] {
			return // directory handle
		}
		_, exists := r.m.files[op.path]
		if !exists && strings.Contains(op.flags, "O_CREAT") {
			r.m.files[op.path] = []byte{}
			exists = true
		}
		if exists && strings.Contains(op.flags, "O_TRUNC") && (strings.Contains(op.flags, "O_WRONLY") || strings.Contains(op.flags, "O_RDWR")) {
			r.m.files[op.path] = []byte{}
		}
		r.fdPath[op.fd] = op.path
		r.fdOff[op.fd] = 0
		r.fdApp[op.fd] = strings.Contains(op.flags, "O_APPEND")
	case "close":
		delete(r.fdPath, op.fd)
		delete(r.fdOff, op.fd)
		delete(r.fdApp, op.fd)
	case "write", "pwrite":
		p, ok := r.fdPath[op.fd]
		if !ok {
			return
		}
		data := op.data
		if cut >= 0 && cut < len(data) {
			data = data[:cut]
		}
		off := r.fdOff[op.fd]
		if op.kind == "pwrite" {
			off = op.off
		} else if r.fdApp[op.fd] {
			off = int64(len(r.m.files[p]))
		}
		r.m.files[p] = writeAt(r.m.files[p], off, data)
		if op.kind == "write" {
			r.fdOff[op.fd] = off + int64(len(data))
		}
	case "rename":
		if b, ok := r.m.files[op.path]; ok {
			delete(r.m.files, op.path)
			r.m.files[op.path2] = b
			for fd, p := range r.fdPath {
				if p == op.path {
					r.fdPath[fd] = op.path2
				}
			}
		}
	case "unlink":
		delete(r.m.files, op.path)
		delete(r.m.dirs, op.path)
	case "ftruncate", "truncate":
		p := op.path
		if b, ok := r.m.files[p]; ok {
			if int64(len(b)) > op.length {
				r.m.files[p] = append([]byte(nil), b[:op.length]...)
			} else {
				r.m.files[p] = writeAt(b, op.length, nil)
			}
		}
	case "fsync":
	}
}

// ------------------------------------------------------------------ the case

var versionFileRe = regexp.MustCompile(`^autoconf-(\d+)\.json$`)
var stampRe = regexp.MustCompile(`autoconf-\d+`)

type version struct {
	body []byte
	cfg  *autoconf.Config
}

func run(c *vlib.Ctx) {
	c.Rule("scenario = (0..3 earlier successful updates by the real client, cache files re-stamped to older seconds) x (ETag / Last-Modified / both / none) x cache size 1..3 x generated valid payloads (120-2500 bytes, compact or indented, optional trailing whitespace) x kind {update, update within the same second as the previous one, 304 not-modified}; the last update runs in a strace-d grand-child, its file operations on the cache directory are replayed prefix by prefix with every write cut at every byte; distinct = FNV of scenario + normalised traced operation list; non-trivial = at least one earlier update, the trace contains a cache-version file write of >= 2 bytes, and replaying the complete trace reproduces the real post-update directory byte for byte")
	if _, err := exec.LookPath("strace"); err != nil {
		c.Note("strace", "not found: "+err.Error())
		return
	}
	c.Cases("update", c.N(24, 120), func(k *vlib.Case) { oneCase(k, "update") })
	c.Cases("first", c.N(4, 24), func(k *vlib.Case) { oneCase(k, "first") })
	c.Cases("notmod", c.N(4, 24), func(k *vlib.Case) { oneCase(k, "notmod") })
	c.Cases("samesec", c.N(8, 32), func(k *vlib.Case) { oneCase(k, "samesec") })
}

func oneCase(k *vlib.Case, kind string) {
	r := k.R
	c := k.C
	earlier := r.Range(1, 3)
	if kind == "first" {
		earlier = 0
	}
	hdr := r.Intn(4) // 0 none 1 etag 2 last-modified 3 both
	if kind == "notmod" && hdr == 0 {
		hdr = 1 + r.Intn(3)
	}
	cacheSize := r.Range(1, 3)
	k.Logf("scenario kind=%s earlier_updates=%d headers=%s cache_size=%d", kind, earlier, []string{"none", "etag", "last-modified", "etag+last-modified"}[hdr], cacheSize)

	base := c.TempDir("c45-")
	defer os.RemoveAll(base)
	cacheBase := filepath.Join(base, "cache")
	org := newOrigin()
	defer org.srv.Close()
	url := org.srv.URL + "/autoconf.json"

	mkServed := func(i int, body []byte) served {
		s := served{body: body}
		if hdr&1 != 0 {
			s.etag = fmt.Sprintf(`"v%d"`, i)
		}
		if hdr&2 != 0 {
			s.lastMod = time.Date(2020, 1, 1+i, 0, 0, 0, 0, time.UTC).Format(http.TimeFormat)
		}
		return s
	}

	// ---- earlier successful updates, in-process, one fresh client each
	var versions []version
	restamped := map[string]bool{}
	var hashDir string
	var sameSecFile string
	for i := 0; i < earlier; i++ {
		body, cfg := genPayload(r, int64(2025000000+i))
		versions = append(versions, version{body, cfg})
		k.Logf("earlier update %d: payload %d bytes, AutoConfVersion=%d", i, len(body), cfg.AutoConfVersion)
		org.set(mkServed(i, body))
		last := i == earlier-1
		cl, err := newClient(cacheBase, url, cacheSize)
		if err != nil {
			panic(err)
		}
		resp, err := cl.GetLatest(context.Background())
		if err != nil {
			panic(fmt.Sprintf("harness: earlier update failed: %v", err))
		}
		if resp.Config == nil || resp.Config.AutoConfVersion != cfg.AutoConfVersion || org.lastHit() != "200" {
			panic(fmt.Sprintf("harness: earlier update %d did not fetch the served payload (hit=%s)", i, org.lastHit()))
		}
		// emulate elapsed time: version file -> older second, last refresh -> 2001
		ents, _ := os.ReadDir(cacheBase)
		if len(ents) != 1 {
			panic("harness: expected exactly one hashed cache dir")
		}
		hashDir = ents[0].Name()
		files, _ := os.ReadDir(filepath.Join(cacheBase, hashDir))
		fresh := ""
		for _, f := range files {
			if versionFileRe.MatchString(f.Name()) && !restamped[f.Name()] {
				if fresh != "" {
					panic("harness: two un-restamped version files")
				}
				fresh = f.Name()
			}
		}
		if fresh == "" {
			panic("harness: update wrote no version file")
		}
		nn := fmt.Sprintf("autoconf-%d.json", 1000000000+1000*(i+1))
		if kind == "samesec" && last {
			// scheduling only (never part of the oracle): the traced child re-stamps
			// this file to the next wall-clock second and runs its update within that
			// second, i.e. "two updates within one second".
			sameSecFile = filepath.Join(cacheBase, hashDir, nn)
		} else {
			restamped[nn] = true
		}
		if err := os.Rename(filepath.Join(cacheBase, hashDir, fresh), filepath.Join(cacheBase, hashDir, nn)); err != nil {
			panic(err)
		}
		// cleanup may have removed older restamped names
		for n := range restamped {
			if _, err := os.Stat(filepath.Join(cacheBase, hashDir, n)); err != nil {
				delete(restamped, n)
			}
		}
		old := time.Date(2001, 9, 9, 1, 46, 40+i, 0, time.UTC).Format(time.RFC3339)
		if err := os.WriteFile(filepath.Join(cacheBase, hashDir, ".last-refresh"), []byte(old), 0o600); err != nil {
			panic(err)
		}
	}

	// ---- pre-state and its cached read
	pre := readTree(cacheBase)
	var prev *autoconf.Config
	if earlier > 0 {
		prev = versions[earlier-1].cfg
		cl, _ := newClient(cacheBase, url, cacheSize)
		got := cl.GetCached()
		if !reflect.DeepEqual(got, prev) {
			k.Fail("complete-state/not-newest", "cached read of a complete cache returns the newest fetched version",
				fmt.Sprintf("AutoConfVersion=%d", prev.AutoConfVersion), describe(got, versions))
		}
	}

	// ---- the traced update
	var newV *version
	if kind == "notmod" {
		k.Logf("traced update: origin answers 304 Not Modified")
	} else {
		body, cfg := genPayload(r, int64(2025000000+earlier))
		newV = &version{body, cfg}
		versions = append(versions, *newV)
		org.set(mkServed(earlier, body))
		k.Logf("traced update: payload %d bytes, AutoConfVersion=%d", len(body), cfg.AutoConfVersion)
	}
	tracePath := filepath.Join(base, "trace.txt")
	exe, err := os.Executable()
	if err != nil {
		panic(err)
	}
	argJSON, _ := json.Marshal(childArgs{CacheDir: cacheBase, URL: url, CacheSize: cacheSize, SameSecFile: sameSecFile})
	cmd := exec.Command("strace", "-f", "-qq", "-xx", "-s", "16777216", "-e", "signal=none", "-e", "trace="+traceCalls, "-o", tracePath, exe)
	cmd.Dir = base
	cmd.Env = append(os.Environ(), "VERIF_C45_CHILD="+string(argJSON))
	var out bytes.Buffer
	cmd.Stdout, cmd.Stderr = &out, &out
	var runErr error
	if !vlib.Guard(k, "traced-update", 120*time.Second, func() { runErr = cmd.Run() }) {
		return
	}
	if runErr != nil || !strings.HasPrefix(out.String(), "OK ") {
		c.Inconclusive(1)
		c.Note("traced_child_failure", fmt.Sprintf("%v: %s", runErr, firstN(out.String(), 300)))
		return
	}
	wantHit := "200"
	if kind == "notmod" {
		wantHit = "304"
	}
	if org.lastHit() != wantHit {
		panic(fmt.Sprintf("harness: traced update got HTTP %s, scenario wants %s (%s)", org.lastHit(), wantHit, out.String()))
	}
	traceText, err := os.ReadFile(tracePath)
	if err != nil {
		panic(err)
	}
	tr := parseTrace(string(traceText), cacheBase, base)
	post := readTree(cacheBase)
	if tr.begin < 0 {
		c.Inconclusive(1)
		c.Note("begin_marker", "the begin marker of the traced child was not found in the trace")
		return
	}
	if tr.begin > 0 {
		// preparatory operations of the harness child itself (same-second re-stamp)
		setup := newReplayer(pre.clone())
		for _, op := range tr.ops[:tr.begin] {
			setup.apply(op, -1)
			if op.kind == "rename" {
				k.Logf("before the update (harness child): newest earlier version re-stamped to the coming second")
			}
		}
		pre = setup.m
		tr.ops = tr.ops[tr.begin:]
	}
	c.Count("trace_lines", int64(tr.lines))
	c.Count("traced_file_ops", int64(len(tr.ops)))
	c.Count("traced_fsyncs", int64(tr.fsyncs))

	// normalised op list (names carry wall-clock seconds and a port-dependent hash)
	if hashDir == "" {
		for d := range post.dirs {
			if !strings.Contains(d, "/") {
				hashDir = d
			}
		}
	}
	norm := func(p string) string {
		if hashDir != "" {
			p = strings.Replace(p, hashDir, "<H>", 1)
		}
		return stampRe.ReplaceAllStringFunc(p, func(m string) string {
			if restamped[m+".json"] {
				return m
			}
			return "autoconf-<NOW>"
		})
	}
	overwriteInPlace := false // an existing version file is truncated in place
	replacesExisting := false // ... or replaced by a rename
	versionWriteBytes := 0
	for _, op := range tr.ops {
		switch op.kind {
		case "open":
			_, existed := pre.files[op.path]
			if existed && strings.Contains(op.flags, "O_TRUNC") && versionFileRe.MatchString(filepath.Base(op.path)) {
				overwriteInPlace = true
				replacesExisting = true
			}
			if strings.Contains(op.flags, "O_WRONLY") || strings.Contains(op.flags, "O_RDWR") || strings.Contains(op.flags, "O_CREAT") {
				k.Logf("op %s(%s, %s) = fd%d%s", op.raw, norm(op.path), op.flags, op.fd, map[bool]string{true: "  [existing file]", false: ""}[existed])
			}
		case "write", "pwrite":
			k.Logf("op %s(fd%d -> %s, %d bytes)", op.raw, op.fd, norm(op.path), len(op.data))
			if strings.Contains(filepath.Base(op.path), "autoconf-") && len(op.data) > versionWriteBytes {
				versionWriteBytes = len(op.data)
			}
		case "rename":
			_, existed := pre.files[op.path2]
			if existed && versionFileRe.MatchString(filepath.Base(op.path2)) {
				replacesExisting = true
			}
			k.Logf("op %s(%s -> %s)%s", op.raw, norm(op.path), norm(op.path2), map[bool]string{true: "  [existing file]", false: ""}[existed])
		case "unlink", "mkdir", "truncate", "ftruncate", "fsync":
			k.Logf("op %s(%s)", op.raw, norm(op.path))
		}
	}
	if len(tr.unreplayable) > 0 {
		c.Inconclusive(1)
		c.Note("unreplayable_trace", strings.Join(tr.unreplayable, "; "))
		return
	}
	// fidelity: the complete replay must reproduce the real post-update directory
	full := newReplayer(pre.clone())
	for _, op := range tr.ops {
		full.apply(op, -1)
	}
	if ok, why := full.m.equal(post); !ok {
		c.Inconclusive(1)
		c.Count("replay_fidelity_failures", 1)
		c.Note("replay_fidelity", why)
		k.Logf("replay of the complete trace does not reproduce the real directory: %s", why)
		return
	}
	c.Count("replay_fidelity_ok", 1)
	if kind == "samesec" {
		if replacesExisting {
			c.Count("samesec_hit_same_second", 1)
		} else {
			c.Count("samesec_missed_same_second", 1)
		}
	}

	// ---- enumerate crash states
	type agg struct {
		n      int
		first  string
		clause string
		exp    string
	}
	fails := map[string]*agg{}
	var order []string
	report := func(class, clause, exp, obs string) {
		a := fails[class]
		if a == nil {
			a = &agg{first: obs, clause: clause, exp: exp}
			fails[class] = a
			order = append(order, class)
		}
		a.n++
	}
	stateNo := 0
	outcomes := map[string]int{}
	// The state directory: built from scratch for the first state and for every
	// state that follows a completed traced operation; between the byte cuts of
	// one write only the files that differ are rewritten. Every 61st state the
	// directory is read back and compared with the model.
	var dir string
	var onDisk *fsModel
	eval := func(m *fsModel, where string, complete bool, fresh bool) {
		stateNo++
		if fresh || onDisk == nil {
			if dir != "" {
				os.RemoveAll(dir)
			}
			dir = filepath.Join(base, "replay", strconv.Itoa(stateNo))
			m.materialize(dir)
			c.Count("state_dirs_built_from_scratch", 1)
		} else {
			syncDir(dir, onDisk, m)
		}
		onDisk = m.clone()
		if stateNo%61 == 0 {
			if ok, why := readTree(dir).equal(m); !ok {
				panic("harness: state directory out of sync with the model: " + why)
			}
			c.Count("state_dir_readback_checks", 1)
		}
		cl, err := newClient(dir, url, cacheSize)
		if err != nil {
			panic(err)
		}
		got := cl.GetCached()
		c.Count("crash_states_evaluated", 1)

		// the harness's own view of the state: which version files are complete
		// copies of a fetched payload
		type vf struct {
			name string
			idx  int // index into versions, -1 = not a complete fetched payload
			size int
		}
		var vfs []vf
		for p, b := range m.files {
			bn := filepath.Base(p)
			if !(strings.HasSuffix(bn, ".json") && strings.Contains(bn, "autoconf-")) {
				continue
			}
			idx := -1
			for i, v := range versions {
				if bytes.Equal(v.body, b) {
					idx = i
				}
			}
			vfs = append(vfs, vf{bn, idx, len(b)})
		}
		sort.Slice(vfs, func(i, j int) bool { return vfs[i].name > vfs[j].name })
		validExists := false
		var listing []string
		for _, f := range vfs {
			if f.idx >= 0 {
				validExists = true
				listing = append(listing, fmt.Sprintf("%s=complete v%d (%dB)", norm(f.name), versions[f.idx].cfg.AutoConfVersion, f.size))
			} else {
				listing = append(listing, fmt.Sprintf("%s=INCOMPLETE (%dB)", norm(f.name), f.size))
			}
		}
		obsState := fmt.Sprintf("crash %s; cache dir: [%s]; GetCached() -> %s", where, strings.Join(listing, ", "), describe(got, versions))
		isFallback := got != nil && got.AutoConfVersion == sentinelVersion
		gotIdx := -1
		for i, v := range versions {
			if reflect.DeepEqual(got, v.cfg) {
				gotIdx = i
			}
		}
		newIdx := -1
		if newV != nil {
			newIdx = len(versions) - 1
		}
		prevIdx := earlier - 1
		switch {
		case got == nil:
			outcomes["nil"]++
			report("nil-config", "cached read returns a configuration", "non-nil *Config", obsState)
		case isFallback && validExists:
			outcomes["fallback-while-valid"]++
			cl := "fallback-with-valid-newest"
			if len(vfs) > 0 && vfs[0].idx < 0 {
				cl = "truncated-newest/fallback"
				if !versionFileRe.MatchString(vfs[0].name) {
					// the incomplete file that sorts first is not a version file written
					// under its final name (e.g. a temporary file that the reader lists)
					cl = "stray-file-shadows-cache/fallback"
				}
			}
			report(cl, "never the fallback while a valid cached version exists", "a previously fetched version (new or newest earlier)", obsState)
		case isFallback && earlier > 0:
			outcomes["fallback-all-lost"]++
			how := "other"
			if overwriteInPlace {
				how = "overwrite-in-place"
			}
			report("valid-versions-lost/"+how, "the update never destroys the last valid cached version before the new one is complete",
				fmt.Sprintf("AutoConfVersion=%d (newest earlier) or the new one", versions[prevIdx].cfg.AutoConfVersion), obsState)
		case isFallback:
			outcomes["fallback-nothing-cached"]++ // first update ever: nothing else to return
		case gotIdx < 0:
			outcomes["corrupt"]++
			report("corrupt-config", "never a corrupt configuration (must deep-equal a fetched and validated one)", "one of the fetched configurations", obsState)
		case gotIdx == newIdx:
			outcomes["new"]++
		case gotIdx == prevIdx:
			outcomes["newest-earlier"]++
			if complete && newV != nil {
				report("complete-update/not-newest", "after the complete update the cached read returns the new version",
					fmt.Sprintf("AutoConfVersion=%d", newV.cfg.AutoConfVersion), obsState)
			}
		default:
			outcomes["older"]++
			cl := "stale-version"
			if overwriteInPlace {
				cl = "newest-earlier-lost/overwrite-in-place"
			}
			report(cl, "the new one or the newest earlier one", fmt.Sprintf("AutoConfVersion=%d or the new one", versions[prevIdx].cfg.AutoConfVersion), obsState)
		}
	}

	rp := newReplayer(pre.clone())
	eval(rp.m, "before the first traced operation", false, true)
	for i, op := range tr.ops {
		if op.kind == "write" || op.kind == "pwrite" {
			// every strict byte prefix of the write (0 bytes == state before it)
			for cut := 1; cut < len(op.data); cut++ {
				st := &replayer{m: rp.m.clone(), fdOff: cloneI64(rp.fdOff), fdPath: cloneStr(rp.fdPath), fdApp: rp.fdApp}
				st.apply(op, cut)
				eval(st.m, fmt.Sprintf("inside op %d %s(%s) after %d of %d bytes", i, op.raw, norm(op.path), cut, len(op.data)), false, false)
			}
			c.Count("write_cut_points", int64(len(op.data)))
		}
		rp.apply(op, -1)
		if op.kind == "close" || op.kind == "fsync" {
			continue // no change of directory contents
		}
		eval(rp.m, fmt.Sprintf("after op %d %s(%s)", i, op.raw, norm(op.path)), false, true)
	}
	// the completed update itself
	eval(rp.m, "none (update completed)", true, true)

	var oc []string
	for o, n := range outcomes {
		oc = append(oc, fmt.Sprintf("%s=%d", o, n))
		c.Count("outcome_"+o, int64(n))
	}
	sort.Strings(oc)
	k.Logf("observed: %d crash states (%d traced ops on the cache dir); GetCached() outcomes: %s", stateNo, len(tr.ops), strings.Join(oc, " "))
	for _, class := range order {
		a := fails[class]
		k.Fail(class, a.clause, a.exp, fmt.Sprintf("%d of %d crash states; first: %s", a.n, stateNo, a.first))
		c.Count("violating_states_"+class, int64(a.n))
	}
	if earlier > 0 && versionWriteBytes >= 2 {
		k.Nontrivial()
	}
	c.Max("max_crash_states_per_case", int64(stateNo))
}

// syncDir rewrites exactly the files that differ between two models.
func syncDir(dir string, from, to *fsModel) {
	for d := range to.dirs {
		if !from.dirs[d] {
			if err := os.MkdirAll(filepath.Join(dir, d), 0o755); err != nil {
				panic(err)
			}
		}
	}
	for f, b := range to.files {
		if ob, ok := from.files[f]; !ok || !bytes.Equal(ob, b) {
			// unlink + create instead of truncate-in-place: ext4 (auto_da_alloc)
			// flushes synchronously when a truncated file is rewritten and closed
			os.Remove(filepath.Join(dir, f))
			if err := os.WriteFile(filepath.Join(dir, f), b, 0o600); err != nil {
				panic(err)
			}
		}
	}
	for f := range from.files {
		if _, ok := to.files[f]; !ok {
			os.Remove(filepath.Join(dir, f))
		}
	}
	for d := range from.dirs {
		if !to.dirs[d] {
			os.Remove(filepath.Join(dir, d))
		}
	}
}

func cloneI64(m map[int]int64) map[int]int64 {
	n := map[int]int64{}
	for k, v := range m {
		n[k] = v
	}
	return n
}

func cloneStr(m map[int]string) map[int]string {
	n := map[int]string{}
	for k, v := range m {
		n[k] = v
	}
	return n
}

func describe(got *autoconf.Config, versions []version) string {
	if got == nil {
		return "nil"
	}
	if got.AutoConfVersion == sentinelVersion {
		return "FALLBACK"
	}
	for _, v := range versions {
		if reflect.DeepEqual(got, v.cfg) {
			return fmt.Sprintf("fetched config AutoConfVersion=%d", v.cfg.AutoConfVersion)
		}
	}
	b, _ := json.Marshal(got)
	return "config equal to no fetched one: " + firstN(string(b), 400)
}

func firstN(s string, n int) string {
	if len(s) > n {
		return s[:n] + "…"
	}
	return s
}
