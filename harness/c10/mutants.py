import os
src=open('/repo/ipld/unixfs/mod/dagmodifier.go').read()
def rep(s,old,new):
    assert s.count(old)==1,(old,s.count(old)); return s.replace(old,new)
muts={
 'm1-truncate-extra-byte': lambda s: rep(s,'	nnode, err := dm.dagTruncate(dm.ctx, dm.curNode, uint64(size))','	if size+1 < realSize {\n		size++\n	}\n	nnode, err := dm.dagTruncate(dm.ctx, dm.curNode, uint64(size))'),
 'm2-flush-at-curwroff': lambda s: rep(s,'thisc, err := dm.modifyDag(dm.curNode, dm.writeStart)','thisc, err := dm.modifyDag(dm.curNode, dm.curWrOff)'),
 'm3-multileaf-offset': lambda s: rep(s,'			offset = cur + bs\n','			offset = cur + bs - 1\n'),
 'm4-size-ignores-buffer': lambda s: rep(s,'	return max(int64(fileSize), int64(dm.wrBuf.Len())+int64(dm.writeStart)), nil','	return int64(fileSize), nil'),
 'm5-runstart-equal-len': lambda s: rep(s,'if len(b) >= dm.wrBuf.Len() {','if len(b) > dm.wrBuf.Len() {'),
 'm6-expand-no-curnode': lambda s: rep(s,'	dm.curNode = nnode\n	return nil\n}\n\n// Write continues','	return nil\n}\n\n// Write continues'),
 'm7-truncate-blocksize': lambda s: rep(s,'			ndata.AddBlockSize(size - cur)\n','			ndata.AddBlockSize(childsize)\n'),
 'm8-sync-no-advance': lambda s: rep(s,'	dm.writeStart += uint64(buflen)\n','	_ = buflen\n'),
 'm9-rawleaf-tail': lambda s: rep(s,'			if int(offsetPlusN) < len(origData) {','			if int(offsetPlusN) < len(origData) && offset > 0 {'),
}
for n,f in muts.items():
    os.makedirs(n,exist_ok=True)
    open(f'{n}/dagmodifier.go','w').write(f(src))
    open(f'{n}/ov.json','w').write('{"Replace":{"/repo/ipld/unixfs/mod/dagmodifier.go":"/verif/.work/c10-mut/%s/dagmodifier.go"}}'%n)
print(list(muts))
