// C15: UnixFS directories (BasicDirectory, HAMTDirectory, DynamicDirectory) are
// driven in lock-step with a map model name -> (CID, Tsize) over generated
// add/replace/remove histories. After every mutation every pool name is looked
// up with Find and the three enumeration APIs (Links, ForEachLink,
// EnumLinksAsync) are compared, as multisets, with the model. Every few
// operations the directory is serialised (GetNode), its root is stored and
// the history continues on the object reloaded from that root.
package main

import (
	"context"
	"errors"
	"fmt"
	"math/bits"
	"os"
	"sort"
	"strconv"
	"strings"
	"time"

	dag "github.com/ipfs/boxo/ipld/merkledag"
	mdtest "github.com/ipfs/boxo/ipld/merkledag/test"
	ft "github.com/ipfs/boxo/ipld/unixfs"
	uio "github.com/ipfs/boxo/ipld/unixfs/io"
	cid "github.com/ipfs/go-cid"
	ipld "github.com/ipfs/go-ipld-format"
	mh "github.com/multiformats/go-multihash"
	"github.com/spaolacci/murmur3"

	"verif/vlib"
)

// ---------------------------------------------------------------- name pool

type cand struct {
	h    uint64
	name string
}

var cands []cand       // sorted by murmur3-64 of the name (the HAMT consumes the hash MSB first)
var deepPairs [][2]int // indices i (pair i,i+1) sharing >= 30 leading hash bits

func hashOf(name string) uint64 { return murmur3.Sum64([]byte(name)) }

func initCands() {
	const n = 1 << 19
	cands = make([]cand, n)
	for i := 0; i < n; i++ {
		s := "f" + strconv.FormatInt(int64(i), 36)
		cands[i] = cand{hashOf(s), s}
	}
	sort.Slice(cands, func(i, j int) bool { return cands[i].h < cands[j].h })
	for i := 0; i+1 < n; i++ {
		if bits.LeadingZeros64(cands[i].h^cands[i+1].h) >= 30 {
			deepPairs = append(deepPairs, [2]int{i, i + 1})
		}
	}
}

// group returns g candidate names whose hashes share at least p leading bits.
func group(r *vlib.Rand, g, p int) []string {
	for try := 0; try < 64; try++ {
		i := r.Intn(len(cands) - g)
		for j := 0; j < 4096 && i+g-1 < len(cands); j, i = j+1, i+1 {
			if cands[i].h>>(64-uint(p)) == cands[i+g-1].h>>(64-uint(p)) {
				out := make([]string, g)
				for x := 0; x < g; x++ {
					out[x] = cands[i+x].name
				}
				return out
			}
		}
	}
	return nil
}

func sharedBits(a, b string) int { return bits.LeadingZeros64(hashOf(a) ^ hashOf(b)) }

// ---------------------------------------------------------------- children

type child struct {
	nd   ipld.Node
	c    cid.Cid
	size uint64
	desc string
}

func mkChildren(r *vlib.Rand, ds ipld.DAGService) []child {
	ctx := context.Background()
	var out []child
	add := func(desc string, nd ipld.Node) {
		sz, err := nd.Size()
		if err != nil {
			panic(err)
		}
		if err := ds.Add(ctx, nd); err != nil {
			panic(err)
		}
		out = append(out, child{nd, nd.Cid(), sz, desc})
	}
	p0 := dag.NodeWithData(r.Bytes(r.Range(0, 40)))
	add("pb-v0", p0)
	p1 := dag.NodeWithData(r.Bytes(r.Range(1, 300)))
	p1.SetCidBuilder(cid.V1Builder{Codec: cid.DagProtobuf, MhType: mh.SHA2_256})
	add("pb-v1", p1)
	add("raw-sha256", dag.NewRawNode(r.Bytes(r.Range(1, 50))))
	idn, err := dag.NewRawNodeWPrefix(r.Bytes(r.Range(0, 12)), cid.V1Builder{Codec: cid.Raw, MhType: mh.IDENTITY})
	if err != nil {
		panic(err)
	}
	add("raw-identity", idn)
	s512, err := dag.NewRawNodeWPrefix(r.Bytes(r.Range(1, 30)), cid.V1Builder{Codec: cid.Raw, MhType: mh.SHA2_512})
	if err != nil {
		panic(err)
	}
	add("raw-sha512", s512)
	big := dag.NodeWithData(r.Bytes(4))
	if err := big.AddRawLink("x", &ipld.Link{Cid: p0.Cid(), Size: uint64(1) << uint(r.Range(20, 50))}); err != nil {
		panic(err)
	}
	add("pb-bigtsize", big)
	return out
}

// ---------------------------------------------------------------- config

type config struct {
	kind     string // basic | hamt | dyn
	width    int
	maxLinks int
	mode     uio.SizeEstimationMode
	thresh   int
	perDir   bool // threshold set per directory (else through the global)
	viaGlob  bool // estimation mode and width through the package globals
	builder  cid.Builder
	fmode    os.FileMode
	mtime    time.Time
}

var widths = []int{8, 8, 8, 16, 32, 64, 128, 256, 512, 1024}

var modeNames = map[uio.SizeEstimationMode]string{uio.SizeEstimationLinks: "links", uio.SizeEstimationBlock: "block", uio.SizeEstimationDisabled: "disabled"}

func (cf *config) opts() []uio.DirectoryOption {
	var o []uio.DirectoryOption
	if cf.kind != "basic" && !cf.viaGlob {
		o = append(o, uio.WithMaxHAMTFanout(cf.width))
	}
	if cf.maxLinks > 0 {
		o = append(o, uio.WithMaxLinks(cf.maxLinks))
	}
	if cf.kind != "hamt" && !cf.viaGlob {
		o = append(o, uio.WithSizeEstimationMode(cf.mode))
	}
	if cf.builder != nil {
		o = append(o, uio.WithCidBuilder(cf.builder))
	}
	if cf.fmode != 0 || !cf.mtime.IsZero() {
		o = append(o, uio.WithStat(cf.fmode, cf.mtime))
	}
	return o
}

func main() { initCands(); vlib.Run("C15", run) }

func run(c *vlib.Ctx) {
	c.Rule("histories of 10-60 AddChild(add/replace)/RemoveChild(present/missing) over a pool of 9-14 names (murmur3-prefix collision groups 2-4 levels deep and one pair sharing >=30 hash bits, a 1-byte and a 300-byte name) x 6 child node forms, on pure Basic (maxLinks 0..8), pure HAMT (width 8..1024) and Dynamic directories (tiny global/per-directory thresholds, maxLinks 0..8, 3 estimation modes); after every op Find(each pool name)+Links+ForEachLink+EnumLinksAsync vs the map model; reload from GetNode() every 3-15 ops; stratum fault: pure/dynamic HAMT-backed directories (width 8/16) over a fault-injecting DAGService: 1/3 of the AddChild calls run with failing Add (failed call => model unchanged, live object and reloaded root compared with the model), then one sub-shard of the stored tree is made unreadable and EnumLinksAsync/Links/ForEachLink/Find run on cold copies (error or complete result required); distinct = FNV of config+op list; non-trivial = after a reload, a present name is removed from a HAMT-backed directory while another present name shares its first-level bucket (sub-shard collapse path)")
	// Strata. "dyn" has no MaxLinks; "dyn-ml" has MaxLinks but reloads only while
	// the directory is basic; "dyn-ml-reload" reloads at any time, which can
	// trigger the known finding hamt-reload-undercount/maxlinks-reached (a HAMT
	// loaded from its root counts root links, not entries). The first four
	// strata cannot reach it and stay fully checked.
	c.Cases("basic", c.N(200, 1500), func(k *vlib.Case) { oneHistory(k, "basic") })
	c.Cases("hamt", c.N(500, 4500), func(k *vlib.Case) { oneHistory(k, "hamt") })
	c.Cases("dyn", c.N(300, 2500), func(k *vlib.Case) { oneHistory(k, "dyn") })
	c.Cases("dyn-ml", c.N(250, 1800), func(k *vlib.Case) { oneHistory(k, "dyn-ml") })
	c.Cases("dyn-ml-reload", c.N(250, 1800), func(k *vlib.Case) { oneHistory(k, "dyn-ml-reload") })
	// fault: HAMT-backed directories over a DAG service with injected faults:
	// (a) Add fails during AddChild: the failed call must leave Links/Find/... of
	// the live object and of the root reloaded from GetNode() equal to the model
	// before the call; (b) Get/GetMany fails for one not-yet-loaded sub-shard of
	// a directory reloaded from its root: each enumeration API must report an
	// error or deliver the complete model set (never fewer entries with a nil error).
	c.Cases("fault", c.N(300, 3000), faultHistory)
}

type ent struct {
	c    cid.Cid
	size uint64
}

type world struct {
	k     *vlib.Case
	ctx   context.Context
	ds    ipld.DAGService
	cf    *config
	dir   uio.Directory
	model map[string]ent
	pool  []string
	// diverged: a mutating call had an outcome the model cannot follow
	diverged bool
	// under: number of entries a HAMTDirectory loaded from its root does not
	// count (NewHAMTDirectoryFromNode sets totalLinks = number of root links);
	// measured at reload time, 0 again once the directory is rebuilt.
	under int
	known int
	// cold: number of following operations whose result is verified on a
	// separately loaded copy instead of the live object
	cold int
}

func (w *world) fail(class, clause, exp, obs string) {
	w.diverged = true
	w.k.Fail(class, clause, exp, obs)
}

// knownUndercount recognises the known finding: a Dynamic directory with
// MaxLinks whose HAMT was loaded from its root while entries lived in
// sub-shards believes it has fewer entries than it has, tries to switch to a
// BasicDirectory and fails with "maxLinks reached". The operation has no
// effect, so the history continues with an unchanged model.
func (w *world) knownUndercount(err error, op string) bool {
	if err == nil || w.cf.kind != "dyn" || w.cf.maxLinks == 0 || w.under <= 0 || w.impl() != "hamt" {
		return false
	}
	if !strings.Contains(err.Error(), "maxLinks reached") {
		return false
	}
	w.known++
	w.k.Fail("hamt-reload-undercount/maxlinks-reached", op+" on a reloaded HAMT-backed Dynamic directory succeeds",
		"nil", fmt.Sprintf("%v (entries=%d, uncounted since reload=%d, maxLinks=%d)", err, len(w.model), w.under, w.cf.maxLinks))
	return true
}

func (w *world) impl() string {
	d := w.dir
	if dd, ok := d.(*uio.DynamicDirectory); ok {
		d = dd.Directory
	}
	switch d.(type) {
	case *uio.HAMTDirectory:
		return "hamt"
	case *uio.BasicDirectory:
		return "basic"
	}
	return "unknown"
}

func oneHistory(k *vlib.Case, stratum string) {
	r := k.R
	kind := stratum
	if strings.HasPrefix(stratum, "dyn") {
		kind = "dyn"
	}
	ctx := context.Background()
	ds := mdtest.Mock()

	cf := &config{kind: kind, width: vlib.Pick(r, widths)}
	switch stratum {
	case "dyn":
		cf.mode = uio.SizeEstimationMode(r.Intn(2)) // links | block
	case "dyn-ml", "dyn-ml-reload":
		cf.maxLinks = r.Range(1, 8)
		cf.mode = uio.SizeEstimationMode(r.Intn(3))
	default:
		if r.Chance(1, 2) {
			cf.maxLinks = r.Range(1, 8)
		}
		cf.mode = uio.SizeEstimationMode(r.Intn(3))
	}
	cf.thresh = r.Range(30, 700)
	cf.perDir = r.Bool()
	cf.viaGlob = r.Chance(1, 4)
	if r.Chance(1, 3) {
		cf.builder = cid.V1Builder{Codec: cid.DagProtobuf, MhType: mh.SHA2_256}
	}
	if r.Chance(1, 3) {
		cf.fmode = os.FileMode(r.Intn(0o1000))
	}
	if r.Chance(1, 3) {
		cf.mtime = time.Unix(int64(r.Intn(2000000000))-100000, int64(r.Intn(2))*int64(r.Intn(1000000000)))
	}

	// package globals: restored at the end of the case
	oldT, oldM, oldW := uio.HAMTShardingSize, uio.HAMTSizeEstimation, uio.DefaultShardWidth
	defer func() { uio.HAMTShardingSize, uio.HAMTSizeEstimation, uio.DefaultShardWidth = oldT, oldM, oldW }()
	if kind == "dyn" && !cf.perDir {
		uio.HAMTShardingSize = cf.thresh
	}
	if cf.viaGlob {
		uio.HAMTSizeEstimation = cf.mode
		uio.DefaultShardWidth = cf.width
	}
	k.Logf("config stratum=%s kind=%s width=%d maxLinks=%d mode=%s threshold=%d perDir=%v viaGlobals=%v cidv1=%v fmode=%o mtime=%d.%09d",
		stratum, kind, cf.width, cf.maxLinks, modeNames[cf.mode], cf.thresh, cf.perDir, cf.viaGlob, cf.builder != nil, cf.fmode, mtimeSec(cf.mtime), cf.mtime.Nanosecond())

	w := &world{k: k, ctx: ctx, ds: ds, cf: cf, model: map[string]ent{}}

	// name pool
	lg := bits.TrailingZeros(uint(cf.width))
	depth := r.Range(2, 4)
	if lg*depth > 22 {
		depth = 22 / lg
	}
	g1 := group(r, r.Range(2, 4), lg*depth)
	w.pool = append(w.pool, g1...)
	if g2 := group(r, 2, min(lg*(depth+1), 24)); g2 != nil {
		w.pool = append(w.pool, g2...)
	}
	dp := deepPairs[r.Intn(len(deepPairs))]
	w.pool = append(w.pool, cands[dp[0]].name, cands[dp[1]].name)
	w.pool = append(w.pool, string(rune('a'+r.Intn(26))), strings.Repeat(string(rune('A'+r.Intn(26))), 300), "x y", "é"+strconv.Itoa(r.Intn(1000)))
	for i := r.Intn(3); i > 0; i-- {
		w.pool = append(w.pool, "r"+strconv.Itoa(r.Intn(100000)))
	}
	seen := map[string]bool{}
	uniq := w.pool[:0]
	for _, n := range w.pool {
		if !seen[n] {
			seen[n] = true
			uniq = append(uniq, n)
		}
	}
	w.pool = uniq
	k.Logf("pool %s", describePool(w.pool))
	children := mkChildren(r, ds)

	// the directory
	var err error
	switch kind {
	case "basic":
		w.dir, err = uio.NewBasicDirectory(ds, cf.opts()...)
	case "hamt":
		w.dir, err = uio.NewHAMTDirectory(ds, 0, cf.opts()...)
	default:
		w.dir, err = uio.NewDirectory(ds, cf.opts()...)
		if err == nil && cf.perDir {
			w.dir.SetHAMTShardingSize(cf.thresh)
		}
	}
	if err != nil {
		w.fail("construct-error", "directory constructor succeeds", "nil", err.Error())
		return
	}

	n := r.Range(10, 60)
	nextReload := r.Range(3, 15)
	reloaded, sawHamt, nontriv := false, false, false
	ops := 0
	for i := 0; i < n && !w.diverged; i++ {
		if i == nextReload {
			nextReload += r.Range(3, 15)
			if stratum == "dyn-ml" && w.impl() != "basic" {
				continue // this stratum never reloads a HAMT (keeps the known finding out)
			}
			cold := r.Intn(4)
			k.Logf("reload (impl=%s entries=%d; next %d ops are verified on a separately loaded copy so the live object keeps unloaded shards)", w.impl(), len(w.model), cold)
			if !w.reload(cold) {
				break
			}
			reloaded = true
		}
		name := vlib.Pick(r, w.pool)
		_, present := w.model[name]
		// bias towards the operation that changes the set
		doRemove := r.Chance(2, 5)
		if present && r.Chance(1, 4) {
			doRemove = true
		}
		impl := w.impl()
		if impl == "hamt" {
			sawHamt = true
		}
		var err error
		completed := false
		if doRemove {
			k.Logf("RemoveChild %s (present=%v impl=%s)", short(name), present, impl)
			collided := false
			if present && impl == "hamt" {
				for o := range w.model {
					if o != name && sharedBits(o, name) >= lg {
						collided = true
					}
				}
			}
			if !vlib.Guard(k, "RemoveChild", 60*time.Second, func() { err = w.dir.RemoveChild(ctx, name); completed = true }) || !completed {
				w.diverged = true
				break
			}
			switch {
			case w.knownUndercount(err, "RemoveChild"):
				// nothing was removed; the model is unchanged
			case present && err != nil:
				w.fail("remove-present-error/"+impl, "RemoveChild(present) succeeds", "nil", err.Error())
			case !present && err == nil:
				w.fail("remove-missing-noerror/"+impl, "RemoveChild(missing) reports not-exist", "os.ErrNotExist", "nil")
			case !present && !errors.Is(err, os.ErrNotExist):
				w.fail("remove-missing-errclass/"+impl, "RemoveChild(missing) reports not-exist", "os.ErrNotExist", err.Error())
			case present:
				delete(w.model, name)
				if reloaded && collided {
					nontriv = true
				}
			}
		} else {
			ch := vlib.Pick(r, children)
			k.Logf("AddChild %s <- %s tsize=%d (present=%v impl=%s)", short(name), ch.desc, ch.size, present, impl)
			if !vlib.Guard(k, "AddChild", 60*time.Second, func() { err = w.dir.AddChild(ctx, name, ch.nd); completed = true }) || !completed {
				w.diverged = true
				break
			}
			full := kind == "basic" && cf.maxLinks > 0 && !present && len(w.model)+1 > cf.maxLinks
			switch {
			case w.knownUndercount(err, "AddChild"):
				// nothing was added; the model is unchanged
			case full && err == nil:
				w.fail("add-over-maxlinks-accepted/basic", "pure BasicDirectory refuses more than MaxLinks children", "error", "nil")
			case full:
				// documented refusal; the model is unchanged
			case err != nil:
				w.fail("add-error/"+impl, "AddChild succeeds", "nil", err.Error())
			default:
				w.model[name] = ent{ch.c, ch.size}
			}
		}
		ops++
		if w.diverged {
			break // model and implementation may be desynchronised
		}
		if w.impl() == "basic" {
			w.under = 0 // a freshly built directory counts its entries exactly
		}
		if w.cold > 0 {
			w.cold--
			if stored := w.snapshot(); stored != nil {
				if cp := w.load(stored); cp != nil {
					w.checkOn(cp, "reload-")
				}
			}
		} else {
			w.checkOn(w.dir, "")
		}
	}
	if !w.diverged {
		k.Logf("final reload (impl=%s entries=%d)", w.impl(), len(w.model))
		w.reload(0)
	}
	if w.impl() == "hamt" {
		sawHamt = true
	}
	if nontriv {
		k.Nontrivial()
	}
	k.C.Count("ops", int64(ops))
	if sawHamt {
		k.C.Count("histories_with_hamt_state", 1)
	}
	if w.known > 0 {
		k.C.Count("ops_failed_by_known_finding", int64(w.known))
	}
	if reloaded {
		k.C.Count("histories_with_reload", 1)
	}
}

func mtimeSec(t time.Time) int64 {
	if t.IsZero() {
		return 0
	}
	return t.Unix()
}

func short(n string) string {
	if len(n) > 24 {
		return fmt.Sprintf("%s…(%dB)", n[:6], len(n))
	}
	return strconv.Quote(n)
}

func describePool(p []string) string {
	var b []string
	for _, n := range p {
		b = append(b, fmt.Sprintf("%s:%016x", short(n), hashOf(n)))
	}
	return strings.Join(b, " ")
}

// snapshot serialises the live directory, stores the root and returns the
// node as fetched back from the DAG service (shares no memory with the live
// object).
func (w *world) snapshot() ipld.Node {
	var nd ipld.Node
	var err error
	completed := false
	if !vlib.Guard(w.k, "GetNode", 60*time.Second, func() { nd, err = w.dir.GetNode(); completed = true }) || !completed {
		w.diverged = true
		return nil
	}
	if err != nil {
		w.fail("getnode-error/"+w.impl(), "GetNode succeeds", "nil", err.Error())
		return nil
	}
	if err := w.ds.Add(w.ctx, nd); err != nil {
		panic(err)
	}
	stored, err := w.ds.Get(w.ctx, nd.Cid())
	if err != nil {
		w.fail("reload-root-missing", "root is retrievable", "node", err.Error())
		return nil
	}
	return stored
}

// load builds a directory object of the case's kind from a stored root and
// re-applies the configured settings (what MFS does after loading).
func (w *world) load(stored ipld.Node) uio.Directory {
	cf := w.cf
	switch cf.kind {
	case "basic":
		pn, ok := stored.(*dag.ProtoNode)
		if !ok {
			w.fail("reload-error/basic", "root of a BasicDirectory is a dag-pb node", "ProtoNode", fmt.Sprintf("%T", stored))
			return nil
		}
		b := uio.NewBasicDirectoryFromNode(w.ds, pn)
		b.SetMaxLinks(cf.maxLinks)
		return b
	case "hamt":
		h, err := uio.NewHAMTDirectoryFromNode(w.ds, stored)
		if err != nil {
			w.fail("reload-error/hamt", "NewHAMTDirectoryFromNode(GetNode()) succeeds", "nil", err.Error())
			return nil
		}
		return h
	}
	d, err := uio.NewDirectoryFromNode(w.ds, stored)
	if err != nil {
		w.fail("reload-error/"+w.impl(), "NewDirectoryFromNode(GetNode()) succeeds", "nil", err.Error())
		return nil
	}
	d.SetMaxLinks(cf.maxLinks)
	d.SetMaxHAMTFanout(cf.width)
	if !cf.viaGlob {
		d.SetSizeEstimationMode(cf.mode)
	}
	if cf.perDir {
		d.SetHAMTShardingSize(cf.thresh)
	}
	if cf.builder != nil {
		d.SetCidBuilder(cf.builder)
	}
	return d
}

// reload continues the history on the directory loaded from the stored root.
// With cold > 0 the listing is verified on a second, separately loaded copy
// for the next `cold` operations, so that the live object still has unloaded
// shards when it is mutated (queries load them).
func (w *world) reload(cold int) bool {
	stored := w.snapshot()
	if stored == nil {
		return false
	}
	wasHamt := w.impl() == "hamt"
	nd2 := w.load(stored)
	if nd2 == nil {
		return false
	}
	w.dir = nd2
	w.cold = cold
	w.under = 0
	if (w.impl() == "hamt") != wasHamt {
		w.k.Fail("reload-root-type/"+w.impl(), "reloaded directory has the implementation that was serialised", fmt.Sprint(wasHamt), fmt.Sprint(!wasHamt))
	}
	if w.cf.kind == "dyn" && w.impl() == "hamt" {
		w.under = len(w.model) - len(stored.Links())
	}
	if cold > 0 {
		if cp := w.load(stored); cp != nil {
			w.checkOn(cp, "reload-")
		}
	} else {
		w.checkOn(w.dir, "reload-")
	}
	return true
}

func implOf(d uio.Directory) string {
	if dd, ok := d.(*uio.DynamicDirectory); ok {
		d = dd.Directory
	}
	switch d.(type) {
	case *uio.HAMTDirectory:
		return "hamt"
	case *uio.BasicDirectory:
		return "basic"
	}
	return "unknown"
}

func (w *world) modelSet() []string {
	out := make([]string, 0, len(w.model))
	for n, e := range w.model {
		out = append(out, fmt.Sprintf("%s|%s|%d", short(n), e.c, e.size))
	}
	sort.Strings(out)
	return out
}

func linkKey(l *ipld.Link) string { return fmt.Sprintf("%s|%s|%d", short(l.Name), l.Cid, l.Size) }

func diff(want, got []string) string {
	wm, gm := map[string]int{}, map[string]int{}
	for _, s := range want {
		wm[s]++
	}
	for _, s := range got {
		gm[s]++
	}
	var missing, extra []string
	for s, n := range wm {
		if gm[s] < n {
			missing = append(missing, s)
		}
	}
	for s, n := range gm {
		if wm[s] < n {
			extra = append(extra, s)
		}
	}
	sort.Strings(missing)
	sort.Strings(extra)
	if len(missing)+len(extra) == 0 {
		return ""
	}
	return fmt.Sprintf("missing=%v extra(or duplicated)=%v", missing, extra)
}

// checkOn compares the three enumeration APIs and lookups of d with the model.
// These are pure queries: divergences are recorded and the history continues
// (the caller stops only if a mutating call diverged). The parallel walks run
// first: Find and ForEachLink load shards into memory, and the enumeration of
// not-yet-loaded shards is a separate code path.
func (w *world) checkOn(d uio.Directory, prefix string) {
	k, ctx := w.k, w.ctx
	impl := implOf(d)
	want := w.modelSet()
	w.k.C.Count("queries", int64(len(w.pool)+3))

	var en []string
	var enErr error
	completed := false
	if !vlib.Guard(k, "EnumLinksAsync", 60*time.Second, func() {
		for lr := range d.EnumLinksAsync(ctx) {
			if lr.Err != nil {
				enErr = lr.Err
				continue
			}
			en = append(en, linkKey(lr.Link))
		}
		completed = true
	}) || !completed {
		w.diverged = true
		return
	}
	if enErr != nil {
		k.Fail(prefix+"enum-error/"+impl, "EnumLinksAsync reports no error", "nil", enErr.Error())
	} else if df := diff(want, en); df != "" {
		k.Fail(prefix+"enum-set/"+impl, "EnumLinksAsync == model", strings.Join(want, " "), df)
	}

	links, err := d.Links(ctx)
	if err != nil {
		k.Fail(prefix+"links-error/"+impl, "Links succeeds", "nil", err.Error())
	} else {
		got := make([]string, 0, len(links))
		for _, l := range links {
			got = append(got, linkKey(l))
		}
		if df := diff(want, got); df != "" {
			k.Fail(prefix+"links-set/"+impl, "Links == model", strings.Join(want, " "), df)
		}
	}

	completed = false
	if !vlib.Guard(k, "Find", 60*time.Second, func() {
		for _, name := range w.pool {
			e, present := w.model[name]
			nd, err := d.Find(ctx, name)
			switch {
			case present && err != nil:
				k.Fail(prefix+"find-missing/"+impl, "Find(present) returns the entry", e.c.String(), fmt.Sprintf("%s: %v", short(name), err))
			case present && !nd.Cid().Equals(e.c):
				k.Fail(prefix+"find-wrong/"+impl, "Find(present) returns the entry", e.c.String(), fmt.Sprintf("%s: %s", short(name), nd.Cid()))
			case !present && err == nil:
				k.Fail(prefix+"find-phantom/"+impl, "Find(missing) reports not-exist", "os.ErrNotExist", fmt.Sprintf("%s: %s", short(name), nd.Cid()))
			case !present && !errors.Is(err, os.ErrNotExist):
				k.Fail(prefix+"find-errclass/"+impl, "Find(missing) reports not-exist", "os.ErrNotExist", fmt.Sprintf("%s: %v", short(name), err))
			}
		}
		completed = true
	}) || !completed {
		w.diverged = true
		return
	}

	var fe []string
	err = d.ForEachLink(ctx, func(l *ipld.Link) error { fe = append(fe, linkKey(l)); return nil })
	if err != nil {
		k.Fail(prefix+"foreach-error/"+impl, "ForEachLink succeeds", "nil", err.Error())
	} else if df := diff(want, fe); df != "" {
		k.Fail(prefix+"foreach-set/"+impl, "ForEachLink == model", strings.Join(want, " "), df)
	}

	// the UnixFS type of the root agrees with the implementation in use
	if prefix != "" {
		if nd, err := d.GetNode(); err == nil {
			if pn, ok := nd.(*dag.ProtoNode); ok {
				if fsn, err := ft.FSNodeFromBytes(pn.Data()); err == nil {
					if (fsn.Type() == ft.THAMTShard) != (impl == "hamt") {
						k.Fail(prefix+"root-type/"+impl, "root node type matches implementation", impl, fsn.Type().String())
					}
				}
			}
		}
	}
}

// ---------------------------------------------------------------- fault stratum

type faultDS struct {
	ipld.DAGService
	failAdd  bool
	addFired int
	failGet  map[string]bool
	getFired int
}

var errInjectedAdd = errors.New("verif: injected DAGService.Add failure")
var errInjectedGet = errors.New("verif: injected DAGService.Get failure")

func (f *faultDS) Add(ctx context.Context, nd ipld.Node) error {
	if f.failAdd {
		f.addFired++
		return errInjectedAdd
	}
	return f.DAGService.Add(ctx, nd)
}

func (f *faultDS) AddMany(ctx context.Context, nds []ipld.Node) error {
	if f.failAdd {
		f.addFired++
		return errInjectedAdd
	}
	return f.DAGService.AddMany(ctx, nds)
}

func (f *faultDS) Get(ctx context.Context, c cid.Cid) (ipld.Node, error) {
	if f.failGet[c.KeyString()] {
		f.getFired++
		return nil, errInjectedGet
	}
	return f.DAGService.Get(ctx, c)
}

func (f *faultDS) GetMany(ctx context.Context, cs []cid.Cid) <-chan *ipld.NodeOption {
	out := make(chan *ipld.NodeOption, len(cs))
	for _, c := range cs {
		n, err := f.Get(ctx, c)
		out <- &ipld.NodeOption{Node: n, Err: err}
	}
	close(out)
	return out
}

// subShards collects the CIDs of all sub-shard nodes below a stored HAMT root
// (links whose name is only the index prefix), reading through the plain DAG service.
func subShards(ds ipld.DAGService, root ipld.Node, pad int, out *[]cid.Cid) {
	for _, l := range root.Links() {
		if len(l.Name) == pad {
			*out = append(*out, l.Cid)
			if nd, err := ds.Get(context.Background(), l.Cid); err == nil {
				subShards(ds, nd, pad, out)
			}
		}
	}
}

func faultHistory(k *vlib.Case) {
	r := k.R
	ctx := context.Background()
	plain := mdtest.Mock()
	fds := &faultDS{DAGService: plain, failGet: map[string]bool{}}
	kind := vlib.Pick(r, []string{"hamt", "dyn"})
	cf := &config{kind: kind, width: vlib.Pick(r, []int{8, 8, 8, 16}), mode: uio.SizeEstimationLinks, thresh: r.Range(40, 120), perDir: true}
	k.Logf("config stratum=fault kind=%s width=%d mode=links threshold=%d perDir=true", kind, cf.width, cf.thresh)
	w := &world{k: k, ctx: ctx, ds: fds, cf: cf, model: map[string]ent{}}
	lg := bits.TrailingZeros(uint(cf.width))
	w.pool = append(w.pool, group(r, r.Range(2, 4), lg*r.Range(1, 3))...)
	w.pool = append(w.pool, group(r, 2, lg*2)...)
	for len(w.pool) < 12 {
		w.pool = append(w.pool, "q"+strconv.Itoa(r.Intn(100000)))
	}
	seen := map[string]bool{}
	uniq := w.pool[:0]
	for _, n := range w.pool {
		if !seen[n] {
			seen[n] = true
			uniq = append(uniq, n)
		}
	}
	w.pool = uniq
	k.Logf("pool %s", describePool(w.pool))
	children := mkChildren(r, plain)

	var err error
	if kind == "hamt" {
		w.dir, err = uio.NewHAMTDirectory(fds, 0, cf.opts()...)
	} else {
		w.dir, err = uio.NewDirectory(fds, cf.opts()...)
		if err == nil {
			w.dir.SetHAMTShardingSize(cf.thresh)
		}
	}
	if err != nil {
		w.fail("construct-error", "directory constructor succeeds", "nil", err.Error())
		return
	}

	// (a) history with failing writes
	failedWhileHamt := 0
	n := r.Range(12, 30)
	for i := 0; i < n && !w.diverged; i++ {
		name := vlib.Pick(r, w.pool)
		_, present := w.model[name]
		impl := w.impl()
		if present && r.Chance(1, 4) {
			k.Logf("RemoveChild %s (impl=%s)", short(name), impl)
			if err := w.dir.RemoveChild(ctx, name); err != nil {
				w.fail("remove-present-error/"+impl, "RemoveChild(present) succeeds", "nil", err.Error())
				break
			}
			delete(w.model, name)
			w.checkOn(w.dir, "")
			continue
		}
		ch := vlib.Pick(r, children)
		inject := r.Chance(1, 3)
		k.Logf("AddChild %s <- %s (present=%v impl=%s injectedAddFailure=%v)", short(name), ch.desc, present, impl, inject)
		fds.failAdd, fds.addFired = inject, 0
		var err error
		completed := false
		ok := vlib.Guard(k, "AddChild", 60*time.Second, func() { err = w.dir.AddChild(ctx, name, ch.nd); completed = true })
		fds.failAdd = false
		if !ok || !completed {
			w.diverged = true
			break
		}
		switch {
		case err != nil && inject && fds.addFired > 0:
			// failed by the write fault: nothing may have changed
			k.C.Count("faulted_adds", 1)
			if impl == "hamt" {
				failedWhileHamt++
			}
			w.checkOn(w.dir, "failed-add-")
			if stored := w.snapshot(); stored != nil {
				if cp := w.load(stored); cp != nil {
					w.checkOn(cp, "failed-add-reload-")
				}
			}
		case err != nil:
			w.fail("add-error/"+impl, "AddChild succeeds", "nil", err.Error())
		default:
			w.model[name] = ent{ch.c, ch.size}
			w.checkOn(w.dir, "")
		}
	}
	if w.diverged {
		return
	}

	// (b) unreadable sub-shard of the stored tree
	readFaultRun := false
	stored := w.snapshot()
	if stored != nil && w.impl() == "hamt" {
		var subs []cid.Cid
		subShards(plain, stored, len(fmt.Sprintf("%X", cf.width-1)), &subs)
		if len(subs) > 0 {
			bad := vlib.Pick(r, subs)
			k.Logf("read fault: sub-shard %s of the stored tree (%d entries, %d sub-shards) is unreadable; 4 cold copies are enumerated", bad, len(w.model), len(subs))
			fds.failGet[bad.KeyString()] = true
			readFaultRun = true
			want := w.modelSet()
			judge := func(api string, got []string, err error) {
				k.C.Count("read_fault_enumerations", 1)
				if err != nil {
					k.C.Count("read_fault_enumerations_reporting_error", 1)
					return
				}
				if df := diff(want, got); df != "" {
					k.Fail("read-fault/"+api+"-incomplete-nil-error", api+" under an unreadable sub-shard reports an error or the complete listing",
						fmt.Sprintf("error, or all %d entries", len(want)), fmt.Sprintf("nil error, %d entries: %s", len(got), df))
				}
			}
			if cp := w.load(stored); cp != nil {
				var got []string
				var e error
				vlib.Guard(k, "EnumLinksAsync", 60*time.Second, func() {
					for lr := range cp.EnumLinksAsync(ctx) {
						if lr.Err != nil {
							e = lr.Err
							continue
						}
						got = append(got, linkKey(lr.Link))
					}
				})
				judge("EnumLinksAsync", got, e)
			}
			if cp := w.load(stored); cp != nil {
				links, e := cp.Links(ctx)
				var got []string
				for _, l := range links {
					got = append(got, linkKey(l))
				}
				judge("Links", got, e)
			}
			if cp := w.load(stored); cp != nil {
				var got []string
				e := cp.ForEachLink(ctx, func(l *ipld.Link) error { got = append(got, linkKey(l)); return nil })
				judge("ForEachLink", got, e)
			}
			if cp := w.load(stored); cp != nil {
				for name, en := range w.model {
					nd, e := cp.Find(ctx, name)
					if e == nil && !nd.Cid().Equals(en.c) {
						k.Fail("read-fault/find-wrong", "Find under an unreadable sub-shard reports an error or the entry", en.c.String(), nd.Cid().String())
					}
				}
				for _, name := range w.pool {
					if _, in := w.model[name]; !in {
						if nd, e := cp.Find(ctx, name); e == nil {
							k.Fail("read-fault/find-phantom", "Find(missing) under an unreadable sub-shard does not succeed", "error", nd.Cid().String())
						}
					}
				}
			}
			delete(fds.failGet, bad.KeyString())
		}
	}
	if failedWhileHamt > 0 && readFaultRun {
		k.Nontrivial()
	}
	if readFaultRun {
		k.C.Count("histories_with_read_fault", 1)
	}
}
