#!/usr/bin/env python3
# Regenerates the sensitivity mutants for C15 as build overlays under /verif/.work/mut-c15/<name>/ov.json
# usage: python3 mutants.py ; VERIF_EXTRA_OVERLAY=/verif/.work/mut-c15/m2/ov.json ./check C15 quick
import json, os
H='/repo/ipld/unixfs/hamt/hamt.go'; D='/repo/ipld/unixfs/io/directory.go'
OUT='/verif/.work/mut-c15'
def mk(name, path, old, new):
    s=open(path).read(); assert s.count(old)==1, (name, s.count(old))
    d=f'{OUT}/{name}'; os.makedirs(d, exist_ok=True)
    f=f'{d}/'+os.path.basename(path); open(f,'w').write(s.replace(old,new))
    json.dump({"Replace":{path:f}}, open(f'{d}/ov.json','w'))
# m1: a sub-shard left with one (loaded) value is pruned together with that value (sibling dropped)
mk('m1',H,'''					if schild.isValueNode() {
						ds.childer.set(schild, i)
					}
					return oldValue, nil''','''					if schild.isValueNode() {
						return oldValue, ds.childer.rm(idx)
					}
					return oldValue, nil''')
# m2: same, but on the path taken only when the surviving sibling is NOT loaded (i.e. after a reload)
mk('m2',H,'''					// sub-shard with a single value element, collapse it
					ds.childer.setLink(slnk, i)''','''					// sub-shard with a single value element, collapse it
					return oldValue, ds.childer.rm(idx)''')
# m3: on a leaf fork the displaced entry is re-inserted with the hash bits of the previous level
mk('m3',H,'chhv := newConsumedHashBits(grandChild.key, hv.consumed)','chhv := newConsumedHashBits(grandChild.key, hv.consumed-ds.tableSizeLg2)')
# m4: DynamicDirectory.AddChild HAMT->basic path forgets to add the entry
mk('m4',D,'''			err = basicDir.AddChild(ctx, name, nd)
			if err != nil {
				return err
			}
			d.Directory = basicDir
			return nil''','''			d.Directory = basicDir
			return nil''')
# m5: parallel enumeration of not-yet-loaded value links keeps the index-prefixed name
mk('m5',H,'''				formattedLink := sv.val
				formattedLink.Name = sv.key

				if err := processLinkValues''','''				formattedLink := sv.val

				if err := processLinkValues''')
# m6 = seeded C15-e: Shard.Swap updates the trie before writing the child with dserv.Add (visible only when Add fails: fault stratum)
mk('m6',H,'''	hv := newHashBits(name)
	err := ds.dserv.Add(ctx, node)
	if err != nil {
		return nil, err
	}

	lnk, err := ipld.MakeLink(node)''','''	hv := newHashBits(name)
	lnk, err := ipld.MakeLink(node)''')
# m7 = seeded C15-f: EnumLinksAsync cancels its context before emitting the walk error (truncated listing with nil error when a sub-shard is unreadable)
mk('m7',H,'''		defer close(linkResults)
		defer cancel()

		err := parallelShardWalk(ctx, ds, ds.dserv, func(formattedLink *ipld.Link) error {
			emitResult(ctx, linkResults, format.LinkResult{Link: formattedLink, Err: nil})
			return nil
		})
''','''		defer close(linkResults)

		err := parallelShardWalk(ctx, ds, ds.dserv, func(formattedLink *ipld.Link) error {
			emitResult(ctx, linkResults, format.LinkResult{Link: formattedLink, Err: nil})
			return nil
		})
		cancel()
''')
print('written to', OUT)
