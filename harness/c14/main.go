// C14: pairs of dag-pb directory trees derived from a common ancestor by
// random edits are stored in one DAG service; dagutils.Diff(a,b) is applied to
// a with dagutils.ApplyChange and the resulting root CID is compared with b's
// (both directions, plus Diff(x,x)). Failures are classified from the two
// trees alone (never from the edit script).
package main

import (
	"context"
	"errors"
	"fmt"
	"sort"
	"strings"

	"github.com/ipfs/boxo/blockservice"
	blockstore "github.com/ipfs/boxo/blockstore"
	"github.com/ipfs/boxo/exchange/offline"
	mdag "github.com/ipfs/boxo/ipld/merkledag"
	"github.com/ipfs/boxo/ipld/merkledag/dagutils"
	ft "github.com/ipfs/boxo/ipld/unixfs"
	cid "github.com/ipfs/go-cid"
	ds "github.com/ipfs/go-datastore"
	dssync "github.com/ipfs/go-datastore/sync"
	format "github.com/ipfs/go-ipld-format"

	"verif/vlib"
)

func main() { vlib.Run("C14", run) }

func run(c *vlib.Ctx) {
	c.Rule("ancestor tree depth<=4 fan-out<=6 over 7 names and 4 file contents (identical files and identical sub-directories are frequent); a and b are each derived by 0-8 edits {add file, add dir, add copy of an existing subtree, remove, change file content, replace dir by file, replace file by dir, empty a dir} at random depths; strata: clean (file/non-empty-dir clashes repaired by renaming AND link names suffixed with their depth, so neither known trigger can occur), shared (clashes repaired, plain names: identical subtrees at different depths), kind (a clash forced), selfsim (2 names, 2 contents, deep: a directory often equals its own parent's previous state), same (a==b built twice); both directions a->b and b->a plus Diff(x,x); every change list is also replayed on a model of the Editor's temporary store to compute the class features; fault (Get fails with a non-not-found error for 1-3 PRNG-chosen non-root blocks at depth 1-4, mostly on a changed path: Diff must return an error, or a change list that reproduces b on a healthy store); distinct = FNV of both trees (+ fault set); non-trivial = the diff has >=3 changes of >=2 types with one at depth>=2; fault stratum: a faulted block lies on a changed path at depth >= 2")
	c.Cases("clean", c.N(1200, 12000), func(k *vlib.Case) { pairCase(k, "clean") })
	c.Cases("shared", c.N(800, 8000), func(k *vlib.Case) { pairCase(k, "shared") })
	c.Cases("kind", c.N(500, 5000), func(k *vlib.Case) { pairCase(k, "kind") })
	c.Cases("selfsim", c.N(600, 5000), func(k *vlib.Case) { pairCase(k, "selfsim") })
	c.Cases("same", c.N(100, 500), func(k *vlib.Case) { pairCase(k, "same") })
	// read faults: Diff must report them, never return a partial change list
	c.Cases("fault", c.N(800, 8000), faultCase)
}

// ---------------------------------------------------------------- tree model

type tn struct {
	dir  bool
	data string // file content
	kids map[string]*tn
}

func (t *tn) clone() *tn {
	c := &tn{dir: t.dir, data: t.data}
	if t.dir || len(t.kids) > 0 {
		c.kids = map[string]*tn{}
		for n, k := range t.kids {
			c.kids[n] = k.clone()
		}
	}
	return c
}

func (t *tn) names() []string {
	ns := make([]string, 0, len(t.kids))
	for n := range t.kids {
		ns = append(ns, n)
	}
	sort.Strings(ns)
	return ns
}

// String is the canonical text of a subtree: equal text <=> equal CID (one CID
// builder per case, links added through AddNodeLink). A file that was given
// links by a wrong change list prints as 'data'{...}.
func (t *tn) String() string {
	var sb strings.Builder
	if !t.dir {
		sb.WriteString("'" + t.data + "'")
		if len(t.kids) == 0 {
			return sb.String()
		}
	}
	sb.WriteByte('{')
	for i, n := range t.names() {
		if i > 0 {
			sb.WriteByte(' ')
		}
		sb.WriteString(n + ":" + t.kids[n].String())
	}
	sb.WriteByte('}')
	return sb.String()
}

var namePool = []string{"a", "b", "c", "d", "e", "f", "long-name.txt"}
var contents = []string{"", "x", "y", "some longer file content"}
var dirNum = 2 // a new entry is a directory with probability dirNum/5

func genTree(r *vlib.Rand, depth int) *tn {
	t := &tn{dir: true, kids: map[string]*tn{}}
	fan := r.Intn(7)
	if depth == 0 {
		fan = r.Range(1, 6)
	}
	for i := 0; i < fan; i++ {
		n := namePool[r.Intn(len(namePool))]
		if depth < 3 && r.Chance(dirNum, 5) {
			t.kids[n] = genTree(r, depth+1)
		} else {
			t.kids[n] = &tn{data: contents[r.Intn(len(contents))]}
		}
	}
	return t
}

type dirAt struct {
	d     *tn
	depth int
}

// dirs lists every directory of the tree with its depth (root = 0).
func dirs(t *tn, depth int, out *[]dirAt) {
	*out = append(*out, dirAt{t, depth})
	for _, n := range t.names() {
		if t.kids[n].dir {
			dirs(t.kids[n], depth+1, out)
		}
	}
}

func subtrees(t *tn, out *[]*tn) {
	for _, n := range t.names() {
		*out = append(*out, t.kids[n])
		if t.kids[n].dir {
			subtrees(t.kids[n], out)
		}
	}
}

func edit(k *vlib.Case, r *vlib.Rand, t *tn, who string, allowKind bool) {
	n := r.Intn(9)
	for i := 0; i < n; i++ {
		var ds []dirAt
		dirs(t, 0, &ds)
		// prefer deep directories: nested changes
		pick := ds[r.Intn(len(ds))]
		if p2 := ds[r.Intn(len(ds))]; p2.depth > pick.depth {
			pick = p2
		}
		d := pick.d
		name := namePool[r.Intn(len(namePool))]
		cur := d.kids[name]
		op := r.Intn(10)
		switch {
		case cur == nil && op < 4:
			d.kids[name] = &tn{data: contents[r.Intn(len(contents))]}
			k.Logf("%s: add file %q at depth %d", who, name, pick.depth)
		case cur == nil && op < 7 && pick.depth < 4:
			d.kids[name] = genTree(r, pick.depth+1)
			k.Logf("%s: add dir %q at depth %d", who, name, pick.depth)
		case cur == nil && pick.depth < 3:
			var subs []*tn
			subtrees(t, &subs)
			if len(subs) == 0 {
				continue
			}
			d.kids[name] = subs[r.Intn(len(subs))].clone()
			k.Logf("%s: add copy of an existing subtree as %q at depth %d", who, name, pick.depth)
		case cur == nil:
			continue
		case op < 3:
			delete(d.kids, name)
			k.Logf("%s: remove %q at depth %d", who, name, pick.depth)
		case op < 5 && !cur.dir:
			cur.data = contents[r.Intn(len(contents))]
			k.Logf("%s: change file %q at depth %d", who, name, pick.depth)
		case op < 6 && cur.dir:
			cur.kids = map[string]*tn{}
			k.Logf("%s: empty dir %q at depth %d", who, name, pick.depth)
		case op < 8 && cur.dir && allowKind:
			d.kids[name] = &tn{data: contents[r.Intn(len(contents))]}
			k.Logf("%s: replace dir %q by a file at depth %d", who, name, pick.depth)
		case op < 10 && !cur.dir && allowKind && pick.depth < 4:
			d.kids[name] = genTree(r, pick.depth+1)
			k.Logf("%s: replace file %q by a dir at depth %d", who, name, pick.depth)
		}
	}
}

// plantChain puts, at the same place in both trees, a chain of single-entry
// directories n1/(n2/)C. In a, C holds a few files; in b, C holds a copy of
// the emptied chain itself plus one later-sorting entry. While the diff is
// applied, C passes through the exact content its ancestor had one step
// earlier (self-similar nesting) and is then visited again.
func plantChain(k *vlib.Case, r *vlib.Rand, a, b *tn) {
	// a directory that exists at the same path in both trees: walk from the roots
	x, y := a, b
	for depth := 0; depth < 2 && r.Bool(); depth++ {
		var common []string
		for _, n := range x.names() {
			if x.kids[n].dir && y.kids[n] != nil && y.kids[n].dir {
				common = append(common, n)
			}
		}
		if len(common) == 0 {
			break
		}
		n := common[r.Intn(len(common))]
		x, y = x.kids[n], y.kids[n]
	}
	L := r.Range(1, 2)
	chain := make([]string, L)
	for i := range chain {
		chain[i] = namePool[r.Intn(len(namePool))]
	}
	mk := func(inner *tn) *tn { // n1:{n2:{...inner}}
		t := inner
		for i := L - 1; i >= 1; i-- {
			t = &tn{dir: true, kids: map[string]*tn{chain[i]: t}}
		}
		return t
	}
	ca := &tn{dir: true, kids: map[string]*tn{}}
	for i := r.Intn(3); i > 0; i-- {
		ca.kids[[]string{"p", "q", "a"}[r.Intn(3)]] = &tn{data: contents[r.Intn(len(contents))]}
	}
	empty := func() *tn { return &tn{dir: true, kids: map[string]*tn{}} }
	cb := &tn{dir: true, kids: map[string]*tn{
		chain[0]: mk(empty()),
		"z":      {data: "x"},
	}}
	if r.Chance(1, 4) {
		delete(cb.kids, "z") // nothing visits C afterwards: the lost node is never missed
	}
	// G is a fresh single-entry directory, so that G == {n1:{n2:{}}} once C is emptied
	g := namePool[r.Intn(len(namePool))]
	if r.Chance(1, 5) {
		// not wrapped: the enclosing directory usually has other entries and nothing collides
		x.kids[chain[0]] = mk(ca)
		y.kids[chain[0]] = mk(cb)
	} else {
		x.kids[g] = &tn{dir: true, kids: map[string]*tn{chain[0]: mk(ca)}}
		y.kids[g] = &tn{dir: true, kids: map[string]*tn{chain[0]: mk(cb)}}
	}
	k.Logf("planted self-similar chain %q/%v", g, chain)
}

// kindChanges returns the paths present in both trees that hold a file on one
// side and a NON-EMPTY directory on the other (an empty directory and a file
// are both link-less nodes and are handled by a Mod).
func kindChanges(a, b *tn, prefix string, out *[]string) {
	for _, n := range a.names() {
		x, y := a.kids[n], b.kids[n]
		if y == nil {
			continue
		}
		p := prefix + n
		switch {
		case x.dir && y.dir:
			kindChanges(x, y, p+"/", out)
		case x.dir != y.dir:
			d := x
			if y.dir {
				d = y
			}
			if len(d.kids) > 0 {
				*out = append(*out, p)
			}
		}
	}
}

// repair renames b's entry wherever a file meets a non-empty directory.
func repair(a, b *tn) int {
	fixed := 0
	for _, n := range a.names() {
		x, y := a.kids[n], b.kids[n]
		if y == nil {
			continue
		}
		switch {
		case x.dir && y.dir:
			fixed += repair(x, y)
		case x.dir != y.dir:
			d := x
			if y.dir {
				d = y
			}
			if len(d.kids) > 0 {
				delete(b.kids, n)
				b.kids[n+"-moved"] = y
				fixed++
			}
		}
	}
	return fixed
}

// forceKind makes sure at least one file/non-empty-dir clash exists.
func forceKind(r *vlib.Rand, a, b *tn) bool {
	// walk aligned directories
	var walk func(x, y *tn, depth int) bool
	walk = func(x, y *tn, depth int) bool {
		ns := x.names()
		vlib.Shuffle(r, ns)
		for _, n := range ns {
			p, q := x.kids[n], y.kids[n]
			if q == nil {
				continue
			}
			if p.dir && q.dir && depth < 3 && r.Bool() && walk(p, q, depth+1) {
				return true
			}
			if p.dir && len(p.kids) > 0 {
				y.kids[n] = &tn{data: contents[r.Intn(len(contents))]}
				return true
			}
			if !p.dir && depth < 4 {
				nd := genTree(r, depth+1)
				if len(nd.kids) == 0 {
					nd.kids["a"] = &tn{data: "x"}
				}
				y.kids[n] = nd
				return true
			}
		}
		return false
	}
	return walk(a, b, 0)
}

// render returns the tree with the link names actually used: the plain names,
// or (clean stratum) name.depth so that no name repeats along any path.
func render(t *tn, depth int, suffix bool) *tn {
	c := &tn{dir: t.dir, data: t.data}
	if t.dir {
		c.kids = map[string]*tn{}
		for n, k := range t.kids {
			nn := n
			if suffix {
				nn = fmt.Sprintf("%s.%d", n, depth)
			}
			c.kids[nn] = render(k, depth+1, suffix)
		}
	}
	return c
}

func allKeys(t *tn, out map[string]bool) {
	out[t.String()] = true
	for _, k := range t.kids {
		allKeys(k, out)
	}
}

// edSim replays a change list on the tree model together with a model of the
// Editor's temporary block store (utils.go: every rewritten node is added to
// tmp, the previous version of each rewritten ancestor is deleted from tmp,
// lookups try tmp and then the source service). It is used only to compute
// class features: does the change list, applied by an Editor, reach a node
// whose block is in neither store?
type edSim struct {
	root *tn
	tmp  map[string]bool
	src  map[string]bool
}

func (s *edSim) walk(parts []string) ([]*tn, string) {
	nodes := []*tn{s.root}
	for i := 0; i < len(parts)-1; i++ {
		ch := nodes[i].kids[parts[i]]
		if ch == nil {
			return nil, "no-such-link"
		}
		if key := ch.String(); !s.tmp[key] && !s.src[key] {
			return nil, "block-not-found"
		}
		nodes = append(nodes, ch)
	}
	return nodes, ""
}

func (s *edSim) rewrite(nodes []*tn, olds []string, baseRemovesOld bool) {
	m := len(nodes) - 1
	if baseRemovesOld {
		delete(s.tmp, olds[m])
	}
	s.tmp[nodes[m].String()] = true
	for i := m - 1; i >= 0; i-- {
		delete(s.tmp, olds[i])
		s.tmp[nodes[i].String()] = true
	}
}

func keysOf(nodes []*tn) []string {
	out := make([]string, len(nodes))
	for i, n := range nodes {
		out[i] = n.String()
	}
	return out
}

func (s *edSim) remove(path string) string {
	parts := strings.Split(path, "/")
	nodes, st := s.walk(parts)
	if st != "" {
		return st
	}
	base, name := nodes[len(nodes)-1], parts[len(parts)-1]
	if base.kids[name] == nil {
		return "no-such-link"
	}
	olds := keysOf(nodes)
	delete(base.kids, name)
	s.rewrite(nodes, olds, false) // rmLink's base case adds the new node and deletes nothing
	return ""
}

func (s *edSim) insert(path string, child *tn) string {
	parts := strings.Split(path, "/")
	nodes, st := s.walk(parts)
	if st != "" {
		return st
	}
	base, name := nodes[len(nodes)-1], parts[len(parts)-1]
	olds := keysOf(nodes)
	s.tmp[child.String()] = true // addLink: child first, then the parent's old version is deleted
	if base.kids == nil {
		base.kids = map[string]*tn{}
	}
	base.kids[name] = child.clone()
	s.rewrite(nodes, olds, true)
	return ""
}

// predict returns "" when an Editor can apply the whole list, else the kind of
// failure and the index of the failing change; final is the resulting tree.
func predict(a, b *tn, changes []*dagutils.Change, byCid map[string]*tn) (status string, at int, final string) {
	s := &edSim{root: a.clone(), tmp: map[string]bool{}, src: map[string]bool{}}
	allKeys(a, s.src)
	allKeys(b, s.src)
	for i, c := range changes {
		st := ""
		if c.Type == dagutils.Remove || c.Type == dagutils.Mod {
			st = s.remove(c.Path)
		}
		if st == "" && (c.Type == dagutils.Add || c.Type == dagutils.Mod) {
			child := byCid[c.After.KeyString()]
			if child == nil {
				return "unknown-after-cid", i, ""
			}
			st = s.insert(c.Path, child)
		}
		if st != "" {
			return st, i, ""
		}
	}
	return "", -1, s.root.String()
}

// ---------------------------------------------------------------- DAG building

type built struct {
	nodes map[string]format.Node // by CID key
	trees map[string]*tn         // by CID key: the model subtree a block stands for
	v1    bool
}

func (bl *built) build(t *tn) *mdag.ProtoNode {
	var nd *mdag.ProtoNode
	if t.dir {
		nd = ft.EmptyDirNode()
	} else {
		nd = mdag.NodeWithData(ft.FilePBData([]byte(t.data), uint64(len(t.data))))
	}
	if bl.v1 {
		if err := nd.SetCidBuilder(mdag.V1CidPrefix()); err != nil {
			panic(err)
		}
	}
	if t.dir {
		for _, n := range t.names() {
			if err := nd.AddNodeLink(n, bl.build(t.kids[n])); err != nil {
				panic(err)
			}
		}
	}
	bl.nodes[nd.Cid().KeyString()] = nd
	bl.trees[nd.Cid().KeyString()] = t
	return nd
}

func (bl *built) service(ctx context.Context) format.DAGService {
	bs := blockstore.NewBlockstore(dssync.MutexWrap(ds.NewMapDatastore()))
	dserv := mdag.NewDAGService(blockservice.New(bs, offline.Exchange(bs)))
	keys := make([]string, 0, len(bl.nodes))
	for k := range bl.nodes {
		keys = append(keys, k)
	}
	sort.Strings(keys)
	for _, k := range keys {
		if err := dserv.Add(ctx, bl.nodes[k]); err != nil {
			panic(err)
		}
	}
	return dserv
}

func short(c cid.Cid) string {
	s := c.String()
	return s[len(s)-6:]
}

func fmtChanges(cs []*dagutils.Change) string {
	var parts []string
	for _, c := range cs {
		switch c.Type {
		case dagutils.Add:
			parts = append(parts, fmt.Sprintf("Add %s =%s", c.Path, short(c.After)))
		case dagutils.Remove:
			parts = append(parts, fmt.Sprintf("Remove %s", c.Path))
		case dagutils.Mod:
			parts = append(parts, fmt.Sprintf("Mod %s %s->%s", c.Path, short(c.Before), short(c.After)))
		}
	}
	return "[" + strings.Join(parts, "; ") + "]"
}

func errClass(err error) string {
	s := err.Error()
	switch {
	case strings.Contains(s, "not found") || format.IsNotFound(err):
		return "block-not-found"
	case strings.Contains(s, "no link by that name"):
		return "no-such-link"
	case strings.Contains(s, "expected protobuf"):
		return "not-protobuf"
	}
	return "other"
}

// complete reports whether every block of the DAG under c is in dserv.
func complete(ctx context.Context, dserv format.DAGService, c cid.Cid) bool {
	nd, err := dserv.Get(ctx, c)
	if err != nil {
		return false
	}
	for _, l := range nd.Links() {
		if !complete(ctx, dserv, l.Cid) {
			return false
		}
	}
	return true
}

// ---------------------------------------------------------------- case

func pairCase(k *vlib.Case, stratum string) {
	r := k.R
	ctx := context.Background()
	// generator parameters (the harness runs one case at a time)
	namePool = []string{"a", "b", "c", "d", "e", "f", "long-name.txt"}
	contents = []string{"", "x", "y", "some longer file content"}
	dirNum = 2
	if stratum == "selfsim" {
		namePool = []string{"a", "b"}
		contents = []string{"", "x"}
		dirNum = 3
	}
	anc := genTree(r, 0)
	a, b := anc.clone(), anc.clone()
	switch stratum {
	case "same":
		edit(k, r, a, "a", true)
		b = a.clone()
	default:
		if r.Chance(3, 4) {
			edit(k, r, a, "a", true)
		}
		edit(k, r, b, "b", true)
	}
	if stratum == "selfsim" && r.Chance(1, 2) {
		plantChain(k, r, a, b)
	}
	if stratum == "clean" || stratum == "shared" {
		if n := repair(a, b); n > 0 {
			k.Logf("repaired %d file/non-empty-dir clashes by renaming b's entry", n)
		}
	}
	if stratum == "kind" {
		var kc []string
		kindChanges(a, b, "", &kc)
		if len(kc) == 0 && !forceKind(r, a, b) {
			k.Logf("(no aligned entry to clash on)")
		}
	}
	a, b = render(a, 0, stratum == "clean"), render(b, 0, stratum == "clean")
	k.Logf("a = %s", a)
	k.Logf("b = %s", b)
	var kc []string
	kindChanges(a, b, "", &kc)
	k.Logf("file/non-empty-dir clashes: %v", kc)
	if (stratum == "clean" || stratum == "shared") && len(kc) > 0 {
		panic("repaired stratum generated a clash")
	}

	bl := &built{nodes: map[string]format.Node{}, trees: map[string]*tn{}, v1: r.Bool()}
	ra, rb := bl.build(a), bl.build(b)
	k.Logf("cid version v1=%v a=%s b=%s blocks=%d", bl.v1, short(ra.Cid()), short(rb.Cid()), len(bl.nodes))

	feat := "/no-clash"
	if len(kc) > 0 {
		feat = "/file-vs-nonempty-dir"
	}
	nontrivial := false
	for dir := 0; dir < 2; dir++ {
		from, to, label := ra.Cid(), rb.Cid(), "a->b"
		ft, tt := a, b
		if dir == 1 {
			from, to, label = rb.Cid(), ra.Cid(), "b->a"
			ft, tt = b, a
		}
		dserv := bl.service(ctx) // fresh store per direction: a and b complete, nothing else
		fn, err := dserv.Get(ctx, from)
		if err != nil {
			panic(err)
		}
		tnode, err := dserv.Get(ctx, to)
		if err != nil {
			panic(err)
		}
		// Diff(x,x)
		self, err := dagutils.Diff(ctx, dserv, fn, fn)
		if err != nil || len(self) != 0 {
			k.Fail("self-diff-nonempty", "Diff(a,a) is empty", "[]", fmt.Sprintf("%s err=%v", fmtChanges(self), err))
		}
		changes, err := dagutils.Diff(ctx, dserv, fn, tnode)
		if err != nil {
			k.Fail("diff-error/"+errClass(err)+feat, "Diff succeeds on complete DAGs", "nil", err.Error())
			continue
		}
		k.Logf("%s Diff = %s", label, fmtChanges(changes))
		if from.Equals(to) && len(changes) != 0 {
			k.Fail("self-diff-nonempty", "Diff of equal trees is empty", "[]", fmtChanges(changes))
		}
		types := map[dagutils.ChangeType]bool{}
		deep := false
		for _, c := range changes {
			types[c.Type] = true
			if strings.Count(c.Path, "/") >= 2 {
				deep = true
			}
		}
		if len(changes) >= 3 && len(types) >= 2 && deep {
			nontrivial = true
		}
		k.C.Count("changes", int64(len(changes)))

		// class features from the model of the Editor's temporary store
		pst, pat, pfinal := predict(ft, tt, changes, bl.trees)
		if pst != "" {
			k.Logf("%s editor-store model: change #%d (%s) hits %s", label, pat, changes[pat].Path, pst)
			k.C.Count("model_predicts_"+pst, 1)
		}

		res, err := dagutils.ApplyChange(ctx, dserv, fn.(*mdag.ProtoNode), changes)
		if err != nil {
			cls := "apply-error/" + errClass(err)
			if errClass(err) == "block-not-found" {
				if pst == "block-not-found" {
					// the Editor deleted the only copy of a node it had just written
					cls += "/editor-dropped-rewritten-node"
				} else {
					cls += "/unexplained" + feat
				}
			} else {
				cls += feat
			}
			k.Fail(cls, "ApplyChange(a, Diff(a,b)) succeeds", "nil", label+": "+err.Error())
			continue
		}
		if pst != "" {
			k.C.Count("model_predicted_failure_but_apply_succeeded", 1)
		}
		if !res.Cid().Equals(to) {
			k.Fail("apply-cid-mismatch"+feat, "ApplyChange(a, Diff(a,b)).Cid() == b.Cid()", to.String(), label+": "+res.Cid().String())
			if pst == "" && pfinal == tt.String() {
				k.C.Count("model_predicted_equal_but_cid_differs", 1)
			}
			continue
		}
		if pst == "" && pfinal != tt.String() {
			k.C.Count("model_predicted_different_but_cid_equal", 1)
		}
		k.C.Count("applied_ok", 1)
		if len(kc) > 0 {
			k.C.Count("clash_but_applied_ok", 1) // 0 before fix-diff-mod-on-data-change (the clash always failed); all of them after it
		}
		if !complete(ctx, dserv, res.Cid()) {
			k.C.Count("result_dag_incomplete_in_store", 1)
		}
	}
	if nontrivial {
		k.Nontrivial()
	}
}

// ---------------------------------------------------------------- read faults

// faultyDAG fails Get for a chosen set of CIDs with a plain I/O-style error
// (not a not-found) and counts how often that happened.
type faultyDAG struct {
	format.DAGService
	bad  map[string]bool
	hits []cid.Cid
}

var errInjected = errors.New("injected read fault")

func (f *faultyDAG) Get(ctx context.Context, c cid.Cid) (format.Node, error) {
	if f.bad[c.KeyString()] {
		f.hits = append(f.hits, c)
		return nil, errInjected
	}
	return f.DAGService.Get(ctx, c)
}

func (f *faultyDAG) GetMany(ctx context.Context, cs []cid.Cid) <-chan *format.NodeOption {
	out := make(chan *format.NodeOption, len(cs))
	for _, c := range cs {
		nd, err := f.Get(ctx, c)
		out <- &format.NodeOption{Node: nd, Err: err}
	}
	close(out)
	return out
}

type pathNode struct {
	t     *tn
	depth int
	path  string
}

// changedPairs lists the nodes Diff has to read: entries present in both
// trees under the same name with different content, at every depth reached by
// recursing through directories.
func changedPairs(a, b *tn, depth int, prefix string, out *[]pathNode) {
	for _, n := range a.names() {
		x, y := a.kids[n], b.kids[n]
		if y == nil || x.String() == y.String() {
			continue
		}
		*out = append(*out, pathNode{x, depth, prefix + n + "(a)"}, pathNode{y, depth, prefix + n + "(b)"})
		if x.dir && y.dir {
			changedPairs(x, y, depth+1, prefix+n+"/", out)
		}
	}
}

func allNodes(t *tn, depth int, prefix string, out *[]pathNode) {
	for _, n := range t.names() {
		*out = append(*out, pathNode{t.kids[n], depth, prefix + n})
		allNodes(t.kids[n], depth+1, prefix+n+"/", out)
	}
}

func faultCase(k *vlib.Case) {
	r := k.R
	ctx := context.Background()
	namePool = []string{"a", "b", "c", "d", "e", "f", "long-name.txt"}
	contents = []string{"", "x", "y", "some longer file content"}
	dirNum = 3 // deeper trees: the interesting faults are two or more levels down
	anc := genTree(r, 0)
	a, b := anc.clone(), anc.clone()
	if r.Chance(3, 4) {
		edit(k, r, a, "a", true)
	}
	edit(k, r, b, "b", true)
	edit(k, r, b, "b", true)
	k.Logf("a = %s", a)
	k.Logf("b = %s", b)
	bl := &built{nodes: map[string]format.Node{}, trees: map[string]*tn{}, v1: r.Bool()}
	cidOf := map[*tn]cid.Cid{}
	var reg func(t *tn) // CIDs of model nodes, by rebuilding each subtree (small trees)
	reg = func(t *tn) {
		cidOf[t] = bl.build(t).Cid()
		for _, n := range t.names() {
			reg(t.kids[n])
		}
	}
	ra, rb := bl.build(a), bl.build(b)
	reg(a)
	reg(b)

	var onPath, all []pathNode
	changedPairs(a, b, 1, "", &onPath)
	allNodes(a, 1, "", &all)
	allNodes(b, 1, "", &all)
	if len(all) == 0 {
		return
	}
	bad := map[string]bool{}
	maxDepthOnPath := 0
	for i := r.Range(1, 3); i > 0; i-- {
		var pn pathNode
		if len(onPath) > 0 && r.Chance(3, 4) {
			// prefer deep nodes on a changed path
			pn = onPath[r.Intn(len(onPath))]
			if q := onPath[r.Intn(len(onPath))]; q.depth > pn.depth {
				pn = q
			}
		} else {
			pn = all[r.Intn(len(all))]
		}
		c := cidOf[pn.t]
		if c.Equals(ra.Cid()) || c.Equals(rb.Cid()) {
			continue
		}
		bad[c.KeyString()] = true
		k.Logf("fault: Get(%s) fails (node at depth %d, %s, dir=%v)", short(c), pn.depth, pn.path, pn.t.dir)
	}
	if len(bad) == 0 {
		return
	}
	for _, pn := range onPath {
		if bad[cidOf[pn.t].KeyString()] && pn.depth > maxDepthOnPath {
			maxDepthOnPath = pn.depth
		}
	}

	for dir := 0; dir < 2; dir++ {
		from, to, label := ra.Cid(), rb.Cid(), "a->b"
		if dir == 1 {
			from, to, label = rb.Cid(), ra.Cid(), "b->a"
		}
		healthy := bl.service(ctx)
		fn, err := healthy.Get(ctx, from)
		if err != nil {
			panic(err)
		}
		tnode, err := healthy.Get(ctx, to)
		if err != nil {
			panic(err)
		}
		fd := &faultyDAG{DAGService: healthy, bad: bad}
		changes, err := dagutils.Diff(ctx, fd, fn, tnode)
		k.C.Count("fault_gets_hit", int64(len(fd.hits)))
		if err != nil {
			if len(fd.hits) == 0 {
				k.Fail("diff-error/"+errClass(err)+"/no-fault-reached", "Diff succeeds when every block it reads is readable", "nil", label+": "+err.Error())
			} else {
				k.Logf("%s Diff reported the read fault: %v (faulted Gets reached: %d)", label, err, len(fd.hits))
				k.C.Count("fault_reported_by_diff", 1)
			}
			continue
		}
		k.Logf("%s Diff (faulted Gets reached: %d) = %s", label, len(fd.hits), fmtChanges(changes))
		// nil error: the list must be complete. Apply it on a healthy store.
		fresh := bl.service(ctx)
		src, err := fresh.Get(ctx, from)
		if err != nil {
			panic(err)
		}
		res, err := dagutils.ApplyChange(ctx, fresh, src.(*mdag.ProtoNode), changes)
		cls := "apply-after-fault-free-diff"
		if len(fd.hits) > 0 {
			cls = "diff-error-swallowed"
		}
		switch {
		case err != nil:
			k.Fail(cls+"/apply-error/"+errClass(err), "Diff returned nil error, so its list applies", "nil", label+": "+err.Error())
		case !res.Cid().Equals(to):
			k.Fail(cls+"/partial-change-list", "Diff returns an error or a change list that reproduces b", to.String(), fmt.Sprintf("%s: nil error, %d faulted Gets reached, applying %s gives %s", label, len(fd.hits), fmtChanges(changes), res.Cid()))
		default:
			k.C.Count("fault_not_on_read_path_diff_complete", 1)
		}
	}
	if maxDepthOnPath >= 2 {
		k.Nontrivial()
	}
}
