// C34: bitswap messages round-trip through the v1/v0 wire formats and every
// block parsed from any wire bytes carries a CID computed from its own data.
//
// Stratum "api": a message is built through the public API from a generated
// operation list over a small pool of colliding CIDs (v0/v1 aliases, truncated
// and non-default hash functions, identity) while a reference model applies the
// documented merge rules; the message must equal the model, FromNet(ToNetV1)
// and FromNet(ToNetV0) must equal what the statement promises, and ~100
// byte-level mutants of both wire images are parsed under the parse monitor.
// Stratum "wire": protobuf messages crafted below the API (duplicate entries,
// legacy + payload blocks, odd/invalid prefixes, empty CIDs) are parsed and
// compared with the model of the receiving side.
//
// Parse monitor (every FromNet call, whatever the input): no panic; an error
// comes with a nil message; every block satisfies
// Cid().Prefix().Sum(RawData()) == Cid(); every CID is defined; the accepted
// message itself round-trips through v1 unchanged.
package main

import (
	"bytes"
	"encoding/binary"
	"fmt"
	"math"
	"sort"
	"strings"
	"testing/iotest"

	bsmsg "github.com/ipfs/boxo/bitswap/message"
	pb "github.com/ipfs/boxo/bitswap/message/pb"
	blocks "github.com/ipfs/go-block-format"
	cid "github.com/ipfs/go-cid"
	mh "github.com/multiformats/go-multihash"
	"google.golang.org/protobuf/proto"

	"verif/vlib"
)

func main() { vlib.Run("C34", run) }

func run(c *vlib.Ctx) {
	c.Rule("api: 0-70 ops {AddEntry,Cancel,Remove,AddBlock(honest|claimed CID != hash),AddBlockPresence/AddHave/AddDontHave,SetPendingBytes,Reset} over 6 payloads x 9 CID forms (v0, v1 dag-pb/raw, sha2-256 truncated to 20 and to 4 bytes, sha2-512, blake2b-256, sha3-224, identity), boundary priorities, full flag; v1+v0 wire images, each re-read whole and through a one-byte reader, plus ~100 byte-level mutants (flip, set, truncate, delete, insert, splice, length-prefix edits, field-level prefix/data edits). wire: crafted protobuf with duplicate entries, legacy+payload blocks, valid and invalid prefixes/CIDs. distinct = FNV of op list / crafted message; non-trivial = api: a merge on an existing entry, a block/presence collision and a block whose CID form is not the default v0/v1-sha2-256; wire: a duplicate entry or an invalid element")
	c.Cases("api", c.N(2000, 16000), apiCase)
	c.Cases("wire", c.N(1500, 10000), wireCase)
}

// ---------------------------------------------------------------- CID pool

type cidForm struct {
	name string
	mk   func(data []byte) cid.Cid
}

func sum(code uint64, length int, data []byte) mh.Multihash {
	h, err := mh.Sum(data, code, length)
	if err != nil {
		panic(err)
	}
	return h
}

var forms = []cidForm{
	{"v0", func(d []byte) cid.Cid { return cid.NewCidV0(sum(mh.SHA2_256, -1, d)) }},
	{"v1pb", func(d []byte) cid.Cid { return cid.NewCidV1(cid.DagProtobuf, sum(mh.SHA2_256, -1, d)) }},
	{"v1raw", func(d []byte) cid.Cid { return cid.NewCidV1(cid.Raw, sum(mh.SHA2_256, -1, d)) }},
	{"v1raw-sha256/20", func(d []byte) cid.Cid { return cid.NewCidV1(cid.Raw, sum(mh.SHA2_256, 20, d)) }},
	{"v1cbor-sha512", func(d []byte) cid.Cid { return cid.NewCidV1(cid.DagCBOR, sum(mh.SHA2_512, -1, d)) }},
	{"v1raw-blake2b256", func(d []byte) cid.Cid { return cid.NewCidV1(cid.Raw, sum(mh.BLAKE2B_MIN+31, -1, d)) }},
	{"v1pb-sha3-224", func(d []byte) cid.Cid { return cid.NewCidV1(cid.DagProtobuf, sum(mh.SHA3_224, -1, d)) }},
	{"v1raw-identity", func(d []byte) cid.Cid { return cid.NewCidV1(cid.Raw, sum(mh.IDENTITY, -1, d)) }},
	{"v1json-sha256/4", func(d []byte) cid.Cid { return cid.NewCidV1(cid.DagJSON, sum(mh.SHA2_256, 4, d)) }},
}

// digest sizes of the non-identity hash functions used by forms
var digestSize = map[uint64]int{mh.SHA2_256: 32, mh.SHA2_512: 64, mh.BLAKE2B_MIN + 31: 32, mh.SHA3_224: 28}

type pool struct {
	data [][]byte
}

func newPool(r *vlib.Rand) *pool {
	p := &pool{data: [][]byte{{}, []byte("a"), []byte("hello world")}}
	for len(p.data) < 6 {
		p.data = append(p.data, r.Bytes(r.Range(1, []int{8, 64, 600, 3000}[r.Intn(4)])))
	}
	return p
}

func (p *pool) pick(r *vlib.Rand) (c cid.Cid, data []byte, form string, di int) {
	di = r.Intn(len(p.data))
	f := forms[r.Intn(len(forms))]
	return f.mk(p.data[di]), p.data[di], f.name, di
}

var prios = []int32{0, 1, -1, 2, math.MaxInt32, math.MinInt32, 1 << 20}

func pickPrio(r *vlib.Rand) int32 {
	if r.Chance(2, 3) {
		return prios[r.Intn(len(prios))]
	}
	return int32(r.Uint64())
}

// ---------------------------------------------------------------- model

type mEntry struct {
	c      cid.Cid
	prio   int32
	cancel bool
	wt     pb.Message_Wantlist_WantType
	sdh    bool
}

type mBlock struct {
	c    cid.Cid // CID the block object carries
	data []byte
}

type model struct {
	full    bool
	pending int32
	entries map[string]*mEntry
	blocks  map[string]*mBlock
	pres    map[string]pb.Message_BlockPresenceType
	cids    map[string]cid.Cid
}

func newModel(full bool) *model {
	return &model{full: full, entries: map[string]*mEntry{}, blocks: map[string]*mBlock{}, pres: map[string]pb.Message_BlockPresenceType{}, cids: map[string]cid.Cid{}}
}

// addEntry follows the rules written next to message.addEntry: priority changes
// only for the same want type; cancel and send-dont-have only switch on;
// want-block overrides want-have (never the reverse). Returns whether it merged.
func (m *model) addEntry(c cid.Cid, prio int32, cancel bool, wt pb.Message_Wantlist_WantType, sdh bool) bool {
	k := c.KeyString()
	m.cids[k] = c
	e, ok := m.entries[k]
	if !ok {
		m.entries[k] = &mEntry{c, prio, cancel, wt, sdh}
		return false
	}
	if e.wt == wt {
		e.prio = prio
	}
	if cancel {
		e.cancel = true
	}
	if sdh {
		e.sdh = true
	}
	if wt == pb.Message_Wantlist_Block && e.wt == pb.Message_Wantlist_Have {
		e.wt = wt
	}
	return true
}

func (m *model) addBlock(c cid.Cid, data []byte) (collided bool) {
	k := c.KeyString()
	m.cids[k] = c
	_, collided = m.pres[k]
	delete(m.pres, k)
	m.blocks[k] = &mBlock{c, data}
	return
}

func (m *model) addPresence(c cid.Cid, t pb.Message_BlockPresenceType) (collided bool) {
	k := c.KeyString()
	m.cids[k] = c
	if _, ok := m.blocks[k]; ok {
		return true
	}
	m.pres[k] = t
	return false
}

// received is the model of the receiving side of the v1 format: payload blocks
// are re-keyed by prefix.Sum(data) (a block can only carry the CID its bytes
// hash to) and a presence for a CID that has a block is dropped.
func (m *model) received() *model {
	out := newModel(m.full)
	out.pending = m.pending
	for _, e := range m.entries {
		ee := *e
		out.entries[e.c.KeyString()] = &ee
		out.cids[e.c.KeyString()] = e.c
	}
	for _, b := range m.blocks {
		rc, err := b.c.Prefix().Sum(b.data)
		if err != nil {
			panic(err)
		}
		out.blocks[rc.KeyString()] = &mBlock{rc, b.data}
		out.cids[rc.KeyString()] = rc
	}
	for k, t := range m.pres {
		if _, ok := out.blocks[k]; !ok {
			out.pres[k] = t
			out.cids[k] = m.cids[k]
		}
	}
	return out
}

// ---------------------------------------------------------------- comparing

func wtName(t pb.Message_Wantlist_WantType) string {
	switch t {
	case pb.Message_Wantlist_Block:
		return "block"
	case pb.Message_Wantlist_Have:
		return "have"
	}
	return fmt.Sprintf("type%d", int32(t))
}

func entryText(c cid.Cid, prio int32, cancel bool, wt pb.Message_Wantlist_WantType, sdh bool) string {
	return fmt.Sprintf("%s prio=%d cancel=%v type=%s sendDontHave=%v", c, prio, cancel, wtName(wt), sdh)
}

func diffMaps(want, got map[string]string) string {
	var out []string
	for k, w := range want {
		g, ok := got[k]
		if !ok {
			out = append(out, "missing: "+w)
		} else if g != w {
			out = append(out, "want: "+w+" | got: "+g)
		}
	}
	for k, g := range got {
		if _, ok := want[k]; !ok {
			out = append(out, "extra: "+g)
		}
	}
	sort.Strings(out)
	if len(out) > 6 {
		out = append(out[:6], fmt.Sprintf("… %d more", len(out)-6))
	}
	return strings.Join(out, "\n")
}

func short(b []byte) string {
	if len(b) > 12 {
		return fmt.Sprintf("%x…(%dB)", b[:12], len(b))
	}
	return fmt.Sprintf("%x(%dB)", b, len(b))
}

type view struct {
	full                  bool
	pending               int32
	entries, blocks, pres map[string]string
	entriesV0, blockBytes map[string]string
	dupEntries, dupBlocks int
	undefined             int
}

func viewOfMsg(m bsmsg.BitSwapMessage) view {
	v := view{full: m.Full(), pending: m.PendingBytes(), entries: map[string]string{}, blocks: map[string]string{}, pres: map[string]string{}, entriesV0: map[string]string{}, blockBytes: map[string]string{}}
	for _, e := range m.Wantlist() {
		k := e.Cid.KeyString()
		if _, dup := v.entries[k]; dup {
			v.dupEntries++
		}
		if !e.Cid.Defined() {
			v.undefined++
		}
		v.entries[k] = entryText(e.Cid, e.Priority, e.Cancel, e.WantType, e.SendDontHave)
		v.entriesV0[k] = fmt.Sprintf("%s prio=%d cancel=%v", e.Cid, e.Priority, e.Cancel)
	}
	for _, b := range m.Blocks() {
		k := b.Cid().KeyString()
		if _, dup := v.blocks[k]; dup {
			v.dupBlocks++
		}
		if !b.Cid().Defined() {
			v.undefined++
		}
		v.blocks[k] = fmt.Sprintf("%s data=%s", b.Cid(), short(b.RawData()))
		v.blockBytes[string(b.RawData())] = short(b.RawData())
	}
	for _, p := range m.BlockPresences() {
		if !p.Cid.Defined() {
			v.undefined++
		}
		v.pres[p.Cid.KeyString()] = fmt.Sprintf("%s %s", p.Cid, p.Type)
	}
	return v
}

func viewOfModel(m *model) view {
	v := view{full: m.full, pending: m.pending, entries: map[string]string{}, blocks: map[string]string{}, pres: map[string]string{}, entriesV0: map[string]string{}, blockBytes: map[string]string{}}
	for k, e := range m.entries {
		v.entries[k] = entryText(e.c, e.prio, e.cancel, e.wt, e.sdh)
		v.entriesV0[k] = fmt.Sprintf("%s prio=%d cancel=%v", e.c, e.prio, e.cancel)
	}
	for k, b := range m.blocks {
		v.blocks[k] = fmt.Sprintf("%s data=%s", b.c, short(b.data))
		v.blockBytes[string(b.data)] = short(b.data)
	}
	for k, t := range m.pres {
		v.pres[k] = fmt.Sprintf("%s %s", m.cids[k], t)
	}
	return v
}

// compareV1 reports the first differing component between two views under
// class prefix pre.
func compareV1(k *vlib.Case, pre, clause string, want, got view) bool {
	ok := true
	if d := diffMaps(want.entries, got.entries); d != "" {
		k.Fail(pre+"/entries", clause, "same wantlist entries (cid, priority, type, cancel, sendDontHave)", d)
		ok = false
	}
	if d := diffMaps(want.blocks, got.blocks); d != "" {
		k.Fail(pre+"/blocks", clause, "same blocks (cid computed from data, bytes)", d)
		ok = false
	}
	if d := diffMaps(want.pres, got.pres); d != "" {
		k.Fail(pre+"/presences", clause, "same block presences", d)
		ok = false
	}
	if want.full != got.full {
		k.Fail(pre+"/full", clause, fmt.Sprint(want.full), fmt.Sprint(got.full))
		ok = false
	}
	if want.pending != got.pending {
		k.Fail(pre+"/pending-bytes", clause, fmt.Sprint(want.pending), fmt.Sprint(got.pending))
		ok = false
	}
	return ok
}

// ---------------------------------------------------------------- parse monitor

type counters struct {
	parses, accepted, rejected, blocksCertified, reparsed int64
}

// parse runs FromNet under the parse monitor. what describes the input for the
// witness; origin is "honest", "mutant", "crafted".
func parse(k *vlib.Case, ct *counters, wire []byte, oneByte bool, origin, what string) (bsmsg.BitSwapMessage, error) {
	ct.parses++
	var rd = bytes.NewReader(wire)
	var m bsmsg.BitSwapMessage
	var n int
	var err error
	if oneByte {
		m, n, err = bsmsg.FromNet(iotest.OneByteReader(rd))
	} else {
		m, n, err = bsmsg.FromNet(rd)
	}
	if err != nil {
		ct.rejected++
		if m != nil {
			k.Fail("parse/error-with-message", "malformed input is rejected, not partially returned", "nil message with the error", fmt.Sprintf("%s: err=%v and a message with %d entries, %d blocks; wire=%x", what, err, len(m.Wantlist()), len(m.Blocks()), clip(wire)))
		}
		return nil, err
	}
	ct.accepted++
	if m == nil {
		k.Fail("parse/nil-message", "FromNet returns a message or an error", "message", what+": nil, nil")
		return nil, nil
	}
	// consumed = payload length announced by the prefix
	if l, ln := binary.Uvarint(wire); ln > 0 && int(l) != n {
		k.Fail("parse/length", "FromNet reports the payload length", fmt.Sprint(l), fmt.Sprintf("%s: %d", what, n))
	}
	v := viewOfMsg(m)
	if v.undefined > 0 {
		k.Fail("parse/undefined-cid/"+origin, "every parsed CID is defined", "defined CIDs", fmt.Sprintf("%s: %d undefined; wire=%x", what, v.undefined, clip(wire)))
	}
	for _, b := range m.Blocks() {
		rc, err := b.Cid().Prefix().Sum(b.RawData())
		if err != nil || !rc.Equals(b.Cid()) {
			k.Fail("self-certifying/"+origin, "b.Cid().Prefix().Sum(b.RawData()) == b.Cid()", b.Cid().String(), fmt.Sprintf("%s: recomputed %v err=%v data=%s wire=%x", what, rc, err, short(b.RawData()), clip(wire)))
		} else {
			ct.blocksCertified++
		}
	}
	// an accepted message is a message: it must itself survive v1 unchanged
	if origin != "honest" {
		var buf bytes.Buffer
		if err := m.ToNetV1(&buf); err != nil {
			k.Fail("reparse/serialize/"+origin, "an accepted message can be serialized", "nil", fmt.Sprintf("%s: %v", what, err))
			return m, nil
		}
		m2, _, err := bsmsg.FromNet(bytes.NewReader(buf.Bytes()))
		ct.reparsed++
		if err != nil {
			k.Fail("reparse/error/"+origin, "v1 image of an accepted message parses", "nil", fmt.Sprintf("%s: %v; accepted wire=%x", what, err, clip(wire)))
			return m, nil
		}
		compareV1(k, "reparse/"+origin, "FromNet(ToNetV1(m)) == m for a message accepted from "+origin+" bytes ("+what+")", v, viewOfMsg(m2))
	}
	return m, nil
}

func clip(b []byte) []byte {
	if len(b) > 700 {
		return b[:700]
	}
	return b
}

// ---------------------------------------------------------------- api stratum

func apiCase(k *vlib.Case) {
	r := k.R
	p := newPool(r)
	var ct counters
	full := r.Bool()
	m := bsmsg.New(full)
	mod := newModel(full)
	k.Logf("New(full=%v) payload sizes=%v", full, func() (s []int) {
		for _, d := range p.data {
			s = append(s, len(d))
		}
		return
	}())
	sawMerge, sawCollision, sawOddForm := false, false, false
	n := r.Range(0, 70)
	if r.Chance(1, 10) {
		n = r.Range(0, 3)
	}
	for i := 0; i < n; i++ {
		switch op := r.Intn(100); {
		case op < 34:
			c, _, fn, di := p.pick(r)
			prio, wt, sdh := pickPrio(r), pb.Message_Wantlist_WantType(r.Intn(2)), r.Bool()
			k.Logf("AddEntry %s/d%d prio=%d %s sdh=%v", fn, di, prio, wtName(wt), sdh)
			sz := m.AddEntry(c, prio, wt, sdh)
			merged := mod.addEntry(c, prio, false, wt, sdh)
			sawMerge = sawMerge || merged
			if merged != (sz == 0) {
				k.Fail("api/addentry-size", "AddEntry returns 0 exactly when it merged into an existing entry", fmt.Sprintf("merged=%v", merged), fmt.Sprintf("size=%d", sz))
			}
		case op < 46:
			c, _, fn, di := p.pick(r)
			k.Logf("Cancel %s/d%d", fn, di)
			m.Cancel(c)
			sawMerge = mod.addEntry(c, 0, true, pb.Message_Wantlist_Block, false) || sawMerge
		case op < 52:
			c, _, fn, di := p.pick(r)
			k.Logf("Remove %s/d%d", fn, di)
			m.Remove(c)
			delete(mod.entries, c.KeyString())
		case op < 72:
			c, data, fn, di := p.pick(r)
			honest := true
			if r.Chance(1, 5) { // block object claiming a CID its bytes do not hash to
				honest = false
				data = p.data[(di+1+r.Intn(len(p.data)-1))%len(p.data)]
			}
			k.Logf("AddBlock %s/d%d honest=%v len=%d", fn, di, honest, len(data))
			b, err := blocks.NewBlockWithCid(data, c)
			if err != nil {
				panic(err)
			}
			m.AddBlock(b)
			sawCollision = mod.addBlock(c, data) || sawCollision
			sawOddForm = sawOddForm || (fn != "v0" && fn != "v1pb" && fn != "v1raw")
		case op < 90:
			c, _, fn, di := p.pick(r)
			t := pb.Message_BlockPresenceType(r.Intn(2))
			switch r.Intn(3) {
			case 0:
				k.Logf("AddBlockPresence %s/d%d %s", fn, di, t)
				m.AddBlockPresence(c, t)
			case 1:
				t = pb.Message_Have
				k.Logf("AddHave %s/d%d", fn, di)
				m.AddHave(c)
			default:
				t = pb.Message_DontHave
				k.Logf("AddDontHave %s/d%d", fn, di)
				m.AddDontHave(c)
			}
			sawCollision = mod.addPresence(c, t) || sawCollision
		case op < 98:
			v := pickPrio(r)
			k.Logf("SetPendingBytes %d", v)
			m.SetPendingBytes(v)
			mod.pending = v
		default:
			f := r.Bool()
			k.Logf("Reset(full=%v)", f)
			m.Reset(f)
			mod = newModel(f)
		}
	}
	if sawMerge && sawCollision && sawOddForm {
		k.Nontrivial()
	}

	// (a) the built message equals the model (documented merge rules)
	mv, wantv := viewOfMsg(m), viewOfModel(mod)
	if !compareV1(k, "api", "message built through the API follows the documented merge rules", wantv, mv) {
		return
	}
	if mv.dupEntries+mv.dupBlocks > 0 {
		k.Fail("api/duplicates", "Wantlist()/Blocks() hold unique keys", "0", fmt.Sprint(mv.dupEntries+mv.dupBlocks))
	}
	haves, dont := 0, 0
	for _, t := range mod.pres {
		if t == pb.Message_Have {
			haves++
		} else {
			dont++
		}
	}
	if len(m.Haves()) != haves || len(m.DontHaves()) != dont || m.Empty() != (len(mod.entries)+len(mod.blocks)+len(mod.pres) == 0) {
		k.Fail("api/accessors", "Haves/DontHaves/Empty agree with the contents", fmt.Sprintf("haves=%d donthaves=%d", haves, dont), fmt.Sprintf("haves=%d donthaves=%d empty=%v", len(m.Haves()), len(m.DontHaves()), m.Empty()))
	}

	// (b) v1 round trip
	var w1 bytes.Buffer
	if err := m.ToNetV1(&w1); err != nil {
		k.Fail("v1/serialize", "ToNetV1 succeeds", "nil", err.Error())
		return
	}
	recvWant := viewOfModel(mod.received())
	for _, oneByte := range []bool{false, true} {
		m1, err := parse(k, &ct, w1.Bytes(), oneByte, "honest", "v1 image")
		if err != nil {
			k.Fail("v1/error", "the v1 image of a message parses", "nil", err.Error())
			return
		}
		if m1 != nil {
			compareV1(k, "v1", "FromNet(ToNetV1(m)) yields the same entries, blocks (CID from data), presences, full, pendingBytes", recvWant, viewOfMsg(m1))
		}
	}

	// (c) v0 round trip: wantlist (cid, priority, cancel), full, block bytes
	var w0 bytes.Buffer
	if err := m.ToNetV0(&w0); err != nil {
		k.Fail("v0/serialize", "ToNetV0 succeeds", "nil", err.Error())
		return
	}
	m0, err := parse(k, &ct, w0.Bytes(), r.Bool(), "honest", "v0 image")
	if err != nil {
		k.Fail("v0/error", "the v0 image of a message parses", "nil", err.Error())
		return
	}
	if m0 != nil {
		v0 := viewOfMsg(m0)
		if d := diffMaps(wantv.entriesV0, v0.entriesV0); d != "" {
			k.Fail("v0/entries", "v0 preserves the wantlist (cid, priority, cancel)", "same entries", d)
		}
		if d := diffMaps(wantv.blockBytes, v0.blockBytes); d != "" {
			k.Fail("v0/blocks", "v0 preserves the block bytes", "same set of block byte strings", d)
		}
		if v0.full != wantv.full {
			k.Fail("v0/full", "v0 preserves the full flag", fmt.Sprint(wantv.full), fmt.Sprint(v0.full))
		}
		if d := diffMaps(wantv.entries, v0.entries); d == "" {
			k.C.Count("v0_images_that_also_kept_type_and_senddonthave", 1)
		}
	}

	// (d) mutants of both images under the parse monitor
	nm := 50
	for _, img := range []struct {
		name string
		b    []byte
	}{{"v1", w1.Bytes()}, {"v0", w0.Bytes()}} {
		for j := 0; j < nm && !k.Failed(); j++ {
			mut, how := mutate(r, img.b)
			parse(k, &ct, mut, false, "mutant", img.name+" image, "+how)
		}
	}
	c := k.C
	c.Count("api_ops", int64(n))
	c.Count("parses", ct.parses)
	c.Count("parses_accepted", ct.accepted)
	c.Count("parses_rejected", ct.rejected)
	c.Count("blocks_certified", ct.blocksCertified)
	c.Count("accepted_foreign_messages_reparsed", ct.reparsed)
	c.Count("wire_bytes", int64(w1.Len()+w0.Len()))
}

// ---------------------------------------------------------------- mutation

func putUvarint(v uint64) []byte {
	var b [binary.MaxVarintLen64]byte
	return append([]byte(nil), b[:binary.PutUvarint(b[:], v)]...)
}

func frame(body []byte) []byte { return append(putUvarint(uint64(len(body))), body...) }

// mutate returns a byte-level mutant of a framed wire image and a description.
func mutate(r *vlib.Rand, wire []byte) ([]byte, string) {
	out := append([]byte(nil), wire...)
	l, ln := binary.Uvarint(wire)
	body := wire
	if ln > 0 && int(l) <= len(wire)-ln {
		body = wire[ln:]
	}
	pos := func(b []byte) int {
		if len(b) == 0 {
			return 0
		}
		// bias towards the structured head of the message as well as uniform
		if r.Chance(1, 3) {
			return r.Intn(min(len(b), 64))
		}
		return r.Intn(len(b))
	}
	reframe := r.Chance(2, 3) // keep the outer length consistent so the protobuf layer is reached
	nb := append([]byte(nil), body...)
	var how string
	switch op := r.Intn(12); op {
	case 0, 1, 2:
		n := r.Range(1, 3)
		for i := 0; i < n && len(nb) > 0; i++ {
			p := pos(nb)
			nb[p] ^= 1 << uint(r.Intn(8))
		}
		how = fmt.Sprintf("flip %d bit(s)", n)
	case 3:
		if len(nb) > 0 {
			p := pos(nb)
			nb[p] = []byte{0, 1, 0x7f, 0x80, 0xff, byte(r.Intn(256))}[r.Intn(6)]
		}
		how = "set byte"
	case 4:
		if len(nb) > 0 {
			nb = nb[:r.Intn(len(nb))]
		}
		how = "truncate"
	case 5:
		if len(nb) > 1 {
			a := pos(nb)
			b := min(len(nb), a+r.Range(1, 16))
			nb = append(nb[:a:a], nb[b:]...)
		}
		how = "delete range"
	case 6:
		a := pos(nb)
		ins := r.Bytes(r.Range(1, 12))
		nb = append(nb[:a:a], append(ins, nb[a:]...)...)
		how = "insert random bytes"
	case 7:
		if len(nb) > 2 {
			a, b := pos(nb), pos(nb)
			if a > b {
				a, b = b, a
			}
			b = min(b+1, a+64)
			d := pos(nb)
			seg := append([]byte(nil), nb[a:b]...)
			nb = append(nb[:d:d], append(seg, nb[d:]...)...)
		}
		how = "splice (duplicate a range elsewhere)"
	case 8:
		// outer length prefix edit, body untouched
		reframe = false
		nl := []uint64{0, 1, uint64(len(body)) - 1, uint64(len(body)) + 1, uint64(len(body)) * 2, uint64(len(body)) + 127}[r.Intn(6)]
		if r.Chance(1, 10) {
			// rarely: lengths around the reader's 4 MiB limit (the reader allocates
			// the announced size before reading, which is slow)
			nl = []uint64{1 << 22, 1<<22 + 1, 1 << 40, math.MaxUint64}[r.Intn(4)]
		}
		out = append(putUvarint(nl), body...)
		return out, fmt.Sprintf("outer length prefix := %d", nl)
	case 9:
		// inner length edit: find a plausible length byte (a byte equal to a small
		// value followed by at least that many bytes) and change it
		if len(nb) > 2 {
			p := pos(nb)
			nb[p] = byte(int(nb[p]) + []int{1, -1, 2, 16, 127}[r.Intn(5)])
		}
		how = "inner length/tag byte +-"
	default:
		// field-level: decode, edit a payload prefix / data / cid bytes, re-encode
		var pm pb.Message
		if proto.Unmarshal(body, &pm) == nil {
			how = fieldMutate(r, &pm)
			if b, err := proto.Marshal(&pm); err == nil {
				nb = b
			}
		} else {
			how = "field-level (undecodable: unchanged)"
		}
		reframe = true
	}
	if reframe {
		return frame(nb), how + " (re-framed)"
	}
	if ln > 0 {
		return append(append([]byte(nil), wire[:ln]...), nb...), how + " (outer length kept)"
	}
	return nb, how
}

func fieldMutate(r *vlib.Rand, pm *pb.Message) string {
	tweak := func(b []byte) []byte {
		b = append([]byte(nil), b...)
		switch r.Intn(5) {
		case 0:
			if len(b) > 0 {
				b[r.Intn(len(b))] ^= 1 << uint(r.Intn(8))
			}
		case 1:
			if len(b) > 0 {
				b = b[:r.Intn(len(b))]
			}
		case 2:
			b = append(b, r.Bytes(r.Range(1, 4))...)
		case 3:
			if len(b) > 0 {
				b[len(b)-1] = byte(r.Intn(256))
			}
		default:
			b = nil
		}
		return b
	}
	switch x := r.Intn(6); {
	case x < 2 && len(pm.Payload) > 0:
		b := pm.Payload[r.Intn(len(pm.Payload))]
		b.Prefix = tweak(b.Prefix)
		return "payload prefix edited"
	case x < 3 && len(pm.Payload) > 0:
		b := pm.Payload[r.Intn(len(pm.Payload))]
		b.Data = tweak(b.Data)
		return "payload data edited"
	case x < 4 && pm.Wantlist != nil && len(pm.Wantlist.Entries) > 0:
		e := pm.Wantlist.Entries[r.Intn(len(pm.Wantlist.Entries))]
		e.Block = tweak(e.Block)
		return "entry cid bytes edited"
	case x < 5 && len(pm.BlockPresences) > 0:
		bp := pm.BlockPresences[r.Intn(len(pm.BlockPresences))]
		bp.Cid = tweak(bp.Cid)
		return "presence cid bytes edited"
	case len(pm.Payload) > 1:
		// swap prefixes of two payload blocks: each must re-hash under the other's prefix
		i, j := r.Intn(len(pm.Payload)), r.Intn(len(pm.Payload))
		pm.Payload[i].Prefix, pm.Payload[j].Prefix = pm.Payload[j].Prefix, pm.Payload[i].Prefix
		return "payload prefixes swapped"
	}
	if len(pm.Blocks) > 0 {
		i := r.Intn(len(pm.Blocks))
		pm.Blocks[i] = tweak(pm.Blocks[i])
		return "legacy block bytes edited"
	}
	return "field-level (nothing to edit)"
}

// ---------------------------------------------------------------- wire stratum

// wireCase crafts a protobuf message below the API and compares the parse
// result with the model of the receiving side: entries merge in wire order by
// the documented rules, legacy blocks become CIDv0, payload blocks get
// prefix.Sum(data), a presence for a CID with a block is dropped, and one
// definitely malformed element makes the whole message an error.
func wireCase(k *vlib.Case) {
	r := k.R
	p := newPool(r)
	var ct counters
	pm := &pb.Message{}
	full := r.Bool()
	mod := newModel(false)
	invalid := ""
	dup := false
	noteInvalid := func(s string) {
		if invalid == "" {
			invalid = s
		}
	}
	hasWL := r.Chance(9, 10)
	if hasWL {
		pm.Wantlist = &pb.Message_Wantlist{Full: full}
		mod.full = full
		for i, n := 0, r.Range(0, 25); i < n; i++ {
			c, _, fn, di := p.pick(r)
			e := &pb.Message_Wantlist_Entry{Block: c.Bytes(), Priority: pickPrio(r), Cancel: r.Chance(1, 3), WantType: pb.Message_Wantlist_WantType(r.Intn(2)), SendDontHave: r.Bool()}
			if r.Chance(1, 40) {
				switch r.Intn(4) {
				case 0:
					e.Block = nil
					noteInvalid("entry with empty cid")
				case 1:
					e.Block = e.Block[:len(e.Block)-1-r.Intn(3)]
					noteInvalid("entry cid truncated")
				case 2:
					e.Block = append([]byte{2}, e.Block...)
					noteInvalid("entry cid with version 2")
				default:
					if fn != "v0" {
						e.Block = append(e.Block, 0)
						noteInvalid("entry cid with a trailing byte")
					}
				}
			}
			k.Logf("entry %s/d%d prio=%d cancel=%v %s sdh=%v bytes=%x", fn, di, e.Priority, e.Cancel, wtName(e.WantType), e.SendDontHave, e.Block)
			pm.Wantlist.Entries = append(pm.Wantlist.Entries, e)
			if invalid == "" {
				dup = mod.addEntry(c, e.Priority, e.Cancel, e.WantType, e.SendDontHave) || dup
			}
		}
	}
	for i, n := 0, r.Range(0, 6); i < n; i++ {
		d := p.data[r.Intn(len(p.data))]
		k.Logf("legacy block len=%d", len(d))
		pm.Blocks = append(pm.Blocks, d)
		mod.addBlock(forms[0].mk(d), d)
	}
	for i, n := 0, r.Range(0, 12); i < n; i++ {
		c, d, fn, di := p.pick(r)
		pref := c.Prefix()
		b := &pb.Message_Block{Data: d, Prefix: pref.Bytes()}
		desc := fn
		if r.Chance(1, 12) {
			switch r.Intn(6) {
			case 0:
				b.Prefix = nil
				noteInvalid("payload with empty prefix")
				desc = "empty prefix"
			case 1:
				b.Prefix = b.Prefix[:r.Intn(len(b.Prefix))]
				noteInvalid("payload with truncated prefix")
				desc = "truncated prefix"
			case 2:
				pref.Version = 2
				b.Prefix = pref.Bytes()
				noteInvalid("payload prefix with cid version 2")
				desc = "version 2"
			case 3:
				if size, ok := digestSize[pref.MhType]; ok {
					pref.MhLength = size + 1 + r.Intn(40)
					b.Prefix = pref.Bytes()
					noteInvalid("payload prefix with digest length beyond the hash size")
					desc = "mhlen too large"
				}
			case 4:
				pref.MhType = 0x3fff0 // unassigned code
				b.Prefix = pref.Bytes()
				noteInvalid("payload prefix with an unknown hash function")
				desc = "unknown mh code"
			default:
				if pref.Version == 1 && pref.MhType != mh.IDENTITY && pref.MhLength > 4 {
					// valid but unusual: shorter digest than the sender's CID form
					pref.MhLength = r.Range(0, pref.MhLength-1)
					b.Prefix = pref.Bytes()
					desc = fmt.Sprintf("%s truncated to %d", fn, pref.MhLength)
				}
			}
		}
		k.Logf("payload %s/d%d len=%d prefix=%x", desc, di, len(d), b.Prefix)
		pm.Payload = append(pm.Payload, b)
		if invalid == "" {
			rc, err := pref.Sum(d)
			if err != nil {
				panic(fmt.Sprintf("harness: prefix %+v: %v", pref, err))
			}
			mod.addBlock(rc, d)
		}
	}
	for i, n := 0, r.Range(0, 12); i < n; i++ {
		c, _, fn, di := p.pick(r)
		bp := &pb.Message_BlockPresence{Cid: c.Bytes(), Type: pb.Message_BlockPresenceType(r.Intn(2))}
		if r.Chance(1, 40) {
			if r.Bool() {
				bp.Cid = nil
				noteInvalid("presence with empty cid")
			} else {
				bp.Cid = bp.Cid[:len(bp.Cid)-1]
				noteInvalid("presence cid truncated")
			}
		}
		k.Logf("presence %s/d%d %s bytes=%x", fn, di, bp.Type, bp.Cid)
		pm.BlockPresences = append(pm.BlockPresences, bp)
		if invalid == "" {
			mod.addPresence(c, bp.Type)
		}
	}
	pm.PendingBytes = pickPrio(r)
	mod.pending = pm.PendingBytes
	k.Logf("pendingBytes=%d wantlist=%v full=%v invalid=%q", pm.PendingBytes, hasWL, full, invalid)

	body, err := proto.Marshal(pm)
	if err != nil {
		panic(err)
	}
	wire := frame(body)
	m, err := parse(k, &ct, wire, r.Chance(1, 4), "crafted", "crafted message")
	if dup || invalid != "" {
		k.Nontrivial()
	}
	switch {
	case invalid != "" && err == nil:
		k.Fail("wire/accepted-malformed", "malformed input is rejected", "error ("+invalid+")", fmt.Sprintf("accepted; wire=%x", clip(wire)))
	case invalid == "" && err != nil:
		k.Fail("wire/rejected-wellformed", "a well-formed message parses", "message", fmt.Sprintf("%v; wire=%x", err, clip(wire)))
	case invalid == "" && m != nil:
		compareV1(k, "wire", "parse of a crafted well-formed message equals the receiving-side model (merge in wire order, CID from data, presence dropped when the block is there)", viewOfModel(mod), viewOfMsg(m))
	}
	for j := 0; j < 30 && !k.Failed(); j++ {
		mut, how := mutate(r, wire)
		parse(k, &ct, mut, false, "mutant", "crafted image, "+how)
	}
	c := k.C
	c.Count("parses", ct.parses)
	c.Count("parses_accepted", ct.accepted)
	c.Count("parses_rejected", ct.rejected)
	c.Count("blocks_certified", ct.blocksCertified)
	c.Count("accepted_foreign_messages_reparsed", ct.reparsed)
	if invalid != "" {
		c.Count("crafted_malformed_messages", 1)
	}
}
