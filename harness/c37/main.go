// C37: whole bitswap nodes (client + server) from bitswap/testinstance over
// bitswap/testnet.VirtualNetwork run scripted request mixes: GetBlocks,
// GetBlock and session fetches, overlapping on the same node, with duplicate
// keys, keys nobody holds, blocks that appear on a peer only after the request
// started, and cancellation after k deliveries / immediately / on a timer.
// Every block coming out of every request channel is recorded with a logical
// timestamp; GetWantlist()/GetWantBlocks()/GetWantHaves() of every requester
// are sampled. Oracle: received ⊆ requested, each CID at most once per
// request, bytes equal the block's bytes, every key held by another node is
// delivered to every non-cancelled request, and once all requests of a node are
// over its want-list holds none of the requested CIDs. Safety clauses are
// decided on first observation; the two progress clauses on stable state only.
package main

import (
	"bytes"
	"context"
	"fmt"
	mrand "math/rand"
	"sort"
	"strings"
	"sync"
	"sync/atomic"
	"time"

	"github.com/ipfs/boxo/bitswap"
	bsmsg "github.com/ipfs/boxo/bitswap/message"
	testinstance "github.com/ipfs/boxo/bitswap/testinstance"
	tn "github.com/ipfs/boxo/bitswap/testnet"
	"github.com/ipfs/boxo/exchange"
	mockrouting "github.com/ipfs/boxo/routing/mock"
	blocks "github.com/ipfs/go-block-format"
	cid "github.com/ipfs/go-cid"
	delay "github.com/ipfs/go-ipfs-delay"
	p2ptestutil "github.com/libp2p/go-libp2p-testing/netutil"
	"github.com/libp2p/go-libp2p/core/peer"
	mh "github.com/multiformats/go-multihash"

	"verif/vlib"
)

const (
	// stable-state windows (wall clock is used only to call a state "stable")
	cleanupStable = 5 * time.Second // want-list leftover unchanged this long => not cleared
	// not-delivered is decided when nothing (delivery, close, cancel,
	// placement) happened for:
	droppedStable = 10 * time.Second // ... and no missing key is in the requester's want-list (nobody is being asked any more)
	deliverStable = 75 * time.Second // ... while a missing key is still wanted: bitswap re-sends wants older than 30 s on a 30 s timer, so a retry can take 60 s (thorough tier only)
	quickGiveUp   = 12 * time.Second // quick tier: such a request is inconclusive after this long
	sampleEvery   = 10 * time.Millisecond
	caseWatchdog  = 300 * time.Second
)

func main() { vlib.Run("C37", run) }

func run(c *vlib.Ctx) {
	c.Rule("one case = one virtual network of 2-6 fully connected testinstance nodes (link latency fixed 0/1/5/20 ms or per-link uniform, provider-search delay 1s/200ms/50ms), 4-24 unique blocks (CIDv0 and CIDv1-raw) placed on 0-3 nodes each (some only after the requests started), 1-7 requests {GetBlocks, session.GetBlocks on shared sessions, GetBlock} with duplicate keys started within 0-30 ms on 1-3 requester nodes, cancellation {never, after k deliveries, immediately, timer}. Strata: complete = no cancellation, only obtainable keys; mix = everything; cancel = every request cancelled; in these three, fetches on one session never share a key (that is the trigger of the known same-session defects); sessshare = two staggered fetches on one session share all keys, nothing cancelled; sesscancel = the same with the first one cancelled. longsess = 2-3 nodes with ProviderSearchDelay 300-500 ms (RebroadcastDelay twice that), 1-3 fetches with disjoint keys that nobody holds on 1-2 long-lived sessions, each cancelled by the harness once its wants are on the node's want-list and in a peer's ledger; the sessions stay open and the want-list of the requester and the peers' ledger view (WantlistForPeer) are watched for 10 idle periods. bigreq = 2-3 nodes over a 100-150 ms network, one session fetch of 66-90 distinct keys (more than the 64-key broadcast limit) of which a peer holds 1-3 among the first 64, cancelled by the harness the moment a key beyond the 64th is listed as a targeted want (want-block/want-have in flight); burst = 3 nodes, 5-10 ms latency, 16 plain GetBlocks calls (temporary sessions) of 4 disjoint held keys each on one node, started within 30 ms and cancelled on a timer 15-50 ms after the call. distinct = FNV of the observed history shape (per request: kind, node, keys, distinct keys, deliveries, how it ended); non-trivial = a block was delivered from a remote node and (two requests of one node overlapped in logical time and shared a key, or a request was cancelled after >= 1 delivery); bigreq: the fetch was cancelled while a targeted want beyond the broadcast limit was in flight; longsess: every fetch was cancelled after its wants had been seen in a peer's ledger and the watch covered >= 3 idle periods")
	c.Cases("complete", c.N(16, 400), func(k *vlib.Case) { netCase(k, "complete") })
	c.Cases("mix", c.N(24, 500), func(k *vlib.Case) { netCase(k, "mix") })
	c.Cases("cancel", c.N(16, 400), func(k *vlib.Case) { netCase(k, "cancel") })
	c.Cases("sessshare", c.N(4, 80), func(k *vlib.Case) { netCase(k, "sessshare") })
	c.Cases("sesscancel", c.N(4, 64), func(k *vlib.Case) { netCase(k, "sesscancel") })
	c.Cases("longsess", c.N(8, 160), longSessCase)
	c.Cases("bigreq", c.N(4, 48), bigReqCase)
	c.Cases("burst", c.N(16, 200), burstCase)
}

// ---------------------------------------------------------------- script

type blockInfo struct {
	blk     blocks.Block
	name    string
	holders []int // initial holders
	late    int   // node that gets the block late (-1 none)
	lateMs  int
	lateT0  atomic.Int64 // logical time just before the late Blockstore.Put
	lateT1  atomic.Int64 // logical time just after NotifyNewBlocks returned (0 = not placed yet)
}

type recv struct {
	c           cid.Cid
	bytesOK     bool
	t           int64
	afterCancel bool
}

type req struct {
	id           int
	node         int
	kind         string // getblocks | session | getblock
	sess         int
	keys         []int // block indices, duplicates allowed
	startMs      int
	cancelAfter  int  // cancel after this many deliveries (0 = immediately after the call returned, -1 = no)
	cancelMs     int  // cancel on a timer this many ms after the call (-1 = no)
	whenTargeted bool // bigreq: the harness cancels once a key beyond the 64-key broadcast limit is listed as a want-block/want-have
	whenSent     bool // longsess: the harness cancels once every key is on the want-list and in a peer's ledger

	mu        sync.Mutex // guards everything below
	got       []recv
	cancelFn  context.CancelFunc
	cancelled bool
	cancelHow string
	cancelT   int64
	tStart    int64
	tEnd      int64
	closed    bool
	callErr   error
	gbErr     error // GetBlock result error
}

// doCancel cancels the request context unless the request is already over.
func (r *req) doCancel(w *world, how string) {
	r.mu.Lock()
	if r.closed {
		r.mu.Unlock()
		return
	}
	if !r.cancelled {
		r.cancelHow = how
		r.cancelT = w.clock.Add(1)
		r.cancelled = true
		w.events.Add(1)
	}
	fn := r.cancelFn
	r.mu.Unlock()
	if fn != nil {
		fn()
	}
}

// state is a consistent copy of the observed part of a request.
type state struct {
	got                   []recv
	cancelled, closed     bool
	cancelHow             string
	cancelT, tStart, tEnd int64
	callErr, gbErr        error
}

func (r *req) snap() state {
	r.mu.Lock()
	defer r.mu.Unlock()
	return state{append([]recv(nil), r.got...), r.cancelled, r.closed, r.cancelHow, r.cancelT, r.tStart, r.tEnd, r.callErr, r.gbErr}
}

// nodeTracer is the bitswap tracer of one node: it records which blocks the
// node received from the network (whether or not any request took them).
type nodeTracer struct {
	clock     *atomic.Int64
	mu        sync.Mutex
	recv      map[string]int
	firstRecv map[string]int64 // logical time of the first arrival of the block
	w         *world
	// what the OTHER nodes saw arriving from this node (filled by their tracers)
	dontHaves   map[string]int64 // "<sender node>/<cid>" -> logical time of the last DONT_HAVE this node received
	wantsSeen   map[string]int   // want entries for the CID that reached some peer
	cancelsSeen map[string]int   // cancel entries for the CID that reached some peer
}

func (t *nodeTracer) MessageReceived(from peer.ID, m bsmsg.BitSwapMessage) {
	if wl := m.Wantlist(); len(wl) > 0 {
		if st := t.w.tracerOf(from); st != nil {
			st.mu.Lock()
			for _, e := range wl {
				if e.Cancel {
					st.cancelsSeen[e.Cid.KeyString()]++
				} else {
					st.wantsSeen[e.Cid.KeyString()]++
				}
			}
			st.mu.Unlock()
		}
	}
	if dh := m.DontHaves(); len(dh) > 0 {
		t.w.peersMu.RLock()
		idx, ok := t.w.peerIdx[from]
		t.w.peersMu.RUnlock()
		if ok {
			now := t.clock.Add(1)
			t.mu.Lock()
			for _, c := range dh {
				t.dontHaves[fmt.Sprint(idx, "/", c.KeyString())] = now
			}
			t.mu.Unlock()
		}
	}
	bl := m.Blocks()
	if len(bl) == 0 {
		return
	}
	now := t.clock.Add(1)
	t.mu.Lock()
	for _, b := range bl {
		ks := b.Cid().KeyString()
		t.recv[ks]++
		if _, ok := t.firstRecv[ks]; !ok {
			t.firstRecv[ks] = now
		}
	}
	t.mu.Unlock()
}

func (t *nodeTracer) MessageSent(peer.ID, bsmsg.BitSwapMessage) {} // only the server side reports sends

// wire returns what the peers saw from this node for c: want entries, cancel entries.
func (t *nodeTracer) wire(c cid.Cid) (int, int) {
	t.mu.Lock()
	defer t.mu.Unlock()
	return t.wantsSeen[c.KeyString()], t.cancelsSeen[c.KeyString()]
}

func (w *world) tracerOf(p peer.ID) *nodeTracer {
	w.peersMu.RLock()
	defer w.peersMu.RUnlock()
	if i, ok := w.peerIdx[p]; ok {
		return w.tracers[i]
	}
	return nil
}

func (t *nodeTracer) received(c cid.Cid) int {
	t.mu.Lock()
	defer t.mu.Unlock()
	return t.recv[c.KeyString()]
}

type world struct {
	long        bool          // stratum longsess
	psd         time.Duration // provider search delay of the nodes
	watchedIdle int           // idle periods covered by the stay-clean watch
	peersMu     sync.RWMutex
	peerIdx     map[peer.ID]int
	k           *vlib.Case
	tracers     []*nodeTracer
	insts       []testinstance.Instance
	blks        []*blockInfo
	reqs        []*req
	sess        map[[2]int]exchange.Fetcher
	clock       atomic.Int64
	events      atomic.Int64 // deliveries + closes + cancels: progress fingerprint
	ctx         context.Context
}

func mkBlock(r *vlib.Rand, caseID string, i int) blocks.Block {
	data := append([]byte(fmt.Sprintf("c37/%s/%d/", caseID, i)), r.Bytes(r.Range(1, 300))...)
	if r.Chance(1, 3) {
		h, err := mh.Sum(data, mh.SHA2_256, -1)
		if err != nil {
			panic(err)
		}
		b, err := blocks.NewBlockWithCid(data, cid.NewCidV1(cid.Raw, h))
		if err != nil {
			panic(err)
		}
		return b
	}
	return blocks.NewBlock(data)
}

func netCase(k *vlib.Case, stratum string) {
	r := k.R
	n := r.Range(2, 6)
	latName := vlib.Pick(r, []string{"fixed0", "fixed1ms", "fixed5ms", "fixed20ms", "uniform0-10ms", "uniform5-25ms"})
	var d delay.D
	switch latName {
	case "fixed0":
		d = delay.Fixed(0)
	case "fixed1ms":
		d = delay.Fixed(time.Millisecond)
	case "fixed5ms":
		d = delay.Fixed(5 * time.Millisecond)
	case "fixed20ms":
		d = delay.Fixed(20 * time.Millisecond)
	case "uniform0-10ms":
		d = delay.VariableUniform(5*time.Millisecond, 5*time.Millisecond, mrand.New(mrand.NewSource(r.Int63())))
	default:
		d = delay.VariableUniform(15*time.Millisecond, 10*time.Millisecond, mrand.New(mrand.NewSource(r.Int63())))
	}
	psd := vlib.Pick(r, []time.Duration{time.Second, 200 * time.Millisecond, 50 * time.Millisecond})
	k.Logf("config nodes=%d latency=%s providerSearchDelay=%s stratum=%s", n, latName, psd, stratum)

	w := &world{k: k, sess: map[[2]int]exchange.Fetcher{}}
	ctx, cancelAll := context.WithCancel(context.Background())
	defer cancelAll()
	w.ctx = ctx

	// requester nodes
	nreq := 1
	if n > 2 && r.Chance(1, 2) {
		nreq = r.Range(1, min(3, n-1))
	}
	requesters := r.Perm(n)[:nreq]
	isRequester := map[int]bool{}
	for _, x := range requesters {
		isRequester[x] = true
	}

	// blocks and placement
	nb := r.Range(4, 24)
	for i := 0; i < nb; i++ {
		bi := &blockInfo{blk: mkBlock(r, k.ID, i), name: fmt.Sprintf("b%d", i), late: -1}
		switch {
		case stratum != "complete" && stratum != "sessshare" && r.Chance(1, 6):
			// held by nobody
		case r.Chance(1, 6):
			// appears late on a node that never requests
			var cands []int
			for x := 0; x < n; x++ {
				if !isRequester[x] {
					cands = append(cands, x)
				}
			}
			bi.late = vlib.Pick(r, cands)
			bi.lateMs = r.Range(1, 120)
		default:
			nh := vlib.Pick(r, []int{1, 1, 1, 2, 3})
			for _, x := range r.Perm(n) {
				if len(bi.holders) < nh && (!isRequester[x] || r.Chance(1, 4)) {
					bi.holders = append(bi.holders, x)
				}
			}
			// at least one holder that is not a requester
			ok := false
			for _, x := range bi.holders {
				ok = ok || !isRequester[x]
			}
			if !ok {
				for _, x := range r.Perm(n) {
					if !isRequester[x] {
						bi.holders = append(bi.holders, x)
						break
					}
				}
			}
			sort.Ints(bi.holders)
		}
		w.blks = append(w.blks, bi)
		k.Logf("block %s %s len=%d holders=%v late=%d@%dms", bi.name, bi.blk.Cid(), len(bi.blk.RawData()), bi.holders, bi.late, bi.lateMs)
	}

	// requests
	nr := r.Range(1, 7)
	hot := r.Perm(nb)[:min(nb, r.Range(2, 6))] // keys shared between requests
	for i := 0; i < nr; i++ {
		q := &req{id: i, node: vlib.Pick(r, requesters), cancelAfter: -1, cancelMs: -1, sess: -1}
		switch r.Intn(10) {
		case 0, 1, 2, 3:
			q.kind = "getblocks"
		case 4, 5, 6, 7:
			q.kind = "session"
			q.sess = r.Intn(2)
		default:
			q.kind = "getblock"
		}
		nk := vlib.Pick(r, []int{1, 2, 3, 5, 8, 12})
		if q.kind == "getblock" {
			nk = 1
		}
		for j := 0; j < nk; j++ {
			switch {
			case j > 0 && r.Chance(1, 8):
				q.keys = append(q.keys, q.keys[r.Intn(len(q.keys))]) // duplicate key
			case r.Chance(1, 2):
				q.keys = append(q.keys, vlib.Pick(r, hot))
			default:
				q.keys = append(q.keys, r.Intn(nb))
			}
		}
		q.startMs = vlib.Pick(r, []int{0, 0, 0, 1, 3, 10, 30})
		wantCancel := stratum == "cancel" || ((stratum == "mix" || stratum == "sesscancel") && r.Chance(1, 2))
		if stratum == "sessshare" && i >= 2 {
			break // exactly the two sharing fetches
		}
		if (stratum == "sesscancel" || stratum == "sessshare") && i < 2 {
			// the trigger: two fetches on one session share keys (sesscancel: the
			// first is cancelled; sessshare: nothing is cancelled, starts staggered)
			q.kind, q.sess, q.node = "session", 0, requesters[0]
			wantCancel = i == 0 && stratum == "sesscancel"
			if stratum == "sessshare" {
				q.startMs = []int{0, vlib.Pick(r, []int{1, 3, 10, 30})}[i]
			}
			if i == 1 {
				q.keys = append([]int(nil), w.reqs[0].keys...)
				vlib.Shuffle(r, q.keys)
			} else if len(q.keys) < 3 {
				q.keys = append(q.keys, vlib.Pick(r, hot), r.Intn(nb), r.Intn(nb))
			}
		}
		if wantCancel {
			switch r.Intn(6) {
			case 0:
				q.cancelAfter = 0
			case 1:
				q.cancelMs = vlib.Pick(r, []int{0, 1, 2, 5, 15, 40})
			case 2, 3:
				q.cancelAfter = 2
			default:
				q.cancelAfter = r.Range(1, max(1, len(q.keys)))
			}
		}
		w.reqs = append(w.reqs, q)
		if stratum != "sesscancel" && stratum != "sessshare" {
			w.avoidSharedSessionKeys(r, q)
		}
		var ks []string
		for _, x := range q.keys {
			ks = append(ks, w.blks[x].name)
		}
		k.Logf("request r%d node=%d kind=%s sess=%d start=%dms cancelAfter=%d cancelTimer=%dms keys=[%s]", q.id, q.node, q.kind, q.sess, q.startMs, q.cancelAfter, q.cancelMs, strings.Join(ks, " "))
	}

	ok := vlib.Guard(k, "network-case", caseWatchdog, func() { w.execute(n, d, psd) })
	if !ok {
		cancelAll()
	}
}

// avoidSharedSessionKeys keeps the strata other than sessshare/sesscancel
// away from the trigger of the known same-session defects: two fetches on one
// session never share a key. Conflicting keys of the new request q are replaced
// by obtainable keys unused on that session (or dropped; a request left
// without keys becomes a plain GetBlocks with its original keys).
func (w *world) avoidSharedSessionKeys(r *vlib.Rand, q *req) {
	if q.kind != "session" {
		return
	}
	orig := append([]int(nil), q.keys...)
	used := map[int]bool{}
	for _, o := range w.reqs {
		if o != q && o.kind == "session" && o.node == q.node && o.sess == q.sess {
			for _, x := range o.keys {
				used[x] = true
			}
		}
	}
	var out []int
	for _, x := range q.keys {
		if !used[x] {
			out = append(out, x)
			continue
		}
		for _, y := range r.Perm(len(w.blks)) {
			if !used[y] && w.available(q, y) {
				out = append(out, y)
				break
			}
		}
	}
	q.keys = out
	if len(q.keys) == 0 {
		q.kind, q.sess, q.keys = "getblocks", -1, orig
	}
}

// bigReqCase: a session fetch with more keys than the broadcast limit over a
// slow network, cancelled while a targeted want is unanswered.
func bigReqCase(k *vlib.Case) {
	r := k.R
	n := r.Range(2, 3)
	lat := vlib.Pick(r, []time.Duration{100 * time.Millisecond, 150 * time.Millisecond})
	psd := time.Second
	k.Logf("config nodes=%d latency=fixed%s providerSearchDelay=%s stratum=bigreq", n, lat, psd)
	w := &world{k: k, sess: map[[2]int]exchange.Fetcher{}}
	ctx, cancelAll := context.WithCancel(context.Background())
	defer cancelAll()
	w.ctx = ctx
	nb := r.Range(66, 90)
	q := &req{id: 0, node: 0, kind: "session", sess: 0, cancelAfter: -1, cancelMs: -1, whenTargeted: true}
	held := map[int]bool{}
	for len(held) < r.Range(1, 3) {
		held[r.Intn(64)] = true
	}
	var hs []string
	for i := 0; i < nb; i++ {
		bi := &blockInfo{blk: mkBlock(r, k.ID, i), name: fmt.Sprintf("b%d", i), late: -1}
		if held[i] {
			bi.holders = []int{r.Range(1, n-1)}
			hs = append(hs, fmt.Sprintf("%s@%d", bi.name, bi.holders[0]))
		}
		w.blks = append(w.blks, bi)
		q.keys = append(q.keys, i)
	}
	w.reqs = append(w.reqs, q)
	k.Logf("blocks b0..b%d, held: %s, the rest by nobody", nb-1, strings.Join(hs, " "))
	k.Logf("request r0 node=0 kind=session sess=0 keys=[b0 .. b%d] cancel=when a key beyond the 64th is listed as a targeted want", nb-1)
	if !vlib.Guard(k, "network-case", caseWatchdog, func() { w.execute(n, delay.Fixed(lat), psd) }) {
		cancelAll()
	}
}

// burstCase: many short GetBlocks calls (temporary sessions) of one node,
// each cancelled by a timer while the first answers are coming in.
func burstCase(k *vlib.Case) {
	r := k.R
	n := 3
	lat := vlib.Pick(r, []time.Duration{5 * time.Millisecond, 10 * time.Millisecond, 10 * time.Millisecond})
	psd := time.Second
	k.Logf("config nodes=%d latency=fixed%s providerSearchDelay=%s stratum=burst", n, lat, psd)
	w := &world{k: k, sess: map[[2]int]exchange.Fetcher{}}
	ctx, cancelAll := context.WithCancel(context.Background())
	defer cancelAll()
	w.ctx = ctx
	const nreq, per = 16, 4
	for i := 0; i < nreq*per; i++ {
		bi := &blockInfo{blk: mkBlock(r, k.ID, i), name: fmt.Sprintf("b%d", i), late: -1, holders: []int{r.Range(1, 2)}}
		if r.Chance(1, 3) {
			bi.holders = []int{1, 2}
		}
		w.blks = append(w.blks, bi)
	}
	k.Logf("blocks b0..b%d each held by node 1 and/or 2", nreq*per-1)
	for i := 0; i < nreq; i++ {
		q := &req{id: i, node: 0, kind: "getblocks", sess: -1, cancelAfter: -1, startMs: r.Intn(31)}
		q.cancelMs = r.Range(15, 50)
		for j := 0; j < per; j++ {
			q.keys = append(q.keys, i*per+j)
		}
		w.reqs = append(w.reqs, q)
		k.Logf("request r%d node=0 kind=getblocks start=%dms cancelTimer=%dms keys=[b%d..b%d]", i, q.startMs, q.cancelMs, i*per, i*per+per-1)
	}
	if !vlib.Guard(k, "network-case", caseWatchdog, func() { w.execute(n, delay.Fixed(lat), psd) }) {
		cancelAll()
	}
}

// longSessCase: long-lived sessions, keys nobody holds, cancellation after the
// wants went out, session kept open and watched over several idle periods.
func longSessCase(k *vlib.Case) {
	r := k.R
	n := r.Range(2, 3)
	latName := vlib.Pick(r, []string{"fixed0", "fixed1ms", "fixed5ms"})
	d := map[string]delay.D{"fixed0": delay.Fixed(0), "fixed1ms": delay.Fixed(time.Millisecond), "fixed5ms": delay.Fixed(5 * time.Millisecond)}[latName]
	psd := vlib.Pick(r, []time.Duration{300 * time.Millisecond, 400 * time.Millisecond, 500 * time.Millisecond})
	k.Logf("config nodes=%d latency=%s providerSearchDelay=%s rebroadcastDelay=%s stratum=longsess", n, latName, psd, 2*psd)
	w := &world{k: k, sess: map[[2]int]exchange.Fetcher{}, long: true}
	ctx, cancelAll := context.WithCancel(context.Background())
	defer cancelAll()
	w.ctx = ctx
	nb := r.Range(3, 8)
	for i := 0; i < nb; i++ {
		bi := &blockInfo{blk: mkBlock(r, k.ID, i), name: fmt.Sprintf("b%d", i), late: -1}
		w.blks = append(w.blks, bi)
		k.Logf("block %s %s held by nobody", bi.name, bi.blk.Cid())
	}
	nr := r.Range(1, min(3, nb))
	perm := r.Perm(nb)
	for i := 0; i < nr; i++ {
		q := &req{id: i, node: 0, kind: "session", sess: r.Intn(2), cancelAfter: -1, cancelMs: -1, whenSent: true, startMs: vlib.Pick(r, []int{0, 0, 1, 3})}
		// disjoint key sets: request i takes perm[i], perm[i+nr], ...
		for j := i; j < nb; j += nr {
			q.keys = append(q.keys, perm[j])
			if r.Chance(1, 6) {
				q.keys = append(q.keys, perm[j]) // duplicate key in the list
			}
		}
		w.reqs = append(w.reqs, q)
		var ks []string
		for _, x := range q.keys {
			ks = append(ks, w.blks[x].name)
		}
		k.Logf("request r%d node=0 kind=session sess=%d start=%dms cancel=when-all-wants-are-in-a-peer-ledger keys=[%s]", q.id, q.sess, q.startMs, strings.Join(ks, " "))
	}
	if !vlib.Guard(k, "network-case", caseWatchdog, func() { w.execute(n, d, psd) }) {
		cancelAll()
	}
}

// available reports whether a node other than the requester holds (or will
// hold) the block.
func (w *world) available(q *req, bi int) bool {
	b := w.blks[bi]
	if b.late >= 0 && b.late != q.node {
		return true
	}
	for _, h := range b.holders {
		if h != q.node {
			return true
		}
	}
	return false
}

func (w *world) execute(n int, d delay.D, psd time.Duration) {
	vnet := tn.VirtualNetwork(d)
	router := mockrouting.NewServer()
	nodesCtx, stopNodes := context.WithCancel(context.Background())
	for i := 0; i < n; i++ {
		id, err := p2ptestutil.RandTestBogusIdentity()
		if err != nil {
			panic(err)
		}
		tr := &nodeTracer{clock: &w.clock, w: w, recv: map[string]int{}, firstRecv: map[string]int64{}, wantsSeen: map[string]int{}, cancelsSeen: map[string]int{}, dontHaves: map[string]int64{}}
		w.peersMu.Lock()
		if w.peerIdx == nil {
			w.peerIdx = map[peer.ID]int{}
		}
		w.peerIdx[id.ID()] = i
		w.tracers = append(w.tracers, tr)
		w.peersMu.Unlock()
		w.insts = append(w.insts, testinstance.NewInstance(nodesCtx, vnet, router.Client(id), id, nil,
			w.nodeOptions(psd, tr)))
	}
	testinstance.ConnectInstances(w.insts)
	defer func() {
		for _, in := range w.insts {
			in.Exchange.Close()
		}
		stopNodes()
	}()

	bg := context.Background()
	for _, b := range w.blks {
		for _, h := range b.holders {
			if err := w.insts[h].Blockstore.Put(bg, b.blk); err != nil {
				panic(err)
			}
			if err := w.insts[h].Exchange.NotifyNewBlocks(bg, b.blk); err != nil {
				panic(err)
			}
		}
	}

	// sessions (kept open until every request is over)
	sessCtx, closeSessions := context.WithCancel(w.ctx)
	defer closeSessions()
	for _, q := range w.reqs {
		if q.kind == "session" {
			key := [2]int{q.node, q.sess}
			if w.sess[key] == nil {
				w.sess[key] = w.insts[q.node].Exchange.NewSession(sessCtx)
			}
		}
	}

	var wg sync.WaitGroup
	// late placements
	for _, b := range w.blks {
		if b.late < 0 {
			continue
		}
		wg.Add(1)
		go func(b *blockInfo) {
			defer wg.Done()
			select {
			case <-time.After(time.Duration(b.lateMs) * time.Millisecond):
			case <-w.ctx.Done():
				return
			}
			b.lateT0.Store(w.clock.Add(1))
			if err := w.insts[b.late].Blockstore.Put(bg, b.blk); err != nil {
				panic(err)
			}
			w.insts[b.late].Exchange.NotifyNewBlocks(bg, b.blk)
			b.lateT1.Store(w.clock.Add(1))
			w.events.Add(1)
		}(b)
	}
	for _, q := range w.reqs {
		wg.Add(1)
		go func(q *req) {
			defer wg.Done()
			w.runReq(q)
		}(q)
	}

	w.monitorRequests()
	wg.Wait()
	w.checkSafetyAndDelivery()
	var seen map[string]bool
	if w.long {
		seen = w.watchStaysClean()
	}
	reported := w.checkCleanup("sessions-open", seen, closeSessions)
	closeSessions()
	w.checkCleanup("sessions-closed", reported, nil)
	w.finishEvidence()
}

func (w *world) nodeOptions(psd time.Duration, tr *nodeTracer) []bitswap.Option {
	w.psd = psd
	o := []bitswap.Option{bitswap.ProviderSearchDelay(psd), bitswap.WithTracer(tr)}
	if w.long {
		o = append(o, bitswap.RebroadcastDelay(2*psd))
	}
	return o
}

// peerViews returns, for requester node, the CIDs any other node's ledger
// lists as wanted by it.
func (w *world) peerViews(node int) map[string]bool {
	out := map[string]bool{}
	id := w.insts[node].Identity.ID()
	for i, in := range w.insts {
		if i == node {
			continue
		}
		for _, c := range in.Exchange.WantlistForPeer(id) {
			out[c.KeyString()] = true
		}
	}
	return out
}

// targetedInFlight: a key beyond the first 64 distinct keys of q (the session
// broadcasts at most 64 live wants) is listed by GetWantBlocks/GetWantHaves,
// i.e. it went out as a targeted want to the session peers and is unanswered.
func (w *world) targetedInFlight(q *req) bool {
	listed := map[string]bool{}
	ex := w.insts[q.node].Exchange
	for _, c := range ex.GetWantBlocks() {
		listed[c.KeyString()] = true
	}
	for _, c := range ex.GetWantHaves() {
		listed[c.KeyString()] = true
	}
	seen := map[int]bool{}
	n := 0
	for _, x := range q.keys {
		if seen[x] {
			continue
		}
		seen[x] = true
		n++
		if n > 64 && listed[w.blks[x].blk.Cid().KeyString()] {
			return true
		}
	}
	return false
}

// allWantsOut: every key of q is on its node's want-list and in some peer's ledger.
func (w *world) allWantsOut(q *req) bool {
	local := map[string]bool{}
	for _, c := range w.insts[q.node].Exchange.GetWantlist() {
		local[c.KeyString()] = true
	}
	remote := w.peerViews(q.node)
	for _, x := range q.keys {
		ks := w.blks[x].blk.Cid().KeyString()
		if !local[ks] || !remote[ks] {
			return false
		}
	}
	return true
}

// watchStaysClean (stratum longsess): every fetch is cancelled and closed, the
// sessions are still open. For each cancelled key: once it has been absent
// from the requester's want-list AND from every peer's ledger for >= 5
// consecutive samples spanning >= 50 ms it must not come back while the
// session idles (watched for 10 provider-search periods: the idle tick fires
// after 1, then 2 more, then 3 more periods). A reappearance is decided on
// first observation; keys that never get clean are left to checkCleanup.
func (w *world) watchStaysClean() map[string]bool {
	type st struct {
		node        int
		c           cid.Cid
		cleanN      int
		cleanSince  time.Time
		wasClean    bool
		reported    bool
		remoteNoted bool
	}
	var keys []*st
	dup := map[string]bool{}
	for _, q := range w.reqs {
		if !q.snap().cancelled {
			continue
		}
		got := q.distinctGot()
		for _, x := range q.keys {
			c := w.blks[x].blk.Cid()
			kk := fmt.Sprint(q.node, "/", c.KeyString())
			if !got[c.KeyString()] && !dup[kk] {
				dup[kk] = true
				keys = append(keys, &st{node: q.node, c: c})
			}
		}
	}
	out := map[string]bool{}
	start := time.Now()
	total := 10 * w.psd
	samples := 0
	for time.Since(start) < total {
		samples++
		local := map[int]map[string]bool{}
		remote := map[int]map[string]bool{}
		for _, s := range keys {
			if local[s.node] == nil {
				local[s.node] = map[string]bool{}
				for _, c := range w.insts[s.node].Exchange.GetWantlist() {
					local[s.node][c.KeyString()] = true
				}
				remote[s.node] = w.peerViews(s.node)
			}
			ks := s.c.KeyString()
			inLocal, inRemote := local[s.node][ks], remote[s.node][ks]
			if !inLocal && !inRemote {
				if s.cleanN == 0 {
					s.cleanSince = time.Now()
				}
				s.cleanN++
				if s.cleanN >= 5 && time.Since(s.cleanSince) >= 50*time.Millisecond {
					s.wasClean = true
				}
				continue
			}
			if s.wasClean && !inLocal {
				// only a peer's ledger shows it again: the statement speaks about the
				// requester's want-list, so this is recorded, not judged (per-peer
				// message queue / ledger convergence is C35's and C36's subject)
				if !s.remoteNoted {
					s.remoteNoted = true
					w.k.C.Count("longsess_reappeared_only_in_a_peer_ledger", 1)
				}
				continue
			}
			if s.wasClean && !s.reported {
				s.reported = true
				out[fmt.Sprint(s.node, "/", ks)] = true
				nWant, nCancel := w.tracers[s.node].wire(s.c)
				w.k.Fail("want-not-cleared/reappears-after-cancel", "after its context is cancelled a request's CIDs stay off the requester's want-list while the session lives on",
					fmt.Sprintf("%s absent from node %d's want-list and from its peers' ledgers for the whole watch (%s = 10 provider-search periods)", w.nameOf(s.c), s.node, total),
					fmt.Sprintf("%s was clean for %d consecutive samples, then came back %s after the requests ended: on the local want-list=%v, in a peer's ledger=%v (peers saw %d want / %d cancel entries for it); no request of the node wants it; want-list=%s",
						w.nameOf(s.c), s.cleanN, time.Since(start).Round(time.Millisecond), inLocal, inRemote, nWant, nCancel, w.namesOf(w.insts[s.node].Exchange.GetWantlist())))
			}
			s.cleanN = 0
		}
		time.Sleep(sampleEvery)
	}
	w.watchedIdle = 3 // ticks at 1, 3 and 6 periods lie inside the 10-period watch
	w.k.C.Count("longsess_watch_samples", int64(samples))
	w.k.C.Count("longsess_keys_watched", int64(len(keys)))
	for _, s := range keys {
		if s.wasClean {
			w.k.C.Count("longsess_keys_seen_clean_then_watched", 1)
		}
	}
	return out
}

func (w *world) runReq(q *req) {
	select {
	case <-time.After(time.Duration(q.startMs) * time.Millisecond):
	case <-w.ctx.Done():
	}
	inst := w.insts[q.node]
	ctx, cancel := context.WithCancel(w.ctx)
	defer cancel()
	q.mu.Lock()
	q.cancelFn = cancel
	q.mu.Unlock()
	keys := make([]cid.Cid, len(q.keys))
	for i, x := range q.keys {
		keys[i] = w.blks[x].blk.Cid()
	}
	var f exchange.Fetcher = inst.Exchange
	if q.kind == "session" {
		f = w.sess[[2]int{q.node, q.sess}]
	}
	q.mu.Lock()
	q.tStart = w.clock.Add(1)
	q.mu.Unlock()
	defer func() {
		q.mu.Lock()
		q.tEnd = w.clock.Add(1)
		q.closed = true
		q.mu.Unlock()
		w.events.Add(1)
	}()
	record := func(b blocks.Block) int {
		okb := false
		for _, x := range q.keys {
			if w.blks[x].blk.Cid().Equals(b.Cid()) {
				okb = bytes.Equal(w.blks[x].blk.RawData(), b.RawData())
			}
		}
		q.mu.Lock()
		q.got = append(q.got, recv{c: b.Cid(), bytesOK: okb, t: w.clock.Add(1), afterCancel: q.cancelled})
		nn := len(q.got)
		q.mu.Unlock()
		w.events.Add(1)
		return nn
	}
	if q.cancelMs >= 0 {
		t := time.AfterFunc(time.Duration(q.cancelMs)*time.Millisecond, func() { q.doCancel(w, "timer") })
		defer t.Stop()
	}
	if q.kind == "getblock" {
		if q.cancelAfter == 0 {
			q.doCancel(w, "immediate")
		}
		b, err := f.GetBlock(ctx, keys[0])
		if err != nil {
			q.mu.Lock()
			q.gbErr = err
			q.mu.Unlock()
			return
		}
		record(b)
		return
	}
	ch, err := f.GetBlocks(ctx, keys)
	if err != nil {
		q.mu.Lock()
		q.callErr = err
		q.mu.Unlock()
		return
	}
	if q.cancelAfter == 0 {
		q.doCancel(w, "immediate")
	}
	for b := range ch {
		if record(b) == q.cancelAfter {
			q.doCancel(w, fmt.Sprintf("after-%d", q.cancelAfter))
		}
	}
}

// distinctGot returns the set of CIDs received so far.
func (q *req) distinctGot() map[string]bool {
	q.mu.Lock()
	defer q.mu.Unlock()
	m := map[string]bool{}
	for _, g := range q.got {
		m[g.c.KeyString()] = true
	}
	return m
}

// monitorRequests waits until every request channel is closed. Requests that
// cannot complete by themselves (they contain keys nobody else holds) are
// cancelled by the harness once every obtainable key has arrived. A request
// that is still open although nothing (delivery, close, cancel, placement) has
// happened for deliverStable is reported and cancelled.
func (w *world) monitorRequests() {
	lastEv := w.events.Load()
	lastChange := time.Now()
	noted5 := false
	var droppedSince time.Time
	for {
		open := 0
		for _, q := range w.reqs {
			st := q.snap()
			if st.closed {
				continue
			}
			open++
			if st.cancelled || st.tStart == 0 {
				continue
			}
			if q.whenSent {
				if w.allWantsOut(q) {
					q.doCancel(w, "harness:when-sent")
				}
				continue
			}
			if q.whenTargeted {
				if w.targetedInFlight(q) {
					q.doCancel(w, "harness:targeted-want-in-flight")
				}
				continue
			}
			// can it still complete by itself?
			got := q.distinctGot()
			restUnavailable, hasUnavailable := true, false
			for _, x := range q.keys {
				if w.available(q, x) {
					if !got[w.blks[x].blk.Cid().KeyString()] {
						restUnavailable = false
					}
				} else {
					hasUnavailable = true
				}
			}
			if hasUnavailable && restUnavailable {
				q.doCancel(w, "harness:rest-unobtainable")
			}
		}
		if open == 0 {
			return
		}
		if ev := w.events.Load(); ev != lastEv {
			lastEv, lastChange, noted5 = ev, time.Now(), false
			droppedSince = time.Time{}
		}
		idle := time.Since(lastChange)
		// the "nobody is asked any more" state must itself have lasted
		// droppedStable (a block that finally arrives empties the want-list a
		// moment before it is handed to the request)
		if w.missingAllDropped() {
			if droppedSince.IsZero() {
				droppedSince = time.Now()
			}
		} else {
			droppedSince = time.Time{}
		}
		droppedFor := time.Duration(0)
		if !droppedSince.IsZero() {
			droppedFor = time.Since(droppedSince)
		}
		if idle > 5*time.Second && !noted5 {
			noted5 = true
			w.k.C.Count("request_stalls_over_5s", 1)
		}
		if idle > quickGiveUp && idle <= deliverStable && w.k.C.Quick() && droppedSince.IsZero() {
			// still asking peers; the pending retry timers outlast the quick budget
			w.k.C.Inconclusive(1)
			w.k.C.Count("stalled_requests_still_wanted_inconclusive", 1)
			w.k.Logf("inconclusive: open request(s) with wanted but undelivered keys after %s without any event", idle.Round(time.Second))
			for _, q := range w.reqs {
				q.doCancel(w, "harness:inconclusive-stall")
			}
			lastChange = time.Now()
		} else if idle > deliverStable || (idle > droppedStable && droppedFor >= droppedStable) {
			for _, q := range w.reqs {
				if st := q.snap(); !st.closed && !st.cancelled {
					w.reportUndelivered(q, fmt.Sprintf("request still open, no delivery/close/cancel anywhere for %s", idle.Round(time.Second)))
					q.doCancel(w, "harness:stalled")
				}
			}
			lastChange = time.Now()
		}
		time.Sleep(sampleEvery)
	}
}

// missing returns the obtainable keys (block indices) an open request has not
// received yet.
func (w *world) missing(q *req) []int {
	got := q.distinctGot()
	seen := map[int]bool{}
	var out []int
	for _, x := range q.keys {
		if w.available(q, x) && !got[w.blks[x].blk.Cid().KeyString()] && !seen[x] {
			seen[x] = true
			out = append(out, x)
		}
	}
	sort.Ints(out)
	return out
}

// missingAllDropped: every open, non-cancelled request misses only keys that
// are absent from its node's want-list (nothing asks any peer for them).
func (w *world) missingAllDropped() bool {
	for _, q := range w.reqs {
		if st := q.snap(); st.closed || st.cancelled {
			continue
		}
		wl := map[string]bool{}
		for _, c := range w.insts[q.node].Exchange.GetWantlist() {
			wl[c.KeyString()] = true
		}
		for _, x := range w.missing(q) {
			if wl[w.blks[x].blk.Cid().KeyString()] {
				return false
			}
		}
	}
	return true
}

func (w *world) reportUndelivered(q *req, why string) {
	miss := w.missing(q)
	var names []string
	class := "not-delivered/" + q.kind
	var trig, trigRe []string
	for _, x := range miss {
		names = append(names, w.blks[x].name)
		if q.kind != "session" {
			continue
		}
		// discriminating feature: another fetch of the same session that also
		// wanted the key was cancelled without having received it
		for _, o := range w.reqs {
			if o == q || o.kind != "session" || o.node != q.node || o.sess != q.sess {
				continue
			}
			ost := o.snap()
			has := false
			for _, y := range o.keys {
				has = has || y == x
			}
			gotIt := o.distinctGot()[w.blks[x].blk.Cid().KeyString()]
			if has && ost.cancelled && !gotIt {
				trig = append(trig, fmt.Sprintf("r%d(cancel %s) also wanted %s", o.id, ost.cancelHow, w.blks[x].name))
			}
			if has && gotIt {
				trigRe = append(trigRe, fmt.Sprintf("r%d received %s", o.id, w.blks[x].name))
			}
		}
	}
	if len(miss) == 0 {
		// everything obtainable was delivered, yet the channel never closed
		class = "never-closes/" + q.kind
	}
	// is every missing key also wanted by another request of the same node?
	sharedAll := len(miss) > 0
	for _, x := range miss {
		sh := false
		for _, o := range w.reqs {
			if o != q && o.node == q.node {
				for _, y := range o.keys {
					sh = sh || y == x
				}
			}
		}
		sharedAll = sharedAll && sh
	}
	rc := w.recvCounts(q.node, miss)
	allArrived := len(rc) > 0
	for _, n := range rc {
		allArrived = allArrived && n > 0
	}
	// Measured feature for the server-side intake race: every missing key was
	// placed late on its only holder, the block never reached this node, the
	// key is still on the want-list, and the requester's tracer saw a
	// DONT_HAVE for it from that holder AFTER NotifyNewBlocks had returned
	// there (the holder denied a block it already had, and a want that got an
	// answer is not re-sent).
	lateDenied := len(miss) > 0 && !w.missingAllDropped()
	var lateInfo []string
	for i, x := range miss {
		b := w.blks[x]
		t1 := b.lateT1.Load()
		w.tracers[q.node].mu.Lock()
		tdh := w.tracers[q.node].dontHaves[fmt.Sprint(b.late, "/", b.blk.Cid().KeyString())]
		w.tracers[q.node].mu.Unlock()
		ok := b.late >= 0 && len(b.holders) == 0 && t1 > 0 && tdh > t1 && rc[i] == 0
		lateDenied = lateDenied && ok
		lateInfo = append(lateInfo, fmt.Sprintf("%s: late holder node %d, placed at logical time %d..%d, last DONT_HAVE from that node received at %d", b.name, b.late, b.lateT0.Load(), t1, tdh))
	}
	switch {
	case lateDenied:
		class = "not-delivered/dont-have-after-late-placement"
	case len(trig) > 0:
		// a sibling fetch of the same session wanting the key was cancelled
		class = "not-delivered/same-session-cancel"
	case len(trigRe) > 0:
		// a sibling fetch of the same session received the key; this one asked again
		class = "not-delivered/same-session-rerequest"
	case allArrived && sharedAll && !w.missingAllDropped():
		// every missing block reached this node once (for another request of the
		// node), the want is still listed, but no peer is going to answer it again
		class = "not-delivered/stale-sent-want"
	case allArrived && w.missingAllDropped():
		// every missing block reached this node from the network (tracer), yet
		// the open request did not get it and the node no longer wants it
		class = "not-delivered/arrived-unpublished"
	}
	inst := w.insts[q.node].Exchange
	w.k.Fail(class, "every requested block held by another connected node is delivered (stable state)",
		"all obtainable keys delivered to r"+fmt.Sprint(q.id),
		fmt.Sprintf("%s; r%d (%s sess=%d) misses %v; same-session cancelled fetches: %v; same-session fetches that received the key: %v; node received the missing blocks %v time(s); late placements: %v; node want-list=%s", why, q.id, q.kind, q.sess, names, trig, trigRe, w.recvCounts(q.node, miss), lateInfo, w.namesOf(inst.GetWantlist())))
}

func (w *world) recvCounts(node int, blks []int) []int {
	var out []int
	for _, x := range blks {
		out = append(out, w.tracers[node].received(w.blks[x].blk.Cid()))
	}
	return out
}

func uniq(s []string) []string {
	var out []string
	for i, x := range s {
		if i == 0 || s[i-1] != x {
			out = append(out, x)
		}
	}
	return out
}

func (w *world) nameOf(c cid.Cid) string {
	for _, b := range w.blks {
		if b.blk.Cid().Equals(c) {
			return b.name
		}
	}
	return c.String()
}

func (w *world) namesOf(cs []cid.Cid) string {
	var out []string
	for _, c := range cs {
		out = append(out, w.nameOf(c))
	}
	sort.Strings(out)
	return "[" + strings.Join(out, " ") + "]"
}

// checkSafetyAndDelivery evaluates the per-request clauses on the recorded
// receive logs (all channels are closed now).
func (w *world) checkSafetyAndDelivery() {
	k := w.k
	for _, q := range w.reqs {
		st := q.snap()
		requested := map[string]int{}
		for _, x := range q.keys {
			requested[w.blks[x].blk.Cid().KeyString()] = x
		}
		seen := map[string]int{}
		for i, g := range st.got {
			ks := g.c.KeyString()
			x, ok := requested[ks]
			if !ok {
				k.Fail("foreign-block/"+q.kind, "received ⊆ requested", "only requested CIDs on the channel of r"+fmt.Sprint(q.id), fmt.Sprintf("delivery %d is %s", i, w.nameOf(g.c)))
				continue
			}
			seen[ks]++
			if seen[ks] == 2 {
				k.Fail("duplicate-delivery/"+q.kind, "each distinct requested block at most once per request", w.blks[x].name+" once on r"+fmt.Sprint(q.id), fmt.Sprintf("delivered again as delivery %d (afterCancel=%v)", i, g.afterCancel))
			}
			if !g.bytesOK {
				k.Fail("wrong-bytes/"+q.kind, "delivered bytes are the block's bytes", w.blks[x].name, "different bytes")
			}
		}
		if st.callErr != nil {
			k.Fail("getblocks-error/"+q.kind, "request starts", "nil", st.callErr.Error())
		}
		k.C.Count("deliveries", int64(len(st.got)))
		if st.cancelled {
			k.C.Count("requests_cancelled", 1)
			if strings.HasPrefix(st.cancelHow, "harness:") {
				k.C.Count("requests_cancelled_by_harness_rest_unobtainable", 1)
			}
			continue
		}
		k.C.Count("requests_completed", 1)
		// not cancelled: the channel closed by itself, so everything obtainable must be there
		var miss []string
		for ks, x := range requested {
			if w.available(q, x) && seen[ks] == 0 {
				miss = append(miss, w.blks[x].name)
			}
		}
		if len(miss) > 0 {
			sort.Strings(miss)
			how := "channel closed"
			if q.kind == "getblock" {
				how = fmt.Sprintf("GetBlock returned %v", st.gbErr)
			}
			k.Fail("closed-early/"+q.kind, "every requested block held by another connected node is delivered", "all obtainable keys of r"+fmt.Sprint(q.id), fmt.Sprintf("%s without %v (request not cancelled)", how, miss))
		}
	}
}

// checkCleanup samples the want-lists of all requester nodes until none of the
// requested CIDs is left, or the leftover has been unchanged for cleanupStable
// (>= 5 samples). It returns the set of reported leftovers ("node/cid").
func (w *world) checkCleanup(phase string, already map[string]bool, closeSessions func()) map[string]bool {
	k := w.k
	reqByNode := map[int]map[string]bool{}
	for _, q := range w.reqs {
		if reqByNode[q.node] == nil {
			reqByNode[q.node] = map[string]bool{}
		}
		for _, x := range q.keys {
			reqByNode[q.node][w.blks[x].blk.Cid().KeyString()] = true
		}
	}
	leftover := func() (string, map[int][]cid.Cid) {
		m := map[int][]cid.Cid{}
		var parts []string
		for node, set := range reqByNode {
			for _, c := range w.insts[node].Exchange.GetWantlist() {
				if set[c.KeyString()] && !already[fmt.Sprint(node, "/", c.KeyString())] {
					m[node] = append(m[node], c)
					parts = append(parts, fmt.Sprint(node, "/", c.KeyString()))
				}
			}
		}
		sort.Strings(parts)
		return strings.Join(parts, ","), m
	}
	start := time.Now()
	last, m := leftover()
	lastChange, samples := time.Now(), 1
	first := last
	for {
		if last == "" {
			// clean: accept only after >= 5 consecutive clean samples spanning
			// >= 150 ms, so a want that is re-added late is still seen
			if samples >= 5 && time.Since(lastChange) >= 150*time.Millisecond {
				break
			}
		} else if time.Since(lastChange) >= cleanupStable && samples >= 5 {
			break
		}
		if time.Since(start) > 60*time.Second {
			k.C.Inconclusive(1)
			k.Logf("inconclusive: want-list of phase %s still changing after 60s", phase)
			return already
		}
		time.Sleep(sampleEvery)
		var cur string
		cur, m = leftover()
		if cur != last {
			last, lastChange, samples = cur, time.Now(), 1
		} else {
			samples++
		}
	}
	if first != "" && last == "" {
		k.C.Count("cleanup_needed_polling_"+phase, 1)
	}
	k.C.Max("max_cleanup_wait_ms_"+phase, time.Since(start).Milliseconds())
	out := map[string]bool{}
	for kk := range already {
		out[kk] = true
	}
	if last == "" {
		return out
	}
	// Discriminating observation: does the leftover go away when the node's
	// sessions are closed (a session still holds interest in it) or is it an
	// orphan that nothing will ever cancel? Orphans never disappear; a held
	// want is released within milliseconds of the close (polled for <= 1 s).
	// how each leftover is listed, taken while the state is still the stable one
	wbAll, whAll := map[int]map[string]bool{}, map[int]map[string]bool{}
	for node := range m {
		wbAll[node], whAll[node] = map[string]bool{}, map[string]bool{}
		for _, c := range w.insts[node].Exchange.GetWantBlocks() {
			wbAll[node][c.KeyString()] = true
		}
		for _, c := range w.insts[node].Exchange.GetWantHaves() {
			whAll[node][c.KeyString()] = true
		}
	}
	released := map[string]bool{}
	if closeSessions != nil {
		closeSessions()
		for i := 0; i < 100; i++ {
			_, now := leftover()
			still := map[string]bool{}
			for node, cs := range now {
				for _, c := range cs {
					still[fmt.Sprint(node, "/", c.KeyString())] = true
				}
			}
			n := 0
			for node, cs := range m {
				for _, c := range cs {
					kk := fmt.Sprint(node, "/", c.KeyString())
					released[kk] = !still[kk]
					if still[kk] {
						n++
					}
				}
			}
			if n == 0 {
				break
			}
			time.Sleep(sampleEvery)
		}
	}
	// classify every leftover CID from the recorded history
	for node, cs := range m {
		inst := w.insts[node].Exchange
		wb, wh := wbAll[node], whAll[node]
		for _, c := range cs {
			out[fmt.Sprint(node, "/", c.KeyString())] = true
			var feats []string
			undeliveredCancelled, deliveredSomewhere := false, false
			sessWanters, sessCancelled := map[int]int{}, map[int]bool{}
			var hist []string
			for _, q := range w.reqs {
				if q.node != node {
					continue
				}
				wants := false
				for _, x := range q.keys {
					wants = wants || w.blks[x].blk.Cid().Equals(c)
				}
				if !wants {
					continue
				}
				st := q.snap()
				got := q.distinctGot()[c.KeyString()]
				if got {
					deliveredSomewhere = true
				} else if st.cancelled {
					undeliveredCancelled = true
				}
				if q.kind == "session" {
					sessWanters[q.sess]++
					if st.cancelled && !got {
						sessCancelled[q.sess] = true
					}
				}
				hist = append(hist, fmt.Sprintf("r%d(%s sess=%d delivered=%v cancelled=%v how=%s ndeliv=%d)", q.id, q.kind, q.sess, got, st.cancelled, st.cancelHow, len(st.got)))
			}
			// class = clause + features of the recorded history of this CID on this node
			nrecv := w.tracers[node].received(c)
			nWant, nCancel := w.tracers[node].wire(c)
			class := "want-not-cleared/other"
			switch {
			case nrecv > 0 && released[fmt.Sprint(node, "/", c.KeyString())]:
				// the block reached this node, yet a session kept wanting it until
				// the session itself was closed
				class = "want-not-cleared/received-but-held-until-session-close/sole-request"
				if len(hist) >= 2 {
					// another request of this node wanted the same CID: the block may
					// have been published to the session fetch before its session had
					// registered the want
					class = "want-not-cleared/received-but-held-until-session-close/shared-key"
				}
			case nrecv > 0:
				// the block reached this node (tracer) and the want is an orphan:
				// it survives the end of every request and session of the node
				class = "want-not-cleared/orphan-after-receipt"
			case deliveredSomewhere:
				class = "want-not-cleared/delivered-locally"
			case undeliveredCancelled && released[fmt.Sprint(node, "/", c.KeyString())]:
				class = "want-not-cleared/after-cancel/held-until-session-close"
			case undeliveredCancelled:
				// orphan: survives the end of every request and session
				class = "want-not-cleared/after-cancel"
				for sid, nw := range sessWanters {
					if nw >= 2 && sessCancelled[sid] {
						class = "want-not-cleared/after-cancel/same-session-rewant"
					}
				}
			}
			kind := "want-have/broadcast"
			switch {
			case wb[c.KeyString()]:
				kind = "want-block"
			case !wh[c.KeyString()]:
				kind = "phantom (GetWantlist lists it, GetWantBlocks and GetWantHaves do not)"
			}
			switch {
			case strings.HasPrefix(kind, "phantom"):
				// the want-list index holds a CID that is in no peer's want set
				class = "want-not-cleared/phantom-entry"
			case class == "want-not-cleared/after-cancel" && kind == "want-block":
				// a never-received, cancelled CID that is wanted as a targeted
				// want-block again (the registered finding re-adds broadcast want-haves)
				class = "want-not-cleared/after-cancel/targeted-want"
			}
			if phase == "sessions-closed" && class != "want-not-cleared/orphan-after-receipt" {
				class += "/only-after-session-close"
			}
			feats = append(feats, kind)
			k.Fail(class, "after completion or cancel the requester's want-list holds none of the requested CIDs (stable state, phase "+phase+")",
				fmt.Sprintf("node %d want-list without %s", node, w.nameOf(c)),
				fmt.Sprintf("%s still listed as %s, unchanged over %d samples / %s; the node received this block %d time(s) from the network (its peers saw %d want and %d cancel entries for it from this node; gone after closing the sessions: %v); requests for it on node %d: %s; full wantlist=%s", w.nameOf(c), strings.Join(feats, ","), samples, time.Since(lastChange).Round(time.Millisecond), nrecv, nWant, nCancel, released[fmt.Sprint(node, "/", c.KeyString())], node, strings.Join(hist, " "), w.namesOf(inst.GetWantlist())))
		}
	}
	return out
}

func (w *world) finishEvidence() {
	k := w.k
	// history shape + non-triviality (measured)
	var parts []string
	remote, overlapShared, cancelledAfterDelivery := false, false, false
	sts := make([]state, len(w.reqs))
	for i, q := range w.reqs {
		st := q.snap()
		sts[i] = st
		dk := map[int]bool{}
		for _, x := range q.keys {
			dk[x] = true
		}
		end := "closed"
		if st.cancelled {
			end = "cancel:" + st.cancelHow
			nBefore := 0
			for _, g := range st.got {
				if g.t < st.cancelT {
					nBefore++
				}
			}
			if nBefore >= 1 {
				cancelledAfterDelivery = true
			}
		}
		if len(st.got) > 0 {
			remote = true
		}
		parts = append(parts, fmt.Sprintf("%s/n%d/k%d/d%d/got%d/%s", q.kind, q.node, len(q.keys), len(dk), len(st.got), end))
	}
	for i, a := range w.reqs {
		for j := i + 1; j < len(w.reqs); j++ {
			b := w.reqs[j]
			sa, sb := sts[i], sts[j]
			if a.node != b.node || sa.tStart == 0 || sb.tStart == 0 {
				continue
			}
			if sa.tStart < sb.tEnd && sb.tStart < sa.tEnd {
				for _, x := range a.keys {
					for _, y := range b.keys {
						if x == y {
							overlapShared = true
						}
					}
				}
			}
		}
	}
	for _, t := range w.tracers {
		t.mu.Lock()
		for _, n := range t.recv {
			k.C.Count("blocks_received_by_nodes", int64(n))
			if n > 1 {
				k.C.Count("blocks_received_again_by_a_node", int64(n-1))
			}
		}
		t.mu.Unlock()
	}
	sort.Strings(parts)
	k.SetShape(strings.Join(parts, ";"))
	k.C.Count("requests", int64(len(w.reqs)))
	k.C.Count("networks", 1)
	k.C.Max("max_nodes", int64(len(w.insts)))
	if overlapShared {
		k.C.Count("cases_with_overlapping_requests_sharing_a_key", 1)
	}
	if remote && (overlapShared || cancelledAfterDelivery) {
		k.Nontrivial()
	}
	for i, q := range w.reqs {
		if q.whenTargeted && sts[i].cancelHow == "harness:targeted-want-in-flight" {
			k.Nontrivial()
			k.C.Count("bigreq_cancelled_with_targeted_want_in_flight", 1)
		}
	}
	if w.long && w.watchedIdle >= 3 {
		all := len(w.reqs) > 0
		for _, st := range sts {
			all = all && st.cancelled && st.cancelHow == "harness:when-sent"
		}
		if all {
			k.Nontrivial()
		}
	}
}
