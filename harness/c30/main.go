// C30: UnixFS files built with hostile importer parameters are served by the
// real gateway handler (NewBlocksBackend + NewHandler) and every GET/HEAD
// response to a generated Range / If-Range / If-None-Match / If-Modified-Since
// request is judged against the harness's own RFC 7233 range resolution over
// the known file bytes: status, Content-Range, Content-Length and body must be
// mutually consistent and the body must be exactly the requested slice (or the
// whole file); 416 only when no requested range overlaps the file.
package main

import (
	"bytes"
	"errors"
	"fmt"
	"io"
	"net/http"
	"net/http/httptest"
	"net/url"
	"regexp"
	"strconv"
	"strings"
	"time"

	"github.com/ipfs/boxo/gateway"
	"github.com/prometheus/client_golang/prometheus"

	"verif/harness/c30/ufsgen"
	"verif/vlib"
)

var errInjected = errors.New("injected read fault (verif)")

func main() { vlib.Run("C30", run) }

func run(c *vlib.Ctx) {
	c.Rule("case = one file (size 0..2MiB biased to 0/1/2/chunk multiples; balanced|trickle, chunk 1..256KiB, fan-out 2..174, raw|pb leaves, CIDv0|1, optional mtime; optionally reached through a directory path or with ?filename=) + 8..16 requests (5..8 for files > 300 kB), each sent as GET and HEAD through handler.ServeHTTP; Range strings come from a grammar (single, suffix, open-ended, multi, overlapping, unsatisfiable, sum>size, offsets 0/1/size-1/size/size+1/2^62, OWS, empty list members, malformed) x If-Range (current ETag, weak, other, date) x If-None-Match x If-Modified-Since. Strata clean-* reject every request that has a trigger feature of a listed finding (first range != final range while the reader is pre-seeked; first range a suffix longer than the file); stratum hostile is unconstrained; stratum wire sends clean requests over a real loopback httptest.Server. Fault step (multi-block files): one read of the leaf holding the start of the served range fails once while a range is requested whose served member is or is not the first one; 5xx or a body cut short is accepted, a 2xx must still match the file. distinct = FNV of file spec + request list + observed responses; non-trivial = file DAG has >= 2 levels and the case byte-verified at least one 206 with non-zero start, one full 200 and one 416 or 304")
	c.Cases("clean-single", c.N(48, 500), func(k *vlib.Case) { oneCase(k, modeSingle) })
	c.Cases("clean-multi", c.N(40, 400), func(k *vlib.Case) { oneCase(k, modeMulti) })
	c.Cases("clean-cond", c.N(32, 300), func(k *vlib.Case) { oneCase(k, modeCond) })
	c.Cases("hostile", c.N(40, 350), func(k *vlib.Case) { oneCase(k, modeHostile) })
	c.Cases("wire", c.N(8, 50), func(k *vlib.Case) { oneCase(k, modeWire) })
}

const (
	modeSingle = iota
	modeMulti
	modeCond
	modeHostile
	modeWire
)

// ---------------------------------------------------------------- range model (written from RFC 7233, not from the code)

type spec struct {
	suffix      bool
	first, last int64 // last < 0: open-ended
	n           int64 // suffix length
}

// resolve returns the byte interval [a,b] the spec selects in a file of size
// n, ok=false if the spec is unsatisfiable.
func (s spec) resolve(n int64) (a, b int64, ok bool) {
	if s.suffix {
		if s.n == 0 || n == 0 {
			return 0, 0, false
		}
		a = n - s.n
		if a < 0 {
			a = 0
		}
		return a, n - 1, true
	}
	if s.first >= n {
		return 0, 0, false
	}
	b = n - 1
	if s.last >= 0 && s.last < b {
		b = s.last
	}
	return s.first, b, true
}

var (
	reByteRange = regexp.MustCompile(`^([0-9]+)-([0-9]*)$`)
	reSuffix    = regexp.MustCompile(`^-([0-9]+)$`)
)

// parseRangeRFC parses a Range header value: bytes-unit, a comma-separated list
// (OWS around commas and empty members allowed) of first-[last] / -suffix with
// decimal numbers that fit int64, last >= first, at least one member. strict
// reports whether the value follows that grammar exactly; when it does not but
// only because of blanks or a plus sign around the numbers ("1 -2", "1-+2"), the members are still
// returned (strict=false): a server may be liberal and honour such a header,
// and the listed findings are then triggered the same way.
func parseRangeRFC(h string) (specs []spec, strict, parsed bool) {
	if !strings.HasPrefix(h, "bytes=") {
		return nil, false, false
	}
	strict = true
	for _, m := range strings.Split(h[len("bytes="):], ",") {
		m = strings.Trim(m, " \t")
		if m == "" {
			continue
		}
		if !reSuffix.MatchString(m) && !reByteRange.MatchString(m) {
			strict = false
			i := strings.IndexByte(m, '-')
			if i < 0 {
				return nil, false, false
			}
			// blanks around the numbers and an explicit plus sign are what
			// strconv.ParseInt-based parsers let through
			unplus := func(x string) string {
				x = strings.Trim(x, " \t")
				if len(x) > 1 && x[0] == '+' && x[1] >= '0' && x[1] <= '9' {
					return x[1:]
				}
				return x
			}
			m = unplus(m[:i]) + "-" + unplus(m[i+1:])
		}
		if g := reSuffix.FindStringSubmatch(m); g != nil {
			v, err := strconv.ParseInt(g[1], 10, 64)
			if err != nil {
				return nil, false, false
			}
			specs = append(specs, spec{suffix: true, n: v})
			continue
		}
		g := reByteRange.FindStringSubmatch(m)
		if g == nil {
			return nil, false, false
		}
		f, err := strconv.ParseInt(g[1], 10, 64)
		if err != nil {
			return nil, false, false
		}
		s := spec{first: f, last: -1}
		if g[2] != "" {
			l, err := strconv.ParseInt(g[2], 10, 64)
			if err != nil || l < f {
				return nil, false, false
			}
			s.last = l
		}
		specs = append(specs, s)
	}
	if len(specs) == 0 {
		return nil, false, false
	}
	return specs, strict, true
}

// features of a request that decide which findings it can trigger.
type features struct {
	hasRange  bool
	valid     bool   // strictly well-formed
	specs     []spec // members (also set for a header that is malformed only by blanks inside members)
	sat       [][2]int64 // resolved satisfiable intervals
	zeroLen   bool       // some member selects zero bytes by suffix form (-0, or -N on an empty file)
	sum       int64
	r0Start   int64 // where a reader seeked to the *first* member would stand (-1: not computable)
	r0Unsat   bool
	r0SufLong bool // first member is a suffix longer than the file
	ifRange   int  // 0 absent, 1 holds, 2 fails
	size      int64
}

func analyse(rq *request, n int64, etag, lastMod string) features {
	f := features{r0Start: -1, size: n}
	if rq.ifRange != "" {
		f.ifRange = 2
		if strings.HasPrefix(rq.ifRange, `"`) {
			if rq.ifRange == etag {
				f.ifRange = 1
			}
		} else if !strings.HasPrefix(rq.ifRange, "W/") && lastMod != "" {
			t1, e1 := http.ParseTime(rq.ifRange)
			t2, e2 := http.ParseTime(lastMod)
			if e1 == nil && e2 == nil && t1.Equal(t2) {
				f.ifRange = 1
			}
		}
	}
	if !rq.hasRange {
		return f
	}
	f.hasRange = true
	var parsed bool
	f.specs, f.valid, parsed = parseRangeRFC(rq.rng)
	if !parsed {
		return f
	}
	for i, s := range f.specs {
		a, b, ok := s.resolve(n)
		if ok {
			f.sat = append(f.sat, [2]int64{a, b})
			f.sum += b - a + 1
		} else if s.suffix {
			f.zeroLen = true
		}
		if i == 0 {
			switch {
			case s.suffix && s.n > n:
				f.r0SufLong = true
			case s.suffix:
				f.r0Start = n - s.n
			default:
				f.r0Start = s.first
				f.r0Unsat = !ok
			}
		}
	}
	return f
}

// trigger names the listed-finding trigger the request carries ("" = none).
// All of them are "the response is computed from another range than the first
// member of the Range header, which the body reader was seeked to".
func (f features) trigger() string {
	if !f.hasRange || len(f.specs) == 0 {
		return ""
	}
	switch {
	case f.r0SufLong:
		return "first-suffix>size"
	case f.ifRange == 2 && f.r0Start != 0:
		return "if-range-mismatch"
	case len(f.specs) >= 2 && f.r0Unsat && len(f.sat) > 0:
		return "multi-range/first-unsatisfiable"
	case f.r0Start != 0 && len(f.sat) > 0 && f.sum > f.size:
		return "ranges-sum>size"
	}
	return ""
}

// ---------------------------------------------------------------- requests

type request struct {
	hasRange bool
	rng      string
	ifRange  string
	inm      string
	ims      string
}

func (rq *request) String() string {
	var p []string
	if rq.hasRange {
		p = append(p, fmt.Sprintf("Range=%q", rq.rng))
	}
	if rq.ifRange != "" {
		p = append(p, fmt.Sprintf("If-Range=%q", rq.ifRange))
	}
	if rq.inm != "" {
		p = append(p, fmt.Sprintf("If-None-Match=%q", rq.inm))
	}
	if rq.ims != "" {
		p = append(p, fmt.Sprintf("If-Modified-Since=%q", rq.ims))
	}
	if len(p) == 0 {
		return "(no conditional headers)"
	}
	return strings.Join(p, " ")
}

func pos(r *vlib.Rand, n int64) int64 {
	switch r.Intn(12) {
	case 0:
		return 0
	case 1:
		return 1
	case 2:
		return n - 1
	case 3:
		return n
	case 4:
		return n + 1
	case 5:
		return n / 2
	case 6:
		return n + int64(r.Intn(1000))
	case 7:
		return 1 << 62
	case 8:
		return n - 2
	default:
		if n <= 0 {
			return int64(r.Intn(3))
		}
		return int64(r.Uint64() % uint64(n))
	}
}

func nonneg(v int64) int64 {
	if v < 0 {
		return 0
	}
	return v
}

func genSpec(r *vlib.Rand, n int64) string {
	switch r.Intn(10) {
	case 0, 1: // suffix
		v := nonneg(pos(r, n))
		return "-" + strconv.FormatInt(v, 10)
	case 2, 3: // open-ended
		return strconv.FormatInt(nonneg(pos(r, n)), 10) + "-"
	default:
		a, b := nonneg(pos(r, n)), nonneg(pos(r, n))
		if b < a {
			a, b = b, a
		}
		return fmt.Sprintf("%d-%d", a, b)
	}
}

var malformed = []string{
	"bytes=", "bytes", "bytes=-", "bytes=--5", "bytes=5-4", "bytes=a-b", "items=0-5", "bytes=0-5;q=1", "bytes=0x1-0x5",
	"bytes=5-9999999999999999999", "bytes=99999999999999999999-", "bytes=-99999999999999999999", "bytes= 5 - 9 ", "bytes=1 -2",
	"Bytes=0-1", "bytes=0-1,", "bytes=,", " bytes=0-1", "bytes=0-1,a", "bytes=+1-2", "bytes=1-+2", "bytes=0-1 2-3", "bytes=-0x5",
	"bytes=1.0-2", "bytes=٣-٤", "bytes=0-1\t", "bytes = 0-1", "bytes=0–1",
}

func genRange(r *vlib.Rand, n int64, members int, allowMalformed bool) string {
	if allowMalformed && r.Chance(1, 8) {
		return malformed[r.Intn(len(malformed))]
	}
	var ms []string
	for i := 0; i < members; i++ {
		ms = append(ms, genSpec(r, n))
	}
	sep := ","
	switch r.Intn(6) {
	case 0:
		sep = ", "
	case 1:
		sep = " ,\t"
	case 2:
		sep = ",,"
	}
	s := "bytes=" + strings.Join(ms, sep)
	if r.Chance(1, 10) {
		s = "bytes=," + strings.Join(ms, sep)
	}
	return s
}

func httpDate(sec int64) string { return time.Unix(sec, 0).UTC().Format(http.TimeFormat) }

// genRequest draws one request for the given stratum mode.
func genRequest(r *vlib.Rand, mode int, n int64, etag string, mtime int64) *request {
	rq := &request{}
	otherTag := `"bafkreihdwdcefgh4dqkjv67uzcmw7ojee6xedzdetojuzjevtenxquvyku"`
	cond := func() {
		switch r.Intn(10) {
		case 0:
			rq.inm = etag
		case 1:
			rq.inm = "W/" + etag
		case 2:
			rq.inm = otherTag + ", " + etag
		case 3:
			rq.inm = otherTag
		case 4:
			rq.inm = "*"
		case 5:
			if mtime != 0 {
				rq.ims = httpDate(mtime + int64(r.Intn(3)) - 1)
			} else {
				rq.ims = httpDate(1_200_000_000)
			}
		case 6:
			rq.inm = "garbage"
		}
	}
	ifr := func() {
		switch r.Intn(8) {
		case 0, 1, 2:
			rq.ifRange = etag
		case 3:
			rq.ifRange = "W/" + etag
		case 4:
			rq.ifRange = otherTag
		case 5:
			if mtime != 0 {
				rq.ifRange = httpDate(mtime)
			} else {
				rq.ifRange = httpDate(1_200_000_000)
			}
		case 6:
			if mtime != 0 {
				rq.ifRange = httpDate(mtime + 1)
			} else {
				rq.ifRange = "yesterday"
			}
		case 7:
			rq.ifRange = `"`
		}
	}
	switch mode {
	case modeSingle, modeWire:
		if r.Chance(1, 10) {
			break
		}
		rq.hasRange, rq.rng = true, genRange(r, n, 1, mode == modeSingle)
	case modeMulti:
		rq.hasRange, rq.rng = true, genRange(r, n, r.Range(2, 5), true)
	case modeCond:
		if r.Chance(3, 4) {
			rq.hasRange, rq.rng = true, genRange(r, n, r.Range(1, 2), false)
		}
		if r.Bool() {
			cond()
		}
		if rq.hasRange && r.Chance(2, 3) {
			ifr()
		}
	default:
		if r.Chance(9, 10) {
			rq.hasRange, rq.rng = true, genRange(r, n, r.Range(1, 4), true)
		}
		if r.Chance(1, 5) {
			cond()
		}
		if r.Chance(1, 3) {
			ifr()
		}
	}
	return rq
}

// ---------------------------------------------------------------- one case

var reCR = regexp.MustCompile(`^bytes ([0-9]+)-(-?[0-9]+)/([0-9]+)$`)

type world struct {
	k      *vlib.Case
	h      http.Handler
	srv    *httptest.Server
	url    string
	file   []byte
	etag   string
	lastMo string
	mtime  int64

	saw206, saw200, sawOther bool
	once                     map[string]bool
	faulty                   bool // a read fault is injected for the current request
}

func fileSize(r *vlib.Rand) int {
	switch r.Intn(12) {
	case 0:
		return 0
	case 1:
		return r.Range(1, 3)
	case 2, 3, 4:
		return r.Range(4, 300)
	case 5, 6, 7:
		return r.Range(300, 70_000)
	case 8, 9:
		return r.Range(70_000, 600_000)
	case 10:
		return []int{256 << 10, 512 << 10, 1 << 20, (256 << 10) + 1, (256 << 10) - 1}[r.Intn(5)]
	default:
		return r.Range(600_000, 2<<20)
	}
}

func oneCase(k *vlib.Case, mode int) {
	r := k.R
	env := ufsgen.NewEnvCtx() // reads under a done context fail; reads can be made to fail by injection
	n := fileSize(r)
	if mode == modeWire && n > 300_000 {
		n = r.Range(0, 300_000)
	}
	fe, err := ufsgen.GenFileN(r, env, "f", n)
	if err != nil {
		panic(err)
	}
	st, err := env.Stat(fe.Cid)
	if err != nil {
		panic(err)
	}
	k.Logf("file size=%d %s root=%s blocks=%d depth=%d", n, fe.Spec, fe.Cid, len(st.Blocks), st.Depth)

	// how the file is addressed
	u := "/ipfs/" + fe.Cid.String()
	switch r.Intn(4) {
	case 0: // through a directory path (name decides Content-Type by extension)
		name := vlib.Pick(r, []string{"f.bin", "a b.txt", "index.html", "noext", "ä.dat", "x#y?.png"})
		dir, err := ufsgen.WrapInDir(env, name, fe)
		if err != nil {
			panic(err)
		}
		u = "/ipfs/" + dir + "/" + url.PathEscape(name)
	case 1:
		u += "?filename=" + url.QueryEscape(vlib.Pick(r, []string{"d.bin", "t.txt", "noext"}))
	}
	k.Logf("url %s", u)

	be, err := gateway.NewBlocksBackend(env.BSrv)
	if err != nil {
		panic(err)
	}
	w := &world{k: k, url: u, file: fe.Data, mtime: fe.Spec.Mtime, once: map[string]bool{}}
	w.h = gateway.NewHandler(gateway.Config{DeserializedResponses: true, MetricsRegistry: prometheus.NewRegistry()}, be)
	if mode == modeWire {
		w.srv = httptest.NewServer(w.h)
		defer w.srv.Close()
	}

	// baseline: plain GET gives the validators the conditional requests refer to
	base := w.do("GET", &request{})
	if base.hung {
		return
	}
	w.etag = base.hdr.Get("Etag")
	w.lastMo = base.hdr.Get("Last-Modified")
	k.Logf("baseline GET -> %d Etag=%s Last-Modified=%q", base.code, w.etag, w.lastMo)
	w.judge("GET", &request{}, base)
	if w.etag == "" {
		k.Fail("no-etag", "200 carries an ETag", "Etag header", "none")
		return
	}
	if (fe.Spec.Mtime != 0) != (w.lastMo != "") {
		k.C.Count("lastmod_presence_differs_from_mtime", 1)
	}

	nreq := r.Range(8, 16)
	if n > 300_000 {
		nreq = r.Range(5, 8)
	}
	for i := 0; i < nreq; i++ {
		var rq *request
		for try := 0; ; try++ {
			rq = genRequest(r, mode, int64(n), w.etag, fe.Spec.Mtime)
			if mode == modeHostile {
				break
			}
			if analyse(rq, int64(n), w.etag, w.lastMo).trigger() == "" {
				break
			}
			if try > 200 {
				rq = &request{}
				break
			}
		}
		if k.C.Aborted() {
			return
		}
		var got [2]*response
		bad := false
		for j, m := range []string{"GET", "HEAD"} {
			k.Logf("%s %s", m, rq)
			resp := w.do(m, rq)
			k.Logf("  -> %s", resp.summary())
			if !w.judge(m, rq, resp) {
				bad = true
			}
			got[j] = resp
		}
		// HEAD must describe what GET returns (only compared when both passed
		// their own oracle and the request is well-formed: a malformed Range is
		// refused with 400 on GET and 416 on HEAD, both allowed).
		ft := analyse(rq, int64(n), w.etag, w.lastMo)
		if !bad && (!ft.hasRange || ft.valid) {
			g, h := got[0], got[1]
			if g.code != h.code || g.hdr.Get("Content-Range") != h.hdr.Get("Content-Range") ||
				((g.code == 200 || g.code == 206) && g.hdr.Get("Content-Length") != h.hdr.Get("Content-Length")) {
				k.Fail("head-get-differ", "HEAD headers == GET headers", "GET "+g.summary(), "HEAD "+h.summary()+" for "+rq.String())
			}
		}
	}
	// Fault step: one read of the leaf that holds the start of the served range
	// (or of a random leaf) fails once. A 5xx answer or a body cut short is
	// fine then; a 2xx answer must still be right in headers and bytes.
	if st.Depth >= 2 && mode != modeWire && !k.C.Aborted() {
		spans, _, err := env.FileSpans(fe.Cid)
		if err != nil {
			panic(err)
		}
		var leaves []ufsgen.NodeSpan
		for _, sp := range spans {
			if sp.Leaf && sp.E > sp.S && !sp.Cid.Equals(fe.Cid) {
				leaves = append(leaves, sp)
			}
		}
		for i := 0; i < 3 && len(leaves) > 0; i++ {
			lf := leaves[r.Intn(len(leaves))]
			a := lf.S + int64(r.Intn(int(lf.E-lf.S)))
			b := a + int64(r.Intn(40))
			rq := &request{hasRange: true}
			switch r.Intn(4) {
			case 0, 1: // the served range is not the first member
				rq.rng = fmt.Sprintf("bytes=%d-,%d-%d", int64(n)+int64(r.Intn(1000)), a, b)
			case 2:
				rq.rng = fmt.Sprintf("bytes=%d-%d", a, b)
			default:
				rq.rng = fmt.Sprintf("bytes=%d-", a)
			}
			target := lf
			if r.Chance(1, 4) {
				target = leaves[r.Intn(len(leaves))]
			}
			skip := 0
			if r.Chance(1, 4) {
				skip = 1
			}
			k.Logf("fault: read #%d of leaf %s (bytes [%d,%d)) fails once; GET %s", skip+1, target.Cid, target.S, target.E, rq)
			env.SetFaultN(target.Cid, errInjected, skip, 1)
			w.faulty = true
			resp := w.do("GET", rq)
			fired := env.FaultsFired()
			w.faulty = false
			env.ClearFaults()
			k.Logf("  -> %s (injected failures: %d)", resp.summary(), fired)
			w.faulty = fired > 0
			w.judge("GET", rq, resp)
			w.faulty = false
			k.C.Count("fault_requests", 1)
			if fired > 0 {
				k.C.Count("fault_requests_where_the_fault_fired", 1)
				k.C.Count(fmt.Sprintf("fault_status_%d", resp.code), 1)
			}
		}
	}
	if st.Depth >= 2 && w.saw206 && w.saw200 && w.sawOther {
		k.Nontrivial()
	}
	k.C.Count("requests", int64(2*nreq+1))
	k.C.Max("max_file_size", int64(n))
	k.C.Max("max_dag_depth", int64(st.Depth))
}

type response struct {
	code    int
	hdr     http.Header
	body    []byte
	bodyErr error // wire only
	wireCL  int64 // wire only: ContentLength as parsed by the client
	wire    bool
	hung    bool // the watchdog fired (class hang/... recorded, batch aborted)
}

// watchdog is generous: the machine may be heavily loaded and the thorough tier
// runs under the race detector; a request normally takes milliseconds.
const watchdog = 10 * time.Minute

func (p *response) summary() string {
	s := fmt.Sprintf("%d", p.code)
	if v := p.hdr.Get("Content-Range"); v != "" {
		s += fmt.Sprintf(" Content-Range=%q", v)
	}
	if v, ok := p.hdr["Content-Length"]; ok {
		s += fmt.Sprintf(" Content-Length=%s", strings.Join(v, "|"))
	}
	s += fmt.Sprintf(" body=%dB", len(p.body))
	if p.bodyErr != nil {
		s += " bodyErr=" + p.bodyErr.Error()
	}
	return s
}

func (w *world) do(method string, rq *request) *response {
	set := func(h http.Header) {
		if rq.hasRange {
			h["Range"] = []string{rq.rng}
		}
		if rq.ifRange != "" {
			h["If-Range"] = []string{rq.ifRange}
		}
		if rq.inm != "" {
			h["If-None-Match"] = []string{rq.inm}
		}
		if rq.ims != "" {
			h["If-Modified-Since"] = []string{rq.ims}
		}
	}
	out := &response{}
	if w.srv != nil {
		req, err := http.NewRequest(method, w.srv.URL+w.url, nil)
		if err != nil {
			panic(err)
		}
		set(req.Header)
		tr := &http.Transport{DisableCompression: true, DisableKeepAlives: true}
		var resp *http.Response
		if !vlib.Guard(w.k, "wire-request", watchdog, func() {
			resp, err = tr.RoundTrip(req)
			if err == nil {
				out.body, out.bodyErr = io.ReadAll(resp.Body)
				resp.Body.Close()
			}
		}) {
			return &response{hung: true, hdr: http.Header{}}
		}
		if err != nil {
			panic(err)
		}
		out.code, out.hdr, out.wire, out.wireCL = resp.StatusCode, resp.Header, true, resp.ContentLength
		w.k.C.Count("wire_requests", 1)
		return out
	}
	req := httptest.NewRequest(method, w.url, nil)
	set(req.Header)
	rec := httptest.NewRecorder()
	if !vlib.Guard(w.k, "serve", watchdog, func() { w.h.ServeHTTP(rec, req) }) {
		// the handler goroutine still owns the recorder: do not touch it
		return &response{hung: true, hdr: http.Header{}}
	}
	out.code, out.hdr, out.body = rec.Code, rec.Header(), rec.Body.Bytes()
	return out
}

func short(b []byte) string {
	if len(b) > 24 {
		return fmt.Sprintf("%x…(%dB)", b[:24], len(b))
	}
	return fmt.Sprintf("%x(%dB)", b, len(b))
}

// judge applies the oracle to one response.
func (w *world) judge(method string, rq *request, p *response) (ok bool) {
	k := w.k
	ok = true
	if p.hung {
		return false
	}
	n := int64(len(w.file))
	f := analyse(rq, n, w.etag, w.lastMo)
	trig := f.trigger()
	if trig != "" {
		k.C.Count("trigger:"+trig, 1)
	}
	k.C.Count(fmt.Sprintf("status_%s_%d", method, p.code), 1)
	feat := "no-range"
	switch {
	case trig != "":
		feat = trig
	case f.hasRange && !f.valid:
		feat = "malformed-range"
	case f.hasRange && len(f.specs) > 1:
		feat = "multi-range"
	case f.hasRange:
		feat = "single-range"
	}
	if w.faulty {
		feat = "read-fault/" + feat
	}
	fail := func(clause, expected, observed string) {
		ok = false
		// one record per class and case (repeats are counted): the per-case cap
		// on recorded violations must stay available for other classes
		cls := clause + "/" + feat
		k.C.Count("seen:"+cls, 1)
		if w.once[cls] {
			return
		}
		w.once[cls] = true
		k.Fail(clause+"/"+feat, clause, expected, fmt.Sprintf("%s %s -> %s; %s", method, rq, p.summary(), observed))
	}

	// conditional results that may legitimately replace the representation
	inmMatch := false
	if rq.inm != "" {
		for _, t := range strings.Split(rq.inm, ",") {
			t = strings.TrimSpace(t)
			if t == "*" || strings.TrimPrefix(t, "W/") == w.etag {
				inmMatch = true
			}
		}
	}
	imsMatch := false
	if rq.ims != "" && w.lastMo != "" {
		t1, e1 := http.ParseTime(rq.ims)
		t2, e2 := http.ParseTime(w.lastMo)
		imsMatch = e1 == nil && e2 == nil && !t2.After(t1)
	}

	cl, clPresent, clErr := int64(-1), false, error(nil)
	if v, ok := p.hdr["Content-Length"]; ok && len(v) > 0 {
		clPresent = true
		if len(v) != 1 {
			clErr = fmt.Errorf("%d values", len(v))
		} else {
			cl, clErr = strconv.ParseInt(v[0], 10, 64)
		}
	}
	checkBody := func(a, b int64) { // expects file[a..b] (b = a-1: empty)
		if clErr != nil || !clPresent {
			fail("content-length", fmt.Sprint(b-a+1), fmt.Sprintf("Content-Length %v present=%v", clErr, clPresent))
			return
		}
		if cl != b-a+1 {
			fail("content-length", fmt.Sprint(b-a+1), fmt.Sprint(cl))
			return
		}
		if method == "HEAD" {
			if len(p.body) != 0 {
				fail("head-body", "empty body", short(p.body))
			}
			return
		}
		if p.bodyErr != nil {
			fail("body-read", "body of Content-Length bytes", p.bodyErr.Error())
			return
		}
		want := w.file[a : b+1]
		if w.faulty && len(p.body) < len(want) && bytes.Equal(p.body, want[:len(p.body)]) {
			k.C.Count("fault_body_cut_short", 1) // the read failed mid-body: acceptable
			return
		}
		if bytes.Equal(p.body, want) {
			k.C.Count("body_bytes_verified", int64(len(want)))
			return
		}
		// Which bytes were sent instead? If they are the file content starting at
		// the first Range member's offset the reader was left where the backend
		// pre-seeked it (the listed findings); anything else is a different defect.
		clause := "body"
		if trig != "" && f.r0Start >= 0 {
			s := f.r0Start
			if s > n {
				s = n
			}
			e := s + cl
			if e > n {
				e = n
			}
			if bytes.Equal(p.body, w.file[s:e]) {
				clause = "body-at-first-range-offset"
			}
		}
		fail(clause, fmt.Sprintf("file[%d..%d] = %s", a, b, short(want)), "body "+short(p.body))
	}

	switch p.code {
	case 200:
		if v := p.hdr.Get("Content-Range"); v != "" {
			fail("content-range", "no Content-Range on 200", v)
		}
		if inmMatch {
			fail("if-none-match", "304 (If-None-Match matches the current ETag)", "200")
		} else if imsMatch && rq.inm == "" {
			fail("if-modified-since", "304 (not modified since the given date)", "200")
		}
		checkBody(0, n-1)
		if method == "GET" && ok {
			w.saw200 = true
		}
	case 206:
		if !f.hasRange {
			fail("status", "200 (no Range header)", "206")
			return ok
		}
		if f.ifRange == 2 {
			fail("if-range", "Range ignored (If-Range does not match the current validator): 200", "206")
			return ok
		}
		m := reCR.FindStringSubmatch(p.hdr.Get("Content-Range"))
		if m == nil {
			fail("content-range", "bytes a-b/size", fmt.Sprintf("%q", p.hdr.Get("Content-Range")))
			return
		}
		a, _ := strconv.ParseInt(m[1], 10, 64)
		b, _ := strconv.ParseInt(m[2], 10, 64)
		sz, _ := strconv.ParseInt(m[3], 10, 64)
		if sz != n {
			fail("content-range", fmt.Sprintf("complete length %d", n), m[3])
			return
		}
		if f.valid {
			okIv := false
			for _, iv := range f.sat {
				if iv[0] == a && iv[1] == b {
					okIv = true
				}
			}
			// Leniency: a suffix member that selects zero bytes (-0, or -N on an
			// empty file) is answered like net/http does, 206 with the empty
			// interval "size-(size-1)"; consistent, if unorthodox.
			if !okIv && f.zeroLen && a == n && b == n-1 {
				okIv = true
				k.C.Count("lenient_zero_length_206", 1)
			}
			if !okIv {
				fail("content-range", fmt.Sprintf("one of the requested satisfiable ranges %v", f.sat), fmt.Sprintf("%d-%d", a, b))
				return
			}
		} else if !(0 <= a && a <= b && b < n) && !(f.zeroLen && a == n && b == n-1) {
			fail("content-range", "0 <= a <= b < size", fmt.Sprintf("%d-%d/%d", a, b, sz))
			return
		}
		checkBody(a, b)
		if method == "GET" && a > 0 && b >= a && ok {
			w.saw206 = true
		}
	case 304:
		if !(inmMatch || imsMatch) {
			fail("status", "no 304 without a matching If-None-Match / If-Modified-Since", "304")
		}
		if len(p.body) != 0 {
			fail("body", "empty 304 body", short(p.body))
		}
		w.sawOther = true
	case 416:
		switch {
		case !f.hasRange:
			fail("status", "200 (no Range header)", "416")
		case f.valid && len(f.sat) > 0:
			fail("status-416", fmt.Sprintf("a requested range overlaps the file: %v", f.sat), "416")
		default:
			if v := p.hdr.Get("Content-Range"); v != "" && v != fmt.Sprintf("bytes */%d", n) {
				fail("content-range", fmt.Sprintf("bytes */%d", n), v)
			}
			w.sawOther = true
		}
	case 400:
		if !(f.hasRange && !f.valid) {
			fail("status-400", "no 4xx for a syntactically valid request", "400")
		}
	default:
		if w.faulty && p.code >= 500 {
			k.C.Count("fault_answered_5xx", 1)
			break
		}
		fail(fmt.Sprintf("status-%d", p.code), "one of 200 206 304 400 416", strconv.Itoa(p.code))
	}
	if p.wire && (p.code == 200 || p.code == 206) && method == "GET" && p.wireCL != int64(len(p.body)) {
		fail("wire-length", fmt.Sprintf("client sees %d body bytes", p.wireCL), fmt.Sprint(len(p.body)))
	}
	return ok
}
