// Package ufsgen builds UnixFS files and directory trees with hostile importer
// parameters into an in-memory block service and keeps the ground truth
// (bytes, names, CIDs) next to them. It is shared by the C30, C31 and C33
// harnesses. Everything is a pure function of the *vlib.Rand it is given.
package ufsgen

import (
	"bytes"
	"context"
	"fmt"
	"os"
	"sort"
	"sync"
	"time"

	"github.com/ipfs/boxo/blockservice"
	bstore "github.com/ipfs/boxo/blockstore"
	chunker "github.com/ipfs/boxo/chunker"
	offline "github.com/ipfs/boxo/exchange/offline"
	"github.com/ipfs/boxo/ipld/merkledag"
	ft "github.com/ipfs/boxo/ipld/unixfs"
	"github.com/ipfs/boxo/ipld/unixfs/importer/balanced"
	ihelper "github.com/ipfs/boxo/ipld/unixfs/importer/helpers"
	"github.com/ipfs/boxo/ipld/unixfs/importer/trickle"
	uio "github.com/ipfs/boxo/ipld/unixfs/io"
	blocks "github.com/ipfs/go-block-format"
	cid "github.com/ipfs/go-cid"
	ds "github.com/ipfs/go-datastore"
	dssync "github.com/ipfs/go-datastore/sync"
	ipld "github.com/ipfs/go-ipld-format"

	"verif/vlib"
)

// Env is an in-memory block store with the services built on top of it.
type Env struct {
	BS   bstore.Blockstore
	BSrv blockservice.BlockService
	DS   ipld.DAGService

	faults *faults
}

// NewEnv returns a fresh, empty, offline environment.
func NewEnv() *Env {
	bs := bstore.NewBlockstore(dssync.MutexWrap(ds.NewMapDatastore()))
	bsrv := blockservice.New(bs, offline.Exchange(bs))
	return &Env{BS: bs, BSrv: bsrv, DS: merkledag.NewDAGService(bsrv)}
}

// ctxStore makes the in-memory blockstore honour context cancellation the way
// a real store or a remote exchange does: a read with a context that is already
// done fails with the context's error.
type ctxStore struct {
	bstore.Blockstore
	f *faults
}

// faults are injected read errors per CID (shared by the copies of ctxStore).
type faults struct {
	mu sync.Mutex
	m  map[string]*faultRule

	fired int
}

// faultRule fails the reads number skip+1 .. skip+times of one block
// (times < 0: every read after the first skip ones).
type faultRule struct {
	err         error
	skip, times int
	seen        int
}

func (s ctxStore) fault(ctx context.Context, c cid.Cid) error {
	if err := ctx.Err(); err != nil {
		return err
	}
	if s.f == nil {
		return nil
	}
	s.f.mu.Lock()
	defer s.f.mu.Unlock()
	ru := s.f.m[string(c.Hash())]
	if ru == nil {
		return nil
	}
	ru.seen++
	if ru.seen <= ru.skip || (ru.times >= 0 && ru.seen > ru.skip+ru.times) {
		return nil
	}
	s.f.fired++
	return ru.err
}

// FaultsFired reports how many reads have failed by injection since the last
// ClearFaults.
func (e *Env) FaultsFired() int {
	e.faults.mu.Lock()
	defer e.faults.mu.Unlock()
	return e.faults.fired
}

// SetFaultN makes the reads number skip+1..skip+times of c fail with err
// (times < 0: all reads after the first skip ones).
func (e *Env) SetFaultN(c cid.Cid, err error, skip, times int) {
	e.faults.mu.Lock()
	e.faults.m[string(c.Hash())] = &faultRule{err: err, skip: skip, times: times}
	e.faults.mu.Unlock()
}

// SetFault makes every read of c fail with err until ClearFaults (only for an
// Env made by NewEnvCtx).
func (e *Env) SetFault(c cid.Cid, err error) {
	e.SetFaultN(c, err, 0, -1)
}

// ClearFaults removes all injected faults.
func (e *Env) ClearFaults() {
	e.faults.mu.Lock()
	e.faults.m = map[string]*faultRule{}
	e.faults.fired = 0
	e.faults.mu.Unlock()
}

func (s ctxStore) Get(ctx context.Context, c cid.Cid) (blocks.Block, error) {
	if err := s.fault(ctx, c); err != nil {
		return nil, err
	}
	return s.Blockstore.Get(ctx, c)
}

func (s ctxStore) GetSize(ctx context.Context, c cid.Cid) (int, error) {
	if err := s.fault(ctx, c); err != nil {
		return 0, err
	}
	return s.Blockstore.GetSize(ctx, c)
}

func (s ctxStore) Has(ctx context.Context, c cid.Cid) (bool, error) {
	if err := s.fault(ctx, c); err != nil {
		return false, err
	}
	return s.Blockstore.Has(ctx, c)
}

// NewEnvCtx is NewEnv over a blockstore that refuses reads whose context is
// already cancelled, and that can be told to fail reads of chosen blocks.
func NewEnvCtx() *Env {
	f := &faults{m: map[string]*faultRule{}}
	e := NewEnvOver(ctxStore{bstore.NewBlockstore(dssync.MutexWrap(ds.NewMapDatastore())), f})
	e.faults = f
	return e
}

// NewEnvOver builds the services over an existing blockstore (used to replay a
// CAR offline).
func NewEnvOver(bs bstore.Blockstore) *Env {
	bsrv := blockservice.New(bs, offline.Exchange(bs))
	return &Env{BS: bs, BSrv: bsrv, DS: merkledag.NewDAGService(bsrv)}
}

// FileSpec are the importer parameters of one file.
type FileSpec struct {
	Trickle   bool
	Chunk     int
	MaxLinks  int
	RawLeaves bool
	CidV1     bool
	Mtime     int64 // unix seconds, 0 = none
	Mode      os.FileMode
}

func (s FileSpec) String() string {
	l := "balanced"
	if s.Trickle {
		l = "trickle"
	}
	v := 0
	if s.CidV1 {
		v = 1
	}
	return fmt.Sprintf("%s chunk=%d maxlinks=%d rawleaves=%v cidv%d mtime=%d mode=%o", l, s.Chunk, s.MaxLinks, s.RawLeaves, v, s.Mtime, uint32(s.Mode))
}

// RandFileSpec chooses importer parameters suited to a file of n bytes so that
// small files still become multi-level DAGs (tiny chunks, fan-out 2..5) while
// the block count stays bounded (<= ~600 leaves).
func RandFileSpec(r *vlib.Rand, n int) FileSpec {
	s := FileSpec{Trickle: r.Chance(1, 3), RawLeaves: r.Bool(), CidV1: r.Bool()}
	minChunk := n/600 + 1
	switch r.Intn(4) {
	case 0:
		s.Chunk = minChunk + r.Intn(4)
	case 1:
		s.Chunk = minChunk + r.Intn(64)
	case 2:
		s.Chunk = minChunk + r.Intn(1024)
	default:
		s.Chunk = 256 << 10
	}
	if s.Chunk > 1<<20 {
		s.Chunk = 1 << 20
	}
	switch r.Intn(3) {
	case 0:
		s.MaxLinks = r.Range(2, 5)
	case 1:
		s.MaxLinks = r.Range(6, 40)
	default:
		s.MaxLinks = ihelper.DefaultLinksPerBlock
	}
	if r.Chance(1, 4) {
		// a date well in the past, whole seconds (HTTP dates have no fraction)
		s.Mtime = int64(1_000_000_000 + r.Intn(500_000_000))
		if r.Bool() {
			s.Mode = os.FileMode(0o600 + r.Intn(0o200))
		}
	}
	return s
}

// AddFile imports data with the given parameters and returns the root node.
func (e *Env) AddFile(data []byte, s FileSpec) (ipld.Node, error) {
	prefix := merkledag.V0CidPrefix()
	if s.CidV1 {
		prefix = merkledag.V1CidPrefix()
	}
	p := ihelper.DagBuilderParams{
		Maxlinks:   s.MaxLinks,
		RawLeaves:  s.RawLeaves,
		CidBuilder: prefix,
		Dagserv:    e.DS,
		FileMode:   s.Mode,
	}
	if s.Mtime != 0 {
		p.FileModTime = time.Unix(s.Mtime, 0)
	}
	db, err := p.New(chunker.NewSizeSplitter(bytes.NewReader(data), int64(s.Chunk)))
	if err != nil {
		return nil, err
	}
	if s.Trickle {
		return trickle.Layout(db)
	}
	return balanced.Layout(db)
}

// Kind of a tree entry.
type Kind int

const (
	KFile Kind = iota
	KSymlink
	KDir  // basic directory (one block)
	KHAMT // sharded directory
)

func (k Kind) String() string { return [...]string{"file", "symlink", "dir", "hamt"}[k] }

// Entry is one node of the ground-truth tree.
type Entry struct {
	Name     string
	Kind     Kind
	Cid      cid.Cid
	Data     []byte   // file bytes / symlink target
	Spec     FileSpec // files
	Width    int      // HAMT fan-out
	Children []*Entry // directories, sorted by name
	byName   map[string]*Entry
}

// IsDir reports whether the entry is a directory of either kind.
func (e *Entry) IsDir() bool { return e.Kind == KDir || e.Kind == KHAMT }

// Child returns the named child (nil if absent).
func (e *Entry) Child(name string) *Entry { return e.byName[name] }

// Lookup walks segs from e; it returns the entry reached and how many
// segments were consumed (== len(segs) on success).
func (e *Entry) Lookup(segs []string) (*Entry, int) {
	cur := e
	for i, s := range segs {
		nx := cur.Child(s)
		if nx == nil {
			return cur, i
		}
		cur = nx
	}
	return cur, len(segs)
}

// Walk calls fn for e and every descendant with its path segments.
func (e *Entry) Walk(prefix []string, fn func(segs []string, e *Entry)) {
	fn(prefix, e)
	for _, c := range e.Children {
		c.Walk(append(append([]string(nil), prefix...), c.Name), fn)
	}
}

// TreeOpts bound the generated tree.
type TreeOpts struct {
	MaxDepth    int // directory nesting below the root (root is depth 0)
	MaxEntries  int // per directory
	SubEntries  int // per directory below the root (0: MaxEntries)
	MaxFileSize int
	Symlinks    bool
	RootHAMT    int // 0 random, 1 force HAMT, 2 force basic
	RootMin     int   // minimum number of root entries drawn (before name collisions)
	RootFanout  []int // HAMT fan-outs to choose from for the root (nil: all)
	// EmptyHAMT allows HAMT directories without entries. boxo writes such a
	// shard without the UnixFS Data (bitfield) field and go-unixfsnode refuses
	// to load it, so generators keep them to a dedicated stratum.
	EmptyHAMT bool
	// Repeats makes some directory entries point to a subtree that already
	// exists under another name, and some files consist of a repeated pattern
	// (identical leaves), so DAGs contain the same block more than once.
	Repeats bool
}

// nameTokens are hostile entry names: dag-pb field names, list indices, strings
// that look like HAMT link prefixes, characters that need URL escaping.
var nameTokens = []string{
	"Links", "Data", "Hash", "Name", "Tsize", "0", "1", "2", "00", "01", "0A", "FF", "F", "00a", "FFa",
	"a", "b", "A", "index.html", "a b", "a%20b", "%41", "ä", "日本", "x?y", "x#y", "a+b", "a&b=c", "~", "-", "_", "..a", "a..", ".a",
	"con", "file.txt", "file.TXT", "dir", "sub", "README", "a:b", "a;b", "a,b", "'q'", "\"q\"", "a\\b", "*", "(", "@", "=", "$", "!",
}

// RandName returns a non-empty name without '/' that is neither "." nor "..".
func RandName(r *vlib.Rand) string {
	switch r.Intn(5) {
	case 0, 1:
		return nameTokens[r.Intn(len(nameTokens))]
	case 2:
		return fmt.Sprintf("f%d", r.Intn(400))
	case 3:
		return fmt.Sprintf("%02X%s", r.Intn(256), nameTokens[r.Intn(len(nameTokens))])
	default:
		const al = "abcXYZ019-_. "
		n := r.Range(1, 12)
		b := make([]byte, n)
		for i := range b {
			b[i] = al[r.Intn(len(al))]
		}
		s := string(b)
		if s == "." || s == ".." {
			return "dot"
		}
		return s
	}
}

var hamtWidths = []int{8, 8, 16, 32, 64, 256}

// GenTree builds a random directory tree. The returned root is a directory.
func GenTree(r *vlib.Rand, env *Env, o TreeOpts) (*Entry, error) {
	return genDir(r, env, o, 0, "")
}

func genDir(r *vlib.Rand, env *Env, o TreeOpts, depth int, name string) (*Entry, error) {
	ctx := context.Background()
	e := &Entry{Name: name, byName: map[string]*Entry{}}
	hamt := r.Chance(1, 2)
	if depth == 0 && o.RootHAMT == 1 {
		hamt = true
	} else if depth == 0 && o.RootHAMT == 2 {
		hamt = false
	}
	n, maxN := 0, o.MaxEntries
	if depth > 0 && o.SubEntries > 0 {
		maxN = o.SubEntries
	}
	switch r.Intn(4) {
	case 0:
		n = r.Intn(4)
	case 1, 2:
		n = r.Range(1, maxN/3+1)
	default:
		n = r.Range(1, maxN)
	}
	if depth == 0 && n < o.RootMin {
		n = r.Range(o.RootMin, max(o.RootMin, maxN))
	}
	if depth > 0 && n > 12 && !hamt {
		n = 12
	}
	if hamt && n == 0 && !o.EmptyHAMT {
		n = 1
	}
	if o.EmptyHAMT && ((depth > 0 && r.Chance(1, 3)) || (depth == 0 && r.Chance(1, 8))) {
		hamt, n = true, 0
	}
	for i := 0; i < n; i++ {
		nm := RandName(r)
		if _, dup := e.byName[nm]; dup {
			continue
		}
		var c *Entry
		var err error
		x := r.Intn(10)
		if o.Repeats && len(e.Children) > 0 && r.Chance(1, 6) {
			// same subtree under a second name
			src := e.Children[r.Intn(len(e.Children))]
			cp := *src
			cp.Name = nm
			e.byName[nm] = &cp
			e.Children = append(e.Children, &cp)
			continue
		}
		switch {
		case depth < o.MaxDepth && x < 3:
			c, err = genDir(r, env, o, depth+1, nm)
		case o.Symlinks && x == 3:
			c, err = genSymlink(r, env, nm)
		case o.Repeats && x == 4:
			c, err = genPeriodicFile(r, env, nm, o.MaxFileSize)
		default:
			c, err = GenFile(r, env, nm, o.MaxFileSize)
		}
		if err != nil {
			return nil, err
		}
		e.byName[nm] = c
		e.Children = append(e.Children, c)
	}
	sort.Slice(e.Children, func(i, j int) bool { return e.Children[i].Name < e.Children[j].Name })

	var opts []uio.DirectoryOption
	if r.Bool() {
		opts = append(opts, uio.WithCidBuilder(merkledag.V1CidPrefix()))
	}
	var dir uio.Directory
	var err error
	if hamt {
		e.Kind = KHAMT
		e.Width = hamtWidths[r.Intn(len(hamtWidths))]
		if depth == 0 && len(o.RootFanout) > 0 {
			e.Width = o.RootFanout[r.Intn(len(o.RootFanout))]
		}
		dir, err = uio.NewHAMTDirectory(env.DS, 0, append(opts, uio.WithMaxHAMTFanout(e.Width))...)
	} else {
		e.Kind = KDir
		dir, err = uio.NewBasicDirectory(env.DS, opts...)
	}
	if err != nil {
		return nil, err
	}
	// insertion order is random: the HAMT shape must not depend on it
	for _, i := range r.Perm(len(e.Children)) {
		c := e.Children[i]
		nd, err := env.DS.Get(ctx, c.Cid)
		if err != nil {
			return nil, err
		}
		if err := dir.AddChild(ctx, c.Name, nd); err != nil {
			return nil, fmt.Errorf("AddChild %q: %w", c.Name, err)
		}
	}
	nd, err := dir.GetNode()
	if err != nil {
		return nil, err
	}
	if err := env.DS.Add(ctx, nd); err != nil {
		return nil, err
	}
	e.Cid = nd.Cid()
	return e, nil
}

// GenFile imports one random file of size 0..maxSize (biased to boundaries).
func GenFile(r *vlib.Rand, env *Env, name string, maxSize int) (*Entry, error) {
	var n int
	switch r.Intn(6) {
	case 0:
		n = r.Intn(3)
	case 1, 2:
		n = r.Intn(200)
	case 3:
		n = r.Intn(5000)
	default:
		n = r.Intn(maxSize + 1)
	}
	if n > maxSize {
		n = maxSize
	}
	return GenFileN(r, env, name, n)
}

// GenFileN imports one random file of exactly n bytes.
func GenFileN(r *vlib.Rand, env *Env, name string, n int) (*Entry, error) {
	data := r.Bytes(n)
	spec := RandFileSpec(r, n)
	nd, err := env.AddFile(data, spec)
	if err != nil {
		return nil, err
	}
	return &Entry{Name: name, Kind: KFile, Cid: nd.Cid(), Data: data, Spec: spec}, nil
}

// genPeriodicFile imports a file whose content repeats with the chunk size,
// so that many leaves (and often whole subtrees) are the same block.
func genPeriodicFile(r *vlib.Rand, env *Env, name string, maxSize int) (*Entry, error) {
	n := r.Range(maxSize/4, maxSize)
	spec := RandFileSpec(r, n)
	if spec.Chunk > n/3+1 {
		spec.Chunk = n/(3+r.Intn(20)) + 1
	}
	pat := r.Bytes(spec.Chunk)
	data := make([]byte, n)
	for i := 0; i < n; i += len(pat) {
		copy(data[i:], pat)
	}
	if n > 0 && r.Bool() {
		data[r.Intn(n)] ^= 0x55 // one odd leaf
	}
	nd, err := env.AddFile(data, spec)
	if err != nil {
		return nil, err
	}
	return &Entry{Name: name, Kind: KFile, Cid: nd.Cid(), Data: data, Spec: spec}, nil
}

func genSymlink(r *vlib.Rand, env *Env, name string) (*Entry, error) {
	target := "../" + RandName(r)
	d, err := ft.SymlinkData(target)
	if err != nil {
		return nil, err
	}
	nd := merkledag.NodeWithData(d)
	if r.Bool() {
		nd.SetCidBuilder(merkledag.V1CidPrefix())
	}
	if err := env.DS.Add(context.Background(), nd); err != nil {
		return nil, err
	}
	return &Entry{Name: name, Kind: KSymlink, Cid: nd.Cid(), Data: []byte(target)}, nil
}

// DagStat describes the block structure below a CID, computed by a plain
// dag-pb walk that uses neither the hamt package nor go-unixfsnode.
type DagStat struct {
	Blocks   map[cid.Cid]int // every distinct block reachable -> byte length
	Depth    int             // longest link chain (root alone = 1)
	Refs     int             // links followed (counts repeats)
	HamtLvls int             // deepest nesting of HAMT shard blocks below (and including) the root
}

// Stat walks the DAG below c.
func (e *Env) Stat(c cid.Cid) (*DagStat, error) {
	st := &DagStat{Blocks: map[cid.Cid]int{}}
	var rec func(c cid.Cid, depth, hl int) error
	rec = func(c cid.Cid, depth, hl int) error {
		st.Refs++
		if depth > st.Depth {
			st.Depth = depth
		}
		blk, err := e.BS.Get(context.Background(), c)
		if err != nil {
			return fmt.Errorf("stat %s: %w", c, err)
		}
		st.Blocks[c] = len(blk.RawData())
		if c.Prefix().Codec != cid.DagProtobuf {
			return nil
		}
		nd, err := merkledag.DecodeProtobuf(blk.RawData())
		if err != nil {
			return err
		}
		if fsn, err := ft.FSNodeFromBytes(nd.Data()); err == nil && fsn.Type() == ft.THAMTShard {
			hl++
			if hl > st.HamtLvls {
				st.HamtLvls = hl
			}
		}
		for _, l := range nd.Links() {
			if err := rec(l.Cid, depth+1, hl); err != nil {
				return err
			}
		}
		return nil
	}
	if err := rec(c, 1, 0); err != nil {
		return nil, err
	}
	return st, nil
}

// HAMTNames enumerates the entry names of the HAMT rooted at c with a plain
// dag-pb walk (link name = <hex prefix of log16(fanout) digits><entry name>;
// a link whose name is only the prefix points to a child shard).
func (e *Env) HAMTNames(c cid.Cid) (map[string]cid.Cid, error) {
	out := map[string]cid.Cid{}
	var rec func(c cid.Cid) error
	rec = func(c cid.Cid) error {
		nd, err := e.DS.Get(context.Background(), c)
		if err != nil {
			return err
		}
		pn, ok := nd.(*merkledag.ProtoNode)
		if !ok {
			return fmt.Errorf("%s: not dag-pb", c)
		}
		fsn, err := ft.FSNodeFromBytes(pn.Data())
		if err != nil {
			return err
		}
		if fsn.Type() != ft.THAMTShard {
			return fmt.Errorf("%s: not a HAMT shard", c)
		}
		pl := len(fmt.Sprintf("%X", fsn.Fanout()-1))
		for _, l := range pn.Links() {
			if len(l.Name) < pl {
				return fmt.Errorf("%s: short link name %q", c, l.Name)
			}
			if len(l.Name) == pl {
				if err := rec(l.Cid); err != nil {
					return err
				}
				continue
			}
			out[l.Name[pl:]] = l.Cid
		}
		return nil
	}
	return out, rec(c)
}

// WrapInDir puts fe under the given name into a fresh basic directory and
// returns the directory's CID string.
func WrapInDir(env *Env, name string, fe *Entry) (string, error) {
	ctx := context.Background()
	dir, err := uio.NewBasicDirectory(env.DS, uio.WithCidBuilder(merkledag.V1CidPrefix()))
	if err != nil {
		return "", err
	}
	nd, err := env.DS.Get(ctx, fe.Cid)
	if err != nil {
		return "", err
	}
	if err := dir.AddChild(ctx, name, nd); err != nil {
		return "", err
	}
	dn, err := dir.GetNode()
	if err != nil {
		return "", err
	}
	if err := env.DS.Add(ctx, dn); err != nil {
		return "", err
	}
	return dn.Cid().String(), nil
}

// NodeSpan is a node of a UnixFS file DAG with the content bytes [S,E) below it.
type NodeSpan struct {
	Cid  cid.Cid
	S, E int64
	Leaf bool
}

// FileSpans walks a UnixFS file DAG (content of a node = its own Data followed
// by the content of its links, in order) with a plain dag-pb decode.
func (e *Env) FileSpans(root cid.Cid) ([]NodeSpan, int64, error) {
	var out []NodeSpan
	var rec func(c cid.Cid, off int64) (int64, error)
	rec = func(c cid.Cid, off int64) (int64, error) {
		blk, err := e.BS.Get(context.Background(), c)
		if err != nil {
			return 0, err
		}
		if c.Prefix().Codec == cid.Raw {
			n := int64(len(blk.RawData()))
			out = append(out, NodeSpan{c, off, off + n, true})
			return n, nil
		}
		nd, err := merkledag.DecodeProtobuf(blk.RawData())
		if err != nil {
			return 0, err
		}
		fsn, err := ft.FSNodeFromBytes(nd.Data())
		if err != nil {
			return 0, err
		}
		total := int64(len(fsn.Data()))
		for _, l := range nd.Links() {
			n, err := rec(l.Cid, off+total)
			if err != nil {
				return 0, err
			}
			total += n
		}
		out = append(out, NodeSpan{c, off, off + total, len(nd.Links()) == 0})
		return total, nil
	}
	n, err := rec(root, 0)
	return out, n, err
}
