#!/usr/bin/env python3
# Regenerates the sensitivity mutants used to validate this check as build overlays
# under /verif/.work/c43-mut/<name>/ov.json (nothing in /repo is touched):
#   python3 /verif/harness/c43/mutants.py
#   VERIF_EXTRA_OVERLAY=/verif/.work/c43-mut/<name>/ov.json ./check C43 quick     # must print VIOLATION
import os, json
OUT = '/verif/.work/c43-mut/'
def mut(name, rel, old, new, count=1):
    src = '/repo/' + rel
    s = open(src).read()
    assert s.count(old) >= 1, (name, 'pattern not found')
    s2 = s.replace(old, new, count)
    assert s2 != s
    d = OUT + name
    os.makedirs(d, exist_ok=True)
    dst = d + '/' + os.path.basename(rel)
    open(dst, 'w').write(s2)
    json.dump({"Replace": {src: dst}}, open(d + '/ov.json', 'w'))
I = 'routing/http/types/iter/'
mut('m1', I+'limit.go', 'l.count >= l.limit', 'l.count > l.limit')                       # Limit yields limit+1
mut('m2', I+'filter.go', """func (f *FilterIter[T]) Close() error {
\treturn f.iter.Close()""", """func (f *FilterIter[T]) Close() error {
\treturn nil""")                                                                          # Filter.Close does not close the source
mut('m3', I+'limit.go', 'l.limit > 0 && l.count >= l.limit', 'l.limit >= 0 && l.count >= l.limit')  # Limit(0) yields nothing
mut('m4', I+'json.go', """\tif j.res.Err != nil {
\t\tj.done = true
\t}
""", """\tif j.res.Err != nil && !errors.As(j.res.Err, new(*json.UnmarshalTypeError)) {
\t\tj.done = true
\t}
""")                                                                                       # JSON iterator keeps going after a type error
mut('m5', I+'map.go', """func (m *MapIter[T, U]) Close() error {
\treturn m.iter.Close()""", """func (m *MapIter[T, U]) Close() error {
\tif m.done {
\t\treturn nil // exhausted: nothing left to release
\t}
\treturn m.iter.Close()""")                                                                # Map.Close skips the source once exhausted
mut('n1', I+'limit.go', """\tif l.limit > 0 && l.count >= l.limit {
\t\treturn false
\t}
\tif !l.iter.Next() {
\t\treturn false
\t}
""", """\tif !l.iter.Next() {
\t\treturn false
\t}
\tif l.limit > 0 && l.count >= l.limit {
\t\treturn false
\t}
""")                                                                                       # Limit pulls before testing its cap
