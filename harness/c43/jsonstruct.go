// Structured JSON elements. FromReaderJSON[T] is instantiated with element
// types whose decoding is sensitive to the state of the destination (struct
// with optional fields, []int, map[string]int, *struct) and fed documents of
// differing shape. The consumer RETAINS every yielded value; after every Next
// and at the end the retained list is compared with decoding each document on
// its own into a fresh value (json.Unmarshal), so a yielded value must be the
// decoding of its own document and must not change while iteration goes on.
// The same Map/Filter/Limit layers, consumers, read-ahead bound and Close
// clauses as in the int strata apply.
package main

import (
	"encoding/json"
	"fmt"
	"hash/fnv"
	"strings"

	"github.com/ipfs/boxo/routing/http/types/iter"

	"verif/vlib"
)

type sObj struct {
	A int
	B string   `json:",omitempty"`
	C []string `json:",omitempty"`
	D *int
	M map[string]int
}

func render(v any) string {
	b, err := json.Marshal(v)
	if err != nil {
		return "<unmarshalable: " + err.Error() + ">"
	}
	return string(b)
}

func skey(v any) int {
	h := fnv.New32a()
	h.Write([]byte(render(v)))
	return int(h.Sum32() % 1000)
}

var sMapFns = []string{"id", "id", "clone", "errIfKeyMod5"}
var sPredFns = []string{"keyEven", "keyOdd", "keyNotMod3", "true", "false", "noErr"}

func sApplyMap[T any](fn string, x iter.Result[T]) iter.Result[T] {
	if x.Err != nil || fn == "id" {
		return x
	}
	switch fn {
	case "clone": // a pure conversion: re-encode and decode into a fresh value
		var c T
		if err := json.Unmarshal([]byte(render(x.Val)), &c); err != nil {
			panic(err)
		}
		return iter.Result[T]{Val: c}
	case "errIfKeyMod5":
		if skey(x.Val)%5 == 0 {
			return iter.Result[T]{Err: errSentinel}
		}
		return x
	}
	panic("unknown map fn " + fn)
}

func sApplyPred[T any](fn string, x iter.Result[T]) bool {
	switch fn {
	case "true":
		return true
	case "false":
		return false
	case "noErr":
		return x.Err == nil
	}
	if x.Err != nil {
		return true
	}
	k := skey(x.Val)
	switch fn {
	case "keyEven":
		return k%2 == 0
	case "keyOdd":
		return k%2 != 0
	case "keyNotMod3":
		return k%3 != 0
	}
	panic("unknown pred " + fn)
}

// ---------------------------------------------------------------- document generators

func genObjDoc(r *vlib.Rand) string {
	if r.Chance(1, 10) {
		return "{}"
	}
	var fields []string
	if r.Chance(2, 3) {
		fields = append(fields, fmt.Sprintf(`"A":%d`, r.Range(-9, 99)))
	}
	if r.Chance(1, 2) {
		fields = append(fields, fmt.Sprintf(`"B":%q`, vlib.Pick(r, []string{"", "x", "yy", "zzz"})))
	}
	if r.Chance(1, 2) {
		var cs []string
		for i, m := 0, r.Range(0, 3); i < m; i++ {
			cs = append(cs, fmt.Sprintf("%q", vlib.Pick(r, []string{"p", "q", "r", "s"})))
		}
		fields = append(fields, `"C":[`+strings.Join(cs, ",")+`]`)
	}
	if r.Chance(1, 2) {
		if r.Chance(1, 4) {
			fields = append(fields, `"D":null`)
		} else {
			fields = append(fields, fmt.Sprintf(`"D":%d`, r.Range(0, 50)))
		}
	}
	if r.Chance(1, 2) {
		fields = append(fields, `"M":`+genMapDoc(r))
	}
	vlib.Shuffle(r, fields)
	return "{" + strings.Join(fields, ",") + "}"
}

func genMapDoc(r *vlib.Rand) string {
	if r.Chance(1, 12) {
		return "null"
	}
	var kv []string
	for _, k := range []string{"x", "y", "z", "w"} {
		if r.Chance(2, 5) {
			kv = append(kv, fmt.Sprintf(`%q:%d`, k, r.Range(0, 20)))
		}
	}
	vlib.Shuffle(r, kv)
	return "{" + strings.Join(kv, ",") + "}"
}

func genSliceDoc(r *vlib.Rand) string {
	if r.Chance(1, 12) {
		return "null"
	}
	var xs []string
	for i, m := 0, r.Range(0, 5); i < m; i++ {
		xs = append(xs, fmt.Sprint(r.Range(-5, 50)))
	}
	return "[" + strings.Join(xs, ",") + "]"
}

func genPtrDoc(r *vlib.Rand) string {
	if r.Chance(1, 6) {
		return "null"
	}
	return genObjDoc(r)
}

// ---------------------------------------------------------------- one case

type refEl struct {
	doc int // index of the document this element derives from
	err bool
}

func structCase(k *vlib.Case) {
	switch k.R.Intn(4) {
	case 0:
		runStruct[sObj](k, "struct", genObjDoc)
	case 1:
		runStruct[[]int](k, "slice", genSliceDoc)
	case 2:
		runStruct[map[string]int](k, "map", genMapDoc)
	default:
		runStruct[*sObj](k, "ptr", genPtrDoc)
	}
}

func runStruct[T any](k *vlib.Case, typ string, gen func(*vlib.Rand) string) {
	r := k.R
	c := k.C

	// documents and their independent decodings
	n := r.Range(0, 24)
	if r.Chance(1, 8) {
		n = r.Range(0, 3)
	}
	badAt := -1
	if r.Chance(1, 4) && n > 0 {
		badAt = r.Intn(n)
	}
	seps := []string{" ", "\n", "\r\n", "\t", "  \n "}
	withFault := badAt < 0 && r.Chance(1, 4)
	var starts, ends, sepEnds []int
	var sb strings.Builder
	var docs []string
	var want []iter.Result[T] // list semantics of the source
	stopped := false
	for i := 0; i < n; i++ {
		d := gen(r)
		if i == badAt {
			d = vlib.Pick(r, []string{`"x"`, `nope`, `12`, `tru`, `]`, `}`})
		}
		docs = append(docs, d)
		starts = append(starts, sb.Len())
		sb.WriteString(d)
		ends = append(ends, sb.Len())
		sb.WriteString(vlib.Pick(r, seps))
		sepEnds = append(sepEnds, sb.Len())
		if stopped {
			continue
		}
		var v T
		if err := json.Unmarshal([]byte(d), &v); err != nil {
			want = append(want, iter.Result[T]{Err: errSentinel})
			stopped = true
		} else {
			want = append(want, iter.Result[T]{Val: v})
		}
	}
	text := sb.String()
	fault, faultWD := "", false
	if withFault {
		// the reader fails (non-EOF) at a value boundary or inside a document:
		// the documents complete before the fault, then exactly one error item
		off, kk, kind := pickFault(r, 0, starts, ends, sepEnds)
		text = text[:off]
		want = append(append([]iter.Result[T](nil), want[:kk]...), iter.Result[T]{Err: errSentinel})
		fault, faultWD = kind, r.Bool()
	}
	var chunks []int
	if r.Chance(2, 3) {
		for i, m := 0, r.Range(1, 4); i < m; i++ {
			chunks = append(chunks, r.Range(1, 16))
		}
	}
	var layers []layer
	for i, m := 0, r.Range(0, 3); i < m; i++ {
		switch r.Intn(3) {
		case 0:
			layers = append(layers, layer{kind: "map", fn: vlib.Pick(r, sMapFns)})
		case 1:
			layers = append(layers, layer{kind: "filter", fn: vlib.Pick(r, sPredFns)})
		default:
			lim := r.Range(-1, 30)
			if r.Chance(1, 2) {
				lim = r.Range(-1, 5)
			}
			layers = append(layers, layer{kind: "limit", arg: lim})
		}
	}
	consumer := vlib.Pick(r, []string{"drain", "drain", "drain", "partial", "readall", "readall", "readallresults"})
	partialN := r.Range(0, 8)
	closeN := 1 + r.Intn(2)

	k.Logf("json-struct type=%s docs=%q chunks=%v then-reader-fails=%q(with-data=%v)", typ, text, chunks, fault, faultWD)
	for _, l := range layers {
		k.Logf("%s", l.String())
	}
	k.Logf("consumer %s n=%d closes=%d (every yielded value is retained)", consumer, partialN, closeN)

	// ---- reference: stage lists over (document index, err)
	cur := make([]refEl, len(want))
	for i, w := range want {
		cur[i] = refEl{i, w.Err != nil}
	}
	valOf := func(e refEl) iter.Result[T] {
		if e.err {
			return iter.Result[T]{Err: errSentinel}
		}
		return want[e.doc]
	}
	stages := [][]refEl{cur}
	for _, l := range layers {
		var out []refEl
		switch l.kind {
		case "map":
			for _, e := range cur {
				m := sApplyMap(l.fn, valOf(e))
				out = append(out, refEl{e.doc, m.Err != nil})
			}
		case "filter":
			for _, e := range cur {
				if sApplyPred(l.fn, valOf(e)) {
					out = append(out, e)
				}
			}
		case "limit":
			out = cur
			if l.arg > 0 && len(cur) > l.arg {
				out = cur[:l.arg]
			}
		}
		stages = append(stages, out)
		cur = out
	}
	final := cur
	refStr := func(es []refEl) string {
		ss := make([]string, len(es))
		for i, e := range es {
			if e.err {
				ss[i] = "E"
			} else {
				ss[i] = render(want[e.doc].Val)
			}
		}
		return "[" + strings.Join(ss, " ") + "]"
	}

	// ---- real pipeline
	reader := &fragReader{data: []byte(text), chunks: chunks, fail: fault != "", failWithData: faultWD}
	cnt := &counters{}
	var top iter.Iter[iter.Result[T]] = &countIter[iter.Result[T]]{inner: iter.FromReaderJSON[T](reader), c: cnt}
	for _, l := range layers {
		l := l
		switch l.kind {
		case "map":
			top = iter.Map(top, func(x iter.Result[T]) iter.Result[T] { return sApplyMap(l.fn, x) })
		case "filter":
			top = iter.Filter(top, func(x iter.Result[T]) bool { return sApplyPred(l.fn, x) })
		case "limit":
			top = iter.Limit(top, l.arg)
		}
	}

	gotStr := func(got []iter.Result[T]) string {
		ss := make([]string, len(got))
		for i, g := range got {
			if g.Err != nil {
				ss[i] = "E"
			} else {
				ss[i] = render(g.Val)
			}
		}
		return "[" + strings.Join(ss, " ") + "]"
	}
	same := func(g iter.Result[T], e refEl) bool {
		if e.err || g.Err != nil {
			return e.err == (g.Err != nil)
		}
		return render(g.Val) == render(want[e.doc].Val)
	}

	feat := "" // discriminating input feature for the class
	if fault != "" {
		feat = "/iofault-" + fault
	}
	var retained []iter.Result[T]
	failed := false
	asks := inf
	wantList := final
	pull := func(max int) {
		for i := 0; i < max && top.Next(); i++ {
			retained = append(retained, top.Val())
			if failed {
				continue
			}
			// after every Next: the new value and all values retained earlier
			for j, g := range retained {
				if j >= len(final) {
					break // too many elements: reported by the final comparison
				}
				if !same(g, final[j]) {
					failed = true
					if j == len(retained)-1 {
						k.Fail("json-struct/current-value/"+typ, "a yielded value == json.Unmarshal of its own document into a fresh value",
							refStr(final[j:j+1]), gotStr(retained[j:j+1])+fmt.Sprintf(" (element %d)", j))
					} else {
						k.Fail("json-struct/retained-value/"+typ, "a value yielded earlier does not change when Next is called again",
							refStr(final[j:j+1]), gotStr(retained[j:j+1])+fmt.Sprintf(" (element %d, after yielding element %d)", j, len(retained)-1))
					}
					break
				}
			}
		}
	}
	var raErr error
	switch consumer {
	case "drain":
		pull(inf)
	case "partial":
		asks = partialN
		pull(partialN)
		if len(wantList) > partialN {
			wantList = wantList[:partialN]
		}
	case "readall":
		retained = iter.ReadAll(top)
	case "readallresults":
		vals, err := iter.ReadAllResults[T](top)
		raErr = err
		for _, v := range vals {
			retained = append(retained, iter.Result[T]{Val: v})
		}
		firstErr := -1
		for i, e := range final {
			if e.err {
				firstErr = i
				break
			}
		}
		if firstErr >= 0 {
			asks = firstErr + 1
			wantList = nil
			if err == nil && !failed {
				failed = true
				k.Fail("json-struct/values/"+typ+"/readallresults"+feat, "ReadAllResults reports the first error element", "error", "nil error, values "+gotStr(retained))
			}
			retained = nil
		} else if err != nil && !failed {
			failed = true
			k.Fail("json-struct/values/"+typ+"/readallresults"+feat, "ReadAllResults succeeds on an error-free list", refStr(final), "error "+err.Error())
			wantList = nil
			retained = nil
		}
	}
	_ = raErr
	for i := 0; i < closeN; i++ {
		top.Close()
	}
	// final comparison of everything retained (after Close as well)
	if !failed {
		ok := len(retained) == len(wantList)
		for i := 0; ok && i < len(retained); i++ {
			ok = same(retained[i], wantList[i])
		}
		if !ok {
			failed = true
			k.Fail("json-struct/values/"+typ+"/"+consumer+feat, "retained list == per-document decoding through the list model", refStr(wantList), gotStr(retained))
		}
	}

	// ---- read-ahead bound and Close, same rules as the int strata
	a := asks
	for d := len(layers) - 1; d >= 0; d-- {
		l := layers[d]
		switch l.kind {
		case "limit":
			if l.arg > 0 && a > l.arg {
				a = l.arg
			}
		case "filter":
			if a >= inf || a == 0 {
				break
			}
			passed, pos := 0, inf
			for i, e := range stages[d] {
				if sApplyPred(l.fn, valOf(e)) {
					passed++
					if passed == a {
						pos = i + 1
						break
					}
				}
			}
			a = pos
		}
	}
	if a > len(want)+1 {
		a = len(want) + 1
	}
	if !failed && cnt.next > a+1 {
		k.Fail("over-read/json-struct", "source Next calls <= ideal lazy demand + 1", fmt.Sprintf("<= %d (ideal %d + 1)", a+1, a), fmt.Sprint(cnt.next))
	}
	if cnt.closes == 0 {
		k.Fail("close-not-propagated/json-struct", "Close on the outermost iterator closes the source", ">= 1 source Close", "0")
	} else if reader.closes == 0 {
		k.Fail("close-not-propagated/json-reader", "JSON iterator closes a reader that is an io.Closer", ">= 1 reader Close", "0")
	}

	c.Count("json_struct_pipelines", 1)
	c.Count("json_struct_type_"+typ, 1)
	c.Count("json_struct_values_retained_and_compared", int64(len(retained)))
	// non-trivial: >= 3 documents decoded, at least two successive error-free
	// documents of different shape (different rendering), >= 2 values retained.
	differ := 0
	for i := 1; i < len(want); i++ {
		if want[i].Err == nil && want[i-1].Err == nil && render(want[i].Val) != render(want[i-1].Val) {
			differ++
		}
	}
	if len(want) >= 3 && differ >= 1 && len(retained) >= 2 {
		k.Nontrivial()
	}
}
