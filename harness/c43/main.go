// C43: the routing iterator combinators (routing/http/types/iter: Map, Filter,
// Limit, FromSlice, FromReaderJSON, ToResultIter, ReadAll, ReadAllResults) are
// composed at random (depth 0..4) over a counting source and compared with
// plain list operations. The source counts every Next/Val/Close, so the
// monitor also sees how far a limited pipeline reads ahead and whether Close
// on the outermost iterator reaches the source (and, for the JSON iterator,
// the io.Closer underneath it).
//
// Reference model (written from the doc comments, list semantics only):
//
//	Map f      = [f(x) | x <- in]
//	Filter p   = [x | x <- in, p(x)]
//	Limit k    = in            if k <= 0 ("0 or less means no limit")
//	           = take k in     otherwise
//	FromSlice  = the slice; FromReaderJSON = the whitespace-delimited values,
//	             up to and including the first value that fails to decode
//	             ("stop iterating on an error"), io.EOF ends the list silently.
//
// Read-ahead bound: demand is propagated top-down through the same list model
// (a stage that is asked `a` times asks its input: Map a; Limit k>0 min(a,k);
// Limit k<=0 a; Filter the position of its a-th passing input element, or
// everything when fewer pass). The source may be asked at most one more time
// than that ideal ("never read past what they yield ... more than one element
// ahead").
package main

import (
	"errors"
	"fmt"
	"io"
	"strconv"
	"strings"

	"github.com/ipfs/boxo/routing/http/types/iter"

	"verif/vlib"
)

type el = iter.Result[int]

var errSentinel = errors.New("sentinel element error")

// ---------------------------------------------------------------- counting source

type counters struct {
	next         int // Next calls
	nextTrue     int
	nextAfterEnd int // Next calls after a Next that returned false
	nextAfterCls int // Next calls after Close
	closes       int
	ended        bool
}

type countIter[T any] struct {
	inner iter.Iter[T]
	c     *counters
}

func (ci *countIter[T]) Next() bool {
	ci.c.next++
	if ci.c.ended {
		ci.c.nextAfterEnd++
	}
	if ci.c.closes > 0 {
		ci.c.nextAfterCls++
	}
	ok := ci.inner.Next()
	if ok {
		ci.c.nextTrue++
	} else {
		ci.c.ended = true
	}
	return ok
}
func (ci *countIter[T]) Val() T { return ci.inner.Val() }
func (ci *countIter[T]) Close() error {
	ci.c.closes++
	return ci.inner.Close()
}

// fragReader hands out the JSON text in PRNG-chosen fragments and counts Close.
type fragReader struct {
	data   []byte
	chunks []int
	ci     int
	closes int
	reads  int
	// I/O fault: once `data` has been delivered the reader fails with errIOFault
	// (a connection reset) instead of reporting io.EOF; failWithData returns the
	// error together with the last bytes.
	fail         bool
	failWithData bool
}

var errIOFault = errors.New("injected read error: connection reset")

func (f *fragReader) Read(p []byte) (int, error) {
	f.reads++
	if len(f.data) == 0 {
		if f.fail {
			return 0, errIOFault
		}
		return 0, io.EOF
	}
	n := len(p)
	if len(f.chunks) > 0 {
		n = f.chunks[f.ci%len(f.chunks)]
		f.ci++
	}
	if n > len(p) {
		n = len(p)
	}
	if n > len(f.data) {
		n = len(f.data)
	}
	copy(p, f.data[:n])
	f.data = f.data[n:]
	if len(f.data) == 0 && f.fail && f.failWithData {
		return n, errIOFault
	}
	return n, nil
}

// pickFault chooses where the reader fails: at a value boundary (after k
// complete values and the separator of the last one; k = 0..n) or in the
// middle of value k. It returns the byte offset at which the stream is cut and
// k, the number of values that are complete before the fault.
func pickFault(r *vlib.Rand, lead int, starts, ends, sepEnds []int) (off, k int, kind string) {
	n := len(starts)
	var mids []int
	for i := range starts {
		if ends[i]-starts[i] >= 2 {
			mids = append(mids, i)
		}
	}
	if len(mids) > 0 && r.Chance(1, 3) {
		k = vlib.Pick(r, mids)
		return starts[k] + r.Range(1, ends[k]-starts[k]-1), k, "mid-value"
	}
	k = r.Range(0, n)
	if k == 0 {
		return r.Range(0, lead), 0, "boundary"
	}
	return sepEnds[k-1], k, "boundary"
}
func (f *fragReader) Close() error { f.closes++; return nil }

// ---------------------------------------------------------------- pipeline spec

type layer struct {
	kind string // "map" | "filter" | "limit"
	fn   string // name of the function / predicate
	arg  int    // parameter of fn, or the limit
}

func (l layer) String() string {
	switch l.kind {
	case "limit":
		return fmt.Sprintf("Limit(%d)", l.arg)
	default:
		return fmt.Sprintf("%s(%s %d)", strings.ToUpper(l.kind[:1])+l.kind[1:], l.fn, l.arg)
	}
}

// kindKey is the layer kind with the discriminating feature of a limit.
func (l layer) kindKey() string {
	if l.kind == "limit" {
		switch {
		case l.arg < 0:
			return "limit-neg"
		case l.arg == 0:
			return "limit-zero"
		default:
			return "limit-pos"
		}
	}
	return l.kind
}

var mapFns = []string{"add", "mul2", "mod7", "neg", "const", "errIfMod5", "id"}
var predFns = []string{"even", "odd", "notMod3", "true", "false", "noErr", "lt", "ge"}

func applyMap(fn string, arg int, x el) el {
	if fn == "id" {
		return x
	}
	if x.Err != nil {
		return x
	}
	switch fn {
	case "add":
		return el{Val: x.Val + arg}
	case "mul2":
		return el{Val: x.Val * 2}
	case "mod7":
		return el{Val: ((x.Val % 7) + 7) % 7}
	case "neg":
		return el{Val: -x.Val}
	case "const":
		return el{Val: arg}
	case "errIfMod5":
		if x.Val%5 == 0 {
			return el{Err: errSentinel}
		}
		return x
	}
	panic("unknown map fn " + fn)
}

func applyPred(fn string, arg int, x el) bool {
	switch fn {
	case "true":
		return true
	case "false":
		return false
	case "noErr":
		return x.Err == nil
	}
	if x.Err != nil {
		return true // the value predicates let error elements through
	}
	switch fn {
	case "even":
		return x.Val%2 == 0
	case "odd":
		return x.Val%2 != 0
	case "notMod3":
		return x.Val%3 != 0
	case "lt":
		return x.Val < arg
	case "ge":
		return x.Val >= arg
	}
	panic("unknown pred " + fn)
}

type spec struct {
	srcKind  string // "results" (FromSlice[Result]), "ints" (FromSlice[int]+ToResultIter), "json"
	vals     []el   // source contents as list semantics (json: up to and incl. first bad token)
	jsonText string
	chunks   []int
	fault    string // "" | "boundary" | "mid-value": the reader fails with a non-EOF error after jsonText
	faultWD  bool   // error returned together with the last bytes
	layers   []layer
	consumer string // "drain" | "partial" | "readall" | "readallresults"
	partialN int
	valCalls []int // how often Val is called per yielded element (cycled)
	closeN   int   // how often the consumer calls Close
}

const inf = 1 << 30

// ---------------------------------------------------------------- reference

func elStr(x el) string {
	if x.Err != nil {
		return "E"
	}
	return strconv.Itoa(x.Val)
}

func listStr(xs []el) string {
	ss := make([]string, len(xs))
	for i, x := range xs {
		ss[i] = elStr(x)
	}
	return "[" + strings.Join(ss, " ") + "]"
}

// refStages returns the list at every depth: stage[0] = source list,
// stage[d] = output of layer d-1.
func refStages(s *spec, depth int) [][]el {
	stages := [][]el{s.vals}
	cur := s.vals
	for _, l := range s.layers[:depth] {
		var out []el
		switch l.kind {
		case "map":
			for _, x := range cur {
				out = append(out, applyMap(l.fn, l.arg, x))
			}
		case "filter":
			for _, x := range cur {
				if applyPred(l.fn, l.arg, x) {
					out = append(out, x)
				}
			}
		case "limit":
			out = cur
			if l.arg > 0 && len(cur) > l.arg {
				out = cur[:l.arg]
			}
		}
		stages = append(stages, out)
		cur = out
	}
	return stages
}

// idealSourceAsks propagates "the top is asked `a` times" down to the source
// through the list model and returns how many Next calls the source needs.
func idealSourceAsks(s *spec, depth int, stages [][]el, a int) int {
	for d := depth - 1; d >= 0; d-- {
		l := s.layers[d]
		in := stages[d]
		switch l.kind {
		case "map":
			// one input ask per ask
		case "limit":
			if l.arg > 0 && a > l.arg {
				a = l.arg
			}
		case "filter":
			if a >= inf || a == 0 {
				break
			}
			passed, pos := 0, inf
			for i, x := range in {
				if applyPred(l.fn, l.arg, x) {
					passed++
					if passed == a {
						pos = i + 1
						break
					}
				}
			}
			a = pos // inf when fewer than a elements pass: the filter must drain its input
		}
	}
	n := len(s.vals)
	if a > n+1 {
		a = n + 1
	}
	return a
}

// ---------------------------------------------------------------- real pipeline

type built struct {
	top    iter.Iter[el]
	cnt    *counters
	reader *fragReader
}

func build(s *spec, depth int) *built {
	b := &built{cnt: &counters{}}
	var cur iter.Iter[el]
	switch s.srcKind {
	case "results":
		cur = &countIter[el]{inner: iter.FromSlice(append([]el(nil), s.vals...)), c: b.cnt}
	case "ints":
		ints := make([]int, len(s.vals))
		for i, x := range s.vals {
			ints[i] = x.Val
		}
		var src iter.Iter[int] = &countIter[int]{inner: iter.FromSlice(ints), c: b.cnt}
		cur = iter.ToResultIter(src)
	case "json":
		b.reader = &fragReader{data: []byte(s.jsonText), chunks: s.chunks, fail: s.fault != "", failWithData: s.faultWD}
		cur = &countIter[el]{inner: iter.FromReaderJSON[int](b.reader), c: b.cnt}
	}
	for _, l := range s.layers[:depth] {
		l := l
		switch l.kind {
		case "map":
			cur = iter.Map(cur, func(x el) el { return applyMap(l.fn, l.arg, x) })
		case "filter":
			cur = iter.Filter(cur, func(x el) bool { return applyPred(l.fn, l.arg, x) })
		case "limit":
			cur = iter.Limit(cur, l.arg)
		}
	}
	b.top = cur
	return b
}

type outcome struct {
	got         []el
	valUnstable string
	raErr       error // ReadAllResults error
	raNilVals   bool
	asksTop     int // how often the consumer asked the top (inf = until false)
	closesAfter int // source Close count after the consumer's Close
	readerCls   int
	srcNext     int
	afterEnd    int
	afterClose  int
	premature   int // source closes seen before the consumer called Close
}

func runPipeline(s *spec, depth int) outcome {
	b := build(s, depth)
	var o outcome
	vi := 0
	pull := func(max int) {
		for n := 0; n < max && b.top.Next(); n++ {
			calls := 1
			if len(s.valCalls) > 0 {
				calls = s.valCalls[vi%len(s.valCalls)]
				vi++
			}
			var v el
			for c := 0; c < calls; c++ {
				w := b.top.Val()
				if c > 0 && elStr(w) != elStr(v) && o.valUnstable == "" {
					o.valUnstable = fmt.Sprintf("element %d: Val()=%s then Val()=%s", len(o.got), elStr(v), elStr(w))
				}
				v = w
			}
			o.got = append(o.got, v)
		}
	}
	switch s.consumer {
	case "drain":
		o.asksTop = inf
		pull(inf)
	case "partial":
		o.asksTop = s.partialN
		pull(s.partialN)
	case "readall":
		o.asksTop = inf
		o.got = iter.ReadAll(b.top)
	case "readallresults":
		vals, err := iter.ReadAllResults[int](b.top)
		o.raErr = err
		o.raNilVals = vals == nil
		for _, v := range vals {
			o.got = append(o.got, el{Val: v})
		}
	}
	o.premature = b.cnt.closes
	if s.consumer == "readall" {
		o.premature = 0 // ReadAll closes the iterator itself
	}
	for i := 0; i < s.closeN; i++ {
		b.top.Close()
	}
	o.closesAfter = b.cnt.closes
	if b.reader != nil {
		o.readerCls = b.reader.closes
	}
	o.srcNext = b.cnt.next
	o.afterEnd = b.cnt.nextAfterEnd
	o.afterClose = b.cnt.nextAfterCls
	return o
}

// verdict of one run at one depth: which clauses fail.
type verdict struct {
	values, overRead, noClose, readerNoClose, valUnstable bool
	exp, obs                                              string
	ideal, seen                                           int
}

func judge(s *spec, depth int) (verdict, outcome, [][]el) {
	stages := refStages(s, depth)
	want := stages[depth]
	o := runPipeline(s, depth)
	var v verdict
	asks := o.asksTop
	switch s.consumer {
	case "partial":
		if len(want) > s.partialN {
			want = want[:s.partialN]
		}
	case "readallresults":
		// stops at the first error element
		firstErr := -1
		for i, x := range want {
			if x.Err != nil {
				firstErr = i
				break
			}
		}
		if firstErr >= 0 {
			asks = firstErr + 1
			v.exp = fmt.Sprintf("error (first error element at %d of %s)", firstErr, listStr(want))
			if o.raErr == nil {
				v.values = true
				v.obs = "nil error, values " + listStr(o.got)
			}
			want = nil
		} else {
			asks = inf
			if o.raErr != nil {
				v.values = true
				v.exp = listStr(want)
				v.obs = "error " + o.raErr.Error()
			}
		}
	}
	if !v.values && !(s.consumer == "readallresults" && o.raErr != nil) {
		if listStr(want) != listStr(o.got) {
			v.values = true
			v.exp = listStr(want)
			v.obs = listStr(o.got)
		}
	}
	v.ideal = idealSourceAsks(s, depth, stages, asks)
	v.seen = o.srcNext
	if o.srcNext > v.ideal+1 {
		v.overRead = true
	}
	if o.closesAfter == 0 {
		v.noClose = true
	}
	if s.srcKind == "json" && o.readerCls == 0 {
		v.readerNoClose = true
	}
	if o.valUnstable != "" {
		v.valUnstable = true
	}
	return v, o, stages
}

// culprit finds the smallest prefix of the pipeline for which `bad` holds and
// names the layer on top of it (depth 0 = the source).
func culprit(s *spec, bad func(verdict) bool) string {
	for d := 0; d <= len(s.layers); d++ {
		v, _, _ := judge(s, d)
		if bad(v) {
			if d == 0 {
				if s.fault != "" {
					return "source-" + s.srcKind + "-iofault-" + s.fault
				}
				return "source-" + s.srcKind
			}
			return s.layers[d-1].kindKey()
		}
	}
	return "composition"
}

// ---------------------------------------------------------------- generation

func genSpec(k *vlib.Case, jsonOnly bool) *spec {
	r := k.R
	s := &spec{}
	switch {
	case jsonOnly:
		s.srcKind = "json"
	case r.Chance(1, 2):
		s.srcKind = "results"
	default:
		s.srcKind = "ints"
	}
	n := r.Range(0, 50)
	if r.Chance(1, 10) {
		n = r.Range(0, 3)
	}
	small := r.Chance(1, 2) // small value range => many equal values, predicates bite
	genVal := func() int {
		if small {
			return r.Range(-3, 12)
		}
		return r.Range(-1000, 1000)
	}
	switch s.srcKind {
	case "results":
		for i := 0; i < n; i++ {
			if r.Chance(1, 12) {
				s.vals = append(s.vals, el{Err: errSentinel})
			} else {
				s.vals = append(s.vals, el{Val: genVal()})
			}
		}
	case "ints":
		for i := 0; i < n; i++ {
			s.vals = append(s.vals, el{Val: genVal()})
		}
	case "json":
		seps := []string{" ", "\n", "\r\n", "\t", "  \n ", "\n\n"}
		var sb strings.Builder
		if r.Chance(1, 4) {
			sb.WriteString(vlib.Pick(r, seps))
		}
		lead := sb.Len()
		badAt := -1
		if r.Chance(2, 5) && n > 0 {
			badAt = r.Intn(n)
		}
		withFault := badAt < 0 && r.Chance(1, 3)
		var starts, ends, sepEnds []int
		bads := []string{`"x"`, `nope`, `1.5`, `{`, `[1]`, `99999999999999999999999`, `tru`, `]`, `}`, `]`, `}`}
		stopped := false
		for i := 0; i < n; i++ {
			if i == badAt {
				tok := vlib.Pick(r, bads)
				sb.WriteString(tok)
				sb.WriteString(vlib.Pick(r, seps))
				if !stopped {
					s.vals = append(s.vals, el{Err: errSentinel})
					stopped = true
				}
				continue
			}
			v := genVal()
			starts = append(starts, sb.Len())
			sb.WriteString(strconv.Itoa(v))
			ends = append(ends, sb.Len())
			sb.WriteString(vlib.Pick(r, seps))
			sepEnds = append(sepEnds, sb.Len())
			if !stopped {
				s.vals = append(s.vals, el{Val: v})
			}
		}
		s.jsonText = sb.String()
		if withFault {
			// list semantics: the values complete before the fault, then exactly one error item
			off, kk, kind := pickFault(r, lead, starts, ends, sepEnds)
			s.jsonText = s.jsonText[:off]
			s.vals = append(append([]el(nil), s.vals[:kk]...), el{Err: errSentinel})
			s.fault, s.faultWD = kind, r.Bool()
		}
		if r.Chance(2, 3) {
			for i, m := 0, r.Range(1, 4); i < m; i++ {
				s.chunks = append(s.chunks, r.Range(1, 9))
			}
		}
	}
	depth := r.Range(0, 4)
	for i := 0; i < depth; i++ {
		switch r.Intn(3) {
		case 0:
			s.layers = append(s.layers, layer{kind: "map", fn: vlib.Pick(r, mapFns), arg: r.Range(-5, 5)})
		case 1:
			s.layers = append(s.layers, layer{kind: "filter", fn: vlib.Pick(r, predFns), arg: r.Range(-3, 12)})
		default:
			lim := r.Range(-1, 60)
			if r.Chance(1, 2) {
				lim = r.Range(-1, 6)
			}
			if r.Chance(1, 6) && n > 0 { // boundary: exactly the source length +-1
				lim = n + r.Range(-1, 1)
			}
			s.layers = append(s.layers, layer{kind: "limit", arg: lim})
		}
	}
	switch c := r.Intn(10); {
	case c < 5:
		s.consumer = "drain"
	case c < 7:
		s.consumer = "partial"
		s.partialN = r.Range(0, 8)
	case c < 9:
		s.consumer = "readall"
	default:
		s.consumer = "readallresults"
	}
	for i, m := 0, r.Range(0, 3); i < m; i++ {
		s.valCalls = append(s.valCalls, r.Range(1, 3))
	}
	s.closeN = 1
	if r.Chance(1, 5) {
		s.closeN = 2
	}
	return s
}

func describe(k *vlib.Case, s *spec) {
	switch s.srcKind {
	case "json":
		k.Logf("source json %q chunks=%v then-reader-fails=%q(with-data=%v)  (list: %s)", s.jsonText, s.chunks, s.fault, s.faultWD, listStr(s.vals))
	default:
		k.Logf("source %s %s", s.srcKind, listStr(s.vals))
	}
	for _, l := range s.layers {
		k.Logf("%s", l.String())
	}
	k.Logf("consumer %s n=%d valCalls=%v closes=%d", s.consumer, s.partialN, s.valCalls, s.closeN)
}

func oneCase(jsonOnly bool) func(k *vlib.Case) {
	return func(k *vlib.Case) {
		s := genSpec(k, jsonOnly)
		describe(k, s)
		depth := len(s.layers)
		v, o, stages := judge(s, depth)

		c := k.C
		c.Count("pipelines", 1)
		c.Count("source_next_calls", int64(o.srcNext))
		c.Count("source_close_calls", int64(o.closesAfter))
		c.Count("next_after_end_calls(observed only)", int64(o.afterEnd))
		c.Count("premature_source_closes(observed only)", int64(o.premature))
		if v.seen == v.ideal+1 {
			c.Count("pipelines_reading_one_ahead", 1)
		}
		c.Max("max_depth", int64(depth))
		if v.seen == v.ideal {
			c.Count("pipelines_reading_exactly_ideal", 1)
		}

		if v.values {
			who := culprit(s, func(x verdict) bool { return x.values })
			k.Fail("values/"+who+"/"+s.consumer, "yielded values == list semantics", v.exp, v.obs)
		}
		if v.valUnstable {
			who := culprit(s, func(x verdict) bool { return x.valUnstable })
			k.Fail("val-unstable/"+who, "repeated Val() returns the current element", "same element", o.valUnstable)
		}
		if v.overRead {
			who := culprit(s, func(x verdict) bool { return x.overRead })
			k.Fail("over-read/"+who, "source Next calls <= ideal lazy demand + 1",
				fmt.Sprintf("<= %d (ideal %d + 1)", v.ideal+1, v.ideal), fmt.Sprintf("%d Next calls on the source", v.seen))
		}
		if v.noClose {
			who := culprit(s, func(x verdict) bool { return x.noClose })
			k.Fail("close-not-propagated/"+who, "Close on the outermost iterator closes the source", ">= 1 source Close", "0")
		}
		if v.readerNoClose && !v.noClose {
			k.Fail("close-not-propagated/json-reader", "JSON iterator closes a reader that is an io.Closer", ">= 1 reader Close", "0")
		}

		// non-trivial: >= 2 distinct layer kinds, the model shrinks the list somewhere
		// (a filter rejects or a limit truncates) and the final list is not empty.
		kinds := map[string]bool{}
		shrinks := false
		for d, l := range s.layers {
			kinds[l.kind] = true
			if len(stages[d+1]) < len(stages[d]) {
				shrinks = true
			}
		}
		if len(kinds) >= 2 && shrinks && len(stages[depth]) > 0 {
			k.Nontrivial()
		}
		for _, l := range s.layers {
			c.Count("layer_"+l.kindKey(), 1)
		}
		c.Count("consumer_"+s.consumer, 1)
		truncated := false
		for d, l := range s.layers {
			if l.kind == "limit" && l.arg > 0 && len(stages[d]) > l.arg {
				truncated = true
			}
		}
		if truncated {
			c.Count("pipelines_with_truncating_limit", 1)
		}
	}
}

func main() { vlib.Run("C43", run) }

func run(c *vlib.Ctx) {
	c.Rule("random pipelines: source {FromSlice[Result] with error elements, FromSlice[int]+ToResultIter, FromReaderJSON over a fragmenting io.ReadCloser with an optional malformed token} of 0-50 values, 0-4 layers of Map(7 fns)/Filter(8 predicates)/Limit(-1..60, biased to 0..6 and to len+-1), consumed by drain / partial pull of 0-8 / ReadAll / ReadAllResults, Val called 1-3 times, Close once or twice; stratum jsonstruct: FromReaderJSON[T] for T in {struct with optional fields, []int, map[string]int, *struct} over 0-24 documents of differing shape (omitted fields, shorter slices, other key sets, null) with an optional malformed document, 0-3 Map(id/clone/errIf)/Filter/Limit layers, same consumers, every yielded value retained and compared after each Next and at the end with per-document json.Unmarshal into a fresh value; distinct = FNV of source text+layers+consumer; non-trivial = >= 2 distinct layer kinds, some layer shrinks the list in the model, final list non-empty (jsonstruct: >= 3 documents, two successive documents of different shape, >= 2 values retained)")
	c.Cases("compose", c.N(16000, 400000), oneCase(false))
	c.Cases("json", c.N(4000, 100000), oneCase(true))
	c.Cases("jsonstruct", c.N(4000, 100000), structCase)
}
