// C19: MFS is driven in lock-step with an in-memory tree model over generated
// operation histories (mkdir +-p, create, fd write/truncate sessions, Mv in all
// documented forms, unlink, chmod, touch, flush variants, lookup/list, reload
// from the flushed root). Every result is compared online, the visible tree is
// compared through Lookup/ListNames/fd reads, failed operations must leave the
// tree unchanged, and after every flush the returned node is read back from a
// fresh DAG service over the same blockstore with the UnixFS directory and file
// readers and must describe exactly the model.
package main

import (
	"bytes"
	"context"
	"errors"
	"fmt"
	"io"
	"os"
	"sort"
	"strings"
	"sync/atomic"
	"time"

	"github.com/ipfs/boxo/blockservice"
	bstore "github.com/ipfs/boxo/blockstore"
	chunker "github.com/ipfs/boxo/chunker"
	offline "github.com/ipfs/boxo/exchange/offline"
	dag "github.com/ipfs/boxo/ipld/merkledag"
	ft "github.com/ipfs/boxo/ipld/unixfs"
	uio "github.com/ipfs/boxo/ipld/unixfs/io"
	"github.com/ipfs/boxo/mfs"
	cid "github.com/ipfs/go-cid"
	ds "github.com/ipfs/go-datastore"
	dssync "github.com/ipfs/go-datastore/sync"
	ipld "github.com/ipfs/go-ipld-format"
	mh "github.com/multiformats/go-multihash"

	"verif/vlib"
)

// ---------------------------------------------------------------- model

const (
	mtUnset = iota
	mtExact
	mtAnySet // updated to "now" by a content modification: any non-zero instant
)

type mtime struct {
	kind int
	t    time.Time
}

func (m mtime) String() string {
	switch m.kind {
	case mtUnset:
		return "unset"
	case mtExact:
		return fmt.Sprintf("(%d,%d)", m.t.Unix(), m.t.Nanosecond())
	}
	return "any-set"
}

func (m mtime) matches(got time.Time) bool {
	switch m.kind {
	case mtUnset:
		return got.IsZero()
	case mtExact:
		return got.Equal(m.t)
	}
	return !got.IsZero()
}

type node struct {
	name string
	dir  bool
	kids map[string]*node
	data []byte
	mode os.FileMode
	mt   mtime
	// stat: Chmod/Touch was applied to this file at some point.
	stat bool
	// inlineLeaf: under a CIDv1 root the file was non-empty and had neither mode
	// nor mtime when Chmod/Touch was applied. Such a file may be a single
	// RawNode (DagModifier collapses a metadata-free single-leaf file to its raw
	// leaf on any descriptor close, even a read-only one), and MFS rewrites a
	// RawNode as a dag-pb leaf with inline data when it gets metadata.
	// Conservative (a multi-chunk file is flagged too). Cleared when emptied.
	inlineLeaf bool
	// mixed: an fd session grew the file while it was such an inline-data leaf
	// with bytes in place: DagModifier has produced a node with inline data and
	// links (the listed finding); what the file shows from then on is undefined.
	mixed bool
}

func newDir(name string) *node { return &node{name: name, dir: true, kids: map[string]*node{}} }

func (n *node) names() []string {
	out := make([]string, 0, len(n.kids))
	for k := range n.kids {
		out = append(out, k)
	}
	sort.Strings(out)
	return out
}

func (n *node) contains(x *node) bool {
	if n == x {
		return true
	}
	for _, c := range n.kids {
		if c.contains(x) {
			return true
		}
	}
	return false
}

func (n *node) clone() *node {
	c := *n
	c.data = append([]byte(nil), n.data...)
	if n.dir {
		c.kids = map[string]*node{}
		for k, v := range n.kids {
			c.kids[k] = v.clone()
		}
	}
	return &c
}

func split(p string) []string {
	var out []string
	for _, s := range strings.Split(p, "/") {
		if s != "" {
			out = append(out, s)
		}
	}
	return out
}

const (
	wFound = iota
	wMissing
	wNotDir
)

// walk resolves components from the model root.
func (w *world) walk(parts []string) (*node, int) {
	cur := w.root
	for _, p := range parts {
		if !cur.dir {
			return nil, wNotDir
		}
		nx, ok := cur.kids[p]
		if !ok {
			return nil, wMissing
		}
		cur = nx
	}
	return cur, wFound
}

func (w *world) walkDir(parts []string) (*node, int) {
	n, st := w.walk(parts)
	if st == wFound && !n.dir {
		return nil, wNotDir
	}
	return n, st
}

// ---------------------------------------------------------------- results

const (
	rOK = iota
	rNotExist
	rExists
	rOther
)

var rName = []string{"ok", "not-exist", "exists", "other-error"}

func classify(err error) int {
	switch {
	case err == nil:
		return rOK
	case errors.Is(err, os.ErrNotExist):
		return rNotExist
	case errors.Is(err, os.ErrExist), errors.Is(err, mfs.ErrDirExists):
		return rExists
	}
	return rOther
}

// expect describes the outcome the model allows.
type expect struct {
	ok     bool // must succeed
	class  int  // when !ok: required error class; rOther = any error
	either bool // outcome unspecified by the statement: success (with effect) or failure (without) both fine
}

func okExp() expect           { return expect{ok: true} }
func errExp(class int) expect { return expect{class: class} }
func walkErr(st int) expect {
	if st == wMissing {
		return errExp(rNotExist)
	}
	return errExp(rOther)
}

func (e expect) String() string {
	switch {
	case e.either:
		return "ok-or-error"
	case e.ok:
		return "ok"
	case e.class == rOther:
		return "error"
	}
	return rName[e.class]
}

// admits reports whether err is allowed.
func (e expect) admits(err error) bool {
	c := classify(err)
	switch {
	case e.either:
		return true
	case e.ok:
		return c == rOK
	case e.class == rOther:
		return c != rOK
	}
	return c == e.class
}

// ---------------------------------------------------------------- world

type config struct {
	maxLinks  int
	fanout    int
	shardSize int
	cidV1     bool
	chunk     int // 0 = default splitter
	obsPct    int // probability (percent) of a full visible-tree comparison after a successful op
}

type world struct {
	k     *vlib.Case
	r     *vlib.Rand
	ctx   context.Context
	cfg   config
	bs    bstore.Blockstore
	dserv ipld.DAGService
	rt    *mfs.Root
	root  *node
	names []string
	depth int
	avoid bool // never generate the trigger of the listed Mv finding
	// avoidExt: never grow (write or truncate past the end of) a non-empty file
	// that MFS rewrote as an inline-data dag-pb leaf (trigger of the listed DagModifier finding)
	avoidExt bool
	pubs     atomic.Int64

	// measured features for the non-triviality rule and the evidence
	okMvSpecial, okWrite, failedOps, dagFiles, dagShards, fullChecks, dagChecks int
	staleShape                                                                  bool   // the session just closed has the input shape of the listed stale-handle finding
	preClose                                                                    []byte // what the file showed before that Close
	fdOpen                                                                      bool   // a write descriptor is open: only operations that do not open files run
	longSessions                                                                int
	// ancFlush: operations run while a descriptor is open may flush (and thereby
	// drop the cache of) a directory on the open file's path (stratum longfd only)
	ancFlush bool
	fdPath   []string // components of the file being written
	// fault injection (stratum fault): which call kind fails, after how many
	// calls, whether it fired during the operation just executed, and how many fired
	faultKind                             string
	faultCount                            int
	faultFired                            bool
	faultsFired                           int
	faultedOps                            int
	faultShape, faultPath, lastResultPath string
	faultCid                              cid.Cid
	faultFired2                           bool // the armed fault fired (kept until the post-checks of the fault step are done)
	fdNode                                *node
	atFresh                               []byte
	// features of the listed stale-handle finding, measured per session:
	cleanedDepth int  // depth of the shallowest on-path directory whose cache was dropped while the fd was open (-1 none)
	freshLookup  bool // afterwards a path-based operation resolved an on-path entry below that directory
	lastOp       string
}

func v1Builder() cid.Builder { return cid.V1Builder{Codec: cid.DagProtobuf, MhType: mh.SHA2_256} }

func (w *world) rootOpts() []mfs.Option {
	var o []mfs.Option
	if w.cfg.maxLinks > 0 {
		o = append(o, mfs.WithMaxLinks(w.cfg.maxLinks))
	}
	if w.cfg.fanout > 0 {
		o = append(o, mfs.WithMaxHAMTFanout(w.cfg.fanout))
	}
	if w.cfg.shardSize > 0 {
		o = append(o, mfs.WithHAMTShardingSize(w.cfg.shardSize))
	}
	if w.cfg.cidV1 {
		o = append(o, mfs.WithCidBuilder(v1Builder()))
	}
	if w.cfg.chunk > 0 {
		o = append(o, mfs.WithChunker(chunker.SizeSplitterGen(int64(w.cfg.chunk))))
	}
	return o
}

func (w *world) pub(ctx context.Context, c cid.Cid) error { w.pubs.Add(1); return nil }

func (w *world) readService() ipld.DAGService {
	return dag.NewDAGService(blockservice.New(w.bs, offline.Exchange(w.bs)))
}

func (w *world) emptyFile() ipld.Node {
	nd := dag.NodeWithData(ft.FilePBData(nil, 0))
	if w.cfg.cidV1 {
		nd.SetCidBuilder(v1Builder())
	}
	return nd
}

// faultDS is the DAG service handed to MFS. When armed (stratum fault only) it
// fails one Get or one Add call with a non-not-found error; everything else is
// forwarded. The read-back oracle never goes through it.
type faultDS struct {
	ipld.DAGService
	w *world
}

var errInjected = errors.New("injected DAG service fault")

func (f *faultDS) Get(ctx context.Context, c cid.Cid) (ipld.Node, error) {
	w := f.w
	if w.faultCid.Defined() && w.faultCid.Equals(c) {
		return nil, errInjected // the node stays unreadable until the operation is over
	}
	if w.faultKind == "get" {
		w.faultCount--
		if w.faultCount == 0 {
			w.faultKind, w.faultFired, w.faultFired2, w.faultCid = "", true, true, c
			return nil, errInjected
		}
	}
	return f.DAGService.Get(ctx, c)
}

func (f *faultDS) Add(ctx context.Context, nd ipld.Node) error {
	w := f.w
	if w.faultKind == "add" {
		w.faultCount--
		if w.faultCount == 0 {
			w.faultKind, w.faultFired = "", true
			return errInjected
		}
	}
	return f.DAGService.Add(ctx, nd)
}

// fail records a violation. Two input/observation shapes get their own narrow
// class (they are listed findings of other components that surface through
// MFS); everything else keeps the class computed by the oracle clause.
func (w *world) fail(class, clause, expected, observed string) {
	if w.cfg.maxLinks > 0 && strings.Contains(observed, "cannot add child: maxLinks reached") && w.overfullDir(w.root) {
		class = "hamt-maxlinks/update-under-sharded-dir-fails"
	}
	// Listed finding of the fault stratum: Directory.AddChild / mkdirWithOpts
	// treat ANY error of the lookup of the final name as "absent". Shape: a Get
	// fault fired during Create/Mkdir whose final component exists in the model,
	// the operation returned nil, and the divergence is at that path.
	if w.faultShape != "" && w.faultFired2 && strings.Contains(expected+" "+observed+" "+w.lastResultPath, w.faultPath) &&
		(strings.HasPrefix(class, "tree/") || strings.HasPrefix(class, "dag/") || strings.HasSuffix(class, "/result/want-exists/got-ok")) {
		class = "fault-get/" + w.faultShape + "-replaces-unreadable-entry"
	}
	w.k.Fail(class, clause, expected, observed)
}

// overfullDir: the model has a directory with more entries than MaxLinks
// (which therefore must be a HAMT).
func (w *world) overfullDir(n *node) bool {
	if !n.dir {
		return false
	}
	if len(n.kids) > w.cfg.maxLinks {
		return true
	}
	for _, c := range n.kids {
		if w.overfullDir(c) {
			return true
		}
	}
	return false
}

// markStat is called before the model applies a Chmod/Touch.
func (w *world) markStat(n *node) {
	if n.dir {
		return
	}
	if w.cfg.cidV1 && n.mode == 0 && n.mt.kind == mtUnset && len(n.data) > 0 {
		n.inlineLeaf = true
	}
	n.stat = true
}

// guard runs fn under the hang watchdog; false means the batch is aborting.
func (w *world) guard(where string, fn func()) bool {
	return vlib.Guard(w.k, where, 90*time.Second, fn)
}

func main() { vlib.Run("C19", run) }

func run(c *vlib.Ctx) {
	c.Rule("histories of 6-30 ops {Mkdir(+-parents,+-flush,+-mode/mtime,+-trailing slash), create(PutNode empty), cp-file(PutNode of an existing file node), fd session(truncate/seek-start/write/write, +-fd.Flush, +-Sync flag, 1/4 of them with other operations run while the descriptor is open), Mv(file|dir -> new name | existing file | existing dir +-trailing slash | itself | random), Unlink(+-parent flush), Chmod, Touch, FlushPath(any path), Root.Flush, FlushMemFree, reload(NewRoot from the flushed root node through a fresh DAG service), Lookup, ListNames, fd read} over names {a,b,x,f} depth<=3 (stratum wide: n0..n9 depth<=2) x roots {HAMTShardingSize 0/80/120/200 (shards from 3-4 entries), fanout 8/16/default, CIDv0/v1(raw leaves), default/size-8/size-32 chunker} x observation density {0,30,100}% full-tree comparisons. Directory moves into their own subtree are never generated. Strata clean/wide avoid the triggers of all listed findings; each finding has its own stratum that allows its trigger and nothing else new: trigger (Mv between distinct equally named directories with the same leaf; /a/x,/b/x,/x/x pre-created), maxlinks (MaxLinks 2/3/5), rawstat (CIDv1: Chmod/Touch on a raw-leaf file, later grown), longfd (a directory on the open file's path is flushed while the descriptor is open). Stratum fault: the DAG service handed to MFS fails one Get (Mkdir -p/Lookup/ListNames/Create right after the caches were dropped by a root flush or reload) or one Add (FlushPath/Root.Flush/FlushMemFree); a failed operation must leave the tree unchanged, a nil result must have its effect and the flushed DAG must read back through a healthy service. distinct = FNV of config + op list; non-trivial = the history had a successful Mv that was a directory move or replaced a file or went into an existing directory, a successful fd write session, an expected failure after which the whole tree was verified unchanged, and a DAG read-back after a flush that compared at least one file's bytes")
	c.Cases("clean", c.N(2400, 16000), func(k *vlib.Case) { history(k, "clean") })
	c.Cases("wide", c.N(500, 3000), func(k *vlib.Case) { history(k, "wide") })
	c.Cases("maxlinks", c.N(400, 2000), func(k *vlib.Case) { history(k, "maxlinks") })
	c.Cases("rawstat", c.N(400, 2000), func(k *vlib.Case) { history(k, "rawstat") })
	c.Cases("trigger", c.N(400, 2000), func(k *vlib.Case) { history(k, "trigger") })
	c.Cases("longfd", c.N(400, 2000), func(k *vlib.Case) { history(k, "longfd") })
	c.Cases("fault", c.N(600, 3000), func(k *vlib.Case) { history(k, "fault") })
}

func history(k *vlib.Case, stratum string) {
	r := k.R
	w := &world{k: k, r: r, ctx: context.Background(), root: newDir("")}
	w.cfg = config{
		fanout:    vlib.Pick(r, []int{0, 8, 8, 16}),
		cidV1:     r.Bool(),
		chunk:     vlib.Pick(r, []int{0, 0, 8, 32}),
		obsPct:    vlib.Pick(r, []int{0, 30, 100}),
		shardSize: vlib.Pick(r, []int{0, 80, 120, 120}), // ~36 bytes per entry: shards from 3 or 4 entries on
	}
	w.names = []string{"a", "b", "x", "f"}
	w.depth = 3
	w.avoid = stratum != "trigger"
	w.avoidExt = stratum != "rawstat"
	w.ancFlush = stratum == "longfd"
	switch stratum {
	case "wide":
		w.names = []string{"n0", "n1", "n2", "n3", "n4", "n5", "n6", "n7", "n8", "n9"}
		w.depth = 2
		w.cfg.fanout = 8
		w.cfg.shardSize = vlib.Pick(r, []int{80, 120, 200})
	case "maxlinks":
		w.cfg.maxLinks = vlib.Pick(r, []int{2, 3, 5})
		w.cfg.shardSize = 0
	case "rawstat":
		w.cfg.cidV1 = true
		w.cfg.chunk = vlib.Pick(r, []int{0, 0, 0, 32})
	}
	k.Logf("config stratum=%s maxLinks=%d fanout=%d shardSize=%d cidV1=%v chunk=%d obsPct=%d", stratum, w.cfg.maxLinks, w.cfg.fanout, w.cfg.shardSize, w.cfg.cidV1, w.cfg.chunk, w.cfg.obsPct)

	w.bs = bstore.NewBlockstore(dssync.MutexWrap(ds.NewMapDatastore()))
	w.dserv = &faultDS{DAGService: w.readService(), w: w}
	rt, err := mfs.NewEmptyRoot(w.ctx, w.dserv, w.pub, nil, w.rootOpts()...)
	if err != nil {
		panic(err)
	}
	w.rt = rt
	defer func() { w.rt.Close() }()

	if stratum == "trigger" {
		for _, p := range []string{"/a/x", "/b/x", "/x/x"} {
			w.opMkdir(p, true, false, 0, time.Time{})
		}
		for _, p := range []string{"/a/x/f", "/x/x/f", "/b/x/a"} {
			if r.Bool() {
				w.opCreate(p)
			}
		}
	}
	n := r.Range(6, 30)
	for i := 0; i < n && !k.Failed() && !k.C.Aborted(); i++ {
		w.step(stratum)
	}
	if !k.Failed() && !k.C.Aborted() {
		w.lastOp = "end"
		w.checkTree("end")
		w.opFlushPath("/")
	}
	if w.okMvSpecial > 0 && w.okWrite > 0 && w.failedOps > 0 && w.dagFiles > 0 {
		k.Nontrivial()
	}
	c := k.C
	c.Count("ops", int64(n))
	c.Count("full_tree_comparisons", int64(w.fullChecks))
	c.Count("dag_readbacks", int64(w.dagChecks))
	c.Count("dag_files_compared", int64(w.dagFiles))
	c.Count("dag_hamt_dirs_seen", int64(w.dagShards))
	c.Count("expected_failures_verified_unchanged", int64(w.failedOps))
	c.Count("republish_calls", w.pubs.Load())
	c.Count("ops_run_while_fd_open", int64(w.longSessions))
	c.Count("fault_ops_armed", int64(w.faultedOps))
	c.Count("faults_fired", int64(w.faultsFired))
}

// ---------------------------------------------------------------- generators

func (w *world) allPaths() (dirs, files []string) {
	var rec func(n *node, p string)
	rec = func(n *node, p string) {
		for _, name := range n.names() {
			c := n.kids[name]
			cp := p + "/" + name
			if c.dir {
				dirs = append(dirs, cp)
				rec(c, cp)
			} else {
				files = append(files, cp)
			}
		}
	}
	rec(w.root, "")
	return
}

func (w *world) randPath() string {
	d := w.r.Range(1, w.depth)
	p := ""
	for i := 0; i < d; i++ {
		p += "/" + vlib.Pick(w.r, w.names)
	}
	return p
}

// somePath: mostly existing entries, often a (possibly new) name under an
// existing directory, sometimes anything.
func (w *world) somePath(wantNew bool) string {
	dirs, files := w.allPaths()
	all := append(append([]string{}, dirs...), files...)
	x := w.r.Intn(100)
	switch {
	case !wantNew && x < 60 && len(all) > 0:
		return vlib.Pick(w.r, all)
	case x < 90:
		base := ""
		if len(dirs) > 0 && w.r.Chance(3, 4) {
			base = vlib.Pick(w.r, dirs)
		}
		if len(split(base)) >= w.depth {
			return base
		}
		return base + "/" + vlib.Pick(w.r, w.names)
	}
	return w.randPath()
}

func (w *world) someFile() (string, bool) {
	_, files := w.allPaths()
	if len(files) == 0 {
		return "", false
	}
	return vlib.Pick(w.r, files), true
}

var touchNanos = []int64{0, 1, 999999999, 123456789}

func (w *world) someTime() time.Time {
	return time.Unix(int64(w.r.Intn(2000000000))-500000000, vlib.Pick(w.r, touchNanos)).UTC()
}

func (w *world) step(stratum string) {
	r := w.r
	x := r.Intn(100)
	if stratum == "trigger" && x < 40 {
		x = 30 // Mv
	}
	if stratum == "fault" && x < 50 {
		w.faultStep()
		return
	}
	if stratum == "longfd" && x < 35 {
		if p, ok := w.someFile(); ok {
			w.opWrite(p)
			return
		}
	}
	if stratum == "rawstat" && x < 45 {
		if p, ok := w.someFile(); ok {
			switch r.Intn(4) {
			case 0:
				w.opChmod(p, os.FileMode(r.Intn(0o1000)))
			case 1:
				w.opTouch(p, w.someTime())
			default:
				w.opWrite(p)
			}
			return
		}
	}
	switch {
	case x < 12:
		p := w.somePath(true)
		if r.Chance(1, 5) {
			p += "/"
		}
		var mode os.FileMode
		var mt time.Time
		if r.Chance(1, 4) {
			mode = os.FileMode(r.Intn(0o1000))
			if r.Bool() {
				mt = w.someTime()
			}
		}
		w.opMkdir(p, r.Bool(), r.Chance(1, 3), mode, mt)
	case x < 21:
		w.opCreate(w.somePath(true))
	case x < 24:
		if src, ok := w.someFile(); ok {
			w.opCp(src, w.somePath(true))
		} else {
			w.opCreate(w.somePath(true))
		}
	case x < 38 && stratum != "trigger" || x < 26:
		p, ok := w.someFile()
		if !ok || r.Chance(1, 12) {
			p = w.somePath(false)
		}
		w.opWrite(p)
	case x < 56:
		w.genMv()
	case x < 63:
		w.opUnlink(w.somePath(false), r.Bool())
	case x < 69:
		w.opChmod(w.somePath(false), os.FileMode(r.Intn(0o1000)))
	case x < 75:
		t := w.someTime()
		if r.Chance(1, 8) {
			t = time.Time{}
		}
		w.opTouch(w.somePath(false), t)
	case x < 82:
		p := w.somePath(false)
		if r.Chance(1, 3) {
			p = "/"
		}
		w.opFlushPath(p)
	case x < 84:
		w.opRootFlush(r.Bool())
	case x < 87:
		w.opReload()
	case x < 91:
		w.opLookup(w.somePath(false))
	case x < 95:
		w.opList(w.somePath(false))
	default:
		w.opRead(w.somePath(false))
	}
}

// faultStep (stratum fault): optionally drop MFS's caches (flush of the root or
// reload), arm one failing Get or Add, run one operation, then compare the whole
// visible tree and flush + read back through the healthy service. A failed
// operation must have changed nothing; a nil result must have its full effect
// and a flush that returned nil must be readable and equal to the model.
func (w *world) faultStep() {
	r := w.r
	switch r.Intn(10) {
	case 0, 1, 2, 3:
		w.opFlushPath("/")
	case 4, 5, 6:
		w.opReload()
	}
	if w.k.Failed() || w.k.C.Aborted() {
		return
	}
	dirs, files := w.allPaths()
	deep := func() string { // something below an existing directory
		if len(dirs) > 0 {
			return vlib.Pick(r, dirs) + "/" + vlib.Pick(r, w.names)
		}
		return "/" + vlib.Pick(r, w.names) + "/" + vlib.Pick(r, w.names)
	}
	kind := "get"
	if r.Chance(2, 5) {
		kind = "add"
	}
	n := r.Range(1, 3)
	w.k.Logf("ArmFault %s call #%d", kind, n)
	w.faultFired = false
	w.faultedOps++
	arm := func() { w.faultKind, w.faultCount = kind, n }
	if kind == "add" {
		// make sure some nested directory has a node that is not stored yet
		w.opCreate(deep())
		if w.k.Failed() || w.k.C.Aborted() {
			return
		}
		arm()
		if r.Chance(1, 3) {
			w.opRootFlush(r.Bool())
		} else if len(dirs) > 0 && r.Bool() {
			w.opFlushPath(vlib.Pick(r, dirs))
		} else {
			w.opFlushPath("/")
		}
	} else {
		switch r.Intn(6) {
		case 0, 1, 2:
			p := deep()
			if _, st := w.walk(split(p)); st == wFound {
				w.faultShape, w.faultPath, w.lastResultPath = "mkdir", p, p
			}
			arm()
			w.opMkdir(p, r.Chance(4, 5), r.Chance(1, 4), 0, time.Time{})
		case 3:
			p := deep()
			if len(files)+len(dirs) > 0 && r.Bool() {
				p = vlib.Pick(r, append(append([]string{}, dirs...), files...))
			}
			arm()
			w.opLookup(p)
		case 4:
			p := "/"
			if len(dirs) > 0 {
				p = vlib.Pick(r, dirs)
			}
			arm()
			w.opList(p)
		default:
			p := deep()
			if _, st := w.walk(split(p)); st == wFound {
				w.faultShape, w.faultPath, w.lastResultPath = "create", p, p
			}
			arm()
			w.opCreate(p)
		}
	}
	w.faultKind, w.faultCid = "", cid.Undef
	if w.faultFired {
		w.faultsFired++
	}
	w.faultFired = false
	defer func() { w.faultShape, w.faultPath, w.lastResultPath, w.faultFired2 = "", "", "", false }()
	if w.k.Failed() || w.k.C.Aborted() {
		return
	}
	w.lastOp = "faulted-op"
	w.checkTree("after-faulted-op")
	if !w.k.Failed() {
		w.opFlushPath("/")
	}
}

func (w *world) genMv() {
	r := w.r
	dirs, files := w.allPaths()
	all := append(append([]string{}, dirs...), files...)
	for try := 0; try < 8; try++ {
		var src, dst string
		if len(all) > 0 && r.Chance(9, 10) {
			src = vlib.Pick(r, all)
		} else {
			src = w.randPath()
		}
		base := src[strings.LastIndex(src, "/")+1:]
		switch y := r.Intn(100); {
		case y < 25 && len(dirs) > 0: // into an existing directory
			dst = vlib.Pick(r, dirs)
			if r.Bool() {
				dst += "/"
			}
		case y < 30: // root with trailing slash
			dst = "/"
		case y < 42 && len(files) > 0: // onto an existing file
			dst = vlib.Pick(r, files)
		case y < 47: // itself
			dst = src
		case y < 75: // new or existing name under an existing directory, same leaf name favoured
			d := ""
			if len(dirs) > 0 && r.Chance(4, 5) {
				d = vlib.Pick(r, dirs)
			}
			if r.Bool() {
				dst = d + "/" + base
			} else {
				dst = d + "/" + vlib.Pick(r, w.names)
			}
		default:
			dst = w.randPath()
			if r.Chance(1, 6) {
				dst += "/"
			}
		}
		pl := w.planMv(src, dst)
		if pl.excluded || (w.avoid && pl.trigger) {
			continue
		}
		w.opMv(src, dst, pl)
		return
	}
}

// ---------------------------------------------------------------- operations

// result compares an outcome with the expectation. It returns true when the
// operation succeeded (model must apply the effect).
func (w *world) result(op string, e expect, err error, features string) (succeeded bool, good bool) {
	// an injected fault that fired may make any operation fail; it then has to
	// leave the tree unchanged like every other failed operation
	w.faultKind, w.faultCid = "", cid.Undef
	if w.faultFired && err != nil {
		return false, true
	}
	if !e.admits(err) {
		obs := "ok"
		if err != nil {
			obs = rName[classify(err)] + ": " + err.Error()
		}
		cls := fmt.Sprintf("%s/result/want-%s/got-%s", op, e.String(), rName[classify(err)])
		if features != "" {
			cls += "/" + features
		}
		w.fail(cls, op+" result class matches the tree model", e.String(), obs)
		return err == nil, false
	}
	return err == nil, true
}

// afterFailure: a failed operation must leave the tree unchanged.
func (w *world) afterFailure(op string) {
	w.lastOp = op + "(failed)"
	if w.fdOpen {
		return // a full comparison would open the file that is being written
	}
	if w.checkTree("unchanged-after-failed-" + op) {
		w.failedOps++
	}
}

// afterSuccess: optional full comparison (density chosen per case so that the
// queries themselves do not always refresh MFS's caches).
func (w *world) afterSuccess(op string) {
	w.lastOp = op
	if !w.fdOpen && w.r.Intn(100) < w.cfg.obsPct {
		w.checkTree("after-" + op)
	}
}

func (w *world) probe(p string) (kind string, err error) {
	var fsn mfs.FSNode
	if !w.guard("Lookup", func() { fsn, err = mfs.Lookup(w.rt, p) }) {
		return "aborted", nil
	}
	if err != nil {
		return "", err
	}
	if fsn.Type() == mfs.TDir {
		return "dir", nil
	}
	return "file", nil
}

func (w *world) expectEntry(op, clause, p string, want string, features string) {
	kind, err := w.probe(p)
	got := kind
	if err != nil {
		got = rName[classify(err)] + ": " + err.Error()
		kind = rName[classify(err)]
	}
	if kind != want {
		cls := op + "/" + strings.ReplaceAll(clause, " ", "-")
		if features != "" {
			cls += "/" + features
		}
		w.fail(cls, clause, p+" is "+want, p+" is "+got)
	}
}

func (w *world) opMkdir(p string, parents, flush bool, mode os.FileMode, mt time.Time) {
	w.k.Logf("Mkdir %s parents=%v flush=%v mode=%04o mtime=(%d,%d)", p, parents, flush, mode, mt.Unix(), mt.Nanosecond())
	parts := split(p)
	// model
	e := okExp()
	var create []string // components to create below `at`
	at := w.root
	existed := false
	if len(parts) == 0 {
		if !parents {
			e = errExp(rOther)
		}
	} else {
		for i, c := range parts {
			last := i == len(parts)-1
			nx, ok := at.kids[c]
			if len(create) > 0 {
				ok = false
			}
			switch {
			case ok && last && nx.dir:
				existed = true
				if !parents {
					e = errExp(rExists)
				}
			case ok && last:
				e = errExp(rExists)
			case ok && nx.dir:
				at = nx
			case ok:
				e = errExp(rOther) // through a file
			case last:
				create = append(create, c)
			case parents:
				create = append(create, c)
			default:
				e = errExp(rNotExist)
			}
			if !e.ok {
				break
			}
		}
	}
	var opts []mfs.Option
	if mode != 0 {
		opts = append(opts, mfs.WithMode(mode))
	}
	if !mt.IsZero() {
		opts = append(opts, mfs.WithModTime(mt))
	}
	var err error
	if !w.guard("Mkdir", func() {
		err = mfs.Mkdir(w.rt, p, mfs.MkdirOpts{Mkparents: parents, Flush: flush}, opts...)
	}) {
		return
	}
	ok, good := w.result("mkdir", e, err, "")
	if !good {
		return
	}
	if !ok {
		w.afterFailure("mkdir")
		return
	}
	cur := at
	for i, c := range create {
		d := newDir(c)
		if i == len(create)-1 {
			d.mode = mode
			if !mt.IsZero() {
				d.mt = mtime{mtExact, mt}
			}
		}
		cur.kids[c] = d
		cur = d
	}
	_ = existed
	if len(parts) > 0 {
		w.expectEntry("mkdir", "created directory is visible", "/"+strings.Join(parts, "/"), "dir", "")
	}
	w.afterSuccess("mkdir")
}

// putExpect: expectation of PutNode(p, node).
func (w *world) putExpect(p string) (expect, *node, string) {
	parts := split(p)
	if len(parts) == 0 {
		return errExp(rOther), nil, ""
	}
	parent, st := w.walkDir(parts[:len(parts)-1])
	if st != wFound {
		return walkErr(st), nil, ""
	}
	name := parts[len(parts)-1]
	if _, ok := parent.kids[name]; ok {
		return errExp(rExists), nil, ""
	}
	return okExp(), parent, name
}

func (w *world) opCreate(p string) {
	w.k.Logf("Create %s", p)
	e, parent, name := w.putExpect(p)
	var err error
	if !w.guard("PutNode", func() { err = mfs.PutNode(w.rt, p, w.emptyFile()) }) {
		return
	}
	ok, good := w.result("create", e, err, "")
	if !good {
		return
	}
	if !ok {
		w.afterFailure("create")
		return
	}
	parent.kids[name] = &node{name: name}
	w.expectEntry("create", "created file is visible", p, "file", "")
	w.afterSuccess("create")
}

func (w *world) opCp(src, dst string) {
	w.k.Logf("CpFile %s %s", src, dst)
	sn, st := w.walk(split(src))
	if st != wFound || sn.dir {
		return
	}
	var nd ipld.Node
	var err error
	if !w.guard("Lookup+GetNode", func() {
		var fsn mfs.FSNode
		fsn, err = mfs.Lookup(w.rt, src)
		if err == nil {
			nd, err = fsn.GetNode()
		}
	}) {
		return
	}
	if err != nil {
		w.fail("cp/source-lookup", "existing file can be looked up", "ok", err.Error())
		return
	}
	e, parent, name := w.putExpect(dst)
	if !w.guard("PutNode", func() { err = mfs.PutNode(w.rt, dst, nd) }) {
		return
	}
	ok, good := w.result("cp", e, err, "")
	if !good {
		return
	}
	if !ok {
		w.afterFailure("cp")
		return
	}
	c := sn.clone()
	c.name = name
	parent.kids[name] = c
	w.expectEntry("cp", "copied file is visible", dst, "file", "")
	w.afterSuccess("cp")
}

type wstep struct {
	kind string // trunc, seek, write, flush
	n    int64
	data []byte
}

func (w *world) opWrite(p string) {
	r := w.r
	fn, st := w.walk(split(p))
	cur := 0
	if st == wFound && !fn.dir {
		cur = len(fn.data)
	}
	// plan the session
	var steps []wstep
	pos := 0
	size := cur
	chunkish := func() int {
		if r.Chance(1, 10) {
			return r.Range(100, 400)
		}
		return r.Range(1, 40)
	}
	// Half of the sessions follow one of four common shapes, the other half is a
	// free sequence in which every order of {Write, Truncate(shrink/grow/0/same),
	// fd.Flush, Seek(start, <= size)} can occur on the one descriptor, including
	// Truncate as the last mutating step right after an explicit Flush.
	truncTo := func() int64 {
		switch r.Intn(5) {
		case 0:
			return 0
		case 1:
			return int64(size)
		case 2:
			return int64(size + r.Range(1, 30))
		}
		return int64(r.Intn(size + 1))
	}
	switch form := r.Intn(10); {
	case form == 0: // replace content
		steps = append(steps, wstep{kind: "trunc", n: 0})
		size = 0
	case form == 1: // truncate to some length (shrink or extend), maybe write afterwards
		n := r.Intn(cur + 20)
		if r.Chance(1, 4) {
			n = cur
		}
		steps = append(steps, wstep{kind: "trunc", n: int64(n)})
		size = n
	case form == 2: // append
		steps = append(steps, wstep{kind: "seek", n: int64(size)})
		pos = size
	case form == 3: // overwrite somewhere inside
		if size > 0 {
			pos = r.Intn(size + 1)
			steps = append(steps, wstep{kind: "seek", n: int64(pos)})
		}
	case form == 4: // (write or nothing) -> Flush -> Truncate -> (nothing | Flush)
		if r.Bool() {
			d := r.Bytes(chunkish())
			steps = append(steps, wstep{kind: "write", data: d})
			if len(d) > size {
				size = len(d)
			}
		}
		steps = append(steps, wstep{kind: "flush"})
		steps = append(steps, wstep{kind: "trunc", n: truncTo()})
		if r.Chance(1, 3) {
			steps = append(steps, wstep{kind: "flush"})
		}
	default: // free sequence
		mut := false
		for i, n := 0, r.Range(1, 5); i < n || !mut; i++ {
			switch y := r.Intn(100); {
			case y < 40:
				d := r.Bytes(chunkish())
				steps = append(steps, wstep{kind: "write", data: d})
				pos += len(d)
				if pos > size {
					size = pos
				}
				mut = true
			case y < 65:
				t := truncTo()
				steps = append(steps, wstep{kind: "trunc", n: t})
				size = int(t)
				mut = true
			case y < 85:
				steps = append(steps, wstep{kind: "flush"})
			default:
				pos = r.Intn(size + 1)
				steps = append(steps, wstep{kind: "seek", n: int64(pos)})
			}
		}
	}
	if f := len(steps); f == 0 || (f == 1 && steps[0].kind != "write") || (f > 0 && f < 3 && steps[0].kind == "seek") {
		// the four simple shapes end with one or two writes (a lone truncate sometimes stays alone)
		nw := r.Range(1, 2)
		if f == 1 && steps[0].kind == "trunc" {
			nw = r.Range(0, 2)
		}
		for i := 0; i < nw; i++ {
			steps = append(steps, wstep{kind: "write", data: r.Bytes(chunkish())})
			if r.Chance(1, 6) {
				steps = append(steps, wstep{kind: "flush"})
			}
		}
	}
	flags := mfs.Flags{Write: true, Sync: r.Bool(), Read: r.Chance(1, 4)}
	// long session: other operations (flushes of directories, lookups, listings,
	// creations elsewhere) run while the descriptor is open; the descriptor is
	// then closed with Sync so that the write has to be propagated to the root.
	interAt := -1
	if len(steps) >= 2 && !w.fdOpen && (w.ancFlush || r.Chance(1, 4)) {
		interAt = r.Range(1, len(steps)-1)
		flags.Sync = true
	}
	var sb strings.Builder
	for i, s := range steps {
		if i == interAt {
			sb.WriteString(" [other-ops]")
		}
		switch s.kind {
		case "write":
			h := s.data
			if len(h) > 8 {
				h = h[:8]
			}
			fmt.Fprintf(&sb, " write(%d:%x)", len(s.data), h)
		case "flush":
			sb.WriteString(" fd.Flush")
		default:
			fmt.Fprintf(&sb, " %s(%d)", s.kind, s.n)
		}
	}
	w.k.Logf("Write %s sync=%v rw=%v:%s", p, flags.Sync, flags.Read, sb.String())
	if st == wFound && fn.dir {
		return // nothing to open; Lookup of directories is exercised elsewhere
	}
	var fsn mfs.FSNode
	var err error
	if !w.guard("Lookup", func() { fsn, err = mfs.Lookup(w.rt, p) }) {
		return
	}
	e := okExp()
	if st != wFound {
		e = walkErr(st)
	}
	ok, good := w.result("write-lookup", e, err, "")
	if !good {
		return
	}
	if !ok {
		w.afterFailure("write-lookup")
		return
	}
	fi, isFile := fsn.(*mfs.File)
	if !isFile {
		w.fail("lookup/kind", "Lookup returns the model's kind", "file", "directory at "+p)
		return
	}
	// model content
	data := append([]byte(nil), fn.data...)
	pos = 0
	grew := false
	inline := len(fn.data) // bytes of the pre-session content still in place
	wasInline := fn.inlineLeaf
	oldLen := len(fn.data)
	var sessErr string
	if !w.guard("fd-session", func() {
		fd, err := fi.Open(w.ctx, flags)
		if err != nil {
			sessErr = "Open: " + err.Error()
			return
		}
		for i, s := range steps {
			if i == interAt {
				w.fdOpen = true
				w.fdPath, w.fdNode, w.cleanedDepth, w.freshLookup, w.atFresh = split(p), fn, -1, false, nil
				for j := r.Range(1, 2); j > 0 && !w.k.Failed() && !w.k.C.Aborted(); j-- {
					w.interleavedOp()
				}
				w.fdOpen = false
				if w.k.Failed() || w.k.C.Aborted() {
					fd.Close()
					return
				}
			}
			switch s.kind {
			case "trunc":
				if err := fd.Truncate(s.n); err != nil {
					sessErr = "Truncate: " + err.Error()
				}
				if int(s.n) < inline {
					inline = int(s.n)
				}
				if int(s.n) <= len(data) {
					data = data[:s.n]
				} else {
					grew = grew || inline > 0
					data = append(data, make([]byte, int(s.n)-len(data))...)
				}
			case "seek":
				off, err := fd.Seek(s.n, io.SeekStart)
				if err != nil || off != s.n {
					sessErr = fmt.Sprintf("Seek(%d,start) = %d, %v", s.n, off, err)
				}
				pos = int(s.n)
			case "write":
				n, err := fd.Write(s.data)
				if err != nil || n != len(s.data) {
					sessErr = fmt.Sprintf("Write(%d bytes) = %d, %v", len(s.data), n, err)
				}
				if pos+len(s.data) > len(data) {
					grew = grew || inline > 0
					data = append(data, make([]byte, pos+len(s.data)-len(data))...)
				}
				copy(data[pos:], s.data)
				pos += len(s.data)
			case "flush":
				if err := fd.Flush(); err != nil {
					sessErr = "fd.Flush: " + err.Error()
				}
				// flushed content is what the tree shows from now on
				fn.data = append([]byte(nil), data...)

				if fn.mt.kind != mtUnset {
					fn.mt = mtime{kind: mtAnySet}
				}
			}
			if sessErr != "" {
				fd.Close()
				return
			}
		}
		if err := fd.Close(); err != nil {
			sessErr = "Close: " + err.Error()
		}
	}) {
		return
	}
	if w.k.Failed() {
		return
	}
	if sessErr != "" {
		w.fail("write/session-error", "fd operations on an existing file succeed", "no error", sessErr)
		return
	}
	fn.data = data
	if fn.mt.kind != mtUnset {
		fn.mt = mtime{kind: mtAnySet}
	}
	w.okWrite++
	// the written bytes must be what the file now shows
	_, _, _ = wasInline, grew, oldLen
	if len(data) == 0 || inline == 0 {
		fn.inlineLeaf = false
	}
	w.staleShape = interAt >= 0 && w.cleanedDepth >= 0 && w.freshLookup
	w.preClose = w.atFresh
	w.checkFileVisible(p, fn, "after-write")
	w.staleShape, w.preClose = false, nil
	if w.k.Failed() {
		return
	}
	w.afterSuccess("write")
}

// onPathDir: is p (a directory path) the root or a proper ancestor directory
// of the file being written?
func (w *world) onPathDir(p string) (depth int, ok bool) {
	q := split(p)
	if len(q) >= len(w.fdPath) {
		return 0, false
	}
	for i := range q {
		if q[i] != w.fdPath[i] {
			return 0, false
		}
	}
	return len(q), true
}

// noteResolve records that a path-based operation resolved p while a
// descriptor is open (feature of the stale-handle finding).
func (w *world) noteResolve(p string) {
	if !w.fdOpen || w.cleanedDepth < 0 {
		return
	}
	q := split(p)
	c := w.cleanedDepth
	if len(q) > c && len(w.fdPath) > c && q[c] == w.fdPath[c] {
		same := true
		for i := 0; i < c; i++ {
			if q[i] != w.fdPath[i] {
				same = false
			}
		}
		if same && !w.freshLookup {
			w.freshLookup = true
			w.atFresh = append([]byte{}, w.fdNode.data...) // what the file showed when the second handle was created
		}
	}
}

func (w *world) noteCleaned(depth int) {
	if w.cleanedDepth < 0 || depth < w.cleanedDepth {
		w.cleanedDepth = depth
	}
}

// interleavedOp runs one operation that is legal while a write descriptor is
// open on some file: nothing that opens files, moves, removes or re-stats.
// Outside stratum longfd nothing that drops the cache of a directory on the
// open file's path either (FlushPath/FlushMemFree of such a directory).
func (w *world) interleavedOp() {
	r := w.r
	dirs, _ := w.allPaths()
	var offPath, onPath []string
	for _, d := range dirs {
		if _, on := w.onPathDir(d); on {
			onPath = append(onPath, d)
		} else {
			offPath = append(offPath, d)
		}
	}
	onPath = append(onPath, "/")
	x := r.Intn(8)
	if !w.ancFlush && x < 3 && len(offPath) == 0 {
		x = 3
	}
	switch x {
	case 0, 1, 2:
		if w.ancFlush && (len(offPath) == 0 || r.Chance(3, 4)) {
			d := vlib.Pick(r, onPath)
			w.noteResolve(d)
			w.opFlushPath(d)
			depth, _ := w.onPathDir(d)
			w.noteCleaned(depth)
		} else {
			d := vlib.Pick(r, offPath)
			w.noteResolve(d)
			w.opFlushPath(d)
		}
	case 3:
		memFree := w.ancFlush && r.Bool()
		w.opRootFlush(memFree)
		if memFree {
			w.noteCleaned(0)
		}
	case 4:
		p := w.somePath(false)
		w.noteResolve(p)
		w.opLookup(p)
	case 5:
		p := "/"
		if len(dirs) > 0 && r.Bool() {
			p = vlib.Pick(r, dirs)
		}
		w.noteResolve(p)
		w.opList(p)
	case 6:
		p := w.somePath(true)
		w.noteResolve(p)
		w.opMkdir(p, r.Bool(), false, 0, time.Time{})
	default:
		p := w.somePath(true)
		w.noteResolve(p)
		w.opCreate(p)
	}
	w.longSessions++
}

type mvPlan struct {
	exp               expect
	excluded, trigger bool
	features          string
	special           bool
	apply             func()
	finalPath         string
	srcIsDir          bool
	noop              bool
}

func (w *world) pathOf(n *node) string {
	var rec func(cur *node, p string) (string, bool)
	rec = func(cur *node, p string) (string, bool) {
		if cur == n {
			return p, true
		}
		for name, c := range cur.kids {
			if s, ok := rec(c, p+"/"+name); ok {
				return s, true
			}
		}
		return "", false
	}
	s, _ := rec(w.root, "")
	if s == "" {
		return "/"
	}
	return s
}

// planMv evaluates Mv(src,dst) on the model. src never ends in a slash.
func (w *world) planMv(src, dst string) mvPlan {
	sp := split(src)
	if len(sp) == 0 {
		return mvPlan{excluded: true}
	}
	srcName := sp[len(sp)-1]
	var dparts []string
	name := srcName
	trailing := strings.HasSuffix(dst, "/")
	if trailing {
		dparts = split(dst)
	} else {
		dp := split(dst)
		if len(dp) == 0 {
			return mvPlan{excluded: true}
		}
		dparts, name = dp[:len(dp)-1], dp[len(dp)-1]
	}
	ddir, st := w.walkDir(dparts)
	if st != wFound {
		return mvPlan{exp: walkErr(st), features: "dst-parent-unresolvable"}
	}
	sdir, st := w.walkDir(sp[:len(sp)-1])
	if st != wFound {
		return mvPlan{exp: walkErr(st), features: "src-parent-unresolvable"}
	}
	sn, ok := sdir.kids[srcName]
	if !ok {
		return mvPlan{exp: errExp(rNotExist), features: "src-missing"}
	}
	pl := mvPlan{exp: okExp(), srcIsDir: sn.dir}
	feat := []string{"src-file"}
	if sn.dir {
		feat[0] = "src-dir"
	}
	replaced := false
	target := ddir.kids[name]
	switch {
	case target != nil && !target.dir:
		replaced = true
		feat = append(feat, "onto-file")
		pl.special = true
	case target != nil:
		ddir, name = target, srcName
		feat = append(feat, "into-dir")
		pl.special = true
	default:
		feat = append(feat, "new-name")
	}
	if sn.dir {
		pl.special = true
	}
	if sn.dir && sn.contains(ddir) {
		return mvPlan{excluded: true}
	}
	pl.trigger = ddir != sdir && ddir.name == sdir.name && name == srcName
	if pl.trigger {
		feat = append(feat, "same-named-parents")
	}
	pl.features = strings.Join(feat, "+")
	if replaced && target == sn {
		// a file is moved onto itself: nothing changes
		pl.noop = true
		pl.features += "+onto-itself"
		pl.apply = func() {}
		pl.finalPath = src
		return pl
	}
	if !replaced {
		if _, clash := ddir.kids[name]; clash {
			pl.exp = errExp(rExists)
			pl.features += "+name-taken-in-target-dir"
			return pl
		}
	}
	if sn.dir && replaced {
		pl.exp = expect{either: true} // a directory replacing a file: not specified
	}
	dd, nm := ddir, name
	pl.apply = func() {
		delete(dd.kids, nm)
		delete(sdir.kids, srcName)
		sn.name = nm
		dd.kids[nm] = sn
	}
	dp := w.pathOf(dd)
	if dp == "/" {
		dp = ""
	}
	pl.finalPath = dp + "/" + nm
	return pl
}

func (w *world) opMv(src, dst string, pl mvPlan) {
	w.k.Logf("Mv %s %s", src, dst)
	var err error
	if !w.guard("Mv", func() { err = mfs.Mv(w.rt, src, dst) }) {
		return
	}
	ok, good := w.result("mv", pl.exp, err, pl.features)
	if !good {
		return
	}
	if !ok {
		w.afterFailure("mv")
		return
	}
	pl.apply()
	kind := "file"
	if pl.srcIsDir {
		kind = "dir"
	}
	feat := pl.features
	w.expectEntry("mv", "entry appears at the destination", pl.finalPath, kind, feat)
	if !pl.noop {
		if pl.trigger {
			// narrow class of the listed finding: only this clause, only this input shape
			k2, e2 := w.probe(src)
			if e2 == nil {
				w.fail("mv/same-named-parents", "entry disappears from the source", src+" is not-exist", src+" is still a "+k2+" (Mv returned nil)")
			} else if classify(e2) != rNotExist {
				w.fail("mv/source-lookup-error/"+feat, "entry disappears from the source", src+" is not-exist", e2.Error())
			}
		} else {
			w.expectEntry("mv", "entry disappears from the source", src, "not-exist", feat)
		}
	}
	if w.k.Failed() {
		return
	}
	if pl.special {
		w.okMvSpecial++
	}
	w.afterSuccess("mv")
}

func (w *world) opUnlink(p string, flushParent bool) {
	w.k.Logf("Unlink %s flushParent=%v", p, flushParent)
	parts := split(p)
	if len(parts) == 0 {
		return
	}
	name := parts[len(parts)-1]
	parent, st := w.walk(parts[:len(parts)-1])
	if st == wFound && !parent.dir {
		return // the harness needs a *Directory handle; path-through-file errors are covered by other ops
	}
	dirPath := "/" + strings.Join(parts[:len(parts)-1], "/")
	var fsn mfs.FSNode
	var err error
	if !w.guard("Lookup", func() { fsn, err = mfs.Lookup(w.rt, dirPath) }) {
		return
	}
	e := okExp()
	if st != wFound {
		e = walkErr(st)
	}
	ok, good := w.result("unlink-parent-lookup", e, err, "")
	if !good {
		return
	}
	if !ok {
		w.afterFailure("unlink-parent-lookup")
		return
	}
	d, isDir := fsn.(*mfs.Directory)
	if !isDir {
		w.fail("lookup/kind", "Lookup returns the model's kind", "directory", "file at "+dirPath)
		return
	}
	e = okExp()
	if _, ok := parent.kids[name]; !ok {
		e = errExp(rNotExist)
	}
	var ferr error
	if !w.guard("Unlink", func() {
		err = d.Unlink(name)
		if err == nil && flushParent {
			ferr = d.Flush()
		}
	}) {
		return
	}
	ok, good = w.result("unlink", e, err, "")
	if !good {
		return
	}
	if !ok {
		w.afterFailure("unlink")
		return
	}
	if ferr != nil {
		w.fail("unlink/parent-flush-error", "Directory.Flush succeeds", "nil", ferr.Error())
		return
	}
	delete(parent.kids, name)
	w.expectEntry("unlink", "removed entry is gone", p, "not-exist", "")
	w.afterSuccess("unlink")
}

func (w *world) opChmod(p string, mode os.FileMode) {
	w.k.Logf("Chmod %s %04o", p, mode)
	n, st := w.walk(split(p))
	e := okExp()
	if st != wFound {
		e = walkErr(st)
	}
	var err error
	if !w.guard("Chmod", func() { err = mfs.Chmod(w.rt, p, mode) }) {
		return
	}
	ok, good := w.result("chmod", e, err, "")
	if !good {
		return
	}
	if !ok {
		w.afterFailure("chmod")
		return
	}
	w.markStat(n)
	n.mode = mode
	w.afterSuccess("chmod")
}

func (w *world) opTouch(p string, t time.Time) {
	w.k.Logf("Touch %s (%d,%d) zero=%v", p, t.Unix(), t.Nanosecond(), t.IsZero())
	n, st := w.walk(split(p))
	e := okExp()
	if st != wFound {
		e = walkErr(st)
	}
	var err error
	if !w.guard("Touch", func() { err = mfs.Touch(w.rt, p, t) }) {
		return
	}
	ok, good := w.result("touch", e, err, "")
	if !good {
		return
	}
	if !ok {
		w.afterFailure("touch")
		return
	}
	w.markStat(n)
	if t.IsZero() {
		n.mt = mtime{}
	} else {
		n.mt = mtime{mtExact, t}
	}
	w.afterSuccess("touch")
}

func (w *world) opFlushPath(p string) {
	w.k.Logf("FlushPath %s", p)
	n, st := w.walk(split(p))
	e := okExp()
	if st != wFound {
		e = walkErr(st)
	}
	var nd ipld.Node
	var err error
	if !w.guard("FlushPath", func() { nd, err = mfs.FlushPath(w.ctx, w.rt, p) }) {
		return
	}
	ok, good := w.result("flushpath", e, err, "")
	if !good {
		return
	}
	if !ok {
		w.afterFailure("flushpath")
		return
	}
	where := "subtree"
	if len(split(p)) == 0 {
		where = "root"
	}
	w.checkDAG(nd, n, where)
	w.afterSuccess("flushpath")
}

func (w *world) opRootFlush(memFree bool) {
	w.k.Logf("RootFlush memFree=%v", memFree)
	var err error
	var nd ipld.Node
	if !w.guard("Root.Flush", func() {
		if memFree {
			err = w.rt.FlushMemFree(w.ctx)
		} else {
			err = w.rt.Flush()
		}
		if err == nil {
			nd, err = w.rt.GetDirectory().GetNode()
		}
	}) {
		return
	}
	w.faultKind, w.faultCid = "", cid.Undef
	if err != nil && w.faultFired {
		w.afterFailure("rootflush")
		return
	}
	if err != nil {
		w.fail("rootflush/error", "Root.Flush succeeds", "nil", err.Error())
		return
	}
	w.checkDAG(nd, w.root, "root")
	w.afterSuccess("rootflush")
}

// opReload: flush, read the root node, close the root and open a new one from
// the persisted node. Everything shown before must still be shown.
func (w *world) opReload() {
	w.k.Logf("Reload")
	var nd ipld.Node
	var err error
	if !w.guard("FlushPath", func() { nd, err = mfs.FlushPath(w.ctx, w.rt, "/") }) {
		return
	}
	if err != nil {
		w.fail("reload/flush-error", "FlushPath(/) succeeds", "nil", err.Error())
		return
	}
	pn, okp := nd.(*dag.ProtoNode)
	if !okp {
		w.fail("reload/root-not-protonode", "root node is a ProtoNode", "ProtoNode", fmt.Sprintf("%T", nd))
		return
	}
	var nrt *mfs.Root
	if !w.guard("NewRoot", func() {
		w.rt.Close()
		// the reopened root reads through a fresh DAG service: only persisted blocks are visible
		w.dserv = &faultDS{DAGService: w.readService(), w: w}
		nrt, err = mfs.NewRoot(w.ctx, w.dserv, pn, w.pub, nil, w.rootOpts()...)
	}) {
		return
	}
	if err != nil {
		w.fail("reload/newroot-error", "NewRoot on the flushed root succeeds", "nil", err.Error())
		return
	}
	w.rt = nrt
	w.lastOp = "reload"
	w.checkTree("after-reload")
}

func (w *world) opLookup(p string) {
	w.k.Logf("Lookup %s", p)
	n, st := w.walk(split(p))
	kind, err := w.probe(p)
	e := okExp()
	if st != wFound {
		e = walkErr(st)
	}
	if ok, good := w.result("lookup", e, err, ""); good && ok {
		want := "file"
		if n.dir {
			want = "dir"
		}
		if kind != want {
			w.fail("lookup/kind", "Lookup returns the model's kind", want, kind+" at "+p)
		}
	}
}

func (w *world) opList(p string) {
	w.k.Logf("ListNames %s", p)
	n, st := w.walk(split(p))
	if st == wFound && !n.dir {
		return
	}
	var fsn mfs.FSNode
	var err error
	if !w.guard("Lookup", func() { fsn, err = mfs.Lookup(w.rt, p) }) {
		return
	}
	e := okExp()
	if st != wFound {
		e = walkErr(st)
	}
	if ok, good := w.result("list-lookup", e, err, ""); !good || !ok {
		return
	}
	d, isDir := fsn.(*mfs.Directory)
	if !isDir {
		w.fail("lookup/kind", "Lookup returns the model's kind", "directory", "file at "+p)
		return
	}
	w.compareListing(d, n, p, "query")
}

func (w *world) opRead(p string) {
	w.k.Logf("ReadFile %s", p)
	n, st := w.walk(split(p))
	if st != wFound || n.dir {
		return
	}
	w.checkFileVisible(p, n, "query")
}

// ---------------------------------------------------------------- visible-tree oracle

func (w *world) compareListing(d *mfs.Directory, n *node, p, why string) bool {
	var names []string
	var err error
	if !w.guard("ListNames", func() { names, err = d.ListNames(w.ctx) }) {
		return false
	}
	if err != nil {
		w.fail("tree/listing-error@"+why, "ListNames succeeds", "nil", err.Error()+" at "+p)
		return false
	}
	sort.Strings(names)
	want := n.names()
	if strings.Join(names, "\x00") != strings.Join(want, "\x00") {
		w.fail("tree/listing@"+why, "ListNames == model children", fmt.Sprintf("%s: %v", p, want), fmt.Sprintf("%v (last op %s)", names, w.lastOp))
		return false
	}
	return true
}

// checkFileVisible compares what MFS shows for one file with the model.
func (w *world) checkFileVisible(p string, n *node, why string) bool {
	var fsn mfs.FSNode
	var err error
	if !w.guard("Lookup", func() { fsn, err = mfs.Lookup(w.rt, p) }) {
		return false
	}
	if err != nil {
		w.fail("tree/missing-entry@"+why, "model entry can be looked up", p+" exists", err.Error()+" (last op "+w.lastOp+")")
		return false
	}
	fi, ok := fsn.(*mfs.File)
	if !ok {
		w.fail("tree/kind@"+why, "entry kind == model", p+" is a file", "directory (last op "+w.lastOp+")")
		return false
	}
	good := true
	var got []byte
	var size int64
	var mode os.FileMode
	var mt time.Time
	var rerr string
	if !w.guard("fd-read", func() {
		var e error
		if size, e = fi.Size(); e != nil {
			rerr = "Size: " + e.Error()
			return
		}
		if mode, e = fi.Mode(); e != nil && !errors.Is(e, ft.ErrNotProtoNode) {
			rerr = "Mode: " + e.Error()
			return
		}
		if mt, e = fi.ModTime(); e != nil && !errors.Is(e, ft.ErrNotProtoNode) {
			rerr = "ModTime: " + e.Error()
			return
		}
		fd, e := fi.Open(w.ctx, mfs.Flags{Read: true})
		if e != nil {
			rerr = "Open(read): " + e.Error()
			return
		}
		got, e = io.ReadAll(fd)
		if e != nil {
			rerr = "ReadAll: " + e.Error()
		}
		if e := fd.Close(); e != nil && rerr == "" {
			rerr = "Close(read): " + e.Error()
		}
	}) {
		return false
	}
	if rerr != "" {
		w.fail("tree/file-read-error@"+why, "file can be read", "no error", rerr+" at "+p+" (last op "+w.lastOp+")")
		return false
	}
	if !bytes.Equal(got, n.data) && n.mixed {
		w.fail("write/grow-inline-pb-leaf/bytes", "file bytes == model", fmt.Sprintf("%s: %d bytes %x", p, len(n.data), n.data), fmt.Sprintf("%d bytes %x (size %d)", len(got), got, size))
		return false
	}
	if !bytes.Equal(got, n.data) && w.staleShape && bytes.Equal(got, w.preClose) {
		w.fail("write/fd-open-across-path-dir-flush+lookup/write-lost", "file bytes == model", fmt.Sprintf("%s: %d bytes %x", p, len(n.data), n.data), fmt.Sprintf("%d bytes %x (what the file showed when it was looked up during the session; Flush/Close returned nil)", len(got), got))
		return false
	}
	if !bytes.Equal(got, n.data) {
		w.fail("tree/file-bytes@"+why, "file bytes == model", fmt.Sprintf("%s: %d bytes %x", p, len(n.data), n.data), fmt.Sprintf("%d bytes %x (last op %s)", len(got), got, w.lastOp))
		good = false
	}
	if good && n.mixed && size != int64(len(n.data)) {
		w.fail("write/grow-inline-pb-leaf/size", "File.Size == model length", fmt.Sprint(len(n.data)), fmt.Sprintf("%d at %s (the bytes read are right)", size, p))
		return false
	}
	if size != int64(len(n.data)) {
		w.fail("tree/file-size@"+why, "File.Size == model length", fmt.Sprint(len(n.data)), fmt.Sprintf("%d at %s (last op %s)", size, p, w.lastOp))
		good = false
	}
	if mode != n.mode {
		w.fail("tree/file-mode@"+why, "File.Mode == model", fmt.Sprintf("%04o", n.mode), fmt.Sprintf("%04o at %s (last op %s)", mode, p, w.lastOp))
		good = false
	}
	if !n.mt.matches(mt) {
		w.fail("tree/file-mtime@"+why, "File.ModTime == model", n.mt.String(), fmt.Sprintf("(%d,%d) zero=%v at %s (last op %s)", mt.Unix(), mt.Nanosecond(), mt.IsZero(), p, w.lastOp))
		good = false
	}
	return good
}

// checkTree compares everything MFS shows with the model. Returns true when
// no divergence was found.
func (w *world) checkTree(why string) bool {
	w.fullChecks++
	good := true
	var rec func(n *node, p string)
	rec = func(n *node, p string) {
		if w.k.C.Aborted() {
			return
		}
		lp := p
		if lp == "" {
			lp = "/"
		}
		var fsn mfs.FSNode
		var err error
		if !w.guard("Lookup", func() { fsn, err = mfs.Lookup(w.rt, lp) }) {
			return
		}
		if err != nil {
			w.fail("tree/missing-entry@"+why, "model entry can be looked up", lp+" exists", err.Error()+" (last op "+w.lastOp+")")
			good = false
			return
		}
		d, ok := fsn.(*mfs.Directory)
		if !ok {
			w.fail("tree/kind@"+why, "entry kind == model", lp+" is a directory", "file (last op "+w.lastOp+")")
			good = false
			return
		}
		if !w.compareListing(d, n, lp, why) {
			good = false
		}
		var mode os.FileMode
		var mt time.Time
		var merr error
		if !w.guard("Directory.Mode", func() {
			if mode, merr = d.Mode(); merr == nil {
				mt, merr = d.ModTime()
			}
		}) {
			return
		}
		if merr != nil {
			w.fail("tree/dir-stat-error@"+why, "Directory.Mode/ModTime succeed", "nil", merr.Error()+" at "+lp)
			good = false
		} else {
			if mode != n.mode {
				w.fail("tree/dir-mode@"+why, "Directory.Mode == model", fmt.Sprintf("%04o", n.mode), fmt.Sprintf("%04o at %s (last op %s)", mode, lp, w.lastOp))
				good = false
			}
			if !n.mt.matches(mt) {
				w.fail("tree/dir-mtime@"+why, "Directory.ModTime == model", n.mt.String(), fmt.Sprintf("(%d,%d) zero=%v at %s (last op %s)", mt.Unix(), mt.Nanosecond(), mt.IsZero(), lp, w.lastOp))
				good = false
			}
		}
		for _, name := range n.names() {
			c := n.kids[name]
			if c.dir {
				rec(c, p+"/"+name)
			} else if !w.checkFileVisible(p+"/"+name, c, why) {
				good = false
			}
		}
	}
	rec(w.root, "")
	return good
}

// ---------------------------------------------------------------- persisted-DAG oracle

const permBits = os.ModePerm | os.ModeSetuid | os.ModeSetgid | os.ModeSticky

// checkDAG reads nd back through a fresh DAG service (only what was persisted
// is reachable) with the UnixFS readers and compares it with the model subtree.
func (w *world) checkDAG(nd ipld.Node, n *node, where string) {
	w.dagChecks++
	rds := w.readService()
	// start from the persisted copy of the node, not from the in-memory object
	var start ipld.Node
	var err error
	if !w.guard("dag-get", func() { start, err = rds.Get(w.ctx, nd.Cid()) }) {
		return
	}
	if err != nil {
		w.fail("dag/"+where+"/node-not-persisted", "flushed node is in the DAG service", nd.Cid().String(), err.Error()+" (last op "+w.lastOp+")")
		return
	}
	w.guard("dag-walk", func() { w.dagRec(rds, start, n, "", where) })
}

func (w *world) dagRec(rds ipld.DAGService, nd ipld.Node, n *node, p, where string) {
	lp := p
	if lp == "" {
		lp = "."
	}
	fail := func(clause, exp, obs string) {
		w.fail("dag/"+where+"/"+clause, "flushed DAG describes the model: "+clause, exp, obs+" at "+lp+" (last op "+w.lastOp+")")
	}
	if n.dir {
		pn, ok := nd.(*dag.ProtoNode)
		if !ok {
			fail("kind", "directory", fmt.Sprintf("%T", nd))
			return
		}
		fsn, err := ft.FSNodeFromBytes(pn.Data())
		if err != nil || !fsn.IsDir() {
			fail("kind", "directory", fmt.Sprintf("type=%v err=%v", fsn.Type(), err))
			return
		}
		if fsn.Type() == ft.THAMTShard {
			w.dagShards++
		}
		if fsn.Mode()&permBits != n.mode {
			fail("dir-mode", fmt.Sprintf("%04o", n.mode), fmt.Sprintf("%04o", fsn.Mode()&permBits))
		}
		if !n.mt.matches(fsn.ModTime()) {
			fail("dir-mtime", n.mt.String(), fmt.Sprintf("(%d,%d) zero=%v", fsn.ModTime().Unix(), fsn.ModTime().Nanosecond(), fsn.ModTime().IsZero()))
		}
		dir, err := uio.NewDirectoryFromNode(rds, nd)
		if err != nil {
			fail("dir-unreadable", "readable directory", err.Error())
			return
		}
		links, err := dir.Links(w.ctx)
		if err != nil {
			fail("dir-unreadable", "enumerable directory", err.Error())
			return
		}
		var names []string
		for _, l := range links {
			names = append(names, l.Name)
		}
		sort.Strings(names)
		want := n.names()
		if strings.Join(names, "\x00") != strings.Join(want, "\x00") {
			fail("listing", fmt.Sprint(want), fmt.Sprint(names))
			return
		}
		for _, name := range want {
			child, err := dir.Find(w.ctx, name)
			if err != nil {
				fail("child-unreadable", "child "+name+" readable", err.Error())
				continue
			}
			w.dagRec(rds, child, n.kids[name], p+"/"+name, where)
		}
		return
	}
	// file
	var mode os.FileMode
	var mt time.Time
	switch x := nd.(type) {
	case *dag.ProtoNode:
		fsn, err := ft.FSNodeFromBytes(x.Data())
		if err != nil || fsn.IsDir() {
			fail("kind", "file", fmt.Sprintf("type=%v err=%v", fsn.Type(), err))
			return
		}
		mode, mt = fsn.Mode()&permBits, fsn.ModTime()
	case *dag.RawNode:
	default:
		fail("kind", "file", fmt.Sprintf("%T", nd))
		return
	}
	dr, err := uio.NewDagReader(w.ctx, nd, rds)
	if err != nil {
		fail("file-unreadable", "readable file", err.Error())
		return
	}
	got, err := io.ReadAll(dr)
	if err != nil {
		fail("file-unreadable", "readable file", err.Error())
		return
	}
	w.dagFiles++
	if n.mixed && (!bytes.Equal(got, n.data) || dr.Size() != uint64(len(n.data))) {
		cls := "write/grow-inline-pb-leaf/bytes"
		if bytes.Equal(got, n.data) {
			cls = "write/grow-inline-pb-leaf/size"
		}
		w.fail(cls, "flushed DAG describes the model: file bytes and size", fmt.Sprintf("%d bytes %x", len(n.data), n.data), fmt.Sprintf("%d bytes %x (size %d) at %s", len(got), got, dr.Size(), lp))
		return
	}
	if !bytes.Equal(got, n.data) {
		fail("file-bytes", fmt.Sprintf("%d bytes %x", len(n.data), n.data), fmt.Sprintf("%d bytes %x", len(got), got))
	}
	if dr.Size() != uint64(len(n.data)) {
		fail("file-size", fmt.Sprint(len(n.data)), fmt.Sprint(dr.Size()))
	}
	if mode != n.mode {
		fail("file-mode", fmt.Sprintf("%04o", n.mode), fmt.Sprintf("%04o", mode))
	}
	if !n.mt.matches(mt) {
		fail("file-mtime", n.mt.String(), fmt.Sprintf("(%d,%d) zero=%v", mt.Unix(), mt.Nanosecond(), mt.IsZero()))
	}
}
