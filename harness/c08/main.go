// C08: a base file is built with trickle.Layout, then trickle.Append is run on
// it (once, or several times in the multi stratum) with generated data. After
// every append the monitor reads the file back, re-fetches and decodes every
// node (package dagcheck, shared with C07) and evaluates content, size and
// trickle-shape clauses. Too-deep subtrees are classified by where Append put
// them relative to the base DAG's right spine.
package main

import (
	"bytes"
	"context"
	"errors"
	"fmt"
	"io"

	chunk "github.com/ipfs/boxo/chunker"
	dag "github.com/ipfs/boxo/ipld/merkledag"
	mdtest "github.com/ipfs/boxo/ipld/merkledag/test"
	h "github.com/ipfs/boxo/ipld/unixfs/importer/helpers"
	"github.com/ipfs/boxo/ipld/unixfs/importer/trickle"
	uio "github.com/ipfs/boxo/ipld/unixfs/io"
	cid "github.com/ipfs/go-cid"
	ipld "github.com/ipfs/go-ipld-format"
	mh "github.com/multiformats/go-multihash"

	"verif/harness/c07/dagcheck"
	"verif/vlib"
)

func main() { vlib.Run("C08", run) }

type cfg struct {
	width   int
	raw     bool
	spec    string
	csz     int // nominal chunk size
	builder cid.Builder
	bname   string
}

func (c cfg) params(ds ipld.DAGService) *h.DagBuilderParams {
	return &h.DagBuilderParams{Dagserv: ds, Maxlinks: c.width, RawLeaves: c.raw, CidBuilder: c.builder}
}

func splitter(c cfg, data []byte) chunk.Splitter {
	s, err := chunk.FromString(bytes.NewReader(data), c.spec)
	if err != nil {
		panic(err)
	}
	return s
}

func countChunks(c cfg, data []byte) int {
	s := splitter(c, data)
	n := 0
	for {
		if _, err := s.NextBytes(); err != nil {
			return n
		}
		n++
	}
}

func genCfg(r *vlib.Rand) cfg {
	c := cfg{}
	c.width = vlib.Pick(r, []int{2, 2, 2, 3, 3, 4, 4, 5, 6, 8, 11, 16})
	c.raw = r.Bool()
	if r.Chance(1, 4) {
		mn := vlib.Pick(r, []int{16, 16, 32})
		c.spec = fmt.Sprintf("rabin-%d-%d-%d", mn, mn*2, mn*4)
		c.csz = mn * 2
	} else {
		c.csz = vlib.Pick(r, []int{1, 2, 4, 4, 5, 16, 64, 512})
		c.spec = fmt.Sprintf("size-%d", c.csz)
	}
	switch r.Intn(4) {
	case 0:
		c.builder, c.bname = cid.V1Builder{Codec: cid.DagProtobuf, MhType: mh.SHA2_256}, "v1-sha2-256"
	case 1:
		c.builder, c.bname = cid.V0Builder{}, "v0"
	default:
		c.builder, c.bname = nil, "nil(v0)"
	}
	return c
}

// trickle capacities: number of leaves in a full subtree of budget d
func caps(w int) []int {
	cs := []int{0, w}
	for d := 2; d <= 6; d++ {
		s := 0
		for j := 1; j < d; j++ {
			s += cs[j]
		}
		cs = append(cs, w+4*s)
	}
	return cs
}

// boundaryCounts: leaf counts at which a trickle root gains a child / layer.
func boundaryCounts(w int, limit int) []int {
	out := []int{0, 1, w - 1, w, w + 1}
	cs := caps(w)
	total := w
	for d := 1; d <= 5; d++ {
		for rpt := 0; rpt < 4; rpt++ {
			total += cs[d]
			if total > limit {
				return out
			}
			out = append(out, total-1, total, total+1)
		}
	}
	return out
}

func genCount(r *vlib.Rand, w, limit int) int {
	if r.Chance(2, 5) {
		return vlib.Pick(r, boundaryCounts(w, limit))
	}
	if r.Chance(1, 3) {
		return r.Range(0, 3*w+2)
	}
	return r.Range(0, limit)
}

func genBytes(r *vlib.Rand, n int) []byte {
	if r.Chance(1, 6) {
		return bytes.Repeat([]byte{byte(r.Intn(256))}, n)
	}
	return r.Bytes(n)
}

func repeat0(children, width int) bool {
	return children <= width || (children-width)%dagcheck.DepthRepeat == 0
}

// checkDag evaluates every clause on the DAG rooted at root (already stored).
// base is the decoded DAG before this append (nil for the initial Layout).
// It returns the decoded tree and whether the trickle shape held.
func checkDag(k *vlib.Case, ctx context.Context, ds ipld.DAGService, c cfg, root ipld.Node, want []byte, base *dagcheck.Node, stage string) (*dagcheck.Node, bool) {
	pfx := "append/"
	if base == nil {
		pfx = "layout/"
	}
	stored, err := ds.Get(ctx, root.Cid())
	if err != nil {
		k.Fail(pfx+"root-not-stored", "the root can be fetched", "stored", err.Error())
		return nil, false
	}
	dr, err := uio.NewDagReader(ctx, stored, ds)
	if err != nil {
		k.Fail(pfx+"readback/open", "DagReader opens the root", "reader", err.Error())
		return nil, false
	}
	got, err := io.ReadAll(dr)
	if err != nil {
		k.Fail(pfx+"readback/error", "DagReader reads the whole file", "nil", fmt.Sprintf("%v (%s)", err, stage))
	} else if !bytes.Equal(got, want) {
		k.Fail(pfx+"content", "content == old content followed by the new bytes", fmt.Sprintf("%d bytes", len(want)), mismatch(got, want)+" ("+stage+")")
	}
	if dr.Size() != uint64(len(want)) {
		k.Fail(pfx+"size", "Size()==len(base)+len(extra)", fmt.Sprint(len(want)), fmt.Sprintf("%d (%s)", dr.Size(), stage))
	}
	tree, err := dagcheck.Walk(ctx, ds, stored, 300000)
	if err != nil {
		k.Fail(pfx+"walk-error", "every node of the DAG is stored and decodable", "tree", err.Error())
		return nil, false
	}
	k.C.Count("nodes_decoded", int64(tree.Nodes))
	k.C.Max("max_height", int64(tree.Height))
	if tree.Content != uint64(len(want)) {
		k.Fail(pfx+"sizes/total-content", "content below the root == expected length", fmt.Sprint(len(want)), fmt.Sprint(tree.Content))
	}
	seen := map[string]bool{}
	for _, i := range dagcheck.CheckSizes(tree) {
		if !seen[i.Kind] {
			seen[i.Kind] = true
			k.Fail(pfx+i.Kind, i.Clause, fmt.Sprintf("node %v child %d: %s", i.Path, i.Child, i.Expected), i.Observed+" ("+stage+")")
		}
	}
	iss := dagcheck.CheckTrickle(tree, c.width)
	for _, i := range iss {
		class := pfx + i.Kind
		detail := ""
		if i.Kind == "trickle/too-deep" && base != nil {
			detail = "; placement: " + classifyTooDeep(i, base, c.width)
		}
		if seen[class] {
			continue
		}
		seen[class] = true
		k.Fail(class, i.Clause, fmt.Sprintf("node %v: %s", i.Path, i.Expected), fmt.Sprintf("%s, %d layer(s) over budget (%s)%s; shape=%s", i.Observed, i.Over, stage, detail, dagcheck.Shape(tree, 300)))
	}
	// cross-check with the repository's own verifier
	if pn, ok := stored.(*dag.ProtoNode); ok {
		verr := trickle.VerifyTrickleDagStructure(pn, trickle.VerifyParams{Getter: ds, Direct: c.width, LayerRepeat: dagcheck.DepthRepeat, RawLeaves: c.raw})
		k.C.Count("crosschecked_with_VerifyTrickleDagStructure", 1)
		if (verr == nil) != (len(iss) == 0) {
			k.Fail("cross-check/verify-disagrees", "harness trickle rules and VerifyTrickleDagStructure agree", fmt.Sprintf("harness issues: %v", iss), fmt.Sprintf("verifier: %v (%s)", verr, stage))
		}
		if verr != nil {
			k.C.Count("VerifyTrickleDagStructure_rejections", 1)
		}
	}
	return tree, len(iss) == 0
}

// classifyTooDeep describes where an over-budget node Q sits relative to the
// base DAG (diagnostic detail of the witness only; the class is uniform since
// the repeatNumber==0 defect was fixed upstream): was Q created by this append
// as a child of a node P on the base's right spine (the only nodes Append
// touches), and did P have repeatNumber==0 (<= width children, or width+4k).
func classifyTooDeep(i dagcheck.Issue, base *dagcheck.Node, width int) string {
	if len(i.Path) == 0 {
		return "other(root)"
	}
	ppath, qidx := i.Path[:len(i.Path)-1], i.Path[len(i.Path)-1]
	// P must be on the base's right spine
	cur := base
	for _, idx := range ppath {
		if idx != len(cur.Children)-1 {
			return "other(off-spine)"
		}
		cur = cur.Children[idx]
	}
	if cur.IsLeaf() && len(ppath) > 0 {
		return "other(parent-was-leaf)"
	}
	nP := len(cur.Children)
	if qidx < nP {
		return "other(existing-child)"
	}
	if i.Over != 1 {
		return fmt.Sprintf("append/trickle/too-deep/other(over=%d)", i.Over)
	}
	if !repeat0(nP, width) {
		return "other(repeat!=0)"
	}
	return "new child of a right-spine node with repeatNumber==0, one layer over"
}

func mismatch(got, want []byte) string {
	n := len(got)
	if len(want) < n {
		n = len(want)
	}
	for i := 0; i < n; i++ {
		if got[i] != want[i] {
			return fmt.Sprintf("%d bytes, first difference at offset %d (got %#02x want %#02x)", len(got), i, got[i], want[i])
		}
	}
	return fmt.Sprintf("%d bytes (common prefix equal)", len(got))
}

// faultReader delivers data and then fails with a non-EOF error (for ever),
// optionally handing out the last good bytes together with the error.
type faultReader struct {
	data     []byte
	off      int
	withData bool
}

var errInjected = errors.New("injected read fault: input/output error")

func (f *faultReader) Read(p []byte) (int, error) {
	if len(p) == 0 {
		return 0, nil
	}
	if f.off >= len(f.data) {
		return 0, errInjected
	}
	n := copy(p, f.data[f.off:])
	f.off += n
	if f.withData && f.off == len(f.data) {
		return n, errInjected
	}
	return n, nil
}

// faultCase: a healthy trickle base, then Append from a reader that fails with
// a non-EOF error after k bytes of the data to append. Acceptable outcomes:
// Append reports an error, or it returns a file holding base followed by the
// *complete* intended data. A nil error with less content is the violation.
func faultCase(k *vlib.Case) {
	r := k.R
	ctx := context.Background()
	c := genCfg(r)
	limit := 200
	baseCount := genCount(r, c.width, limit)
	baseLen := baseCount * c.csz
	if baseLen > 0 && c.csz > 1 && r.Chance(1, 3) {
		baseLen -= r.Range(1, c.csz-1)
	}
	content := genBytes(r, baseLen)
	extraCount := genCount(r, c.width, limit)
	if extraCount == 0 && r.Chance(3, 4) {
		extraCount = r.Range(1, 3*c.width+2)
	}
	extraLen := extraCount * c.csz
	if extraLen > 0 && c.csz > 1 && r.Chance(1, 3) {
		extraLen -= r.Range(1, c.csz-1)
	}
	extra := genBytes(r, extraLen)
	// chunk boundaries of the intended appended data
	var lens, bounds []int
	sp := splitter(c, extra)
	o := 0
	for {
		b, err := sp.NextBytes()
		if err != nil {
			break
		}
		o += len(b)
		lens = append(lens, len(b))
		bounds = append(bounds, o)
	}
	at, where := 0, "offset-0"
	if len(extra) > 0 {
		switch r.Intn(6) {
		case 0:
		case 1:
			ci := r.Intn(len(lens))
			start := bounds[ci] - lens[ci]
			at, where = start+r.Intn(lens[ci]), "inside-chunk"
			if at == start && lens[ci] > 1 {
				at++
			}
		case 2:
			at, where = bounds[r.Intn(len(bounds))], "chunk-boundary"
		case 3:
			last := len(lens) - 1
			at, where = bounds[last]-lens[last]+r.Intn(lens[last]), "last-chunk"
		case 4:
			at, where = len(extra), "at-end(error instead of EOF)"
		default:
			at, where = r.Intn(len(extra)+1), "random"
		}
	}
	fr := &faultReader{data: extra[:at], withData: r.Chance(1, 3)}
	k.Logf("width=%d rawLeaves=%v chunker=%s builder=%s", c.width, c.raw, c.spec, c.bname)
	k.Logf("base len=%d (%d chunks)", len(content), countChunks(c, content))

	ds := mdtest.Mock()
	db, err := c.params(ds).New(splitter(c, content))
	if err != nil {
		panic(err)
	}
	root, err := trickle.Layout(db)
	if err != nil {
		k.Fail("layout/error", "Layout succeeds", "root", err.Error())
		return
	}
	tree, ok := checkDag(k, ctx, ds, c, root, content, nil, "base")
	if tree == nil || !ok || k.Failed() {
		return
	}
	k.Logf("  base shape=%s", dagcheck.Shape(tree, 200))
	k.Logf("append of %d bytes (%d chunks) from a reader that fails after %d bytes (%s, error-with-last-bytes=%v)", len(extra), len(lens), at, where, fr.withData)
	baseNode, err := ds.Get(ctx, root.Cid())
	if err != nil {
		panic(err)
	}
	fspl, err := chunk.FromString(fr, c.spec)
	if err != nil {
		panic(err)
	}
	adb, err := c.params(ds).New(fspl)
	if err != nil {
		panic(err)
	}
	nroot, err := trickle.Append(ctx, baseNode, adb)
	k.C.Count("fault_appends", 1)
	if at < len(extra) {
		k.Nontrivial()
	}
	if err != nil {
		k.C.Count("fault_appends_reported_error", 1)
		k.Logf("  -> error: %v", err)
		return
	}
	if nroot == nil {
		k.Fail("append-nil-root", "Append returns a root or an error", "root or error", "nil, nil")
		return
	}
	if err := ds.Add(ctx, nroot); err != nil {
		panic(err)
	}
	want := append(append([]byte(nil), content...), extra...)
	var got []byte
	size := uint64(0)
	dr, derr := uio.NewDagReader(ctx, nroot, ds)
	if derr == nil {
		size = dr.Size()
		got, derr = io.ReadAll(dr)
	}
	if derr != nil || !bytes.Equal(got, want) {
		k.Fail("append-error-swallowed", "a failed input stream yields an error, or else old content followed by the complete new bytes",
			fmt.Sprintf("error (reader failed after %d of %d bytes), or a file of %d bytes", at, len(extra), len(want)),
			fmt.Sprintf("nil error, root %s, Size()=%d, reads back %d bytes = base %d + %d appended (read error: %v); fault %s", nroot.Cid(), size, len(got), len(content), len(got)-len(content), derr, where))
		return
	}
	k.C.Count("fault_appends_complete_content", 1)
}

func spineCounts(t *dagcheck.Node) []int {
	var out []int
	for cur := t; cur != nil && !cur.IsLeaf(); cur = cur.Children[len(cur.Children)-1] {
		out = append(out, len(cur.Children))
	}
	return out
}

func oneCase(stratum string) func(k *vlib.Case) {
	return func(k *vlib.Case) {
		r := k.R
		ctx := context.Background()
		c := genCfg(r)
		limit := 300
		nAppends := 1
		switch stratum {
		case "small":
			// base+appended chunks <= 2*width: everything stays in the root's
			// direct leaves and its first subtree
			limit = 2 * c.width
			if c.spec[0] != 's' {
				c.csz = vlib.Pick(r, []int{1, 4, 16})
				c.spec = fmt.Sprintf("size-%d", c.csz)
			}
		case "multi":
			nAppends = r.Range(2, 5)
			limit = 120
		case "wide":
			c.width = vlib.Pick(r, []int{8, 11, 16})
			limit = 600
		}
		baseCount := genCount(r, c.width, limit)
		if stratum == "small" {
			baseCount = r.Range(0, 2*c.width)
		}
		baseLen := baseCount * c.csz
		if baseLen > 0 && c.csz > 1 && r.Chance(1, 3) {
			baseLen -= r.Range(1, c.csz-1) // partial last leaf
		}
		content := genBytes(r, baseLen)
		k.Logf("width=%d rawLeaves=%v chunker=%s builder=%s", c.width, c.raw, c.spec, c.bname)
		k.Logf("base len=%d (%d chunks)", len(content), countChunks(c, content))

		ds := mdtest.Mock()
		db, err := c.params(ds).New(splitter(c, content))
		if err != nil {
			panic(err)
		}
		root, err := trickle.Layout(db)
		if err != nil {
			k.Fail("layout/error", "Layout succeeds", "root", err.Error())
			return
		}
		tree, ok := checkDag(k, ctx, ds, c, root, content, nil, "base")
		if tree == nil || !ok || k.Failed() {
			return // a wrong base is C07's business; nothing to append to
		}
		k.Logf("  base shape=%s spine-child-counts=%v", dagcheck.Shape(tree, 200), spineCounts(tree))

		deep := false
		for a := 0; a < nAppends; a++ {
			extraCount := genCount(r, c.width, limit)
			if stratum == "small" {
				have := tree.Leaves
				if len(tree.Children) == 0 {
					have = 0
				}
				extraCount = r.Range(0, 2*c.width-have)
			}
			extraLen := extraCount * c.csz
			if extraLen > 0 && c.csz > 1 && r.Chance(1, 3) {
				extraLen -= r.Range(1, c.csz-1)
			}
			extra := genBytes(r, extraLen)
			rootChildren := len(tree.Children)
			k.Logf("append #%d len=%d (%d chunks) onto root with %d children (repeat0=%v)", a+1, len(extra), countChunks(c, extra), rootChildren, repeat0(rootChildren, c.width))

			baseNode, err := ds.Get(ctx, root.Cid())
			if err != nil {
				panic(err)
			}
			adb, err := c.params(ds).New(splitter(c, extra))
			if err != nil {
				panic(err)
			}
			nroot, err := trickle.Append(ctx, baseNode, adb)
			if err != nil {
				k.Fail("append/error", "Append succeeds", "root", err.Error())
				return
			}
			k.C.Count("appends", 1)
			// Append returns the new root without storing it (its caller does).
			if err := ds.Add(ctx, nroot); err != nil {
				panic(err)
			}
			content = append(append([]byte(nil), content...), extra...)
			ntree, ok := checkDag(k, ctx, ds, c, nroot, content, tree, fmt.Sprintf("after append #%d", a+1))
			if ntree == nil {
				return
			}
			k.Logf("  -> height=%d leaves=%d shape=%s", ntree.Height, ntree.Leaves, dagcheck.Shape(ntree, 200))
			if ntree.Height >= 3 && len(extra) > 0 && len(tree.Children) > 0 {
				deep = true
			}
			if !ok || k.Failed() {
				// the result is not a trickle DAG: it does not qualify as the
				// base of another append
				break
			}
			root, tree = nroot, ntree
		}
		if deep {
			k.Nontrivial()
		}
	}
}

func run(c *vlib.Ctx) {
	c.Rule("case = (trickle.Layout base, 1 append; stratum multi: 2-5 successive appends, each result validated before it becomes the next base). width {2..6,8,11,16} x chunker {size-1..512, rabin-min-avg-max} x raw/dag-pb leaves x CID builder; base and appended chunk counts 0..300 (wide: 600, multi: 120; small: base+appended <= 2*width) at trickle layer boundaries ±1 or random, partial last leaves. distinct = FNV of config+lengths+resulting shapes; non-trivial = a non-empty append onto a non-empty base yields a DAG of height >= 3. Stratum fault: healthy base (<=200 chunks), the reader behind the appended data's chunker returns a non-EOF error after k bytes (k = 0, inside a chunk, chunk boundary, last chunk, at the end, random; error alone or with the last bytes); acceptable = Append returns an error, or nil with base+complete data; non-trivial = k < len(appended data).")
	// thorough counts are for a build without -race; under -race the tier runs 1/5 of them.
	n := func(q, t int) int {
		if raceEnabled {
			t /= 5
			if t < q {
				t = q
			}
		}
		return c.N(q, t)
	}
	c.Cases("pairs", n(900, 18000), oneCase("pairs"))
	c.Cases("small", n(200, 4000), oneCase("small"))
	c.Cases("wide", n(150, 3000), oneCase("wide"))
	c.Cases("multi", n(250, 5000), oneCase("multi"))
	c.Cases("fault", n(300, 6000), faultCase)
}
