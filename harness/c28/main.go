// C28: content paths and IPNS names parse and print canonically.
//
// The real path.NewPath / path.NewPathFromURI / ipns.Name code is run on
// strings built from a hostile fragment grammar and on peer IDs of every
// supported key type. Three oracles observe every result:
//
//   - idempotence (the statement): re-parsing the printed form of an accepted
//     path gives the same String/Namespace/Segments/RootCid, and the printed
//     form has no "." / ".." / empty segment;
//   - a 30-line reference model of the documented cleaning rule ("cleaned
//     through path.Clean, but preserving the final trailing slash", namespace in
//     {ipfs,ipns,ipld}, ipfs/ipld root must be a CID) that predicts acceptance,
//     the printed form and the root CID without using path.Clean;
//   - URI forms: NewPathFromURI(x) must behave exactly like NewPath(canon(x))
//     where canon is the harness's own rewrite of scheme[:][//]rest.
//
// Names: String/Cid/RoutingKey/Peer/JSON/AsPath round trips for peer IDs of
// Ed25519, Secp256k1, ECDSA and RSA keys in every textual form peer.Decode
// accepts.
package main

import (
	"bytes"
	"crypto/ecdh"
	"crypto/ecdsa"
	"crypto/elliptic"
	"crypto/rsa"
	"crypto/x509"
	"encoding/json"
	"fmt"
	"math/big"
	"strings"

	"github.com/ipfs/boxo/ipns"
	"github.com/ipfs/boxo/path"
	cid "github.com/ipfs/go-cid"
	ic "github.com/libp2p/go-libp2p/core/crypto"
	"github.com/libp2p/go-libp2p/core/peer"
	mb "github.com/multiformats/go-multibase"
	mh "github.com/multiformats/go-multihash"

	"verif/vlib"
)

func main() { vlib.Run("C28", run) }

const perCase = 16

func run(c *vlib.Ctx) {
	c.Rule("path/uri strata: 16 strings per case from a fragment grammar (lead in, namespace incl. wrong-case/unknown, root = CID in base58/32/36/16upper/64url, CIDv0, peer ID, IPNS name, DNS name, garbage, dots; separators '/', '//', '/./', '/../'; tail segments incl. unicode, '%', NUL, '...', '?', '#'; endings '', '/', '//', '/.', '/..', '/./'); uri stratum wraps them in ipfs|ipns|ipld schemes with mixed case, ':' or '://' or ':///' and foreign schemes. name stratum: one peer ID per key type {ed25519, secp256k1, ecdsa-p256, rsa-2048} in 8 textual forms (base36, /ipns/-prefixed, legacy base58, CIDv1 base32/base58/base16, upper-case base36). distinct = FNV of the literal strings; non-trivial path case = at least one accepted string that cleaning changed, one accepted with a trailing slash and one rejected; non-trivial uri case = at least one accepted URI with an upper-case letter in the scheme and one accepted schemeless ('ipfs:') form; name cases are non-trivial when all four key types were converted")
	c.Cases("path", c.N(2400, 90000), pathCase)
	c.Cases("uri", c.N(900, 30000), uriCase)
	c.Cases("name", c.N(500, 12000), nameCase)
}

// ---------------------------------------------------------------- model

// modelSegments is the harness's own cleaning of a rooted slash path: empty
// and "." elements vanish, ".." removes the previous element (or nothing at
// the root). It does not use path.Clean.
func modelSegments(s string) []string {
	var out []string
	for _, e := range strings.Split(s, "/") {
		switch e {
		case "", ".":
		case "..":
			if len(out) > 0 {
				out = out[:len(out)-1]
			}
		default:
			out = append(out, e)
		}
	}
	return out
}

type modelPath struct {
	ok      bool
	why     string
	str     string
	ns      string
	segs    []string
	root    cid.Cid
	hasRoot bool
}

func modelParse(s string) modelPath {
	if !strings.HasPrefix(s, "/") {
		return modelPath{why: "no leading slash"}
	}
	segs := modelSegments(s)
	if len(segs) < 2 {
		return modelPath{why: "fewer than two segments"}
	}
	m := modelPath{ns: segs[0], segs: segs}
	switch segs[0] {
	case "ipfs", "ipld":
		c, err := cid.Decode(segs[1])
		if err != nil {
			return modelPath{why: "root is not a CID"}
		}
		m.root, m.hasRoot = c, true
	case "ipns":
	default:
		return modelPath{why: "unknown namespace"}
	}
	m.ok = true
	m.str = "/" + strings.Join(segs, "/")
	if strings.HasSuffix(s, "/") {
		m.str += "/"
	}
	return m
}

// modelURI rewrites scheme[:][//]rest to /scheme/rest for the three schemes
// (ASCII case-insensitive); every other string is returned unchanged.
func modelURI(s string) (string, bool) {
	for _, ns := range []string{"ipfs", "ipns", "ipld"} {
		if len(s) > len(ns) && s[len(ns)] == ':' && asciiLower(s[:len(ns)]) == ns {
			rest := s[len(ns)+1:]
			if strings.HasPrefix(rest, "//") {
				rest = rest[2:]
			}
			return "/" + ns + "/" + rest, true
		}
	}
	return s, false
}

func asciiLower(s string) string {
	b := []byte(s)
	for i, ch := range b {
		if ch >= 'A' && ch <= 'Z' {
			b[i] = ch + 32
		}
	}
	return string(b)
}

// ---------------------------------------------------------------- generator

type pool struct {
	roots []string // CID-like / name-like roots
}

func mkCid(r *vlib.Rand) cid.Cid {
	data := r.Bytes(r.Range(1, 40))
	code := vlib.Pick(r, []uint64{mh.SHA2_256, mh.SHA2_256, mh.SHA2_512, mh.IDENTITY, mh.BLAKE2B_MIN + 31, mh.SHA3_256})
	h, err := mh.Sum(data, code, -1)
	if err != nil {
		panic(err)
	}
	codec := vlib.Pick(r, []uint64{cid.DagProtobuf, cid.Raw, cid.DagCBOR, cid.Libp2pKey, 0x0129 /* dag-json */, 0x0200 /* json */})
	return cid.NewCidV1(codec, h)
}

func cidForms(r *vlib.Rand, c cid.Cid) string {
	switch r.Intn(8) {
	case 0:
		if c.Prefix().MhType == mh.SHA2_256 {
			return cid.NewCidV0(c.Hash()).String()
		}
		return c.String()
	case 1:
		s, _ := c.StringOfBase(mb.Base36)
		return s
	case 2:
		s, _ := c.StringOfBase(mb.Base58BTC)
		return s
	case 3:
		s, _ := c.StringOfBase(mb.Base16Upper)
		return s
	case 4:
		s, _ := c.StringOfBase(mb.Base64url)
		return s
	case 5:
		s, _ := c.StringOfBase(mb.Base32Upper)
		return s
	default:
		return c.String()
	}
}

func newPool(r *vlib.Rand) *pool {
	p := &pool{}
	for i := 0; i < 3; i++ {
		p.roots = append(p.roots, cidForms(r, mkCid(r)))
	}
	// a peer id (ed25519-like identity multihash) in legacy and CID form
	pub, err := ic.UnmarshalEd25519PublicKey(r.Bytes(32))
	if err != nil {
		panic(err)
	}
	pid, err := peer.IDFromPublicKey(pub)
	if err != nil {
		panic(err)
	}
	p.roots = append(p.roots, pid.String(), ipns.NameFromPeer(pid).String())
	return p
}

var dnsRoots = []string{"example.com", "en.wikipedia-on-ipfs.org", "a.b", "localhost", "xn--bcher-kva.example", "_dnslink.example.net", "EXAMPLE.Org."}
var junkRoots = []string{"", ".", "..", "...", "bafy", "Qm", "QmInvalid0OIl", "ü", "日本語", " ", "%2F", "%", "-", "a:b", "\x00", "ipfs", "ipns", "..a", "a..", ".hidden"}
var namespaces = []string{"ipfs", "ipfs", "ipfs", "ipfs", "ipfs", "ipfs", "ipns", "ipns", "ipns", "ipns", "ipld", "ipld", "ipld", "IPFS", "Ipns", "ipfsx", "ipn", "p2p", "", ".", "..", "ipfs ", "ıpfs"}
var leads = []string{"/", "/", "/", "/", "/", "/", "/", "/", "/", "/", "/", "/", "//", "///", "/./", "/../", "/x/../", "/x/y/../../", "", "./", "../", " /", "\\"}
var seps = []string{"/", "/", "/", "/", "//", "///", "/./", "/../", "/x/../", "/./../"}
var tails = []string{"a", "b.txt", "c d", "ü", "日本", "%2F", "%", "%00", "\x00", "...", "....", "..a", "a..", ".a", "-", "~", "?q=1", "#frag", "a:b", "&", "+", "\\", "\t", "index.html", ".", "..", "ipfs", "ipns"}
var ends = []string{"", "", "", "/", "/", "//", "/.", "/..", "/./", "/../", "/.//", "/..."}

func (p *pool) root(r *vlib.Rand, ns string) string {
	switch r.Intn(10) {
	case 0:
		return vlib.Pick(r, junkRoots)
	case 1, 2:
		if ns == "ipns" || r.Chance(1, 4) {
			return vlib.Pick(r, dnsRoots)
		}
	}
	return vlib.Pick(r, p.roots)
}

// pathish builds one string; the result may or may not be a valid path.
func (p *pool) pathish(r *vlib.Rand) string {
	var b strings.Builder
	b.WriteString(vlib.Pick(r, leads))
	ns := vlib.Pick(r, namespaces)
	b.WriteString(ns)
	if r.Chance(1, 40) {
		return b.String() // namespace only
	}
	b.WriteString(vlib.Pick(r, seps))
	b.WriteString(p.root(r, ns))
	n := r.Intn(5)
	if r.Chance(1, 3) {
		n = 0
	}
	for i := 0; i < n; i++ {
		b.WriteString(vlib.Pick(r, seps))
		b.WriteString(vlib.Pick(r, tails))
	}
	b.WriteString(vlib.Pick(r, ends))
	return b.String()
}

// ---------------------------------------------------------------- oracles

func segsEq(a, b []string) bool {
	if len(a) != len(b) {
		return false
	}
	for i := range a {
		if a[i] != b[i] {
			return false
		}
	}
	return true
}

type rootCider interface{ RootCid() cid.Cid }

func rootOf(p path.Path) (cid.Cid, bool) {
	if rc, ok := p.(rootCider); ok {
		return rc.RootCid(), true
	}
	return cid.Undef, false
}

// inputClass gives the discriminating feature of an input for violation
// classes: the first that applies of dotdot, dot, trailing-slash, dup-slash.
func inputClass(s string) string {
	switch {
	case strings.Contains(s, "/../") || strings.HasSuffix(s, "/.."):
		return "dotdot"
	case strings.Contains(s, "/./") || strings.HasSuffix(s, "/."):
		return "dot"
	case strings.HasSuffix(s, "/"):
		return "trailing-slash"
	case strings.Contains(s, "//"):
		return "dup-slash"
	}
	return "plain"
}

// checkParsed applies the statement's clauses and the model to one NewPath result.
// It returns (accepted, cleaningChangedTheString).
func checkParsed(k *vlib.Case, in string, p path.Path, err error) (bool, bool) {
	m := modelParse(in)
	feat := inputClass(in)
	if err != nil {
		if m.ok {
			k.Fail("accept/rejected-valid/"+feat, "a string the documented grammar accepts is accepted", "accepted as "+fmt.Sprintf("%q", m.str), fmt.Sprintf("NewPath(%q) error: %v", in, err))
		}
		return false, false
	}
	if p == nil {
		k.Fail("accept/nil-path", "no error implies a path", "non-nil path", "nil path, nil error")
		return false, false
	}
	s := p.String()
	segs := p.Segments()
	if !m.ok {
		k.Fail("accept/accepted-invalid/"+feat, "a string outside the documented grammar is rejected", "error ("+m.why+")", fmt.Sprintf("NewPath(%q) = %q", in, s))
		// idempotence below is still checked
	}
	// --- printed form has no dot / empty segments (statement)
	raw := strings.Split(strings.TrimSuffix(strings.TrimPrefix(s, "/"), "/"), "/")
	for _, e := range raw {
		if e == "." || e == ".." || e == "" {
			k.Fail("printed/dot-segment/"+feat, "printed form has no '.', '..' or empty segment", "clean segments", fmt.Sprintf("NewPath(%q).String() = %q", in, s))
			break
		}
	}
	for _, e := range segs {
		if e == "." || e == ".." || e == "" {
			k.Fail("segments/dot-segment/"+feat, "Segments() has no '.', '..' or empty segment", "clean segments", fmt.Sprintf("NewPath(%q).Segments() = %q", in, segs))
			break
		}
	}
	if !strings.HasPrefix(s, "/") {
		k.Fail("printed/not-rooted", "printed form starts with '/'", "/…", fmt.Sprintf("%q", s))
	}
	// --- model: printed form, namespace, segments, root
	if m.ok {
		if s != m.str {
			k.Fail("canon/string/"+feat, "String() == clean(input) with the final slash preserved", fmt.Sprintf("%q", m.str), fmt.Sprintf("NewPath(%q).String() = %q", in, s))
		}
		if p.Namespace() != m.ns {
			k.Fail("canon/namespace/"+feat, "Namespace() == first cleaned segment", m.ns, p.Namespace())
		}
		if !segsEq(segs, m.segs) {
			k.Fail("canon/segments/"+feat, "Segments() == cleaned segments", fmt.Sprintf("%q", m.segs), fmt.Sprintf("%q", segs))
		}
		rc, has := rootOf(p)
		if has != m.hasRoot {
			k.Fail("canon/immutable-kind/"+feat, "ipfs/ipld paths (and only they) carry a root CID", fmt.Sprint(m.hasRoot), fmt.Sprintf("%v for %q", has, in))
		} else if has && !rc.Equals(m.root) {
			k.Fail("canon/rootcid/"+feat, "RootCid() == CID of the second cleaned segment", m.root.String(), fmt.Sprintf("NewPath(%q).RootCid() = %s", in, rc))
		}
		if p.Mutable() != (m.ns == "ipns") {
			k.Fail("canon/mutable", "Mutable() iff namespace is ipns", fmt.Sprint(m.ns == "ipns"), fmt.Sprint(p.Mutable()))
		}
	}
	// --- idempotence (statement)
	p2, err2 := path.NewPath(s)
	if err2 != nil {
		k.Fail("idempotent/reparse-rejected/"+feat, "printed form of an accepted path is accepted", "accepted", fmt.Sprintf("NewPath(%q) ok, NewPath(%q) error: %v", in, s, err2))
		return true, s != in
	}
	if p2.String() != s {
		k.Fail("idempotent/string/"+feat, "NewPath(p.String()).String() == p.String()", fmt.Sprintf("%q", s), fmt.Sprintf("%q (input %q)", p2.String(), in))
	}
	if p2.Namespace() != p.Namespace() {
		k.Fail("idempotent/namespace/"+feat, "namespace stable under re-parse", p.Namespace(), p2.Namespace())
	}
	if !segsEq(p2.Segments(), segs) {
		k.Fail("idempotent/segments/"+feat, "segments stable under re-parse", fmt.Sprintf("%q", segs), fmt.Sprintf("%q", p2.Segments()))
	}
	rc1, h1 := rootOf(p)
	rc2, h2 := rootOf(p2)
	if h1 != h2 || (h1 && !rc1.Equals(rc2)) {
		k.Fail("idempotent/rootcid/"+feat, "root CID stable under re-parse", fmt.Sprintf("%v %s", h1, rc1), fmt.Sprintf("%v %s", h2, rc2))
	}
	// --- Segments() round trip (NewPathFromSegments is NewPath of the joined segments)
	p3, err3 := path.NewPathFromSegments(segs...)
	if err3 != nil {
		k.Fail("segments/roundtrip-rejected/"+feat, "NewPathFromSegments(p.Segments()) is accepted", "accepted", fmt.Sprintf("segments %q: %v", segs, err3))
	} else if p3.String() != strings.TrimSuffix(s, "/") {
		k.Fail("segments/roundtrip/"+feat, "NewPathFromSegments(p.Segments()) prints p without the trailing slash", fmt.Sprintf("%q", strings.TrimSuffix(s, "/")), fmt.Sprintf("%q", p3.String()))
	}
	if h1 {
		ip, err := path.NewImmutablePath(p)
		if err != nil {
			k.Fail("immutable/reject", "NewImmutablePath accepts an ipfs/ipld path", "accepted", err.Error())
		} else if !ip.RootCid().Equals(rc1) || ip.String() != s {
			k.Fail("immutable/differs", "NewImmutablePath keeps string and root", s+" "+rc1.String(), ip.String()+" "+ip.RootCid().String())
		}
	}
	return true, s != in
}

func pathCase(k *vlib.Case) {
	r := k.R
	p := newPool(r)
	var changed, slash, rejected bool
	for i := 0; i < perCase; i++ {
		in := p.pathish(r)
		k.Logf("NewPath %q", in)
		pp, err := path.NewPath(in)
		ok, ch := checkParsed(k, in, pp, err)
		if ok {
			changed = changed || ch
			slash = slash || strings.HasSuffix(pp.String(), "/")
			k.C.Count("paths_accepted", 1)
			if ch {
				k.C.Count("paths_accepted_and_cleaned", 1)
			}
		} else {
			rejected = true
			k.C.Count("paths_rejected", 1)
		}
	}
	if changed && slash && rejected {
		k.Nontrivial()
	}
}

var schemes = []string{"ipfs", "ipns", "ipld", "IPFS", "IPNS", "IPLD", "Ipfs", "iPnS", "ipLD", "ipfS"}
var foreign = []string{"http", "ipfsx", "ipf", "dweb", "", "ipfs ", "ıpfs", "web+ipfs"}
var uriSeps = []string{"://", "://", "://", ":", ":", ":///", ":/", "::", ":////"}

func uriCase(k *vlib.Case) {
	r := k.R
	p := newPool(r)
	var upperOK, bareOK bool
	for i := 0; i < perCase; i++ {
		var in string
		switch r.Intn(10) {
		case 0: // already a path (must be handed to NewPath unchanged)
			in = p.pathish(r)
		case 1: // foreign scheme
			in = vlib.Pick(r, foreign) + vlib.Pick(r, uriSeps) + p.root(r, "ipfs")
		default:
			sch := vlib.Pick(r, schemes)
			var b strings.Builder
			b.WriteString(sch)
			sep := vlib.Pick(r, uriSeps)
			b.WriteString(sep)
			b.WriteString(p.root(r, asciiLower(sch)))
			n := r.Intn(4)
			for j := 0; j < n; j++ {
				b.WriteString(vlib.Pick(r, seps))
				b.WriteString(vlib.Pick(r, tails))
			}
			b.WriteString(vlib.Pick(r, ends))
			in = b.String()
		}
		k.Logf("NewPathFromURI %q", in)
		canon, isURI := modelURI(in)
		got, gerr := path.NewPathFromURI(in)
		want, werr := path.NewPath(canon)
		feat := "non-uri"
		if isURI {
			feat = "lower"
			if in[:4] != asciiLower(in[:4]) {
				feat = "mixed-case"
			}
			if !strings.HasPrefix(in[5:], "//") {
				feat += "+no-authority"
			}
		}
		switch {
		case (gerr == nil) != (werr == nil):
			k.Fail("uri/accept-differs/"+feat, "NewPathFromURI(x) accepted iff NewPath(canonical(x)) accepted", fmt.Sprintf("NewPath(%q): err=%v", canon, werr), fmt.Sprintf("NewPathFromURI(%q): err=%v", in, gerr))
		case gerr == nil:
			rg, hg := rootOf(got)
			rw, hw := rootOf(want)
			if got.String() != want.String() || got.Namespace() != want.Namespace() || !segsEq(got.Segments(), want.Segments()) || hg != hw || (hg && !rg.Equals(rw)) {
				k.Fail("uri/path-differs/"+feat, "NewPathFromURI(x) == NewPath(canonical(x))", fmt.Sprintf("%q ns=%s root=%s", want.String(), want.Namespace(), rw), fmt.Sprintf("%q ns=%s root=%s (input %q)", got.String(), got.Namespace(), rg, in))
			}
			// the canonical form itself obeys the path clauses
			checkParsed(k, canon, got, nil)
			k.C.Count("uris_accepted", 1)
			if isURI && strings.Contains(feat, "mixed-case") {
				upperOK = true
			}
			if isURI && strings.Contains(feat, "no-authority") {
				bareOK = true
			}
		default:
			// both rejected; the model must agree that canon is invalid
			checkParsed(k, canon, nil, gerr)
			k.C.Count("uris_rejected", 1)
		}
	}
	if upperOK && bareOK {
		k.Nontrivial()
	}
}

// ---------------------------------------------------------------- names

type keyKind struct {
	name string
	mk   func(r *vlib.Rand) (ic.PubKey, error)
}

var keyKinds = []keyKind{
	{"ed25519", func(r *vlib.Rand) (ic.PubKey, error) { return ic.UnmarshalEd25519PublicKey(r.Bytes(32)) }},
	{"secp256k1", func(r *vlib.Rand) (ic.PubKey, error) {
		sk, err := ic.UnmarshalSecp256k1PrivateKey(r.Bytes(32))
		if err != nil {
			return nil, err
		}
		return sk.GetPublic(), nil
	}},
	{"ecdsa-p256", func(r *vlib.Rand) (ic.PubKey, error) {
		for {
			sk, err := ecdh.P256().NewPrivateKey(r.Bytes(32))
			if err != nil {
				continue // scalar out of range: draw again
			}
			pb := sk.PublicKey().Bytes() // 0x04 || X || Y
			x := new(big.Int).SetBytes(pb[1:33])
			y := new(big.Int).SetBytes(pb[33:65])
			return ic.ECDSAPublicKeyFromPubKey(ecdsa.PublicKey{Curve: elliptic.P256(), X: x, Y: y})
		}
	}},
	{"rsa-2048", func(r *vlib.Rand) (ic.PubKey, error) {
		// A peer ID depends only on the encoded public key, so any odd 2048-bit
		// modulus will do; no private key is needed.
		nb := r.Bytes(256)
		nb[0] |= 0x80
		nb[255] |= 1
		der, err := x509.MarshalPKIXPublicKey(&rsa.PublicKey{N: new(big.Int).SetBytes(nb), E: 65537})
		if err != nil {
			return nil, err
		}
		return ic.UnmarshalRsaPublicKey(der)
	}},
}

func nameCase(k *vlib.Case) {
	r := k.R
	done := 0
	for _, kk := range keyKinds {
		pub, err := kk.mk(r)
		if err != nil {
			k.Logf("key %s: generation failed: %v", kk.name, err)
			continue
		}
		pid, err := peer.IDFromPublicKey(pub)
		if err != nil {
			k.Logf("key %s: no peer id: %v", kk.name, err)
			continue
		}
		k.Logf("key %s peer=%s", kk.name, pid)
		checkName(k, kk.name, pid)
		done++
	}
	if done == len(keyKinds) {
		k.Nontrivial()
	}
	k.C.Count("names_checked", int64(done))
}

func checkName(k *vlib.Case, kind string, pid peer.ID) {
	n := ipns.NameFromPeer(pid)
	mhBytes := []byte(pid)
	wantCid := cid.NewCidV1(cid.Libp2pKey, mh.Multihash(mhBytes))
	wantStr, err := wantCid.StringOfBase(mb.Base36)
	if err != nil {
		panic(err)
	}
	fail := func(class, clause, exp, obs string) { k.Fail("name/"+class+"/"+kind, clause, exp, obs) }

	// peer form
	if n.Peer() != pid {
		fail("peer", "NameFromPeer(p).Peer() == p", pid.String(), n.Peer().String())
	}
	// string form: base36 CIDv1 libp2p-key
	s := n.String()
	if s != wantStr {
		fail("string-form", "String() is the base36 CIDv1 (libp2p-key) of the key multihash", wantStr, s)
	}
	// every textual form accepted by the spec parses back to the same name
	b32 := wantCid.String()
	b58v1, _ := wantCid.StringOfBase(mb.Base58BTC)
	b16, _ := wantCid.StringOfBase(mb.Base16)
	forms := []struct{ label, text string }{
		{"string", s},
		{"prefixed-string", "/ipns/" + s},
		{"legacy-b58", pid.String()},
		{"prefixed-legacy", "/ipns/" + pid.String()},
		{"cid-b32", b32},
		{"cid-b58", b58v1},
		{"cid-b16", b16},
		{"upper-b36", strings.ToUpper(s)},
	}
	for _, f := range forms {
		got, err := ipns.NameFromString(f.text)
		if err != nil {
			fail("from-string/"+f.label, "NameFromString accepts every textual form of the name", "name "+s, fmt.Sprintf("NameFromString(%q): %v", f.text, err))
			continue
		}
		if !got.Equal(n) || got.Peer() != pid || got.String() != s {
			fail("from-string/"+f.label, "NameFromString(form).Equal(name)", s, fmt.Sprintf("NameFromString(%q) = %s", f.text, got.String()))
		}
	}
	// CID form
	c := n.Cid()
	if !c.Equals(wantCid) {
		fail("cid", "Cid() == CIDv1(libp2p-key, multihash)", wantCid.String(), c.String())
	}
	if back, err := ipns.NameFromCid(c); err != nil || !back.Equal(n) {
		fail("from-cid", "NameFromCid(n.Cid()) == n", s, fmt.Sprintf("%v err=%v", back, err))
	}
	// routing key form
	rk := n.RoutingKey()
	if !bytes.Equal(rk, append([]byte("/ipns/"), mhBytes...)) {
		fail("routing-key", "RoutingKey() == \"/ipns/\" + multihash bytes", fmt.Sprintf("%x", append([]byte("/ipns/"), mhBytes...)), fmt.Sprintf("%x", rk))
	}
	if back, err := ipns.NameFromRoutingKey(rk); err != nil || !back.Equal(n) {
		fail("from-routing-key", "NameFromRoutingKey(n.RoutingKey()) == n", s, fmt.Sprintf("%v err=%v", back, err))
	}
	// JSON
	js, err := json.Marshal(n)
	if err != nil {
		fail("json-marshal", "Name marshals", "ok", err.Error())
	} else {
		if string(js) != `"`+s+`"` {
			fail("json-text", "JSON form is the quoted string form", `"`+s+`"`, string(js))
		}
		var back ipns.Name
		if err := json.Unmarshal(js, &back); err != nil || !back.Equal(n) {
			fail("json-roundtrip", "Unmarshal(Marshal(n)) == n", s, fmt.Sprintf("%v err=%v", back, err))
		}
		var wrapped struct{ N ipns.Name }
		if err := json.Unmarshal([]byte(`{"N":"`+pid.String()+`"}`), &wrapped); err != nil || !wrapped.N.Equal(n) {
			fail("json-legacy", "JSON legacy peer-id string decodes to the same name", s, fmt.Sprintf("%v err=%v", wrapped.N, err))
		}
	}
	// path form
	ap := n.AsPath()
	if ap.String() != "/ipns/"+s || ap.Namespace() != "ipns" {
		fail("as-path", "AsPath() == /ipns/<string form>", "/ipns/"+s, ap.String())
	}
	pp, err := path.NewPath(ap.String() + "/sub/")
	if err != nil {
		fail("as-path-parse", "AsPath string is a valid content path", "accepted", err.Error())
	} else if back, err := ipns.NameFromString(pp.Segments()[1]); err != nil || !back.Equal(n) {
		fail("as-path-roundtrip", "root segment of the path parses back to the name", s, fmt.Sprintf("%v err=%v", back, err))
	}
}
