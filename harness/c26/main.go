// C26: IPNS records round-trip through creation, encoding and validation.
//
// For generated (key, value path, sequence, future EOL, TTL, metadata, options)
// the real NewRecord / MarshalRecord / UnmarshalRecord / Validate* are run and
// the monitor compares, at every stage (fresh record, decoded record), all
// accessors with the inputs; it also reads the encoded bytes with its own
// protobuf wire parser and a 60-line CBOR map scanner (what was actually
// signed), and checks that validation accepts. A second stratum feeds invalid
// metadata and demands an error from NewRecord.
package main

import (
	"bytes"
	"errors"
	"fmt"
	"math/big"
	"sort"
	"strings"
	"time"

	"github.com/ipfs/boxo/ipns"

	"verif/harness/c25/kit"
	"verif/vlib"
)

func main() { vlib.Run("C26", run) }

func run(c *vlib.Ctx) {
	c.Rule("roundtrip case = key type (Ed25519/secp256k1/ECDSA/RSA-2048) x value path (ipfs/ipld/ipns, CIDv0/v1, remainders, trailing slash) x sequence (edges 0,1,2^31,2^32,2^53,2^63-1,2^63,2^64-1 + random) x EOL 2100..9999-12-31T23:59:59.999999999Z with ns and zones x TTL (negative,0,ns..max) x metadata (0-8 entries of string/bytes/int64/int/bool, keys colliding in length and near reserved names) x WithV1Compatibility x WithPublicKey{default,true,false}; badmeta case = valid map plus 1-2 invalid entries (empty key, reserved key, nil, unsupported type); distinct = FNV of the input description; non-trivial (roundtrip) = decoded record validated through >= 2 entry points AND (sequence >= 2^32 or EOL has sub-second digits or metadata has >= 2 entries); non-trivial (badmeta) = NewRecord returned an error for a map that also contains valid entries; size case = record padded by a tuned metadata entry to exactly MaxRecordSize-1 / MaxRecordSize / MaxRecordSize+1 encoded bytes for every key, full round trip required up to the limit (non-trivial when at or below the limit and validated)")
	kit.Keys(c.Seed)
	c.Cases("roundtrip", c.N(2600, 52000), roundtrip)
	c.Cases("badmeta", c.N(400, 8000), badMeta)
	c.Cases("size", c.N(72, 720), sizeCase)
}

// ---------------------------------------------------------------- CBOR map scanner

type cborVal struct {
	kind  string // bytes | text | int | bool
	b     []byte
	neg   bool   // int: CBOR major type 1, value = -1-arg
	arg   uint64 // int: the head argument
	boolv bool
}

// decimal renders a CBOR integer exactly.
func (v cborVal) decimal() string {
	x := new(big.Int).SetUint64(v.arg)
	if v.neg {
		x.Add(x, big.NewInt(1)).Neg(x)
	}
	return x.String()
}

// asUint64 is the value read as an unsigned 64-bit sequence number: either a
// CBOR unsigned integer, or (the convention of this library for values >=
// 2^63) the two's complement of a negative one.
func (v cborVal) asUint64() uint64 {
	if v.neg {
		return ^v.arg
	}
	return v.arg
}

type cborEntry struct {
	key string
	val cborVal
}

func cborHead(b []byte) (major byte, arg uint64, n int, minimal bool, err error) {
	if len(b) == 0 {
		return 0, 0, 0, false, errors.New("truncated")
	}
	major, info := b[0]>>5, b[0]&31
	switch {
	case info < 24:
		return major, uint64(info), 1, true, nil
	case info == 24:
		if len(b) < 2 {
			return 0, 0, 0, false, errors.New("truncated")
		}
		return major, uint64(b[1]), 2, b[1] >= 24, nil
	case info == 25:
		if len(b) < 3 {
			return 0, 0, 0, false, errors.New("truncated")
		}
		v := uint64(b[1])<<8 | uint64(b[2])
		return major, v, 3, v > 0xff, nil
	case info == 26:
		if len(b) < 5 {
			return 0, 0, 0, false, errors.New("truncated")
		}
		v := uint64(b[1])<<24 | uint64(b[2])<<16 | uint64(b[3])<<8 | uint64(b[4])
		return major, v, 5, v > 0xffff, nil
	case info == 27:
		if len(b) < 9 {
			return 0, 0, 0, false, errors.New("truncated")
		}
		var v uint64
		for i := 1; i <= 8; i++ {
			v = v<<8 | uint64(b[i])
		}
		return major, v, 9, v > 0xffffffff, nil
	}
	return 0, 0, 0, false, fmt.Errorf("unsupported additional info %d", info)
}

// scanCBORMap reads a definite-length map of text keys to scalar values.
func scanCBORMap(b []byte) (entries []cborEntry, minimal bool, err error) {
	minimal = true
	major, n, h, min, err := cborHead(b)
	if err != nil {
		return nil, false, err
	}
	if major != 5 {
		return nil, false, fmt.Errorf("top-level major type %d, want map", major)
	}
	minimal = minimal && min
	b = b[h:]
	for i := uint64(0); i < n; i++ {
		major, l, h, min, err := cborHead(b)
		if err != nil {
			return nil, false, err
		}
		if major != 3 || uint64(len(b)-h) < l {
			return nil, false, fmt.Errorf("map key %d is not a text string", i)
		}
		minimal = minimal && min
		e := cborEntry{key: string(b[h : h+int(l)])}
		b = b[h+int(l):]
		major, arg, h, min, err := cborHead(b)
		if err != nil {
			return nil, false, err
		}
		if major != 7 {
			minimal = minimal && min
		}
		switch major {
		case 0, 1:
			e.val = cborVal{kind: "int", neg: major == 1, arg: arg}
			b = b[h:]
		case 2, 3:
			if uint64(len(b)-h) < arg {
				return nil, false, errors.New("truncated string")
			}
			kind := "bytes"
			if major == 3 {
				kind = "text"
			}
			e.val = cborVal{kind: kind, b: b[h : h+int(arg)]}
			b = b[h+int(arg):]
		case 7:
			if b[0] != 0xf4 && b[0] != 0xf5 {
				return nil, false, fmt.Errorf("unsupported simple value %#x", b[0])
			}
			e.val = cborVal{kind: "bool", boolv: b[0] == 0xf5}
			b = b[1:]
		default:
			return nil, false, fmt.Errorf("unsupported major type %d", major)
		}
		entries = append(entries, e)
	}
	if len(b) != 0 {
		return nil, false, fmt.Errorf("%d trailing bytes", len(b))
	}
	return entries, minimal, nil
}

// ---------------------------------------------------------------- roundtrip

func richMeta(r *vlib.Rand) map[string]any {
	m := kit.GenMeta(r, 8)
	if m != nil && r.Chance(1, 10) {
		// a large entry (record stays below the 10 KiB limit)
		if r.Bool() {
			m["_blob"] = r.Bytes(r.Range(1000, 5000))
		} else {
			m["_text"] = strings.Repeat("t", r.Range(1000, 5000))
		}
	}
	return m
}

func roundtrip(k *vlib.Case) {
	r := k.R
	ks := kit.Keys(k.C.Seed)
	key := vlib.Pick(r, ks)
	s := kit.GenSpec(r, ks, key, true)
	s.Meta = richMeta(r)
	k.Logf("NewRecord %s", s)
	rec, err := s.New()
	checkRoundtrip(k, ks, s, rec, err, "")
}

// sizeCase: a record padded with one metadata entry of tuned length so that it
// serialises to exactly MaxRecordSize-1, MaxRecordSize or MaxRecordSize+1
// bytes. Up to and including MaxRecordSize the full round trip must succeed.
func sizeCase(k *vlib.Case) {
	r := k.R
	ks := kit.Keys(k.C.Seed)
	key := ks[(k.Index/3)%len(ks)]
	s := kit.GenSpec(r, ks, key, true)
	base := kit.GenMeta(r, 3)
	T := ipns.MaxRecordSize - 1 + k.Index%3
	k.Logf("NewRecord padded (metadata \"_pad\") to exactly %d encoded bytes (limit %+d): %s", T, T-ipns.MaxRecordSize, s)
	salt := r.Fork("salt") // the number of signing attempts depends on DER signature lengths; keep it off the case PRNG
	pad := T - 1500
	for iter := 0; iter < 120; iter++ {
		t := *s
		t.Meta = map[string]any{"_pad": strings.Repeat("p", pad), "_salt": fmt.Sprintf("%016x", salt.Uint64())}
		for mk, mv := range base {
			t.Meta[mk] = mv
		}
		rec, err := t.New()
		if err != nil {
			checkRoundtrip(k, ks, &t, rec, err, "size/")
			return
		}
		wire, err := ipns.MarshalRecord(rec)
		if err != nil {
			panic(err)
		}
		if len(wire) == T {
			checkRoundtrip(k, ks, &t, rec, nil, "size/")
			return
		}
		pad += T - len(wire)
	}
	panic(fmt.Sprintf("could not produce a record of exactly %d bytes", T))
}

// checkRoundtrip is the oracle for one created record. classPrefix separates
// the size stratum's classes from the general ones.
func checkRoundtrip(k *vlib.Case, ks []*kit.Key, s *kit.Spec, rec *ipns.Record, err error, classPrefix string) {
	key := s.Key
	fail := func(class, clause, exp, obs string) { k.Fail(classPrefix+class, clause, exp, obs) }
	if err != nil {
		if s.TTL < 0 {
			k.Logf("   -> creation refused a negative TTL: %v (outside the statement's domain)", err)
			k.C.Count("negative_ttl_refused", 1)
			return
		}
		fail("create-error", "NewRecord succeeds for valid inputs", "a record", "error: "+err.Error())
		return
	}
	pubMode := kit.PubNone
	if s.Embedded() {
		pubMode = kit.PubOwn
	}
	accessors := func(stage string, rc *ipns.Record) {
		for _, m := range kit.CheckAccessors(rc, s, pubMode) {
			fail("accessor-"+stage+"/"+m.Which, "accessors of the "+stage+" record return the inputs", m.Which+"="+m.Expected, m.Which+"="+m.Observed)
		}
	}
	accessors("fresh", rec)

	wire, err := ipns.MarshalRecord(rec)
	if err != nil {
		fail("marshal-error", "MarshalRecord succeeds", "bytes", "error: "+err.Error())
		return
	}
	k.C.Max("max_record_bytes", int64(len(wire)))
	dec, err := ipns.UnmarshalRecord(wire)
	if err != nil {
		if len(wire) > ipns.MaxRecordSize {
			k.C.Count("oversize_inputs", 1)
			return
		}
		fail("unmarshal-error", "a created record survives marshal/unmarshal", "a record", fmt.Sprintf("error: %v (wire %s)", err, kit.Hex(wire)))
		return
	}
	accessors("decoded", dec)
	if again, err := ipns.MarshalRecord(dec); err != nil || !bytes.Equal(again, wire) {
		fail("remarshal-differs", "marshal(unmarshal(bytes)) == bytes", kit.Hex(wire), fmt.Sprintf("%s err=%v", kit.Hex(again), err))
	}
	if fo, do := kit.MetadataOrder(rec), kit.MetadataOrder(dec); strings.Join(fo, "\x1f") != strings.Join(do, "\x1f") {
		fail("metadata-order-fresh-vs-decoded", "the decoded record is observably the record that was created", fmt.Sprintf("%q", fo), fmt.Sprintf("%q", do))
	}

	// what is on the wire
	v, ok := kit.EffectiveOf(wire)
	if !ok {
		fail("wire-unparseable", "encoded record is a protobuf message", "parseable", kit.Hex(wire))
		return
	}
	wireChecks(k, s, v)
	signedDataChecks(k, s, v.Bytes[kit.FData])

	// validation
	if len(wire) > ipns.MaxRecordSize {
		k.C.Count("oversize_inputs", 1)
		return
	}
	entries := 0
	check := func(entry string, err error) {
		entries++
		if err != nil {
			fail("validate-rejects/"+entry, "a newly created record validates against its name", "nil", fmt.Sprintf("%v (wire %s)", err, kit.Hex(wire)))
		}
	}
	kb := kit.NewKeyBook(ks)
	rk := string(key.Name.RoutingKey())
	if s.Embedded() || key.Inline {
		check("ValidateWithName", ipns.ValidateWithName(dec, key.Name))
		check("ValidateWithName-fresh", ipns.ValidateWithName(rec, key.Name))
		check("Validator", ipns.Validator{}.Validate(rk, wire))
	} else {
		k.C.Count("key_neither_embedded_nor_inline", 1)
	}
	check("Validate", ipns.Validate(dec, key.PK))
	check("Validator+KeyBook", ipns.Validator{KeyBook: kb}.Validate(rk, wire))
	if pk, err := ipns.ExtractPublicKey(dec, key.Name); s.Embedded() || key.Inline {
		if err != nil || !pk.Equals(key.PK) {
			fail("extract-public-key", "the key of the name is recoverable from name + record", "key "+key.ID, fmt.Sprintf("err=%v", err))
		}
	}
	k.C.Count("validations", int64(entries))
	k.Logf("   -> created, encoded, decoded; accessors compared on both; %d validation entry points; violations so far: %v", entries, k.Failed())
	if entries >= 2 && !k.Failed() && (s.Seq >= 1<<32 || s.EOL.Nanosecond() != 0 || len(s.Meta) >= 2) {
		k.Nontrivial()
	}
}

func wireChecks(k *vlib.Case, s *kit.Spec, v kit.View) {
	bad := func(what, exp, obs string) {
		k.Fail("wire/"+what, "encoded protobuf fields follow the options (v1 compatibility, embedded key)", exp, obs)
	}
	if len(v.Bytes[kit.FData]) == 0 || len(v.Bytes[kit.FSignatureV2]) == 0 {
		bad("v2-fields", "data and signatureV2 present", fmt.Sprintf("data %d bytes, signatureV2 %d bytes", len(v.Bytes[kit.FData]), len(v.Bytes[kit.FSignatureV2])))
	}
	if s.Embedded() != (len(v.Bytes[kit.FPubKey]) > 0) {
		bad("pubkey-presence", fmt.Sprintf("embedded=%v", s.Embedded()), fmt.Sprintf("pubKey %d bytes", len(v.Bytes[kit.FPubKey])))
	} else if s.Embedded() && !bytes.Equal(v.Bytes[kit.FPubKey], s.Key.PKBytes) {
		bad("pubkey-bytes", kit.Hex(s.Key.PKBytes), kit.Hex(v.Bytes[kit.FPubKey]))
	}
	if !s.V1 {
		for n := 1; n <= 6; n++ {
			if v.Has[n] {
				bad("v2only-has-legacy", "no legacy field", kit.FieldNames[n]+" present")
			}
		}
		return
	}
	if !v.Has[kit.FValue] || string(v.Bytes[kit.FValue]) != s.Value.String() {
		bad("legacy-value", s.Value.String(), string(v.Bytes[kit.FValue]))
	}
	if !v.Has[kit.FValidity] || string(v.Bytes[kit.FValidity]) != s.ValidityText() {
		bad("legacy-validity", s.ValidityText(), string(v.Bytes[kit.FValidity]))
	}
	if !v.Has[kit.FValidityType] || v.Int[kit.FValidityType] != 0 {
		bad("legacy-validityType", "0", fmt.Sprint(v.Int[kit.FValidityType]))
	}
	if !v.Has[kit.FSequence] || v.Int[kit.FSequence] != s.Seq {
		bad("legacy-sequence", fmt.Sprint(s.Seq), fmt.Sprint(v.Int[kit.FSequence]))
	}
	if !v.Has[kit.FTTL] || v.Int[kit.FTTL] != uint64(s.SignedTTL()) {
		bad("legacy-ttl", fmt.Sprint(uint64(s.SignedTTL())), fmt.Sprint(v.Int[kit.FTTL]))
	}
	if len(v.Bytes[kit.FSignatureV1]) == 0 {
		bad("legacy-signatureV1", "present", "absent")
	}
}

// signedDataChecks reads the signed CBOR document with the harness's own
// scanner: the five standard fields carry the inputs, metadata entries carry
// the given values, and the map is in DAG-CBOR canonical form (keys sorted by
// length then bytes, minimal heads), which is what lets any DAG-CBOR codec
// reproduce the signed bytes.
func signedDataChecks(k *vlib.Case, s *kit.Spec, data []byte) {
	bad := func(what, exp, obs string) {
		k.Fail("signed-data/"+what, "the signed DAG-CBOR document carries the inputs", exp, obs)
	}
	entries, minimal, err := scanCBORMap(data)
	if err != nil {
		bad("unreadable", "a CBOR map of scalars", err.Error()+" in "+kit.Hex(data))
		return
	}
	var keys []string
	got := map[string]cborVal{}
	for _, e := range entries {
		keys = append(keys, e.key)
		if _, dup := got[e.key]; dup {
			bad("duplicate-key", "unique keys", fmt.Sprintf("%q twice", e.key))
		}
		got[e.key] = e.val
	}
	canon := append([]string{}, keys...)
	sort.Slice(canon, func(i, j int) bool {
		if len(canon[i]) != len(canon[j]) {
			return len(canon[i]) < len(canon[j])
		}
		return canon[i] < canon[j]
	})
	if strings.Join(canon, "\x1f") != strings.Join(keys, "\x1f") || !minimal {
		bad("not-canonical", fmt.Sprintf("keys %q, minimal heads", canon), fmt.Sprintf("keys %q, minimal=%v", keys, minimal))
	}
	want := map[string]string{
		"Value":        "bytes:" + s.Value.String(),
		"Validity":     "bytes:" + s.ValidityText(),
		"ValidityType": "int:0",
		"Sequence":     fmt.Sprintf("uint64:%d", s.Seq),
		"TTL":          fmt.Sprintf("int:%d", int64(s.SignedTTL())),
	}
	for mk, mv := range s.Meta {
		switch x := mv.(type) {
		case string:
			want[mk] = "text:" + x
		case []byte:
			want[mk] = "bytes:" + string(x)
		case int64:
			want[mk] = fmt.Sprintf("int:%d", x)
		case int:
			want[mk] = fmt.Sprintf("int:%d", x)
		case bool:
			want[mk] = fmt.Sprintf("bool:%v", x)
		}
	}
	show := func(v cborVal) string {
		switch v.kind {
		case "int":
			return "int:" + v.decimal()
		case "bool":
			return fmt.Sprintf("bool:%v", v.boolv)
		}
		return v.kind + ":" + string(v.b)
	}
	for key, w := range want {
		g, ok := got[key]
		if !ok {
			bad(fieldClass(key), key+"="+clip(w), "absent")
		} else if key == "Sequence" {
			if g.kind != "int" || g.asUint64() != s.Seq {
				bad("Sequence", key+"="+w, key+"="+show(g))
			}
		} else if show(g) != w {
			bad(fieldClass(key), key+"="+clip(w), key+"="+clip(show(g)))
		}
	}
	for key := range got {
		if _, ok := want[key]; !ok {
			bad("extra-key", "only the standard fields and the given metadata", fmt.Sprintf("%q", key))
		}
	}
}

func fieldClass(key string) string {
	switch key {
	case "Value", "Validity", "ValidityType", "Sequence", "TTL":
		return key
	}
	return "metadata"
}

func clip(s string) string {
	if len(s) > 120 {
		return fmt.Sprintf("%q…(len %d)", s[:60], len(s))
	}
	return fmt.Sprintf("%q", s)
}

// ---------------------------------------------------------------- invalid metadata

type badKind struct {
	name string
	put  func(r *vlib.Rand, m map[string]any)
	want error // nil: any error
}

var reserved = []string{"Value", "Validity", "ValidityType", "Sequence", "TTL"}

var badKinds = []badKind{
	{"empty-key", func(r *vlib.Rand, m map[string]any) { m[""] = kit.GenMetaValue(r) }, ipns.ErrMetadataEmptyKey},
	{"reserved-key", func(r *vlib.Rand, m map[string]any) { m[vlib.Pick(r, reserved)] = kit.GenMetaValue(r) }, ipns.ErrMetadataConflict},
	{"nil-value", func(r *vlib.Rand, m map[string]any) { m["_nil"] = nil }, nil},
	{"unsupported-type", func(r *vlib.Rand, m map[string]any) {
		m["_bad"] = vlib.Pick(r, []any{1.5, float32(2), uint64(7), uint(7), int32(7), int8(1), uint8(1), []string{"a"}, []int{1}, map[string]any{"a": 1}, struct{}{}, new(int), time.Second, time.Unix(0, 0), [2]byte{1, 2}, 'x', complex(1, 1), errors.New("e")})
	}, ipns.ErrMetadataUnsupportedType},
}

func badMeta(k *vlib.Case) {
	r := k.R
	ks := kit.Keys(k.C.Seed)
	key := vlib.Pick(r, ks)
	s := kit.GenSpec(r, ks, key, true)
	m := kit.GenMeta(r, 4)
	if m == nil {
		m = map[string]any{}
	}
	nValid := len(m)
	var kinds []badKind
	for i, n := 0, r.Range(1, 2); i < n; i++ {
		bk := vlib.Pick(r, badKinds)
		bk.put(r, m)
		kinds = append(kinds, bk)
	}
	s.Meta = m
	var names []string
	for _, bk := range kinds {
		names = append(names, bk.name)
	}
	k.Logf("NewRecord with invalid metadata [%s]: %s", strings.Join(names, ","), describeBad(s))
	rec, err := s.New()
	if err == nil || rec != nil {
		k.Fail("bad-metadata-accepted/"+strings.Join(names, "+"), "invalid metadata keys or types are rejected at creation", "an error and no record", fmt.Sprintf("rec!=nil:%v err=%v", rec != nil, err))
		return
	}
	if len(kinds) == 1 {
		k.Logf("   -> error: %v", errClass(err))
	} else {
		k.Logf("   -> error") // which entry is reported first depends on map iteration order
	}
	okClass := false
	for _, bk := range kinds {
		if bk.want == nil || errors.Is(err, bk.want) {
			okClass = true
		}
	}
	if !okClass {
		k.Fail("bad-metadata-wrong-error/"+strings.Join(names, "+"), "the error is the documented one for (one of) the invalid entries", "one of the documented sentinels", err.Error())
	}
	if nValid > 0 {
		k.Nontrivial()
	}
}

func errClass(err error) string {
	switch {
	case errors.Is(err, ipns.ErrMetadataEmptyKey):
		return "ErrMetadataEmptyKey"
	case errors.Is(err, ipns.ErrMetadataConflict):
		return "ErrMetadataConflict"
	case errors.Is(err, ipns.ErrMetadataUnsupportedType):
		return "ErrMetadataUnsupportedType"
	case errors.Is(err, ipns.ErrInvalidRecord):
		return "ErrInvalidRecord"
	}
	return "other"
}

func describeBad(s *kit.Spec) string {
	// %T-based rendering; values of unsupported types are shown by type only
	var parts []string
	for mk, mv := range s.Meta {
		parts = append(parts, fmt.Sprintf("%q:%T", mk, mv))
	}
	sort.Strings(parts)
	return fmt.Sprintf("key=%s seq=%d v1=%v meta={%s}", s.Key.ID, s.Seq, s.V1, strings.Join(parts, ", "))
}
