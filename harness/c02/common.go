package main

import (
	"context"
	"fmt"
	"strings"

	bstore "github.com/ipfs/boxo/blockstore"
	blocks "github.com/ipfs/go-block-format"
	cid "github.com/ipfs/go-cid"
	ds "github.com/ipfs/go-datastore"
	dsq "github.com/ipfs/go-datastore/query"
	dssync "github.com/ipfs/go-datastore/sync"
	ipld "github.com/ipfs/go-ipld-format"
	mh "github.com/multiformats/go-multihash"

	"verif/vlib"
)

type cidForm struct {
	name string
	mk   func(data []byte) cid.Cid
}

func sum(code uint64, data []byte) mh.Multihash {
	h, err := mh.Sum(data, code, -1)
	if err != nil {
		panic(err)
	}
	return h
}

// Only honest blocks are used (bytes hash to the multihash), so the bytes and
// the size under a multihash never change and "what the uncached store
// answers" does not depend on WriteThrough.
var forms = []cidForm{
	{"v0", func(d []byte) cid.Cid { return cid.NewCidV0(sum(mh.SHA2_256, d)) }},
	{"v1pb", func(d []byte) cid.Cid { return cid.NewCidV1(cid.DagProtobuf, sum(mh.SHA2_256, d)) }},
	{"v1raw", func(d []byte) cid.Cid { return cid.NewCidV1(cid.Raw, sum(mh.SHA2_256, d)) }},
	{"v1raw-blake2b", func(d []byte) cid.Cid { return cid.NewCidV1(cid.Raw, sum(mh.BLAKE2B_MIN+31, d)) }},
	{"v1cbor-sha512", func(d []byte) cid.Cid { return cid.NewCidV1(cid.DagCBOR, sum(mh.SHA2_512, d)) }},
	{"id-raw", func(d []byte) cid.Cid { return cid.NewCidV1(cid.Raw, sum(mh.IDENTITY, d)) }},
}

// viewBS gives the uncached blockstore a Viewer (the default blockstore has
// none), so that the View paths of both cache layers are exercised. It keeps
// AllKeysChanWithErr, which the Bloom build needs to see truncation.
type viewBS struct{ bstore.Blockstore }

func (v viewBS) View(ctx context.Context, c cid.Cid, cb func([]byte) error) error {
	blk, err := v.Blockstore.Get(ctx, c)
	if err != nil {
		return err
	}
	return cb(blk.RawData())
}

func (v viewBS) AllKeysChanWithErr(ctx context.Context) (<-chan cid.Cid, func() error, error) {
	return v.Blockstore.(bstore.AllKeysChanWithErrer).AllKeysChanWithErr(ctx)
}

// stackCfg is the configuration of one cached stack.
type stackCfg struct {
	writeThrough bool
	noPrefix     bool
	viewer       bool
	tqSize       int // 0 = no two-queue layer
	bloomBytes   int // 0 = no Bloom layer
	bloomHashes  int
	twoCalls     bool // build the two layers with two CachedBlockstore calls (gives a handle on the 2Q layer)
}

func (c stackCfg) String() string {
	return fmt.Sprintf("writeThrough=%v noPrefix=%v viewer=%v 2Q=%d bloom=%dB/%dh twoCalls=%v",
		c.writeThrough, c.noPrefix, c.viewer, c.tqSize, c.bloomBytes, c.bloomHashes, c.twoCalls)
}

func (c stackCfg) layers() string {
	switch {
	case c.tqSize > 0 && c.bloomBytes > 0:
		return "tq+bloom"
	case c.tqSize > 0:
		return "tq"
	case c.bloomBytes > 0:
		return "bloom"
	}
	return "none"
}

func (c stackCfg) bsOpts() []bstore.Option {
	var o []bstore.Option
	if c.writeThrough {
		o = append(o, bstore.WriteThrough(true))
	}
	if c.noPrefix {
		o = append(o, bstore.NoPrefix())
	}
	return o
}

// stack is a cached blockstore together with handles below it.
type stack struct {
	cfg    stackCfg
	raw    *dssync.MutexDatastore // the bytes that are really stored
	fds    *faultDS               // raw + faults/delays: what the blockstore under the caches talks to
	inner  bstore.Blockstore      // uncached blockstore over fds (what the caches wrap)
	ref    bstore.Blockstore      // uncached blockstore over raw: "direct query of the backing store"
	tq     bstore.Blockstore      // the 2Q layer alone (nil unless twoCalls)
	top    bstore.Blockstore      // the cached store under test
	status bstore.BloomCacheStatus
}

func newBacking(cfg stackCfg, delay *delayCfg) *stack {
	s := &stack{cfg: cfg}
	s.raw = dssync.MutexWrap(ds.NewMapDatastore())
	s.fds = &faultDS{under: s.raw, delay: delay}
	s.inner = bstore.NewBlockstore(s.fds, cfg.bsOpts()...)
	s.ref = bstore.NewBlockstore(s.raw, cfg.bsOpts()...)
	if cfg.viewer {
		s.inner = viewBS{s.inner}
		s.ref = viewBS{s.ref}
	}
	return s
}

// wrap builds the cache layers; buildCtx is the context of the initial Bloom build.
func (s *stack) wrap(buildCtx context.Context) error {
	cfg := s.cfg
	var err error
	if cfg.twoCalls && cfg.tqSize > 0 && cfg.bloomBytes > 0 {
		s.tq, err = bstore.CachedBlockstore(buildCtx, s.inner, bstore.CacheOpts{HasTwoQueueCacheSize: cfg.tqSize})
		if err != nil {
			return err
		}
		s.top, err = bstore.CachedBlockstore(buildCtx, s.tq, bstore.CacheOpts{HasBloomFilterSize: cfg.bloomBytes, HasBloomFilterHashes: cfg.bloomHashes})
	} else {
		s.top, err = bstore.CachedBlockstore(buildCtx, s.inner, bstore.CacheOpts{
			HasTwoQueueCacheSize: cfg.tqSize, HasBloomFilterSize: cfg.bloomBytes, HasBloomFilterHashes: cfg.bloomHashes})
	}
	if err != nil {
		return err
	}
	if cfg.bloomBytes > 0 {
		st, ok := s.top.(bstore.BloomCacheStatus)
		if !ok {
			return fmt.Errorf("cached store with a Bloom layer does not implement BloomCacheStatus")
		}
		s.status = st
	}
	return nil
}

// copyInto replaces dst's content by a copy of src's.
func copyDS(ctx context.Context, src, dst ds.Datastore) {
	res, err := dst.Query(ctx, dsq.Query{KeysOnly: true})
	if err != nil {
		panic(err)
	}
	old, _ := res.Rest()
	for _, e := range old {
		dst.Delete(ctx, ds.RawKey(e.Key))
	}
	res, err = src.Query(ctx, dsq.Query{})
	if err != nil {
		panic(err)
	}
	all, _ := res.Rest()
	for _, e := range all {
		dst.Put(ctx, ds.RawKey(e.Key), e.Value)
	}
}

func randCfg(r *vlib.Rand, needBloom bool) stackCfg {
	cfg := stackCfg{writeThrough: r.Bool(), noPrefix: r.Chance(1, 4), viewer: r.Bool()}
	tqSizes := []int{2, 2, 3, 4, 5, 8, 16, 33, 64}
	bloomBytes := []int{1, 2, 3, 7, 16, 64, 64, 100, 512, 4096}
	switch r.Intn(5) {
	case 0:
		cfg.tqSize = vlib.Pick(r, tqSizes)
	case 1:
		cfg.bloomBytes = vlib.Pick(r, bloomBytes)
	default:
		cfg.tqSize = vlib.Pick(r, tqSizes)
		cfg.bloomBytes = vlib.Pick(r, bloomBytes)
	}
	if needBloom && cfg.bloomBytes == 0 {
		cfg.bloomBytes = vlib.Pick(r, bloomBytes)
	}
	if cfg.bloomBytes > 0 {
		cfg.bloomHashes = r.Range(1, 7)
	}
	return cfg
}

// readOut is the observable result of one read through a blockstore.
type readOut struct {
	present bool
	size    int    // Get/GetSize/View
	bytes   string // Get/View
	cidOK   bool   // Get: block carries the requested CID
	errCls  string // "", "notfound", "other:<text>"
	cbErr   bool   // View: callback error came back
}

func errClass(err error) string {
	switch {
	case err == nil:
		return ""
	case ipld.IsNotFound(err):
		return "notfound"
	}
	return "other:" + err.Error()
}

var errCallback = fmt.Errorf("verif-c02: callback error")

// doRead performs one read operation kind on bs.
func doRead(ctx context.Context, bs bstore.Blockstore, kind string, c cid.Cid, cbFails bool) readOut {
	var o readOut
	switch kind {
	case "Has":
		has, err := bs.Has(ctx, c)
		o.present, o.errCls = has, errClass(err)
	case "GetSize":
		n, err := bs.GetSize(ctx, c)
		o.errCls = errClass(err)
		if err == nil {
			o.present, o.size = true, n
		} else {
			o.size = n
		}
	case "Get":
		blk, err := bs.Get(ctx, c)
		o.errCls = errClass(err)
		if err == nil {
			o.present = true
			o.size = len(blk.RawData())
			o.bytes = string(blk.RawData())
			o.cidOK = blk.Cid().Equals(c)
		}
	case "View":
		called := false
		v, ok := bs.(bstore.Viewer)
		if !ok {
			v = viewBS{bs} // uncached store without a Viewer: View is Get + callback (what the cache layers do themselves)
		}
		err := v.View(ctx, c, func(b []byte) error {
			called = true
			o.size = len(b)
			o.bytes = string(b)
			if cbFails {
				return errCallback
			}
			return nil
		})
		if called && cbFails {
			o.present = true
			o.cbErr = err == errCallback || (err != nil && strings.Contains(err.Error(), errCallback.Error()))
			if !o.cbErr {
				o.errCls = "callback-error-lost:" + fmt.Sprint(err)
			}
		} else {
			o.errCls = errClass(err)
			o.present = called
			if called != (err == nil) {
				o.errCls = fmt.Sprintf("view-inconsistent(called=%v err=%v)", called, err)
			}
		}
	default:
		panic("unknown read kind " + kind)
	}
	return o
}

func (o readOut) String() string {
	if o.errCls != "" && o.errCls != "notfound" {
		return "error(" + o.errCls + ")"
	}
	if !o.present {
		if o.errCls == "notfound" {
			return "absent(ErrNotFound)"
		}
		return "absent"
	}
	return fmt.Sprintf("present(size=%d)", o.size)
}

func mkBlock(data []byte, c cid.Cid) blocks.Block {
	b, err := blocks.NewBlockWithCid(data, c)
	if err != nil {
		panic(err)
	}
	return b
}

func short(c cid.Cid) string {
	if !c.Defined() {
		return "cid.Undef"
	}
	s := c.String()
	if len(s) > 14 {
		s = s[:6] + ".." + s[len(s)-6:]
	}
	return s
}
