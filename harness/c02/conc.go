package main

import (
	"context"
	"fmt"
	"os"
	"runtime"
	"sort"
	"strings"
	"sync"
	"sync/atomic"
	"time"

	"github.com/anishathalye/porcupine"
	bstore "github.com/ipfs/boxo/blockstore"
	"github.com/ipfs/boxo/datastore/dshelp"
	blocks "github.com/ipfs/go-block-format"
	cid "github.com/ipfs/go-cid"
	ds "github.com/ipfs/go-datastore"

	"verif/vhist"
	"verif/vlib"
)

// ev is one client-boundary operation (or a build) with its interval on the
// shared logical clock.
type ev struct {
	client  int
	kind    string // Put PutMany Delete Has Get GetSize View | Rebuild InitialBuild
	keys    []int
	call    int64
	ret     int64
	present bool   // reads
	err     string // unexpected error / value mismatch
	q       int64  // builds: clock value at the entry of the enumeration's Query (0 = none)
	s       int64  // builds: clock value right after the enumeration's snapshot was taken
}

// dsWrite is one write as seen by the backing datastore: it became visible
// to enumerations and direct reads at some instant in (pre, post).
type dsWrite struct {
	key       int
	del       bool
	pre, post int64
}

// dsTap stamps datastore-level events on the history clock.
type dsTap struct {
	clock    *atomic.Int64
	suffixes []string // datastore key suffix of each key
	lastQ    atomic.Int64
	lastS    atomic.Int64
	firstQ   atomic.Int64 // stamps of the first Query ever issued (the initial build's when nothing else enumerates before it)
	firstS   atomic.Int64
	first    chan struct{} // closed when the first Query was entered
	once     sync.Once
	mu       sync.Mutex
	writes   []dsWrite
}

func newTap(clock *atomic.Int64, keys concKeys, fds *faultDS) *dsTap {
	t := &dsTap{clock: clock, first: make(chan struct{})}
	for _, c := range keys.cids {
		t.suffixes = append(t.suffixes, dshelp.MultihashToDsKey(c.Hash()).String())
	}
	fds.onQuery = func() {
		v := clock.Add(1)
		t.lastQ.Store(v)
		t.firstQ.CompareAndSwap(0, v)
		t.once.Do(func() { close(t.first) })
	}
	fds.onSnapshot = func() {
		v := clock.Add(1)
		t.lastS.Store(v)
		t.firstS.CompareAndSwap(0, v)
	}
	fds.onWrite = func(k ds.Key, del bool) func() {
		ks := k.String()
		idx := -1
		for i, suf := range t.suffixes {
			if strings.HasSuffix(ks, suf) {
				idx = i
				break
			}
		}
		if idx < 0 {
			return func() {}
		}
		w := dsWrite{key: idx, del: del, pre: clock.Add(1)}
		return func() {
			w.post = clock.Add(1)
			t.mu.Lock()
			t.writes = append(t.writes, w)
			t.mu.Unlock()
		}
	}
	return t
}

func (e ev) isRead() bool {
	return e.kind == "Has" || e.kind == "Get" || e.kind == "GetSize" || e.kind == "View"
}
func (e ev) isPut() bool   { return e.kind == "Put" || e.kind == "PutMany" }
func (e ev) isBuild() bool { return e.kind == "Rebuild" || e.kind == "InitialBuild" }
func (e ev) hasKey(k int) bool {
	for _, x := range e.keys {
		if x == k {
			return true
		}
	}
	return false
}

func (e ev) String() string {
	ks := make([]string, len(e.keys))
	for i, x := range e.keys {
		ks[i] = fmt.Sprintf("k%d", x)
	}
	out := "ok"
	if e.isRead() {
		out = "absent"
		if e.present {
			out = "present"
		}
	}
	if e.isBuild() {
		out = fmt.Sprintf("ok query-entry=%d snapshot-taken-by=%d", e.q, e.s)
	}
	if e.err != "" {
		out = "ERR " + e.err
	}
	return fmt.Sprintf("c%d %s(%s) [%d,%d] -> %s", e.client, e.kind, strings.Join(ks, ","), e.call, e.ret, out)
}

type planned struct {
	kind string
	keys []int
}

type concMode struct {
	name   string
	bloom  bool // stack contains the Bloom layer (and a Rebuild goroutine runs)
	hammer bool // read-only keys, tight Rebuild loop, no datastore delays
}

func concCase(mode concMode) func(k *vlib.Case) {
	return func(k *vlib.Case) {
		vlib.Guard(k, mode.name, 180*time.Second, func() {
			if mode.hammer {
				runHammer(k, mode)
			} else {
				runConc(k, mode)
			}
		})
	}
}

type concKeys struct {
	cids     []cid.Cid
	payloads [][]byte
	blks     []blocks.Block
}

func mkKeys(r *vlib.Rand, n int) concKeys {
	var ks concKeys
	for i := 0; i < n; i++ {
		p := append([]byte(fmt.Sprintf("key-%d-", i)), r.Bytes(r.Range(1, 40))...)
		c := forms[r.Intn(5)].mk(p)
		ks.cids = append(ks.cids, c)
		ks.payloads = append(ks.payloads, p)
		ks.blks = append(ks.blks, mkBlock(p, c))
	}
	return ks
}

func concCfg(r *vlib.Rand, bloom bool) stackCfg {
	cfg := stackCfg{writeThrough: r.Bool(), noPrefix: r.Chance(1, 4), viewer: r.Bool()}
	if bloom {
		cfg.bloomBytes = vlib.Pick(r, []int{1, 8, 64, 512, 4096})
		cfg.bloomHashes = r.Range(1, 7)
		if r.Chance(2, 3) {
			cfg.tqSize = vlib.Pick(r, []int{2, 3, 4, 8, 64})
		}
	} else {
		cfg.tqSize = vlib.Pick(r, []int{2, 2, 3, 4, 8, 64})
	}
	return cfg
}

func runConc(k *vlib.Case, mode concMode) {
	r := k.R
	ctx := context.Background()
	cfg := concCfg(r, mode.bloom)
	delay := &delayCfg{seed: r.Uint64(), num: uint64(r.Range(3, 10)), maxUS: vlib.Pick(r, []int{20, 60, 200}), slowEnum: mode.bloom && r.Bool()}
	nkeys := r.Range(2, 5)
	keys := mkKeys(r, nkeys)
	nworkers := r.Range(3, 8)
	k.Logf("config %s delay=%d/16 max=%dus slowEnum=%v keys=%d workers=%d", cfg, delay.num, delay.maxUS, delay.slowEnum, nkeys, nworkers)

	s := newBacking(cfg, delay)
	initial := make([]bool, nkeys)
	var pre []string
	for i := range initial {
		if r.Chance(1, 3) {
			initial[i] = true
			if err := s.ref.Put(ctx, keys.blks[i]); err != nil {
				panic(err)
			}
			pre = append(pre, fmt.Sprintf("k%d", i))
		}
	}
	nfill := r.Range(0, 25)
	for i := 0; i < nfill; i++ {
		d := r.Bytes(r.Range(1, 30))
		s.ref.Put(ctx, mkBlock(d, forms[2].mk(d)))
	}
	inFlightStart := mode.bloom && r.Bool()
	// Half of those runs also let the Rebuild loop start while the initial
	// build is still inside its (then deliberately slow) enumeration.
	rebuildEarly := inFlightStart && r.Bool()
	if rebuildEarly {
		delay.slowEnum = true
		if delay.num < 8 {
			delay.num = 8
		}
		for i := 0; i < 30; i++ {
			d := r.Bytes(r.Range(1, 30))
			s.ref.Put(ctx, mkBlock(d, forms[2].mk(d)))
		}
		nfill += 30
	}
	// Sentinels: stored before the cache exists, never written by anybody;
	// one goroutine reads them for the whole run.
	sent := mkKeys(r, r.Range(1, 2))
	for _, b := range sent.blks {
		if err := s.ref.Put(ctx, b); err != nil {
			panic(err)
		}
	}
	k.Logf("initially present: [%s], %d filler blocks, %d sentinel keys (pre-existing, never written, read throughout), workers start while the initial build runs: %v, Rebuild loop starts while the initial build enumerates: %v",
		strings.Join(pre, " "), nfill, len(sent.cids), inFlightStart, rebuildEarly)

	// per-worker plans
	kinds := []string{"Put", "Put", "Put", "PutMany", "Delete", "Delete", "Delete", "Has", "Has", "Get", "GetSize", "View"}
	plans := make([][]planned, nworkers)
	for wi := range plans {
		n := r.Range(20, 60)
		var sb strings.Builder
		for j := 0; j < n; j++ {
			p := planned{kind: vlib.Pick(r, kinds)}
			if p.kind == "PutMany" {
				m := r.Range(2, 3)
				for x := 0; x < m; x++ {
					p.keys = append(p.keys, r.Intn(nkeys))
				}
			} else {
				p.keys = []int{r.Intn(nkeys)}
			}
			plans[wi] = append(plans[wi], p)
			fmt.Fprintf(&sb, " %s%v", p.kind, p.keys)
		}
		k.Logf("worker %d:%s", wi, sb.String())
	}

	var clock atomic.Int64
	tap := newTap(&clock, keys, s.fds)

	buildCall := clock.Add(1)
	if err := s.wrap(ctx); err != nil {
		k.Fail("conc/construct-error/"+cfg.layers(), "CachedBlockstore succeeds", "nil", err.Error())
		return
	}
	var builds []ev
	if s.status != nil && !inFlightStart {
		err := s.status.Wait(ctx)
		e := ev{client: -1, kind: "InitialBuild", call: buildCall, ret: clock.Add(1), q: tap.firstQ.Load(), s: tap.firstS.Load()}
		if err != nil {
			e.err = err.Error()
		}
		builds = append(builds, e)
	}

	var wg sync.WaitGroup
	logs := make([][]ev, nworkers)
	for wi := 0; wi < nworkers; wi++ {
		wg.Add(1)
		go func(wi int) {
			defer wg.Done()
			for _, p := range plans[wi] {
				logs[wi] = append(logs[wi], execOp(ctx, s.top, &clock, wi, p, keys))
			}
		}(wi)
	}
	var stop atomic.Bool
	var bwg sync.WaitGroup
	var bmu sync.Mutex
	// sentinel reader
	var sentBad []ev
	var sentReads int64
	bwg.Add(1)
	go func() {
		defer bwg.Done()
		kindsOf := []string{"Has", "GetSize", "Get", "View"}
		for i := 0; i < 3000 && !stop.Load(); i++ {
			p := planned{kind: kindsOf[i%4], keys: []int{(i / 4) % len(sent.cids)}}
			e := execOp(ctx, s.top, &clock, 100, p, sent)
			sentReads++
			if !e.present || e.err != "" {
				sentBad = append(sentBad, e)
			}
			runtime.Gosched()
		}
	}()
	if s.status != nil {
		waitInitial := func() {
			err := s.status.Wait(ctx)
			e := ev{client: -1, kind: "InitialBuild", call: buildCall, ret: clock.Add(1), q: tap.firstQ.Load(), s: tap.firstS.Load()}
			if err != nil {
				e.err = err.Error()
			}
			bmu.Lock()
			builds = append(builds, e)
			bmu.Unlock()
		}
		if rebuildEarly {
			bwg.Add(1)
			go func() { defer bwg.Done(); waitInitial() }()
		}
		bwg.Add(1)
		pauseSeed := r.Uint64()
		go func() {
			defer bwg.Done()
			if rebuildEarly {
				<-tap.first // the initial build has issued its Query: it is enumerating now
			} else if inFlightStart {
				waitInitial()
			}
			for i := uint64(0); !stop.Load(); i++ {
				h := mix(pauseSeed + i)
				if h%3 != 0 {
					time.Sleep(time.Duration(h>>8%300) * time.Microsecond)
				}
				e := ev{client: -1, kind: "Rebuild", call: clock.Add(1)}
				tap.lastQ.Store(0)
				tap.lastS.Store(0)
				err := s.status.Rebuild(ctx)
				e.q, e.s = tap.lastQ.Load(), tap.lastS.Load()
				e.ret = clock.Add(1)
				if err != nil {
					e.err = err.Error()
				}
				bmu.Lock()
				builds = append(builds, e)
				bmu.Unlock()
			}
		}()
	}
	wg.Wait()
	stop.Store(true)
	bwg.Wait()
	s.fds.onWrite = nil // the quiescent checks below are not part of the history
	sort.Slice(builds, func(i, j int) bool { return builds[i].call < builds[j].call })
	k.C.Count("sentinel_reads", sentReads)
	if rebuildEarly {
		k.C.Count("conc_runs_with_rebuild_during_initial_build", 1)
	}
	for i, e := range sentBad {
		if i >= 3 {
			break
		}
		if e.err != "" {
			k.Fail("conc/wrong-value/"+e.kind+"/"+cfg.layers(), "operations succeed and return the stored block", "no error, stored bytes", e.String())
			continue
		}
		var nb []ev
		for _, b := range builds {
			if b.ret >= e.call-40 && b.call <= e.ret {
				nb = append(nb, b)
			}
		}
		k.Fail("rt/preexisting-missing/"+cfg.layers(), "a key stored before the cache was constructed and never deleted is never reported missing",
			"present", fmt.Sprintf("%s   (sentinel key, no write was ever issued on it; %d sentinel reads, %d reported it missing)\nfilter builds around the read:\n%s", e, sentReads, len(sentBad), dump(nb)))
	}

	var all []ev
	for _, l := range logs {
		all = append(all, l...)
	}
	sort.Slice(all, func(i, j int) bool { return all[i].call < all[j].call })
	k.C.Count("conc_events", int64(len(all)))
	k.C.Count("conc_rebuilds", int64(len(builds)))
	k.C.Count("conc_datastore_writes_stamped", int64(len(tap.writes)))

	analyse(k, cfg, mode, all, builds, tap.writes, initial, nkeys)

	// quiescent end state
	finalCheck(k, ctx, s, keys, "conc/final-state")
	if s.status != nil && !k.Failed() {
		if err := s.status.Rebuild(ctx); err != nil {
			k.Fail("conc/rebuild-error", "Rebuild succeeds without faults", "nil", err.Error())
		}
		finalCheck(k, ctx, s, keys, "conc/final-after-rebuild")
	}
}

func finalCheck(k *vlib.Case, ctx context.Context, s *stack, keys concKeys, class string) {
	for i, c := range keys.cids {
		for _, kind := range []string{"Has", "GetSize"} {
			got := doRead(ctx, s.top, kind, c, false)
			want := doRead(ctx, s.ref, kind, c, false)
			if d := diffRead(kind, got, want); d != "" {
				k.Fail(class+"/"+d+"/"+s.cfg.layers(), "after all calls returned, cached answer == direct query of the backing store",
					fmt.Sprintf("%s(k%d) = %s", kind, i, want), got.String())
			}
		}
	}
}

func execOp(ctx context.Context, bs bstore.Blockstore, clock *atomic.Int64, client int, p planned, keys concKeys) ev {
	e := ev{client: client, kind: p.kind, keys: p.keys}
	k0 := p.keys[0]
	e.call = clock.Add(1)
	switch p.kind {
	case "Put":
		if err := bs.Put(ctx, keys.blks[k0]); err != nil {
			e.err = err.Error()
		}
	case "PutMany":
		var bl []blocks.Block
		for _, x := range p.keys {
			bl = append(bl, keys.blks[x])
		}
		if err := bs.PutMany(ctx, bl); err != nil {
			e.err = err.Error()
		}
	case "Delete":
		if err := bs.DeleteBlock(ctx, keys.cids[k0]); err != nil {
			e.err = err.Error()
		}
	default:
		o := doRead(ctx, bs, p.kind, keys.cids[k0], false)
		e.ret = clock.Add(1)
		e.present = o.present
		switch {
		case o.errCls != "" && o.errCls != "notfound":
			e.err = o.errCls
		case o.present && p.kind != "Has" && o.size != len(keys.payloads[k0]):
			e.err = fmt.Sprintf("size %d, stored block has %d bytes", o.size, len(keys.payloads[k0]))
		case o.present && (p.kind == "Get" || p.kind == "View") && o.bytes != string(keys.payloads[k0]):
			e.err = "bytes differ from the stored block"
		case o.present && p.kind == "Get" && !o.cidOK:
			e.err = "returned block carries another CID"
		}
		return e
	}
	e.ret = clock.Add(1)
	return e
}

// ---------------------------------------------------------------- analysis

type regIn struct {
	op       int // 0 put, 1 delete, 2 read
	wildcard bool
}

// classSwap names every observation explained by the hasCached load-order window.
const classSwap = "bloom/swap-window-negative"

// state: bit0 = "absent" possible, bit1 = "present" possible.
func regModel(relaxed bool, initial bool) porcupine.Model {
	return porcupine.Model{
		Init: func() interface{} {
			if initial {
				return uint8(2)
			}
			return uint8(1)
		},
		Step: func(state, input, output interface{}) (bool, interface{}) {
			st := state.(uint8)
			in := input.(regIn)
			switch in.op {
			case 0:
				return true, uint8(2)
			case 1:
				if relaxed && in.wildcard {
					return true, st | 1 // deleted, or a no-op answered from a Bloom negative
				}
				return true, uint8(1)
			}
			present := output.(bool)
			if relaxed && in.wildcard && !present {
				return true, st
			}
			bit := uint8(1)
			if present {
				bit = 2
			}
			if st&bit == 0 {
				return false, st
			}
			return true, st & bit
		},
		Equal: func(a, b interface{}) bool { return a.(uint8) == b.(uint8) },
	}
}

func overlap(a, b ev) bool { return a.call < b.ret && b.call < a.ret }

func analyse(k *vlib.Case, cfg stackCfg, mode concMode, all, builds []ev, writes []dsWrite, initial []bool, nkeys int) {
	c := k.C
	layers := cfg.layers()
	// unexpected errors / wrong values
	for _, e := range append(append([]ev(nil), all...), builds...) {
		if e.err != "" {
			cl := "conc/unexpected-error/" + e.kind
			if e.isRead() && !strings.HasPrefix(e.err, "other:") {
				cl = "conc/wrong-value/" + e.kind
			}
			k.Fail(cl+"/"+layers, "operations succeed and return the stored block", "no error, stored bytes", e.String())
		}
	}
	if k.Failed() {
		return
	}
	// shape, concurrency
	var sb strings.Builder
	type pt struct {
		t   int64
		txt string
	}
	var pts []pt
	ops := make([]porcupine.Operation, 0, len(all))
	for _, e := range all {
		pts = append(pts, pt{e.call, "C" + e.kind + fmt.Sprint(e.keys)}, pt{e.ret, fmt.Sprintf("R%v", e.present)})
		ops = append(ops, porcupine.Operation{Call: e.call, Return: e.ret})
	}
	sort.Slice(pts, func(i, j int) bool { return pts[i].t < pts[j].t })
	for _, p := range pts {
		sb.WriteString(p.txt)
		sb.WriteByte(' ')
	}
	k.SetShape(sb.String())
	c.Max("max_concurrency", int64(vhist.MaxConcurrency(ops)))
	for i, e := range all {
		if i >= 14 {
			k.Logf("observed: … %d more operations, %d filter builds, %d stamped datastore writes", len(all)-i, len(builds), len(writes))
			break
		}
		k.Logf("observed: %s", e)
	}

	nontrivial := false
	for key := 0; key < nkeys; key++ {
		var part []ev
		for _, e := range all {
			if e.hasKey(key) {
				part = append(part, e)
			}
		}
		// overlapping pair including a write
		for i := range part {
			for j := i + 1; j < len(part) && part[j].call < part[i].ret; j++ {
				if !part[i].isRead() || !part[j].isRead() {
					nontrivial = true
					c.Count("overlapping_pairs_with_write", 1)
				}
			}
		}
		var puts, dels []ev
		if initial[key] {
			puts = append(puts, ev{kind: "Put", call: 0, ret: 0})
		}
		for _, e := range part {
			if e.isPut() {
				puts = append(puts, e)
			} else if e.kind == "Delete" {
				dels = append(dels, e)
			}
		}
		// Relaxed models, used only to classify a history that is NOT
		// linearizable (the strict check decides). Eligibility is decided from
		// datastore-level stamps, not guessed:
		//  A  "Bloom negative while a Put is in flight": the Put's datastore write
		//     landed after the snapshot of a filter build; until the Put reaches
		//     its AddTS the activated filter lacks the key. An absent-read (or a
		//     DeleteBlock, which is then a no-op) that overlaps that Put is eligible.
		//  B  "Bloom negative while a Delete is in flight" (needs the 2Q layer):
		//     the Delete's datastore write landed before the snapshot of a build
		//     taken while the Delete had not yet returned (the 2Q entry still says
		//     present, so Has/GetSize answer present and Put is skipped). An
		//     absent-read, or a second DeleteBlock (answered from the Bloom negative,
		//     i.e. a no-op that returns while the first is still in flight), that
		//     overlaps that Delete is eligible.
		eligA := func(e ev) bool {
			for _, p := range puts {
				if p.ret == 0 || !overlap(p, e) {
					continue
				}
				for _, w := range writes {
					if w.key != key || w.del || !(p.call < w.pre && w.post < p.ret && w.pre < e.ret) {
						continue
					}
					ok := false
					for _, b := range builds {
						if b.q != 0 && b.q < w.post && b.q < e.ret {
							ok = true
						}
					}
					for _, b := range builds {
						if b.q > w.post && b.ret < e.call {
							ok = false // a later build enumerated the key and finished before e began
						}
					}
					if ok {
						return true
					}
				}
			}
			return false
		}
		eligB := func(e ev) bool {
			if cfg.tqSize == 0 || cfg.bloomBytes == 0 {
				return false
			}
			for _, d := range dels {
				if !overlap(d, e) || (d.call == e.call && d.client == e.client) {
					continue // (an operation is never excused by itself)
				}
				for _, w := range writes {
					if w.key != key || !w.del || !(d.call < w.pre && w.post < d.ret) {
						continue
					}
					for _, b := range builds {
						if b.s != 0 && w.pre < b.s && b.q < d.ret && b.q < e.ret {
							return true
						}
					}
				}
			}
			return false
		}
		//  S  "swap window" (bloomcache.hasCached loads the active flag before the
		//     filter pointer): an absent-read or a DeleteBlock that was called
		//     before the Query of a Rebuild was issued and returned after that
		//     Rebuild was called may have consulted the new, still empty filter.
		eligS := func(e ev) bool {
			if cfg.bloomBytes == 0 {
				return false
			}
			for _, b := range builds {
				if b.kind == "Rebuild" && b.q != 0 && b.call < e.ret && e.call < b.q {
					return true
				}
			}
			return false
		}
		type relax struct {
			s, a, b bool
			class   string
		}
		// tried in this order; the first that explains the observation names the class
		// (S last: while Rebuild loops, many operations straddle some Rebuild's
		// start, so S could explain an A/B history by coincidence; A and B are
		// pinned down by datastore stamps)
		relaxations := []relax{
			{false, true, false, "bloom/negative-while-put-in-flight"},
			{false, false, true, "bloom/negative-while-delete-in-flight"},
			{false, true, true, "bloom/negative-while-put-and-delete-in-flight"},
			{true, false, false, classSwap},
			{true, true, true, "bloom/swap-window-and-in-flight-write"},
		}
		excused := func(r relax, e ev) bool {
			return (r.s && eligS(e)) || (r.a && eligA(e)) || (r.b && eligB(e))
		}
		// ---- real-time monitor (headline clause and its dual)
		for _, rd := range part {
			if !rd.isRead() {
				continue
			}
			c.Count("rt_reads_checked", 1)
			if !rd.present {
				for _, p := range puts {
					if p.ret >= rd.call {
						continue
					}
					shadow := false
					for _, d := range dels {
						if d.ret > p.call && d.call < rd.ret {
							shadow = true
							break
						}
					}
					if shadow {
						continue
					}
					// Only the swap window can excuse a missing returned Put (A and B
					// need an in-flight write of the key, which this clause excludes).
					cl := "rt/missing-after-put/" + layers
					if eligS(rd) {
						cl = classSwap
					}
					k.Fail(cl, "a key whose Put returned before the read was called, with no Delete overlapping or in between, is not reported missing",
						"present", fmt.Sprintf("%s   (after %s)\n%s", rd, p, windowDump(part, builds, writes, key, p.call, rd.ret)))
					break
				}
			} else {
				// explain: some Put could precede the read with no completed Delete
				// in between. Under a relaxation, completed Deletes that the stamps
				// show to be possible Bloom-negative no-ops are not counted.
				explain := func(r relax) bool {
					for _, p := range puts {
						if p.call >= rd.ret {
							continue
						}
						killed := false
						for _, d := range dels {
							if d.call > p.ret && d.ret < rd.call && !excused(r, d) {
								killed = true
								break
							}
						}
						if !killed {
							return true
						}
					}
					return false
				}
				if !explain(relax{}) {
					cl := "rt/present-without-put/" + layers
					for _, r := range relaxations {
						// (relaxation A cannot excuse a Delete that was called after the Put returned)
						if (r.s || r.b) && explain(relax{s: r.s, b: r.b}) {
							cl = r.class
							break
						}
					}
					k.Fail(cl, "a key is reported present only if some Put could precede the read without a completed Delete in between",
						"absent", fmt.Sprintf("%s\n%s", rd, windowDump(part, builds, writes, key, rd.call-60, rd.ret)))
				}
			}
		}
		// ---- linearizability
		mk := func(r relax) ([]porcupine.Operation, int) {
			var po []porcupine.Operation
			nw := 0
			for _, e := range part {
				in := regIn{}
				var out interface{}
				switch {
				case e.isPut():
					in.op = 0
				case e.kind == "Delete":
					in.op = 1
				default:
					in.op = 2
					out = e.present
				}
				if (in.op == 1 || (in.op == 2 && !e.present)) && excused(r, e) {
					in.wildcard = true
					nw++
				}
				po = append(po, porcupine.Operation{ClientId: e.client, Input: in, Output: out, Call: e.call, Return: e.ret})
			}
			return po, nw
		}
		c.Count("porcupine_partitions", 1)
		strictOps, _ := mk(relax{})
		switch vhist.Check(regModel(false, initial[key]), strictOps, 20*time.Second) {
		case vhist.Ok:
		case vhist.Unknown:
			c.Inconclusive(1)
		case vhist.Illegal:
			c.Count("strict_nonlinearizable_partitions", 1)
			class := ""
			unknown := false
			nelig := 0
			for _, r := range relaxations {
				ops, nw := mk(r)
				if nw == 0 {
					continue
				}
				v := vhist.Check(regModel(true, initial[key]), ops, 20*time.Second)
				if v == vhist.Unknown {
					unknown = true
					break
				}
				if v == vhist.Ok {
					c.Count("relaxed_model_explained_partitions", 1)
					class, nelig = r.class, nw
					break
				}
			}
			witness := fmt.Sprintf("key k%d (initially present=%v), %d ops, %d eligible for the relaxed model\n%s", key, initial[key], len(part), nelig,
				minimalWitness(regModel(false, initial[key]), strictOps, part, builds, writes, key))
			switch {
			case unknown:
				c.Inconclusive(1)
			case class != "":
				k.Fail(class, "per-key history is linearizable against a register {absent|present}",
					"linearizable", "not linearizable; it becomes linearizable once the Bloom negatives (absent-reads, DeleteBlock short-cuts) that the recorded stamps attribute to the named mechanism are treated as wildcards (harness: eligS/eligA/eligB)\n"+witness)
			default:
				k.Fail("lin/not-linearizable/"+layers, "per-key history is linearizable against a register {absent|present}",
					"linearizable", "not linearizable, also not under the relaxed models\n"+witness)
			}
		}
	}
	if nontrivial {
		k.Nontrivial()
	}
}

func dump(es []ev) string {
	var sb strings.Builder
	for i, e := range es {
		if i >= 150 {
			fmt.Fprintf(&sb, "  … %d more\n", len(es)-i)
			break
		}
		sb.WriteString("  " + e.String() + "\n")
	}
	return sb.String()
}

// ---------------------------------------------------------------- hammer

// runHammer: keys are present and never written; readers spin while one
// goroutine rebuilds in a tight loop. Any "absent" refutes the headline clause.
func runHammer(k *vlib.Case, mode concMode) {
	r := k.R
	ctx := context.Background()
	cfg := stackCfg{writeThrough: r.Bool(), viewer: r.Bool(), bloomBytes: vlib.Pick(r, []int{1, 64, 4096}), bloomHashes: r.Range(1, 7)}
	if r.Chance(1, 3) {
		cfg.tqSize = vlib.Pick(r, []int{2, 64})
	}
	nkeys := r.Range(2, 5)
	keys := mkKeys(r, nkeys)
	nreaders := r.Range(3, 7)
	reads := k.C.N(5000, 12000)
	if v := os.Getenv("VERIF_C02_HAMMER_READS"); v != "" {
		fmt.Sscan(v, &reads)
	}
	procs := vlib.Pick(r, []int{2, 4, 4, 8, 0, 0})
	if v := os.Getenv("VERIF_C02_HAMMER_PROCS"); v != "" {
		fmt.Sscan(v, &procs)
	}
	k.Logf("config %s keys=%d (all present, never written) readers=%d reads/reader=%d GOMAXPROCS=%d (0 = unchanged), one goroutine calls Rebuild in a loop, no datastore delays", cfg, nkeys, nreaders, reads, procs)
	if procs > 0 {
		old := runtime.GOMAXPROCS(procs)
		defer runtime.GOMAXPROCS(old)
	}
	s := newBacking(cfg, nil)
	for _, b := range keys.blks {
		s.ref.Put(ctx, b)
	}
	var clock atomic.Int64
	tap := newTap(&clock, keys, s.fds)
	if err := s.wrap(ctx); err != nil {
		k.Fail("conc/construct-error/"+cfg.layers(), "CachedBlockstore succeeds", "nil", err.Error())
		return
	}
	if err := s.status.Wait(ctx); err != nil {
		k.Fail("conc/initial-build-error", "initial build succeeds", "nil", err.Error())
		return
	}
	var stop atomic.Bool
	var inRebuild atomic.Int32
	var builds []ev
	var bwg, wg sync.WaitGroup
	bwg.Add(1)
	go func() {
		defer bwg.Done()
		for !stop.Load() {
			e := ev{client: -1, kind: "Rebuild", call: clock.Add(1)}
			tap.lastQ.Store(0)
			tap.lastS.Store(0)
			inRebuild.Store(1)
			err := s.status.Rebuild(ctx)
			inRebuild.Store(0)
			e.q, e.s = tap.lastQ.Load(), tap.lastS.Load()
			e.ret = clock.Add(1)
			if err != nil {
				e.err = err.Error()
			}
			builds = append(builds, e)
		}
	}()
	bad := make([][]ev, nreaders)
	overl := make([]int64, nreaders)
	kindsOf := []string{"Has", "GetSize", "Get", "View"}
	seeds := make([]uint64, nreaders)
	for i := range seeds {
		seeds[i] = r.Uint64()
	}
	for ri := 0; ri < nreaders; ri++ {
		wg.Add(1)
		go func(ri int) {
			defer wg.Done()
			for i := 0; i < reads; i++ {
				h := mix(seeds[ri] + uint64(i))
				p := planned{kind: kindsOf[h%4], keys: []int{int(h>>8) % nkeys}}
				a := inRebuild.Load()
				e := execOp(ctx, s.top, &clock, ri, p, keys)
				if a == 1 || inRebuild.Load() == 1 {
					overl[ri]++
				}
				if !e.present || e.err != "" {
					bad[ri] = append(bad[ri], e)
				}
			}
		}(ri)
	}
	wg.Wait()
	stop.Store(true)
	bwg.Wait()
	var nover int64
	for _, o := range overl {
		nover += o
	}
	k.C.Count("hammer_reads", int64(nreaders*reads))
	k.C.Count("hammer_reads_overlapping_rebuild", nover)
	k.C.Count("hammer_rebuilds", int64(len(builds)))
	k.SetShape(fmt.Sprintf("hammer %s rebuilds=%d overlapping=%d", cfg, len(builds), nover))
	if nover >= 10 && len(builds) >= 2 {
		k.Nontrivial()
	}
	for _, b := range builds {
		if b.err != "" {
			k.Fail("conc/rebuild-error", "Rebuild succeeds without faults", "nil", b.String())
			break
		}
	}
	for _, l := range bad {
		for _, e := range l {
			if e.err != "" {
				k.Fail("conc/wrong-value/"+e.kind+"/"+cfg.layers(), "operations succeed and return the stored block", "no error, stored bytes", e.String())
				continue
			}
			cl := "rt/missing-after-put/" + cfg.layers()
			near := ""
			for _, b := range builds {
				if b.call < e.ret && b.q != 0 && e.call < b.q {
					cl = classSwap
					near = b.String()
					break
				}
			}
			k.Fail(cl, "a key whose Put returned before the read was called and that is never deleted is not reported missing",
				"present", fmt.Sprintf("%s   (key stored before the cache was built; no write ever issued); rebuild in whose swap window the read started: %s", e, near))
		}
	}
	finalCheck(k, ctx, s, keys, "conc/final-state")
}

// minimalWitness finds the shortest prefix (in real time) of a non-linearizable
// per-key history that is still non-linearizable and prints the operations
// around the read that closes it. In a prefix ending at time T, reads still
// pending at T are dropped and writes still pending stay open for ever (they
// may be linearized after everything else, i.e. without observable effect).
func minimalWitness(model porcupine.Model, ops []porcupine.Operation, part, builds []ev, writes []dsWrite, key int) string {
	var rets []int64
	for _, o := range ops {
		if o.Input.(regIn).op == 2 {
			rets = append(rets, o.Return)
		}
	}
	sort.Slice(rets, func(i, j int) bool { return rets[i] < rets[j] })
	const inf = int64(1) << 60
	illegal := func(T int64) bool {
		var sub []porcupine.Operation
		for _, o := range ops {
			if o.Call > T {
				continue
			}
			if o.Return > T {
				if o.Input.(regIn).op == 2 {
					continue
				}
				o.Return = inf
			}
			sub = append(sub, o)
		}
		return vhist.Check(model, sub, 10*time.Second) == vhist.Illegal
	}
	lo, hi := 0, len(rets)-1
	if hi < 0 || !illegal(rets[hi]) {
		return "(no minimal prefix found)\n" + dump(part) + "builds:\n" + dump(builds)
	}
	for lo < hi {
		mid := (lo + hi) / 2
		if illegal(rets[mid]) {
			hi = mid
		} else {
			lo = mid + 1
		}
	}
	T := rets[lo]
	var culprit ev
	for _, e := range part {
		if e.ret == T {
			culprit = e
		}
	}
	// context: the operations of this key that are called before T, last 30
	var ctxOps []ev
	for _, e := range part {
		if e.call <= T {
			ctxOps = append(ctxOps, e)
		}
	}
	from := int64(0)
	if len(ctxOps) > 30 {
		ctxOps = ctxOps[len(ctxOps)-30:]
	}
	if len(ctxOps) > 0 {
		from = ctxOps[0].call
	}
	var nb []ev
	for _, b := range builds {
		if b.ret >= from && b.call <= T {
			nb = append(nb, b)
		}
	}
	var ws strings.Builder
	for _, w := range writes {
		if w.key == key && w.post >= from && w.pre <= T {
			kind := "put"
			if w.del {
				kind = "delete"
			}
			fmt.Fprintf(&ws, "  datastore %s applied in (%d,%d)\n", kind, w.pre, w.post)
		}
	}
	return fmt.Sprintf("shortest non-linearizable prefix ends at t=%d with: %s\noperations on this key called before t=%d (last %d; an operation whose interval ends after %d was still in flight):\n%sdatastore-level writes of this key in that window:\n%sfilter builds in that window:\n%s",
		T, culprit, T, len(ctxOps), T, dump(ctxOps), ws.String(), dump(nb))
}

// windowDump prints what the monitor saw on one key between two clock values:
// client operations, datastore-level writes and filter builds.
func windowDump(part, builds []ev, writes []dsWrite, key int, from, to int64) string {
	var ops, bs []ev
	for _, e := range part {
		if e.ret >= from && e.call <= to {
			ops = append(ops, e)
		}
	}
	if len(ops) > 40 {
		ops = ops[len(ops)-40:]
	}
	for _, b := range builds {
		if b.ret >= from && b.call <= to {
			bs = append(bs, b)
		}
	}
	if len(bs) > 12 {
		bs = bs[len(bs)-12:]
	}
	var ws strings.Builder
	for _, w := range writes {
		if w.key == key && w.post >= from && w.pre <= to {
			kind := "put"
			if w.del {
				kind = "delete"
			}
			fmt.Fprintf(&ws, "  datastore %s applied in (%d,%d)\n", kind, w.pre, w.post)
		}
	}
	return fmt.Sprintf("operations on this key overlapping [%d,%d]:\n%sdatastore-level writes of this key:\n%sfilter builds:\n%s", from, to, dump(ops), ws.String(), dump(bs))
}
