package main

// Self-test of the history classifier (run: go test ./harness/c02 -run TestClassifier).
// It feeds hand-written histories to analyse() and checks the classes that
// come out, so that the relaxed models stay as narrow as intended.

import (
	"encoding/json"
	"os"
	"path/filepath"
	"sort"
	"strings"
	"testing"

	"verif/vlib"
)

type synth struct {
	name    string
	cfg     stackCfg
	all     []ev
	builds  []ev
	writes  []dsWrite
	initial bool
	want    []string // exact set of classes
}

func rd(c int, kind string, call, ret int64, present bool) ev {
	return ev{client: c, kind: kind, keys: []int{0}, call: call, ret: ret, present: present}
}
func wr(c int, kind string, call, ret int64) ev {
	return ev{client: c, kind: kind, keys: []int{0}, call: call, ret: ret}
}
func rb(call, ret, q, s int64) ev {
	return ev{client: -1, kind: "Rebuild", call: call, ret: ret, q: q, s: s}
}

func TestClassifier(t *testing.T) {
	both := stackCfg{tqSize: 64, bloomBytes: 4096, bloomHashes: 7}
	tqOnly := stackCfg{tqSize: 64}
	bloomOnly := stackCfg{bloomBytes: 4096, bloomHashes: 7}
	cases := []synth{
		{name: "B: second Delete is a Bloom-negative no-op while the first is in flight, then a stale 2Q positive (observed on the unchanged tree)",
			cfg:    both,
			all:    []ev{wr(5, "PutMany", 347, 352), rd(5, "Has", 353, 354, true), wr(5, "Delete", 355, 391), wr(1, "Delete", 367, 368), rd(4, "Has", 375, 376, true)},
			writes: []dsWrite{{0, false, 350, 351}, {0, true, 356, 357}},
			builds: []ev{rb(358, 363, 359, 360), rb(370, 639, 371, 390)},
			want:   []string{"bloom/negative-while-delete-in-flight"}},
		{name: "same history without a Bloom layer is a violation", cfg: tqOnly,
			all:    []ev{wr(5, "PutMany", 347, 352), rd(5, "Has", 353, 354, true), wr(5, "Delete", 355, 391), wr(1, "Delete", 367, 368), rd(4, "Has", 375, 376, true)},
			writes: []dsWrite{{0, false, 350, 351}, {0, true, 356, 357}},
			want:   []string{"lin/not-linearizable/tq", "rt/present-without-put/tq"}},
		{name: "same history but the first Delete had returned: violation", cfg: both,
			all:    []ev{wr(5, "PutMany", 347, 352), rd(5, "Has", 353, 354, true), wr(5, "Delete", 355, 365), wr(1, "Delete", 367, 368), rd(4, "Has", 375, 376, true)},
			writes: []dsWrite{{0, false, 350, 351}, {0, true, 356, 357}},
			builds: []ev{rb(358, 363, 359, 360), rb(370, 639, 371, 390)},
			want:   []string{"lin/not-linearizable/tq+bloom", "rt/present-without-put/tq+bloom"}},
		{name: "A: Bloom negative while a Put whose write landed after the snapshot is in flight", cfg: bloomOnly,
			all:    []ev{wr(0, "Delete", 1, 2), wr(1, "PutMany", 13, 30), rd(2, "Get", 16, 17, true), rd(2, "Has", 21, 22, false)},
			writes: []dsWrite{{0, true, 1, 2}, {0, false, 14, 15}},
			builds: []ev{rb(10, 20, 11, 12)},
			want:   []string{"bloom/negative-while-put-in-flight"}},
		{name: "like A but the write landed before the build's Query was issued: violation", cfg: bloomOnly,
			all:    []ev{wr(0, "Delete", 1, 2), wr(1, "PutMany", 5, 30), rd(2, "Get", 16, 17, true), rd(2, "Has", 21, 22, false)},
			writes: []dsWrite{{0, true, 1, 2}, {0, false, 6, 7}},
			builds: []ev{rb(10, 20, 11, 12)},
			want:   []string{"lin/not-linearizable/bloom"}},
		{name: "like A but the Put had returned before the read was called: headline violation", cfg: bloomOnly,
			all:    []ev{wr(0, "Delete", 1, 2), wr(1, "PutMany", 13, 19), rd(2, "Get", 16, 17, true), rd(2, "Has", 21, 22, false)},
			writes: []dsWrite{{0, true, 1, 2}, {0, false, 14, 15}},
			builds: []ev{rb(10, 20, 11, 12)},
			want:   []string{"lin/not-linearizable/bloom", "rt/missing-after-put/bloom"}},
		{name: "load-order window: stable key reported missing by a read that began before the Rebuild's Query", cfg: bloomOnly, initial: true,
			all:    []ev{rd(0, "Has", 5, 6, true), rd(3, "Get", 331, 334, false), rd(0, "Has", 400, 401, true)},
			builds: []ev{rb(332, 377, 333, 335)},
			want:   []string{classSwap}},
		{name: "stable key reported missing by a read that began after the Rebuild's Query: violation", cfg: bloomOnly, initial: true,
			all:    []ev{rd(0, "Has", 5, 6, true), rd(3, "Get", 340, 344, false), rd(0, "Has", 400, 401, true)},
			builds: []ev{rb(332, 377, 333, 335)},
			want:   []string{"lin/not-linearizable/bloom", "rt/missing-after-put/bloom"}},
		{name: "load-order window consumed by DeleteBlock: the Delete is a no-op, the key stays present (observed on the unchanged tree)", cfg: both,
			all:    []ev{wr(5, "PutMany", 339, 345), rd(5, "View", 362, 363, true), wr(2, "Put", 384, 385), wr(2, "Delete", 386, 389), rd(0, "Has", 397, 398, true)},
			writes: []dsWrite{{0, false, 340, 341}},
			builds: []ev{rb(359, 378, 360, 377), rb(387, 418, 388, 391)},
			want:   []string{classSwap}},
		{name: "same, but the Delete was called after the Rebuild's Query: violation", cfg: both,
			all:    []ev{wr(5, "PutMany", 339, 345), rd(5, "View", 362, 363, true), wr(2, "Put", 384, 385), wr(2, "Delete", 389, 390), rd(0, "Has", 397, 398, true)},
			writes: []dsWrite{{0, false, 340, 341}},
			builds: []ev{rb(359, 378, 360, 377), rb(387, 418, 388, 391)},
			want:   []string{"lin/not-linearizable/tq+bloom", "rt/present-without-put/tq+bloom"}},
		{name: "B explained although the swap-window relaxation would also fit (observed on the tree with the hasCached fix): B is tried first", cfg: both,
			all: []ev{wr(2, "Put", 336, 343), rd(2, "Get", 367, 368, true), wr(2, "Delete", 373, 413), rd(3, "GetSize", 384, 385, false),
				wr(3, "Put", 386, 387), rd(3, "View", 408, 419, false)},
			writes: []dsWrite{{0, false, 341, 342}, {0, true, 374, 375}},
			builds: []ev{rb(376, 379, 377, 378), rb(380, 383, 381, 382), rb(409, 412, 410, 411)},
			want:   []string{"bloom/negative-while-delete-in-flight"}},
		{name: "linearizable history with overlaps", cfg: both,
			all:  []ev{wr(0, "Put", 1, 10), rd(1, "Has", 2, 3, false), rd(1, "Has", 4, 5, true), wr(2, "Delete", 6, 20), rd(1, "Get", 11, 12, true), rd(1, "Get", 21, 22, false)},
			want: nil},
	}
	for i, sc := range cases {
		dir := t.TempDir()
		os.Setenv("VERIF_WORK", dir)
		os.Setenv("VERIF_BATCH", "0")
		os.Setenv("VERIF_NBATCH", "1")
		sc := sc
		vlib.Run("C02", func(c *vlib.Ctx) {
			c.Cases("synthetic", 1, func(k *vlib.Case) {
				sort.Slice(sc.all, func(a, b int) bool { return sc.all[a].call < sc.all[b].call })
				analyse(k, sc.cfg, concMode{}, sc.all, sc.builds, sc.writes, []bool{sc.initial}, 1)
			})
		})
		b, err := os.ReadFile(filepath.Join(dir, "result-0.json"))
		if err != nil {
			t.Fatal(err)
		}
		var res vlib.Result
		if err := json.Unmarshal(b, &res); err != nil {
			t.Fatal(err)
		}
		var got []string
		for cl := range res.ClassCounts {
			got = append(got, cl)
		}
		sort.Strings(got)
		want := append([]string(nil), sc.want...)
		sort.Strings(want)
		if strings.Join(got, " ") != strings.Join(want, " ") {
			t.Errorf("case %d (%s):\n got  %v\n want %v", i, sc.name, got, want)
		}
	}
}
