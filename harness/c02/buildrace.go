package main

import (
	"context"
	"fmt"
	"strings"
	"time"

	cid "github.com/ipfs/go-cid"

	"verif/vlib"
)

// Stratum seq-buildrace: one client, but the asynchronous initial Bloom build
// and a Rebuild are stepped against each other with gates inside the
// datastore's enumeration (no sleeps decide anything). The statement's
// headline clause names exactly this situation ("including while the Bloom
// filter is being built or rebuilt"): whatever the two builds do to each other,
// every answer must stay that of the backing store.
//
//	hold the initial build inside its enumeration
//	call Rebuild (goroutine)            -> with the builds serialized it waits;
//	                                       if not, it deactivates/swaps and is held in ITS enumeration
//	release the initial build, Wait()   -> sweep: every pre-existing key present
//	(Rebuild is now held in its enumeration in either case) -> sweep, a Put, a Delete
//	release Rebuild (optionally with an error entry) -> sweep, oracle on error/active
//	one clean Rebuild                   -> sweep
func buildRaceCase(k *vlib.Case) {
	vlib.Guard(k, "seq-buildrace", 120*time.Second, func() { runBuildRace(k) })
}

func runBuildRace(k *vlib.Case) {
	r := k.R
	ctx := context.Background()
	cfg := randCfg(r, true)
	cfg.twoCalls = r.Chance(1, 3)
	w := &seqWorld{k: k, r: r, ctx: ctx, uniSeen: map[string]bool{},
		answered: map[string]bool{}, hasAnswer: map[string]bool{}, flipped: map[string]bool{}}
	w.s = newBacking(cfg, nil)
	npre := r.Range(3, 16)
	var pre []string
	for i := 0; i < npre; i++ {
		data := append([]byte(fmt.Sprintf("pre-%d-", i)), r.Bytes(r.Range(0, 30))...)
		c := forms[r.Intn(5)].mk(data)
		w.note(c)
		if err := w.s.ref.Put(ctx, mkBlock(data, c)); err != nil {
			panic(err)
		}
		pre = append(pre, short(c))
	}
	gatePos := func() int {
		if r.Chance(1, 3) {
			return -1
		}
		return r.Range(0, npre)
	}
	g0, g1 := newGate(gatePos()), newGate(gatePos())
	w.s.fds.gates = map[int64]*queryGate{0: g0, 1: g1}
	failRebuild := r.Chance(1, 3)
	failPos := r.Range(0, npre)
	if g1.pos > failPos {
		failPos = r.Range(g1.pos, npre) // the error entry comes at or after the position Rebuild is held at
	}
	k.Logf("config %s", cfg)
	k.Logf("pre-existing blocks (%d): %s", npre, strings.Join(pre, " "))
	k.Logf("initial build held at enumeration position %d, Rebuild held at position %d (-1 = before the snapshot); Rebuild's enumeration yields an error entry: %v (at %d)", g0.pos, g1.pos, failRebuild, failPos)

	if err := w.s.wrap(ctx); err != nil {
		k.Fail("seq/construct-error/"+cfg.layers(), "CachedBlockstore succeeds for a valid configuration", "nil", err.Error())
		return
	}
	st := w.s.status
	<-g0.entered
	k.Logf("initial build is inside its enumeration: sweep")
	w.verifyAll("buildrace/initial-build-held", "")

	var plan *enumPlan
	if failRebuild {
		plan = &enumPlan{mode: enumError, pos: failPos, cancel: func() {}}
		w.s.fds.armEnum(plan) // consumed by the next Query, which is Rebuild's (the initial build already issued its own)
	}
	done := make(chan error, 1)
	k.Logf("Rebuild called (in a goroutine) while the initial build is held")
	go func() { done <- st.Rebuild(ctx) }()
	early := false
	select {
	case <-g1.entered:
		early = true
	case <-time.After(30 * time.Millisecond): // workload shaping only: no oracle depends on it
	}
	k.Logf("  -> Rebuild reached its own enumeration before the initial build finished: %v", early)
	k.C.Count("buildrace_rebuild_enumerating_before_initial_build_finished", b2i(early))
	w.verifyAll("buildrace/both-builds-in-flight", "")

	newData := append([]byte("put-during-builds-"), r.Bytes(8)...)
	newCid := forms[r.Intn(5)].mk(newData)
	w.note(newCid)
	k.Logf("Put %s (both builds unfinished)", short(newCid))
	if err := w.s.top.Put(ctx, mkBlock(newData, newCid)); err != nil {
		k.Fail("seq/Put-error/"+cfg.layers(), "Put succeeds when the backing store does", "nil", err.Error())
	}

	k.Logf("initial build released; Wait")
	close(g0.proceed)
	if err := st.Wait(ctx); err != nil {
		k.Fail("buildrace/initial-build-error", "an initial build without faults succeeds", "nil", err.Error())
	}
	k.Logf("  -> initial build finished, active=%v: sweep", st.BloomActive())
	w.verifyAll("buildrace/initial-build-finished-rebuild-pending", "")

	var err error
	returned := false
	select {
	case <-g1.entered:
	case err = <-done: // (its enumeration ended before the gate position)
		returned = true
	}
	k.Logf("Rebuild is inside its enumeration: %v (active=%v): sweep, Delete, Put, sweep", !returned, st.BloomActive())
	w.verifyAll("buildrace/rebuild-enumerating", "")
	var victim cid.Cid = w.universe[r.Intn(npre)]
	k.Logf("Delete %s", short(victim))
	if err := w.s.top.DeleteBlock(ctx, victim); err != nil {
		k.Fail("seq/Delete-error/"+cfg.layers(), "Delete succeeds when the backing store does", "nil", err.Error())
	}
	if has, _ := w.s.ref.Has(ctx, victim); has {
		k.Fail("seq/write-effect/Delete/"+cfg.layers(), "DeleteBlock removes the block from the backing store", "absent", "present (DeleteBlock was skipped)")
	}
	data2 := append([]byte("put-during-rebuild-"), r.Bytes(8)...)
	c2 := forms[r.Intn(5)].mk(data2)
	w.note(c2)
	k.Logf("Put %s", short(c2))
	if err := w.s.top.Put(ctx, mkBlock(data2, c2)); err != nil {
		k.Fail("seq/Put-error/"+cfg.layers(), "Put succeeds when the backing store does", "nil", err.Error())
	}
	w.verifyAll("buildrace/rebuild-enumerating", "")

	k.Logf("Rebuild released")
	close(g1.proceed)
	if !returned {
		err = <-done
	}
	active := st.BloomActive()
	k.Logf("  -> Rebuild returned %v, active=%v: sweep", err, active)
	if failRebuild {
		_, n, _, fired := plan.snapshot()
		if fired && err == nil {
			k.Fail("enum/error-swallowed/rebuild", "a build whose enumeration reported an error returns an error", "non-nil error", fmt.Sprintf("nil (error entry at position %d of %d)", plan.pos, n))
		}
		if err != nil && active {
			k.Fail("enum/active-after-failed-build/rebuild", "BloomActive()==false after a build that returned an error", "false", "true (err="+err.Error()+")")
		}
	} else if err != nil {
		k.Fail("seq/rebuild-error", "Rebuild succeeds when the enumeration does", "nil", err.Error())
	}
	w.verifyAll("buildrace/after-rebuild", "")

	k.Logf("Rebuild (clean)")
	if err := st.Rebuild(ctx); err != nil {
		k.Fail("seq/rebuild-error", "Rebuild succeeds when the enumeration does", "nil", err.Error())
	}
	w.verifyAll("buildrace/after-clean-rebuild", "")
	// measured: sweeps ran with the initial build finished while a Rebuild was inside its enumeration
	k.Nontrivial()
	k.C.Count("buildrace_cases", 1)
}
